import PoryProofs.ProgramMetaSel
/-
P2c helpers, part 2: the hand-selected file is a file of the grammar again.

* `selL_swf` (mutual induction): `SWF b → selectB env b = some b' → SWF b'`.
* `selectTops_twf` : `TWF ts → TWF (selectTops env ts)`.
* `noPoryL` / `selL_noPory` : the selected block contains no poryswitch statement.
-/
namespace Pory.P2c
open Pory Pory.Parser Pory.C02P Pory.StmtG Pory.TopParse Pory.P2
open Pory.C12c
open Pory.C14b (swVal)

theorem selectCase_mem {α : Type} (env : Env) (T : List (String × α)) (v : String) (r : α)
    (h : selectCase env T v = some r) : ∃ k, (k, r) ∈ T := by
  unfold selectCase at h
  cases h1 : T.lookup v with
  | some x =>
    rw [h1] at h
    simp only [Option.some.injEq] at h
    subst h
    exact ⟨v, C12.lookup_mem T v x h1⟩
  | none =>
    rw [h1] at h
    exact ⟨"_", C12.lookup_mem T "_" r h⟩

theorem swfL_append : ∀ (a b : List SStmt), swfL (a ++ b) = (swfL a && swfL b)
  | [], b => by simp [swfL]
  | x :: r, b => by simp only [List.cons_append, swfL, swfL_append r b, Bool.and_assoc]

/-! ### well-formedness is preserved -/

/-- Every selected form in the table is well formed. -/
def TableOK (P : List SStmt → Bool) (T : List (String × Option (List SStmt))) : Prop :=
  ∀ k l, (k, some l) ∈ T → P l = true

theorem TableOK.cons {P : List SStmt → Bool} {T : List (String × Option (List SStmt))} (h : TableOK P T)
    (k : String) (o : Option (List SStmt)) (ho : ∀ l, o = some l → P l = true) : TableOK P ((k, o) :: T) := by
  intro k' l hm
  rcases List.mem_cons.1 hm with he | hm
  · simp only [Prod.mk.injEq] at he
    exact ho l he.2.symm
  · exact h k' l hm

mutual
theorem selS_swf (env : Env) : ∀ (x : SStmt) (l : List SStmt), swfS x = true → selS env x = some l →
    swfL l = true
  | .cmd name lp a0 more rp, l, h, hs => by
    rw [selS] at hs; cases hs; simp only [swfL, h, Bool.and_self]
  | .cmdI name lp a0 more rp, l, h, hs => by
    rw [selS] at hs; cases hs; simp only [swfL, h, Bool.and_self]
  | .cmdE name lp rp, l, h, hs => by
    rw [selS] at hs; cases hs; simp only [swfL, h, Bool.and_self]
  | .cmd0 name, l, h, hs => by
    rw [selS] at hs; cases hs; simp only [swfL, h, Bool.and_self]
  | .label name colon, l, h, hs => by
    rw [selS] at hs; cases hs; simp only [swfL, h, Bool.and_self]
  | .labelS name lp sc rp colon, l, h, hs => by
    rw [selS] at hs; cases hs; simp only [swfL, h, Bool.and_self]
  | .brk t, l, h, hs => by
    rw [selS] at hs; cases hs; simp only [swfL, h, Bool.and_self]
  | .cont t, l, h, hs => by
    rw [selS] at hs; cases hs; simp only [swfL, h, Bool.and_self]
  | .ite i lp c rp lb body rb elifs els, l, h, hs => by
    rw [selS] at hs
    cases h1 : selL env body with
    | none => simp [h1] at hs
    | some b =>
      cases h2 : selElifs env elifs with
      | none => simp [h1, h2] at hs
      | some es =>
        cases h3 : selElse env els with
        | none => simp [h1, h2, h3] at hs
        | some el =>
          simp only [h1, h2, h3, Option.some.injEq] at hs
          subst hs
          simp only [swfS, Bool.and_eq_true] at h
          have i1 := selL_swf env body b h.1.1.1.2 h1
          have i2 := selElifs_swf env elifs es h.1.1.2 h2
          have i3 := selElse_swf env els el h.1.2 h3
          simp only [swfL, swfS, i1, i2, i3, h.1.1.1.1, h.2, Bool.and_self]
  | .while_ w lp c rp lb body rb, l, h, hs => by
    rw [selS] at hs
    cases h1 : selL env body with
    | none => simp [h1] at hs
    | some b =>
      simp only [h1, Option.some.injEq] at hs
      subst hs
      simp only [swfS, Bool.and_eq_true] at h
      have i1 := selL_swf env body b h.1.2 h1
      simp only [swfL, swfS, i1, h.1.1, h.2, Bool.and_self]
  | .whileInf w lb body rb, l, h, hs => by
    rw [selS] at hs
    cases h1 : selL env body with
    | none => simp [h1] at hs
    | some b =>
      simp only [h1, Option.some.injEq] at hs
      subst hs
      simp only [swfS, Bool.and_eq_true] at h
      have i1 := selL_swf env body b h.2 h1
      simp only [swfL, swfS, i1, h.1, Bool.and_self]
  | .doWhile d lb body rb w lp c rp, l, h, hs => by
    rw [selS] at hs
    cases h1 : selL env body with
    | none => simp [h1] at hs
    | some b =>
      simp only [h1, Option.some.injEq] at hs
      subst hs
      simp only [swfS, Bool.and_eq_true] at h
      have i1 := selL_swf env body b h.1.2 h1
      simp only [swfL, swfS, i1, h.1.1, h.2, Bool.and_self]
  | .switch_ sw lp v lp2 ops rp2 rp lb cases rb, l, h, hs => by
    rw [selS] at hs
    cases h1 : selCases env cases with
    | none => simp [h1] at hs
    | some cs =>
      simp only [h1, Option.some.injEq] at hs
      subst hs
      simp only [swfS, Bool.and_eq_true] at h
      have i1 := selCases_swf env cases cs h.2 h1
      simp only [swfL, swfS, i1, h.1, Bool.and_self]
  | .switchA sw lp name lp2 a0 more rp2 rp lb cases rb, l, h, hs => by
    rw [selS] at hs
    cases h1 : selCases env cases with
    | none => simp [h1] at hs
    | some cs =>
      simp only [h1, Option.some.injEq] at hs
      subst hs
      simp only [swfS, Bool.and_eq_true] at h
      have i1 := selCases_swf env cases cs h.2 h1
      simp only [swfL, swfS, i1, h.1, Bool.and_self]
  | .pory ps lp x rp lb cases rb, l, h, hs => by
    rw [selS] at hs
    simp only [swfS, Bool.and_eq_true] at h
    have ht := selPCases_swf env cases [] h.2 (fun _ _ hm => nomatch hm)
    split at hs
    · cases hs
    · split at hs
      · cases hs
      · cases hsel : selectCase env (selPCases env cases []) (swVal env x.lit) with
        | some r =>
          rw [hsel] at hs
          simp only at hs
          obtain ⟨k, hk⟩ := selectCase_mem env _ _ r hsel
          rw [hs] at hk
          exact ht k l hk
        | none =>
          rw [hsel] at hs
          simp only at hs
          split at hs
          · cases hs
          · cases hs; rfl
theorem selL_swf (env : Env) : ∀ (b l : List SStmt), swfL b = true → selL env b = some l → swfL l = true
  | [], l, _, hs => by rw [selL] at hs; cases hs; rfl
  | x :: r, l, h, hs => by
    rw [selL] at hs
    simp only [swfL, Bool.and_eq_true] at h
    cases h1 : selS env x with
    | none => simp [h1] at hs
    | some a =>
      cases h2 : selL env r with
      | none => simp [h1, h2] at hs
      | some b =>
        simp only [h1, h2, Option.some.injEq] at hs
        subst hs
        rw [swfL_append, selS_swf env x a h.1 h1, selL_swf env r b h.2 h2]
        rfl
theorem selElifs_swf (env : Env) : ∀ (es es' : List SElif), swfElifs es = true → selElifs env es = some es' →
    swfElifs es' = true
  | [], l, _, hs => by rw [selElifs] at hs; cases hs; rfl
  | .mk e lp c rp lb body rb :: r, l, h, hs => by
    rw [selElifs] at hs
    simp only [swfElifs, swfElif, Bool.and_eq_true] at h
    cases h1 : selL env body with
    | none => simp [h1] at hs
    | some b =>
      cases h2 : selElifs env r with
      | none => simp [h1, h2] at hs
      | some es =>
        simp only [h1, h2, Option.some.injEq] at hs
        subst hs
        have i1 := selL_swf env body b h.1.1.2 h1
        have i2 := selElifs_swf env r es h.2 h2
        simp only [swfElifs, swfElif, i1, i2, h.1.1.1, h.1.2, Bool.and_self]
theorem selElse_swf (env : Env) : ∀ (el el' : SElse), swfElse el = true → selElse env el = some el' →
    swfElse el' = true
  | .none, l, _, hs => by rw [selElse] at hs; cases hs; rfl
  | .some e lb body rb, l, h, hs => by
    rw [selElse] at hs
    simp only [swfElse, Bool.and_eq_true] at h
    cases h1 : selL env body with
    | none => simp [h1] at hs
    | some b =>
      simp only [h1, Option.some.injEq] at hs
      subst hs
      have i1 := selL_swf env body b h.2 h1
      simp only [swfElse, i1, h.1, Bool.and_self]
theorem selCases_swf (env : Env) : ∀ (cs cs' : List SCase), swfCases cs = true → selCases env cs = some cs' →
    swfCases cs' = true
  | [], l, _, hs => by rw [selCases] at hs; cases hs; rfl
  | .case c vs colon body :: r, l, h, hs => by
    rw [selCases] at hs
    simp only [swfCases, swfCase, Bool.and_eq_true] at h
    cases h1 : selL env body with
    | none => simp [h1] at hs
    | some b =>
      cases h2 : selCases env r with
      | none => simp [h1, h2] at hs
      | some cs =>
        simp only [h1, h2, Option.some.injEq] at hs
        subst hs
        have i1 := selL_swf env body b h.1.2 h1
        have i2 := selCases_swf env r cs h.2 h2
        simp only [swfCases, swfCase, i1, i2, h.1.1, Bool.and_self]
  | .dflt d colon body :: r, l, h, hs => by
    rw [selCases] at hs
    simp only [swfCases, swfCase, Bool.and_eq_true] at h
    cases h1 : selL env body with
    | none => simp [h1] at hs
    | some b =>
      cases h2 : selCases env r with
      | none => simp [h1, h2] at hs
      | some cs =>
        simp only [h1, h2, Option.some.injEq] at hs
        subst hs
        have i1 := selL_swf env body b h.1.2 h1
        have i2 := selCases_swf env r cs h.2 h2
        simp only [swfCases, swfCase, i1, i2, h.1.1, Bool.and_self]
theorem selPCases_swf (env : Env) : ∀ (cs : List SPCase) (acc : List (String × Option (List SStmt))),
    swfPCases cs = true → TableOK swfL acc → TableOK swfL (selPCases env cs acc)
  | [], acc, _, ha => by rw [selPCases]; exact ha
  | .colon key ct x :: r, acc, h, ha => by
    rw [selPCases]
    simp only [swfPCases, swfPCase, Bool.and_eq_true] at h
    exact selPCases_swf env r _ h.2 (ha.cons _ _ (fun l hl => selS_swf env x l h.1.2 hl))
  | .brace key lbt body rbt :: r, acc, h, ha => by
    rw [selPCases]
    simp only [swfPCases, swfPCase, Bool.and_eq_true] at h
    exact selPCases_swf env r _ h.2 (ha.cons _ _ (fun l hl => selL_swf env body l h.1.2 hl))
end

/-- The selected block of a well-formed block is well formed. -/
theorem selectB_swf (env : Env) (b b' : List SStmt) (h : SWF b) (hs : selectB env b = some b') : SWF b' :=
  selL_swf env b b' h hs

theorem selTop_wf (env : Env) (t : STop) (h : TopWF t) : TopWF (selTop env t) := by
  cases t with
  | script kw md name lb body rb =>
    simp only [selTop]
    cases hs : selectB env body with
    | none => exact h
    | some b' =>
      simp only [TopWF] at h ⊢
      exact ⟨h.1, h.2.1, h.2.2.1, h.2.2.2.1, selectB_swf env body b' h.2.2.2.2.1 hs, h.2.2.2.2.2⟩
  | _ => exact h

theorem selTop_isConst (env : Env) (t : STop) : (selTop env t).isConst = t.isConst := by
  cases t <;> rfl

/-- **The hand-selected file is a file of the grammar.** -/
theorem selectTops_twf (env : Env) : ∀ (ts : List STop), TWF ts → TWF (selectTops env ts)
  | [], _ => trivial
  | t :: r, h => by
    obtain ⟨h1, h2, h3⟩ := h
    refine ⟨selTop_wf env t h1, ?_, selectTops_twf env r h3⟩
    intro hc hn
    rw [selTop_isConst] at hc
    exact h2 hc (by cases r with
      | nil => rfl
      | cons x y => simp at hn)

/-! ### no poryswitch is left -/

mutual
def noPoryS : SStmt → Bool
  | .ite _ _ _ _ _ body _ elifs els => noPoryL body && noPoryElifs elifs && noPoryElse els
  | .while_ _ _ _ _ _ body _ => noPoryL body
  | .whileInf _ _ body _ => noPoryL body
  | .doWhile _ _ body _ _ _ _ _ => noPoryL body
  | .switch_ _ _ _ _ _ _ _ _ cases _ => noPoryCases cases
  | .switchA _ _ _ _ _ _ _ _ _ cases _ => noPoryCases cases
  | .pory .. => false
  | _ => true
def noPoryL : List SStmt → Bool
  | [] => true
  | x :: r => noPoryS x && noPoryL r
def noPoryElifs : List SElif → Bool
  | [] => true
  | .mk _ _ _ _ _ body _ :: r => noPoryL body && noPoryElifs r
def noPoryElse : SElse → Bool
  | .none => true
  | .some _ _ body _ => noPoryL body
def noPoryCases : List SCase → Bool
  | [] => true
  | .case _ _ _ body :: r => noPoryL body && noPoryCases r
  | .dflt _ _ body :: r => noPoryL body && noPoryCases r
end

theorem noPoryL_append : ∀ (a b : List SStmt), noPoryL (a ++ b) = (noPoryL a && noPoryL b)
  | [], b => by simp [noPoryL]
  | x :: r, b => by simp only [List.cons_append, noPoryL, noPoryL_append r b, Bool.and_assoc]

mutual
theorem selS_noPory (env : Env) : ∀ (x : SStmt) (l : List SStmt), selS env x = some l → noPoryL l = true
  | .cmd name lp a0 more rp, l, hs => by rw [selS] at hs; cases hs; rfl
  | .cmdI name lp a0 more rp, l, hs => by rw [selS] at hs; cases hs; rfl
  | .cmdE name lp rp, l, hs => by rw [selS] at hs; cases hs; rfl
  | .cmd0 name, l, hs => by rw [selS] at hs; cases hs; rfl
  | .label name colon, l, hs => by rw [selS] at hs; cases hs; rfl
  | .labelS name lp sc rp colon, l, hs => by rw [selS] at hs; cases hs; rfl
  | .brk t, l, hs => by rw [selS] at hs; cases hs; rfl
  | .cont t, l, hs => by rw [selS] at hs; cases hs; rfl
  | .ite i lp c rp lb body rb elifs els, l, hs => by
    rw [selS] at hs
    cases h1 : selL env body with
    | none => simp [h1] at hs
    | some b =>
      cases h2 : selElifs env elifs with
      | none => simp [h1, h2] at hs
      | some es =>
        cases h3 : selElse env els with
        | none => simp [h1, h2, h3] at hs
        | some el =>
          simp only [h1, h2, h3, Option.some.injEq] at hs
          subst hs
          simp only [noPoryL, noPoryS, selL_noPory env body b h1, selElifs_noPory env elifs es h2,
            selElse_noPory env els el h3, Bool.and_self]
  | .while_ w lp c rp lb body rb, l, hs => by
    rw [selS] at hs
    cases h1 : selL env body with
    | none => simp [h1] at hs
    | some b =>
      simp only [h1, Option.some.injEq] at hs
      subst hs
      simp only [noPoryL, noPoryS, selL_noPory env body b h1, Bool.and_self]
  | .whileInf w lb body rb, l, hs => by
    rw [selS] at hs
    cases h1 : selL env body with
    | none => simp [h1] at hs
    | some b =>
      simp only [h1, Option.some.injEq] at hs
      subst hs
      simp only [noPoryL, noPoryS, selL_noPory env body b h1, Bool.and_self]
  | .doWhile d lb body rb w lp c rp, l, hs => by
    rw [selS] at hs
    cases h1 : selL env body with
    | none => simp [h1] at hs
    | some b =>
      simp only [h1, Option.some.injEq] at hs
      subst hs
      simp only [noPoryL, noPoryS, selL_noPory env body b h1, Bool.and_self]
  | .switch_ sw lp v lp2 ops rp2 rp lb cases rb, l, hs => by
    rw [selS] at hs
    cases h1 : selCases env cases with
    | none => simp [h1] at hs
    | some cs =>
      simp only [h1, Option.some.injEq] at hs
      subst hs
      simp only [noPoryL, noPoryS, selCases_noPory env cases cs h1, Bool.and_self]
  | .switchA sw lp name lp2 a0 more rp2 rp lb cases rb, l, hs => by
    rw [selS] at hs
    cases h1 : selCases env cases with
    | none => simp [h1] at hs
    | some cs =>
      simp only [h1, Option.some.injEq] at hs
      subst hs
      simp only [noPoryL, noPoryS, selCases_noPory env cases cs h1, Bool.and_self]
  | .pory ps lp x rp lb cases rb, l, hs => by
    rw [selS] at hs
    have ht := selPCases_noPory env cases [] (fun _ _ hm => nomatch hm)
    split at hs
    · cases hs
    · split at hs
      · cases hs
      · cases hsel : selectCase env (selPCases env cases []) (swVal env x.lit) with
        | some r =>
          rw [hsel] at hs
          simp only at hs
          obtain ⟨k, hk⟩ := selectCase_mem env _ _ r hsel
          rw [hs] at hk
          exact ht k l hk
        | none =>
          rw [hsel] at hs
          simp only at hs
          split at hs
          · cases hs
          · cases hs; rfl
theorem selL_noPory (env : Env) : ∀ (b l : List SStmt), selL env b = some l → noPoryL l = true
  | [], l, hs => by rw [selL] at hs; cases hs; rfl
  | x :: r, l, hs => by
    rw [selL] at hs
    cases h1 : selS env x with
    | none => simp [h1] at hs
    | some a =>
      cases h2 : selL env r with
      | none => simp [h1, h2] at hs
      | some b =>
        simp only [h1, h2, Option.some.injEq] at hs
        subst hs
        rw [noPoryL_append, selS_noPory env x a h1, selL_noPory env r b h2]
        rfl
theorem selElifs_noPory (env : Env) : ∀ (es es' : List SElif), selElifs env es = some es' →
    noPoryElifs es' = true
  | [], l, hs => by rw [selElifs] at hs; cases hs; rfl
  | .mk e lp c rp lb body rb :: r, l, hs => by
    rw [selElifs] at hs
    cases h1 : selL env body with
    | none => simp [h1] at hs
    | some b =>
      cases h2 : selElifs env r with
      | none => simp [h1, h2] at hs
      | some es =>
        simp only [h1, h2, Option.some.injEq] at hs
        subst hs
        simp only [noPoryElifs, selL_noPory env body b h1, selElifs_noPory env r es h2, Bool.and_self]
theorem selElse_noPory (env : Env) : ∀ (el el' : SElse), selElse env el = some el' → noPoryElse el' = true
  | .none, l, hs => by rw [selElse] at hs; cases hs; rfl
  | .some e lb body rb, l, hs => by
    rw [selElse] at hs
    cases h1 : selL env body with
    | none => simp [h1] at hs
    | some b =>
      simp only [h1, Option.some.injEq] at hs
      subst hs
      simp only [noPoryElse, selL_noPory env body b h1]
theorem selCases_noPory (env : Env) : ∀ (cs cs' : List SCase), selCases env cs = some cs' →
    noPoryCases cs' = true
  | [], l, hs => by rw [selCases] at hs; cases hs; rfl
  | .case c vs colon body :: r, l, hs => by
    rw [selCases] at hs
    cases h1 : selL env body with
    | none => simp [h1] at hs
    | some b =>
      cases h2 : selCases env r with
      | none => simp [h1, h2] at hs
      | some cs =>
        simp only [h1, h2, Option.some.injEq] at hs
        subst hs
        simp only [noPoryCases, selL_noPory env body b h1, selCases_noPory env r cs h2, Bool.and_self]
  | .dflt d colon body :: r, l, hs => by
    rw [selCases] at hs
    cases h1 : selL env body with
    | none => simp [h1] at hs
    | some b =>
      cases h2 : selCases env r with
      | none => simp [h1, h2] at hs
      | some cs =>
        simp only [h1, h2, Option.some.injEq] at hs
        subst hs
        simp only [noPoryCases, selL_noPory env body b h1, selCases_noPory env r cs h2, Bool.and_self]
theorem selPCases_noPory (env : Env) : ∀ (cs : List SPCase) (acc : List (String × Option (List SStmt))),
    TableOK noPoryL acc → TableOK noPoryL (selPCases env cs acc)
  | [], acc, ha => by rw [selPCases]; exact ha
  | .colon key ct x :: r, acc, ha => by
    rw [selPCases]
    exact selPCases_noPory env r _ (ha.cons _ _ (fun l hl => selS_noPory env x l hl))
  | .brace key lbt body rbt :: r, acc, ha => by
    rw [selPCases]
    exact selPCases_noPory env r _ (ha.cons _ _ (fun l hl => selL_noPory env body l hl))
end

/-- No statement-level poryswitch in the script bodies of a file. -/
def NoPoryTop : STop → Prop
  | .script _ _ _ _ body _ => noPoryL body = true
  | _ => True

instance : DecidablePred NoPoryTop := fun t => by cases t <;> unfold NoPoryTop <;> exact inferInstance

end Pory.P2c
