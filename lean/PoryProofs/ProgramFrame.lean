import PoryProofs.ProgramIds
import PoryProofs.ProgramConst
import PoryProofs.ProgramGrammar
import PoryProofs.HoistLemmas
/-
P2 helpers: the frame lemma of the file elaboration.

Two runs of `elabTops env ts` from states `a0` (the "alone" run) and `b0` (the run inside a bigger file) that
agree — on the token literals, hoisted text / movement keys and script names `ts` uses (`Dom`) — on the
constants, the dedupe tables and the label counters, while the two id counters of `b0` are ahead by `(dc, ds)`:
* fail with the same error, or both succeed;
* the statements are the same up to the shift of command ids by `dc` and scope ids by `ds` (`relTop`), every
  command id of the alone run lying between its counters;
* the states agree again, and both grew by the same hoisted texts, movements, text statements and — up to the
  shift of the command ids — patches (`Delta`).
-/
namespace Pory.P2
open Pory Pory.Parser Pory.C02P Pory.StmtG Pory.TopParse
open Pory.C12c
open Pory.C14b (Item printItems expand)

/-! ### `elabE` under a shift of the counters -/

theorem elabE_shift (env : Env) (sn : String) (c : Ctx) (hB : c.breakStack = []) (hC : c.continueStack = [])
    (ds dc : Nat) (b : List SStmt) :
    elabE env sn { c with nextSid := c.nextSid + ds, nextCmdId := c.nextCmdId + dc } b =
      match elabE env sn c b with
      | .error e => .error e
      | .ok (stmts, imp, c') =>
        .ok (mapL (· + dc) (· + ds) stmts, mapImp (· + dc) imp,
             { c' with nextSid := c'.nextSid + ds, nextCmdId := c'.nextCmdId + dc }) := by
  unfold elabE
  have h := elabL_shift env sn (substC c.consts) ds dc b [] [] true c.nextSid c.nextCmdId
  simp only [List.map_nil] at h
  simp only [hB, hC, h]
  cases elabL env sn (substC c.consts) [] [] true b c.nextSid c.nextCmdId with
  | error e => rfl
  | ok q => obtain ⟨a, m, s1, c1⟩ := q; rfl

theorem elabE_ids (env : Env) (sn : String) (c : Ctx) (b : List SStmt) (stmts : List Stmt) (imp : ImpData)
    (c' : Ctx) (h : elabE env sn c b = .ok (stmts, imp, c')) :
    c.nextCmdId ≤ c'.nextCmdId ∧ RelL (Rid c.nextCmdId c'.nextCmdId) stmts stmts ∧
      relImp (Rid c.nextCmdId c'.nextCmdId) imp imp := by
  unfold elabE at h
  cases hl : elabL env sn (substC c.consts) c.breakStack c.continueStack true b c.nextSid c.nextCmdId with
  | error e => simp [hl] at h
  | ok q =>
    obtain ⟨a, m, s1, c1⟩ := q
    simp only [hl, Except.ok.injEq, Prod.mk.injEq] at h
    obtain ⟨rfl, rfl, rfl⟩ := h
    exact elabL_ids env sn _ b _ _ _ _ _ _ _ _ _ hl

/-! ### what `addImp` leaves alone -/

theorem foldl_keep {α β : Type} (step : PState → α → PState) (P : PState → β)
    (h : ∀ s t, P (step s t) = P s) : ∀ (l : List α) (s : PState), P (l.foldl step s) = P s
  | [], _ => rfl
  | x :: r, s => by rw [List.foldl_cons, foldl_keep step P h r, h]

theorem addImp_keep {β : Type} (P : PState → β) (hT : ∀ s t, P (addTextStep s t) = P s)
    (hM : ∀ s t, P (addMovementStep s t) = P s) (imp : ImpData) (s : PState) : P (addImp imp s) = P s := by
  unfold addImp
  rw [foldl_keep _ P hM, foldl_keep _ P hT]

theorem addTextStep_keep {β : Type} (P : PState → β)
    (h : ∀ (s : PState) a b c d, P { s with patches := a, inlineTextCounts := b, inlineTextsSet := c, inlineTexts := d } = P s)
    (s : PState) (t : ImpText) : P (addTextStep s t) = P s := by
  unfold addTextStep
  cases hl : s.inlineTextsSet.lookup (t.text.lit, t.stringType) with
  | some l => simp only [hl]; exact h s _ _ _ _
  | none => simp only [hl]; exact h s _ _ _ _

theorem addMovementStep_keep {β : Type} (P : PState → β)
    (h : ∀ (s : PState) a b c d,
      P { s with patches := a, inlineMovementCounts := b, inlineMovementsSet := c, inlineMovements := d } = P s)
    (s : PState) (t : ImpMovement) : P (addMovementStep s t) = P s := by
  unfold addMovementStep
  cases hl : s.inlineMovementsSet.lookup (getMovementsKey t.movements) with
  | some l => simp only [hl]; exact h s _ _ _ _
  | none => simp only [hl]; exact h s _ _ _ _

theorem addImp_constants (imp : ImpData) (s : PState) : (addImp imp s).constants = s.constants :=
  addImp_keep _ (addTextStep_keep _ fun _ _ _ _ _ => rfl) (addMovementStep_keep _ fun _ _ _ _ _ => rfl) imp s
theorem addImp_nextCmdId (imp : ImpData) (s : PState) : (addImp imp s).nextCmdId = s.nextCmdId :=
  addImp_keep _ (addTextStep_keep _ fun _ _ _ _ _ => rfl) (addMovementStep_keep _ fun _ _ _ _ _ => rfl) imp s
theorem addImp_nextSid (imp : ImpData) (s : PState) : (addImp imp s).nextSid = s.nextSid :=
  addImp_keep _ (addTextStep_keep _ fun _ _ _ _ _ => rfl) (addMovementStep_keep _ fun _ _ _ _ _ => rfl) imp s
theorem addImp_breakStack (imp : ImpData) (s : PState) : (addImp imp s).breakStack = s.breakStack :=
  addImp_keep _ (addTextStep_keep _ fun _ _ _ _ _ => rfl) (addMovementStep_keep _ fun _ _ _ _ _ => rfl) imp s
theorem addImp_continueStack (imp : ImpData) (s : PState) : (addImp imp s).continueStack = s.continueStack :=
  addImp_keep _ (addTextStep_keep _ fun _ _ _ _ _ => rfl) (addMovementStep_keep _ fun _ _ _ _ _ => rfl) imp s
theorem addImp_textStatements (imp : ImpData) (s : PState) : (addImp imp s).textStatements = s.textStatements :=
  addImp_keep _ (addTextStep_keep _ fun _ _ _ _ _ => rfl) (addMovementStep_keep _ fun _ _ _ _ _ => rfl) imp s

/-! ### the hoisting tables -/

/-- The token literals, hoisted-text keys `(terminated value, string type)`, hoisted-movement keys and script
names on which two states are compared. -/
structure Dom where
  lit : String → Prop
  kt : String × String → Prop
  km : String → Prop
  n : String → Prop

/-- The dedupe tables and the label counters of `a` and `b` agree on the domain. -/
structure Hoist (D : Dom) (a b : PState) : Prop where
  ts : ∀ k, D.kt k → b.inlineTextsSet.lookup k = a.inlineTextsSet.lookup k
  tc : ∀ n, D.n n → lookupD b.inlineTextCounts n = lookupD a.inlineTextCounts n
  ms : ∀ k, D.km k → b.inlineMovementsSet.lookup k = a.inlineMovementsSet.lookup k
  mc : ∀ n, D.n n → lookupD b.inlineMovementCounts n = lookupD a.inlineMovementCounts n

/-- From `(a0, b0)` to `(a, b)` both states grew by the same hoisted texts, movements and text statements, and
by patches that correspond under `R`. -/
structure Delta (R : Ren) (a0 b0 a b : PState) : Prop where
  texts : ∃ Δ, a.inlineTexts = a0.inlineTexts ++ Δ ∧ b.inlineTexts = b0.inlineTexts ++ Δ
  moves : ∃ Δ, a.inlineMovements = a0.inlineMovements ++ Δ ∧ b.inlineMovements = b0.inlineMovements ++ Δ
  stmts : ∃ Δ, a.textStatements = a0.textStatements ++ Δ ∧ b.textStatements = b0.textStatements ++ Δ
  patches : ∃ Δ Δ', a.patches = a0.patches ++ Δ ∧ b.patches = b0.patches ++ Δ' ∧ All2 (relPatch R) Δ' Δ

theorem Delta.refl (R : Ren) (a b : PState) : Delta R a b a b :=
  ⟨⟨[], by simp, by simp⟩, ⟨[], by simp, by simp⟩, ⟨[], by simp, by simp⟩, ⟨[], [], by simp, by simp, trivial⟩⟩

theorem Delta.trans {R : Ren} {a0 b0 a1 b1 a2 b2 : PState} (h1 : Delta R a0 b0 a1 b1)
    (h2 : Delta R a1 b1 a2 b2) : Delta R a0 b0 a2 b2 := by
  obtain ⟨⟨t1, ta1, tb1⟩, ⟨m1, ma1, mb1⟩, ⟨s1, sa1, sb1⟩, ⟨p1, p1', pa1, pb1, pr1⟩⟩ := h1
  obtain ⟨⟨t2, ta2, tb2⟩, ⟨m2, ma2, mb2⟩, ⟨s2, sa2, sb2⟩, ⟨p2, p2', pa2, pb2, pr2⟩⟩ := h2
  exact ⟨⟨t1 ++ t2, by rw [ta2, ta1, List.append_assoc], by rw [tb2, tb1, List.append_assoc]⟩,
    ⟨m1 ++ m2, by rw [ma2, ma1, List.append_assoc], by rw [mb2, mb1, List.append_assoc]⟩,
    ⟨s1 ++ s2, by rw [sa2, sa1, List.append_assoc], by rw [sb2, sb1, List.append_assoc]⟩,
    ⟨p1 ++ p2, p1' ++ p2', by rw [pa2, pa1, List.append_assoc], by rw [pb2, pb1, List.append_assoc],
      All2.append pr1 pr2⟩⟩

theorem Delta.mono {R Q : Ren} (h : R.Sub Q) {a0 b0 a b : PState} (hd : Delta R a0 b0 a b) : Delta Q a0 b0 a b := by
  obtain ⟨ht, hm, hs, ⟨p, p', pa, pb, pr⟩⟩ := hd
  exact ⟨ht, hm, hs, ⟨p, p', pa, pb, All2.imp (fun _ _ hp => ⟨h.1 _ _ hp.1, hp.2⟩) pr⟩⟩

theorem addTextStep_frame {D : Dom} {R : Ren} {a b : PState} (hH : Hoist D a b) {t' t : ImpText}
    (ht : relText R t' t) (hk : D.kt (t.text.lit, t.stringType)) (hn : D.n t.scriptName) :
    Hoist D (addTextStep a t) (addTextStep b t') ∧ Delta R a b (addTextStep a t) (addTextStep b t') := by
  obtain ⟨h1, h2, h3, h4, h5⟩ := ht
  unfold addTextStep
  simp only [h2, h3, h4, h5, hH.ts _ hk, hH.tc _ hn]
  cases hl : a.inlineTextsSet.lookup (t.text.lit, t.stringType) with
  | some label =>
    simp only
    exact ⟨⟨hH.ts, hH.tc, hH.ms, hH.mc⟩,
      ⟨⟨[], by simp, by simp⟩, ⟨[], by simp, by simp⟩, ⟨[], by simp, by simp⟩,
        ⟨[_], [_], rfl, rfl, ⟨h1, rfl, rfl⟩, trivial⟩⟩⟩
  | none =>
    simp only
    refine ⟨⟨?_, ?_, hH.ms, hH.mc⟩,
      ⟨⟨[_], rfl, rfl⟩, ⟨[], by simp, by simp⟩, ⟨[], by simp, by simp⟩,
        ⟨[_], [_], rfl, rfl, ⟨h1, rfl, rfl⟩, trivial⟩⟩⟩
    · intro k hkk
      simp only [List.lookup_cons]
      cases k == (t.text.lit, t.stringType) with
      | true => rfl
      | false => exact hH.ts k hkk
    · intro n hnn
      by_cases hne : n = t.scriptName
      · subst hne
        rw [Hoist.lookupD_setCount_same, Hoist.lookupD_setCount_same]
      · rw [Hoist.lookupD_setCount_other _ _ _ _ hne, Hoist.lookupD_setCount_other _ _ _ _ hne]
        exact hH.tc n hnn

theorem addMovementStep_frame {D : Dom} {R : Ren} {a b : PState} (hH : Hoist D a b) {t' t : ImpMovement}
    (ht : relMove R t' t) (hk : D.km (getMovementsKey t.movements)) (hn : D.n t.scriptName) :
    Hoist D (addMovementStep a t) (addMovementStep b t') ∧
      Delta R a b (addMovementStep a t) (addMovementStep b t') := by
  obtain ⟨h1, h2, h3, h4, h5⟩ := ht
  unfold addMovementStep
  simp only [h2, h3, h4, h5, hH.ms _ hk, hH.mc _ hn]
  cases hl : a.inlineMovementsSet.lookup (getMovementsKey t.movements) with
  | some label =>
    simp only
    exact ⟨⟨hH.ts, hH.tc, hH.ms, hH.mc⟩,
      ⟨⟨[], by simp, by simp⟩, ⟨[], by simp, by simp⟩, ⟨[], by simp, by simp⟩,
        ⟨[_], [_], rfl, rfl, ⟨h1, rfl, rfl⟩, trivial⟩⟩⟩
  | none =>
    simp only
    refine ⟨⟨hH.ts, hH.tc, ?_, ?_⟩,
      ⟨⟨[], by simp, by simp⟩, ⟨[_], rfl, rfl⟩, ⟨[], by simp, by simp⟩,
        ⟨[_], [_], rfl, rfl, ⟨h1, rfl, rfl⟩, trivial⟩⟩⟩
    · intro k hkk
      simp only [List.lookup_cons]
      cases k == getMovementsKey t.movements with
      | true => rfl
      | false => exact hH.ms k hkk
    · intro n hnn
      by_cases hne : n = t.scriptName
      · subst hne
        rw [Hoist.lookupD_setCount_same, Hoist.lookupD_setCount_same]
      · rw [Hoist.lookupD_setCount_other _ _ _ _ hne, Hoist.lookupD_setCount_other _ _ _ _ hne]
        exact hH.mc n hnn

/-- The implicit data mentions only keys and script names of the domain. -/
def ImpUses (D : Dom) (imp : ImpData) : Prop :=
  (∀ t ∈ imp.texts, D.kt (t.text.lit, t.stringType) ∧ D.n t.scriptName) ∧
  (∀ m ∈ imp.movements, D.km (getMovementsKey m.movements) ∧ D.n m.scriptName)

theorem foldl_frame {α : Type} {D : Dom} {R : Ren} {P : α → α → Prop} {U : α → Prop}
    {step : PState → α → PState}
    (hstep : ∀ {a b : PState}, Hoist D a b → ∀ {t' t : α}, P t' t → U t →
      Hoist D (step a t) (step b t') ∧ Delta R a b (step a t) (step b t')) :
    ∀ {l' l : List α}, All2 P l' l → (∀ t ∈ l, U t) → ∀ {a b : PState}, Hoist D a b →
      Hoist D (l.foldl step a) (l'.foldl step b) ∧ Delta R a b (l.foldl step a) (l'.foldl step b)
  | [], [], _, _, a, b, h => ⟨h, Delta.refl R a b⟩
  | x' :: r', x :: r, hl, hu, a, b, h => by
    obtain ⟨h1, d1⟩ := hstep h hl.1 (hu x (List.mem_cons_self ..))
    obtain ⟨h2, d2⟩ := foldl_frame hstep hl.2 (fun t ht => hu t (List.mem_cons_of_mem _ ht)) h1
    exact ⟨h2, d1.trans d2⟩
  | [], _ :: _, hl, _, _, _, _ => hl.elim
  | _ :: _, [], hl, _, _, _, _ => hl.elim

/-- **Recording corresponding implicit data** in two states that agree on the domain: they agree again, and
grew by the same texts / movements and corresponding patches. -/
theorem addImp_frame {D : Dom} {R : Ren} {a b : PState} (hH : Hoist D a b) {imp' imp : ImpData}
    (hrel : relImp R imp' imp) (hu : ImpUses D imp) :
    Hoist D (addImp imp a) (addImp imp' b) ∧ Delta R a b (addImp imp a) (addImp imp' b) := by
  unfold addImp
  obtain ⟨h1, d1⟩ := foldl_frame (P := relText R) (U := fun t => D.kt (t.text.lit, t.stringType) ∧ D.n t.scriptName)
    (step := addTextStep) (fun h _ _ ht hu => addTextStep_frame h ht hu.1 hu.2) hrel.1 hu.1 hH
  obtain ⟨h2, d2⟩ := foldl_frame (P := relMove R)
    (U := fun t => D.km (getMovementsKey t.movements) ∧ D.n t.scriptName)
    (step := addMovementStep) (fun h _ _ ht hu => addMovementStep_frame h ht hu.1 hu.2) hrel.2 hu.2 h1
  exact ⟨h2, d1.trans d2⟩

/-! ### the frame lemma for one statement and for a file -/

/-- The alone state `a` and the state `b` inside the bigger file: the same constants at the literals of the
domain, empty stacks, the counters of `b` ahead by `(dc, ds)`, dedupe tables and label counters agreeing on the
domain. -/
structure Agree (D : Dom) (dc ds : Nat) (a b : PState) : Prop where
  consts : ∀ v, D.lit v → b.constants.lookup v = a.constants.lookup v
  ba : a.breakStack = []
  ca : a.continueStack = []
  bb : b.breakStack = []
  cb : b.continueStack = []
  cid : b.nextCmdId = a.nextCmdId + dc
  sid : b.nextSid = a.nextSid + ds
  hoist : Hoist D a b

/-- A top-level statement without scripts inside. -/
def Top.plain : Top → Bool
  | .script _ => false
  | .mapscripts _ => false
  | _ => true

/-- The same top-level statement up to the id correspondence `R` (inside a script body). -/
inductive RelTop (R : Ren) : Top → Top → Prop
  | script {s' s : Script} : s'.tok = s.tok → s'.name = s.name → s'.scope = s.scope → RelL R s'.body s.body →
      RelTop R (.script s') (.script s)
  | same (t : Top) : Top.plain t = true → RelTop R t t

theorem RelTop.mono {R Q : Ren} (h : R.Sub Q) : ∀ {t' t : Top}, RelTop R t' t → RelTop Q t' t
  | _, _, .script h1 h2 h3 h4 => .script h1 h2 h3 (RelL.mono h h4)
  | _, _, .same t ht => .same t ht

/-- The literals of the tokens of `t`, and the implicit data of the script `t` (elaborated from `s`), stay inside
the domain. -/
def StepUses (env : Env) (D : Dom) (t : STop) (s : PState) : Prop :=
  (∀ tok ∈ printTop t, D.lit tok.lit) ∧
  match t with
  | .script _ _ name _ body _ =>
      match elabE env name.lit (ctxOf s) body with
      | .ok (_, imp, _) => ImpUses D imp
      | .error _ => True
  | _ => True

/-- … for every script of the file, along the run from `s`. -/
def Uses (env : Env) (D : Dom) : List STop → PState → Prop
  | [], _ => True
  | t :: r, s =>
      StepUses env D t s ∧
        match stepTop env t s with
        | .ok (_, s1) => Uses env D r s1
        | .error _ => True

theorem substC_agree {D : Dom} {dc ds : Nat} {a b : PState} (h : Agree D dc ds a b) {l : List Tok}
    (hl : ∀ tok ∈ l, D.lit tok.lit) : AgreeOn (substC b.constants) (substC a.constants) l := by
  intro tok ht
  unfold substC
  rw [h.consts _ (hl tok ht)]

/-- A script body elaborated from `b` is the body elaborated from `a`, shifted. -/
theorem elabE_frame (env : Env) (sn : String) {D : Dom} {dc ds : Nat} {a b : PState} (h : Agree D dc ds a b)
    (body : List SStmt) (hl : ∀ tok ∈ printL body, D.lit tok.lit) :
    elabE env sn (ctxOf b) body =
      match elabE env sn (ctxOf a) body with
      | .error e => .error e
      | .ok (stmts, imp, c') =>
        .ok (mapL (· + dc) (· + ds) stmts, mapImp (· + dc) imp,
             { ctxOf b with nextSid := c'.nextSid + ds, nextCmdId := c'.nextCmdId + dc }) := by
  unfold elabE
  simp only [ctxOf, h.ba, h.ca, h.bb, h.cb, h.cid, h.sid]
  rw [elabL_congr env sn body (substC_agree h hl)]
  have hs := elabL_shift env sn (substC a.constants) ds dc body [] [] true a.nextSid a.nextCmdId
  simp only [List.map_nil] at hs
  rw [hs]
  cases elabL env sn (substC a.constants) [] [] true body a.nextSid a.nextCmdId with
  | error e => rfl
  | ok q => obtain ⟨x, m, s1, c1⟩ := q; rfl

theorem stepTop_frame (env : Env) (D : Dom) (dc ds : Nat) (t : STop) {a b : PState} (hA : Agree D dc ds a b)
    (hU : StepUses env D t a) :
    match stepTop env t a with
    | .error e => stepTop env t b = .error e
    | .ok (o, a1) =>
      ∃ o' b1, stepTop env t b = .ok (o', b1) ∧ Agree D dc ds a1 b1 ∧ a.nextCmdId ≤ a1.nextCmdId ∧
        All2 (RelTop (Rb dc ds a.nextCmdId a1.nextCmdId)) (optTop o') (optTop o) ∧
        Delta (Rb dc ds a.nextCmdId a1.nextCmdId) a b a1 b1 := by
  cases t with
  | script kw md name lb body rb =>
    obtain ⟨hlit, hU⟩ := hU
    simp only at hU
    simp only [stepTop]
    rw [elabE_frame env name.lit hA body (fun tok ht => hlit tok (by simp [printTop, printStmts, ht]))]
    cases he : elabE env name.lit (ctxOf a) body with
    | error e => rfl
    | ok q =>
      obtain ⟨stmts, imp, c'⟩ := q
      rw [he] at hU
      simp only at hU
      obtain ⟨hle, hr, hi⟩ := elabE_ids env name.lit (ctxOf a) body stmts imp c' he
      have hlo : (ctxOf a).nextCmdId = a.nextCmdId := rfl
      rw [hlo] at hle hr hi
      have hH0 : Hoist D { a with nextSid := c'.nextSid, nextCmdId := c'.nextCmdId }
          { b with nextSid := c'.nextSid + ds, nextCmdId := c'.nextCmdId + dc } :=
        ⟨hA.hoist.ts, hA.hoist.tc, hA.hoist.ms, hA.hoist.mc⟩
      obtain ⟨hH1, hD1⟩ := addImp_frame (R := Rb dc ds a.nextCmdId c'.nextCmdId) hH0
        (relImp_shift dc ds _ _ hi) hU
      have hhi : (afterScript a imp c').nextCmdId = c'.nextCmdId := by
        unfold afterScript; rw [addImp_nextCmdId]
      simp only
      refine ⟨_, _, rfl, ?_, ?_, ?_, ?_⟩
      · unfold afterScript
        exact ⟨by rw [addImp_constants, addImp_constants]; exact hA.consts,
          by rw [addImp_breakStack]; exact hA.ba, by rw [addImp_continueStack]; exact hA.ca,
          by rw [addImp_breakStack]; exact hA.bb, by rw [addImp_continueStack]; exact hA.cb,
          by rw [addImp_nextCmdId, addImp_nextCmdId], by rw [addImp_nextSid, addImp_nextSid], hH1⟩
      · rw [hhi]; exact hle
      · rw [hhi]
        exact ⟨.script rfl rfl rfl (RelL.shift dc ds _ _ hr), trivial⟩
      · rw [hhi]
        obtain ⟨d1, d2, d3, d4⟩ := hD1
        exact ⟨d1, d2, d3, d4⟩
  | raw kw v =>
    simp only [stepTop]
    exact ⟨_, _, rfl, hA, Nat.le_refl _, ⟨.same _ rfl, trivial⟩, Delta.refl _ _ _⟩
  | const kw name eq vs =>
    obtain ⟨hlit, _⟩ := hU
    have hn : b.constants.lookup name.lit = a.constants.lookup name.lit :=
      hA.consts _ (hlit name (by simp [printTop]))
    have hacc : constAcc b.constants vs "" = constAcc a.constants vs "" := by
      unfold constAcc
      have : vs.map (fun v => substC b.constants v.lit) = vs.map (fun v => substC a.constants v.lit) :=
        List.map_congr_left (fun v hv => substC_agree hA (l := vs)
          (fun tok ht => hlit tok (by simp [printTop, ht])) v hv)
      rw [this]
    simp only [stepTop, hn, hacc]
    by_cases hdup : (a.constants.lookup name.lit).isSome = true
    · simp only [hdup, if_true]
    · simp only [hdup, Bool.false_eq_true, if_false]
      by_cases hval : constAcc a.constants vs "" = ""
      · simp only [hval, if_true]
      · simp only [hval, if_false]
        refine ⟨_, _, rfl, ⟨?_, hA.ba, hA.ca, hA.bb, hA.cb, hA.cid, hA.sid,
          ⟨hA.hoist.ts, hA.hoist.tc, hA.hoist.ms, hA.hoist.mc⟩⟩, Nat.le_refl _, trivial,
          ⟨⟨[], by simp, by simp⟩, ⟨[], by simp, by simp⟩, ⟨[], by simp, by simp⟩,
            ⟨[], [], by simp, by simp, trivial⟩⟩⟩
        intro v hv
        simp only [List.lookup_cons]
        cases v == name.lit with
        | true => rfl
        | false => exact hA.consts v hv
  | movement kw md name lb items rb =>
    simp only [stepTop]
    exact ⟨_, _, rfl, hA, Nat.le_refl _, ⟨.same _ rfl, trivial⟩, Delta.refl _ _ _⟩
  | mart kw md name lb items rb =>
    obtain ⟨hlit, _⟩ := hU
    have : items.map (fun t => substC b.constants t.lit) = items.map (fun t => substC a.constants t.lit) :=
      List.map_congr_left (fun v hv => substC_agree hA (l := items)
        (fun tok ht => hlit tok (by simp [printTop, ht])) v hv)
    simp only [stepTop, this]
    exact ⟨_, _, rfl, hA, Nat.le_refl _, ⟨.same _ rfl, trivial⟩, Delta.refl _ _ _⟩
  | text kw md name lb v rb =>
    simp only [stepTop]
    exact ⟨_, _, rfl, ⟨hA.consts, hA.ba, hA.ca, hA.bb, hA.cb, hA.cid, hA.sid,
        ⟨hA.hoist.ts, hA.hoist.tc, hA.hoist.ms, hA.hoist.mc⟩⟩, Nat.le_refl _, ⟨.same _ rfl, trivial⟩,
      ⟨⟨[], by simp, by simp⟩, ⟨[], by simp, by simp⟩, ⟨[_], rfl, rfl⟩, ⟨[], [], by simp, by simp, trivial⟩⟩⟩

/-- **The frame lemma of the file elaboration.** -/
theorem elabTops_frame (env : Env) (D : Dom) (dc ds : Nat) : ∀ (ts : List STop) {a b : PState},
    Agree D dc ds a b → Uses env D ts a →
    match elabTops env ts a with
    | .error e => elabTops env ts b = .error e
    | .ok (topsA, a1) =>
      ∃ topsB b1, elabTops env ts b = .ok (topsB, b1) ∧ Agree D dc ds a1 b1 ∧ a.nextCmdId ≤ a1.nextCmdId ∧
        All2 (RelTop (Rb dc ds a.nextCmdId a1.nextCmdId)) topsB topsA ∧
        Delta (Rb dc ds a.nextCmdId a1.nextCmdId) a b a1 b1
  | [], a, b, hA, _ => ⟨[], b, rfl, hA, Nat.le_refl _, trivial, Delta.refl _ _ _⟩
  | t :: r, a, b, hA, hU => by
    have hs := stepTop_frame env D dc ds t hA hU.1
    have hU2 := hU.2
    simp only [elabTops]
    cases h1 : stepTop env t a with
    | error e =>
      rw [h1] at hs
      simp only [hs]
    | ok q =>
      obtain ⟨o, a1⟩ := q
      rw [h1] at hs hU2
      obtain ⟨o', b1, hb, hA1, hle1, hr1, hd1⟩ := hs
      have ih := elabTops_frame env D dc ds r hA1 hU2
      simp only [hb]
      cases h2 : elabTops env r a1 with
      | error e =>
        rw [h2] at ih
        simp only [ih]
      | ok q2 =>
        obtain ⟨topsA, a2⟩ := q2
        rw [h2] at ih
        obtain ⟨topsB, b2, hb2, hA2, hle2, hr2, hd2⟩ := ih
        simp only [hb2]
        have s1 : (Rb dc ds a.nextCmdId a1.nextCmdId).Sub (Rb dc ds a.nextCmdId a2.nextCmdId) :=
          Rb_sub (Nat.le_refl _) hle2
        have s2 : (Rb dc ds a1.nextCmdId a2.nextCmdId).Sub (Rb dc ds a.nextCmdId a2.nextCmdId) :=
          Rb_sub hle1 (Nat.le_refl _)
        exact ⟨_, _, rfl, hA2, Nat.le_trans hle1 hle2,
          All2.append (All2.imp (fun _ _ h => h.mono s1) hr1) (All2.imp (fun _ _ h => h.mono s2) hr2),
          (hd1.mono s1).trans (hd2.mono s2)⟩

end Pory.P2
