import PoryProofs.StmtGrammar
import PoryProofs.Properties.C13b
/-
Helpers for C13c ("using a constant is the same as writing its value", statement positions), part 1:
the hand expansion `expandB` of a surface block, the normalisation `eraseL` of elaborated statements, and the
site lemmas (one per substitution site of `StmtG.elabS`).

The constant table is given as a word table `wt : C13b.WTable` (name ↦ the words of the stored value);
the parser's table is `K = C13b.render wt` (name ↦ the words joined by single spaces) — this is how
`C13b.parse_constant` / `C13b.expanded_fully` say values are stored.

* `wordType w`      the token type given to a word of a value when it is written out by hand — a SIMPLE RULE
                    (not the model lexer): the punctuation / operator literals of the lexer by table, a word
                    that starts with an ASCII digit (or `-` digit) is INT, a word that starts with an ASCII
                    letter, `_` or a non-ASCII character gets `getIdentType` (keyword table, else IDENT), the
                    empty word EOF, everything else ILLEGAL (`+`, `/`, … are ILLEGAL single-character tokens for
                    the lexer too).  `#guard`s at the end of `Properties/C13c.lean` compare it with the model
                    lexer on a sample.  No theorem about `elabE` depends on the rule; only `SWF (expandB …)` does.
* `expandTok wt t`  `wt.lookup t.lit = some ws` ↦ one token per word (`wordTok t w`: literal `w`, type
                    `wordType w`, the six positions of `t`); otherwise `[t]`.
* `expandArgTok`    the same inside command arguments, where the model does NOT substitute tokens of type `(` / `)`
                    (`C10b.argPart`): those are left alone (for lexer output their literal is `(` / `)`, never a
                    constant name, so this is `expandTok`: `expandArgTok_eq`).
* leaves of `SOr` conditions and the `op N` tail of an auto-var leaf carry ONE operand / value token by
  construction of the surface grammar (`C02P.Leaf`, `C02P.Val`); a multi-word value can therefore not be
  written as several tokens there: `expandLeaf` / `expandVal` replace the literal by the whole value
  (one token whose literal is the space-joined value — what the parser's `collectUntil` would rebuild from the
  separate tokens).
* `expandS / expandL / …`  the expansion of statements: sites = command argument tokens (`cmd`, `cmdI` token
  elements, the command of an auto-var condition, the command of `switch (cmd(…))`), condition operands /
  comparison values, `switch (var( … ))` operand tokens, `case` value tokens.  NOT sites: command names, label
  names, scope keywords, the `poryswitch` operand and keys, string / typed-string / `moves( … )` elements.
-/
namespace Pory.C13c
open Pory Pory.Parser Pory.C02P Pory.C10b Pory.C10c Pory.StmtG Pory.C13b Pory.TopParse
open Pory.C11b (operandName badPosMsg Form printAuto autoLeafT leftSideMsg)

/-! ### token types of hand-written words -/

def punctTable : List (String × TT) :=
  [("*", .MUL), ("=", .ASSIGN), ("==", .EQ), ("!", .NOT), ("!=", .NEQ), ("<", .LT), ("<=", .LTE),
   (">", .GT), (">=", .GTE), ("&&", .AND), ("||", .OR), ("(", .LPAREN), (")", .RPAREN),
   ("[", .LBRACKET), ("]", .RBRACKET), (",", .COMMA), (":", .COLON), ("{", .LBRACE), ("}", .RBRACE)]

def asciiDigit (c : Char) : Bool := '0' ≤ c && c ≤ '9'
def identStart (c : Char) : Bool :=
  ('a' ≤ c && c ≤ 'z') || ('A' ≤ c && c ≤ 'Z') || c == '_' || 128 ≤ c.toNat

/-- The token type of a word written out by hand (simple rule, see the file header). -/
def wordType (w : String) : TT :=
  match punctTable.lookup w with
  | some t => t
  | none =>
    match w.toList with
    | [] => .EOF
    | c :: r =>
      if asciiDigit c || (c == '-' && asciiDigit (r.headD ' ')) then .INT
      else if identStart c then getIdentType w
      else .ILLEGAL

/-- The token a word `w` of the value is written as when the use `t` is expanded by hand. -/
def wordTok (t : Tok) (w : String) : Tok := { t with type := wordType w, lit := w }

/-- What a use `t` is replaced by. -/
def expandTok (wt : WTable) (t : Tok) : List Tok :=
  match wt.lookup t.lit with
  | some ws => ws.map (wordTok t)
  | none => [t]

def expandToks (wt : WTable) (ts : List Tok) : List Tok := ts.flatMap (expandTok wt)

/-- Inside a command argument the tokens of type `(` / `)` are not substitution sites. -/
def expandArgTok (wt : WTable) (t : Tok) : List Tok :=
  if t.type = .LPAREN ∨ t.type = .RPAREN then [t] else expandTok wt t

def expandArg (wt : WTable) (a : List Tok) : List Tok := a.flatMap (expandArgTok wt)

def expandMore (wt : WTable) (more : List (Tok × List Tok)) : List (Tok × List Tok) :=
  more.map fun p => (p.1, expandArg wt p.2)

def expandElem (wt : WTable) : AElem → List AElem
  | .tok t => (expandArgTok wt t).map .tok
  | e => [e]

def expandArgE (wt : WTable) (a : List AElem) : List AElem := a.flatMap (expandElem wt)

def expandMoreE (wt : WTable) (more : List (Tok × List AElem)) : List (Tok × List AElem) :=
  more.map fun p => (p.1, expandArgE wt p.2)

/-- The constant substitution of the table `render wt`. -/
abbrev sub (wt : WTable) : String → String := substC (render wt)

def expandVal (wt : WTable) (v : Val) : Val := { v with lit := sub wt v.lit }

def expandLeaf (wt : WTable) : Leaf → Leaf
  | .flagBare ps d x => .flagBare ps d (sub wt x)
  | .flagNot ps d x => .flagNot ps d (sub wt x)
  | .flagCmp ps d x eqv tv => .flagCmp ps d (sub wt x) eqv tv
  | .varBare ps x => .varBare ps (sub wt x)
  | .varNot ps x => .varNot ps (sub wt x)
  | .varCmp ps x op n => .varCmp ps (sub wt x) op (expandVal wt n)

mutual
def expandOr (wt : WTable) : SOr → SOr
  | .one a => .one (expandAnd wt a)
  | .more a p r => .more (expandAnd wt a) p (expandOr wt r)
def expandAnd (wt : WTable) : SAnd → SAnd
  | .one u => .one (expandUn wt u)
  | .more u p r => .more (expandUn wt u) p (expandAnd wt r)
def expandUn (wt : WTable) : SUn → SUn
  | .leaf lf => .leaf (expandLeaf wt lf)
  | .paren n pn pl pr e => .paren n pn pl pr (expandOr wt e)
end

def expandForm (wt : WTable) : Form → Form
  | .bare => .bare
  | .cmp p1 p2 l1 op v => .cmp p1 p2 l1 op (expandVal wt v)
  | .neg p l => .neg p l

def expandCond (wt : WTable) : SCond → SCond
  | .plain g => .plain (expandOr wt g)
  | .auto fm name lp a0 more rp => .auto (expandForm wt fm) name lp (expandArg wt a0) (expandMore wt more) rp

mutual
def expandS (wt : WTable) : SStmt → SStmt
  | .cmd name lp a0 more rp => .cmd name lp (expandArg wt a0) (expandMore wt more) rp
  | .cmdI name lp a0 more rp => .cmdI name lp (expandArgE wt a0) (expandMoreE wt more) rp
  | .cmdE name lp rp => .cmdE name lp rp
  | .cmd0 name => .cmd0 name
  | .label name colon => .label name colon
  | .labelS name lp sc rp colon => .labelS name lp sc rp colon
  | .ite ifTok lp c rp lb body rb elifs els =>
      .ite ifTok lp (expandCond wt c) rp lb (expandL wt body) rb (expandElifs wt elifs) (expandElse wt els)
  | .while_ w lp c rp lb body rb => .while_ w lp (expandCond wt c) rp lb (expandL wt body) rb
  | .whileInf w lb body rb => .whileInf w lb (expandL wt body) rb
  | .doWhile d lb body rb w lp c rp => .doWhile d lb (expandL wt body) rb w lp (expandCond wt c) rp
  | .brk t => .brk t
  | .cont t => .cont t
  | .switch_ sw lp v lp2 ops rp2 rp lb cases rb =>
      .switch_ sw lp v lp2 (expandToks wt ops) rp2 rp lb (expandCases wt cases) rb
  | .switchA sw lp name lp2 a0 more rp2 rp lb cases rb =>
      .switchA sw lp name lp2 (expandArg wt a0) (expandMore wt more) rp2 rp lb (expandCases wt cases) rb
  | .pory ps lp x rp lb cases rb => .pory ps lp x rp lb (expandPCases wt cases) rb
def expandL (wt : WTable) : List SStmt → List SStmt
  | [] => []
  | x :: r => expandS wt x :: expandL wt r
def expandElifs (wt : WTable) : List SElif → List SElif
  | [] => []
  | .mk e lp c rp lb body rb :: r =>
      .mk e lp (expandCond wt c) rp lb (expandL wt body) rb :: expandElifs wt r
def expandElse (wt : WTable) : SElse → SElse
  | .none => .none
  | .some e lb body rb => .some e lb (expandL wt body) rb
def expandCases (wt : WTable) : List SCase → List SCase
  | [] => []
  | .case c vs colon body :: r => .case c (expandToks wt vs) colon (expandL wt body) :: expandCases wt r
  | .dflt d colon body :: r => .dflt d colon (expandL wt body) :: expandCases wt r
def expandPCases (wt : WTable) : List SPCase → List SPCase
  | [] => []
  | .colon key c x :: r => .colon key c (expandS wt x) :: expandPCases wt r
  | .brace key lb body rb :: r => .brace key lb (expandL wt body) rb :: expandPCases wt r
end

/-- `expandB` of the task statement. -/
abbrev expandB : WTable → List SStmt → List SStmt := expandL

/-! ### normalisation of elaborated statements: the `type` field of the two kinds of tokens whose literal is
rebuilt from a site (switch operand token, case value token) is erased.  (These tokens are the first token of
the site with the literal replaced; after a hand expansion the first token is the first word of the value: same
positions, same rebuilt literal, but the type the word has.  The emitter model never reads `Tok.type`.) -/

def eraseTy (t : Tok) : Tok := { t with type := .ILLEGAL }

mutual
def eraseS : Stmt → Stmt
  | .cmd c => .cmd c
  | .label t n g => .label t n g
  | .ite t c b es e => .ite t c (eraseL b) (eraseElifs es) (match e with | some l => some (eraseL l) | none => none)
  | .while_ t sid c b => .while_ t sid c (eraseL b)
  | .doWhile t sid c b => .doWhile t sid c (eraseL b)
  | .brk t sid => .brk t sid
  | .cont t sid => .cont t sid
  | .switch_ t sid op cs => .switch_ t sid (eraseTy op) (eraseCases cs)
def eraseL : List Stmt → List Stmt
  | [] => []
  | s :: r => eraseS s :: eraseL r
def eraseElifs : List (BoolExpr × List Stmt) → List (BoolExpr × List Stmt)
  | [] => []
  | (c, b) :: r => (c, eraseL b) :: eraseElifs r
def eraseCases : List SwitchCase → List SwitchCase
  | [] => []
  | (v, d, b) :: r => (eraseTy v, d, eraseL b) :: eraseCases r
end

def eraseElse : Option (List Stmt) → Option (List Stmt)
  | none => none
  | some l => some (eraseL l)

def eraseTable (T : List (String × List Stmt × ImpData)) : List (String × List Stmt × ImpData) :=
  T.map fun e => (e.1, eraseL e.2.1, e.2.2)

theorem eraseL_append (a b : List Stmt) : eraseL (a ++ b) = eraseL a ++ eraseL b := by
  induction a with
  | nil => simp [eraseL]
  | cons s r ih => simp [eraseL, ih]

theorem eraseCases_isEmpty (cs : List SwitchCase) : (eraseCases cs).isEmpty = cs.isEmpty := by
  cases cs with
  | nil => rfl
  | cons c r => obtain ⟨v, d, b⟩ := c; rfl

theorem isEmpty_of_eraseCases {cs cs' : List SwitchCase} (h : eraseCases cs = eraseCases cs') :
    cs.isEmpty = cs'.isEmpty := by
  rw [← eraseCases_isEmpty cs, h, eraseCases_isEmpty]

/-! ### `joinSp` over expansions -/

theorem flatten_map_eq_flatMap {α β} (f : α → List β) (l : List α) : (l.map f).flatten = l.flatMap f := by
  induction l with
  | nil => rfl
  | cons a r ih => simp [List.flatMap_cons, ih]

/-- If every element contributes `joinSp` of a non-empty list of parts, the whole is the `joinSp` of all
parts. -/
theorem joinSp_flatMap {α β} (f : α → String) (g : α → List β) (h : β → String) (a : List α)
    (hf : ∀ t ∈ a, f t = joinSp ((g t).map h)) (hg : ∀ t ∈ a, g t ≠ []) :
    joinSp (a.map f) = joinSp ((a.flatMap g).map h) := by
  have h1 : a.map f = (a.map fun t => (g t).map h).map joinSp := by
    rw [List.map_map]
    exact List.map_congr_left (fun t ht => hf t ht)
  have h2 : (a.flatMap g).map h = (a.map fun t => (g t).map h).flatten := by
    rw [flatten_map_eq_flatMap, List.map_flatMap]
  rw [h1, h2, joinSp_map_joinSp]
  intro ws hws
  obtain ⟨t, ht, rfl⟩ := List.mem_map.mp hws
  simpa using hg t ht

/-- Stored word lists are non-empty. -/
def NonEmptyWords (wt : WTable) : Prop := ∀ e ∈ wt, e.2 ≠ []

theorem nonEmpty_of_ok {wt : WTable} (h : WordsOK wt) : NonEmptyWords wt := fun e he => (h e he).1

theorem wordsOf_ne_nil {wt : WTable} (hne : NonEmptyWords wt) (w : String) : wordsOf wt w ≠ [] := by
  unfold wordsOf
  cases h : wt.lookup w with
  | none => simp
  | some ws => exact hne _ (lookup_mem' wt w ws h)

theorem expandTok_lits (wt : WTable) (t : Tok) : (expandTok wt t).map (·.lit) = wordsOf wt t.lit := by
  unfold expandTok wordsOf
  cases wt.lookup t.lit with
  | none => rfl
  | some ws =>
    simp only [List.map_map, Option.getD_some]
    induction ws with
    | nil => rfl
    | cons w r ih => simpa [wordTok] using ih

theorem expandTok_ne_nil {wt : WTable} (hne : NonEmptyWords wt) (t : Tok) : expandTok wt t ≠ [] := by
  intro h
  have := expandTok_lits wt t
  rw [h] at this
  exact wordsOf_ne_nil hne t.lit this.symm

theorem expandArgTok_ne_nil {wt : WTable} (hne : NonEmptyWords wt) (t : Tok) : expandArgTok wt t ≠ [] := by
  unfold expandArgTok
  split
  · simp
  · exact expandTok_ne_nil hne t

/-- Under the side condition of `C10b.parse_command_subst` (no constant is named like the literal of a
parenthesis token) the argument expansion is the plain one. -/
theorem expandArgTok_eq (wt : WTable) (t : Tok)
    (h : (t.type = .LPAREN ∨ t.type = .RPAREN) → wt.lookup t.lit = none) :
    expandArgTok wt t = expandTok wt t := by
  unfold expandArgTok
  split
  · rename_i hp
    simp [expandTok, h hp]
  · rfl

theorem sub_eq (wt : WTable) (w : String) : sub wt w = joinSp (wordsOf wt w) := substC_render wt w

theorem substC_nil_apply (v : String) : substC [] v = v := rfl

/-- **Site: `case` values and `switch (var( … ))` operands** (every token is substituted). -/
theorem joinSp_expandToks {wt : WTable} (hne : NonEmptyWords wt) (ts : List Tok) :
    joinSp (ts.map fun t => sub wt t.lit) = joinSp ((expandToks wt ts).map fun t => substC [] t.lit) := by
  unfold expandToks
  refine joinSp_flatMap _ _ _ ts (fun t _ => ?_) (fun t _ => expandTok_ne_nil hne t)
  rw [sub_eq, ← expandTok_lits]
  rfl

theorem argPart_nil (t : Tok) : argPart (substC []) t = t.lit := by
  unfold argPart
  split <;> rfl

theorem argPart_expand (wt : WTable) (t : Tok) :
    argPart (sub wt) t = joinSp ((expandArgTok wt t).map (argPart (substC []))) := by
  unfold argPart expandArgTok
  split
  · rename_i hp
    simp [hp, joinSp_one]
  · rw [sub_eq, ← expandTok_lits]
    congr 1
    apply List.map_congr_left
    intro x _
    exact (argPart_nil x).symm

/-- **Site: command arguments.** -/
theorem renderArg_expand {wt : WTable} (hne : NonEmptyWords wt) (a : List Tok) :
    renderArg (sub wt) a = renderArg (substC []) (expandArg wt a) := by
  unfold renderArg expandArg
  exact joinSp_flatMap _ _ _ a (fun t _ => argPart_expand wt t) (fun t _ => expandArgTok_ne_nil hne t)

theorem expandMore_args (wt : WTable) (more : List (Tok × List Tok)) :
    (expandMore wt more).map (·.2) = (more.map (·.2)).map (expandArg wt) := by
  simp [expandMore, List.map_map, Function.comp_def]

theorem expandMore_length (wt : WTable) (more : List (Tok × List Tok)) :
    (expandMore wt more).length = more.length := by simp [expandMore]

theorem renderArgs_expand {wt : WTable} (hne : NonEmptyWords wt) (a0 : List Tok) (more : List (Tok × List Tok)) :
    (a0 :: more.map (·.2)).map (renderArg (sub wt)) =
      (expandArg wt a0 :: (expandMore wt more).map (·.2)).map (renderArg (substC [])) := by
  rw [expandMore_args]
  simp only [List.map_cons, List.map_map]
  congr 1
  · exact renderArg_expand hne a0
  · apply List.map_congr_left
    intro p _
    exact renderArg_expand hne p.2

/-! command arguments with string / `moves` elements -/

theorem expandElem_ne_nil {wt : WTable} (hne : NonEmptyWords wt) (e : AElem) : expandElem wt e ≠ [] := by
  cases e with
  | tok t => simpa [expandElem] using expandArgTok_ne_nil hne t
  | str t => simp [expandElem]
  | tstr ty t => simp [expandElem]
  | moves mv lp items rp => simp [expandElem]

theorem partE_expand (wt : WTable) (e : AElem) :
    partE (sub wt) e = joinSp ((expandElem wt e).map (partE (substC []))) := by
  cases e with
  | tok t =>
    simp only [expandElem, partE, List.map_map]
    rw [argPart_expand]
    rfl
  | str t => simp [expandElem, partE, joinSp_one]
  | tstr ty t => simp [expandElem, partE, joinSp_one]
  | moves mv lp items rp => simp [expandElem, partE, joinSp_one]

theorem renderArgE_expand {wt : WTable} (hne : NonEmptyWords wt) (a : List AElem) :
    renderArgE (sub wt) a = renderArgE (substC []) (expandArgE wt a) := by
  unfold renderArgE expandArgE
  exact joinSp_flatMap _ _ _ a (fun e _ => partE_expand wt e) (fun e _ => expandElem_ne_nil hne e)

theorem expandMoreE_args (wt : WTable) (more : List (Tok × List AElem)) :
    (expandMoreE wt more).map (·.2) = (more.map (·.2)).map (expandArgE wt) := by
  simp [expandMoreE, List.map_map, Function.comp_def]

theorem renderArgsE_expand {wt : WTable} (hne : NonEmptyWords wt) (a0 : List AElem)
    (more : List (Tok × List AElem)) :
    (a0 :: more.map (·.2)).map (renderArgE (sub wt)) =
      (expandArgE wt a0 :: (expandMoreE wt more).map (·.2)).map (renderArgE (substC [])) := by
  rw [expandMoreE_args]
  simp only [List.map_cons, List.map_map]
  congr 1
  · exact renderArgE_expand hne a0
  · apply List.map_congr_left
    intro p _
    exact renderArgE_expand hne p.2

theorem impArg_append (sn : String) (cid : Nat) (ct : Tok) (pos : Nat) (a b : List AElem) :
    impArg sn cid ct pos (a ++ b) = (impArg sn cid ct pos a).add (impArg sn cid ct pos b) := by
  induction a with
  | nil => simp [impArg, nil_add]
  | cons e r ih => simp [impArg, ih, add_assoc]

theorem impArg_toks (sn : String) (cid : Nat) (ct : Tok) (pos : Nat) (ts : List Tok) :
    impArg sn cid ct pos (ts.map .tok) = {} := by
  induction ts with
  | nil => rfl
  | cons t r ih => simp [impArg, impOf, ih, nil_add]

/-- The implicit data of an argument does not see the expansion (only string / `moves` elements count). -/
theorem impArg_expand (wt : WTable) (sn : String) (cid : Nat) (ct : Tok) (pos : Nat) (a : List AElem) :
    impArg sn cid ct pos (expandArgE wt a) = impArg sn cid ct pos a := by
  induction a with
  | nil => rfl
  | cons e r ih =>
    have : expandArgE wt (e :: r) = expandElem wt e ++ expandArgE wt r := by simp [expandArgE]
    rw [this, impArg_append, ih]
    cases e with
    | tok t => simp [expandElem, impArg_toks, impArg, impOf]
    | str t => simp [expandElem, impArg, add_nil]
    | tstr ty t => simp [expandElem, impArg, add_nil]
    | moves mv lp items rp => simp [expandElem, impArg, add_nil]

theorem impArgs_expand (wt : WTable) (sn : String) (cid : Nat) (ct : Tok) (pos : Nat) (as : List (List AElem)) :
    impArgs sn cid ct pos (as.map (expandArgE wt)) = impArgs sn cid ct pos as := by
  induction as generalizing pos with
  | nil => rfl
  | cons a r ih => simp [impArgs, impArg_expand, ih]

theorem impArgs_expand' (wt : WTable) (sn : String) (cid : Nat) (ct : Tok) (a0 : List AElem)
    (more : List (Tok × List AElem)) :
    impArgs sn cid ct 0 (expandArgE wt a0 :: (expandMoreE wt more).map (·.2)) =
      impArgs sn cid ct 0 (a0 :: more.map (·.2)) := by
  rw [expandMoreE_args, ← List.map_cons, impArgs_expand]

/-! ### sites: case value / switch operand -/

theorem caseValue_expand {wt : WTable} (hne : NonEmptyWords wt) (vs : List Tok) :
    caseValue (substC []) (expandToks wt vs) = caseValue (sub wt) vs := by
  unfold caseValue
  exact (joinSp_expandToks hne vs).symm

/-- The first token of an expansion has the positions of the first token. -/
theorem headD_expandToks {wt : WTable} (hne : NonEmptyWords wt) (vs : List Tok) (d : Tok) (l : String) :
    eraseTy { (expandToks wt vs).headD d with lit := l } = eraseTy { vs.headD d with lit := l } := by
  cases vs with
  | nil => rfl
  | cons v r =>
    have hx := expandTok_ne_nil hne v
    simp only [expandToks, List.flatMap_cons, List.headD_cons]
    unfold expandTok at hx ⊢
    cases hl : wt.lookup v.lit with
    | none => rfl
    | some ws =>
      rw [hl] at hx
      cases ws with
      | nil => simp at hx
      | cons w ws' => rfl

theorem caseTok_expand {wt : WTable} (hne : NonEmptyWords wt) (vs : List Tok) (colon : Tok) :
    eraseTy (caseTok (substC []) (expandToks wt vs) colon) = eraseTy (caseTok (sub wt) vs colon) := by
  unfold caseTok
  rw [caseValue_expand hne]
  exact headD_expandToks hne vs colon _

theorem operandOf_expand {wt : WTable} (hne : NonEmptyWords wt) (ops : List Tok) (rp2 : Tok) :
    eraseTy (operandOf (substC []) (expandToks wt ops) rp2) = eraseTy (operandOf (sub wt) ops rp2) := by
  unfold operandOf
  rw [← joinSp_expandToks hne ops]
  exact headD_expandToks hne ops rp2 _

/-! ### sites: conditions -/

theorem leafT_expand (wt : WTable) (lf : Leaf) : leafT (substC []) (expandLeaf wt lf) = leafT (sub wt) lf := by
  cases lf <;> rfl

mutual
theorem treeOr_expand (wt : WTable) (neg : Bool) :
    (g : SOr) → treeOr (substC []) neg (expandOr wt g) = treeOr (sub wt) neg g
  | .one a => by simp only [expandOr, treeOr]; exact treeAnd_expand wt neg a
  | .more a p r => by
    simp only [expandOr, treeOr]
    rw [treeAnd_expand wt neg a, treeOr_expand wt neg r]
theorem treeAnd_expand (wt : WTable) (neg : Bool) :
    (a : SAnd) → treeAnd (substC []) neg (expandAnd wt a) = treeAnd (sub wt) neg a
  | .one u => by simp only [expandAnd, treeAnd]; exact treeUn_expand wt neg u
  | .more u p r => by
    simp only [expandAnd, treeAnd]
    rw [treeUn_expand wt neg u, treeAndAcc_expand wt neg _ r]
theorem treeAndAcc_expand (wt : WTable) (neg : Bool) (left : BoolExpr) :
    (a : SAnd) → treeAndAcc (substC []) neg left (expandAnd wt a) = treeAndAcc (sub wt) neg left a
  | .one u => by
    simp only [expandAnd, treeAndAcc]
    rw [treeUn_expand wt neg u]
  | .more u p r => by
    simp only [expandAnd, treeAndAcc]
    rw [treeUn_expand wt neg u, treeAndAcc_expand wt neg _ r]
theorem treeUn_expand (wt : WTable) (neg : Bool) :
    (u : SUn) → treeUn (substC []) neg (expandUn wt u) = treeUn (sub wt) neg u
  | .leaf lf => by simp only [expandUn, treeUn, leafT_expand]
  | .paren n pn pl pr e => by
    simp only [expandUn, treeUn]
    exact treeOr_expand wt (neg != n) e
end

theorem autoLeafT_expand (wt : WTable) (fm : Form) (operand : String) (cmd : Cmd) :
    autoLeafT (substC []) (expandForm wt fm) operand cmd = autoLeafT (sub wt) fm operand cmd := by
  cases fm <;> rfl

/-- **Site: conditions.** The elaboration of a condition is literally the same. -/
theorem elabCond_expand {wt : WTable} (hne : NonEmptyWords wt) (env : Env) (c : SCond) (cid : Nat) :
    elabCond env (substC []) (expandCond wt c) cid = elabCond env (sub wt) c cid := by
  cases c with
  | plain g => simp only [expandCond, elabCond, treeOr_expand]
  | auto fm name lp a0 more rp =>
    simp only [expandCond, elabCond, expandMore_length, ← renderArgs_expand hne, autoLeafT_expand]

end Pory.C13c
