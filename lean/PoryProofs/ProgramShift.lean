import PoryProofs.PorySelectMore
/-
P2 helpers: the reference elaboration of a script body commutes with a shift of the two counters.

`elabL_shift` (and companions): elaborating from the counters `(sid + ds, cid + dc)` (stacks shifted by `ds`)
gives the same error, or the statements / implicit data of the elaboration from `(sid, cid)` with every command
id shifted by `dc` and every scope id by `ds` (`C12c.mapL`, `C12c.mapImp`), and the final counters shifted.
-/
namespace Pory.P2
open Pory Pory.Parser Pory.C02P Pory.C10b Pory.SwitchParse Pory.StmtG
open Pory.C14b (swVal)
open Pory.C10c
open Pory.C11b (operandName badPosMsg Form printAuto autoLeafT leftSideMsg)
open Pory.C12c

/-- Shift a result of the elaboration. -/
def shG {α : Type} (mp : α → α) (ds dc : Nat) :
    Except PFail (α × ImpData × Nat × Nat) → Except PFail (α × ImpData × Nat × Nat)
  | .error e => .error e
  | .ok (a, m, s, c) => .ok (mp a, mapImp (· + dc) m, s + ds, c + dc)

@[simp] theorem shG_error {α : Type} (mp : α → α) (ds dc : Nat) (e : PFail) :
    shG mp ds dc (.error e) = .error e := rfl
@[simp] theorem shG_ok {α : Type} (mp : α → α) (ds dc : Nat) (a : α) (m : ImpData) (s c : Nat) :
    shG mp ds dc (.ok (a, m, s, c)) = .ok (mp a, mapImp (· + dc) m, s + ds, c + dc) := rfl

theorem mapImp_nil (f : Nat → Nat) : mapImp f {} = {} := rfl

theorem mapImp_add (f : Nat → Nat) (a b : ImpData) : mapImp f (a.add b) = (mapImp f a).add (mapImp f b) := by
  simp [mapImp, ImpData.add]

theorem mapL_append (f g : Nat → Nat) : ∀ (a b : List Stmt), mapL f g (a ++ b) = mapL f g a ++ mapL f g b
  | [], b => by rw [mapL]; rfl
  | x :: r, b => by rw [List.cons_append, mapL, mapL, mapL_append f g r b]; rfl

theorem mapL_nil (f g : Nat → Nat) : mapL f g [] = [] := by rw [mapL]
theorem mapL_cons (f g : Nat → Nat) (x : Stmt) (r : List Stmt) : mapL f g (x :: r) = mapS f g x :: mapL f g r := by
  rw [mapL]
theorem mapS_cmd (f g : Nat → Nat) (c : Cmd) : mapS f g (.cmd c) = .cmd (mapCmd f c) := by rw [mapS]
theorem mapS_label (f g : Nat → Nat) (t : Tok) (n : String) (gl : Bool) :
    mapS f g (.label t n gl) = .label t n gl := by rw [mapS]
theorem mapS_brk (f g : Nat → Nat) (t : Tok) (s : Nat) : mapS f g (.brk t s) = .brk t (g s) := by rw [mapS]
theorem mapS_cont (f g : Nat → Nat) (t : Tok) (s : Nat) : mapS f g (.cont t s) = .cont t (g s) := by rw [mapS]
theorem mapS_while (f g : Nat → Nat) (t : Tok) (s : Nat) (c : Option BoolExpr) (b : List Stmt) :
    mapS f g (.while_ t s c b) = .while_ t (g s) (c.map (mapB f)) (mapL f g b) := by rw [mapS]
theorem mapS_doWhile (f g : Nat → Nat) (t : Tok) (s : Nat) (c : BoolExpr) (b : List Stmt) :
    mapS f g (.doWhile t s c b) = .doWhile t (g s) (mapB f c) (mapL f g b) := by rw [mapS]
theorem mapS_switch (f g : Nat → Nat) (t : Tok) (s : Nat) (o : Tok) (cs : List SwitchCase) :
    mapS f g (.switch_ t s o cs) = .switch_ t (g s) o (mapCases f g cs) := by rw [mapS]
theorem mapS_ite (f g : Nat → Nat) (t : Tok) (c : BoolExpr) (b : List Stmt) (es : List (BoolExpr × List Stmt))
    (el : Option (List Stmt)) :
    mapS f g (.ite t c b es el) = .ite t (mapB f c) (mapL f g b) (mapElifs f g es) (el.map (mapL f g)) := by
  cases el <;> rw [mapS] <;> rfl
theorem mapElifs_nil (f g : Nat → Nat) : mapElifs f g [] = [] := by rw [mapElifs]
theorem mapElifs_cons (f g : Nat → Nat) (c : BoolExpr) (b : List Stmt) (r : List (BoolExpr × List Stmt)) :
    mapElifs f g ((c, b) :: r) = (mapB f c, mapL f g b) :: mapElifs f g r := by rw [mapElifs]
theorem mapCases_nil (f g : Nat → Nat) : mapCases f g [] = [] := by rw [mapCases]
theorem mapCases_cons (f g : Nat → Nat) (t : Tok) (d : Bool) (b : List Stmt) (r : List SwitchCase) :
    mapCases f g ((t, d, b) :: r) = (t, d, mapL f g b) :: mapCases f g r := by rw [mapCases]

theorem mapCases_isEmpty (f g : Nat → Nat) (cs : List SwitchCase) : (mapCases f g cs).isEmpty = cs.isEmpty := by
  cases cs with
  | nil => rw [mapCases_nil]
  | cons x r => obtain ⟨t, d, b⟩ := x; rw [mapCases_cons]; rfl

/-- A condition without auto-var leaves is not changed by renumbering. -/
theorem mapB_noPre (f : Nat → Nat) : ∀ {t : BoolExpr}, noPre t → mapB f t = t
  | .leaf e, h => by
    simp only [noPre] at h
    cases e
    simp_all [mapB, mapOp]
  | .bin l op r, h => by
    simp only [noPre] at h
    simp [mapB, mapB_noPre f h.1, mapB_noPre f h.2]

/-! ### implicit data of command arguments -/

theorem impOf_shift (sn : String) (cid dc : Nat) (ct : Tok) (pos : Nat) (e : AElem) :
    impOf sn (cid + dc) ct pos e = mapImp (· + dc) (impOf sn cid ct pos e) := by
  cases e <;> simp [impOf, mapImp]

theorem impArg_shift (sn : String) (cid dc : Nat) (ct : Tok) (pos : Nat) :
    ∀ (a : List AElem), impArg sn (cid + dc) ct pos a = mapImp (· + dc) (impArg sn cid ct pos a)
  | [] => rfl
  | e :: r => by simp only [impArg, mapImp_add, impOf_shift, impArg_shift sn cid dc ct pos r]

theorem impArgs_shift (sn : String) (cid dc : Nat) (ct : Tok) :
    ∀ (pos : Nat) (l : List (List AElem)),
      impArgs sn (cid + dc) ct pos l = mapImp (· + dc) (impArgs sn cid ct pos l)
  | _, [] => rfl
  | pos, a :: r => by simp only [impArgs, mapImp_add, impArg_shift, impArgs_shift sn cid dc ct (pos + 1) r]

/-! ### conditions -/

theorem elabCond_shift (env : Env) (σ : String → String) (dc : Nat) (c : SCond) (cid : Nat) :
    elabCond env σ c (cid + dc) =
      match elabCond env σ c cid with
      | .error e => .error e
      | .ok (t, c0) => .ok (mapB (· + dc) t, c0 + dc) := by
  cases c with
  | plain g => simp [elabCond, mapB_noPre _ (noPre_treeOr σ false g)]
  | auto fm name lp a0 more rp =>
    simp only [elabCond]
    cases env.autoVars.lookup name.lit with
    | none => rfl
    | some av =>
      simp only
      cases autoPosBad av (more.length + 1) with
      | some pos => rfl
      | none =>
        simp only [mapB, mapOp, autoLeafT, Option.map_some, mapCmd, Except.ok.injEq, Prod.mk.injEq]
        exact ⟨trivial, by omega⟩

/-! ### poryswitch tables -/

/-- Shift every entry of a poryswitch table. -/
def mapT (ds dc : Nat) (tb : List (String × List Stmt × ImpData)) : List (String × List Stmt × ImpData) :=
  tb.map fun e => (e.1, mapL (· + dc) (· + ds) e.2.1, mapImp (· + dc) e.2.2)

theorem lookup_mapT (ds dc : Nat) (k : String) : ∀ (tb : List (String × List Stmt × ImpData)),
    (mapT ds dc tb).lookup k =
      (tb.lookup k).map fun r => (mapL (· + dc) (· + ds) r.1, mapImp (· + dc) r.2)
  | [] => rfl
  | (k', a, m) :: r => by
    simp only [mapT, List.map_cons, List.lookup_cons]
    cases k == k' with
    | true => rfl
    | false => exact lookup_mapT ds dc k r

theorem selectCase_mapT (env : Env) (ds dc : Nat) (tb : List (String × List Stmt × ImpData)) (v : String) :
    selectCase env (mapT ds dc tb) v =
      (selectCase env tb v).map fun r => (mapL (· + dc) (· + ds) r.1, mapImp (· + dc) r.2) := by
  unfold selectCase
  rw [lookup_mapT, lookup_mapT]
  cases tb.lookup v <;> simp

def shT (ds dc : Nat) :
    Except PFail (List (String × List Stmt × ImpData) × Nat × Nat) →
      Except PFail (List (String × List Stmt × ImpData) × Nat × Nat)
  | .error e => .error e
  | .ok (tb, s, c) => .ok (mapT ds dc tb, s + ds, c + dc)

@[simp] theorem shT_error (ds dc : Nat) (e : PFail) : shT ds dc (.error e) = .error e := rfl
@[simp] theorem shT_ok (ds dc : Nat) (tb : List (String × List Stmt × ImpData)) (s c : Nat) :
    shT ds dc (.ok (tb, s, c)) = .ok (mapT ds dc tb, s + ds, c + dc) := rfl

theorem mapT_cons (ds dc : Nat) (k : String) (a : List Stmt) (m : ImpData)
    (acc : List (String × List Stmt × ImpData)) :
    (k, mapL (· + dc) (· + ds) a, mapImp (· + dc) m) :: mapT ds dc acc = mapT ds dc ((k, a, m) :: acc) := rfl

/-! ### the shift lemma -/

section
variable (env : Env) (sn : String) (σ : String → String) (ds dc : Nat)

theorem stack_cons (sid : Nat) (B : List Nat) :
    (sid + ds) :: B.map (· + ds) = (sid :: B).map (· + ds) := rfl

mutual
theorem elabS_shift : ∀ (x : SStmt) (B C : List Nat) (nx : Bool) (sid cid : Nat),
    elabS env sn σ (B.map (· + ds)) (C.map (· + ds)) nx x (sid + ds) (cid + dc) =
      shG (mapL (· + dc) (· + ds)) ds dc (elabS env sn σ B C nx x sid cid)
  | .cmd .., _, _, _, _, _ => by
    rw [elabS, elabS]; simp [mapL_cons, mapL_nil, mapS_cmd, mapCmd, cmdNode, mapImp_nil]; omega
  | .cmdI .., _, _, _, _, _ => by
    rw [elabS, elabS]; simp [mapL_cons, mapL_nil, mapS_cmd, mapCmd, cmdNode, impArgs_shift]; omega
  | .cmdE .., _, _, _, _, _ => by
    rw [elabS, elabS]; simp [mapL_cons, mapL_nil, mapS_cmd, mapCmd, cmdNode, mapImp_nil]; omega
  | .cmd0 _, _, _, _, _, _ => by
    rw [elabS, elabS]; simp [mapL_cons, mapL_nil, mapS_cmd, mapCmd, cmdNode, mapImp_nil]; omega
  | .label .., _, _, _, _, _ => by
    rw [elabS, elabS]; simp [mapL_cons, mapL_nil, mapS_label, mapImp_nil]
  | .labelS .., _, _, _, _, _ => by
    rw [elabS, elabS]; simp [mapL_cons, mapL_nil, mapS_label, mapImp_nil]
  | .brk t, B, C, nx, sid, cid => by
    cases B <;> simp only [List.map_nil, List.map_cons] <;> rw [elabS, elabS] <;> simp [mapL_cons, mapL_nil, mapS_brk, mapImp_nil]
  | .cont t, B, C, nx, sid, cid => by
    cases C with
    | nil => simp only [List.map_nil]; rw [elabS, elabS]; simp
    | cons c Ct => cases nx <;> simp only [List.map_cons] <;> rw [elabS, elabS] <;> simp [mapL_cons, mapL_nil, mapS_cont, mapImp_nil]
  | .ite i lp c rp lb body rb elifs els, B, C, nx, sid, cid => by
    rw [elabS, elabS, elabCond_shift]
    cases elabCond env σ c cid with
    | error e => rfl
    | ok q =>
      obtain ⟨t, c0⟩ := q
      simp only [elabL_shift body B C true sid c0]
      cases elabL env sn σ B C true body sid c0 with
      | error e => rfl
      | ok q2 =>
        obtain ⟨b, m1, s1, c1⟩ := q2
        simp only [shG_ok, elabElifs_shift elifs B C s1 c1]
        cases elabElifs env sn σ B C elifs s1 c1 with
        | error e => rfl
        | ok q3 =>
          obtain ⟨es, m2, s2, c2⟩ := q3
          simp only [shG_ok, elabElse_shift els B C s2 c2]
          cases elabElse env sn σ B C els s2 c2 with
          | error e => rfl
          | ok q4 =>
            obtain ⟨el, m3, s3, c3⟩ := q4
            simp [mapL_cons, mapL_nil, mapS_ite, mapImp_add]
  | .while_ w lp c rp lb body rb, B, C, nx, sid, cid => by
    rw [elabS, elabS, elabCond_shift]
    cases elabCond env σ c cid with
    | error e => rfl
    | ok q =>
      obtain ⟨t, c0⟩ := q
      have e1 : sid + ds + 1 = sid + 1 + ds := by omega
      simp only [stack_cons, e1, elabL_shift body (sid :: B) (sid :: C) true (sid + 1) c0]
      cases elabL env sn σ (sid :: B) (sid :: C) true body (sid + 1) c0 with
      | error e => rfl
      | ok q2 =>
        obtain ⟨b, m1, s1, c1⟩ := q2
        simp [mapL_cons, mapL_nil, mapS_while]
  | .whileInf w lb body rb, B, C, nx, sid, cid => by
    rw [elabS, elabS]
    have e1 : sid + ds + 1 = sid + 1 + ds := by omega
    simp only [stack_cons, e1, elabL_shift body (sid :: B) (sid :: C) true (sid + 1) cid]
    cases elabL env sn σ (sid :: B) (sid :: C) true body (sid + 1) cid with
    | error e => rfl
    | ok q2 =>
      obtain ⟨b, m1, s1, c1⟩ := q2
      simp [mapL_cons, mapL_nil, mapS_while]
  | .doWhile d lb body rb w lp c rp, B, C, nx, sid, cid => by
    rw [elabS, elabS]
    have e1 : sid + ds + 1 = sid + 1 + ds := by omega
    simp only [stack_cons, e1, elabL_shift body (sid :: B) (sid :: C) true (sid + 1) cid]
    cases elabL env sn σ (sid :: B) (sid :: C) true body (sid + 1) cid with
    | error e => rfl
    | ok q2 =>
      obtain ⟨b, m1, s1, c1⟩ := q2
      simp only [shG_ok, elabCond_shift]
      cases elabCond env σ c c1 with
      | error e => rfl
      | ok q =>
        obtain ⟨t, c2⟩ := q
        simp [mapL_cons, mapL_nil, mapS_doWhile]
  | .switch_ sw lp v lp2 ops rp2 rp lb cases rb, B, C, nx, sid, cid => by
    rw [elabS, elabS]
    have e1 : sid + ds + 1 = sid + 1 + ds := by omega
    simp only [stack_cons, e1, elabCases_shift cases (sid :: B) C [] false (sid + 1) cid]
    cases elabCases env sn σ (sid :: B) C cases [] false (sid + 1) cid with
    | error e => rfl
    | ok q =>
      obtain ⟨cs, m1, s1, c1⟩ := q
      simp only [shG_ok, mapCases_isEmpty]
      cases cs.isEmpty <;> simp [mapL_cons, mapL_nil, mapS_switch]
  | .switchA sw lp name lp2 a0 more rp2 rp lb cases rb, B, C, nx, sid, cid => by
    rw [elabS, elabS]
    cases env.autoVars.lookup name.lit with
    | none => rfl
    | some av =>
      simp only
      cases autoPosBad av (more.length + 1) with
      | some pos => rfl
      | none =>
        have e1 : sid + ds + 1 = sid + 1 + ds := by omega
        have e2 : cid + dc + 1 = cid + 1 + dc := by omega
        simp only [stack_cons, e1, e2, elabCases_shift cases (sid :: B) C [] false (sid + 1) (cid + 1)]
        cases elabCases env sn σ (sid :: B) C cases [] false (sid + 1) (cid + 1) with
        | error e => rfl
        | ok q =>
          obtain ⟨cs, m1, s1, c1⟩ := q
          simp only [shG_ok, mapCases_isEmpty]
          cases cs.isEmpty <;> simp [mapL_cons, mapL_nil, mapS_switch, mapS_cmd, mapCmd, cmdNode]
  | .pory ps lp x rp lb cases rb, B, C, nx, sid, cid => by
    rw [elabS, elabS]
    cases (env.envErrors && env.switches.isEmpty) with
    | true => rfl
    | false =>
      cases (env.envErrors && (env.switches.lookup x.lit).isNone) with
      | true => rfl
      | false =>
        simp only [Bool.false_eq_true, if_false]
        have h0 := elabPCases_shift cases B C [] sid cid
        simp only [mapT, List.map_nil] at h0
        rw [h0]
        cases elabPCases env sn σ B C cases [] sid cid with
        | error e => rfl
        | ok q =>
          obtain ⟨tb, s1, c1⟩ := q
          simp only [shT_ok, selectCase_mapT]
          cases selectCase env tb (swVal env x.lit) with
          | some r => simp
          | none => cases env.envErrors <;> simp [mapL_nil, mapImp_nil]
theorem elabL_shift : ∀ (b : List SStmt) (B C : List Nat) (last : Bool) (sid cid : Nat),
    elabL env sn σ (B.map (· + ds)) (C.map (· + ds)) last b (sid + ds) (cid + dc) =
      shG (mapL (· + dc) (· + ds)) ds dc (elabL env sn σ B C last b sid cid)
  | [], _, _, _, _, _ => by simp [elabL_nil, mapL_nil, mapImp_nil]
  | x :: rest, B, C, last, sid, cid => by
    rw [elabL_cons, elabL_cons, elabS_shift x B C (rest.isEmpty && last) sid cid]
    cases elabS env sn σ B C (rest.isEmpty && last) x sid cid with
    | error e => rfl
    | ok q =>
      obtain ⟨a1, m1, s1, c1⟩ := q
      simp only [shG_ok, elabL_shift rest B C last s1 c1]
      cases elabL env sn σ B C last rest s1 c1 with
      | error e => rfl
      | ok q2 =>
        obtain ⟨a2, m2, s2, c2⟩ := q2
        simp [mapL_append, mapImp_add]
theorem elabElifs_shift : ∀ (es : List SElif) (B C : List Nat) (sid cid : Nat),
    elabElifs env sn σ (B.map (· + ds)) (C.map (· + ds)) es (sid + ds) (cid + dc) =
      shG (mapElifs (· + dc) (· + ds)) ds dc (elabElifs env sn σ B C es sid cid)
  | [], _, _, _, _ => by rw [elabElifs, elabElifs]; simp [mapElifs_nil, mapImp_nil]
  | .mk e lp c rp lb body rb :: rest, B, C, sid, cid => by
    rw [elabElifs, elabElifs, elabCond_shift]
    cases elabCond env σ c cid with
    | error e => rfl
    | ok q =>
      obtain ⟨t, c0⟩ := q
      simp only [elabL_shift body B C true sid c0]
      cases elabL env sn σ B C true body sid c0 with
      | error e => rfl
      | ok q2 =>
        obtain ⟨b, m1, s1, c1⟩ := q2
        simp only [shG_ok, elabElifs_shift rest B C s1 c1]
        cases elabElifs env sn σ B C rest s1 c1 with
        | error e => rfl
        | ok q3 =>
          obtain ⟨es, m2, s2, c2⟩ := q3
          simp [mapElifs_cons, mapImp_add]
theorem elabElse_shift : ∀ (el : SElse) (B C : List Nat) (sid cid : Nat),
    elabElse env sn σ (B.map (· + ds)) (C.map (· + ds)) el (sid + ds) (cid + dc) =
      shG (Option.map (mapL (· + dc) (· + ds))) ds dc (elabElse env sn σ B C el sid cid)
  | .none, _, _, _, _ => by rw [elabElse, elabElse]; simp [mapImp_nil]
  | .some e lb body rb, B, C, sid, cid => by
    rw [elabElse, elabElse, elabL_shift body B C true sid cid]
    cases elabL env sn σ B C true body sid cid with
    | error e => rfl
    | ok q2 => obtain ⟨b, m1, s1, c1⟩ := q2; simp
theorem elabCases_shift : ∀ (cases : List SCase) (B C : List Nat) (seen : List String) (hd : Bool)
    (sid cid : Nat),
    elabCases env sn σ (B.map (· + ds)) (C.map (· + ds)) cases seen hd (sid + ds) (cid + dc) =
      shG (mapCases (· + dc) (· + ds)) ds dc (elabCases env sn σ B C cases seen hd sid cid)
  | [], _, _, _, _, _, _ => by rw [elabCases, elabCases]; simp [mapCases_nil, mapImp_nil]
  | .case ct vs colon body :: rest, B, C, seen, hd, sid, cid => by
    rw [elabCases, elabCases]
    cases seen.contains (caseValue σ vs) with
    | true => rfl
    | false =>
      simp only [Bool.false_eq_true, if_false, elabL_shift body B C rest.isEmpty sid cid]
      cases elabL env sn σ B C rest.isEmpty body sid cid with
      | error e => rfl
      | ok q2 =>
        obtain ⟨b, m1, s1, c1⟩ := q2
        simp only [shG_ok, elabCases_shift rest B C (caseValue σ vs :: seen) hd s1 c1]
        cases elabCases env sn σ B C rest (caseValue σ vs :: seen) hd s1 c1 with
        | error e => rfl
        | ok q3 => obtain ⟨cs, m2, s2, c2⟩ := q3; simp [mapCases_cons, mapImp_add]
  | .dflt d colon body :: rest, B, C, seen, hd, sid, cid => by
    rw [elabCases, elabCases]
    cases hd with
    | true => rfl
    | false =>
      simp only [Bool.false_eq_true, if_false, elabL_shift body B C rest.isEmpty sid cid]
      cases elabL env sn σ B C rest.isEmpty body sid cid with
      | error e => rfl
      | ok q2 =>
        obtain ⟨b, m1, s1, c1⟩ := q2
        simp only [shG_ok, elabCases_shift rest B C seen true s1 c1]
        cases elabCases env sn σ B C rest seen true s1 c1 with
        | error e => rfl
        | ok q3 => obtain ⟨cs, m2, s2, c2⟩ := q3; simp [mapCases_cons, mapImp_add]
theorem elabPCases_shift : ∀ (cases : List SPCase) (B C : List Nat) (acc : List (String × List Stmt × ImpData))
    (sid cid : Nat),
    elabPCases env sn σ (B.map (· + ds)) (C.map (· + ds)) cases (mapT ds dc acc) (sid + ds) (cid + dc) =
      shT ds dc (elabPCases env sn σ B C cases acc sid cid)
  | [], _, _, _, _, _ => by rw [elabPCases, elabPCases]; rfl
  | .colon key ct x :: rest, B, C, acc, sid, cid => by
    rw [elabPCases, elabPCases, elabS_shift x B C rest.isEmpty sid cid]
    cases elabS env sn σ B C rest.isEmpty x sid cid with
    | error e => rfl
    | ok q =>
      obtain ⟨a1, m1, s1, c1⟩ := q
      simp only [shG_ok, mapT_cons]
      exact elabPCases_shift rest B C _ s1 c1
  | .brace key lbt body rbt :: rest, B, C, acc, sid, cid => by
    rw [elabPCases, elabPCases, elabL_shift body B C true sid cid]
    cases elabL env sn σ B C true body sid cid with
    | error e => rfl
    | ok q =>
      obtain ⟨a1, m1, s1, c1⟩ := q
      simp only [shG_ok, mapT_cons]
      exact elabPCases_shift rest B C _ s1 c1
end
end

end Pory.P2
