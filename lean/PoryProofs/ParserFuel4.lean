import PoryProofs.ParserFuel3
/-
C18 (totality of the parser), part 5: token consumption of the statement block and the top level.
-/
namespace Pory.Parser
open Pory

/-- The state with its end-of-input token replaced. -/
def withEof (s : PState) (e : Tok) : PState := { s with eof := e }

@[simp] theorem withEof_eof (s : PState) (e : Tok) : (withEof s e).eof = e := id rfl
@[simp] theorem withEof_toks (s : PState) (e : Tok) : (withEof s e).toks = s.toks := id rfl
@[simp] theorem withEof_nextCmdId (s : PState) (e : Tok) : (withEof s e).nextCmdId = s.nextCmdId := id rfl
@[simp] theorem withEof_nextSid (s : PState) (e : Tok) : (withEof s e).nextSid = s.nextSid := id rfl
@[simp] theorem withEof_breakStack (s : PState) (e : Tok) : (withEof s e).breakStack = s.breakStack := id rfl
@[simp] theorem withEof_continueStack (s : PState) (e : Tok) :
    (withEof s e).continueStack = s.continueStack := id rfl
@[simp] theorem withEof_constants (s : PState) (e : Tok) : (withEof s e).constants = s.constants := id rfl
theorem withEof_self (s : PState) : withEof s s.eof = s := rfl

/-- `m` keeps the end-of-input token and consumes at least `k` tokens (statement level: other fields of
the state may change). -/
def SDec {α} (k : Nat) (m : PM α) : Prop :=
  ∀ s, wp m s (fun _ s' => s'.eof = s.eof ∧ (s.eof.type = .EOF → s'.toks.length + k ≤ s.toks.length))

theorem SDec.wp_iff {α} {m : PM α} {k : Nat} (hm : SDec k m) (s : PState) (Q : α → PState → Prop) :
    wp m s Q ↔ ∀ a s', m.run s = .ok (a, withEof s' s.eof) →
      (s.eof.type = .EOF → s'.toks.length + k ≤ s.toks.length) → Q a (withEof s' s.eof) := by
  constructor
  · intro h a s' hr _; exact h a _ hr
  · intro h a s' hr
    obtain ⟨h1, h2⟩ := hm s a s' hr
    have e : withEof s' s.eof = s' := by rw [← h1]; rfl
    have := h a s' (by rw [e]; exact hr) h2
    rwa [e] at this

theorem Frame.sdec {α} {m : PM α} {k : Nat} (hf : Frame m) (hd : Dec k m) : SDec k m := by
  intro s a s' hr
  obtain ⟨l, c, rfl⟩ := hf s a s' hr
  exact ⟨rfl, fun he => hd s he a _ hr⟩

/-- Symbolic execution at statement level. -/
syntax "sfin" (" [" Lean.Parser.Tactic.simpLemma,* "]")? : tactic
macro_rules
  | `(tactic| sfin) => `(tactic| vcfin [withEof_eof, withEof_toks, withEof_nextCmdId, withEof_nextSid,
      withEof_breakStack, withEof_continueStack, withEof_constants])
  | `(tactic| sfin [$ts,*]) => `(tactic| vcfin [withEof_eof, withEof_toks, withEof_nextCmdId, withEof_nextSid,
      withEof_breakStack, withEof_continueStack, withEof_constants, $ts,*])

/-- Close a length leaf (statement level). -/
macro "slenfin" : tactic =>
  `(tactic| grind [getD_cases, headD_cases, withEof_eof, withEof_toks, upd_toks, upd_eof])

/-- Every function of the statement block keeps `eof` and does not lengthen the window, at fuel `n`. -/
structure SDecAll (n : Nat) : Prop where
  block : ∀ env sn tok acc imp, SDec 0 (parseBlockStatement env sn tok n acc imp)
  swblock : ∀ env sn tok acc imp, SDec 0 (parseSwitchBlockStatement env sn tok n acc imp)
  stmt : ∀ env sn, SDec 0 (parseStatement env sn n)
  cond : ∀ env sn req, SDec 0 (parseConditionExpression env sn req n)
  elifs : ∀ env sn acc imp, SDec 0 (parseElifs env sn n acc imp)
  ifs : ∀ env sn, SDec 0 (parseIfStatement env sn n)
  whiles : ∀ env sn, SDec 0 (parseWhileStatement env sn n)
  doWhiles : ∀ env sn, SDec 0 (parseDoWhileStatement env sn n)
  cases : ∀ env sn tok cs vals hd imp, SDec 0 (parseSwitchCases env sn tok n cs vals hd imp)
  switch : ∀ env sn, SDec 0 (parseSwitchStatement env sn n)
  pory : ∀ env sn, SDec 0 (parsePoryswitchStatement env sn n)
  poryCases : ∀ env sn tok acc, SDec 0 (parsePoryswitchStatementCases env sn tok n acc)
  poryStmts : ∀ env sn am acc imp, SDec 0 (parsePoryswitchStatements env sn am n acc imp)

theorem sdecAll_zero : SDecAll 0 :=
  { block := by intros; intro s; rw [parseBlockStatement]; swp
    swblock := by intros; intro s; rw [parseSwitchBlockStatement]; swp
    stmt := by intros; intro s; rw [parseStatement]; swp
    cond := by intros; intro s; rw [parseConditionExpression]; swp
    elifs := by intros; intro s; rw [parseElifs]; swp
    ifs := by intros; intro s; rw [parseIfStatement]; swp
    whiles := by intros; intro s; rw [parseWhileStatement]; swp
    doWhiles := by intros; intro s; rw [parseDoWhileStatement]; swp
    cases := by intros; intro s; rw [parseSwitchCases]; swp
    switch := by intros; intro s; rw [parseSwitchStatement]; swp
    pory := by intros; intro s; rw [parsePoryswitchStatement]; swp
    poryCases := by intros; intro s; rw [parsePoryswitchStatementCases]; swp
    poryStmts := by intros; intro s; rw [parsePoryswitchStatements]; swp }

theorem sdecAll_succ {n : Nat} (ih : SDecAll n) : SDecAll (n + 1) :=
  { block := by
      intro env sn tok acc imp s
      rw [parseBlockStatement]
      sfin [(ih.stmt _ _).wp_iff, (ih.block _ _ _ _ _).wp_iff]
      all_goals slenfin
    swblock := by
      intro env sn tok acc imp s
      rw [parseSwitchBlockStatement]
      sfin [(ih.stmt _ _).wp_iff, (ih.swblock _ _ _ _ _).wp_iff]
      all_goals slenfin
    stmt := by
      intro env sn s
      rw [parseStatement]
      sfin [(ih.ifs _ _).wp_iff, (ih.whiles _ _).wp_iff, (ih.doWhiles _ _).wp_iff, (ih.switch _ _).wp_iff,
        (ih.pory _ _).wp_iff, frame_tryParseLabelStatement.dec_iff dec_tryParseLabelStatement,
        (frame_parseCommandStatement _ _ _).dec_iff (dec_parseCommandStatement _ _ _)]
      all_goals slenfin
    cond := by
      intro env sn req s
      rw [parseConditionExpression]
      sfin [(ih.block _ _ _ _ _).wp_iff,
        (frame_parseBooleanExpression _ _ _ _ _).dec_iff (dec_parseBooleanExpression _ _ _ _ _)]
      all_goals slenfin
    elifs := by
      intro env sn acc imp s
      rw [parseElifs]
      sfin [(ih.cond _ _ _).wp_iff, (ih.elifs _ _ _ _).wp_iff]
      all_goals slenfin
    ifs := by
      intro env sn s
      rw [parseIfStatement]
      sfin [(ih.cond _ _ _).wp_iff, (ih.elifs _ _ _ _).wp_iff, (ih.block _ _ _ _ _).wp_iff]
      all_goals slenfin
    whiles := by
      intro env sn s
      rw [parseWhileStatement]
      sfin [(ih.cond _ _ _).wp_iff]
      all_goals slenfin
    doWhiles := by
      intro env sn s
      rw [parseDoWhileStatement]
      sfin [(ih.block _ _ _ _ _).wp_iff,
        (frame_parseBooleanExpression _ _ _ _ _).dec_iff (dec_parseBooleanExpression _ _ _ _ _)]
      all_goals slenfin
    cases := by
      intro env sn tok cs vals hd imp s
      rw [parseSwitchCases]
      sfin [(ih.swblock _ _ _ _ _).wp_iff, (ih.cases _ _ _ _ _ _ _).wp_iff,
        (frame_collectUntil _ _ _ _).dec_iff (dec_collectUntil _ _ _ _)]
      all_goals slenfin
    switch := by
      intro env sn s
      rw [parseSwitchStatement]
      sfin [(ih.cases _ _ _ _ _ _ _).wp_iff,
        (frame_expectPeekVarOrAutoVar _ _ _).dec_iff (dec_expectPeekVarOrAutoVar _ _ _),
        (frame_switchOperandLoop _ _ _).dec_iff (dec_switchOperandLoop _ _ _)]
      all_goals slenfin
    pory := by
      intro env sn s
      rw [parsePoryswitchStatement]
      sfin [(ih.poryCases _ _ _ _).wp_iff,
        (frame_parsePoryswitchHeader _).dec_iff (dec_parsePoryswitchHeader _)]
      all_goals slenfin
    poryCases := by
      intro env sn tok acc s
      rw [parsePoryswitchStatementCases]
      sfin [(ih.poryStmts _ _ _ _ _).wp_iff, (ih.poryCases _ _ _ _).wp_iff]
      all_goals slenfin
    poryStmts := by
      intro env sn am acc imp s
      rw [parsePoryswitchStatements]
      sfin [(ih.stmt _ _).wp_iff, (ih.pory _ _).wp_iff, (ih.poryStmts _ _ _ _ _).wp_iff]
      all_goals slenfin }

theorem sdecAll : ∀ n : Nat, SDecAll n
  | 0 => sdecAll_zero
  | n + 1 => sdecAll_succ (sdecAll n)

/-! ### top level -/

theorem sdec_parseBlockStatement (env : Env) (sn : String) (tok : Tok) (n : Nat) (acc : List Stmt)
    (imp : ImpData) : SDec 0 (parseBlockStatement env sn tok n acc imp) := (sdecAll n).block env sn tok acc imp

theorem sdec_parseScriptStatement (env : Env) (n : Nat) : SDec 0 (parseScriptStatement env n) := by
  intro s
  unfold parseScriptStatement
  sfin [(frame_parseScopeModifier _).dec_iff (dec_parseScopeModifier _), (sdec_parseBlockStatement _ _ _ _ _ _).wp_iff]
  all_goals slenfin

theorem sdec_parseRawStatement : SDec 0 parseRawStatement := by
  intro s
  unfold parseRawStatement
  sfin
  all_goals slenfin

theorem sdec_parseTextStatement (env : Env) (n : Nat) : SDec 0 (parseTextStatement env n) := by
  intro s
  unfold parseTextStatement
  sfin [(frame_parseScopeModifier _).dec_iff (dec_parseScopeModifier _),
    (frame_parsePoryswitchTextStatement _ _).dec_iff (dec_parsePoryswitchTextStatement _ _),
    (frame_parseTextValue _ _).dec_iff (dec_parseTextValue _ _)]
  all_goals slenfin

theorem sdec_parseMovementStatement (env : Env) (n : Nat) : SDec 0 (parseMovementStatement env n) := by
  intro s
  unfold parseMovementStatement
  sfin [(frame_parseScopeModifier _).dec_iff (dec_parseScopeModifier _),
    (frame_parseListValue _ _ _ _ _).dec_iff (dec_parseListValue _ _ _ _ _)]
  all_goals slenfin

theorem sdec_parseMartStatement (env : Env) (n : Nat) : SDec 0 (parseMartStatement env n) := by
  intro s
  unfold parseMartStatement
  sfin [(frame_parseScopeModifier _).dec_iff (dec_parseScopeModifier _),
    (frame_parseListValue _ _ _ _ _).dec_iff (dec_parseListValue _ _ _ _ _),
    (frame_mapM_tryReplace _).dec_iff (dec_mapM_tryReplace _)]
  all_goals slenfin

theorem sdec_parseTableEntries (env : Env) (ms ty : String) : ∀ (n i : Nat) (acc : List TableEntry)
    (imp : ImpData), SDec 0 (parseTableEntries env ms ty n i acc imp) := by
  intro n
  induction n with
  | zero => intro i acc imp s; rw [parseTableEntries]; swp
  | succ n ih =>
    intro i acc imp s
    rw [parseTableEntries]
    sfin [(ih _ _ _).wp_iff, (frame_tableCollect _ _ _ _).dec_iff (dec_tableCollect _ _ _ _),
      (sdec_parseBlockStatement _ _ _ _ _ _).wp_iff]
    all_goals slenfin

theorem sdec_parseMapScriptEntries (env : Env) (ms : String) : ∀ (n : Nat) (mss : List MapScript)
    (tables : List TableMapScript) (imp : ImpData), SDec 0 (parseMapScriptEntries env ms n mss tables imp) := by
  intro n
  induction n with
  | zero => intro mss tables imp s; rw [parseMapScriptEntries]; swp
  | succ n ih =>
    intro mss tables imp s
    rw [parseMapScriptEntries]
    sfin [(ih _ _ _).wp_iff, (sdec_parseTableEntries _ _ _ _ _ _ _).wp_iff,
      (sdec_parseBlockStatement _ _ _ _ _ _).wp_iff]
    all_goals slenfin

theorem sdec_parseMapscriptsStatement (env : Env) (n : Nat) : SDec 0 (parseMapscriptsStatement env n) := by
  intro s
  unfold parseMapscriptsStatement
  sfin [(frame_parseScopeModifier _).dec_iff (dec_parseScopeModifier _),
    (sdec_parseMapScriptEntries _ _ _ _ _ _).wp_iff]
  all_goals slenfin

theorem sdec_parseConstant (n : Nat) : SDec 0 (parseConstant n) := by
  intro s
  unfold parseConstant
  sfin [(frame_constLoop _ _).dec_iff (dec_constLoop _ _)]
  all_goals slenfin

theorem foldl_addTextStep_keep (l : List ImpText) : ∀ s : PState,
    (l.foldl addTextStep s).eof = s.eof ∧ (l.foldl addTextStep s).toks = s.toks := by
  induction l with
  | nil => intro s; exact ⟨rfl, rfl⟩
  | cons x r ih =>
    intro s
    simp only [List.foldl_cons]
    obtain ⟨a, b⟩ := ih (addTextStep s x)
    have : (addTextStep s x).eof = s.eof ∧ (addTextStep s x).toks = s.toks := by
      cases hlk : s.inlineTextsSet.lookup (x.text.lit, x.stringType) <;> simp [addTextStep, hlk]
    exact ⟨a.trans this.1, b.trans this.2⟩

theorem foldl_addMovementStep_keep (l : List ImpMovement) : ∀ s : PState,
    (l.foldl addMovementStep s).eof = s.eof ∧ (l.foldl addMovementStep s).toks = s.toks := by
  induction l with
  | nil => intro s; exact ⟨rfl, rfl⟩
  | cons x r ih =>
    intro s
    simp only [List.foldl_cons]
    obtain ⟨a, b⟩ := ih (addMovementStep s x)
    have : (addMovementStep s x).eof = s.eof ∧ (addMovementStep s x).toks = s.toks := by
      cases hlk : s.inlineMovementsSet.lookup (getMovementsKey x.movements) <;> simp [addMovementStep, hlk]
    exact ⟨a.trans this.1, b.trans this.2⟩

theorem sdec_addImplicitData (d : ImpData) : SDec 0 (addImplicitData d) := by
  intro s
  unfold addImplicitData addImplicitTexts addImplicitMovements
  swp [wp_modify]
  obtain ⟨a, b⟩ := foldl_addMovementStep_keep d.movements (d.texts.foldl addTextStep s)
  obtain ⟨a', b'⟩ := foldl_addTextStep_keep d.texts s
  rw [a, b, a', b']
  exact ⟨rfl, fun _ => Nat.le_refl _⟩

theorem sdec_parseTopLevelStatement (env : Env) (n : Nat) : SDec 0 (parseTopLevelStatement env n) := by
  intro s
  unfold parseTopLevelStatement
  sfin [(sdec_parseScriptStatement _ _).wp_iff, (sdec_addImplicitData _).wp_iff, (sdec_parseRawStatement).wp_iff,
    (sdec_parseTextStatement _ _).wp_iff, (sdec_parseMovementStatement _ _).wp_iff,
    (sdec_parseMartStatement _ _).wp_iff, (sdec_parseMapscriptsStatement _ _).wp_iff,
    (sdec_parseConstant _).wp_iff]
  all_goals slenfin

end Pory.Parser
