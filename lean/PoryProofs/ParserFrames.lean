import PoryProofs.ParserWp
/-
Frame lemmas: the parser functions below the statement level change only `toks` and `nextCmdId`
(in particular not `breakStack`, `continueStack`, `nextSid`).
-/
namespace Pory.Parser
open Pory

/-- Symbolic execution of a `do` block of the parser monad. -/
syntax "wpsimp" (" [" Lean.Parser.Tactic.simpLemma,* "]")? : tactic
macro_rules
  | `(tactic| wpsimp) => `(tactic| simp only [wp_bind, wp_pure, wp_fail, wp_ite, wp_get, wp_cur, wp_peek, wp_peek2,
      wp_peek3, wp_peek4, wp_nextToken, wp_curIs, wp_peekIs, wp_peek2Is, wp_expectPeek, wp_expectPeekErr,
      wp_tryReplace, upd_toks, upd_nextCmdId, upd_eof, upd_constants, upd_breakStack, upd_continueStack,
      upd_nextSid, upd_upd, frame_refl, frame_upd, Bool.not_true, Bool.not_false, Bool.false_eq_true, if_true,
      if_false, ite_self, implies_true, and_self])
  | `(tactic| wpsimp [$ts,*]) => `(tactic| simp only [wp_bind, wp_pure, wp_fail, wp_ite, wp_get, wp_cur, wp_peek,
      wp_peek2, wp_peek3, wp_peek4, wp_nextToken, wp_curIs, wp_peekIs, wp_peek2Is, wp_expectPeek,
      wp_expectPeekErr, wp_tryReplace, upd_toks, upd_nextCmdId, upd_eof, upd_constants, upd_breakStack,
      upd_continueStack, upd_nextSid, upd_upd, frame_refl, frame_upd, Bool.not_true, Bool.not_false,
      Bool.false_eq_true, if_true, if_false, ite_self, implies_true, and_self, $ts,*])

theorem frame_parsePoryswitchHeader (env : Env) : Frame (parsePoryswitchHeader env) := by
  intro s
  unfold parsePoryswitchHeader
  wpsimp

theorem frame_parseScopeModifier (d : TT) : Frame (parseScopeModifier d) := by
  intro s
  unfold parseScopeModifier
  wpsimp

theorem frame_formatNamedParams : ∀ (n : Nat) (fp : FmtParams), Frame (formatNamedParams n fp) := by
  intro n
  induction n with
  | zero => intro fp s; rw [formatNamedParams]; wpsimp
  | succ n ih =>
    intro fp s
    rw [formatNamedParams]
    wpsimp [(ih _).wp_iff]

theorem wp_fmtMatch {α} (x : Except String (List Char)) (f : List Char → PM α) (g : String → PM α)
    (s : PState) (Q : α → PState → Prop) :
    wp (parseFormatStringOperator.match_1 (fun _ => PM α) x f g) s Q ↔
      (∀ a, x = .ok a → wp (f a) s Q) ∧ (∀ e, x = .error e → wp (g e) s Q) := by
  cases x <;> simp

theorem frame_parseFormatStringOperator (env : Env) (n : Nat) : Frame (parseFormatStringOperator env n) := by
  intro s
  unfold parseFormatStringOperator
  wpsimp [(frame_formatNamedParams _ _).wp_iff, wp_fmtMatch]

theorem frame_parseTextValue (env : Env) (n : Nat) : Frame (parseTextValue env n) := by
  intro s
  unfold parseTextValue
  wpsimp [(frame_parseFormatStringOperator _ _).wp_iff]

/-- `modify` of the command counter. -/
theorem wp_bumpCmdId (s : PState) (Q : PUnit → PState → Prop) :
    wp (modify fun s => { s with nextCmdId := s.nextCmdId + 1 }) s Q ↔
      Q ⟨⟩ (upd s s.toks (s.nextCmdId + 1)) := by
  rw [wp_modify]; rfl

theorem frame_listBlock (env : Env) : ∀ n : Nat,
    (∀ kind am acc, Frame (parseListValue env kind am n acc)) ∧
    (∀ kind, Frame (parsePoryswitchListStatement env kind n)) ∧
    (∀ kind tok acc, Frame (parsePoryswitchListCases env kind tok n acc)) := by
  intro n
  induction n with
  | zero =>
    refine ⟨?_, ?_, ?_⟩
    · intro kind am acc s; rw [parseListValue]; wpsimp
    · intro kind s; rw [parsePoryswitchListStatement]; wpsimp
    · intro kind tok acc s; rw [parsePoryswitchListCases]; wpsimp
  | succ n ih =>
    obtain ⟨ih1, ih2, ih3⟩ := ih
    refine ⟨?_, ?_, ?_⟩
    · intro kind am acc s
      rw [parseListValue]
      cases kind <;>
        wpsimp [(ih1 _ _ _).wp_iff, (ih2 _).wp_iff] <;>
        (repeat' split)
      all_goals (try wpsimp [(ih1 _ _ _).wp_iff, (ih2 _).wp_iff])
      all_goals ((repeat' split) <;> first | trivial | wpsimp [(ih1 _ _ _).wp_iff, (ih2 _).wp_iff])
    · intro kind s
      rw [parsePoryswitchListStatement]
      wpsimp [(ih3 _ _ _).wp_iff, (frame_parsePoryswitchHeader _).wp_iff]
      intros
      (repeat' split) <;> wpsimp
    · intro kind tok acc s
      rw [parsePoryswitchListCases]
      wpsimp [(ih1 _ _ _).wp_iff, (ih3 _ _ _).wp_iff]

theorem frame_parseListValue (env : Env) (kind : ListKind) (am : Bool) (n : Nat) (acc : List Tok) :
    Frame (parseListValue env kind am n acc) := (frame_listBlock env n).1 kind am acc

theorem frame_parseMovesOperator (env : Env) (n : Nat) : Frame (parseMovesOperator env n) := by
  intro s
  unfold parseMovesOperator
  wpsimp [(frame_parseListValue _ _ _ _ _).wp_iff]

theorem frame_cmdArgsLoop (env : Env) (sn : String) (id : Nat) (tok : Tok) :
    ∀ (n : Nat) (a : CmdAcc), Frame (cmdArgsLoop env sn id tok n a) := by
  intro n
  induction n with
  | zero => intro a s; rw [cmdArgsLoop]; wpsimp
  | succ n ih =>
    intro a s
    rw [cmdArgsLoop]
    wpsimp [(ih _).wp_iff, (frame_parseFormatStringOperator _ _).wp_iff, (frame_parseMovesOperator _ _).wp_iff]

theorem frame_parseCommandStatement (env : Env) (sn : String) (n : Nat) :
    Frame (parseCommandStatement env sn n) := by
  intro s
  unfold parseCommandStatement
  wpsimp [(frame_cmdArgsLoop _ _ _ _ _ _).wp_iff, wp_bumpCmdId]

theorem frame_expectPeekVarOrAutoVar (env : Env) (sn : String) (n : Nat) :
    Frame (expectPeekVarOrAutoVar env sn n) := by
  intro s
  unfold expectPeekVarOrAutoVar
  wpsimp [(frame_parseCommandStatement _ _ _).wp_iff]
  (repeat' split) <;> wpsimp [(frame_parseCommandStatement _ _ _).wp_iff]
  all_goals (intros; (repeat' split) <;> wpsimp)

end Pory.Parser
