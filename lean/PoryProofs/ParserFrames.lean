import PoryProofs.ParserWp
/-
Frame lemmas: the parser functions below the statement level change only `toks` and `nextCmdId`
(in particular not `breakStack`, `continueStack`, `nextSid`).
-/
namespace Pory.Parser
open Pory

/-- Symbolic execution of a `do` block of the parser monad. -/
syntax "wpsimp" (" [" Lean.Parser.Tactic.simpLemma,* "]")? : tactic
macro_rules
  | `(tactic| wpsimp) => `(tactic| simp only [wp_bind, wp_pure, wp_fail, wp_ite, wp_get, wp_cur, wp_peek, wp_peek2,
      wp_peek3, wp_peek4, wp_nextToken, wp_curIs, wp_peekIs, wp_peek2Is, wp_expectPeek, wp_expectPeekErr,
      wp_tryReplace, upd_toks, upd_nextCmdId, upd_eof, upd_constants, upd_breakStack, upd_continueStack,
      upd_nextSid, upd_upd, frame_refl, frame_upd, Bool.not_true, Bool.not_false, Bool.false_eq_true, if_true,
      if_false, ite_self, implies_true, and_self])
  | `(tactic| wpsimp [$ts,*]) => `(tactic| simp only [wp_bind, wp_pure, wp_fail, wp_ite, wp_get, wp_cur, wp_peek,
      wp_peek2, wp_peek3, wp_peek4, wp_nextToken, wp_curIs, wp_peekIs, wp_peek2Is, wp_expectPeek,
      wp_expectPeekErr, wp_tryReplace, upd_toks, upd_nextCmdId, upd_eof, upd_constants, upd_breakStack,
      upd_continueStack, upd_nextSid, upd_upd, frame_refl, frame_upd, Bool.not_true, Bool.not_false,
      Bool.false_eq_true, if_true, if_false, ite_self, implies_true, and_self, $ts,*])

theorem frame_parsePoryswitchHeader (env : Env) : Frame (parsePoryswitchHeader env) := by
  intro s
  unfold parsePoryswitchHeader
  wpsimp

theorem frame_parseScopeModifier (d : TT) : Frame (parseScopeModifier d) := by
  intro s
  unfold parseScopeModifier
  wpsimp

theorem frame_formatNamedParams : ∀ (n : Nat) (fp : FmtParams), Frame (formatNamedParams n fp) := by
  intro n
  induction n with
  | zero => intro fp s; rw [formatNamedParams]; wpsimp
  | succ n ih =>
    intro fp s
    rw [formatNamedParams]
    wpsimp [(ih _).wp_iff]

end Pory.Parser
