import PoryProofs.GotoNext
import PoryProofs.C05eBlocks
/-
Helper for C05e: the lines of a rendered script, with the layout-dependent lines filtered out
(`goto`s, blank lines, `end` / `return` terminators, generated label lines), are the concatenation over the
chunk order of a per-chunk list that does not depend on the position of the chunk (`filter_layout`); hence
they form the same multiset for two chunk orders that are permutations of each other
(`emitScript_core_perm`).

Why terminators are filtered too: by `GotoNext.rb_shape` the exit of a chunk is `goto d` (when the chunk laid
out next is not `d = tailId c`), nothing (when it is), or a terminator; for a `switch` chunk without default
and without return chunk the model's `renderBranching` emits `return` unless the chunk is the LAST of the
order.  That case is unreachable for the tables of the worklist (`RenderSim.SwitchNotLast`), but that
invariant is not used here.
-/
namespace Pory.C05e
open Pory Pory.Emit Pory.RenderSim Pory.GotoNext

/-- Keep every line except generated jumps, blank lines, terminators and the label lines whose name is in
`gen` (meant: the generated chunk labels). -/
def keep (gen : String → Bool) : Line → Bool
  | .goto_ _ => false
  | .blank => false
  | .terminator _ => false
  | .labelDef n _ => !gen n
  | _ => true

section
variable (o : Opts) (ps : List ((Nat × Nat) × String)) (name : String)

/-- the lines of a chunk that do not depend on its position: statement lines, then the test / `switch` /
`case` lines of its branching -/
def coreOf (c : Chunk) : List Line := stmtLines o ps c.statements ++ brPre o ps name c

theorem filter_bodyOf (gen : String → Bool) (c : Chunk) (next : Option Nat) :
    (bodyOf o ps name c next).filter (keep gen) = (coreOf o ps name c).filter (keep gen) := by
  unfold bodyOf coreOf
  rcases rb_shape o ps name c next with ⟨d, _, _, h⟩ | ⟨b, h⟩ | ⟨_, h⟩ <;>
    simp [h, List.filter_append, keep]

theorem filter_lbl (gen : String → Bool) (g : Bool) (jumps : List Nat) (id : Nat)
    (h : gen (chunkLabel name id) = true) : (lbl name g jumps id).filter (keep gen) = [] := by
  unfold lbl
  split <;> simp [keep, h]

theorem filter_layout (gen : String → Bool) (G : List Chunk) (g : Bool) (jumps : List Nat) :
    ∀ order : List Nat, (∀ id ∈ order, gen (chunkLabel name id) = true) →
    (layout o ps name G g jumps order).filter (keep gen) =
      order.flatMap fun id => (coreOf o ps name (chunkOf G id)).filter (keep gen) := by
  intro order
  induction order with
  | nil => intro _; rfl
  | cons id rest ih =>
    intro h
    rw [layout_cons, List.filter_append, List.filter_append, filter_lbl name gen g jumps id (h id List.mem_cons_self),
      filter_bodyOf, ih (fun x hx => h x (List.mem_cons_of_mem _ hx))]
    simp
end

section congr
variable {o₁ o₂ : Opts} (hl : o₁.lineMarkers = o₂.lineMarkers) (hp : o₁.inputPath = o₂.inputPath)
include hl hp

theorem stmtLines_congr (ps : List ((Nat × Nat) × String)) (ss : List Stmt) :
    stmtLines o₁ ps ss = stmtLines o₂ ps ss := by
  induction ss with
  | nil => rfl
  | cons s r ih => cases s <;> simp only [stmtLines, ih, C05.marker_congr hl hp]

theorem brPre_congr (ps : List ((Nat × Nat) × String)) (name : String) (c : Chunk) :
    brPre o₁ ps name c = brPre o₂ ps name c := by
  unfold brPre
  cases c.branch <;> simp only [renderBranchComparison, caseLines, C05.marker_congr hl hp]

theorem coreOf_congr (ps : List ((Nat × Nat) × String)) (name : String) (c : Chunk) :
    coreOf o₁ ps name c = coreOf o₂ ps name c := by
  simp only [coreOf, stmtLines_congr hl hp, brPre_congr hl hp]

/-- **One script, two modes that differ at most in `optimize`:** the kept lines of the two renderings form
the same multiset, provided `gen` holds of every chunk label of the script. -/
theorem emitScript_core_perm (ps : List ((Nat × Nat) × String)) (tl : List String) (s : Script)
    (gen : String → Bool)
    (hgen : ∀ chunks, scriptChunks s.body = .ok chunks → ∀ c ∈ chunks, gen (chunkLabel s.name c.id) = true)
    (ls₁ ls₂ : List Line) (h₁ : emitScript o₁ ps tl s = .ok ls₁) (h₂ : emitScript o₂ ps tl s = .ok ls₂) :
    (ls₁.filter (keep gen)).Perm (ls₂.filter (keep gen)) := by
  rw [C05.emitScript_eq] at h₁ h₂
  cases hc : scriptChunks s.body with
  | error e => rw [hc] at h₁; cases h₁
  | ok chunks =>
    rw [hc] at h₁ h₂
    simp only at h₁ h₂
    obtain ⟨ord₁, ho₁, hls₁, _⟩ := renderChunks_ok o₁ ps s.name chunks _ tl ls₁ h₁
    obtain ⟨ord₂, ho₂, hls₂, _⟩ := renderChunks_ok o₂ ps s.name chunks _ tl ls₂ h₂
    have h0 := (C05.scriptChunks_ids s.body chunks hc).2
    have hperm := C05.chunkOrder_perm_both o₁ o₂ chunks ord₁ ord₂ h0 ho₁ ho₂
    have hp₁ := (C05.chunkOrder_perm o₁ chunks ord₁ h0 ho₁).1
    have hg : ∀ ord : List Nat, ord.Perm (chunks.map (·.id)) → ∀ id ∈ ord, gen (chunkLabel s.name id) = true := by
      intro ord hpo id hid
      obtain ⟨c, hcm, hci⟩ := List.mem_map.1 (hpo.mem_iff.1 hid)
      rw [← hci]
      exact hgen chunks hc c hcm
    rw [hls₁, hls₂, filter_layout o₁ ps s.name gen chunks _ _ ord₁ (hg ord₁ hp₁),
      filter_layout o₂ ps s.name gen chunks _ _ ord₂ (hg ord₂ (hperm.symm.trans hp₁))]
    have hf : (fun id => (coreOf o₁ ps s.name (chunkOf chunks id)).filter (keep gen)) =
        fun id => (coreOf o₂ ps s.name (chunkOf chunks id)).filter (keep gen) := by
      funext id; rw [coreOf_congr hl hp]
    rw [hf]
    exact hperm.flatMap_right _

end congr

end Pory.C05e
