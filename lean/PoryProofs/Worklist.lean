import PoryProofs.WorklistBuild
/-
The FIFO worklist of `emitScriptStatement` (model: `PoryModel/Emitter.lean`) establishes the
declarative compilation relation `Sem.Impl` (spec: `PorySpec/Impl.lean`).

Main theorem (complete: commands, labels, `end`/`return` last, if / elif* / else?, while,
condition-less while, do…while, break, continue, switch incl. the all-empty early exit):

    theorem emit_impl (body : List Stmt) (chunks : List Chunk) (hs : ScopeIdsDistinct body)
        (hd : OneDefaultL body) (h : scriptChunks body = .ok chunks) :
        ∃ cx : Sem.Ctx, Sem.Impl chunks cx 0 0 body none

No hypothesis on the boolean operators is needed (`splitBool` fails on an operator other than
`&&` / `||`, so the success hypothesis `h` covers it).  `emit_impl_run` is the same statement on
the final worklist state, with `cx := st.cx` read off its `brk` / `cont` tables.
Companion files: WorklistBase.lean (basic lemmas, `Grows`, `Realizes`), WorklistBuild.lean (one
`*_spec` lemma per chunk builder, e.g. `splitBool_spec`), WorklistFuel.lean (`scriptChunks_fuel`),
WorklistTotal.lean (`no_unknown_return_point`, `scriptChunks_total`, `emit_impl_total`).

Architecture:
* `Inv st` — ids of `final ∪ queue` pairwise distinct and ≤ counter; queued chunks are well formed
  (`QOK`: `useEndTerminator = false`, and a chunk queued with a branch has no statements); scope ids
  registered in `brk` ∪ binders still in the queue pairwise distinct; `cont` and `brk` have the
  same keys.
* `Ext st st'` — lookups in `final`, `brk`, `cont` are preserved.
* `Realizes G cx p` — what the final graph owes a queued chunk `p` (WorklistBase.lean).
* `StepOut` — abstraction of one worklist step: the new chunks (fresh ids), the finalised chunk,
  the scope entries registered, and a *conditional* `realizes` clause: any later graph `G` / `cx`
  that contains the finalised chunk, agrees with the scope tables and realises the new chunks
  realises the processed chunk.
* `process_spec` — every successful `processChunk` is a `StepOut` (all statement kinds).
* `step_inv`, `step_ext`, `run_spec` — induction on the run: every chunk still queued is realised
  by the FINAL graph.
-/
namespace Pory.Emit
open Pory Pory.Sem

/-! ### invariant, extension order, one step -/

def ids (st : WS) : List Nat := st.final.map (·.id) ++ st.queue.map (·.id)

structure Inv (st : WS) : Prop where
  nodup : (ids st).Nodup
  le : ∀ i ∈ ids st, i ≤ st.counter
  qok : ∀ p ∈ st.queue, QOK p
  sids : (st.brk.map (·.1) ++ qbinders st.queue).Nodup
  keys : st.cont.map (·.1) = st.brk.map (·.1)

structure Ext (st st' : WS) : Prop where
  final : ∀ k ch, findChunk st.final k = some ch → findChunk st'.final k = some ch
  brk : ∀ s v, st.brk.lookup s = some v → st'.brk.lookup s = some v
  cont : ∀ s v, st.cont.lookup s = some v → st'.cont.lookup s = some v

theorem Ext.refl (st : WS) : Ext st st := ⟨fun _ _ h => h, fun _ _ h => h, fun _ _ h => h⟩
theorem Ext.trans {a b c : WS} (h1 : Ext a b) (h2 : Ext b c) : Ext a c :=
  ⟨fun k ch h => h2.final k ch (h1.final k ch h), fun s v h => h2.brk s v (h1.brk s v h),
   fun s v h => h2.cont s v (h1.cont s v h)⟩

/-- the break / continue targets read off a worklist state -/
def WS.cx (st : WS) : Ctx :=
  ⟨fun sid => (st.brk.lookup sid).getD none, fun sid => st.cont.lookup sid⟩

/-- What one worklist step does: `nw` = the new chunks appended to the queue, `ch` = the finalised
chunk, `sc` = the scope entries registered (`(sid, break target, continue target)`). -/
structure StepOut (p : Chunk) (st0 st1 : WS) (nw : List Chunk) (ch : Chunk)
    (sc : List (Nat × Option Nat × Nat)) : Prop where
  ch_id : ch.id = p.id
  counter_le : st0.counter ≤ st1.counter
  queue_eq : st1.queue = st0.queue ++ nw
  final_eq : st1.final = ch :: st0.final.filter (·.id != p.id)
  brk_eq : st1.brk = sc.map (fun x => (x.1, x.2.1)) ++ st0.brk
  cont_eq : st1.cont = sc.map (fun x => (x.1, x.2.2)) ++ st0.cont
  nw_ids : ∀ q ∈ nw, st0.counter < q.id ∧ q.id ≤ st1.counter
  nw_nodup : (nw.map (·.id)).Nodup
  nw_qok : ∀ q ∈ nw, QOK q
  /-- every new chunk is empty, or holds the statements after the compound statement `x` that ended
  the processed chunk, or one of the blocks directly inside `x` (whose scope is registered) -/
  nw_stmts : ∀ q ∈ nw, q.statements = [] ∨ ∃ pre x r, p.statements = pre ++ x :: r ∧
      (q.statements = r ∨ (q.statements ∈ subBlocks x ∧ ∀ s ∈ scopeB x, s ∈ sc.map (·.1)))
  binders_perm : (sc.map (·.1) ++ qbinders nw).Perm (bindersL p.statements)
  realizes : ∀ (G : List Chunk) (cx : Ctx), findChunk G p.id = some ch →
      (∀ s v, st0.brk.lookup s = some v → cx.brk s = v) →
      (∀ s v, st0.cont.lookup s = some v → cx.cont s = some v) →
      (∀ x ∈ sc, cx.brk x.1 = x.2.1 ∧ cx.cont x.1 = some x.2.2) →
      (∀ q ∈ nw, Realizes G cx q) → Realizes G cx p

theorem StepOut.of_grows {p : Chunk} {st0 s1 st1 : WS} {nw : List Chunk} {ch : Chunk}
    {sc : List (Nat × Option Nat × Nat)} (g : Grows st0 s1 nw) (hid : ch.id = p.id)
    (hc : st1.counter = s1.counter) (hq : st1.queue = s1.queue)
    (hf : st1.final = ch :: s1.final.filter (·.id != p.id))
    (hb : st1.brk = sc.map (fun x => (x.1, x.2.1)) ++ s1.brk)
    (hcn : st1.cont = sc.map (fun x => (x.1, x.2.2)) ++ s1.cont)
    (hqok : ∀ q ∈ nw, QOK q)
    (hstm : ∀ q ∈ nw, q.statements = [] ∨ ∃ pre x r, p.statements = pre ++ x :: r ∧
      (q.statements = r ∨ (q.statements ∈ subBlocks x ∧ ∀ s ∈ scopeB x, s ∈ sc.map (·.1))))
    (hperm : (sc.map (·.1) ++ qbinders nw).Perm (bindersL p.statements))
    (hreal : ∀ (G : List Chunk) (cx : Ctx), findChunk G p.id = some ch →
      (∀ s v, st0.brk.lookup s = some v → cx.brk s = v) →
      (∀ s v, st0.cont.lookup s = some v → cx.cont s = some v) →
      (∀ x ∈ sc, cx.brk x.1 = x.2.1 ∧ cx.cont x.1 = some x.2.2) →
      (∀ q ∈ nw, Realizes G cx q) → Realizes G cx p) :
    StepOut p st0 st1 nw ch sc :=
  { ch_id := hid
    counter_le := hc ▸ g.counter_le
    queue_eq := hq.trans g.queue_eq
    final_eq := by rw [hf, g.final_eq]
    brk_eq := by rw [hb, g.brk_eq]
    cont_eq := by rw [hcn, g.cont_eq]
    nw_ids := fun q hq' => hc ▸ g.ids q hq'
    nw_nodup := g.nodup
    nw_qok := hqok
    nw_stmts := hstm
    binders_perm := hperm
    realizes := hreal }

section step
variable {st st1 : WS} {p : Chunk} {q : List Chunk} {nw : List Chunk} {ch : Chunk}
  {sc : List (Nat × Option Nat × Nat)}

theorem step_sc_nodup (hinv : Inv st) (hq : st.queue = p :: q)
    (so : StepOut p { st with queue := q } st1 nw ch sc) :
    (sc.map (·.1)).Nodup ∧ ∀ s ∈ sc.map (·.1), s ∉ st.brk.map (·.1) := by
  have hs := hinv.sids
  rw [hq, qbinders_cons] at hs
  have hperm := so.binders_perm
  have h1 : (bindersL p.statements).Nodup := by
    rw [List.nodup_append] at hs
    have := hs.2.1; rw [List.nodup_append] at this; exact this.1
  have h2 : (sc.map (·.1) ++ qbinders nw).Nodup := hperm.nodup_iff.2 h1
  refine ⟨(List.nodup_append.1 h2).1, ?_⟩
  intro s hs' hmem
  have : s ∈ bindersL p.statements := hperm.subset (by simp [hs'])
  rw [List.nodup_append] at hs
  exact hs.2.2 s hmem s (by simp [this]) rfl

theorem step_not_mem (hinv : Inv st) (hq : st.queue = p :: q) : p.id ∉ st.final.map (·.id) := by
  intro hk
  have := hinv.nodup
  simp only [ids, hq, List.map_cons] at this
  rw [List.nodup_append] at this
  exact this.2.2 _ hk _ (by simp) rfl

theorem step_inv (hinv : Inv st) (hq : st.queue = p :: q)
    (so : StepOut p { st with queue := q } st1 nw ch sc) : Inv st1 := by
  have hnm := step_not_mem hinv hq
  obtain ⟨hnd, hle, hqok, hsids, hkeys⟩ := hinv
  have hfin : st1.final = ch :: st.final := by
    rw [so.final_eq]; simp only; rw [filter_ne_of_not_mem _ _ hnm]
  have hids1 : ids st1 = p.id :: (st.final.map (·.id) ++ (q.map (·.id) ++ nw.map (·.id))) := by
    simp [ids, hfin, so.queue_eq, so.ch_id]
  have hids : ids st = st.final.map (·.id) ++ p.id :: q.map (·.id) := by simp [ids, hq]
  have hnew : ∀ i ∈ nw.map (·.id), st.counter < i ∧ i ≤ st1.counter := by
    intro i hi; simp only [List.mem_map] at hi; obtain ⟨x, hx, rfl⟩ := hi; exact so.nw_ids x hx
  refine ⟨?_, ?_, ?_, ?_, ?_⟩
  · rw [hids1]
    have hperm : (p.id :: (st.final.map (·.id) ++ (q.map (·.id) ++ nw.map (·.id)))).Perm
        ((st.final.map (·.id) ++ p.id :: q.map (·.id)) ++ nw.map (·.id)) := by
      rw [← List.append_assoc, ← List.cons_append]
      exact List.Perm.append_right _ (List.perm_middle.symm)
    rw [hperm.nodup_iff, List.nodup_append]
    refine ⟨hids ▸ hnd, so.nw_nodup, ?_⟩
    intro a ha b hb hab
    have h1 := hle a (hids ▸ ha); have h2 := hnew b hb; omega
  · intro i hi
    rw [hids1] at hi
    have hc := so.counter_le
    simp only [List.mem_cons, List.mem_append] at hi
    rcases hi with rfl | hi | hi | hi
    · have := hle p.id (by rw [hids]; simp); simp at hc; omega
    · have := hle i (by rw [hids]; simp [hi]); simp at hc; omega
    · have := hle i (by rw [hids]; simp [hi]); simp at hc; omega
    · exact (hnew i hi).2
  · intro x hx
    rw [so.queue_eq] at hx
    simp only [List.mem_append] at hx
    rcases hx with hx | hx
    · exact hqok x (by rw [hq]; simp [hx])
    · exact so.nw_qok x hx
  · rw [so.brk_eq, so.queue_eq]
    simp only [List.map_append, List.map_map, qbinders_append]
    rw [hq, qbinders_cons] at hsids
    have h0 : List.map ((fun x => x.1) ∘ fun x => (x.1, x.2.1)) sc = sc.map (·.1) := by
      apply List.map_congr_left; intros; rfl
    rw [h0]
    have h1 : ((sc.map (·.1) ++ st.brk.map (·.1)) ++ (qbinders q ++ qbinders nw)).Perm
        (st.brk.map (·.1) ++ ((sc.map (·.1) ++ qbinders nw) ++ qbinders q)) := by
      simp only [List.append_assoc]
      refine (List.perm_append_comm_assoc _ _ _).trans ?_
      refine List.Perm.append_left _ ?_
      refine List.Perm.append_left _ ?_
      exact List.perm_append_comm
    have hperm := h1.trans (List.Perm.append_left _ (List.Perm.append_right _ so.binders_perm))
    exact hperm.nodup_iff.2 hsids
  · rw [so.brk_eq, so.cont_eq]
    simp only [List.map_append, List.map_map, hkeys]
    congr 1

theorem step_ext (hinv : Inv st) (hq : st.queue = p :: q)
    (so : StepOut p { st with queue := q } st1 nw ch sc) : Ext st st1 := by
  obtain ⟨hsn, hsd⟩ := step_sc_nodup hinv hq so
  have hnm := step_not_mem hinv hq
  refine ⟨?_, ?_, ?_⟩
  · intro k c h
    rw [so.final_eq]
    have hk := findChunk_mem_ids h
    have hne : k ≠ p.id := by intro he; subst he; exact hnm hk
    rw [findChunk_cons_ne _ _ _ (by rw [so.ch_id]; exact fun e => hne e.symm)]
    simp only
    rw [findChunk_filter_ne _ _ _ hne]; exact h
  · intro s v h
    rw [so.brk_eq]
    have hk := mem_keys_of_lookup h
    rw [lookup_append_of_not_mem]; · exact h
    intro hmem
    simp only [List.map_map, List.mem_map, Function.comp] at hmem
    obtain ⟨x, hx, rfl⟩ := hmem
    exact hsd x.1 (List.mem_map.2 ⟨x, hx, rfl⟩) hk
  · intro s v h
    rw [so.cont_eq]
    have hk := mem_keys_of_lookup h
    rw [hinv.keys] at hk
    rw [lookup_append_of_not_mem]; · exact h
    intro hmem
    simp only [List.map_map, List.mem_map, Function.comp] at hmem
    obtain ⟨x, hx, rfl⟩ := hmem
    exact hsd x.1 (List.mem_map.2 ⟨x, hx, rfl⟩) hk
end step

/-! ### one step of the worklist -/

theorem perm_of_eq {l1 l2 : List Nat} (h : l1 = l2) : l1.Perm l2 := h ▸ List.Perm.refl _

theorem scan_facts (p : Chunk) (i : Nat) (fin : Option Bool)
    (h : scanSimple p.statements 0 p.statements.length = (i, fin)) :
    ∃ pre rest, p.statements = pre ++ rest ∧ (∀ x ∈ pre, IsSimple x) ∧ i = pre.length ∧
      ((fin = none ∧ (rest = [] ∨ ∃ x r, rest = x :: r ∧ ¬ IsSimple x)) ∨
       (∃ c, fin = some (c.name == "end") ∧ rest = [.cmd c] ∧ (c.name = "end" ∨ c.name = "return"))) := by
  obtain ⟨pre, rest, e1, e2, e3, e4⟩ := scanSimple_spec p.statements 0 _ (by simp) i fin h
  exact ⟨pre, rest, e1, e2, by simpa using e3, e4⟩

theorem branch_none_of_stmts {p : Chunk} (hq : QOK p) (h : p.statements ≠ []) : p.branch = .none := by
  apply Classical.byContradiction
  intro hb
  exact h (hq.2 hb)

/-- **every successful `processChunk` is a `StepOut`** -/
theorem process_spec (p : Chunk) (st0 st1 : WS) (hq : QOK p) (hp : processChunk p st0 = .ok st1) :
    ∃ nw ch sc, StepOut p st0 st1 nw ch sc := by
  unfold processChunk at hp
  generalize hscan : scanSimple p.statements 0 p.statements.length = scn at hp
  obtain ⟨i, fin⟩ := scn
  obtain ⟨pre, rest, hst, hsim, hi, hcase⟩ := scan_facts p i fin hscan
  subst hi
  simp only at hp
  have htake : p.statements.take pre.length = pre := by rw [hst]; simp
  rcases hcase with ⟨rfl, hrest⟩ | ⟨c, rfl, rfl, hname⟩
  · simp only at hp
    rcases hrest with rfl | ⟨x, r, rfl, hx⟩
    · -- only commands and labels
      have hlen : pre.length = p.statements.length := by rw [hst]; simp
      rw [if_pos (by simp [hlen])] at hp
      injection hp with hp; subst hp
      refine ⟨[], p, [], StepOut.of_grows (Grows.refl st0) rfl rfl rfl rfl rfl rfl (by simp) (by simp) ?_ ?_⟩
      · rw [hst, List.append_nil, bindersL_simple pre hsim]; exact List.Perm.refl _
      · intro G cx hG _ _ _ _
        by_cases hb : p.branch = .none
        · rw [realizes_code hb]; intro _
          have := impl_head (cx := cx) (ret := p.returnID) (rst := []) hG (by simpa using hst) hsim
            (Impl.nil hG hlen.symm hb rfl hq.1)
          rw [hst]; exact this
        · rw [realizes_helper hb]; exact ⟨p, hG, hq.2 hb, rfl⟩
    · -- a compound statement at index `pre.length`
      have hb : p.branch = .none := branch_none_of_stmts hq (by rw [hst]; simp)
      have hilt : pre.length < p.statements.length := by rw [hst]; simp
      have hne : ¬ ((pre.length == p.statements.length) = true) := by simp; omega
      have hget : p.statements[pre.length]? = some x := by rw [hst]; simp
      have hdrop : p.statements.drop (pre.length + 1) = r := by rw [hst]; simp
      have hbind : bindersL p.statements = binders x ++ bindersL r := by
        rw [hst, bindersL_append, bindersL_simple pre hsim, bindersL_cons]; rfl
      rw [if_neg hne] at hp
      simp only [hget] at hp
      -- shared: wrap the `Impl` of the compound statement into `Realizes p`
      have wrap : ∀ (G : List Chunk) (cx : Ctx) (ch : Chunk), findChunk G p.id = some ch →
          ch.statements = pre →
          (OneDefaultL (x :: r) → Impl G cx p.id pre.length (x :: r) p.returnID) → Realizes G cx p := by
        intro G cx ch hG hs himp
        rw [realizes_code hb]; intro hod
        rw [hst, OneDefaultL_append] at hod
        rw [hst]; exact impl_head hG hs hsim (himp hod.2)
      have stm : ∀ (sc : List (Nat × Option Nat × Nat)) (q : Chunk),
          (∀ s ∈ scopeB x, s ∈ sc.map (·.1)) →
          (q.statements = [] ∨ q.statements = r ∨ q.statements ∈ subBlocks x) →
          q.statements = [] ∨ ∃ pre x' r', p.statements = pre ++ x' :: r' ∧
            (q.statements = r' ∨ (q.statements ∈ subBlocks x' ∧ ∀ s ∈ scopeB x', s ∈ sc.map (·.1))) := by
        intro sc q hsc h
        rcases h with h | h | h
        · exact .inl h
        · exact .inr ⟨pre, x, r, hst, .inl h⟩
        · exact .inr ⟨pre, x, r, hst, .inr ⟨h, hsc⟩⟩
      cases x with
      | cmd c => exact absurd trivial hx
      | label t n g => exact absurd trivial hx
      | ite tok cond body elifs els =>
        simp only at hp
        split at hp
        · cases hp
        · rename_i s1 br ret hc
          injection hp with hp; subst hp
          obtain ⟨nw, g, hqok, hperm, himp⟩ :=
            createIf_spec tok cond body elifs els p pre.length st0 s1 br ret r hilt hdrop hc
          refine ⟨nw, { id := p.id, returnID := ret, statements := p.statements.take pre.length, branch := br }, [], StepOut.of_grows g rfl rfl rfl rfl rfl rfl (fun q h => (hqok q h).1)
            (fun q h => stm [] q (by simp [scopeB]) (hqok q h).2) ?_ ?_⟩
          · rw [hbind]; exact hperm
          · intro G cx hG _ _ _ hq'
            exact wrap G cx _ hG htake (himp G cx _ hG rfl (by simp [htake]) hq')
      | while_ tok sid cond body =>
        simp only at hp
        split at hp
        · cases hp
        · rename_i s1 br ret contId hc
          injection hp with hp; subst hp
          obtain ⟨nw, g, hqok, hperm, himp⟩ :=
            createWhile_spec tok sid cond body p pre.length st0 s1 br ret contId r hilt hdrop hc
          refine ⟨nw, { id := p.id, returnID := ret, statements := p.statements.take pre.length, branch := br }, [(sid, ret, contId)], StepOut.of_grows g rfl rfl rfl rfl rfl rfl (fun q h => (hqok q h).1)
            (fun q h => stm _ q (by simp [scopeB]) (hqok q h).2) ?_ ?_⟩
          · rw [hbind, binders_while]; exact List.Perm.cons _ hperm
          · intro G cx hG _ _ hsc hq'
            have := hsc (sid, ret, contId) (by simp)
            exact wrap G cx _ hG htake (himp G cx _ hG rfl (by simp [htake]) this.1 this.2 hq')
      | doWhile tok sid cond body =>
        simp only at hp
        split at hp
        · cases hp
        · rename_i s1 br ret contId hc
          injection hp with hp; subst hp
          obtain ⟨nw, g, hqok, hperm, himp⟩ :=
            createDoWhile_spec tok sid cond body p pre.length st0 s1 br ret contId r hilt hdrop hc
          refine ⟨nw, { id := p.id, returnID := ret, statements := p.statements.take pre.length, branch := br }, [(sid, ret, contId)], StepOut.of_grows g rfl rfl rfl rfl rfl rfl (fun q h => (hqok q h).1)
            (fun q h => stm _ q (by simp [scopeB]) (hqok q h).2) ?_ ?_⟩
          · rw [hbind, binders_doWhile]; exact List.Perm.cons _ hperm
          · intro G cx hG _ _ hsc hq'
            have := hsc (sid, ret, contId) (by simp)
            exact wrap G cx _ hG htake (himp G cx _ hG rfl (by simp [htake]) this.1 this.2 hq')
      | brk tok sid =>
        simp only at hp
        split at hp
        · cases hp
        · rename_i dest hl
          injection hp with hp; subst hp
          rw [keepStatementsAfterJump_eq]
          obtain ⟨nw, g, hcode, hbd, _, himp⟩ := splitChunkForBranch_spec p pre.length st0 r hilt hdrop
          refine ⟨nw, { id := p.id, returnID := p.returnID, statements := p.statements.take pre.length, branch := .breakCtx dest }, [], StepOut.of_grows g rfl rfl rfl rfl rfl rfl
            (fun q hq' => (hcode q hq').1.qok)
            (fun q hq' => stm [] q (by simp [scopeB]) (.inr (.inl (hcode q hq').2))) ?_ ?_⟩
          · rw [hbind, binders_brk, hbd]; exact List.Perm.refl _
          · intro G cx hG hbrk _ _ hq'
            refine wrap G cx _ hG htake (fun hod => ?_)
            rw [odL_cons] at hod
            exact Impl.brk (p := st0.counter + 1) hG (by simp [htake]) (by rw [hbrk sid dest hl])
              (fun hr => himp G cx hq' hr hod.2)
      | cont tok sid =>
        simp only at hp
        split at hp
        · cases hp
        · rename_i dest hl
          injection hp with hp; subst hp
          rw [keepStatementsAfterJump_eq]
          obtain ⟨nw, g, hcode, hbd, _, himp⟩ := splitChunkForBranch_spec p pre.length st0 r hilt hdrop
          refine ⟨nw, { id := p.id, returnID := p.returnID, statements := p.statements.take pre.length, branch := .breakCtx (some dest) }, [], StepOut.of_grows g rfl rfl rfl rfl rfl rfl
            (fun q hq' => (hcode q hq').1.qok)
            (fun q hq' => stm [] q (by simp [scopeB]) (.inr (.inl (hcode q hq').2))) ?_ ?_⟩
          · rw [hbind, binders_cont, hbd]; exact List.Perm.refl _
          · intro G cx hG _ hcont _ hq'
            refine wrap G cx _ hG htake (fun hod => ?_)
            rw [odL_cons] at hod
            exact Impl.cont (p := st0.counter + 1) hG (by simp [htake]) (by rw [hcont sid dest hl])
              (fun hr => himp G cx hq' hr hod.2)
      | switch_ tok sid operand cases =>
        simp only at hp
        generalize hc : createSwitch operand cases p pre.length st0 = cs at hp
        obtain ⟨s1, br, ret, swId⟩ := cs
        simp only at hp
        injection hp with hp; subst hp
        obtain ⟨nw, g, hqok, hperm, himp⟩ :=
          createSwitch_spec tok sid operand cases p pre.length st0 s1 br ret swId r hilt hdrop hc
        refine ⟨nw, { id := p.id, returnID := ret, statements := p.statements.take pre.length, branch := br }, [(sid, ret, swId)], StepOut.of_grows g rfl rfl rfl rfl rfl rfl (fun q h => (hqok q h).1)
          (fun q h => stm _ q (by simp [scopeB]) (hqok q h).2) ?_ ?_⟩
        · rw [hbind, binders_switch]; exact List.Perm.cons _ hperm
        · intro G cx hG _ _ hsc hq'
          have := hsc (sid, ret, swId) (by simp)
          exact wrap G cx _ hG htake (himp G cx _ hG rfl (by simp [htake]) this.1 hq')
  · -- `end` / `return` is the last statement
    simp only at hp
    injection hp with hp; subst hp
    have hb : p.branch = .none := branch_none_of_stmts hq (by rw [hst]; simp)
    refine ⟨[], { id := p.id, returnID := none, useEndTerminator := (c.name == "end"), statements := p.statements.take pre.length }, [], StepOut.of_grows (Grows.refl st0) rfl rfl rfl rfl rfl rfl (by simp) (by simp) ?_ ?_⟩
    · rw [hst, bindersL_append, bindersL_simple pre hsim, bindersL_cons, bindersL_nil]
      exact List.Perm.refl _
    · intro G cx hG _ _ _ _
      rw [realizes_code hb]; intro _
      rw [hst]
      exact impl_head hG htake hsim (Impl.endLast hG (by simp [htake]) rfl rfl hname rfl)

/-! ### the whole run -/

theorem runWorklist_succ (n : Nat) (s : WS) : runWorklist (n + 1) s =
    (match s.queue with
     | [] => .ok s
     | cur :: rest =>
       match processChunk cur { s with queue := rest } with
       | .error e => .error e
       | .ok s' => runWorklist n s') := rfl

/-- the promise: when the worklist has run dry, the final graph realises every chunk that was
ever queued -/
theorem run_spec : ∀ (f : Nat) (st st' : WS), runWorklist f st = .ok st' → Inv st →
    Ext st st' ∧ ∀ p ∈ st.queue, Realizes st'.final st'.cx p := by
  intro f
  induction f with
  | zero => intro st st' h; simp [runWorklist] at h
  | succ f ih =>
    intro st st' h hinv
    rw [runWorklist_succ] at h
    cases hq : st.queue with
    | nil =>
      simp only [hq] at h
      injection h with h; subst h
      exact ⟨Ext.refl _, by simp⟩
    | cons p q =>
      simp only [hq] at h
      cases hp : processChunk p { st with queue := q } with
      | error e => simp [hp] at h
      | ok st1 =>
        simp only [hp] at h
        have hqok : QOK p := hinv.qok p (by simp [hq])
        obtain ⟨nw, ch, sc, so⟩ := process_spec p _ st1 hqok hp
        have hinv1 := step_inv hinv hq so
        have hext1 := step_ext hinv hq so
        obtain ⟨hext2, hreal⟩ := ih st1 st' h hinv1
        refine ⟨hext1.trans hext2, ?_⟩
        intro x hx
        simp only [List.mem_cons] at hx
        rcases hx with rfl | hx
        · obtain ⟨hsn, _⟩ := step_sc_nodup hinv hq so
          apply so.realizes st'.final st'.cx
          · apply hext2.final
            rw [so.final_eq, ← so.ch_id]; exact findChunk_cons_self _ _
          · intro s v hl
            have := hext2.brk s v (hext1.brk s v hl)
            simp [WS.cx, this]
          · intro s v hl
            exact hext2.cont s v (hext1.cont s v hl)
          · intro y hy
            have hb : st1.brk.lookup y.1 = some y.2.1 := by
              rw [so.brk_eq]
              have hn : ((sc.map (fun x => (x.1, x.2.1))).map (·.1)).Nodup := by
                rw [List.map_map]; exact hsn
              have hm : (y.1, y.2.1) ∈ sc.map (fun x => (x.1, x.2.1)) := List.mem_map.2 ⟨y, hy, rfl⟩
              exact lookup_append_of_some _ _ _ _ (lookup_of_mem_nodup hn hm)
            have hc : st1.cont.lookup y.1 = some y.2.2 := by
              rw [so.cont_eq]
              have hn : ((sc.map (fun x => (x.1, x.2.2))).map (·.1)).Nodup := by
                rw [List.map_map]; exact hsn
              have hm : (y.1, y.2.2) ∈ sc.map (fun x => (x.1, x.2.2)) := List.mem_map.2 ⟨y, hy, rfl⟩
              exact lookup_append_of_some _ _ _ _ (lookup_of_mem_nodup hn hm)
            simp only [WS.cx, hext2.brk _ _ hb, hext2.cont _ _ hc, Option.getD_some, and_self]
          · intro y hy
            exact hreal y (by rw [so.queue_eq]; simp [hy])
        · exact hreal x (by rw [so.queue_eq]; simp [hx])

/-- initial worklist state of `scriptChunks` -/
def initWS (body : List Stmt) : WS := { queue := [{ id := 0, statements := body }] }

theorem inv_init (body : List Stmt) (hs : ScopeIdsDistinct body) : Inv (initWS body) := by
  refine ⟨by simp [ids, initWS], by simp [ids, initWS], ?_, ?_, by simp [initWS]⟩
  · intro p hp
    simp only [initWS, List.mem_singleton] at hp
    subst hp
    exact IsCode.qok ⟨rfl, rfl⟩
  · unfold ScopeIdsDistinct at hs; simpa [initWS, qbinders] using hs

/-- **The FIFO worklist establishes the compilation relation** (all statement kinds).
`ScopeIdsDistinct`: the scope ids of all loops / switches in `body` are pairwise distinct (the
parser numbers them); `OneDefaultL`: every switch has at most one `default` (the parser rejects
two).  No hypothesis on the boolean operators is needed: `splitBool` fails on an operator other
than `&&` / `||`, so success of `scriptChunks` already implies it. -/
theorem emit_impl (body : List Stmt) (chunks : List Chunk) (hs : ScopeIdsDistinct body)
    (hd : OneDefaultL body) (h : scriptChunks body = .ok chunks) :
    ∃ cx : Sem.Ctx, Sem.Impl chunks cx 0 0 body none := by
  unfold scriptChunks at h
  split at h
  · cases h
  · rename_i st hrun
    injection h with h; subst h
    have := (run_spec _ (initWS body) st hrun (inv_init body hs)).2
      { id := 0, statements := body } (by simp [initWS])
    rw [realizes_code rfl] at this
    exact ⟨st.cx, this hd⟩

/-- `emit_impl` on the final worklist state: the context is `st.cx`, read off `st.brk` / `st.cont`. -/
theorem emit_impl_run (body : List Stmt) (f : Nat) (st : WS) (hs : ScopeIdsDistinct body)
    (hd : OneDefaultL body) (h : runWorklist f (initWS body) = .ok st) :
    Sem.Impl st.final st.cx 0 0 body none := by
  have := (run_spec _ (initWS body) st h (inv_init body hs)).2
    { id := 0, statements := body } (by simp [initWS])
  rw [realizes_code rfl] at this
  exact this hd

#print axioms emit_impl

/-! ### non-vacuity -/

def cmdS (n : String) : Stmt := .cmd { name := n }
def leafS (n : String) : BoolExpr := .leaf { operand := { lit := n } }

/-- if / elif / else with `&&` and `||`, a `while` with `break` and a statement after it, a
do…while with `continue`, a switch with shared, default and trailing body-less cases, a switch
without any body, an infinite loop, `end` as the last statement -/
def demoBody : List Stmt :=
  [ cmdS "a",
    .ite {} (.bin (leafS "x") .AND (.bin (leafS "y") .OR (leafS "z"))) [cmdS "t"]
      [(leafS "e1", [cmdS "u"]), (leafS "e2", [])] (some [cmdS "v"]),
    .while_ {} 1 (some (leafS "w")) [cmdS "b", .brk {} 1, cmdS "dead"],
    .doWhile {} 2 (leafS "d") [.cont {} 2],
    .switch_ {} 3 {} [({ lit := "1" }, false, []), ({ lit := "2" }, false, [cmdS "c2", .brk {} 3]),
                      ({}, true, [cmdS "dflt"]), ({ lit := "4" }, false, [])],
    .switch_ {} 4 {} [({ lit := "1" }, false, [])],
    .while_ {} 5 none [cmdS "loop"],
    cmdS "end" ]

theorem demo_scopes : ScopeIdsDistinct demoBody := by unfold ScopeIdsDistinct; decide
theorem demo_oneDefault : OneDefaultL demoBody := by
  unfold demoBody
  repeat' (first | decide | constructor)
theorem demo_ok : (scriptChunks demoBody).toOption.map (·.length) = some 32 := by decide

/-- non-vacuity of `emit_impl`: the hypotheses hold for `demoBody`, which compiles to 32 chunks -/
example : ∃ chunks cx, scriptChunks demoBody = .ok chunks ∧ chunks.length = 32 ∧
    Sem.Impl chunks cx 0 0 demoBody none := by
  have hok := demo_ok
  cases h : scriptChunks demoBody with
  | error e => rw [h] at hok; cases hok
  | ok chunks =>
    rw [h] at hok
    obtain ⟨cx, hcx⟩ := emit_impl demoBody chunks demo_scopes demo_oneDefault h
    exact ⟨chunks, cx, rfl, by simpa [Except.toOption] using hok, hcx⟩

end Pory.Emit
