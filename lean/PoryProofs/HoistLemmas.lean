import PoryModel.Compile
/-
Helper lemmas for C06b (hoisting of inline texts / movements):
* `split_unique`, `flatMap_sep_inj`: a list of separator-free words is determined by the words
  joined with a trailing separator (used for `getMovementsKey` and for reading the counter off a
  generated label);
* `repr_inj`: `Nat.repr` is injective;
* `text_label_inj` / `movement_label_inj` / `text_ne_movement_label`: generated label names
  determine (owner, counter) — unconditionally, because the decimal counter contains no `_`;
* `lookupD_setCount_same/other`, `mem_of_lookup`.
-/
namespace Pory.Hoist
open Pory Pory.Parser

/-! ### lists -/

/-- Splitting at the first separator is unique. -/
theorem split_unique {α : Type} (sep : α) (x y r r' : List α) (hx : sep ∉ x) (hy : sep ∉ y)
    (h : x ++ sep :: r = y ++ sep :: r') : x = y ∧ r = r' := by
  induction x generalizing y with
  | nil =>
    cases y with
    | nil => simpa using h
    | cons b y =>
      simp only [List.nil_append, List.cons_append, List.cons.injEq] at h
      exact absurd (by simp [h.1]) hy
  | cons a x ih =>
    cases y with
    | nil =>
      simp only [List.nil_append, List.cons_append, List.cons.injEq] at h
      exact absurd (by simp [h.1]) hx
    | cons b y =>
      simp only [List.cons_append, List.cons.injEq] at h
      have hx' : sep ∉ x := fun hm => hx (List.mem_cons_of_mem _ hm)
      have hy' : sep ∉ y := fun hm => hy (List.mem_cons_of_mem _ hm)
      obtain ⟨e1, e2⟩ := ih y hx' hy' h.2
      exact ⟨by rw [h.1, e1], e2⟩

/-- Words without the separator are recovered from `w₁ sep w₂ sep … wₙ sep`. -/
theorem flatMap_sep_inj {α : Type} (sep : α) (a b : List (List α)) (ha : ∀ w ∈ a, sep ∉ w)
    (hb : ∀ w ∈ b, sep ∉ w)
    (h : a.flatMap (fun w => w ++ [sep]) = b.flatMap (fun w => w ++ [sep])) : a = b := by
  induction a generalizing b with
  | nil =>
    cases b with
    | nil => rfl
    | cons y b => simp at h
  | cons x a ih =>
    cases b with
    | nil => simp at h
    | cons y b =>
      simp only [List.flatMap_cons, List.append_assoc, List.singleton_append] at h
      obtain ⟨e1, e2⟩ := split_unique sep x y _ _ (ha x (by simp)) (hb y (by simp)) h
      rw [e1, ih b (fun w hw => ha w (by simp [hw])) (fun w hw => hb w (by simp [hw])) e2]

theorem mem_of_lookup {α β : Type} [BEq α] [LawfulBEq α] (l : List (α × β)) (k : α) (v : β)
    (h : l.lookup k = some v) : (k, v) ∈ l := by
  induction l with
  | nil => simp [List.lookup] at h
  | cons e r ih =>
    obtain ⟨k', v'⟩ := e
    simp only [List.lookup] at h
    by_cases hk : k = k'
    · subst hk
      simp at h
      subst h
      simp
    · have : (k == k') = false := by simpa using hk
      simp only [this] at h
      exact List.mem_cons_of_mem _ (ih h)

/-! ### counters -/

theorem lookupD_setCount_same (m : List (String × Nat)) (k : String) (v : Nat) :
    lookupD (setCount m k v) k = v := by
  simp [lookupD, setCount]

theorem lookup_filter_ne (m : List (String × Nat)) (k k' : String) (hne : k' ≠ k) :
    (m.filter fun e => e.1 != k).lookup k' = m.lookup k' := by
  induction m with
  | nil => rfl
  | cons e r ih =>
    obtain ⟨k0, v0⟩ := e
    simp only [List.filter_cons]
    by_cases he : k0 = k
    · subst he
      have hk : (k' == k0) = false := by simpa using hne
      simp [List.lookup, hk, ih]
    · have : (k0 != k) = true := by simpa using he
      simp only [this, if_true, List.lookup]
      split <;> simp_all

theorem lookupD_setCount_other (m : List (String × Nat)) (k k' : String) (v : Nat) (hne : k' ≠ k) :
    lookupD (setCount m k v) k' = lookupD m k' := by
  have hb : (k' == k) = false := by simpa using hne
  simp only [lookupD, setCount, List.lookup, hb]
  rw [lookup_filter_ne m k k' hne]

/-! ### generated names -/

theorem toString_string (s : String) : toString s = s := rfl

theorem repr_inj {a b : Nat} (h : a.repr = b.repr) : a = b := by
  have h2 : Nat.toDigits 10 a = Nat.toDigits 10 b := by
    rw [← Nat.toList_repr, ← Nat.toList_repr, h]
  have h3 := congrArg (fun l => Nat.ofDigitChars 10 l 0) h2
  simpa using h3

theorem textLabel_toList (o : String) (n : Nat) :
    (getImplicitTextLabel o n).toList = (o.toList ++ "_Text".toList) ++ '_' :: Nat.toDigits 10 n := by
  simp [getImplicitTextLabel, String.toList_append, toString_string]

theorem movementLabel_toList (o : String) (n : Nat) :
    (getImplicitMovementLabel o n).toList =
      (o.toList ++ "_Movement".toList) ++ '_' :: Nat.toDigits 10 n := by
  simp [getImplicitMovementLabel, String.toList_append, toString_string]

/-- `pre₁ ++ '_' :: digits n₁ = pre₂ ++ '_' :: digits n₂` determines both parts. -/
theorem suffix_digits_unique (p1 p2 : List Char) (n1 n2 : Nat)
    (h : p1 ++ '_' :: Nat.toDigits 10 n1 = p2 ++ '_' :: Nat.toDigits 10 n2) : p1 = p2 ∧ n1 = n2 := by
  have hr := congrArg List.reverse h
  simp only [List.reverse_append, List.reverse_cons, List.append_assoc, List.singleton_append] at hr
  have hu : ∀ n, '_' ∉ (Nat.toDigits 10 n).reverse := by
    intro n hm
    exact Nat.underscore_not_in_toDigits (List.mem_reverse.1 hm)
  obtain ⟨e1, e2⟩ := split_unique '_' _ _ _ _ (hu n1) (hu n2) hr
  have e1' : Nat.toDigits 10 n1 = Nat.toDigits 10 n2 := List.reverse_inj.1 e1
  refine ⟨List.reverse_inj.1 e2, ?_⟩
  have h3 := congrArg (fun l => Nat.ofDigitChars 10 l 0) e1'
  simpa using h3

/-- Generated text labels determine owner and counter — no condition on the owner's name. -/
theorem text_label_inj {o1 o2 : String} {n1 n2 : Nat}
    (h : getImplicitTextLabel o1 n1 = getImplicitTextLabel o2 n2) : o1 = o2 ∧ n1 = n2 := by
  have h2 := congrArg String.toList h
  rw [textLabel_toList, textLabel_toList] at h2
  obtain ⟨e1, e2⟩ := suffix_digits_unique _ _ _ _ h2
  exact ⟨String.toList_inj.1 (List.append_cancel_right e1), e2⟩

theorem movement_label_inj {o1 o2 : String} {n1 n2 : Nat}
    (h : getImplicitMovementLabel o1 n1 = getImplicitMovementLabel o2 n2) : o1 = o2 ∧ n1 = n2 := by
  have h2 := congrArg String.toList h
  rw [movementLabel_toList, movementLabel_toList] at h2
  obtain ⟨e1, e2⟩ := suffix_digits_unique _ _ _ _ h2
  exact ⟨String.toList_inj.1 (List.append_cancel_right e1), e2⟩

/-- A generated text label is never a generated movement label. -/
theorem text_ne_movement_label (o1 o2 : String) (n1 n2 : Nat) :
    getImplicitTextLabel o1 n1 ≠ getImplicitMovementLabel o2 n2 := by
  intro h
  have h2 := congrArg String.toList h
  rw [textLabel_toList, movementLabel_toList] at h2
  obtain ⟨e1, _⟩ := suffix_digits_unique _ _ _ _ h2
  have hr := congrArg List.reverse e1
  simp [List.reverse_append] at hr

end Pory.Hoist
