import PoryProofs.ProgramParseEMS
/-
P2e, stage 2: the parser model on printed files whose script bodies are written in P1c's grammar.

* `top_scriptE`        : `parseTopLevelStatement` on a printed `scriptE` statement = `stepTopE` (result, state, or
                         the located error of the body) — from `P1c.parse_block_elab` and the two interface lemmas
                         through which P2 enters script bodies (`C15b.parse_script_statement_gen`,
                         `P2.parse_script_statement_err`) + `C12c.addImplicitData_run` / `P2.addImp_st`;
* `parse_top_step_e`   : one statement of the grammar (old kinds through `P2d.parse_top_step_ps`, `mapscriptsE`
                         through `top_mapscriptsE`, from `entries_runE` of PoryProofs/ProgramParseEMS.lean);
* `topLoopE_elab`, `parseProgramM_elabE`, `parseTokens_elabE` : the loop, the post-passes, the model's fuel.
-/
namespace Pory.P2e
open Pory Pory.Parser Pory.C02P Pory.TopParse Pory.P2 Pory.P2b Pory.P2d
open Pory.StmtG (Ctx ctxOf)
open Pory.C12c (addImp)

/-! ### the new script statement -/

theorem top_scriptE (env : Env) (fuel : Nat) (s : PState) (kw : Tok) (md : Mod) (name lb : Tok)
    (b : List P1c.SStmt) (rb : Tok) (rest : List Tok) (hkw : kw.type = .SCRIPT) (hmd : md.WF)
    (hname : name.type = .IDENT) (hlb : lb.type = .LBRACE) (hwf : P1c.SWF b) (hrb : rb.type = .RBRACE)
    (hfuel : P1c.needL b ≤ fuel) :
    (parseTopLevelStatement env fuel).run
        (st s (kw :: (md.toks ++ name :: lb :: (P1c.printStmts b ++ rb :: rest)))) =
      match stepTopE env (.scriptE kw md name lb b rb) s with
      | .error e => .error e
      | .ok (o, s') => .ok (o, st s' (rb :: rest)) := by
  have hb := P1c.parse_block_elab env name.lit lb b rb rest hwf hrb (st s (P1c.printStmts b ++ rb :: rest)) rfl
    fuel hfuel
  have hctx : ctxOf (st s (P1c.printStmts b ++ rb :: rest)) = ctxOf s := rfl
  rw [hctx] at hb
  unfold parseTopLevelStatement stepTopE
  cases he : P1c.elabE env name.lit (ctxOf s) b with
  | error e =>
    rw [he] at hb
    have := parse_script_statement_err env fuel s kw md name lb _ hmd hname hlb e hb
    simp [hkw, this, he]
  | ok r =>
    obtain ⟨stmts, imp, c'⟩ := r
    rw [he] at hb
    have := C15b.parse_script_statement_gen env fuel s kw md name lb _ hmd hname hlb _ _ hb
    simp [hkw, this, he, C12c.addImplicitData_run, afterScript, scriptOf]
    rw [← addImp_st]
    rfl

/-- The new `mapscripts` statement (the proof of `P2b.top_mapscripts` over `entries_runE`). -/
theorem top_mapscriptsE (env : Env) (fuel : Nat) (s : PState) (kw : Tok) (md : Mod) (name lb : Tok)
    (es : List SEntryE) (rb : Tok) (rest : List Tok) (hkw : kw.type = .MAPSCRIPTS) (hmd : md.WF)
    (hname : name.type = .IDENT) (hlb : lb.type = .LBRACE) (hwf : EntriesWFE es) (hrb : rb.type = .RBRACE)
    (hfuel : needEntriesE es ≤ fuel) :
    (parseTopLevelStatement env fuel).run
        (st s (kw :: (md.toks ++ name :: lb :: (printEntriesE es ++ rb :: rest)))) =
      match stepTopE env (.mapscriptsE kw md name lb es rb) s with
      | .error e => .error e
      | .ok (o, s') => .ok (o, st s' (rb :: rest)) := by
  have hb := entries_runE env name.lit es fuel [] [] {} s rb rest hwf hrb hfuel
  unfold parseTopLevelStatement stepTopE
  cases he : elabEntriesE env name.lit es (ctxOf s) with
  | error e =>
    rw [he] at hb
    have := parse_mapscripts_statement_err env fuel s kw md name lb _ hmd hname hlb e hb
    simp [hkw, this, he]
  | ok r =>
    obtain ⟨mss, tbs, imp, c'⟩ := r
    rw [he] at hb
    simp only [List.nil_append, impData_empty_add] at hb
    have := C15b.parse_mapscripts_statement_gen env fuel s kw md name lb _ hmd hname hlb _ _ hb
    simp [hkw, this, he, C12c.addImplicitData_run, afterScript, P2b.mapScriptsOf]
    rw [addImp_st]
    rfl

/-- **One top-level statement.** `parseTopLevelStatement` on the printed statement followed by `nx :: rest` (after
a `const`: `nx` a top-level keyword) is `stepTopE`; the window is left on the statement's last token. -/
theorem parse_top_step_e (env : Env) (fuel : Nat) (t : STopE) (s : PState) (nx : Tok) (rest : List Tok)
    (hwf : TopWFE t) (hnx : t.isConst = true → nx.type ∈ Facts.topLevelTokens) (hf : needTopE t ≤ fuel) :
    (parseTopLevelStatement env fuel).run (st s (printTopE t ++ nx :: rest)) =
      match stepTopE env t s with
      | .error e => .error e
      | .ok (o, s') => .ok (o, st s' (t.last :: nx :: rest)) := by
  cases t with
  | base t => exact parse_top_step_ps env fuel t s nx rest hwf hnx hf
  | scriptE kw md name lb body rb =>
    obtain ⟨h1, h2, h3, h4, h5, h6⟩ := hwf
    have := top_scriptE env fuel s kw md name lb body rb (nx :: rest) h1 h2 h3 h4 h5 h6 hf
    simpa [printTopE, STopE.last] using this
  | mapscriptsE kw md name lb es rb =>
    obtain ⟨h1, h2, h3, h4, h5, h6⟩ := hwf
    have := top_mapscriptsE env fuel s kw md name lb es rb (nx :: rest) h1 h2 h3 h4 h5 h6 hf
    simpa [printTopE, STopE.last] using this

/-! ### the top-level loop -/

theorem printTopE_head (t : STopE) : ∃ tl, printTopE t = t.kw :: tl := by
  cases t with
  | base t => exact printTopP_head t
  | scriptE => exact ⟨_, rfl⟩
  | mapscriptsE => exact ⟨_, rfl⟩

/-- **The top-level loop on a printed file** is its reference elaboration. -/
theorem topLoopE_elab (env : Env) (fuel : Nat) (eofT : Tok) (tl : List Tok) (heof : eofT.type = .EOF) :
    ∀ (ts : List STopE) (n : Nat) (acc : List Top) (s : PState), TWFE ts → ts.length + 1 ≤ n →
      (∀ t ∈ ts, needTopE t ≤ fuel) →
      (topLoop env fuel n acc).run (st s (printTopsE ts ++ eofT :: tl)) =
        match elabTopsE env ts s with
        | .error e => .error e
        | .ok (tops, s') => .ok (acc ++ tops, st s' (eofT :: tl))
  | [], n, acc, s, _, hn, _ => by
    obtain ⟨m, rfl⟩ : ∃ m, n = m + 1 := ⟨n - 1, by simp at hn; omega⟩
    rw [topLoop_succ]
    simp [printTopsE, elabTopsE, heof]
  | t :: r, n, acc, s, hwf, hn, hf => by
    obtain ⟨m, rfl⟩ : ∃ m, n = m + 1 := ⟨n - 1, by simp at hn; omega⟩
    obtain ⟨h1, h2, h3⟩ := hwf
    obtain ⟨nx, rest, hw, hnx⟩ : ∃ nx rest, printTopsE r ++ eofT :: tl = nx :: rest ∧
        (t.isConst = true → nx.type ∈ Facts.topLevelTokens) := by
      cases r with
      | nil => exact ⟨eofT, tl, rfl, fun hc => absurd rfl (h2 hc)⟩
      | cons t2 r2 =>
        obtain ⟨tl2, htl2⟩ := printTopE_head t2
        refine ⟨t2.kw, tl2 ++ (printTopsE r2 ++ eofT :: tl), by simp [printTopsE, htl2], fun _ => h3.1.kw_top⟩
    have hstep := parse_top_step_e env fuel t s nx rest h1 hnx (hf t (by simp))
    obtain ⟨tl1, htl1⟩ := printTopE_head t
    have hkw : (t.kw.type == TT.EOF) = false := by
      have := h1.kw_top
      cases hk : t.kw.type <;> simp_all [Facts.topLevelTokens]
    have hwin : printTopsE (t :: r) ++ eofT :: tl = printTopE t ++ nx :: rest := by
      simp [printTopsE, hw]
    rw [topLoop_succ, hwin]
    simp only [StateT.run_bind, run_curIs, ex_bind_ok, st_toks, htl1, List.cons_append, List.headD_cons, hkw,
      Bool.false_eq_true, if_false]
    rw [← List.cons_append, ← htl1, hstep]
    simp only [elabTopsE]
    cases hs : stepTopE env t s with
    | error e => simp
    | ok q =>
      obtain ⟨o, s1⟩ := q
      have ih := topLoopE_elab env fuel eofT tl heof r m (acc ++ optTop o) s1 h3 (by simp at hn; omega)
        (fun x hx => hf x (by simp [hx]))
      simp only [ex_bind_ok, run_nextToken, st_toks, List.tail_cons, st_st, acc_optTop]
      rw [← hw, ih]
      cases elabTopsE env r s1 with
      | error e => rfl
      | ok q2 => obtain ⟨tops, s2⟩ := q2; simp

/-! ### `ParseProgram` -/

theorem parseProgramM_elabE (env : Env) (fuel : Nat) (eofT : Tok) (tl : List Tok) (heof : eofT.type = .EOF)
    (ts : List STopE) (s : PState) (hwf : TWFE ts) (hn : ts.length + 1 ≤ fuel)
    (hf : ∀ t ∈ ts, needTopE t ≤ fuel) :
    (parseProgramM env fuel).run (st s (printTopsE ts ++ eofT :: tl)) =
      match elabTopsE env ts s with
      | .error e => .error e
      | .ok (tops, s') =>
        match finish tops s' with
        | .error e => .error e
        | .ok p => .ok (p, st s' (eofT :: tl)) := by
  unfold parseProgramM
  simp only [StateT.run_bind, topLoopE_elab env fuel eofT tl heof ts fuel [] s hwf hn hf, List.nil_append]
  cases elabTopsE env ts s with
  | error e => simp
  | ok q =>
    obtain ⟨tops, s'⟩ := q
    simp only [ex_bind_ok, run_get, finish, dupTextErr, dupMovementErr]
    have h1 : (st s' (eofT :: tl)).inlineTexts = s'.inlineTexts := rfl
    have h2 : (st s' (eofT :: tl)).textStatements = s'.textStatements := rfl
    have h3 : (st s' (eofT :: tl)).inlineMovements = s'.inlineMovements := rfl
    have h4 : (st s' (eofT :: tl)).patches = s'.patches := rfl
    simp only [h1, h2, h3, h4]
    cases firstDuplicateText (s'.inlineTexts ++ s'.textStatements) [] with
    | some t => simp
    | none =>
      dsimp only
      cases firstDuplicateMovement (tops ++ List.map Top.movement s'.inlineMovements) [] with
      | some q => obtain ⟨tok, name⟩ := q; simp
      | none => simp

theorem length_le_printTopsE : ∀ (ts : List STopE), ts.length ≤ (printTopsE ts).length
  | [] => Nat.le_refl _
  | t :: r => by
    obtain ⟨tl, h⟩ := printTopE_head t
    have := length_le_printTopsE r
    simp only [printTopsE, List.length_cons, List.length_append, h]
    omega

theorem printTopE_length_le {t : STopE} :
    ∀ {ts : List STopE}, t ∈ ts → (printTopE t).length ≤ (printTopsE ts).length
  | x :: r, h => by
    simp only [printTopsE, List.length_append]
    rcases List.mem_cons.1 h with rfl | h
    · omega
    · have := printTopE_length_le h; omega

/-- **`parseTokens` on a printed file**, with the model's own fuel `4 * tokens + 50`. -/
theorem parseTokens_elabE (env : Env) (eofT : Tok) (heof : eofT.type = .EOF) (ts : List STopE) (hwf : TWFE ts) :
    parseTokens env (printTopsE ts ++ [eofT]) = elabFileE env ts (initState eofT) := by
  unfold parseTokens elabFileE
  have hl : (printTopsE ts ++ [eofT]).getLastD { type := .EOF } = eofT := by simp
  have hs : ({ toks := printTopsE ts ++ [eofT], eof := eofT } : PState) =
      st (initState eofT) (printTopsE ts ++ [eofT]) := rfl
  have hlen := length_le_printTopsE ts
  simp only [hl, hs, StateT.run']
  have h := parseProgramM_elabE env (4 * (printTopsE ts ++ [eofT]).length + 50) eofT [] heof ts (initState eofT)
    hwf (by simp only [List.length_append, List.length_cons, List.length_nil]; omega)
    (fun t ht => by
      have h1 := needTopE_le t
      have h2 := printTopE_length_le ht
      simp only [List.length_append, List.length_cons, List.length_nil]; omega)
  unfold StateT.run at h
  rw [h]
  cases elabTopsE env ts (initState eofT) with
  | error e => rfl
  | ok q =>
    obtain ⟨tops, s'⟩ := q
    simp only
    cases finish tops s' <;> rfl

/-! ### the pipeline -/

open Pory.Emit in
/-- The pipeline on the reference elaboration of a file (cf. `P2d.compileFileP`). -/
def compileFileE (env : Env) (o : Opts) (eofT : Tok) (ts : List STopE) : Except CErr Sections :=
  match elabTopsE env ts (initState eofT) with
  | .error e => .error (.parse e)
  | .ok (tops, s) =>
    match finish tops s with
    | .error e => .error (.parse e)
    | .ok _ =>
      match sectionsOf o tops s with
      | .error e => .error (.emit e)
      | .ok S => .ok S

open Pory.Emit in
theorem compileFileE_embed (env : Env) (o : Opts) (eofT : Tok) (ts : List STopP) :
    compileFileE env o eofT (embedP ts) = compileFileP env o eofT ts := by
  unfold compileFileE compileFileP
  rw [elabTopsE_embed]
  cases elabTopsP env ts (initState eofT) with
  | error e => rfl
  | ok q => rfl

open Pory.Emit in
/-- The model's pipeline (`parseTokens`, then `emitProgram`) on the printed tokens of a file is `compileFileE`. -/
theorem compileToks_printE (env : Env) (o : Opts) (eofT : Tok) (heof : eofT.type = .EOF) (ts : List STopE)
    (hwf : TWFE ts) :
    compileToks env o (printTopsE ts ++ [eofT]) =
      match compileFileE env o eofT ts with
      | .error e => .error e
      | .ok S => .ok S.lines := by
  unfold compileToks compileFileE
  rw [parseTokens_elabE env eofT heof ts hwf]
  unfold elabFileE
  cases elabTopsE env ts (initState eofT) with
  | error e => rfl
  | ok q =>
    obtain ⟨tops, s⟩ := q
    simp only
    cases hf : finish tops s with
    | error e => rfl
    | ok p =>
      simp only [emitProgram_sections o tops s p hf]
      cases sectionsOf o tops s <;> rfl

end Pory.P2e
