import PoryProofs.TokProvenance4
import PoryProofs.StmtFirstTok
import PoryProofs.Properties.C16b
/-
C16 (parser side): the only tokens of the token set of C16b (`C16b.progToks`) that are not in the
smaller set `C16nd.progToks` are the value tokens of `default` switch cases, and in a parsed program
these are all the zero token `{}`.

* `dzStmts ss` : every `default` case anywhere in `ss` carries the zero token;
* `mem_stmtsToks_b` : `dzStmts ss → t ∈ C16b.stmtsToks ss → t ∈ C16nd.stmtsToks ss ∨ t = {}`
  (and `mem_stmtsToks_nd` : the ND set is a subset of the C16b set);
* `dzAll` : the 13 statement functions only build statements satisfying `dzStmts` (one induction on
  the fuel; calls of the functions below statement level are black boxes, the predicate does not
  depend on the state); `dz_program` : so does `parseProgramM` for all scripts and inline scripts.
-/
namespace Pory.Parser
open Pory

mutual
def dzStmt : Stmt → Prop
  | .cmd _ => True
  | .label .. => True
  | .ite _ _ t elifs els => dzStmts t ∧ dzElifs elifs ∧ (match els with | some e => dzStmts e | none => True)
  | .while_ _ _ _ b => dzStmts b
  | .doWhile _ _ _ b => dzStmts b
  | .brk .. => True
  | .cont .. => True
  | .switch_ _ _ _ cases => dzCases cases
def dzStmts : List Stmt → Prop
  | [] => True
  | s :: r => dzStmt s ∧ dzStmts r
def dzElifs : List (BoolExpr × List Stmt) → Prop
  | [] => True
  | (_, b) :: r => dzStmts b ∧ dzElifs r
def dzCases : List SwitchCase → Prop
  | [] => True
  | (v, d, b) :: r => (d = true → v = {}) ∧ dzStmts b ∧ dzCases r
end

theorem dzStmts_nil : dzStmts [] ↔ True := by simp [dzStmts]
theorem dzStmts_append (a b : List Stmt) : dzStmts (a ++ b) ↔ dzStmts a ∧ dzStmts b := by
  induction a with
  | nil => simp [dzStmts]
  | cons x r ih => simp [dzStmts, ih, and_assoc]
theorem dzElifs_nil : dzElifs [] ↔ True := by simp [dzElifs]
theorem dzElifs_snoc (a : List (BoolExpr × List Stmt)) (e : BoolExpr) (b : List Stmt) :
    dzElifs (a ++ [(e, b)]) ↔ dzElifs a ∧ dzStmts b := by
  induction a with
  | nil => simp [dzElifs]
  | cons x r ih => obtain ⟨c, bd⟩ := x; simp [dzElifs, ih, and_assoc]
theorem dzCases_nil : dzCases [] ↔ True := by simp [dzCases]
theorem dzCases_snoc (a : List SwitchCase) (v : Tok) (d : Bool) (b : List Stmt) :
    dzCases (a ++ [(v, d, b)]) ↔ dzCases a ∧ (d = true → v = {}) ∧ dzStmts b := by
  induction a with
  | nil => simp [dzCases]
  | cons x r ih => obtain ⟨v', d', bd⟩ := x; simp [dzCases, ih, and_assoc]

theorem dz_cmd (c : Cmd) : dzStmts [.cmd c] ↔ True := by simp [dzStmts, dzStmt]
theorem dz_label (t : Tok) (nm : String) (g : Bool) : dzStmts [.label t nm g] ↔ True := by simp [dzStmts, dzStmt]
theorem dz_brk (t : Tok) (sid : Nat) : dzStmts [.brk t sid] ↔ True := by simp [dzStmts, dzStmt]
theorem dz_cont (t : Tok) (sid : Nat) : dzStmts [.cont t sid] ↔ True := by simp [dzStmts, dzStmt]
theorem dz_ite_none (t : Tok) (c : BoolExpr) (b : List Stmt) (es : List (BoolExpr × List Stmt)) :
    dzStmts [.ite t c b es none] ↔ dzStmts b ∧ dzElifs es := by simp [dzStmts, dzStmt]
theorem dz_ite_some (t : Tok) (c : BoolExpr) (b : List Stmt) (es : List (BoolExpr × List Stmt)) (l : List Stmt) :
    dzStmts [.ite t c b es (some l)] ↔ dzStmts b ∧ dzElifs es ∧ dzStmts l := by simp [dzStmts, dzStmt]
theorem dz_while (t : Tok) (sid : Nat) (c : Option BoolExpr) (b : List Stmt) :
    dzStmts [.while_ t sid c b] ↔ dzStmts b := by simp [dzStmts, dzStmt]
theorem dz_doWhile (t : Tok) (sid : Nat) (c : BoolExpr) (b : List Stmt) :
    dzStmts [.doWhile t sid c b] ↔ dzStmts b := by simp [dzStmts, dzStmt]
theorem dz_switch (t : Tok) (sid : Nat) (op : Tok) (cs : List SwitchCase) :
    dzStmts [.switch_ t sid op cs] ↔ dzCases cs := by simp [dzStmts, dzStmt]

/-! ### the two token sets differ by the default-case tokens only -/

theorem condToks_eq (c : BoolExpr) : C16b.condToks c = C16nd.condToks c := by
  induction c with
  | leaf e => rfl
  | bin l op r ihl ihr => simp [C16b.condToks, C16nd.condToks, ihl, ihr]

mutual
theorem mem_stmtToks_b : ∀ (s : Stmt) (t : Tok), dzStmt s → t ∈ C16b.stmtToks s →
    t ∈ C16nd.stmtToks s ∨ t = {}
  | .cmd c, t, _, h => Or.inl (by simpa [C16b.stmtToks, C16nd.stmtToks] using h)
  | .label tok nm g, t, _, h => Or.inl (by simpa [C16b.stmtToks, C16nd.stmtToks] using h)
  | .brk .., t, _, h => by simp [C16b.stmtToks] at h
  | .cont .., t, _, h => by simp [C16b.stmtToks] at h
  | .while_ tok sid c b, t, hd, h => by
    cases c with
    | none =>
      simp only [C16b.stmtToks, C16nd.stmtToks, List.nil_append, dzStmt] at h hd ⊢
      exact mem_stmtsToks_b b t hd h
    | some e =>
      simp only [C16b.stmtToks, C16nd.stmtToks, List.mem_append, dzStmt, condToks_eq] at h hd ⊢
      rcases h with h | h
      · exact Or.inl (Or.inl h)
      · exact (mem_stmtsToks_b b t hd h).imp Or.inr id
  | .doWhile tok sid c b, t, hd, h => by
    simp only [C16b.stmtToks, C16nd.stmtToks, List.mem_append, dzStmt, condToks_eq] at h hd ⊢
    rcases h with h | h
    · exact Or.inl (Or.inl h)
    · exact (mem_stmtsToks_b b t hd h).imp Or.inr id
  | .switch_ tok sid op cs, t, hd, h => by
    simp only [C16b.stmtToks, C16nd.stmtToks, List.mem_cons, dzStmt] at h hd ⊢
    rcases h with h | h
    · exact Or.inl (Or.inl h)
    · exact (mem_casesToks_b cs t hd h).imp Or.inr id
  | .ite tok c b es e, t, hd, h => by
    cases e with
    | none =>
      simp only [C16b.stmtToks, C16nd.stmtToks, List.mem_append, List.append_nil, dzStmt, condToks_eq, and_true] at h hd ⊢
      rcases h with (h | h) | h
      · exact Or.inl (Or.inl (Or.inl h))
      · exact (mem_stmtsToks_b b t hd.1 h).imp (fun x => Or.inl (Or.inr x)) id
      · exact (mem_elifsToks_b es t hd.2 h).imp Or.inr id
    | some l =>
      simp only [C16b.stmtToks, C16nd.stmtToks, List.mem_append, dzStmt, condToks_eq] at h hd ⊢
      rcases h with ((h | h) | h) | h
      · exact Or.inl (Or.inl (Or.inl (Or.inl h)))
      · exact (mem_stmtsToks_b b t hd.1 h).imp (fun x => Or.inl (Or.inl (Or.inr x))) id
      · exact (mem_elifsToks_b es t hd.2.1 h).imp (fun x => Or.inl (Or.inr x)) id
      · exact (mem_stmtsToks_b l t hd.2.2 h).imp Or.inr id
theorem mem_stmtsToks_b : ∀ (ss : List Stmt) (t : Tok), dzStmts ss → t ∈ C16b.stmtsToks ss →
    t ∈ C16nd.stmtsToks ss ∨ t = {}
  | [], t, _, h => by simp [C16b.stmtsToks] at h
  | s :: r, t, hd, h => by
    simp only [C16b.stmtsToks, C16nd.stmtsToks, List.mem_append, dzStmts] at h hd ⊢
    rcases h with h | h
    · exact (mem_stmtToks_b s t hd.1 h).imp Or.inl id
    · exact (mem_stmtsToks_b r t hd.2 h).imp Or.inr id
theorem mem_elifsToks_b : ∀ (es : List (BoolExpr × List Stmt)) (t : Tok), dzElifs es → t ∈ C16b.elifsToks es →
    t ∈ C16nd.elifsToks es ∨ t = {}
  | [], t, _, h => by simp [C16b.elifsToks] at h
  | (c, b) :: r, t, hd, h => by
    simp only [C16b.elifsToks, C16nd.elifsToks, List.mem_append, dzElifs, condToks_eq] at h hd ⊢
    rcases h with (h | h) | h
    · exact Or.inl (Or.inl (Or.inl h))
    · exact (mem_stmtsToks_b b t hd.1 h).imp (fun x => Or.inl (Or.inr x)) id
    · exact (mem_elifsToks_b r t hd.2 h).imp Or.inr id
theorem mem_casesToks_b : ∀ (cs : List SwitchCase) (t : Tok), dzCases cs → t ∈ C16b.casesToks cs →
    t ∈ C16nd.casesToks cs ∨ t = {}
  | [], t, _, h => by simp [C16b.casesToks] at h
  | (v, d, b) :: r, t, hd, h => by
    simp only [C16b.casesToks, C16nd.casesToks, List.mem_cons, List.mem_append, dzCases] at h hd ⊢
    rcases h with h | h | h
    · cases d with
      | true => exact Or.inr (h.trans (hd.1 rfl))
      | false => exact Or.inl (Or.inl (by simpa using h))
    · exact (mem_stmtsToks_b b t hd.2.1 h).imp (fun x => Or.inr (Or.inl x)) id
    · exact (mem_casesToks_b r t hd.2.2 h).imp (fun x => Or.inr (Or.inr x)) id
end

/-! ### the statement block only builds `default` cases with the zero token -/

/-- Symbolic execution; calls below the statement level are black boxes. -/
syntax "dzsimp" " [" Lean.Parser.Tactic.simpLemma,* "]" : tactic
macro_rules
  | `(tactic| dzsimp [$ts,*]) => `(tactic|
      swp [wp_run_iff (parseCommandStatement _ _ _),
        wp_run_iff (parseBooleanExpression _ _ _ _ _), wp_run_iff (collectUntil _ _ _ _),
        wp_run_iff (expectPeekVarOrAutoVar _ _ _), wp_run_iff (parseSwitchStatement.switchOperandLoop _ _ _),
        wp_run_iff (parsePoryswitchHeader _), dzStmts_nil, dzStmts_append, dzElifs_nil, dzElifs_snoc, dzCases_nil,
        dzCases_snoc, dz_cmd, dz_label, dz_brk, dz_cont, dz_ite_none, dz_ite_some, dz_while, dz_doWhile, dz_switch,
        CasesOK_nil, CasesOK_cons, ite_iff_and, true_implies, false_implies, not_false_eq_true, not_true_eq_false,
        reduceCtorEq, $ts,*])

syntax "dzvc" " [" Lean.Parser.Tactic.simpLemma,* "]" : tactic
macro_rules
  | `(tactic| dzvc [$ts,*]) => `(tactic| repeat' (first | (exact True.intro) | (apply And.intro) | (with_reducible intro _) | (dzsimp [$ts,*]) | (split)))

/-- Result predicate for the poryswitch case table. -/
def dzR (r : List Stmt × ImpData) : Prop := dzStmts r.1

macro "dzfin" : tactic => `(tactic| grind [CasesOK.lookup, CasesOK.select, dzR])

theorem tryParseLabel_dz (s : PState) :
    wp tryParseLabelStatement s (fun r _ => ∀ st, r = some st → dzStmt st ∧ dzStmts [st]) :=
  wp_mono (tryParseLabel_spec s) fun r _ h st hst => by
    obtain ⟨t, nm, g, rfl⟩ := h.2 st hst
    simp [dzStmts, dzStmt]

structure DZAll (n : Nat) : Prop where
  block : ∀ env sn tok acc imp s, wp (parseBlockStatement env sn tok n acc imp) s (fun r _ => dzStmts acc → dzStmts r.1)
  swblock : ∀ env sn tok acc imp s,
    wp (parseSwitchBlockStatement env sn tok n acc imp) s (fun r _ => dzStmts acc → dzStmts r.1)
  stmt : ∀ env sn s, wp (parseStatement env sn n) s (fun r _ => dzStmts r.1)
  cond : ∀ env sn req s, wp (parseConditionExpression env sn req n) s (fun r _ => dzStmts r.2.1)
  elifs : ∀ env sn acc imp s, wp (parseElifs env sn n acc imp) s (fun r _ => dzElifs acc → dzElifs r.1)
  ifs : ∀ env sn s, wp (parseIfStatement env sn n) s (fun r _ => dzStmts r.1)
  whiles : ∀ env sn s, wp (parseWhileStatement env sn n) s (fun r _ => dzStmts r.1)
  doWhiles : ∀ env sn s, wp (parseDoWhileStatement env sn n) s (fun r _ => dzStmts r.1)
  cases : ∀ env sn tok cs vals hd imp s,
    wp (parseSwitchCases env sn tok n cs vals hd imp) s (fun r _ => dzCases cs → dzCases r.1)
  switch : ∀ env sn s, wp (parseSwitchStatement env sn n) s (fun r _ => dzStmts r.1)
  pory : ∀ env sn s, wp (parsePoryswitchStatement env sn n) s (fun r _ => dzStmts r.1)
  poryCases : ∀ env sn tok acc s,
    wp (parsePoryswitchStatementCases env sn tok n acc) s (fun r _ => CasesOK dzR acc → CasesOK dzR r)
  poryStmts : ∀ env sn am acc imp s,
    wp (parsePoryswitchStatements env sn am n acc imp) s (fun r _ => dzStmts acc → dzStmts r.1)

theorem dzAll_zero : DZAll 0 :=
  { block := by intros; rw [parseBlockStatement]; swp
    swblock := by intros; rw [parseSwitchBlockStatement]; swp
    stmt := by intros; rw [parseStatement]; swp
    cond := by intros; rw [parseConditionExpression]; swp
    elifs := by intros; rw [parseElifs]; swp
    ifs := by intros; rw [parseIfStatement]; swp
    whiles := by intros; rw [parseWhileStatement]; swp
    doWhiles := by intros; rw [parseDoWhileStatement]; swp
    cases := by intros; rw [parseSwitchCases]; swp
    switch := by intros; rw [parseSwitchStatement]; swp
    pory := by intros; rw [parsePoryswitchStatement]; swp
    poryCases := by intros; rw [parsePoryswitchStatementCases]; swp
    poryStmts := by intros; rw [parsePoryswitchStatements]; swp }


theorem dzAll_succ {n : Nat} (ih : DZAll n) : DZAll (n + 1) :=
  { block := by
      intro env sn tok acc imp s
      rw [parseBlockStatement]
      dzvc [wp_spec (ih.stmt _ _ _), wp_spec (ih.block _ _ _ _ _ _)]
      all_goals dzfin
    swblock := by
      intro env sn tok acc imp s
      rw [parseSwitchBlockStatement]
      dzvc [wp_spec (ih.stmt _ _ _), wp_spec (ih.swblock _ _ _ _ _ _)]
      all_goals dzfin
    stmt := by
      intro env sn s
      rw [parseStatement]
      dzvc [wp_spec (ih.ifs _ _ _), wp_spec (ih.whiles _ _ _), wp_spec (ih.doWhiles _ _ _),
        wp_spec (ih.switch _ _ _), wp_spec (ih.pory _ _ _), wp_spec (tryParseLabel_dz _)]
      all_goals dzfin
    cond := by
      intro env sn req s
      rw [parseConditionExpression]
      dzvc [wp_spec (ih.block _ _ _ _ _ _)]
      all_goals dzfin
    elifs := by
      intro env sn acc imp s
      rw [parseElifs]
      dzvc [wp_spec (ih.cond _ _ _ _), wp_spec (ih.elifs _ _ _ _ _)]
      all_goals dzfin
    ifs := by
      intro env sn s
      rw [parseIfStatement]
      dzvc [wp_spec (ih.cond _ _ _ _), wp_spec (ih.elifs _ _ _ _ _), wp_spec (ih.block _ _ _ _ _ _)]
      all_goals dzfin
    whiles := by
      intro env sn s
      rw [parseWhileStatement]
      dzvc [wp_spec (ih.cond _ _ _ _)]
      all_goals dzfin
    doWhiles := by
      intro env sn s
      rw [parseDoWhileStatement]
      dzvc [wp_spec (ih.block _ _ _ _ _ _)]
      all_goals dzfin
    cases := by
      intro env sn tok cs vals hd imp s
      rw [parseSwitchCases]
      dzvc [wp_spec (ih.swblock _ _ _ _ _ _), wp_spec (ih.cases _ _ _ _ _ _ _ _)]
      all_goals dzfin
    switch := by
      intro env sn s
      rw [parseSwitchStatement]
      dzvc [wp_spec (ih.cases _ _ _ _ _ _ _ _)]
      all_goals dzfin
    pory := by
      intro env sn s
      rw [parsePoryswitchStatement]
      dzvc [wp_spec (ih.poryCases _ _ _ _ _), dzR]
      all_goals dzfin
    poryCases := by
      intro env sn tok acc s
      rw [parsePoryswitchStatementCases]
      dzvc [wp_spec (ih.poryStmts _ _ _ _ _ _), wp_spec (ih.poryCases _ _ _ _ _), dzR]
      all_goals dzfin
    poryStmts := by
      intro env sn am acc imp s
      rw [parsePoryswitchStatements]
      dzvc [wp_spec (ih.stmt _ _ _), wp_spec (ih.pory _ _ _), wp_spec (ih.poryStmts _ _ _ _ _ _)]
      all_goals dzfin }

theorem dzAll : ∀ n : Nat, DZAll n
  | 0 => dzAll_zero
  | n + 1 => dzAll_succ (dzAll n)

/-! ### top level -/

def dzOpt (o : Option Script) : Prop := ∀ scr, o = some scr → dzStmts scr.body
def DzE (es : List TableEntry) : Prop := ∀ e ∈ es, dzOpt e.script
def DzM (ms : List MapScript) : Prop := ∀ m ∈ ms, dzOpt m.script
def DzT (ts : List TableMapScript) : Prop := ∀ t ∈ ts, DzE t.entries

/-- Every `default` case in a top-level statement carries the zero token. -/
def dzTop : Top → Prop
  | .script scr => dzStmts scr.body
  | .mapscripts m => DzM m.mapScripts ∧ DzT m.tables
  | _ => True

def DzTops (l : List Top) : Prop := ∀ t ∈ l, dzTop t

theorem dzOpt_none : dzOpt none ↔ True := iff_true_intro (fun _ h => by cases h)
theorem dzOpt_some (scr : Script) : dzOpt (some scr) ↔ dzStmts scr.body :=
  ⟨fun h => h scr rfl, fun h scr' he => by cases he; exact h⟩

theorem forall_mem_nil {α} (P : α → Prop) : (∀ x ∈ ([] : List α), P x) ↔ True :=
  iff_true_intro (fun _ h => absurd h List.not_mem_nil)
theorem forall_mem_snoc {α} (P : α → Prop) (l : List α) (a : α) :
    (∀ x ∈ l ++ [a], P x) ↔ (∀ x ∈ l, P x) ∧ P a := by
  simp only [List.mem_append, List.mem_singleton]
  exact ⟨fun h => ⟨fun x hx => h x (Or.inl hx), h a (Or.inr rfl)⟩, fun h x hx => hx.elim (h.1 x) (fun e => e ▸ h.2)⟩

theorem DzE_nil : DzE [] ↔ True := forall_mem_nil _
theorem DzM_nil : DzM [] ↔ True := forall_mem_nil _
theorem DzT_nil : DzT [] ↔ True := forall_mem_nil _
theorem DzTops_nil : DzTops [] ↔ True := forall_mem_nil _
theorem DzE_snoc (l : List TableEntry) (a : TableEntry) : DzE (l ++ [a]) ↔ DzE l ∧ dzOpt a.script :=
  forall_mem_snoc _ l a
theorem DzM_snoc (l : List MapScript) (a : MapScript) : DzM (l ++ [a]) ↔ DzM l ∧ dzOpt a.script :=
  forall_mem_snoc _ l a
theorem DzT_snoc (l : List TableMapScript) (a : TableMapScript) : DzT (l ++ [a]) ↔ DzT l ∧ DzE a.entries :=
  forall_mem_snoc _ l a
theorem DzTops_snoc (l : List Top) (a : Top) : DzTops (l ++ [a]) ↔ DzTops l ∧ dzTop a :=
  forall_mem_snoc _ l a

theorem dzTop_script (scr : Script) : dzTop (.script scr) ↔ dzStmts scr.body := Iff.rfl
theorem dzTop_mapscripts (m : MapScripts) : dzTop (.mapscripts m) ↔ DzM m.mapScripts ∧ DzT m.tables := Iff.rfl
theorem dzTop_raw (a b : Tok) (c : String) : dzTop (.raw a b c) ↔ True := Iff.rfl
theorem dzTop_text (t : Text) : dzTop (.text t) ↔ True := Iff.rfl
theorem dzTop_movement (m : MovementStmt) : dzTop (.movement m) ↔ True := Iff.rfl
theorem dzTop_mart (a : Tok) (b : String) (c : List Tok) (d : List String) (e : TT) :
    dzTop (.mart a b c d e) ↔ True := Iff.rfl

syntax "dztvc" " [" Lean.Parser.Tactic.simpLemma,* "]" : tactic
macro_rules
  | `(tactic| dztvc [$ts,*]) => `(tactic| dzvc [wp_run_iff (parseScopeModifier _), wp_run_iff (tableCollect _ _ _ _),
      wp_run_iff (parseListValue _ _ _ _ _), wp_run_iff (List.mapM _ _), wp_run_iff (parsePoryswitchTextStatement _ _),
      wp_run_iff (parseTextValue _ _), wp_run_iff (constLoop _ _), wp_run_iff (addImplicitData _), wp_modify,
      dzOpt_none, dzOpt_some, DzE_nil, DzM_nil, DzT_nil, DzTops_nil, DzE_snoc, DzM_snoc, DzT_snoc, DzTops_snoc,
      dzTop_script, dzTop_mapscripts, dzTop_raw, dzTop_text, dzTop_movement, dzTop_mart, Option.some.injEq,
      forall_eq', $ts,*])

theorem dz_block (env : Env) (sn : String) (tok : Tok) (n : Nat) (acc : List Stmt) (imp : ImpData) (s : PState) :
    wp (parseBlockStatement env sn tok n acc imp) s (fun r _ => dzStmts acc → dzStmts r.1) :=
  (dzAll n).block env sn tok acc imp s

theorem dz_script (env : Env) (n : Nat) (s : PState) :
    wp (parseScriptStatement env n) s (fun r _ => dzStmts r.1.body) := by
  unfold parseScriptStatement
  dztvc [wp_spec (dz_block _ _ _ _ _ _ _)]
  all_goals dzfin

theorem dz_tableEntries (env : Env) (ms ty : String) : ∀ (n i : Nat) (acc : List TableEntry) (imp : ImpData)
    (s : PState), wp (parseTableEntries env ms ty n i acc imp) s (fun r _ => DzE acc → DzE r.1) := by
  intro n
  induction n with
  | zero => intro i acc imp s; rw [parseTableEntries]; swp
  | succ n ih =>
    intro i acc imp s
    rw [parseTableEntries]
    dztvc [wp_spec (ih _ _ _ _), wp_spec (dz_block _ _ _ _ _ _ _)]
    all_goals dzfin

theorem dz_mapScriptEntries (env : Env) (ms : String) : ∀ (n : Nat) (mss : List MapScript)
    (tables : List TableMapScript) (imp : ImpData) (s : PState),
    wp (parseMapScriptEntries env ms n mss tables imp) s (fun r _ => DzM mss → DzT tables → DzM r.1 ∧ DzT r.2.1) := by
  intro n
  induction n with
  | zero => intro mss tables imp s; rw [parseMapScriptEntries]; swp
  | succ n ih =>
    intro mss tables imp s
    rw [parseMapScriptEntries]
    dztvc [wp_spec (ih _ _ _ _), wp_spec (dz_tableEntries _ _ _ _ _ _ _ _), wp_spec (dz_block _ _ _ _ _ _ _)]
    all_goals dzfin

theorem dz_mapscripts (env : Env) (n : Nat) (s : PState) :
    wp (parseMapscriptsStatement env n) s (fun r _ => DzM r.1.mapScripts ∧ DzT r.1.tables) := by
  unfold parseMapscriptsStatement
  dztvc [wp_spec (dz_mapScriptEntries _ _ _ _ _ _ _)]
  all_goals dzfin

theorem dz_topLevel (env : Env) (n : Nat) (s : PState) :
    wp (parseTopLevelStatement env n) s (fun r _ => ∀ t, r = some t → dzTop t) := by
  unfold parseTopLevelStatement parseRawStatement parseTextStatement parseMovementStatement parseMartStatement
    parseConstant
  dztvc [wp_spec (dz_script _ _ _), wp_spec (dz_mapscripts _ _ _)]
  all_goals dzfin

theorem dz_topLoop (env : Env) (fuel : Nat) : ∀ (n : Nat) (acc : List Top) (s : PState),
    wp (topLoop env fuel n acc) s (fun r _ => DzTops acc → DzTops r) := by
  intro n
  induction n with
  | zero => intro acc s; rw [topLoop]; swp
  | succ n ih =>
    intro acc s
    rw [topLoop]
    dztvc [wp_spec (dz_topLevel _ _ _), wp_spec (ih _ _)]
    all_goals (cases ‹Option Top› <;> simp only [DzTops_snoc] at * <;> dzfin)

/-- In a parsed program every `default` case carries the zero token. -/
theorem dz_program (env : Env) (fuel : Nat) (s : PState) :
    wp (parseProgramM env fuel) s (fun p _ => DzTops p.tops) := by
  unfold parseProgramM
  dztvc [wp_spec (dz_topLoop _ _ _ _ _)]
  all_goals
    intro t ht
    rcases List.mem_append.1 ht with h | h
    · exact ‹DzTops _› t h
    · obtain ⟨m, _, rfl⟩ := List.mem_map.1 h
      trivial

/-- Run form for `parseTokens`. -/
theorem parseTokens_dz {env : Env} {toks : List Tok} {p : Program} (h : parseTokens env toks = .ok p) :
    DzTops p.tops := by
  obtain ⟨s', hr⟩ := parseTokens_run h
  exact dz_program env _ _ p s' hr

/-! ### the token set of C16b against the smaller one -/

theorem mem_optScriptToks_b {o : Option Script} {t : Tok} (hd : dzOpt o) (h : t ∈ C16b.optScriptToks o) :
    t ∈ C16nd.optScriptToks o ∨ t = {} := by
  cases o with
  | none => simp [C16b.optScriptToks] at h
  | some scr => exact mem_stmtsToks_b scr.body t (hd scr rfl) h

theorem mem_topToks_b {top : Top} {t : Tok} (hd : dzTop top) (h : t ∈ C16b.topToks top) :
    t ∈ C16nd.topToks top ∨ t = {} := by
  cases top with
  | script scr =>
    simp only [C16b.topToks, C16nd.topToks, List.mem_cons] at h ⊢
    rcases h with h | h
    · exact Or.inl (Or.inl h)
    · exact (mem_stmtsToks_b scr.body t hd h).imp Or.inr id
  | raw a b c => exact Or.inl h
  | text x => exact Or.inl h
  | movement m => exact Or.inl h
  | mart a b c d e => exact Or.inl h
  | mapscripts m =>
    obtain ⟨hm, ht⟩ := hd
    simp only [C16b.topToks, C16nd.topToks, C16b.mapScriptsToks, C16nd.mapScriptsToks, C16b.tableToks,
      C16nd.tableToks, List.mem_cons, List.mem_append, List.mem_flatMap] at h ⊢
    rcases h with h | ⟨ms, hms, h | h⟩ | ⟨tb, htb, h | ⟨e, he, h | h⟩⟩
    · exact Or.inl (Or.inl h)
    · exact Or.inl (Or.inr (Or.inl ⟨ms, hms, Or.inl h⟩))
    · exact (mem_optScriptToks_b (hm ms hms) h).imp (fun x => Or.inr (Or.inl ⟨ms, hms, Or.inr x⟩)) id
    · exact Or.inl (Or.inr (Or.inr ⟨tb, htb, Or.inl h⟩))
    · exact Or.inl (Or.inr (Or.inr ⟨tb, htb, Or.inr ⟨e, he, Or.inl h⟩⟩))
    · exact (mem_optScriptToks_b (ht tb htb e he) h).imp
        (fun x => Or.inr (Or.inr ⟨tb, htb, Or.inr ⟨e, he, Or.inr x⟩⟩)) id

/-- A token of the C16b token set of a program whose `default` cases carry the zero token is in the
smaller set or is the zero token. -/
theorem mem_progToks_b {p : Program} {t : Tok} (hd : DzTops p.tops) (h : t ∈ C16b.progToks p) :
    t ∈ C16nd.progToks p ∨ t = {} := by
  simp only [C16b.progToks, C16nd.progToks, List.mem_append, List.mem_flatMap] at h ⊢
  rcases h with ⟨top, htop, h⟩ | h
  · exact (mem_topToks_b (hd top htop) h).imp (fun x => Or.inl ⟨top, htop, x⟩) id
  · exact Or.inl (Or.inr h)

/-! ### the smaller set is a subset -/

mutual
theorem mem_stmtToks_nd : ∀ (s : Stmt) (t : Tok), t ∈ C16nd.stmtToks s → t ∈ C16b.stmtToks s
  | .cmd c, t, h => by simpa [C16b.stmtToks, C16nd.stmtToks] using h
  | .label tok nm g, t, h => by simpa [C16b.stmtToks, C16nd.stmtToks] using h
  | .brk .., t, h => by simp [C16nd.stmtToks] at h
  | .cont .., t, h => by simp [C16nd.stmtToks] at h
  | .while_ tok sid c b, t, h => by
    cases c with
    | none =>
      simp only [C16b.stmtToks, C16nd.stmtToks, List.nil_append] at h ⊢
      exact mem_stmtsToks_nd b t h
    | some e =>
      simp only [C16b.stmtToks, C16nd.stmtToks, List.mem_append, condToks_eq] at h ⊢
      exact h.imp id (mem_stmtsToks_nd b t)
  | .doWhile tok sid c b, t, h => by
    simp only [C16b.stmtToks, C16nd.stmtToks, List.mem_append, condToks_eq] at h ⊢
    exact h.imp id (mem_stmtsToks_nd b t)
  | .switch_ tok sid op cs, t, h => by
    simp only [C16b.stmtToks, C16nd.stmtToks, List.mem_cons] at h ⊢
    exact h.imp id (mem_casesToks_nd cs t)
  | .ite tok c b es e, t, h => by
    cases e with
    | none =>
      simp only [C16b.stmtToks, C16nd.stmtToks, List.mem_append, List.append_nil, condToks_eq] at h ⊢
      exact h.imp (fun x => x.imp id (mem_stmtsToks_nd b t)) (mem_elifsToks_nd es t)
    | some l =>
      simp only [C16b.stmtToks, C16nd.stmtToks, List.mem_append, condToks_eq] at h ⊢
      exact h.imp (fun x => x.imp (fun y => y.imp id (mem_stmtsToks_nd b t)) (mem_elifsToks_nd es t))
        (mem_stmtsToks_nd l t)
theorem mem_stmtsToks_nd : ∀ (ss : List Stmt) (t : Tok), t ∈ C16nd.stmtsToks ss → t ∈ C16b.stmtsToks ss
  | [], t, h => by simp [C16nd.stmtsToks] at h
  | s :: r, t, h => by
    simp only [C16b.stmtsToks, C16nd.stmtsToks, List.mem_append] at h ⊢
    exact h.imp (mem_stmtToks_nd s t) (mem_stmtsToks_nd r t)
theorem mem_elifsToks_nd : ∀ (es : List (BoolExpr × List Stmt)) (t : Tok), t ∈ C16nd.elifsToks es →
    t ∈ C16b.elifsToks es
  | [], t, h => by simp [C16nd.elifsToks] at h
  | (c, b) :: r, t, h => by
    simp only [C16b.elifsToks, C16nd.elifsToks, List.mem_append, condToks_eq] at h ⊢
    exact h.imp (fun x => x.imp id (mem_stmtsToks_nd b t)) (mem_elifsToks_nd r t)
theorem mem_casesToks_nd : ∀ (cs : List SwitchCase) (t : Tok), t ∈ C16nd.casesToks cs → t ∈ C16b.casesToks cs
  | [], t, h => by simp [C16nd.casesToks] at h
  | (v, d, b) :: r, t, h => by
    simp only [C16b.casesToks, C16nd.casesToks, List.mem_cons, List.mem_append] at h ⊢
    rcases h with h | h | h
    · cases d with
      | true => simp at h
      | false => exact Or.inl (by simpa using h)
    · exact Or.inr (Or.inl (mem_stmtsToks_nd b t h))
    · exact Or.inr (Or.inr (mem_casesToks_nd r t h))
end

theorem mem_optScriptToks_nd {o : Option Script} {t : Tok} (h : t ∈ C16nd.optScriptToks o) :
    t ∈ C16b.optScriptToks o := by
  cases o with
  | none => simp [C16nd.optScriptToks] at h
  | some scr => exact mem_stmtsToks_nd scr.body t h

theorem mem_topToks_nd {top : Top} {t : Tok} (h : t ∈ C16nd.topToks top) : t ∈ C16b.topToks top := by
  cases top with
  | script scr =>
    simp only [C16b.topToks, C16nd.topToks, List.mem_cons] at h ⊢
    exact h.imp id (mem_stmtsToks_nd scr.body t)
  | raw a b c => exact h
  | text x => exact h
  | movement m => exact h
  | mart a b c d e => exact h
  | mapscripts m =>
    simp only [C16b.topToks, C16nd.topToks, C16b.mapScriptsToks, C16nd.mapScriptsToks, C16b.tableToks,
      C16nd.tableToks, List.mem_cons, List.mem_append, List.mem_flatMap] at h ⊢
    rcases h with h | ⟨ms, hms, h | h⟩ | ⟨tb, htb, h | ⟨e, he, h | h⟩⟩
    · exact Or.inl h
    · exact Or.inr (Or.inl ⟨ms, hms, Or.inl h⟩)
    · exact Or.inr (Or.inl ⟨ms, hms, Or.inr (mem_optScriptToks_nd h)⟩)
    · exact Or.inr (Or.inr ⟨tb, htb, Or.inl h⟩)
    · exact Or.inr (Or.inr ⟨tb, htb, Or.inr ⟨e, he, Or.inl h⟩⟩)
    · exact Or.inr (Or.inr ⟨tb, htb, Or.inr ⟨e, he, Or.inr (mem_optScriptToks_nd h)⟩⟩)

/-- The smaller token set is a subset of the token set of C16b. -/
theorem mem_progToks_nd {p : Program} {t : Tok} (h : t ∈ C16nd.progToks p) : t ∈ C16b.progToks p := by
  simp only [C16b.progToks, C16nd.progToks, List.mem_append, List.mem_flatMap] at h ⊢
  rcases h with ⟨top, htop, h⟩ | h
  · exact Or.inl ⟨top, htop, mem_topToks_nd h⟩
  · exact Or.inr h

end Pory.Parser
