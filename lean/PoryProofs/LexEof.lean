import PoryProofs.Properties.C19
/-
The lexer model always ends its output with an `EOF` token: the fuel `input.length + 2` of `lexAll`
suffices, because every call of `nextToken` that does not report the end of the input consumes at
least one character (`nextToken_progress`).  Used by `PoryProofs/Properties/C18c.lean`.
-/
namespace Pory.LexPos
open Pory Pory.Lexer

theorem readChar_len (s : LS) : (readChar s).inp.length = s.inp.length - 1 := by
  unfold readChar
  cases h : s.inp <;> simp

theorem skipComments_length (n : Nat) (s : LS) : (skipComments n s).inp.length ≤ s.inp.length := by
  induction n generalizing s with
  | zero => simp [skipComments]
  | succ n ih =>
    rw [skipComments]
    split
    · have h1 := skipToNextLine_length s.inp s.p
      have h2 := skipWhitespace_length (skipToNextLine s.inp s.p).inp (skipToNextLine s.inp s.p).p
      have h3 := ih (skipWhitespace (skipToNextLine s.inp s.p).inp (skipToNextLine s.inp s.p).p)
      simp only at h3 ⊢
      omega
    · exact Nat.le_refl _

theorem skipAll_length (s : LS) : (skipAll s).inp.length ≤ s.inp.length := by
  unfold skipAll
  have h1 := skipWhitespace_length s.inp s.p
  have h2 := skipComments_length ((skipWhitespace s.inp s.p).inp.length + 1) (skipWhitespace s.inp s.p)
  simp only at h2 ⊢
  omega

theorem readNumber_length (inp : List Char) (p : Pos) : (readNumber inp p).2.inp.length ≤ inp.length := by
  induction inp generalizing p with
  | nil => simp [readNumber]
  | cons c r ih =>
    rw [readNumber]
    split
    · exact Nat.le_trans (ih _) (by simp)
    · simp

theorem readNumber_length_digit (c : Char) (r : List Char) (p : Pos) (h : isDigit c = true) :
    (readNumber (c :: r) p).2.inp.length ≤ r.length := by
  rw [readNumber, if_pos h]
  exact readNumber_length _ _

theorem readHexNumber_length (inp : List Char) (p : Pos) :
    (readHexNumber inp p).2.inp.length ≤ inp.length := by
  induction inp generalizing p with
  | nil => simp [readHexNumber]
  | cons c r ih =>
    rw [readHexNumber]
    split
    · exact Nat.le_trans (ih _) (by simp)
    · simp

theorem readIdentRest_length (inp : List Char) (p : Pos) :
    (readIdentRest inp p).2.inp.length ≤ inp.length := by
  induction inp generalizing p with
  | nil => simp [readIdentRest]
  | cons c r ih =>
    rw [readIdentRest]
    split
    · exact Nat.le_trans (ih _) (by simp)
    · simp

theorem rawBody_length (inp : List Char) (p : Pos) : (rawBody inp p).2.inp.length ≤ inp.length := by
  induction inp generalizing p with
  | nil => simp [rawBody]
  | cons c r ih =>
    rw [rawBody]
    split
    · exact Nat.le_trans (ih _) (by simp)
    · simp

theorem skipNewlineWs_length (inp : List Char) (p : Pos) (b : Bool) :
    (skipNewlineWs inp p b).2.inp.length ≤ inp.length := by
  induction inp generalizing p b with
  | nil => simp [skipNewlineWs]
  | cons c r ih =>
    rw [skipNewlineWs]
    split
    · exact Nat.le_trans (ih _ _) (by simp)
    · simp

theorem strBody_length (n : Nat) (s : LS) : (strBody n s).2.inp.length ≤ s.inp.length := by
  induction n generalizing s with
  | zero => simp [strBody]
  | succ n ih =>
    rw [strBody]
    split
    · simp
    · next c r hs =>
      split
      · simp
      · show (if (skipNewlineWs s.inp s.p false).1 = true then
            (' ' :: (strBody n (skipWhitespace (skipNewlineWs s.inp s.p false).2.inp
              (skipNewlineWs s.inp s.p false).2.p)).1,
             (strBody n (skipWhitespace (skipNewlineWs s.inp s.p false).2.inp
              (skipNewlineWs s.inp s.p false).2.p)).2)
          else (c :: (strBody n ⟨r, adv c r s.p⟩).1, (strBody n ⟨r, adv c r s.p⟩).2)).2.inp.length ≤ s.inp.length
        split
        · have h1 := skipNewlineWs_length s.inp s.p false
          have h2 := skipWhitespace_length (skipNewlineWs s.inp s.p false).2.inp (skipNewlineWs s.inp s.p false).2.p
          have h3 := ih (skipWhitespace (skipNewlineWs s.inp s.p false).2.inp (skipNewlineWs s.inp s.p false).2.p)
          exact Nat.le_trans h3 (Nat.le_trans h2 h1)
        · have h3 := ih ⟨r, adv c r s.p⟩
          rw [hs]
          exact Nat.le_trans h3 (by simp)

/-- One round of `readString`: the state after the closing quote and the following whitespace. -/
def strRound (s : LS) : LS :=
  skipWhitespace (readChar (strBody ((readChar s).inp.length + 1) (readChar s)).2).inp
    (readChar (strBody ((readChar s).inp.length + 1) (readChar s)).2).p

theorem strRound_length (s : LS) : (strRound s).inp.length ≤ s.inp.length - 1 := by
  unfold strRound
  have h1 := readChar_len s
  have h2 := strBody_length ((readChar s).inp.length + 1) (readChar s)
  have h3 := readChar_len (strBody ((readChar s).inp.length + 1) (readChar s)).2
  have h4 := skipWhitespace_length
    (readChar (strBody ((readChar s).inp.length + 1) (readChar s)).2).inp
    (readChar (strBody ((readChar s).inp.length + 1) (readChar s)).2).p
  omega

theorem readString_succ (n : Nat) (s : LS) (sb : List Char) (e : Nat × Nat × Nat) (hq : (ch s.inp == '"') = true) :
    ∃ sb' e', readString (n + 1) s sb e = readString n (strRound s) sb' e' := by
  rw [readString, if_pos hq]
  exact ⟨_, _, rfl⟩

theorem readString_length (n : Nat) (s : LS) (sb : List Char) (e : Nat × Nat × Nat) :
    (readString n s sb e).2.2.inp.length ≤ s.inp.length := by
  induction n generalizing s sb e with
  | zero => simp [readString]
  | succ n ih =>
    by_cases hq : (ch s.inp == '"') = true
    · obtain ⟨sb', e', h⟩ := readString_succ n s sb e hq
      rw [h]
      have := strRound_length s
      have := ih (strRound s) sb' e'
      omega
    · rw [readString, if_neg hq]
      exact Nat.le_refl _

/-- A string token consumes its opening quote. -/
theorem readString_length_quote (n : Nat) (s : LS) (sb : List Char) (e : Nat × Nat × Nat)
    (hq : ch s.inp = '"') (hne : s.inp ≠ []) :
    (readString (n + 1) s sb e).2.2.inp.length < s.inp.length := by
  obtain ⟨sb', e', h⟩ := readString_succ n s sb e (by simp [hq])
  rw [h]
  have hpos : 0 < s.inp.length := List.length_pos_iff.2 hne
  have := strRound_length s
  have := readString_length n (strRound s) sb' e'
  omega

theorem readStringToken_length (s : LS) : (readStringToken s).2.inp.length ≤ s.inp.length := by
  unfold readStringToken
  exact readString_length _ _ _ _

theorem readStringToken_length_quote (s : LS) (hq : ch s.inp = '"') (hne : s.inp ≠ []) :
    (readStringToken s).2.inp.length < s.inp.length := by
  unfold readStringToken
  exact readString_length_quote _ _ _ _ hq hne

/-! ### every token class consumes at least one character -/

/-- The state after a token is strictly shorter. -/
def Prog (s : LS) (out : List Tok × LS × Bool) : Prop := out.2.1.inp.length < s.inp.length

theorem prog_ite {s : LS} {c : Prop} [Decidable c] {a b : List Tok × LS × Bool}
    (ha : c → Prog s a) (hb : ¬ c → Prog s b) : Prog s (if c then a else b) := by
  split
  · exact ha ‹_›
  · exact hb ‹_›

section
variable {s : LS} {c : Char} {r : List Char} (hs : s.inp = c :: r)
include hs

theorem readChar_prog : (readChar s).inp.length < s.inp.length := by
  rw [readChar_len, hs]; simp

theorem oneTok_prog (t : TT) : Prog s (oneTok s c t) := readChar_prog hs

theorem twoTok_prog (t : TT) : Prog s (twoTok s c t) := by
  unfold Prog twoTok
  have := readChar_prog hs
  have := readChar_len (readChar s)
  simp only
  omega

theorem illTok_prog : Prog s (illTok s c) := readChar_prog hs
theorem nulTok_prog : Prog s (nulTok s) := readChar_prog hs

theorem strTok_prog (hc : c = '"') : Prog s (strTok s) := by
  unfold Prog strTok
  exact readStringToken_length_quote s (by rw [hs, hc]; rfl) (by rw [hs]; simp)

theorem rawTok_prog : Prog s (rawTok s) := by
  unfold Prog rawTok
  have h1 := readChar_prog hs
  have h2 := rawBody_length (readChar s).inp (readChar s).p
  have h3 := readChar_len (rawBody (readChar s).inp (readChar s).p).2
  show (readChar (rawBody (readChar s).inp (readChar s).p).2).inp.length < s.inp.length
  omega

theorem hexTok_prog : Prog s (hexTok s) := by
  unfold Prog hexTok
  have h1 := readChar_prog hs
  have h2 := readChar_len (readChar s)
  have h3 := readHexNumber_length (readChar (readChar s)).inp (readChar (readChar s)).p
  show (readHexNumber (readChar (readChar s)).inp (readChar (readChar s)).p).2.inp.length < s.inp.length
  omega

theorem zeroTok_prog (hc : c = '0') : Prog s (zeroTok s) := by
  unfold Prog zeroTok
  show (readNumber s.inp s.p).2.inp.length < s.inp.length
  rw [hs]
  have := readNumber_length_digit c r s.p (by rw [hc]; exact isDigit_zero)
  simp only [List.length_cons]
  omega

theorem numTok_prog (hc : isDigit c = true) : Prog s (numTok s) := by
  unfold Prog numTok
  show (readNumber s.inp s.p).2.inp.length < s.inp.length
  rw [hs]
  have := readNumber_length_digit c r s.p hc
  simp only [List.length_cons]
  omega

theorem negTok_prog : Prog s (negTok s) := by
  unfold Prog negTok
  have h1 := readChar_prog hs
  have h2 := readNumber_length (readChar s).inp (readChar s).p
  show (readNumber (readChar s).inp (readChar s).p).2.inp.length < s.inp.length
  omega

theorem identTok_prog : Prog s (identTok s c) := by
  unfold identTok
  have h1 := readChar_prog hs
  have h2 := readIdentRest_length (readChar s).inp (readChar s).p
  have h3 := readStringToken_length (readIdentRest (readChar s).inp (readChar s).p).2
  apply prog_ite
  · intro _
    show (readStringToken (readIdentRest (readChar s).inp (readChar s).p).2).2.inp.length < s.inp.length
    omega
  · intro _
    show (readIdentRest (readChar s).inp (readChar s).p).2.inp.length < s.inp.length
    omega

theorem tokenAt_prog : Prog s (tokenAt s c) := by
  unfold tokenAt
  repeat' (first
    | with_reducible exact oneTok_prog hs _
    | with_reducible exact twoTok_prog hs _
    | with_reducible exact illTok_prog hs
    | with_reducible exact nulTok_prog hs
    | with_reducible exact rawTok_prog hs
    | with_reducible exact hexTok_prog hs
    | with_reducible exact negTok_prog hs
    | with_reducible exact identTok_prog hs
    | (with_reducible apply prog_ite <;> intro _))
  · exact strTok_prog hs (by simpa using ‹(c == '"') = true›)
  · exact zeroTok_prog hs (by simpa using ‹(c == '0') = true›)
  · rename_i hd hm
    refine numTok_prog hs ?_
    rcases Bool.or_eq_true _ _ ▸ hd with h | h
    · exact h
    · exact absurd (Bool.and_eq_true _ _ ▸ h).1 hm
end

/-- A call of `nextToken` that does not report the end of the input consumes a character. -/
theorem nextToken_progress (s : LS) (h : (nextToken s).2.2 = false) :
    (nextToken s).2.1.inp.length < s.inp.length := by
  rw [nextToken_eq] at h ⊢
  have hl := skipAll_length s
  split at h
  · simp at h
  · next c r hs =>
    have := tokenAt_prog (s := skipAll s) hs
    unfold Prog at this
    omega

/-- When the end of the input is reported the only token is the `EOF` token. -/
theorem nextToken_done (s : LS) (h : (nextToken s).2.2 = true) :
    (nextToken s).1 = [eofToken (skipAll s).p] := by
  rw [nextToken_eq] at h ⊢
  split
  · rfl
  · next c r hs =>
    rw [hs] at h
    have := tokenAt_done (skipAll s) c
    simp only at h
    rw [this] at h
    cases h

theorem lexLoop_ends_with_eof (n : Nat) (s : LS) (hn : s.inp.length < n) :
    ∃ l t, lexLoop n s = l ++ [t] ∧ t.type = .EOF := by
  induction n generalizing s with
  | zero => exact absurd hn (Nat.not_lt_zero _)
  | succ n ih =>
    have e : lexLoop (n + 1) s =
        if (nextToken s).2.2 then (nextToken s).1 else (nextToken s).1 ++ lexLoop n (nextToken s).2.1 := rfl
    rw [e]
    by_cases hd : (nextToken s).2.2 = true
    · rw [if_pos hd, nextToken_done s hd]
      exact ⟨[], _, rfl, rfl⟩
    · have hd' : (nextToken s).2.2 = false := by simpa using hd
      rw [if_neg hd]
      have hp := nextToken_progress s hd'
      obtain ⟨l, t, hl, ht⟩ := ih (nextToken s).2.1 (by omega)
      exact ⟨(nextToken s).1 ++ l, t, by rw [hl, List.append_assoc], ht⟩

end Pory.LexPos

namespace Pory.Lexer
open Pory Pory.LexPos

/-- **The lexer always ends its output with an `EOF` token** (for every source). -/
theorem lexAll_ends_with_eof (src : List Char) :
    ((lexAll src).getLast?).map (·.type) = some .EOF ∧ lexAll src ≠ [] := by
  obtain ⟨l, t, hl, ht⟩ := lexLoop_ends_with_eof (src.length + 2) (initLS src)
    (by simp only [initLS]; omega)
  unfold lexAll
  rw [hl]
  exact ⟨by simp [ht], by simp⟩

end Pory.Lexer
