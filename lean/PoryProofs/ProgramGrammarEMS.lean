import PoryProofs.ProgramSelectPS
import PoryProofs.StmtParseErrMS
/-
P2e, stage 0: the entries / table rows of a `mapscripts` statement whose INLINE bodies are written in P1c's
statement grammar (`P1c.SStmt`). This is the text of the corresponding part of PoryProofs/ProgramGrammarMS.lean
(P2b: `SRow`, `SEntry`, printers, `RowsWF` / `EntriesWF`, `elabRows` / `elabEntries`, fuel) with `P1c` in the place
of `StmtG`; the names carry the suffix `E`. What does not mention the body grammar (`P2b.RowSyn`, `emptyCondErr`,
`emptyCmpErr`, `inlineScript`, `condTok`, `mapScriptsOf`) is reused from P2b.
-/
namespace Pory.P2e
open Pory Pory.Parser Pory.C02P Pory.P1c Pory.TopParse Pory.P2
open Pory.StmtG (Ctx ctxOf)
open Pory.MapScriptsParse (collVal rowName entryName)
open Pory.P2b (RowSyn emptyCondErr emptyCmpErr inlineScript condTok mapScriptsOf)

inductive SRowE where
  | plain (cs : List Tok) (comma : Tok) (vs : List Tok) (colon name : Tok)
  | inline (cs : List Tok) (comma : Tok) (vs : List Tok) (lb : Tok) (body : List SStmt) (rb : Tok)

inductive SEntryE where
  | plain (ty colon name : Tok)
  | inline (ty lb : Tok) (body : List SStmt) (rb : Tok)
  | table (ty lbr : Tok) (rows : List SRowE) (rbr : Tok)


def printRowE : SRowE → List Tok
  | .plain cs comma vs colon name => cs ++ comma :: (vs ++ [colon, name])
  | .inline cs comma vs lb body rb => cs ++ comma :: (vs ++ lb :: (printStmts body ++ [rb]))

def printRowsE : List SRowE → List Tok
  | [] => []
  | r :: rs => printRowE r ++ printRowsE rs

def printEntryE : SEntryE → List Tok
  | .plain ty colon name => [ty, colon, name]
  | .inline ty lb body rb => ty :: lb :: (printStmts body ++ [rb])
  | .table ty lbr rows rbr => ty :: lbr :: (printRowsE rows ++ [rbr])

def printEntriesE : List SEntryE → List Tok
  | [] => []
  | e :: es => printEntryE e ++ printEntriesE es


def RowWFE : SRowE → Prop
  | .plain cs comma vs colon name => RowSyn cs comma vs ∧ colon.type = .COLON ∧ name.type = .IDENT
  | .inline cs comma vs lb body rb => RowSyn cs comma vs ∧ lb.type = .LBRACE ∧ SWF body ∧ rb.type = .RBRACE

instance : DecidablePred RowWFE := fun r => by cases r <;> unfold RowWFE <;> exact inferInstance

def RowsWFE : List SRowE → Prop
  | [] => True
  | r :: rs => RowWFE r ∧ RowsWFE rs

def decRowsWFE : (rs : List SRowE) → Decidable (RowsWFE rs)
  | [] => isTrue trivial
  | r :: rs =>
    have := decRowsWFE rs
    by unfold RowsWFE; exact inferInstance
instance : DecidablePred RowsWFE := decRowsWFE

def EntryWFE : SEntryE → Prop
  | .plain ty colon name => ty.type = .IDENT ∧ colon.type = .COLON ∧ name.type = .IDENT
  | .inline ty lb body rb => ty.type = .IDENT ∧ lb.type = .LBRACE ∧ SWF body ∧ rb.type = .RBRACE
  | .table ty lbr rows rbr => ty.type = .IDENT ∧ lbr.type = .LBRACKET ∧ RowsWFE rows ∧ rbr.type = .RBRACKET

instance : DecidablePred EntryWFE := fun e => by cases e <;> unfold EntryWFE <;> exact inferInstance

def EntriesWFE : List SEntryE → Prop
  | [] => True
  | e :: es => EntryWFE e ∧ EntriesWFE es

def decEntriesWFE : (es : List SEntryE) → Decidable (EntriesWFE es)
  | [] => isTrue trivial
  | e :: es =>
    have := decEntriesWFE es
    by unfold EntriesWFE; exact inferInstance
instance : DecidablePred EntriesWFE := decEntriesWFE


/-- The rows of a table, the first one in position `i`: the table entries, the implicit data of the inline
bodies (in order), the context after the last body. -/
def elabRowsE (env : Env) (ms ty : String) : List SRowE → Nat → Ctx → Except PFail (List TableEntry × ImpData × Ctx)
  | [], _, c => .ok ([], {}, c)
  | .plain cs comma vs colon name :: rs, i, c =>
      if collVal c.consts cs = "" then .error (emptyCondErr (cs.headD comma))
      else if collVal c.consts vs = "" then .error (emptyCmpErr (cs.headD comma) colon)
      else
        match elabRowsE env ms ty rs (i + 1) c with
        | .error e => .error e
        | .ok (es, imp, c') =>
          .ok ({ condition := condTok c.consts cs comma, comparison := collVal c.consts vs, name := name.lit,
                 script := none } :: es, imp, c')
  | .inline cs comma vs lb body _ :: rs, i, c =>
      if collVal c.consts cs = "" then .error (emptyCondErr (cs.headD comma))
      else if collVal c.consts vs = "" then .error (emptyCmpErr (cs.headD comma) lb)
      else
        match elabE env (rowName ms ty i) c body with
        | .error e => .error e
        | .ok (stmts, bimp, c1) =>
          match elabRowsE env ms ty rs (i + 1) c1 with
          | .error e => .error e
          | .ok (es, imp, c') =>
            .ok ({ condition := condTok c.consts cs comma, comparison := collVal c.consts vs,
                   name := rowName ms ty i, script := some (inlineScript (rowName ms ty i) stmts) } :: es,
                 bimp.add imp, c')

/-- The entries of a `mapscripts` statement: the map scripts (plain and inline entries, in order), the tables (in
order), the implicit data, the context after the last body. -/
def elabEntriesE (env : Env) (ms : String) :
    List SEntryE → Ctx → Except PFail (List MapScript × List TableMapScript × ImpData × Ctx)
  | [], c => .ok ([], [], {}, c)
  | .plain ty _ name :: es, c =>
      match elabEntriesE env ms es c with
      | .error e => .error e
      | .ok (mss, tbs, imp, c') => .ok ({ type := ty, name := name.lit, script := none } :: mss, tbs, imp, c')
  | .inline ty _ body _ :: es, c =>
      match elabE env (entryName ms ty.lit) c body with
      | .error e => .error e
      | .ok (stmts, bimp, c1) =>
        match elabEntriesE env ms es c1 with
        | .error e => .error e
        | .ok (mss, tbs, imp, c') =>
          .ok ({ type := ty, name := entryName ms ty.lit,
                 script := some (inlineScript (entryName ms ty.lit) stmts) } :: mss, tbs, bimp.add imp, c')
  | .table ty _ rows _ :: es, c =>
      match elabRowsE env ms ty.lit rows 0 c with
      | .error e => .error e
      | .ok (entries, rimp, c1) =>
        match elabEntriesE env ms es c1 with
        | .error e => .error e
        | .ok (mss, tbs, imp, c') =>
          .ok (mss, { type := ty, name := entryName ms ty.lit, entries := entries } :: tbs, rimp.add imp, c')


def needRowE : SRowE → Nat
  | .plain cs _ vs _ _ => cs.length + vs.length + 1
  | .inline cs _ vs _ body _ => cs.length + vs.length + 1 + needL body

def needRowsE : List SRowE → Nat
  | [] => 1
  | r :: rs => 1 + needRowE r + needRowsE rs

def needEntryE : SEntryE → Nat
  | .plain .. => 0
  | .inline _ _ body _ => needL body
  | .table _ _ rows _ => needRowsE rows

def needEntriesE : List SEntryE → Nat
  | [] => 1
  | e :: es => 1 + needEntryE e + needEntriesE es


theorem needRows_leE : (rs : List SRowE) → needRowsE rs ≤ 2 * (printRowsE rs).length + 1
  | [] => by simp [needRowsE, printRowsE]
  | .plain cs comma vs colon name :: rs => by
    have := needRows_leE rs
    simp only [needRowsE, needRowE, printRowsE, printRowE, List.length_append, List.length_cons, List.length_nil]
    omega
  | .inline cs comma vs lb body rb :: rs => by
    have := needRows_leE rs
    have := needL_le body
    simp only [needRowsE, needRowE, printRowsE, printRowE, printStmts, List.length_append, List.length_cons,
      List.length_nil]
    omega

theorem needEntries_leE : (es : List SEntryE) → needEntriesE es ≤ 2 * (printEntriesE es).length + 1
  | [] => by simp [needEntriesE, printEntriesE]
  | .plain ty colon name :: es => by
    have := needEntries_leE es
    simp only [needEntriesE, needEntryE, printEntriesE, printEntryE, List.length_append, List.length_cons,
      List.length_nil]
    omega
  | .inline ty lb body rb :: es => by
    have := needEntries_leE es
    have := needL_le body
    simp only [needEntriesE, needEntryE, printEntriesE, printEntryE, printStmts, List.length_append, List.length_cons,
      List.length_nil]
    omega
  | .table ty lbr rows rbr :: es => by
    have := needEntries_leE es
    have := needRows_leE rows
    simp only [needEntriesE, needEntryE, printEntriesE, printEntryE, List.length_append, List.length_cons,
      List.length_nil]
    omega


end Pory.P2e
