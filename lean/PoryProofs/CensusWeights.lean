import PoryProofs.Worklist
/-
Generic accounting through the chunk worklist (helper module of PoryProofs/Properties/C10d.lean).

A `Weights` assigns a natural number to conditions, statements, blocks, elif chains, case lists (the
*source side*, compositional: the weight of a compound statement is the sum of the weights of its parts),
to branch behaviours, and to finalised chunks (the *table side*), such that the scanning loop of
`processChunk` splits the weight of a block into the weight of the finalised chunk and the weight of what
follows.  Then the total weight of the final chunk table of `scriptChunks body` is the weight of `body`
(`Weights.scriptChunks_total`).

Proof: the accounting of `WorklistFuel.lean` with equalities — every builder leaves `final` alone and appends
to the queue chunks of known total weight (`CStep`); one step of the worklist moves the weight of the popped
chunk into the table and the queue (`processChunk_total`).

Instances: the occurrences of one command among the rendered commands (CommandCensus.lean), the number of
`end` terminators (CommandCensusEnd.lean), the occurrences of one straight-line run (CommandCensusSegs.lean).
-/
namespace Pory.C10d
open Pory Pory.Emit

structure Weights where
  K : BoolExpr → Nat
  S : Bool → Stmt → Nat
  B : List Stmt → Nat
  E : List (BoolExpr × List Stmt) → Nat
  C : List SwitchCase → Nat
  Br : Branch → Nat
  F : Chunk → Nat
  B_nil : B [] = 0
  B_cons : ∀ (x : Stmt) (r : List Stmt), ¬ IsSimple x → B (x :: r) = S r.isEmpty x + B r
  S_ite : ∀ l t c b es e, S l (.ite t c b es e) =
    K c + B b + E es + (match e with | some x => B x | none => 0)
  S_while : ∀ l t sid c b, S l (.while_ t sid c b) = (match c with | some e => K e | none => 0) + B b
  S_doWhile : ∀ l t sid c b, S l (.doWhile t sid c b) = B b + K c
  S_brk : ∀ l t sid, S l (.brk t sid) = 0
  S_cont : ∀ l t sid, S l (.cont t sid) = 0
  S_switch : ∀ l t sid o cs, S l (.switch_ t sid o cs) = C cs
  E_nil : E [] = 0
  E_cons : ∀ c b r, E ((c, b) :: r) = K c + B b + E r
  C_nil : C [] = 0
  C_cons : ∀ v d b r, C ((v, d, b) :: r) = B b + C r
  K_bin : ∀ l op r, K (.bin l op r) = K l + K r
  Br_none : Br .none = 0
  Br_jump : ∀ d, Br (.jump d) = 0
  Br_breakCtx : ∀ d, Br (.breakCtx d) = 0
  Br_switch : ∀ o cs d r, Br (.switch_ o cs d r) = 0
  Br_leaf : ∀ t e f, Br (.leaf t e f) = K (.leaf e)
  /-- a finalised chunk without statements weighs what its branch weighs -/
  F_helper : ∀ id ret br, F ⟨id, ret, false, [], br⟩ = Br br
  /-- the scan stops at a control statement (or at the end): the finalised chunk holds the prefix -/
  F_none : ∀ (ss : List Stmt) (i : Nat), scanSimple ss 0 ss.length = (i, none) →
    ∀ id ret br, Br br = 0 → B ss = F ⟨id, ret, false, ss.take i, br⟩ + B (ss.drop i)
  /-- the scan stops at a block-final `end` / `return` -/
  F_some : ∀ (ss : List Stmt) (i : Nat) (e : Bool), scanSimple ss 0 ss.length = (i, some e) →
    ∀ id, B ss = F ⟨id, none, e, ss.take i, .none⟩

section
variable (W : Weights)

/-- weight of a queue: statements as a block, plus the branch -/
def qcnt : List Chunk → Nat
  | [] => 0
  | c :: r => (W.B c.statements + W.Br c.branch) + qcnt r

/-- weight of a chunk table -/
def fcnt : List Chunk → Nat
  | [] => 0
  | c :: r => W.F c + fcnt r

theorem qcnt_nil : qcnt W [] = 0 := rfl
theorem qcnt_cons (c : Chunk) (r : List Chunk) :
    qcnt W (c :: r) = (W.B c.statements + W.Br c.branch) + qcnt W r := rfl
theorem qcnt_append (x y : List Chunk) : qcnt W (x ++ y) = qcnt W x + qcnt W y := by
  induction x with
  | nil => simp [qcnt]
  | cons c r ih => simp only [List.cons_append, qcnt_cons, ih]; omega
theorem fcnt_cons (c : Chunk) (r : List Chunk) : fcnt W (c :: r) = W.F c + fcnt W r := rfl

theorem fcnt_eq_sum (G : List Chunk) : fcnt W G = (G.map W.F).sum := by
  induction G with
  | nil => rfl
  | cons c r ih => simp [fcnt_cons, ih]

/-- a code chunk (no branch yet) -/
theorem qcnt_code (id : Nat) (ret : Option Nat) (st : List Stmt) :
    qcnt W [{ id := id, returnID := ret, statements := st }] = W.B st := by
  simp [qcnt, W.Br_none]

/-- A builder leaves `final` alone and appends chunks of total weight `n`. -/
structure CStep (s s' : WS) (n : Nat) : Prop where
  final : s'.final = s.final
  queue : ∃ nw, s'.queue = s.queue ++ nw ∧ qcnt W nw = n

variable {W}

theorem CStep.refl (s : WS) : CStep W s s 0 := ⟨rfl, [], by simp, rfl⟩

theorem CStep.trans {x y z : WS} {n m : Nat} (h1 : CStep W x y n) (h2 : CStep W y z m) :
    CStep W x z (n + m) := by
  obtain ⟨f1, nw1, q1, c1⟩ := h1
  obtain ⟨f2, nw2, q2, c2⟩ := h2
  exact ⟨f2.trans f1, nw1 ++ nw2, by rw [q2, q1, List.append_assoc], by rw [qcnt_append, c1, c2]⟩

theorem CStep.cast {x y : WS} {n m : Nat} (h : CStep W x y n) (e : n = m) : CStep W x y m := e ▸ h

theorem cstep_counter (s : WS) (k : Nat) : CStep W s { s with counter := k } 0 := ⟨rfl, [], by simp, rfl⟩

theorem cstep_push (s : WS) (k : Nat) (c : Chunk) :
    CStep W s { s with counter := k, queue := s.queue ++ [c] } (qcnt W [c]) := ⟨rfl, [c], rfl, rfl⟩

theorem cstep_push' (s : WS) (c : Chunk) :
    CStep W s { s with queue := s.queue ++ [c] } (qcnt W [c]) := ⟨rfl, [c], rfl, rfl⟩

theorem cstep_pushMany (s : WS) (cs : List Chunk) :
    CStep W s { s with queue := s.queue ++ cs } (qcnt W cs) := ⟨rfl, cs, rfl, rfl⟩

theorem splitChunk_cstep (c : Chunk) (i : Nat) (s : WS) :
    CStep W s (splitChunkForBranch c i s).1 (W.B (c.statements.drop (i + 1))) := by
  unfold splitChunkForBranch
  split
  · rename_i hc
    have hc : i + 1 = c.statements.length := by simpa using hc
    have : c.statements.drop (i + 1) = [] := by rw [List.drop_eq_nil_iff]; omega
    rw [this, W.B_nil]
    exact CStep.refl s
  · exact (cstep_push s _ _).cast (qcnt_code W _ _ _)

theorem keep_cstep (c : Chunk) (i : Nat) (s : WS) :
    CStep W s (keepStatementsAfterJump c i s) (W.B (c.statements.drop (i + 1))) := by
  rw [keepStatementsAfterJump_eq]; exact splitChunk_cstep c i s

theorem qcnt_jump (id : Nat) (d : Nat) : qcnt W [{ id := id, branch := .jump d }] = 0 := by
  simp [qcnt, W.Br_jump, W.B_nil]

theorem splitBool_cstep (e : BoolExpr) : ∀ (succ : Nat) (fail : Option Nat) (s s' : WS) (id : Nat),
    splitBool e succ fail s = .ok (s', id) → CStep W s s' (W.K e) := by
  induction e with
  | leaf e =>
    intro succ fail s s' id h
    simp only [splitBool, Except.ok.injEq, Prod.mk.injEq] at h
    rw [← h.1]
    refine (cstep_push s _ _).cast ?_
    simp [qcnt, W.Br_leaf, W.B_nil]
  | bin l op r ihl ihr =>
    intro succ fail s s' id h
    rw [splitBool] at h
    split at h
    · simp only at h
      split at h
      · simp at h
      · next s1 le h1 =>
        split at h
        · simp at h
        · next s2 re h2 =>
          simp only [Except.ok.injEq, Prod.mk.injEq] at h
          rw [← h.1]
          refine (((cstep_counter s _).trans ((ihl _ _ _ _ _ h1).trans (ihr _ _ _ _ _ h2))).trans
            (cstep_push' _ _)).cast ?_
          rw [qcnt_jump, W.K_bin]; omega
    · split at h
      · simp only at h
        split at h
        · simp at h
        · next s1 le h1 =>
          split at h
          · simp at h
          · next s2 re h2 =>
            simp only [Except.ok.injEq, Prod.mk.injEq] at h
            rw [← h.1]
            refine (((cstep_counter s _).trans ((ihl _ _ _ _ _ h1).trans (ihr _ _ _ _ _ h2))).trans
              (cstep_push' _ _)).cast ?_
            rw [qcnt_jump, W.K_bin]; omega
      · simp at h

variable (W) in
/-- weight of the elif conditions -/
def elifCondW : List (BoolExpr × List Stmt) → Nat
  | [] => 0
  | e :: r => W.K e.1 + elifCondW r

variable (W) in
/-- weight of the elif bodies -/
def armBodyW : List (BoolExpr × List Stmt) → Nat
  | [] => 0
  | e :: r => W.B e.2 + armBodyW r

theorem elifs_split : ∀ (es : List (BoolExpr × List Stmt)), W.E es = elifCondW W es + armBodyW W es := by
  intro es
  induction es with
  | nil => simp [W.E_nil, elifCondW, armBodyW]
  | cons e r ih =>
    obtain ⟨c, b⟩ := e
    simp only [W.E_cons, elifCondW, armBodyW, ih]
    omega

theorem splitElifs_cstep : ∀ (elifs : List (BoolExpr × List Stmt)) (ids : List Nat)
    (lastFail : Option Nat) (s s' : WS) (r : Option Nat), ids.length = elifs.length →
    splitElifs elifs ids lastFail s = .ok (s', r) → CStep W s s' (elifCondW W elifs) := by
  intro elifs
  induction elifs with
  | nil =>
    intro ids lastFail s s' r _ h
    simp [splitElifs] at h
    rw [← h.1]; exact CStep.refl s
  | cons e rest ih =>
    intro ids lastFail s s' r hl h
    obtain ⟨c, b⟩ := e
    cases ids with
    | nil => simp at hl
    | cons id restI =>
      rw [splitElifs] at h
      split at h
      · simp at h
      · next s1 ne h1 =>
        split at h
        · simp at h
        · next s2 en h2 =>
          simp only [Except.ok.injEq, Prod.mk.injEq] at h
          rw [← h.1]
          refine ((ih _ _ _ _ _ (by simpa using hl) h1).trans (splitBool_cstep c _ _ _ _ _ h2)).cast ?_
          simp only [elifCondW]; omega

theorem pushNew_cstep (s : WS) (ret : Option Nat) (st : List Stmt) :
    CStep W s (pushNew s ret st) (W.B st) :=
  (cstep_push s _ _).cast (qcnt_code W _ _ _)

theorem armChunks_qcnt (ret : Option Nat) : ∀ (arms : List (BoolExpr × List Stmt)) (n : Nat),
    qcnt W (armChunks ret n arms) = armBodyW W arms := by
  intro arms
  induction arms with
  | nil => intro n; rfl
  | cons e r ih =>
    intro n
    simp only [armChunks, qcnt_cons, armBodyW, ih, W.Br_none]
    omega

theorem foldl_armStep_cstep (ret : Option Nat) (arms : List (BoolExpr × List Stmt)) (s : WS)
    (acc : List Nat) : CStep W s (arms.foldl (armStep ret) (s, acc)).1 (armBodyW W arms) := by
  rw [foldl_armStep]
  exact ⟨rfl, _, rfl, armChunks_qcnt ret arms _⟩

theorem foldl_armStep_ids (ret : Option Nat) (arms : List (BoolExpr × List Stmt)) (s : WS) :
    (arms.foldl (armStep ret) (s, [])).2.length = arms.length := by
  rw [foldl_armStep]
  simp [armChunks_length]

theorem elseStep_cstep (post : Option Nat) (x : WS) (els : Option (List Stmt)) :
    CStep W x (elseStep post x els).1 (match els with | some l => W.B l | none => 0) := by
  cases els with
  | none => exact CStep.refl x
  | some l => exact pushNew_cstep x post l

theorem createIf_cstep (tok : Tok) (cond : BoolExpr) (body : List Stmt) (elifs : List (BoolExpr × List Stmt))
    (els : Option (List Stmt)) (c : Chunk) (i : Nat) (s s' : WS) (br : Branch) (ret : Option Nat) (l : Bool)
    (h : createIf cond body elifs els c i s = .ok (s', br, ret)) :
    CStep W s s' (W.S l (.ite tok cond body elifs els) + W.B (c.statements.drop (i + 1))) ∧ W.Br br = 0 := by
  rw [createIf_eq] at h
  unfold ifTail at h
  split at h
  · simp at h
  · next s1 ac h1 =>
    split at h
    · simp at h
    · next s2 en h2 =>
      simp only [Except.ok.injEq, Prod.mk.injEq] at h
      refine ⟨?_, by rw [← h.2.1]; exact W.Br_jump _⟩
      rw [← h.1]
      refine (((((splitChunk_cstep c i s).trans (pushNew_cstep _ _ body)).trans
        (foldl_armStep_cstep _ elifs _ [])).trans (elseStep_cstep _ _ els)).trans
        ((splitElifs_cstep _ _ _ _ _ _ (foldl_armStep_ids _ _ _) h1).trans
          (splitBool_cstep cond _ _ _ _ _ h2))).cast ?_
      rw [W.S_ite, elifs_split]
      omega

theorem qcnt_two (id1 id2 : Nat) (r1 r2 : Option Nat) (st : List Stmt) (d : Nat) :
    qcnt W [{ id := id1, returnID := r1, statements := st }, { id := id2, returnID := r2, branch := .jump d }] =
      W.B st := by
  simp [qcnt, W.Br_none, W.Br_jump, W.B_nil]

theorem createWhile_cstep (tok : Tok) (sid : Nat) (cond : Option BoolExpr) (body : List Stmt) (c : Chunk)
    (i : Nat) (s s' : WS) (br : Branch) (ret : Option Nat) (cid : Nat) (l : Bool)
    (h : createWhile cond body c i s = .ok (s', br, ret, cid)) :
    CStep W s s' (W.S l (.while_ tok sid cond body) + W.B (c.statements.drop (i + 1))) ∧ W.Br br = 0 := by
  unfold createWhile at h
  simp only [alloc] at h
  have h0 := splitChunk_cstep (W := W) c i s
  generalize splitChunkForBranch c i s = sp at h h0
  obtain ⟨s0, ret0⟩ := sp
  simp only at h h0
  cases cond with
  | none =>
    simp only [Except.ok.injEq, Prod.mk.injEq] at h
    refine ⟨?_, by rw [← h.2.1]; exact W.Br_jump _⟩
    rw [← h.1]
    refine (h0.trans ((cstep_counter s0 (s0.counter + 1 + 1)).trans (cstep_pushMany _ _))).cast ?_
    rw [qcnt_two, W.S_while]
    simp only; omega
  | some e =>
    simp only at h
    split at h
    · simp at h
    · next s1 en h1 =>
      simp only [Except.ok.injEq, Prod.mk.injEq] at h
      refine ⟨?_, by rw [← h.2.1]; exact W.Br_jump _⟩
      rw [← h.1]
      refine ((h0.trans ((cstep_counter _ _).trans (splitBool_cstep e _ _ _ _ _ h1))).trans
        (cstep_pushMany _ _)).cast ?_
      rw [qcnt_two, W.S_while]
      simp only; omega

theorem createDoWhile_cstep (tok : Tok) (sid : Nat) (cond : BoolExpr) (body : List Stmt) (c : Chunk)
    (i : Nat) (s s' : WS) (br : Branch) (ret : Option Nat) (cid : Nat) (l : Bool)
    (h : createDoWhile cond body c i s = .ok (s', br, ret, cid)) :
    CStep W s s' (W.S l (.doWhile tok sid cond body) + W.B (c.statements.drop (i + 1))) ∧ W.Br br = 0 := by
  unfold createDoWhile at h
  simp only [alloc] at h
  have h0 := splitChunk_cstep (W := W) c i s
  generalize splitChunkForBranch c i s = sp at h h0
  obtain ⟨s0, ret0⟩ := sp
  simp only at h h0
  split at h
  · simp at h
  · next s1 en h1 =>
    simp only [Except.ok.injEq, Prod.mk.injEq] at h
    refine ⟨?_, by rw [← h.2.1]; exact W.Br_jump _⟩
    rw [← h.1]
    refine ((h0.trans ((cstep_counter _ _).trans (splitBool_cstep cond _ _ _ _ _ h1))).trans
      (cstep_pushMany _ _)).cast ?_
    rw [qcnt_two, W.S_doWhile]
    omega

theorem switchBodies_cstep (ret : Option Nat) : ∀ (cases : List SwitchCase) (s : WS),
    CStep W s (switchBodies ret cases s).1 (W.C cases) := by
  intro cases
  induction cases with
  | nil => intro s; rw [W.C_nil]; exact CStep.refl s
  | cons c r ih =>
    intro s
    obtain ⟨v, d, body⟩ := c
    by_cases hb : body.length > 0
    · rw [switchBodies_cons_pos ret v d body r s hb]
      refine ((pushNew_cstep s ret body).trans (ih _)).cast ?_
      rw [W.C_cons]
    · rw [switchBodies_cons_neg ret v d body r s hb]
      have he : body = [] := by
        cases body with
        | nil => rfl
        | cons x y => simp at hb
      subst he
      refine (ih s).cast ?_
      rw [W.C_cons, W.B_nil]; omega

theorem qcnt_empty (id : Nat) (ret : Option Nat) : qcnt W [{ id := id, returnID := ret }] = 0 := by
  simp [qcnt, W.Br_none, W.B_nil]

theorem emptyStep_cstep (post : Option Nat) (need : Bool) (s : WS) :
    CStep W s (emptyStep post need s).1 0 := by
  unfold emptyStep
  cases need with
  | false => exact CStep.refl s
  | true => exact (cstep_push s _ _).cast (qcnt_empty _ _)

theorem createSwitch_cstep (tok : Tok) (sid : Nat) (operand : Tok) (cases : List SwitchCase) (c : Chunk)
    (i : Nat) (s : WS) (l : Bool) :
    CStep W s (createSwitch operand cases c i s).1
      (W.S l (.switch_ tok sid operand cases) + W.B (c.statements.drop (i + 1))) ∧
    W.Br (createSwitch operand cases c i s).2.1 = 0 := by
  rw [createSwitch_eq]
  have h0 := splitChunk_cstep (W := W) c i s
  generalize splitChunkForBranch c i s = sp at h0 ⊢
  obtain ⟨s0, ret0⟩ := sp
  simp only at h0 ⊢
  have h2 := switchBodies_cstep (W := W) ret0 cases (pushEmpty s0 ret0)
  generalize switchBodies ret0 cases (pushEmpty s0 ret0) = sb at h2 ⊢
  rw [W.S_switch]
  unfold switchTail
  split
  · refine ⟨?_, W.Br_jump _⟩
    have h1 : CStep W s0 (pushEmpty s0 ret0) 0 := (cstep_push s0 _ _).cast (qcnt_empty _ _)
    exact ((h0.trans h1).trans h2).cast (by omega)
  · refine ⟨?_, W.Br_jump _⟩
    simp only
    have h3 := emptyStep_cstep (W := W) ret0 (switchNeedsEmpty cases (propagateBack sb.2)) sb.1
    generalize emptyStep ret0 (switchNeedsEmpty cases (propagateBack sb.2)) sb.1 = es at h3 ⊢
    obtain ⟨f2, nb, q2, c2⟩ := h2
    obtain ⟨f3, ne, q3, c3⟩ := h3
    have hq : es.1.queue = s0.queue ++ { id := s0.counter + 1, returnID := ret0 } :: (nb ++ ne) := by
      rw [q3, q2]; simp [pushEmpty]
    refine (h0.trans (m := W.C cases)
      ⟨by simp only; rw [f3, f2]; rfl,
       { id := s0.counter + 1, returnID := ret0,
         branch := switchBranchOf operand cases (propagateBack sb.2) es.2 ret0 } :: (nb ++ ne), ?_, ?_⟩).cast
      (by omega)
    · simp only
      rw [hq, modify_append_cons]
    · rw [qcnt_cons, qcnt_append, c2, c3]
      simp [switchBranchOf, W.Br_switch, W.B_nil]

/-! ## one worklist step, the whole run -/

theorem setFinal_queue' (s : WS) (c : Chunk) : (s.setFinal c).queue = s.queue := rfl

theorem CStep.total {s s' : WS} {n : Nat} (h : CStep W s s' n) {c : Chunk} (hid : c.id ∉ s.final.map (·.id)) :
    fcnt W (s'.setFinal c).final + qcnt W (s'.setFinal c).queue =
      W.F c + fcnt W s.final + qcnt W s.queue + n := by
  obtain ⟨hf, nw, hq, hn⟩ := h
  have : (s'.setFinal c).final = c :: s.final := by
    simp only [WS.setFinal, hf]; rw [filter_ne_of_not_mem _ _ hid]
  rw [this, setFinal_queue', hq, qcnt_append, fcnt_cons, hn]
  omega

/-- the weight of a queued chunk that is finalised unchanged -/
theorem F_of_qok (p : Chunk) (hq : QOK p) (hscan : scanSimple p.statements 0 p.statements.length =
    (p.statements.length, none)) : W.F p = W.B p.statements + W.Br p.branch := by
  obtain ⟨id, ret, e, st, br⟩ := p
  obtain ⟨h1, h2⟩ := hq
  simp only at h1 h2 hscan ⊢
  subst h1
  cases st with
  | nil => rw [W.F_helper, W.B_nil]; omega
  | cons x r =>
    have hb : br = .none := by
      apply Classical.byContradiction
      intro hb
      exact absurd (h2 hb) (by simp)
    subst hb
    have := W.F_none (x :: r) _ hscan id ret .none W.Br_none
    rw [List.take_length, List.drop_length, W.B_nil] at this
    rw [this, W.Br_none]; omega

/-- **one worklist step keeps the total weight** -/
theorem processChunk_total (p : Chunk) (st0 st1 : WS) (hq : QOK p) (hid : p.id ∉ st0.final.map (·.id))
    (h : processChunk p st0 = .ok st1) :
    fcnt W st1.final + qcnt W st1.queue = fcnt W st0.final + qcnt W st0.queue + qcnt W [p] := by
  unfold processChunk at h
  generalize hscan : scanSimple p.statements 0 p.statements.length = scn at h
  obtain ⟨i, fin⟩ := scn
  obtain ⟨pre, rest, hst, _, hi, hcase⟩ := scan_facts p i fin hscan
  subst hi
  simp only at h
  have htake : p.statements.take pre.length = pre := by rw [hst]; simp
  rw [qcnt_cons, qcnt_nil]
  rcases hcase with ⟨rfl, hrest⟩ | ⟨c, rfl, rfl, hterm⟩
  · simp only at h
    rcases hrest with rfl | ⟨x, r, rfl, hx⟩
    · -- only commands and labels
      have hlen : pre.length = p.statements.length := by rw [hst]; simp
      rw [if_pos (by simp [hlen])] at h
      injection h with h; subst h
      rw [(CStep.refl (W := W) st0).total (c := p) hid, F_of_qok p hq (hlen ▸ hscan)]
      omega
    · have hne : ¬ ((pre.length == p.statements.length) = true) := by rw [hst]; simp
      have hget : p.statements[pre.length]? = some x := by rw [hst]; simp
      have hdrop : p.statements.drop (pre.length + 1) = r := by rw [hst]; simp
      have hdrop0 : p.statements.drop pre.length = x :: r := by rw [hst]; simp
      have hbr : p.branch = .none := branch_none_of_stmts hq (by rw [hst]; simp)
      have hF : ∀ id ret br, W.Br br = 0 →
          W.B p.statements = W.F ⟨id, ret, false, pre, br⟩ + (W.S r.isEmpty x + W.B r) := by
        intro id ret br hb
        have := W.F_none p.statements _ hscan id ret br hb
        rw [htake, hdrop0, W.B_cons x r hx] at this
        exact this
      rw [if_neg hne] at h
      simp only [hget] at h
      rw [hbr, W.Br_none]
      cases x with
      | cmd c => exact absurd trivial hx
      | label t n g => exact absurd trivial hx
      | ite tok cond body elifs els =>
        simp only at h
        split at h
        · cases h
        · rename_i s1 br ret hc
          injection h with h; subst h
          obtain ⟨hs, hb⟩ := createIf_cstep (W := W) tok cond body elifs els p pre.length st0 s1 br ret
            r.isEmpty hc
          rw [hs.total (c := { id := p.id, returnID := ret, statements := List.take pre.length p.statements, branch := br }) hid,
            htake, hdrop, hF p.id ret br hb]
          omega
      | while_ tok sid cond body =>
        simp only at h
        split at h
        · cases h
        · rename_i s1 br ret contId hc
          injection h with h; subst h
          obtain ⟨hs, hb⟩ := createWhile_cstep (W := W) tok sid cond body p pre.length st0 s1 br ret contId
            r.isEmpty hc
          have := hs.total (c := { id := p.id, returnID := ret, statements := List.take pre.length p.statements, branch := br }) hid
          simp only [WS.setFinal] at this ⊢
          rw [this, htake, hdrop, hF p.id ret br hb]
          omega
      | doWhile tok sid cond body =>
        simp only at h
        split at h
        · cases h
        · rename_i s1 br ret contId hc
          injection h with h; subst h
          obtain ⟨hs, hb⟩ := createDoWhile_cstep (W := W) tok sid cond body p pre.length st0 s1 br ret contId
            r.isEmpty hc
          have := hs.total (c := { id := p.id, returnID := ret, statements := List.take pre.length p.statements, branch := br }) hid
          simp only [WS.setFinal] at this ⊢
          rw [this, htake, hdrop, hF p.id ret br hb]
          omega
      | brk tok sid =>
        simp only at h
        split at h
        · cases h
        · rename_i dest hl
          injection h with h; subst h
          rw [(keep_cstep (W := W) p pre.length st0).total (c := { id := p.id, returnID := p.returnID, statements := List.take pre.length p.statements, branch := .breakCtx dest }) hid,
            htake, hdrop, hF p.id p.returnID (.breakCtx dest) (W.Br_breakCtx _), W.S_brk]
          omega
      | cont tok sid =>
        simp only at h
        split at h
        · cases h
        · rename_i dest hl
          injection h with h; subst h
          rw [(keep_cstep (W := W) p pre.length st0).total (c := { id := p.id, returnID := p.returnID, statements := List.take pre.length p.statements, branch := .breakCtx (some dest) }) hid,
            htake, hdrop, hF p.id p.returnID (.breakCtx (some dest)) (W.Br_breakCtx _), W.S_cont]
          omega
      | switch_ tok sid operand cases =>
        simp only at h
        obtain ⟨hs, hb⟩ := createSwitch_cstep (W := W) tok sid operand cases p pre.length st0 r.isEmpty
        generalize createSwitch operand cases p pre.length st0 = cs at h hs hb
        obtain ⟨s1, br, ret, swId⟩ := cs
        simp only at h hs hb
        injection h with h; subst h
        have := hs.total (c := { id := p.id, returnID := ret, statements := List.take pre.length p.statements, branch := br }) hid
        simp only [WS.setFinal] at this ⊢
        rw [this, htake, hdrop, hF p.id ret br hb]
        omega
  · -- a block-final `end` / `return`: it becomes the terminator
    simp only at h
    injection h with h; subst h
    have hbr : p.branch = .none := branch_none_of_stmts hq (by rw [hst]; simp)
    rw [(CStep.refl (W := W) st0).total (c := { id := p.id, returnID := none, useEndTerminator := c.name == "end", statements := List.take pre.length p.statements }) hid,
      W.F_some p.statements _ _ hscan p.id, hbr, W.Br_none]
    omega

/-- ids of the table and the queue are distinct and bounded by the counter; queued chunks are `QOK` -/
structure IdInv (st : WS) : Prop where
  nodup : (ids st).Nodup
  le : ∀ i ∈ ids st, i ≤ st.counter
  qok : ∀ p ∈ st.queue, QOK p

theorem IdInv.not_mem {st : WS} {p : Chunk} {q : List Chunk} (hinv : IdInv st) (hq : st.queue = p :: q) :
    p.id ∉ st.final.map (·.id) := by
  intro hk
  have := hinv.nodup
  simp only [ids, hq, List.map_cons] at this
  rw [List.nodup_append] at this
  exact this.2.2 _ hk _ (by simp) rfl

theorem IdInv.step {st st1 : WS} {p : Chunk} {q nw : List Chunk} {ch : Chunk}
    {sc : List (Nat × Option Nat × Nat)} (hinv : IdInv st) (hq : st.queue = p :: q)
    (so : StepOut p { st with queue := q } st1 nw ch sc) : IdInv st1 := by
  have hnm := hinv.not_mem hq
  obtain ⟨hnd, hle, hqok⟩ := hinv
  have hfin : st1.final = ch :: st.final := by
    rw [so.final_eq]; simp only; rw [filter_ne_of_not_mem _ _ hnm]
  have hids1 : ids st1 = p.id :: (st.final.map (·.id) ++ (q.map (·.id) ++ nw.map (·.id))) := by
    simp [ids, hfin, so.queue_eq, so.ch_id]
  have hids : ids st = st.final.map (·.id) ++ p.id :: q.map (·.id) := by simp [ids, hq]
  have hnew : ∀ i ∈ nw.map (·.id), st.counter < i ∧ i ≤ st1.counter := by
    intro i hi; simp only [List.mem_map] at hi; obtain ⟨x, hx, rfl⟩ := hi; exact so.nw_ids x hx
  refine ⟨?_, ?_, ?_⟩
  · rw [hids1]
    have hperm : (p.id :: (st.final.map (·.id) ++ (q.map (·.id) ++ nw.map (·.id)))).Perm
        ((st.final.map (·.id) ++ p.id :: q.map (·.id)) ++ nw.map (·.id)) := by
      rw [← List.append_assoc, ← List.cons_append]
      exact List.Perm.append_right _ (List.perm_middle.symm)
    rw [hperm.nodup_iff, List.nodup_append]
    refine ⟨hids ▸ hnd, so.nw_nodup, ?_⟩
    intro a ha b hb hab
    have h1 := hle a (hids ▸ ha); have h2 := hnew b hb; omega
  · intro i hi
    rw [hids1] at hi
    have hc := so.counter_le
    simp only [List.mem_cons, List.mem_append] at hi
    rcases hi with rfl | hi | hi | hi
    · have := hle p.id (by rw [hids]; simp); simp at hc; omega
    · have := hle i (by rw [hids]; simp [hi]); simp at hc; omega
    · have := hle i (by rw [hids]; simp [hi]); simp at hc; omega
    · exact (hnew i hi).2
  · intro x hx
    rw [so.queue_eq] at hx
    simp only [List.mem_append] at hx
    rcases hx with hx | hx
    · exact hqok x (by rw [hq]; simp [hx])
    · exact so.nw_qok x hx

theorem runWorklist_total : ∀ (f : Nat) (st st' : WS), runWorklist f st = .ok st' → IdInv st →
    fcnt W st'.final = fcnt W st.final + qcnt W st.queue := by
  intro f
  induction f with
  | zero => intro st st' h; simp [runWorklist] at h
  | succ f ih =>
    intro st st' h hinv
    rw [runWorklist_succ] at h
    cases hq : st.queue with
    | nil =>
      simp only [hq] at h
      injection h with h; subst h
      simp [qcnt_nil]
    | cons p q =>
      simp only [hq] at h
      cases hp : processChunk p { st with queue := q } with
      | error e => simp [hp] at h
      | ok st1 =>
        simp only [hp] at h
        have hqok : QOK p := hinv.qok p (by simp [hq])
        obtain ⟨nw, ch, sc, so⟩ := process_spec p _ st1 hqok hp
        have h1 := ih st1 st' h (hinv.step hq so)
        have h2 := processChunk_total (W := W) p { st with queue := q } st1 hqok (hinv.not_mem hq) hp
        simp only at h2
        rw [h1, qcnt_cons W p q]
        rw [qcnt_cons, qcnt_nil] at h2
        omega

end

/-- **The total weight of the chunk table of a script is the weight of its body.** -/
theorem Weights.scriptChunks_total (W : Weights) (body : List Stmt) (chunks : List Chunk)
    (h : scriptChunks body = .ok chunks) : fcnt W chunks = W.B body := by
  unfold scriptChunks at h
  split at h
  · cases h
  · rename_i st hrun
    injection h with h; subst h
    have hinv : IdInv { queue := [{ id := 0, statements := body }] } := by
      refine ⟨by simp [ids], by simp [ids], ?_⟩
      intro p hp
      simp only [List.mem_singleton] at hp
      subst hp
      exact IsCode.qok ⟨rfl, rfl⟩
    have := runWorklist_total (W := W) _ _ st hrun hinv
    rw [this]
    simp [fcnt, qcnt, W.Br_none]

end Pory.C10d
