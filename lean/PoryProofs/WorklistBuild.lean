import PoryProofs.WorklistBase
/-
Worklist proof, part 2: what each chunk builder of the emitter does (`splitChunkForBranch`,
`keepStatementsAfterJump`, `splitBool`, `splitElifs`, `createIf`, `createWhile`, `createDoWhile`,
`switchBodies`, `createSwitch`), stated as: the new chunks `nw` (`Grows`), their kind, the scope
ids they carry, and the `Impl` fact they establish in any graph that realises them.
-/
namespace Pory.Emit
open Pory Pory.Sem

/-- what the invariant demands of every queued chunk -/
def QOK (q : Chunk) : Prop := q.useEndTerminator = false ∧ (q.branch ≠ .none → q.statements = [])

/-- a queued chunk with statements (its branch is decided when it is processed) -/
def IsCode (q : Chunk) : Prop := q.branch = .none ∧ q.useEndTerminator = false

/-- a queued chunk without statements whose branch is already set -/
def IsHelper (q : Chunk) : Prop := q.statements = [] ∧ q.branch ≠ .none ∧ q.useEndTerminator = false

theorem IsCode.qok {q : Chunk} (h : IsCode q) : QOK q := ⟨h.2, fun hn => absurd h.1 hn⟩
theorem IsHelper.qok {q : Chunk} (h : IsHelper q) : QOK q := ⟨h.2.2, fun _ => h.1⟩

/-! ### `splitChunkForBranch`, `keepStatementsAfterJump` -/

theorem keepStatementsAfterJump_eq (c : Chunk) (i : Nat) (s : WS) :
    keepStatementsAfterJump c i s = (splitChunkForBranch c i s).1 := by
  unfold keepStatementsAfterJump splitChunkForBranch; split <;> rfl

theorem splitChunkForBranch_spec (c : Chunk) (i : Nat) (s : WS) (rest : List Stmt)
    (hi : i < c.statements.length) (hrest : c.statements.drop (i + 1) = rest) :
    ∃ nw, Grows s (splitChunkForBranch c i s).1 nw ∧
      (∀ q ∈ nw, IsCode q ∧ q.statements = rest) ∧
      qbinders nw = bindersL rest ∧
      PostOK rest c.returnID (splitChunkForBranch c i s).2 (s.counter + 1) ∧
      (∀ G cx, (∀ q ∈ nw, Realizes G cx q) → rest ≠ [] → OneDefaultL rest →
        Impl G cx (s.counter + 1) 0 rest c.returnID) := by
  unfold splitChunkForBranch
  split
  · rename_i hc
    have hc : i + 1 = c.statements.length := by simpa using hc
    have hr : rest = [] := by rw [← hrest, List.drop_eq_nil_iff]; omega
    subst hr
    exact ⟨[], Grows.refl s, by simp, rfl, ⟨fun _ => rfl, fun h => absurd rfl h⟩, fun _ _ _ h => absurd rfl h⟩
  · rename_i hc
    have hc : i + 1 ≠ c.statements.length := by simpa using hc
    have hr : rest ≠ [] := by rw [← hrest, Ne, List.drop_eq_nil_iff]; omega
    refine ⟨[{ id := s.counter + 1, returnID := c.returnID, statements := c.statements.drop (i + 1) }],
      Grows.allocPush s _ rfl, ?_, ?_, ⟨fun h => absurd h hr, fun _ => rfl⟩, ?_⟩
    · intro q hq; simp only [List.mem_singleton] at hq; subst hq; exact ⟨⟨rfl, rfl⟩, hrest⟩
    · rw [qbinders_cons, qbinders_nil, hrest]; simp
    · intro G cx h _ hod
      have := h _ (List.mem_singleton.2 rfl)
      rw [realizes_code rfl] at this
      simpa [hrest] using this (by simpa [hrest] using hod)

/-! ### `splitBool` -/

theorem splitBool_spec (e : BoolExpr) : ∀ (succ : Nat) (fail : Option Nat) (s s' : WS) (entry : Nat),
    splitBool e succ fail s = .ok (s', entry) →
    ∃ nw, Grows s s' nw ∧ s.counter < s'.counter ∧ nw.length + s.counter = s'.counter ∧
      (∀ q ∈ nw, IsHelper q) ∧
      (∀ G, (∀ q ∈ nw, IsHelperIn G q) → ImplCond G entry e succ fail) := by
  induction e with
  | leaf x =>
    intro succ fail s s' entry h
    simp only [splitBool, Except.ok.injEq, Prod.mk.injEq] at h
    obtain ⟨rfl, rfl⟩ := h
    refine ⟨[{ id := s.counter + 1, branch := .leaf succ x fail }], Grows.allocPush s _ rfl,
      by simp, by simp; omega, ?_, ?_⟩
    · intro q hq; simp only [List.mem_singleton] at hq; subst hq; exact ⟨rfl, by simp, rfl⟩
    · intro G hG
      obtain ⟨ch, h1, h2, h3⟩ := hG _ (List.mem_singleton.2 rfl)
      exact ⟨ch, h1, h2, h3⟩
  | bin l op r ihl ihr =>
    intro succ fail s s' entry h
    rw [splitBool] at h
    -- both operators have the same shape: reserve an id, split left, split right, queue the jump
    have main : ∀ (fl : Option Nat) (sl : Nat) (s2 s3 : WS) (le re : Nat),
        splitBool l sl fl { s with counter := s.counter + 1 } = .ok (s2, le) →
        splitBool r succ fail s2 = .ok (s3, re) →
        ∃ nw, Grows s { s3 with queue := s3.queue ++ [{ id := s.counter + 1, branch := .jump re }] } nw ∧
          s.counter < s3.counter ∧ nw.length + s.counter = s3.counter ∧ (∀ q ∈ nw, IsHelper q) ∧
          (∀ G, (∀ q ∈ nw, IsHelperIn G q) →
            ImplCond G le l sl fl ∧ jumpChunk G (s.counter + 1) re ∧ ImplCond G re r succ fail) := by
      intro fl sl s2 s3 le re hl hr
      obtain ⟨nl, gl, cl, ll, hhl, il⟩ := ihl _ _ _ _ _ hl
      obtain ⟨nr, gr, cr, lr, hhr, ir⟩ := ihr _ _ _ _ _ hr
      have g3 : Grows s s3 (nl ++ nr) := by
        have := ((Grows.reserve s).trans gl).trans gr
        simpa using this
      simp only at cl ll
      refine ⟨(nl ++ nr) ++ [{ id := s.counter + 1, branch := .jump re }],
        g3.pushReserved _ (by simp) (by simp; omega) ?_, by omega, by simp; omega, ?_, ?_⟩
      · intro hm
        rw [List.map_append, List.mem_append] at hm
        rcases hm with hm | hm
        · obtain ⟨q, hq, e⟩ := List.mem_map.1 hm
          have := gl.ids q hq; simp only at this e; omega
        · obtain ⟨q, hq, e⟩ := List.mem_map.1 hm
          have := gr.ids q hq; simp only at this e; omega
      · intro q hq
        simp only [List.mem_append, List.mem_singleton] at hq
        rcases hq with (hq | hq) | hq
        · exact hhl q hq
        · exact hhr q hq
        · subst hq; exact ⟨rfl, by simp, rfl⟩
      · intro G hG
        refine ⟨il G (fun q hq => hG q (by simp [hq])), ?_, ir G (fun q hq => hG q (by simp [hq]))⟩
        obtain ⟨ch, h1, h2, h3⟩ := hG { id := s.counter + 1, branch := .jump re } (by simp)
        exact ⟨ch, h1, h2, h3⟩
    split at h
    · rename_i hop
      have hop : op = .AND := by simpa using hop
      simp only at h
      split at h
      · cases h
      · rename_i s2 le hl
        split at h
        · cases h
        · rename_i s3 re hr
          simp only [Except.ok.injEq, Prod.mk.injEq] at h
          obtain ⟨rfl, rfl⟩ := h
          obtain ⟨nw, g, c1, c2, c3, c4⟩ := main _ _ _ _ _ _ hl hr
          refine ⟨nw, g, c1, c2, c3, ?_⟩
          intro G hG
          obtain ⟨a1, a2, a3⟩ := c4 G hG
          rw [ImplCond]
          exact .inl ⟨hop, _, _, a1, a2, a3⟩
    · split at h
      · rename_i hop
        have hop : op = .OR := by simpa using hop
        simp only at h
        split at h
        · cases h
        · rename_i s2 le hl
          split at h
          · cases h
          · rename_i s3 re hr
            simp only [Except.ok.injEq, Prod.mk.injEq] at h
            obtain ⟨rfl, rfl⟩ := h
            obtain ⟨nw, g, c1, c2, c3, c4⟩ := main _ _ _ _ _ _ hl hr
            refine ⟨nw, g, c1, c2, c3, ?_⟩
            intro G hG
            obtain ⟨a1, a2, a3⟩ := c4 G hG
            rw [ImplCond]
            exact .inr ⟨hop, _, _, a1, a2, a3⟩
      · cases h

/-! ### the body chunks of an `if` / `elif` chain -/

def armStep (ret : Option Nat) (acc : WS × List Nat) (e : BoolExpr × List Stmt) : WS × List Nat :=
  ({ acc.1 with counter := acc.1.counter + 1,
                queue := acc.1.queue ++ [{ id := acc.1.counter + 1, returnID := ret, statements := e.2 }] },
   acc.2 ++ [acc.1.counter + 1])

/-- the body chunks queued for the arms, ids `n+1, n+2, …` -/
def armChunks (ret : Option Nat) : Nat → List (BoolExpr × List Stmt) → List Chunk
  | _, [] => []
  | n, e :: r => { id := n + 1, returnID := ret, statements := e.2 } :: armChunks ret (n + 1) r

theorem foldl_armStep (ret : Option Nat) : ∀ (arms : List (BoolExpr × List Stmt)) (s : WS) (acc : List Nat),
    arms.foldl (armStep ret) (s, acc) =
      ({ s with counter := s.counter + arms.length, queue := s.queue ++ armChunks ret s.counter arms },
       acc ++ (armChunks ret s.counter arms).map (·.id)) := by
  intro arms
  induction arms with
  | nil => intro s acc; simp [armChunks]
  | cons e r ih =>
    intro s acc
    rw [List.foldl_cons, armStep, ih]
    simp only [armChunks, List.length_cons, List.append_assoc, List.cons_append, List.nil_append,
      List.map_cons, Prod.mk.injEq, WS.mk.injEq, and_true]
    omega

theorem armChunks_mem (ret : Option Nat) : ∀ (arms : List (BoolExpr × List Stmt)) (n : Nat) (q : Chunk),
    q ∈ armChunks ret n arms → n < q.id ∧ q.id ≤ n + arms.length ∧ IsCode q := by
  intro arms
  induction arms with
  | nil => intro n q h; simp [armChunks] at h
  | cons e r ih =>
    intro n q h
    simp only [armChunks, List.mem_cons] at h
    rcases h with rfl | h
    · exact ⟨by simp, by simp, rfl, rfl⟩
    · have := ih _ _ h; simp only [List.length_cons]; exact ⟨by omega, by omega, this.2.2⟩

theorem armChunks_stmts (ret : Option Nat) : ∀ (arms : List (BoolExpr × List Stmt)) (n : Nat) (q : Chunk),
    q ∈ armChunks ret n arms → q.statements ∈ arms.map (·.2) := by
  intro arms
  induction arms with
  | nil => intro n q h; simp [armChunks] at h
  | cons e r ih =>
    intro n q h
    simp only [armChunks, List.mem_cons] at h
    rcases h with rfl | h
    · simp
    · simp only [List.map_cons, List.mem_cons]; exact .inr (ih _ _ h)

theorem armChunks_nodup (ret : Option Nat) : ∀ (arms : List (BoolExpr × List Stmt)) (n : Nat),
    ((armChunks ret n arms).map (·.id)).Nodup := by
  intro arms
  induction arms with
  | nil => intro n; simp [armChunks]
  | cons e r ih =>
    intro n
    simp only [armChunks, List.map_cons, List.nodup_cons]
    refine ⟨?_, ih _⟩
    intro hm
    obtain ⟨q, hq, e⟩ := List.mem_map.1 hm
    have := armChunks_mem ret r (n + 1) q hq
    omega

theorem armChunks_length (ret : Option Nat) : ∀ (arms : List (BoolExpr × List Stmt)) (n : Nat),
    (armChunks ret n arms).length = arms.length := by
  intro arms
  induction arms with
  | nil => intro n; rfl
  | cons e r ih => intro n; simp [armChunks, ih]

theorem qbinders_armChunks (ret : Option Nat) : ∀ (arms : List (BoolExpr × List Stmt)) (n : Nat),
    qbinders (armChunks ret n arms) = bindersE arms := by
  intro arms
  induction arms with
  | nil => intro n; simp [armChunks, qbinders, bindersE]
  | cons e r ih =>
    intro n
    obtain ⟨c, b⟩ := e
    rw [armChunks, qbinders_cons, ih, bindersE]

theorem grows_armChunks (ret : Option Nat) (arms : List (BoolExpr × List Stmt)) (s : WS) :
    Grows s { s with counter := s.counter + arms.length, queue := s.queue ++ armChunks ret s.counter arms }
      (armChunks ret s.counter arms) :=
  ⟨by simp, rfl, rfl, rfl, rfl, fun q hq => by have := armChunks_mem ret arms _ q hq; simp only; omega,
    armChunks_nodup ret arms _⟩

theorem armChunks_impl {G : List Chunk} {cx : Ctx} (ret : Option Nat) :
    ∀ (arms : List (BoolExpr × List Stmt)) (n : Nat),
    (∀ q ∈ armChunks ret n arms, Realizes G cx q) → OneDefaultE arms →
    ∀ i (hi : i < arms.length) b, ((armChunks ret n arms).map (·.id))[i]? = some b →
      Impl G cx b 0 (arms[i]).2 ret := by
  intro arms
  induction arms with
  | nil => intro n _ _ i hi; simp at hi
  | cons e r ih =>
    intro n hq hod i hi b hb
    obtain ⟨c, bd⟩ := e
    rw [odE_cons] at hod
    cases i with
    | zero =>
      simp only [armChunks, List.map_cons, List.getElem?_cons_zero, Option.some.injEq] at hb
      subst hb
      have := hq { id := n + 1, returnID := ret, statements := bd } (by simp [armChunks])
      rw [realizes_code rfl] at this
      exact this hod.1
    | succ i =>
      simp only [armChunks, List.map_cons, List.getElem?_cons_succ] at hb
      simp only [List.getElem_cons_succ]
      exact ih (n + 1) (fun q h => hq q (by simp [armChunks, h])) hod.2 i (by simpa using hi) b hb

/-! ### `splitElifs` -/

theorem splitElifs_spec (lastFail : Option Nat) :
    ∀ (elifs : List (BoolExpr × List Stmt)) (ids : List Nat) (s s' : WS) (r : Option Nat),
    ids.length = elifs.length → splitElifs elifs ids lastFail s = .ok (s', r) →
    ∃ nw entries, Grows s s' nw ∧ (∀ q ∈ nw, IsHelper q) ∧ entries.length = elifs.length ∧
      r = (match entries with | e :: _ => some e | [] => lastFail) ∧
      ∀ G, (∀ q ∈ nw, IsHelperIn G q) → ∀ i (hi : i < elifs.length) e b,
        entries[i]? = some e → ids[i]? = some b →
        ImplCond G e (elifs[i]).1 b (armFail entries lastFail i) := by
  intro elifs
  induction elifs with
  | nil =>
    intro ids s s' r _ h
    simp only [splitElifs, Except.ok.injEq, Prod.mk.injEq] at h
    obtain ⟨rfl, rfl⟩ := h
    exact ⟨[], [], Grows.refl s, by simp, rfl, rfl, fun _ _ i hi => by simp at hi⟩
  | cons a restE ih =>
    intro ids s s' r hlen h
    obtain ⟨c, b0⟩ := a
    cases ids with
    | nil => simp at hlen
    | cons id restI =>
      rw [splitElifs] at h
      split at h
      · cases h
      · rename_i s1 nextEntry h1
        split at h
        · cases h
        · rename_i s2 entry h2
          simp only [Except.ok.injEq, Prod.mk.injEq] at h
          obtain ⟨rfl, rfl⟩ := h
          obtain ⟨nw1, entries1, g1, hh1, l1, r1, i1⟩ := ih restI s s1 nextEntry (by simpa using hlen) h1
          obtain ⟨nw2, g2, _, _, hh2, i2⟩ := splitBool_spec c id nextEntry s1 s2 entry h2
          refine ⟨nw1 ++ nw2, entry :: entries1, g1.trans g2, ?_, by simp [l1], rfl, ?_⟩
          · intro q hq
            rcases List.mem_append.1 hq with hq | hq
            · exact hh1 q hq
            · exact hh2 q hq
          · intro G hG i hi e b he hb
            cases i with
            | zero =>
              simp only [List.getElem?_cons_zero, Option.some.injEq] at he hb
              subst he; subst hb
              have : armFail (entry :: entries1) lastFail 0 = nextEntry := by
                rw [r1]; unfold armFail
                cases entries1 <;> simp
              rw [this]
              exact i2 G (fun q hq => hG q (by simp [hq]))
            | succ i =>
              simp only [List.getElem?_cons_succ] at he hb
              have : armFail (entry :: entries1) lastFail (i + 1) = armFail entries1 lastFail i := by
                unfold armFail; simp
              rw [this]
              simp only [List.getElem_cons_succ]
              exact i1 G (fun q hq => hG q (by simp [hq])) i (by simpa using hi) e b he hb

/-! ### `createIf` -/

/-- allocate the next id and queue a code chunk with it -/
def pushNew (s : WS) (ret : Option Nat) (st : List Stmt) : WS :=
  { s with counter := s.counter + 1,
           queue := s.queue ++ [{ id := s.counter + 1, returnID := ret, statements := st }] }

def elseStep (post : Option Nat) (a : WS) : Option (List Stmt) → WS × Option Nat
  | some st => (pushNew a post st, some (a.counter + 1))
  | none => (a, none)

def ifTail (cond : BoolExpr) (elifs : List (BoolExpr × List Stmt)) (ids : List Nat) (consId : Nat)
    (post : Option Nat) (e : WS × Option Nat) : Except EFail (WS × Branch × Option Nat) :=
  match splitElifs elifs ids (match e.2 with | some id => some id | none => post) e.1 with
  | .error err => .error err
  | .ok (s, afterCons) =>
    match splitBool cond consId afterCons s with
    | .error err => .error err
    | .ok (s, entry) => .ok (s, .jump entry, post)

theorem createIf_eq (cond : BoolExpr) (body : List Stmt) (elifs : List (BoolExpr × List Stmt))
    (els : Option (List Stmt)) (c : Chunk) (i : Nat) (s : WS) :
    createIf cond body elifs els c i s =
      ifTail cond elifs
        (elifs.foldl (armStep (splitChunkForBranch c i s).2)
          (pushNew (splitChunkForBranch c i s).1 (splitChunkForBranch c i s).2 body, [])).2
        ((splitChunkForBranch c i s).1.counter + 1) (splitChunkForBranch c i s).2
        (elseStep (splitChunkForBranch c i s).2
          (elifs.foldl (armStep (splitChunkForBranch c i s).2)
            (pushNew (splitChunkForBranch c i s).1 (splitChunkForBranch c i s).2 body, [])).1 els) := by
  cases els <;> rfl

theorem grows_pushNew (s : WS) (ret : Option Nat) (st : List Stmt) :
    Grows s (pushNew s ret st) [{ id := s.counter + 1, returnID := ret, statements := st }] :=
  Grows.allocPush s _ rfl

theorem elseStep_spec (post : Option Nat) (a : WS) (els : Option (List Stmt)) :
    ∃ nw, Grows a (elseStep post a els).1 nw ∧ (∀ q ∈ nw, IsCode q ∧ els = some q.statements) ∧
      qbinders nw = (match els with | some l => bindersL l | none => []) ∧
      (els = none → (elseStep post a els).2 = none) ∧
      (∀ eb, els = some eb → (elseStep post a els).2 = some (a.counter + 1)) ∧
      ∀ G cx, (∀ q ∈ nw, Realizes G cx q) → ∀ eb, els = some eb → OneDefaultL eb →
        Impl G cx (a.counter + 1) 0 eb post := by
  cases els with
  | none =>
    exact ⟨[], Grows.refl a, by simp, rfl, fun _ => rfl, fun _ h => (by cases h), fun _ _ _ _ h => (by cases h)⟩
  | some st =>
    refine ⟨_, grows_pushNew a post st, ?_, ?_, fun h => (by cases h), fun _ _ => rfl, ?_⟩
    · intro q hq; simp only [List.mem_singleton] at hq; subst hq; exact ⟨⟨rfl, rfl⟩, rfl⟩
    · rw [qbinders_cons, qbinders_nil]; simp
    · intro G cx hq eb he hod
      cases he
      have := hq _ (List.mem_singleton.2 rfl)
      rw [realizes_code rfl] at this
      exact this hod

theorem ifTail_spec (cond : BoolExpr) (body : List Stmt) (elifs : List (BoolExpr × List Stmt))
    (ids : List Nat) (consId : Nat) (post : Option Nat) (e : WS × Option Nat) (s' : WS) (br : Branch)
    (ret : Option Nat) (hlen : ids.length = elifs.length)
    (h : ifTail cond elifs ids consId post e = .ok (s', br, ret)) :
    ∃ nw entries, Grows e.1 s' nw ∧ (∀ q ∈ nw, IsHelper q) ∧
      entries.length = ((cond, body) :: elifs).length ∧ br = .jump (entries.headD 0) ∧ ret = post ∧
      ∀ G, (∀ q ∈ nw, IsHelperIn G q) → ∀ i (hi : i < ((cond, body) :: elifs).length) en b,
        entries[i]? = some en → (consId :: ids)[i]? = some b →
        ImplCond G en (((cond, body) :: elifs)[i]).1 b
          (armFail entries (match e.2 with | some id => some id | none => post) i) := by
  unfold ifTail at h
  split at h
  · cases h
  · rename_i s1 afterCons h1
    split at h
    · cases h
    · rename_i s2 entry h2
      simp only [Except.ok.injEq, Prod.mk.injEq] at h
      obtain ⟨rfl, rfl, rfl⟩ := h
      have h3 : splitElifs ((cond, body) :: elifs) (consId :: ids)
          (match e.2 with | some id => some id | none => post) e.1 = .ok (s2, some entry) := by
        rw [splitElifs, h1]; simp only [h2]
      obtain ⟨nw, entries, g, hh, hl, hr, hi⟩ := splitElifs_spec _ _ _ _ _ _ (by simp [hlen]) h3
      refine ⟨nw, entries, g, hh, hl, ?_, rfl, hi⟩
      cases entries with
      | nil => simp at hl
      | cons e0 r => simp only [Option.some.injEq] at hr; simp [hr]

theorem createIf_spec (tok : Tok) (cond : BoolExpr) (body : List Stmt) (elifs : List (BoolExpr × List Stmt))
    (els : Option (List Stmt)) (c : Chunk) (i : Nat) (s s' : WS) (br : Branch) (ret : Option Nat)
    (rest : List Stmt) (hi : i < c.statements.length) (hrest : c.statements.drop (i + 1) = rest)
    (h : createIf cond body elifs els c i s = .ok (s', br, ret)) :
    ∃ nw, Grows s s' nw ∧
      (∀ q ∈ nw, QOK q ∧ (q.statements = [] ∨ q.statements = rest ∨
        q.statements ∈ subBlocks (.ite tok cond body elifs els))) ∧
      (qbinders nw).Perm (binders (.ite tok cond body elifs els) ++ bindersL rest) ∧
      ∀ G cx ch, findChunk G c.id = some ch → ch.branch = br → ch.statements.length = i →
        (∀ q ∈ nw, Realizes G cx q) → OneDefaultL (.ite tok cond body elifs els :: rest) →
        Impl G cx c.id i (.ite tok cond body elifs els :: rest) c.returnID := by
  rw [createIf_eq] at h
  obtain ⟨nsp, gsp, csp, bsp, psp, isp⟩ := splitChunkForBranch_spec c i s rest hi hrest
  generalize splitChunkForBranch c i s = sp at h gsp psp
  obtain ⟨s0, post⟩ := sp
  simp only at h gsp psp
  rw [foldl_armStep] at h
  simp only [List.nil_append] at h
  -- the body chunks of all arms
  have garms : Grows s0 { pushNew s0 post body with
        counter := (pushNew s0 post body).counter + elifs.length,
        queue := (pushNew s0 post body).queue ++ armChunks post (pushNew s0 post body).counter elifs }
      (armChunks post s0.counter ((cond, body) :: elifs)) :=
    (grows_pushNew s0 post body).trans (grows_armChunks post elifs _)
  generalize ha : ({ pushNew s0 post body with
        counter := (pushNew s0 post body).counter + elifs.length,
        queue := (pushNew s0 post body).queue ++ armChunks post (pushNew s0 post body).counter elifs } : WS) = a
    at h garms
  obtain ⟨nel, gel, cel, bel, el1, el2, iel⟩ := elseStep_spec post a els
  obtain ⟨nh, entries, gh, hh, hl, hbr, hret, ih⟩ := ifTail_spec cond body elifs _ _ _ _ _ _ _
    (by rw [List.length_map, armChunks_length]) h
  refine ⟨nsp ++ armChunks post s0.counter ((cond, body) :: elifs) ++ nel ++ nh,
    ((gsp.trans garms).trans gel).trans gh, ?_, ?_, ?_⟩
  · intro q hq
    simp only [List.mem_append] at hq
    rcases hq with ((hq | hq) | hq) | hq
    · exact ⟨(csp q hq).1.qok, .inr (.inl (csp q hq).2)⟩
    · refine ⟨(armChunks_mem _ _ _ q hq).2.2.qok, .inr (.inr ?_)⟩
      have := armChunks_stmts _ _ _ q hq
      simp only [List.map_cons, List.mem_cons] at this
      simp only [subBlocks, List.mem_cons, List.mem_append]
      rcases this with h1 | h1
      · exact .inl h1
      · exact .inr (.inl h1)
    · refine ⟨(cel q hq).1.qok, .inr (.inr ?_)⟩
      simp [subBlocks, (cel q hq).2]
    · exact ⟨(hh q hq).qok, .inl (hh q hq).1⟩
  · simp only [qbinders_append, bsp, qbinders_armChunks, bel,
      qbinders_helpers nh (fun q hq => (hh q hq).1), List.append_nil, binders_ite, bindersE_cons,
      List.append_assoc]
    exact List.perm_append_comm.trans (by simp only [List.append_assoc]; exact List.Perm.refl _)
  · intro G cx ch hG hb hlenI hq hod
    rw [odL_cons, od_ite] at hod
    obtain ⟨⟨od1, od2, od3⟩, od4⟩ := hod
    refine Impl.ite (p := s.counter + 1) (entries := entries)
      (bodies := (armChunks post s0.counter ((cond, body) :: elifs)).map (·.id))
      (elseId := a.counter + 1)
      (elseTarget := (match (elseStep post a els).2 with | some id => some id | none => post))
      hG hlenI psp
      (fun hr => isp G cx (fun q hq' => hq q (by simp [hq'])) hr od4) hl
      (by rw [List.length_map, armChunks_length]) (by rw [hb, hbr]) ?_ ?_ ?_ ?_ ?_
    · intro i hi en b hen hbb
      exact ih G (fun q hq' => (realizes_helper (hh q hq').2.1).1 (hq q (by simp [hq']))) i hi en b hen hbb
    · intro i hi b hbb
      exact armChunks_impl post _ _ (fun q hq' => hq q (by simp [hq'])) ((odE_cons _ _ _).2 ⟨od1, od2⟩) i hi b hbb
    · intro he; rw [el1 he]
    · intro eb he; rw [el2 eb he]
    · intro eb he
      exact iel G cx (fun q hq' => hq q (by simp [hq'])) eb he (by simpa [he] using od3)

/-! ### loops -/

theorem Grows.pushMany {s s' s'' : WS} {nw : List Chunk} (h : Grows s s' nw) (cs : List Chunk)
    (hq : s''.queue = s'.queue ++ cs) (hc : s''.counter = s'.counter) (hf : s''.final = s'.final)
    (hb : s''.brk = s'.brk) (hcn : s''.cont = s'.cont)
    (hids : ∀ q ∈ cs, s.counter < q.id ∧ q.id ≤ s'.counter ∧ q.id ∉ nw.map (·.id))
    (hnd : (cs.map (·.id)).Nodup) : Grows s s'' (nw ++ cs) := by
  refine ⟨hc ▸ h.counter_le, by rw [hq, h.queue_eq, List.append_assoc], hf.trans h.final_eq,
    hb.trans h.brk_eq, hcn.trans h.cont_eq, ?_, ?_⟩
  · intro q hq'
    rw [hc]
    rcases List.mem_append.1 hq' with hq' | hq'
    · exact h.ids q hq'
    · exact ⟨(hids q hq').1, (hids q hq').2.1⟩
  · rw [List.map_append, List.nodup_append]
    refine ⟨h.nodup, hnd, ?_⟩
    intro a ha b hb' e
    obtain ⟨q, hq', rfl⟩ := List.mem_map.1 hb'
    exact (hids q hq').2.2 (e ▸ ha)

/-- common part of `while`, condition-less `while` and `do…while`: two ids are reserved (header,
then body), the condition chunks `nh` are created, then body chunk and header chunk are queued -/
theorem loop_core (s0 s3 s' : WS) (nh : List Chunk) (post : Option Nat) (body : List Stmt) (tgt : Nat)
    (g : Grows { s0 with counter := s0.counter + 1 + 1 } s3 nh) (hh : ∀ q ∈ nh, IsHelper q)
    (hq : s'.queue = s3.queue ++
      [{ id := s0.counter + 1 + 1, returnID := some (s0.counter + 1), statements := body },
       { id := s0.counter + 1, returnID := post, branch := .jump tgt }])
    (hc : s'.counter = s3.counter) (hf : s'.final = s3.final) (hb : s'.brk = s3.brk)
    (hcn : s'.cont = s3.cont) :
    ∃ nw, Grows s0 s' nw ∧ (∀ q ∈ nw, QOK q ∧ (q.statements = [] ∨ q.statements = body)) ∧
      qbinders nw = bindersL body ∧
      ∀ G cx, (∀ q ∈ nw, Realizes G cx q) →
        (OneDefaultL body → Impl G cx (s0.counter + 1 + 1) 0 body (some (s0.counter + 1))) ∧
        jumpChunk G (s0.counter + 1) tgt ∧ (∀ q ∈ nh, IsHelperIn G q) := by
  have g0 : Grows s0 s3 nh := by
    have := ((Grows.reserve s0).trans (Grows.reserve _)).trans g
    simpa using this
  have hcount := g.counter_le
  simp only at hcount
  refine ⟨nh ++ [{ id := s0.counter + 1 + 1, returnID := some (s0.counter + 1), statements := body },
       { id := s0.counter + 1, returnID := post, branch := .jump tgt }],
    g0.pushMany _ hq hc hf hb hcn ?_ (by simp), ?_, ?_, ?_⟩
  · intro q hq'
    have hnot : ∀ k, k ≤ s0.counter + 1 + 1 → k ∉ nh.map (·.id) := by
      intro k hk hm
      obtain ⟨x, hx, rfl⟩ := List.mem_map.1 hm
      have := (g.ids x hx).1; simp only at this; omega
    simp only [List.mem_cons, List.mem_nil_iff, or_false] at hq'
    rcases hq' with rfl | rfl
    · exact ⟨by simp only; omega, by simp only; omega, hnot _ (by simp)⟩
    · exact ⟨by simp only; omega, by simp only; omega, hnot _ (by simp)⟩
  · intro q hq'
    simp only [List.mem_append, List.mem_cons, List.mem_nil_iff, or_false] at hq'
    rcases hq' with hq' | rfl | rfl
    · exact ⟨(hh q hq').qok, .inl (hh q hq').1⟩
    · exact ⟨IsCode.qok ⟨rfl, rfl⟩, .inr rfl⟩
    · exact ⟨IsHelper.qok ⟨rfl, by simp, rfl⟩, .inl rfl⟩
  · rw [qbinders_append, qbinders_helpers nh (fun q hq' => (hh q hq').1), qbinders_cons, qbinders_cons,
      qbinders_nil]
    simp [bindersL_nil]
  · intro G cx hq'
    refine ⟨?_, ?_, ?_⟩
    · have := hq' { id := s0.counter + 1 + 1, returnID := some (s0.counter + 1), statements := body } (by simp)
      rw [realizes_code rfl] at this
      exact this
    · have := hq' { id := s0.counter + 1, returnID := post, branch := .jump tgt } (by simp)
      rw [realizes_helper (by simp)] at this
      obtain ⟨ch, h1, h2, h3⟩ := this
      exact ⟨ch, h1, h2, h3⟩
    · intro q hq''
      exact (realizes_helper (hh q hq'').2.1).1 (hq' q (by simp [hq'']))

theorem createWhile_spec (tok : Tok) (sid : Nat) (cond : Option BoolExpr) (body : List Stmt) (c : Chunk)
    (i : Nat) (s s' : WS) (br : Branch) (ret : Option Nat) (contId : Nat) (rest : List Stmt)
    (hi : i < c.statements.length) (hrest : c.statements.drop (i + 1) = rest)
    (h : createWhile cond body c i s = .ok (s', br, ret, contId)) :
    ∃ nw, Grows s s' nw ∧
      (∀ q ∈ nw, QOK q ∧ (q.statements = [] ∨ q.statements = rest ∨
        q.statements ∈ subBlocks (.while_ tok sid cond body))) ∧
      (qbinders nw).Perm (bindersL body ++ bindersL rest) ∧
      ∀ G cx ch, findChunk G c.id = some ch → ch.branch = br → ch.statements.length = i →
        cx.brk sid = ret → cx.cont sid = some contId →
        (∀ q ∈ nw, Realizes G cx q) → OneDefaultL (.while_ tok sid cond body :: rest) →
        Impl G cx c.id i (.while_ tok sid cond body :: rest) c.returnID := by
  unfold createWhile at h
  simp only [alloc] at h
  obtain ⟨nsp, gsp, csp, bsp, psp, isp⟩ := splitChunkForBranch_spec c i s rest hi hrest
  generalize splitChunkForBranch c i s = sp at h gsp psp
  obtain ⟨s0, post⟩ := sp
  simp only at h gsp psp
  cases cond with
  | none =>
    simp only [Except.ok.injEq, Prod.mk.injEq] at h
    obtain ⟨hs, rfl, rfl, rfl⟩ := h
    obtain ⟨nl, gl, cl, bl, il⟩ := loop_core s0 { s0 with counter := s0.counter + 1 + 1 } s' [] post body
      (s0.counter + 1 + 1) (Grows.refl _) (by simp) (by rw [← hs]) (by rw [← hs]) (by rw [← hs])
      (by rw [← hs]) (by rw [← hs])
    refine ⟨nsp ++ nl, gsp.trans gl, ?_, ?_, ?_⟩
    · intro q hq
      rcases List.mem_append.1 hq with hq | hq
      · exact ⟨(csp q hq).1.qok, .inr (.inl (csp q hq).2)⟩
      · refine ⟨(cl q hq).1, ?_⟩
        rcases (cl q hq).2 with h1 | h1
        · exact .inl h1
        · exact .inr (.inr (by simp [subBlocks, h1]))
    · rw [qbinders_append, bsp, bl]; exact List.perm_append_comm
    · intro G cx ch hG hb hlenI hbrk hcont hq hod
      rw [odL_cons, od_while] at hod
      obtain ⟨i1, i2, _⟩ := il G cx (fun q hq' => hq q (by simp [hq']))
      exact Impl.whileInf (p := s.counter + 1) hG hlenI hb psp
        (fun hr => isp G cx (fun q hq' => hq q (by simp [hq'])) hr hod.2) hbrk hcont (i1 hod.1) i2
  | some e =>
    simp only at h
    split at h
    · cases h
    · rename_i s3 entry h3
      simp only [Except.ok.injEq, Prod.mk.injEq] at h
      obtain ⟨hs, rfl, rfl, rfl⟩ := h
      obtain ⟨nh, gh, _, _, hh, ih⟩ := splitBool_spec _ _ _ _ _ _ h3
      obtain ⟨nl, gl, cl, bl, il⟩ := loop_core s0 s3 s' nh post body entry gh hh (by rw [← hs])
        (by rw [← hs]) (by rw [← hs]) (by rw [← hs]) (by rw [← hs])
      refine ⟨nsp ++ nl, gsp.trans gl, ?_, ?_, ?_⟩
      · intro q hq
        rcases List.mem_append.1 hq with hq | hq
        · exact ⟨(csp q hq).1.qok, .inr (.inl (csp q hq).2)⟩
        · refine ⟨(cl q hq).1, ?_⟩
          rcases (cl q hq).2 with h1 | h1
          · exact .inl h1
          · exact .inr (.inr (by simp [subBlocks, h1]))
      · rw [qbinders_append, bsp, bl]; exact List.perm_append_comm
      · intro G cx ch hG hb hlenI hbrk hcont hq hod
        rw [odL_cons, od_while] at hod
        obtain ⟨i1, i2, i3⟩ := il G cx (fun q hq' => hq q (by simp [hq']))
        exact Impl.while_ (p := s.counter + 1) hG hlenI hb psp
          (fun hr => isp G cx (fun q hq' => hq q (by simp [hq'])) hr hod.2) hbrk hcont (i1 hod.1) i2
          (ih G i3)

theorem createDoWhile_spec (tok : Tok) (sid : Nat) (cond : BoolExpr) (body : List Stmt) (c : Chunk)
    (i : Nat) (s s' : WS) (br : Branch) (ret : Option Nat) (contId : Nat) (rest : List Stmt)
    (hi : i < c.statements.length) (hrest : c.statements.drop (i + 1) = rest)
    (h : createDoWhile cond body c i s = .ok (s', br, ret, contId)) :
    ∃ nw, Grows s s' nw ∧
      (∀ q ∈ nw, QOK q ∧ (q.statements = [] ∨ q.statements = rest ∨
        q.statements ∈ subBlocks (.doWhile tok sid cond body))) ∧
      (qbinders nw).Perm (bindersL body ++ bindersL rest) ∧
      ∀ G cx ch, findChunk G c.id = some ch → ch.branch = br → ch.statements.length = i →
        cx.brk sid = ret → cx.cont sid = some contId →
        (∀ q ∈ nw, Realizes G cx q) → OneDefaultL (.doWhile tok sid cond body :: rest) →
        Impl G cx c.id i (.doWhile tok sid cond body :: rest) c.returnID := by
  unfold createDoWhile at h
  simp only [alloc] at h
  obtain ⟨nsp, gsp, csp, bsp, psp, isp⟩ := splitChunkForBranch_spec c i s rest hi hrest
  generalize splitChunkForBranch c i s = sp at h gsp psp
  obtain ⟨s0, post⟩ := sp
  simp only at h gsp psp
  split at h
  · cases h
  · rename_i s3 entry h3
    simp only [Except.ok.injEq, Prod.mk.injEq] at h
    obtain ⟨hs, rfl, rfl, rfl⟩ := h
    obtain ⟨nh, gh, _, _, hh, ih⟩ := splitBool_spec _ _ _ _ _ _ h3
    obtain ⟨nl, gl, cl, bl, il⟩ := loop_core s0 s3 s' nh post body entry gh hh (by rw [← hs])
      (by rw [← hs]) (by rw [← hs]) (by rw [← hs]) (by rw [← hs])
    refine ⟨nsp ++ nl, gsp.trans gl, ?_, ?_, ?_⟩
    · intro q hq
      rcases List.mem_append.1 hq with hq | hq
      · exact ⟨(csp q hq).1.qok, .inr (.inl (csp q hq).2)⟩
      · refine ⟨(cl q hq).1, ?_⟩
        rcases (cl q hq).2 with h1 | h1
        · exact .inl h1
        · exact .inr (.inr (by simp [subBlocks, h1]))
    · rw [qbinders_append, bsp, bl]; exact List.perm_append_comm
    · intro G cx ch hG hb hlenI hbrk hcont hq hod
      rw [odL_cons, od_doWhile] at hod
      obtain ⟨i1, i2, i3⟩ := il G cx (fun q hq' => hq q (by simp [hq']))
      exact Impl.doWhile (p := s.counter + 1) hG hlenI hb psp
        (fun hr => isp G cx (fun q hq' => hq q (by simp [hq'])) hr hod.2) hbrk hcont (i1 hod.1) i2
        (ih G i3)

/-! ### `switch` -/

theorem switchBodies_cons_pos (ret : Option Nat) (v : Tok) (d : Bool) (body : List Stmt)
    (r : List SwitchCase) (s : WS) (h : body.length > 0) :
    switchBodies ret ((v, d, body) :: r) s =
      ((switchBodies ret r (pushNew s ret body)).1,
       some (s.counter + 1) :: (switchBodies ret r (pushNew s ret body)).2) := by
  rw [switchBodies, if_pos h]; rfl

theorem switchBodies_cons_neg (ret : Option Nat) (v : Tok) (d : Bool) (body : List Stmt)
    (r : List SwitchCase) (s : WS) (h : ¬ body.length > 0) :
    switchBodies ret ((v, d, body) :: r) s =
      ((switchBodies ret r s).1, none :: (switchBodies ret r s).2) := by
  rw [switchBodies, if_neg h]

theorem switchBodies_spec (ret : Option Nat) : ∀ (cases : List SwitchCase) (s : WS),
    ∃ nw, Grows s (switchBodies ret cases s).1 nw ∧
      (∀ q ∈ nw, IsCode q ∧ q.statements ∈ cases.map (·.2.2)) ∧
      qbinders nw = bindersC cases ∧
      (switchBodies ret cases s).2.length = cases.length ∧
      (((switchBodies ret cases s).2.all (·.isNone)) = true ↔ ∀ c ∈ cases, c.2.2 = []) ∧
      (∀ i (hi : i < cases.length),
        ((switchBodies ret cases s).2[i]? = some none ↔ (cases[i]).2.2 = [])) ∧
      ∀ G cx, (∀ q ∈ nw, Realizes G cx q) → OneDefaultC cases → ∀ i (hi : i < cases.length) b,
        (switchBodies ret cases s).2[i]? = some (some b) → Impl G cx b 0 (cases[i]).2.2 ret := by
  intro cases
  induction cases with
  | nil =>
    intro s
    exact ⟨[], Grows.refl s, by simp, rfl, rfl, by simp [switchBodies],
      fun i hi => by simp at hi, fun _ _ _ _ i hi => by simp at hi⟩
  | cons c r ih =>
    intro s
    obtain ⟨v, d, body⟩ := c
    by_cases hb : body.length > 0
    · rw [switchBodies_cons_pos ret v d body r s hb]
      obtain ⟨nw, g, hc, hbd, hl, hall, hiff, himp⟩ := ih (pushNew s ret body)
      have hne : body ≠ [] := by intro e; simp [e] at hb
      refine ⟨{ id := s.counter + 1, returnID := ret, statements := body } :: nw,
        (grows_pushNew s ret body).trans g, ?_, ?_, by simp [hl], ?_, ?_, ?_⟩
      · intro q hq
        simp only [List.mem_cons] at hq
        rcases hq with rfl | hq
        · exact ⟨⟨rfl, rfl⟩, by simp⟩
        · exact ⟨(hc q hq).1, by simp only [List.map_cons, List.mem_cons]; exact .inr (hc q hq).2⟩
      · rw [qbinders_cons, hbd, bindersC_cons]
      · simp only [List.all_cons, Option.isNone_some, Bool.false_and, Bool.false_eq_true, false_iff]
        intro h; exact hne (h (v, d, body) (by simp))
      · intro i hi
        cases i with
        | zero => simp [hne]
        | succ i =>
          simp only [List.getElem?_cons_succ, List.getElem_cons_succ]
          exact hiff i (by simpa using hi)
      · intro G cx hq hod i hi b hbb
        rw [odC_cons] at hod
        cases i with
        | zero =>
          simp only [List.getElem?_cons_zero, Option.some.injEq] at hbb
          subst hbb
          have := hq { id := s.counter + 1, returnID := ret, statements := body } (by simp)
          rw [realizes_code rfl] at this
          exact this hod.1
        | succ i =>
          simp only [List.getElem?_cons_succ] at hbb
          simp only [List.getElem_cons_succ]
          exact himp G cx (fun q h => hq q (by simp [h])) hod.2 i (by simpa using hi) b hbb
    · rw [switchBodies_cons_neg ret v d body r s hb]
      obtain ⟨nw, g, hc, hbd, hl, hall, hiff, himp⟩ := ih s
      have he : body = [] := by
        cases body with
        | nil => rfl
        | cons x y => simp at hb
      subst he
      refine ⟨nw, g, fun q hq => ⟨(hc q hq).1, by
        simp only [List.map_cons, List.mem_cons]; exact .inr (hc q hq).2⟩, ?_, by simp [hl], ?_, ?_, ?_⟩
      · rw [hbd, bindersC_cons, bindersL_nil]; rfl
      · simp only [List.all_cons, Option.isNone_none, Bool.true_and, hall, List.mem_cons, forall_eq_or_imp,
          true_and]
      · intro i hi
        cases i with
        | zero => simp
        | succ i =>
          simp only [List.getElem?_cons_succ, List.getElem_cons_succ]
          exact hiff i (by simpa using hi)
      · intro G cx hq hod i hi b hbb
        rw [odC_cons] at hod
        cases i with
        | zero => simp at hbb
        | succ i =>
          simp only [List.getElem?_cons_succ] at hbb
          simp only [List.getElem_cons_succ]
          exact himp G cx hq hod.2 i (by simpa using hi) b hbb

def emptyStep (post : Option Nat) (need : Bool) (s : WS) : WS × Nat :=
  if need then
    ({ s with counter := s.counter + 1, queue := s.queue ++ [{ id := s.counter + 1, returnID := post }] },
     s.counter + 1)
  else (s, 0)

/-- allocate the next id and queue an empty code chunk with it -/
def pushEmpty (s : WS) (post : Option Nat) : WS :=
  { s with counter := s.counter + 1, queue := s.queue ++ [{ id := s.counter + 1, returnID := post }] }

def switchTail (operand : Tok) (cases : List SwitchCase) (post : Option Nat) (qlen swId : Nat)
    (sb : WS × List (Option Nat)) : WS × Branch × Option Nat × Nat :=
  if sb.2.all (·.isNone) then (sb.1, .jump swId, post, swId)
  else
    let es := emptyStep post (switchNeedsEmpty cases (propagateBack sb.2)) sb.1
    let s1 := es.1
    ({ s1 with
        queue := s1.queue.modify qlen
          fun ch => { ch with branch := switchBranchOf operand cases (propagateBack sb.2) es.2 post } },
     .jump swId, post, swId)

theorem createSwitch_eq (operand : Tok) (cases : List SwitchCase) (c : Chunk) (i : Nat) (s : WS) :
    createSwitch operand cases c i s =
      switchTail operand cases (splitChunkForBranch c i s).2 (splitChunkForBranch c i s).1.queue.length
        ((splitChunkForBranch c i s).1.counter + 1)
        (switchBodies (splitChunkForBranch c i s).2 cases
          (pushEmpty (splitChunkForBranch c i s).1 (splitChunkForBranch c i s).2)) := by
  rfl

theorem emptyStep_spec (post : Option Nat) (need : Bool) (s : WS) :
    ∃ ne, Grows s (emptyStep post need s).1 ne ∧ (∀ q ∈ ne, IsCode q ∧ q.statements = []) ∧
      qbinders ne = [] ∧
      ∀ G cx, (∀ q ∈ ne, Realizes G cx q) → need = true →
        Impl G cx (emptyStep post need s).2 0 [] post := by
  unfold emptyStep
  cases need with
  | false => exact ⟨[], Grows.refl s, by simp, rfl, fun _ _ _ h => by cases h⟩
  | true =>
    refine ⟨[{ id := s.counter + 1, returnID := post }], Grows.allocPush s _ rfl, ?_, ?_, ?_⟩
    · intro q hq; simp only [List.mem_singleton] at hq; subst hq; exact ⟨⟨rfl, rfl⟩, rfl⟩
    · rw [qbinders_cons, qbinders_nil]; rfl
    · intro G cx hq _
      have := hq _ (List.mem_singleton.2 rfl)
      rw [realizes_code rfl] at this
      exact this odL_nil

theorem modify_append_cons {α} (l1 l2 : List α) (x : α) (f : α → α) :
    (l1 ++ x :: l2).modify l1.length f = l1 ++ f x :: l2 := by
  induction l1 with
  | nil => simp
  | cons a r ih => simp [ih]

theorem Grows.modifyAt {s s' s'' : WS} {a b : List Chunk} {x y : Chunk} (h : Grows s s' (a ++ x :: b))
    (hid : y.id = x.id) (hq : s''.queue = s.queue ++ (a ++ y :: b)) (hc : s''.counter = s'.counter)
    (hf : s''.final = s'.final) (hb : s''.brk = s'.brk) (hcn : s''.cont = s'.cont) :
    Grows s s'' (a ++ y :: b) := by
  refine ⟨hc ▸ h.counter_le, hq, hf.trans h.final_eq, hb.trans h.brk_eq, hcn.trans h.cont_eq, ?_, ?_⟩
  · intro q hq'
    rw [hc]
    simp only [List.mem_append, List.mem_cons] at hq'
    rcases hq' with hq' | rfl | hq'
    · exact h.ids q (by simp [hq'])
    · rw [hid]; exact h.ids x (by simp)
    · exact h.ids q (by simp [hq'])
  · have := h.nodup
    simpa [hid] using this

theorem switchBranchOf_ne_none (operand : Tok) (cases : List SwitchCase) (ids : List (Option Nat))
    (e : Nat) (r : Option Nat) : switchBranchOf operand cases ids e r ≠ .none := by
  simp [switchBranchOf]

theorem createSwitch_spec (tok : Tok) (sid : Nat) (operand : Tok) (cases : List SwitchCase) (c : Chunk)
    (i : Nat) (s s' : WS) (br : Branch) (ret : Option Nat) (swId : Nat) (rest : List Stmt)
    (hi : i < c.statements.length) (hrest : c.statements.drop (i + 1) = rest)
    (h : createSwitch operand cases c i s = (s', br, ret, swId)) :
    ∃ nw, Grows s s' nw ∧
      (∀ q ∈ nw, QOK q ∧ (q.statements = [] ∨ q.statements = rest ∨
        q.statements ∈ subBlocks (.switch_ tok sid operand cases))) ∧
      (qbinders nw).Perm (bindersC cases ++ bindersL rest) ∧
      ∀ G cx ch, findChunk G c.id = some ch → ch.branch = br → ch.statements.length = i →
        cx.brk sid = ret →
        (∀ q ∈ nw, Realizes G cx q) → OneDefaultL (.switch_ tok sid operand cases :: rest) →
        Impl G cx c.id i (.switch_ tok sid operand cases :: rest) c.returnID := by
  rw [createSwitch_eq] at h
  obtain ⟨nsp, gsp, csp, bsp, psp, isp⟩ := splitChunkForBranch_spec c i s rest hi hrest
  generalize splitChunkForBranch c i s = sp at h gsp psp
  obtain ⟨s0, post⟩ := sp
  simp only at h gsp psp
  have gsw : Grows s0 (pushEmpty s0 post) [{ id := s0.counter + 1, returnID := post }] :=
    Grows.allocPush s0 _ rfl
  obtain ⟨nb, gb, cb, bb, lb, allb, iffb, impb⟩ := switchBodies_spec post cases (pushEmpty s0 post)
  generalize switchBodies post cases (pushEmpty s0 post) = sb at h gb lb allb iffb impb
  obtain ⟨s1, ids0⟩ := sb
  simp only at h gb lb allb iffb impb
  unfold switchTail at h
  by_cases hall : ids0.all (·.isNone) = true
  · -- all bodies empty
    rw [if_pos hall] at h
    simp only [Prod.mk.injEq] at h
    obtain ⟨rfl, rfl, rfl, rfl⟩ := h
    refine ⟨nsp ++ [{ id := s0.counter + 1, returnID := post }] ++ nb, (gsp.trans gsw).trans gb, ?_, ?_, ?_⟩
    · intro q hq
      simp only [List.mem_append, List.mem_singleton] at hq
      rcases hq with (hq | rfl) | hq
      · exact ⟨(csp q hq).1.qok, .inr (.inl (csp q hq).2)⟩
      · exact ⟨IsCode.qok ⟨rfl, rfl⟩, .inl rfl⟩
      · exact ⟨(cb q hq).1.qok, .inr (.inr (cb q hq).2)⟩
    · simp only [qbinders_append, bsp, bb, qbinders_cons, qbinders_nil, bindersL_nil, List.append_nil]
      exact List.perm_append_comm
    · intro G cx ch hG hbr hlenI hbrk hq hod
      rw [odL_cons] at hod
      have hsw := hq { id := s0.counter + 1, returnID := post } (by simp)
      rw [realizes_code rfl] at hsw
      have hsw := hsw odL_nil
      simp only at hsw
      cases hsw with
      | nil f1 f2 f3 f4 f5 =>
        exact Impl.switchEmpty (p := s.counter + 1) hG hlenI hbr psp
          (fun hr => isp G cx (fun q hq' => hq q (by simp [hq'])) hr hod.2) hbrk (allb.1 hall)
          f1 (List.eq_nil_of_length_eq_zero f2) f3 f4 f5
  · -- some case has a body
    rw [if_neg hall] at h
    simp only [Prod.mk.injEq] at h
    obtain ⟨hs', rfl, rfl, rfl⟩ := h
    obtain ⟨ne, ge, ce, be, ie⟩ := emptyStep_spec post (switchNeedsEmpty cases (propagateBack ids0)) s1
    generalize emptyStep post (switchNeedsEmpty cases (propagateBack ids0)) s1 = es at hs' ge ie
    obtain ⟨s2, eid⟩ := es
    simp only at hs' ge ie
    have g2 : Grows s s2 (nsp ++ { id := s0.counter + 1, returnID := post } :: (nb ++ ne)) := by
      have := ((gsp.trans gsw).trans gb).trans ge
      simpa [List.append_assoc] using this
    have hq0 : s0.queue = s.queue ++ nsp := gsp.queue_eq
    have g' : Grows s s' (nsp ++ { id := s0.counter + 1, returnID := post, branch := switchBranchOf operand cases (propagateBack ids0) eid post } :: (nb ++ ne)) := by
      refine g2.modifyAt rfl ?_ (by rw [← hs']) (by rw [← hs']) (by rw [← hs']) (by rw [← hs'])
      rw [← hs']
      simp only
      rw [g2.queue_eq, hq0, ← List.append_assoc, modify_append_cons,
        List.append_assoc]
    refine ⟨_, g', ?_, ?_, ?_⟩
    · intro q hq
      simp only [List.mem_append, List.mem_cons] at hq
      rcases hq with hq | rfl | hq | hq
      · exact ⟨(csp q hq).1.qok, .inr (.inl (csp q hq).2)⟩
      · exact ⟨IsHelper.qok ⟨rfl, switchBranchOf_ne_none _ _ _ _ _, rfl⟩, .inl rfl⟩
      · exact ⟨(cb q hq).1.qok, .inr (.inr (cb q hq).2)⟩
      · exact ⟨(ce q hq).1.qok, .inl (ce q hq).2⟩
    · simp only [qbinders_append, bsp, bb, be, qbinders_cons, bindersL_nil, List.append_nil,
        List.nil_append]
      exact List.perm_append_comm
    · intro G cx ch hG hbr hlenI hbrk hq hod
      rw [odL_cons, od_switch] at hod
      have hsw := hq { id := s0.counter + 1, returnID := post, branch := switchBranchOf operand cases (propagateBack ids0) eid post } (by simp)
      rw [realizes_helper (switchBranchOf_ne_none _ _ _ _ _)] at hsw
      obtain ⟨sw, w1, w2, w3⟩ := hsw
      have hex : ∃ c ∈ cases, c.2.2 ≠ [] := by
        apply Classical.byContradiction
        intro hn
        apply hall
        rw [allb]
        intro c hc
        apply Classical.byContradiction
        intro hne
        exact hn ⟨c, hc, hne⟩
      exact Impl.switch_ (p := s.counter + 1) (bodyIds0 := ids0) (emptyId := eid) hG hlenI hbr psp
        (fun hr => isp G cx (fun q hq' => hq q (by simp [hq'])) hr hod.2) hbrk lb iffb
        (impb G cx (fun q hq' => hq q (by simp [hq'])) hod.1.2) hex hod.1.1
        (ie G cx (fun q hq' => hq q (by simp [hq'])))
        w1 w2 w3

end Pory.Emit
