import PoryProofs.ParserScopes
import PoryProofs.WorklistBase
/-
Bridge between the parser-side and the worklist-side static predicates.

The parser proofs (`PoryProofs/ParserScopes.lean`, namespace `Pory.Parser`) and the worklist proofs
(`PoryProofs/WorklistBase.lean`, namespace `Pory.Emit`) each define, by the same mutual recursion
over `Stmt` / `List Stmt` / elif arms / switch cases,
* the list of scope ids bound in a statement list (`bindersL`), and
* "every `switch` has at most one `default`" (`Parser.OneDefault` / `Emit.OneDefaultL`).
They are equal / equivalent (the only differences: association of `++` in the `if` case, and
`numDefaults` being unfolded on the worklist side):

* `bindersL_eq      : Parser.bindersL l = Emit.bindersL l`
* `oneDefault_iff   : Parser.OneDefault l ↔ Emit.OneDefaultL l`
* `scopeIdsDistinct_of_parser : (Parser.bindersL l).Nodup → Emit.ScopeIdsDistinct l`
-/
namespace Pory.ScopeBridge
open Pory

mutual
theorem binders_eq : (s : Stmt) → Parser.binders s = Emit.binders s
  | .cmd _ => by simp [Parser.binders, Emit.binders]
  | .label .. => by simp [Parser.binders, Emit.binders]
  | .ite tok c t elifs els => by
    rw [Parser.binders_ite, Emit.binders_ite, bindersL_eq t, bindersE_eq elifs, List.append_assoc]
    exact congrArg _ (congrArg _ (match els with
      | none => rfl
      | some e => bindersL_eq e))
  | .while_ _ sid _ b => by simp [Parser.binders, Emit.binders, bindersL_eq b]
  | .doWhile _ sid _ b => by simp [Parser.binders, Emit.binders, bindersL_eq b]
  | .brk .. => by simp [Parser.binders, Emit.binders]
  | .cont .. => by simp [Parser.binders, Emit.binders]
  | .switch_ _ sid _ cs => by simp [Parser.binders, Emit.binders, bindersC_eq cs]
theorem bindersL_eq : (l : List Stmt) → Parser.bindersL l = Emit.bindersL l
  | [] => by simp [Parser.bindersL, Emit.bindersL]
  | s :: r => by simp [Parser.bindersL, Emit.bindersL, binders_eq s, bindersL_eq r]
theorem bindersE_eq : (l : List (BoolExpr × List Stmt)) → Parser.bindersE l = Emit.bindersE l
  | [] => by simp [Parser.bindersE, Emit.bindersE]
  | (_, b) :: r => by simp [Parser.bindersE, Emit.bindersE, bindersL_eq b, bindersE_eq r]
theorem bindersC_eq : (l : List SwitchCase) → Parser.bindersC l = Emit.bindersC l
  | [] => by simp [Parser.bindersC, Emit.bindersC]
  | (_, _, b) :: r => by simp [Parser.bindersC, Emit.bindersC, bindersL_eq b, bindersC_eq r]
end

mutual
theorem odStmt_iff : (s : Stmt) → (Parser.odStmt s ↔ Emit.OneDefault s)
  | .cmd _ => by simp [Parser.odStmt, Emit.OneDefault]
  | .label .. => by simp [Parser.odStmt, Emit.OneDefault]
  | .ite tok c t elifs els => by
    rw [Parser.odStmt_ite, Emit.od_ite, odStmts_iff t, odElifs_iff elifs]
    exact and_congr_right' (and_congr_right' (match els with
      | none => Iff.rfl
      | some e => odStmts_iff e))
  | .while_ _ _ _ b => by rw [Emit.od_while]; simp only [Parser.odStmt]; exact odStmts_iff b
  | .doWhile _ _ _ b => by rw [Emit.od_doWhile]; simp only [Parser.odStmt]; exact odStmts_iff b
  | .brk .. => by simp [Parser.odStmt, Emit.OneDefault]
  | .cont .. => by simp [Parser.odStmt, Emit.OneDefault]
  | .switch_ _ _ _ cs => by
    rw [Emit.od_switch]
    simp only [Parser.odStmt, Parser.numDefaults]
    exact and_congr_right' (odCases_iff cs)
theorem odStmts_iff : (l : List Stmt) → (Parser.odStmts l ↔ Emit.OneDefaultL l)
  | [] => by simp [Parser.odStmts, Emit.OneDefaultL]
  | s :: r => by
    rw [Emit.odL_cons]; simp only [Parser.odStmts]
    exact and_congr (odStmt_iff s) (odStmts_iff r)
theorem odElifs_iff : (l : List (BoolExpr × List Stmt)) → (Parser.odElifs l ↔ Emit.OneDefaultE l)
  | [] => by simp [Parser.odElifs, Emit.OneDefaultE]
  | (c, b) :: r => by
    rw [Emit.odE_cons]; simp only [Parser.odElifs]
    exact and_congr (odStmts_iff b) (odElifs_iff r)
theorem odCases_iff : (l : List SwitchCase) → (Parser.odCases l ↔ Emit.OneDefaultC l)
  | [] => by simp [Parser.odCases, Emit.OneDefaultC]
  | (v, d, b) :: r => by
    rw [Emit.odC_cons]; simp only [Parser.odCases]
    exact and_congr (odStmts_iff b) (odCases_iff r)
end

/-- the parser's and the worklist's "at most one `default` per switch" agree -/
theorem oneDefault_iff (l : List Stmt) : Parser.OneDefault l ↔ Emit.OneDefaultL l := odStmts_iff l

/-- the parser's distinctness of scope ids is the worklist's `ScopeIdsDistinct` -/
theorem scopeIdsDistinct_of_parser {l : List Stmt} (h : (Parser.bindersL l).Nodup) :
    Emit.ScopeIdsDistinct l := by
  unfold Emit.ScopeIdsDistinct
  rw [← bindersL_eq]
  exact h

/-- non-vacuity: a body with a loop, a nested switch with a default, and an `if` -/
example : let body : List Stmt :=
    [ .while_ {} 1 none [.switch_ {} 2 {} [({}, false, [.brk {} 2]), ({}, true, [])]],
      .ite {} (.leaf {}) [.doWhile {} 3 (.leaf {}) []] [] none ]
    Parser.bindersL body = [1, 2, 3] ∧ Emit.bindersL body = [1, 2, 3] ∧ Emit.ScopeIdsDistinct body := by
  intro body
  have h : Parser.bindersL body = [1, 2, 3] := by
    simp [body, Parser.bindersL, Parser.binders, Parser.bindersC, Parser.bindersE]
  exact ⟨h, (bindersL_eq body) ▸ h, scopeIdsDistinct_of_parser (by rw [h]; decide)⟩

#print axioms bindersL_eq
#print axioms oneDefault_iff

end Pory.ScopeBridge
