import PoryProofs.LexPrintLoop
import PoryProofs.BoolParse
/-
Helpers for L1 (`PoryProofs/Properties/L1.lean`), part 3: the printed tokens of the boolean reference
grammar (`C02P.SOr`, PoryProofs/BoolParse.lean) are renderable.

* `Good t`: `TokOK t` and `t` is neither a `STRING` nor a `STRINGTYPE` token;
* `okLeaf` / `okOr` / `okAnd` / `okUn` (Boolean, hence decidable): every operand name of the
  expression is an identifier that is not a keyword (`TokOK (tk .IDENT x)`) and every comparison value
  is a `TokOK` `INT` / `IDENT` token — conditions on the NAMES in `g`; the positions and the operator /
  keyword / parenthesis tokens need no condition;
* `printOr_good`: then every printed token is `Good`;
* `adjOK_append_good`: a list of `Good` tokens may be put in front of any `AdjOK` list.
-/
namespace Pory.L1
open Pory Pory.C02P

/-- renderable, and not part of a string literal -/
def Good (t : Tok) : Prop := TokOK t ∧ t.type ≠ .STRING ∧ t.type ≠ .STRINGTYPE

/-- `TokOK` looks at type and literal only. -/
theorem tokOK_congr {t t' : Tok} (h1 : t.type = t'.type) (h2 : t.lit = t'.lit) :
    TokOK t ↔ TokOK t' := by
  unfold TokOK tokOK tokOKw
  rw [h1, h2]

theorem good_tkp (p : TPos) (ty : TT) (l : String) (h : Good (tk ty l)) : Good (tkp p ty l) :=
  ⟨(tokOK_congr rfl rfl).1 h.1, h.2⟩

/-- an operand name: an identifier that is not a keyword -/
def nameOK (x : String) : Bool := decide (TokOK (tk .IDENT x))
/-- a comparison value: a renderable `INT` / `IDENT` token -/
def valOK (v : Val) : Bool := decide (TokOK (v.tok {}))

def okLeaf : Leaf → Bool
  | .flagBare _ _ x => nameOK x
  | .flagNot _ _ x => nameOK x
  | .flagCmp _ _ x _ _ => nameOK x
  | .varBare _ x => nameOK x
  | .varNot _ x => nameOK x
  | .varCmp _ x _ n => nameOK x && valOK n

mutual
def okOr : SOr → Bool
  | .one a => okAnd a
  | .more a _ r => okAnd a && okOr r
def okAnd : SAnd → Bool
  | .one u => okUn u
  | .more u _ r => okUn u && okAnd r
def okUn : SUn → Bool
  | .leaf lf => okLeaf lf
  | .paren _ _ _ _ e => okOr e
end

theorem good_fixed : ∀ p ∈ [(TT.NOT, "!"), (TT.LPAREN, "("), (TT.RPAREN, ")"), (TT.OR, "||"), (TT.AND, "&&"),
    (TT.EQ, "=="), (TT.NEQ, "!="), (TT.LT, "<"), (TT.LTE, "<="), (TT.GT, ">"), (TT.GTE, ">="),
    (TT.FLAG, "flag"), (TT.DEFEATED, "defeated"), (TT.VAR, "var"), (TT.TRUE, "TRUE"), (TT.FALSE, "FALSE")],
    Good (tk p.1 p.2) := by
  have : ∀ p ∈ [(TT.NOT, "!"), (TT.LPAREN, "("), (TT.RPAREN, ")"), (TT.OR, "||"), (TT.AND, "&&"),
      (TT.EQ, "=="), (TT.NEQ, "!="), (TT.LT, "<"), (TT.LTE, "<="), (TT.GT, ">"), (TT.GTE, ">="),
      (TT.FLAG, "flag"), (TT.DEFEATED, "defeated"), (TT.VAR, "var"), (TT.TRUE, "TRUE"), (TT.FALSE, "FALSE")],
      tokOKfast (tk p.1 p.2) = true ∧ p.1 ≠ TT.STRING ∧ p.1 ≠ TT.STRINGTYPE := by decide +kernel
  intro p hp
  exact ⟨TokOK.of_fast (this p hp).1, (this p hp).2⟩

theorem good_name (p : TPos) (x : String) (h : nameOK x = true) : Good (tkp p .IDENT x) :=
  good_tkp p .IDENT x
    ⟨of_decide_eq_true h, (by decide : TT.IDENT ≠ .STRING), (by decide : TT.IDENT ≠ .STRINGTYPE)⟩

theorem good_val (p : TPos) (v : Val) (h : valOK v = true) : Good (v.tok p) := by
  have h' : TokOK (v.tok {}) := of_decide_eq_true h
  refine ⟨(tokOK_congr rfl rfl).1 h', ?_⟩
  cases v with
  | mk isInt lit =>
    cases isInt
    · exact ⟨(by decide : TT.IDENT ≠ .STRING), (by decide : TT.IDENT ≠ .STRINGTYPE)⟩
    · exact ⟨(by decide : TT.INT ≠ .STRING), (by decide : TT.INT ≠ .STRINGTYPE)⟩

theorem good_kind (p : TPos) (d : Bool) : Good (kindTok p d) := by
  cases d
  · exact good_tkp p _ _ (good_fixed (.FLAG, "flag") (by decide))
  · exact good_tkp p _ _ (good_fixed (.DEFEATED, "defeated") (by decide))

theorem good_operand (ps : Nat → TPos) (i : Nat) (x : String) (h : nameOK x = true) :
    ∀ t ∈ operandToks ps i x, Good t := by
  intro t ht
  simp only [operandToks, List.mem_cons, List.not_mem_nil, or_false] at ht
  rcases ht with rfl | rfl | rfl
  · exact good_tkp _ _ _ (good_fixed (.LPAREN, "(") (by decide))
  · exact good_name _ x h
  · exact good_tkp _ _ _ (good_fixed (.RPAREN, ")") (by decide))

theorem good_op (p : TPos) (op : CmpOp) : Good (tkp p op.tt op.lit) := by
  cases op <;> exact good_tkp p _ _ (good_fixed (_, _) (by decide))

theorem printLeaf_good (lf : Leaf) (h : okLeaf lf = true) : ∀ t ∈ printLeaf lf, Good t := by
  have fNot := fun p => good_tkp p _ _ (good_fixed (.NOT, "!") (by decide))
  have fVar := fun p => good_tkp p _ _ (good_fixed (.VAR, "var") (by decide))
  cases lf with
  | flagBare ps d x =>
    intro t ht
    simp only [printLeaf, List.mem_cons] at ht
    rcases ht with rfl | ht
    · exact good_kind _ d
    · exact good_operand ps 1 x h t ht
  | flagNot ps d x =>
    intro t ht
    simp only [printLeaf, List.mem_cons] at ht
    rcases ht with rfl | rfl | ht
    · exact fNot _
    · exact good_kind _ d
    · exact good_operand ps 2 x h t ht
  | flagCmp ps d x eqv tv =>
    intro t ht
    simp only [printLeaf, List.mem_cons, List.mem_append, List.not_mem_nil, or_false] at ht
    rcases ht with (rfl | ht) | rfl | rfl
    · exact good_kind _ d
    · exact good_operand ps 1 x h t ht
    · cases eqv
      · exact good_tkp _ _ _ (good_fixed (.NEQ, "!=") (by decide))
      · exact good_tkp _ _ _ (good_fixed (.EQ, "==") (by decide))
    · cases tv
      · exact good_tkp _ _ _ (good_fixed (.FALSE, "FALSE") (by decide))
      · exact good_tkp _ _ _ (good_fixed (.TRUE, "TRUE") (by decide))
  | varBare ps x =>
    intro t ht
    simp only [printLeaf, List.mem_cons] at ht
    rcases ht with rfl | ht
    · exact fVar _
    · exact good_operand ps 1 x h t ht
  | varNot ps x =>
    intro t ht
    simp only [printLeaf, List.mem_cons] at ht
    rcases ht with rfl | rfl | ht
    · exact fNot _
    · exact fVar _
    · exact good_operand ps 2 x h t ht
  | varCmp ps x op n =>
    simp only [okLeaf, Bool.and_eq_true] at h
    intro t ht
    simp only [printLeaf, List.mem_cons, List.mem_append, List.not_mem_nil, or_false] at ht
    rcases ht with (rfl | ht) | rfl | rfl
    · exact fVar _
    · exact good_operand ps 1 x h.1 t ht
    · exact good_op _ op
    · exact good_val _ n h.2

mutual
theorem printOr_good (g : SOr) (h : okOr g = true) : ∀ t ∈ printOr g, Good t := by
  cases g with
  | one a =>
    simp only [okOr] at h
    simpa only [printOr] using printAnd_good a h
  | more a p r =>
    simp only [okOr, Bool.and_eq_true] at h
    intro t ht
    simp only [printOr, List.mem_append, List.mem_cons] at ht
    rcases ht with ht | rfl | ht
    · exact printAnd_good a h.1 t ht
    · exact good_tkp _ _ _ (good_fixed (.OR, "||") (by decide))
    · exact printOr_good r h.2 t ht
theorem printAnd_good (a : SAnd) (h : okAnd a = true) : ∀ t ∈ printAnd a, Good t := by
  cases a with
  | one u =>
    simp only [okAnd] at h
    simpa only [printAnd] using printUn_good u h
  | more u p r =>
    simp only [okAnd, Bool.and_eq_true] at h
    intro t ht
    simp only [printAnd, List.mem_append, List.mem_cons] at ht
    rcases ht with ht | rfl | ht
    · exact printUn_good u h.1 t ht
    · exact good_tkp _ _ _ (good_fixed (.AND, "&&") (by decide))
    · exact printAnd_good r h.2 t ht
theorem printUn_good (u : SUn) (h : okUn u = true) : ∀ t ∈ printUn u, Good t := by
  cases u with
  | leaf lf =>
    simp only [okUn] at h
    simpa only [printUn] using printLeaf_good lf h
  | paren n pn pl pr e =>
    simp only [okUn] at h
    intro t ht
    simp only [printUn, List.mem_append, List.mem_cons, List.not_mem_nil, or_false] at ht
    rcases ht with ht | rfl | ht | rfl
    · cases n
      · simp at ht
      · simp only [if_true, List.mem_singleton] at ht
        subst ht
        exact good_tkp _ _ _ (good_fixed (.NOT, "!") (by decide))
    · exact good_tkp _ _ _ (good_fixed (.LPAREN, "(") (by decide))
    · exact printOr_good e h t ht
    · exact good_tkp _ _ _ (good_fixed (.RPAREN, ")") (by decide))
end

/-- `Good` tokens in front of an `AdjOK` list. -/
theorem adjOK_append_good (a b : List Tok) (ha : ∀ t ∈ a, Good t) (hb : AdjOK b) : AdjOK (a ++ b) := by
  induction a with
  | nil => exact hb
  | cons t r ih =>
    have ht := ha t (List.mem_cons_self ..)
    have ihr := ih fun x hx => ha x (List.mem_cons_of_mem _ hx)
    cases hrb : r ++ b with
    | nil =>
      rw [List.cons_append, hrb]
      simp [AdjOK, adjOK, ht.2.2]
    | cons u q =>
      rw [hrb] at ihr
      rw [List.cons_append, hrb]
      unfold AdjOK adjOK
      unfold AdjOK at ihr
      simp [ht.2.1, ht.2.2, ihr]

end Pory.L1
