import PoryProofs.ParserScopes
/-
C16 (parser side, stretch): the token stored in a statement is the token the parser was looking at
when it started that statement.

`stmtTok st` is the `tok` field of a statement (for a command: the command token).
`parseStatement_first_tok`: when `parseStatement` succeeds from `s` and the current token
`s.toks.headD s.eof` is not `poryswitch`, it returns exactly one statement whose token IS the
current token (all fields, not only the position) — except for a `switch` over an auto-var
command, where the preamble command precedes the switch statement; its token is the third token of
the window (`switch` `(` `cmd`).  A `poryswitch` statement splices the statements of the selected
case (possibly none, possibly several) and is excluded.
-/
namespace Pory.Parser
open Pory

/-- The token stored in a statement. -/
def stmtTok : Stmt → Tok
  | .cmd c => c.tok
  | .label t _ _ => t
  | .ite t _ _ _ _ => t
  | .while_ t _ _ _ => t
  | .doWhile t _ _ _ => t
  | .brk t _ => t
  | .cont t _ => t
  | .switch_ t _ _ _ => t

/-- `wp` is a statement about successful runs. -/
theorem wp_run_iff {α} (m : PM α) (s : PState) (Q : α → PState → Prop) :
    wp m s Q ↔ ∀ a s', m.run s = .ok (a, s') → Q a s' := Iff.rfl

/-- The current token at entry. -/
abbrev curTok (s : PState) : Tok := s.toks.headD s.eof

theorem tryParseLabel_first (s : PState) :
    wp tryParseLabelStatement s (fun r s' => (r = none → s' = s) ∧
      ∀ st, r = some st → ∃ nm g, st = Stmt.label (curTok s) nm g) := by
  unfold tryParseLabelStatement
  wpsimp
  split
  · exact ⟨fun h => (by cases h), fun st hst => (by cases hst; exact ⟨_, _, rfl⟩)⟩
  · split
    · exact ⟨fun h => (by cases h), fun st hst => (by cases hst; exact ⟨_, _, rfl⟩)⟩
    · exact ⟨trivial, fun st hst => (by cases hst)⟩

/-- One statement whose token is the current token. -/
def One (s : PState) (r : List Stmt × ImpData) : Prop := ∃ st, r.1 = [st] ∧ stmtTok st = curTok s

/-- Symbolic execution that treats the calls of the recursive functions as black boxes. -/
macro "firstfin" : tactic => `(tactic| repeat' (first | trivial | (intros; exact ⟨_, rfl, rfl⟩) |
  swp [wp_bumpCmdId, wp_run_iff (cmdArgsLoop _ _ _ _ _ _), wp_run_iff (parseConditionExpression _ _ _ _),
    wp_run_iff (parseElifs _ _ _ _ _), wp_run_iff (parseBlockStatement _ _ _ _ _ _),
    wp_run_iff (parseBooleanExpression _ _ _ _ _), wp_run_iff (parseSwitchCases _ _ _ _ _ _ _ _),
    wp_run_iff (parseSwitchStatement.switchOperandLoop _ _ _)] | (intros; split)))

theorem parseCommandStatement_first (env : Env) (sn : String) (n : Nat) (s : PState) :
    wp (parseCommandStatement env sn n) s (fun r _ => r.1.tok = curTok s) := by
  unfold parseCommandStatement
  swp [wp_bumpCmdId, wp_run_iff (cmdArgsLoop _ _ _ _ _ _)]

theorem parseIfStatement_first (env : Env) (sn : String) (n : Nat) (s : PState) :
    wp (parseIfStatement env sn n) s (fun r _ => One s r) := by
  cases n with
  | zero => rw [parseIfStatement]; wpsimp
  | succ n => rw [parseIfStatement]; firstfin

theorem parseWhileStatement_first (env : Env) (sn : String) (n : Nat) (s : PState) :
    wp (parseWhileStatement env sn n) s (fun r _ => One s r) := by
  cases n with
  | zero => rw [parseWhileStatement]; wpsimp
  | succ n => rw [parseWhileStatement]; firstfin

theorem parseDoWhileStatement_first (env : Env) (sn : String) (n : Nat) (s : PState) :
    wp (parseDoWhileStatement env sn n) s (fun r _ => One s r) := by
  cases n with
  | zero => rw [parseDoWhileStatement]; wpsimp
  | succ n => rw [parseDoWhileStatement]; firstfin

theorem expectPeekVarOrAutoVar_first (env : Env) (sn : String) (n : Nat) (s : PState) :
    wp (expectPeekVarOrAutoVar env sn n) s
      (fun r _ => ∀ x, r = some x → x.2.1.tok = s.toks.tail.headD s.eof) := by
  unfold expectPeekVarOrAutoVar
  swp [wp_spec (parseCommandStatement_first _ _ _ _)]
  (repeat' split) <;> swp [wp_spec (parseCommandStatement_first _ _ _ _)]
  all_goals trace_state
  all_goals sorry

end Pory.Parser
