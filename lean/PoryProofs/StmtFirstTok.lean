import PoryProofs.ParserScopes
/-
C16 (parser side, stretch): the token stored in a statement is the token the parser was looking at
when it started that statement.

`stmtTok st` is the `tok` field of a statement (for a command: the command token).
`parseStatement_first_tok`: when `parseStatement` succeeds from `s` and the current token
`s.toks.headD s.eof` is not `poryswitch`, it returns exactly one statement whose token IS the
current token (all fields, not only the position) — except for a `switch` over an auto-var
command, where the preamble command precedes the switch statement; its token is the third token of
the window (`switch` `(` `cmd`).  A `poryswitch` statement splices the statements of the selected
case (possibly none, possibly several) and is excluded.
-/
namespace Pory.Parser
open Pory

/-- The token stored in a statement. -/
def stmtTok : Stmt → Tok
  | .cmd c => c.tok
  | .label t _ _ => t
  | .ite t _ _ _ _ => t
  | .while_ t _ _ _ => t
  | .doWhile t _ _ _ => t
  | .brk t _ => t
  | .cont t _ => t
  | .switch_ t _ _ _ => t

/-- `wp` is a statement about successful runs. -/
theorem wp_run_iff {α} (m : PM α) (s : PState) (Q : α → PState → Prop) :
    wp m s Q ↔ ∀ a s', m.run s = .ok (a, s') → Q a s' := Iff.rfl

/-- The current token at entry. -/
abbrev curTok (s : PState) : Tok := s.toks.headD s.eof

theorem tryParseLabel_first (s : PState) :
    wp tryParseLabelStatement s (fun r s' => (r = none → s' = s) ∧
      ∀ st, r = some st → ∃ nm g, st = Stmt.label (curTok s) nm g) := by
  unfold tryParseLabelStatement
  wpsimp
  split
  · exact ⟨fun h => (by cases h), fun st hst => (by cases hst; exact ⟨_, _, rfl⟩)⟩
  · split
    · exact ⟨fun h => (by cases h), fun st hst => (by cases hst; exact ⟨_, _, rfl⟩)⟩
    · exact ⟨trivial, fun st hst => (by cases hst)⟩

/-- One statement whose token is the current token. -/
def One (s : PState) (r : List Stmt × ImpData) : Prop := ∃ st, r.1 = [st] ∧ stmtTok st = curTok s

/-- Symbolic execution that treats the calls of the recursive functions as black boxes. -/
macro "firstfin" : tactic => `(tactic| repeat' (first | trivial | (intros; exact ⟨_, rfl, rfl⟩) |
  swp [wp_bumpCmdId, wp_run_iff (cmdArgsLoop _ _ _ _ _ _), wp_run_iff (parseConditionExpression _ _ _ _),
    wp_run_iff (parseElifs _ _ _ _ _), wp_run_iff (parseBlockStatement _ _ _ _ _ _),
    wp_run_iff (parseBooleanExpression _ _ _ _ _), wp_run_iff (parseSwitchCases _ _ _ _ _ _ _ _),
    wp_run_iff (parseSwitchStatement.switchOperandLoop _ _ _)] | (intros; split)))

theorem parseCommandStatement_first (env : Env) (sn : String) (n : Nat) (s : PState) :
    wp (parseCommandStatement env sn n) s (fun r _ => r.1.tok = curTok s) := by
  unfold parseCommandStatement
  swp [wp_bumpCmdId, wp_run_iff (cmdArgsLoop _ _ _ _ _ _)]

theorem parseIfStatement_first (env : Env) (sn : String) (n : Nat) (s : PState) :
    wp (parseIfStatement env sn n) s (fun r _ => One s r) := by
  cases n with
  | zero => rw [parseIfStatement]; wpsimp
  | succ n => rw [parseIfStatement]; firstfin

theorem parseWhileStatement_first (env : Env) (sn : String) (n : Nat) (s : PState) :
    wp (parseWhileStatement env sn n) s (fun r _ => One s r) := by
  cases n with
  | zero => rw [parseWhileStatement]; wpsimp
  | succ n => rw [parseWhileStatement]; firstfin

theorem parseDoWhileStatement_first (env : Env) (sn : String) (n : Nat) (s : PState) :
    wp (parseDoWhileStatement env sn n) s (fun r _ => One s r) := by
  cases n with
  | zero => rw [parseDoWhileStatement]; wpsimp
  | succ n => rw [parseDoWhileStatement]; firstfin

theorem expectPeekVarOrAutoVar_first (env : Env) (sn : String) (n : Nat) (s : PState) :
    wp (expectPeekVarOrAutoVar env sn n) s
      (fun r _ => ∀ x, r = some x → x.2.1.tok = s.toks.tail.headD s.eof) := by
  unfold expectPeekVarOrAutoVar
  swp [wp_spec (parseCommandStatement_first _ _ _ _)]
  repeat' split
  · intro x hx; cases hx
  · trivial
  · swp [wp_spec (parseCommandStatement_first _ _ _ _)]
    intro a s' _ h x hx
    cases hx
    exact h
  · swp [wp_spec (parseCommandStatement_first _ _ _ _)]
    intro a s' _ h
    split
    · trivial
    · intro x hx
      cases hx
      exact h
  · swp

/-- The result of a `switch` statement: the switch statement with the current token, preceded by
the preamble command when the operand is an auto-var command (whose token is the third token). -/
def SwitchRes (s : PState) (r : List Stmt × ImpData) : Prop :=
  ∃ pre st, r.1 = pre ++ [st] ∧ stmtTok st = curTok s ∧
    (pre = [] ∨ ∃ c, pre = [.cmd c] ∧ c.tok = s.toks.tail.tail.headD s.eof)

theorem parseSwitchStatement_first (env : Env) (sn : String) (n : Nat) (s : PState) :
    wp (parseSwitchStatement env sn n) s (fun r _ => SwitchRes s r) := by
  cases n with
  | zero => rw [parseSwitchStatement]; wpsimp
  | succ n =>
    rw [parseSwitchStatement]
    swp [wp_spec (expectPeekVarOrAutoVar_first _ _ _ _)]
    split
    · intro a s1 _ h
      split
      · -- `var(...)`
        swp [wp_run_iff (parseSwitchCases _ _ _ _ _ _ _ _), wp_run_iff (parseSwitchStatement.switchOperandLoop _ _ _)]
        intros
        split
        · intros
          split
          · trivial
          · exact ⟨[], _, rfl, rfl, Or.inl rfl⟩
        · trivial
      · -- auto-var command
        rename_i nm cmd aimp _
        have hc := h _ rfl
        swp [wp_run_iff (parseSwitchCases _ _ _ _ _ _ _ _)]
        split
        · split
          · intros
            split
            · trivial
            · exact ⟨[.cmd cmd], _, rfl, rfl, Or.inr ⟨cmd, rfl, hc⟩⟩
          · trivial
        · trivial
    · trivial

theorem One.switchRes {s : PState} {r : List Stmt × ImpData} (h : One s r) : SwitchRes s r := by
  obtain ⟨st, h1, h2⟩ := h
  exact ⟨[], st, h1, h2, Or.inl rfl⟩

/-- **The token of a parsed statement is the token the parser started at.** When `parseStatement`
succeeds from `s` and the current token is not `poryswitch`, it returns `pre ++ [st]` where the token
stored in `st` IS the current token `s.toks.headD s.eof`, and `pre` is empty unless the statement is
a `switch` over an auto-var command, in which case `pre` is that command, whose token is the third
token of the window (`switch ( cmd …`). -/
theorem parseStatement_first_tok (env : Env) (sn : String) (n : Nat) (s : PState)
    (hps : (curTok s).type ≠ .PORYSWITCH) :
    wp (parseStatement env sn n) s (fun r _ => SwitchRes s r ∧
      ((curTok s).type ≠ .SWITCH → One s r)) := by
  cases n with
  | zero => rw [parseStatement]; wpsimp
  | succ n =>
    rw [parseStatement]
    swp
    split
    · -- IDENT: label or command
      rename_i hty
      swp [wp_spec (tryParseLabel_first _)]
      intro a s' _ h
      cases a with
      | some st =>
        obtain ⟨nm, g, rfl⟩ := h.2 st rfl
        swp
        exact ⟨⟨[], _, rfl, rfl, Or.inl rfl⟩, fun _ => ⟨_, rfl, rfl⟩⟩
      | none =>
        have hs : s' = s := h.1 rfl
        subst hs
        swp [wp_spec (parseCommandStatement_first _ _ _ _)]
        intro r s'' _ hr
        exact ⟨⟨[], _, rfl, hr, Or.inl rfl⟩, fun _ => ⟨_, rfl, hr⟩⟩
    · exact wp_mono (parseIfStatement_first env sn n s) fun r _ h => ⟨h.switchRes, fun _ => h⟩
    · exact wp_mono (parseWhileStatement_first env sn n s) fun r _ h => ⟨h.switchRes, fun _ => h⟩
    · exact wp_mono (parseDoWhileStatement_first env sn n s) fun r _ h => ⟨h.switchRes, fun _ => h⟩
    · -- BREAK
      swp
      split
      · swp
      · swp
        exact ⟨⟨[], _, rfl, rfl, Or.inl rfl⟩, fun _ => ⟨_, rfl, rfl⟩⟩
    · -- CONTINUE
      swp
      split
      · swp
      · swp
        split
        · trivial
        · exact ⟨⟨[], _, rfl, rfl, Or.inl rfl⟩, fun _ => ⟨_, rfl, rfl⟩⟩
    · -- SWITCH
      rename_i hty
      exact wp_mono (parseSwitchStatement_first env sn n s) fun r _ h => ⟨h, fun hne => absurd hty hne⟩
    · -- PORYSWITCH
      rename_i hty
      exact absurd hty hps
    · swp

/-- Run form. -/
theorem parseStatement_first_tok_run {env : Env} {sn : String} {fuel : Nat} {s s' : PState}
    {sts : List Stmt} {imp : ImpData}
    (h : (parseStatement env sn fuel).run s = .ok ((sts, imp), s'))
    (hps : (s.toks.headD s.eof).type ≠ .PORYSWITCH) :
    ∃ pre st, sts = pre ++ [st] ∧ stmtTok st = s.toks.headD s.eof ∧
      (pre = [] ∨ ((s.toks.headD s.eof).type = .SWITCH ∧
        ∃ c, pre = [.cmd c] ∧ c.tok = s.toks.tail.tail.headD s.eof)) := by
  obtain ⟨⟨pre, st, h1, h2, h3⟩, hone⟩ := parseStatement_first_tok env sn fuel s hps _ _ h
  refine ⟨pre, st, h1, h2, ?_⟩
  rcases h3 with h3 | h3
  · exact Or.inl h3
  · by_cases hsw : (s.toks.headD s.eof).type = .SWITCH
    · exact Or.inr ⟨hsw, h3⟩
    · obtain ⟨st', e1, _⟩ := hone hsw
      obtain ⟨c, rfl, _⟩ := h3
      simp only at h1 e1
      rw [e1] at h1
      simp at h1

end Pory.Parser
