import PoryProofs.CommandCensusRender
/-
Command census, part 3 (helper module of PoryProofs/Properties/C10d.lean): where the block-final `end`
commands go.  The number of `end` TERMINATOR lines (`Line.terminator true`) of an emitted script is the
number of block-final command statements named `end` (`end_terminator_census`).  The compiler never writes an
`end` terminator on its own (its own terminators are `return` = `Line.terminator false`).

Proof: `Weights.scriptChunks_total` for the weights `endWeights` (source side: block-final commands named
`end`; table side: chunks with `useEndTerminator`, no branch and no return chunk), and a count over the layout.
-/
namespace Pory.C10d
open Pory Pory.Emit Pory.RenderSim

/-- number of commands named `end` -/
def endCount (l : List Cmd) : Nat := l.countP fun c => c.name == "end"

theorem endCount_nil : endCount [] = 0 := rfl
theorem endCount_append (a b : List Cmd) : endCount (a ++ b) = endCount a + endCount b := by
  simp [endCount, List.countP_append]

/-- the chunk renders the terminator `end` -/
def endsWithEnd (c : Chunk) : Bool :=
  c.useEndTerminator && (match c.branch with | .none => true | _ => false) && c.returnID.isNone

def endWeights : Weights where
  K _ := 0
  S l s := endCount (stmtCmds .absorbed l s)
  B ss := endCount (blockCmds .absorbed ss)
  E es := endCount (elifsCmds .absorbed es)
  C cs := endCount (casesCmds .absorbed cs)
  Br _ := 0
  F c := if endsWithEnd c then 1 else 0
  B_nil := by simp [blockCmds_nil, endCount]
  B_cons := by intro x r _; simp [blockCmds_cons, endCount_append]
  S_ite := by
    intro l t c b es e
    rw [stmtCmds_ite]
    cases e <;> simp only [endCount_append, Pick.pre, endCount_nil] <;> omega
  S_while := by
    intro l t sid c b
    rw [stmtCmds_while]
    cases c <;> simp only [endCount_append, Pick.pre, endCount_nil] <;> omega
  S_doWhile := by intro l t sid c b; rw [stmtCmds_doWhile]; simp only [endCount_append, Pick.pre, endCount_nil]
  S_brk := by intro l t sid; simp [stmtCmds_brk, endCount_nil]
  S_cont := by intro l t sid; simp [stmtCmds_cont, endCount_nil]
  S_switch := by intro l t sid o cs; rw [stmtCmds_switch]
  E_nil := by simp [elifsCmds_nil, endCount_nil]
  E_cons := by intro c b r; simp only [elifsCmds_cons, endCount_append, Pick.pre, endCount_nil]
  C_nil := by simp [casesCmds_nil, endCount_nil]
  C_cons := by intro v d b r; simp [casesCmds_cons, endCount_append]
  K_bin := by intro l op r; rfl
  Br_none := rfl
  Br_jump := fun _ => rfl
  Br_breakCtx := fun _ => rfl
  Br_switch := fun _ _ _ _ => rfl
  Br_leaf := fun _ _ _ => rfl
  F_helper := by intro id ret br; simp [endsWithEnd]
  F_none := by
    intro ss i h id ret br _
    obtain ⟨e, _⟩ := scan_cmds0 .absorbed ss i none h
    rw [e]
    simp only [endsWithEnd, Pick.pre, endCount_append, endCount_nil, Bool.false_and]
    simp
  F_some := by
    intro ss i e h id
    obtain ⟨e1, e2⟩ := scan_cmds0 .absorbed ss i (some e) h
    rcases e2 with ⟨h2, _⟩ | ⟨c, h2, hd, ht⟩
    · cases h2
    · injection h2 with h2
      subst h2
      rw [e1, hd, blockCmds_cons, stmtCmds_cmd, blockCmds_nil]
      simp only [Pick.pre, Pick.take, ht, List.isEmpty_nil, Bool.and_self, if_true, List.nil_append,
        List.append_nil, endsWithEnd, Option.isNone_none, Bool.and_true]
      by_cases hn : (c.name == "end") = true <;> simp [endCount, hn]

/-- the `end` terminator lines -/
def isEndLine : Line → Bool
  | .terminator true => true
  | _ => false

def endLinesOf (ls : List Line) : List Line := ls.filter isEndLine

theorem endLinesOf_append (a b : List Line) : endLinesOf (a ++ b) = endLinesOf a ++ endLinesOf b := by
  simp [endLinesOf]

theorem endLinesOf_none (ls : List Line) (h : ∀ l ∈ ls, isEndLine l = false) : endLinesOf ls = [] := by
  simp only [endLinesOf, List.filter_eq_nil_iff]
  intro l hl; simp [h l hl]

theorem endLinesOf_marker (o : Opts) (t : Tok) : endLinesOf (marker o t) = [] := by
  unfold marker; split <;> simp [endLinesOf, isEndLine]

theorem endLinesOf_exitTo (n : String) (dest next : Option Nat) : endLinesOf (exitTo n dest next).1 = [] := by
  unfold exitTo
  cases dest with
  | none => simp [endLinesOf, isEndLine]
  | some d => simp only; split <;> simp [endLinesOf, isEndLine]

section
variable (o : Opts) (ps : List ((Nat × Nat) × String))

theorem endLinesOf_stmtLines (ss : List Stmt) : endLinesOf (stmtLines o ps ss) = [] := by
  induction ss with
  | nil => rfl
  | cons s r ih =>
    cases s with
    | cmd c =>
      simp only [stmtLines, endLinesOf_append, endLinesOf_marker, ih, List.nil_append, List.append_nil]
      simp [endLinesOf, isEndLine, renderCommand]
    | label t n g =>
      simp only [stmtLines, endLinesOf_append, endLinesOf_marker, ih, List.nil_append, List.append_nil]
      simp [endLinesOf, isEndLine]
    | ite => simpa [stmtLines] using ih
    | while_ => simpa [stmtLines] using ih
    | doWhile => simpa [stmtLines] using ih
    | brk => simpa [stmtLines] using ih
    | cont => simpa [stmtLines] using ih
    | switch_ => simpa [stmtLines] using ih

theorem endLinesOf_branchComparison (n : String) (t : Nat) (e : OpExpr) :
    endLinesOf (renderBranchComparison o n t e) = [] := by
  unfold renderBranchComparison
  simp only [endLinesOf_append, endLinesOf_marker, List.nil_append]
  split
  · split <;> simp [endLinesOf, isEndLine]
  · split <;> simp [endLinesOf, isEndLine]
  · simp [endLinesOf, isEndLine]
  · rfl

theorem endLinesOf_caseLines (n : String) (cases : List SwitchCaseBranch) :
    endLinesOf (caseLines o n cases) = [] := by
  unfold caseLines
  induction cases with
  | nil => rfl
  | cons c r ih =>
    rw [List.flatMap_cons, endLinesOf_append, ih, endLinesOf_append, endLinesOf_marker]
    simp [endLinesOf, isEndLine]

theorem endLinesOf_renderBranching (n : String) (c : Chunk) (next : Option Nat) :
    (endLinesOf (renderBranching o ps n c next).1).length = if endsWithEnd c then 1 else 0 := by
  rw [renderBranching_eq]
  unfold endsWithEnd
  cases hb : c.branch with
  | none =>
    cases hr : c.returnID with
    | none =>
      cases hu : c.useEndTerminator
      · simp [endLinesOf, isEndLine]
      · rfl
    | some r => simp [endLinesOf_exitTo]
  | jump d => simp [endLinesOf_exitTo]
  | breakCtx d => simp [endLinesOf_exitTo]
  | leaf t e f =>
    simp only [prepend, endLinesOf_append, endLinesOf_branchComparison, endLinesOf_exitTo, List.append_nil]
    unfold preambleLines
    cases e.preamble <;> simp [endLinesOf, isEndLine, renderCommand]
  | switch_ op cases dflt dest =>
    simp only [prepend, endLinesOf_append, endLinesOf_marker, endLinesOf_caseLines, List.nil_append,
      List.append_nil]
    have h1 : endLinesOf [Line.switch_ op.lit] = [] := by simp [endLinesOf, isEndLine]
    rw [h1, List.nil_append]
    cases dflt with
    | some d => simp [endLinesOf_exitTo]
    | none =>
      simp only
      split
      · simp [endLinesOf]
      · simp [endLinesOf_exitTo]

theorem endLinesOf_bodyOf (n : String) (c : Chunk) (next : Option Nat) :
    (endLinesOf (bodyOf o ps n c next)).length = if endsWithEnd c then 1 else 0 := by
  unfold bodyOf
  rw [endLinesOf_append, endLinesOf_append, endLinesOf_stmtLines, List.nil_append, List.length_append,
    endLinesOf_renderBranching]
  split <;> simp [endLinesOf, isEndLine]

theorem endLinesOf_lbl (n : String) (g : Bool) (jumps : List Nat) (id : Nat) :
    endLinesOf (lbl n g jumps id) = [] := by
  unfold lbl; split <;> simp [endLinesOf, isEndLine]

theorem endLinesOf_layout (n : String) (G : List Chunk) (g : Bool) (jumps : List Nat) : ∀ (order : List Nat),
    (endLinesOf (layout o ps n G g jumps order)).length = fcnt endWeights (order.map (chunkOf G)) := by
  intro order
  induction order with
  | nil => rfl
  | cons id rest ih =>
    rw [layout_cons, endLinesOf_append, endLinesOf_append, endLinesOf_lbl, List.nil_append, List.length_append,
      endLinesOf_bodyOf, ih, List.map_cons, fcnt_cons]
    rfl

end

theorem fcnt_perm (W : Weights) {a b : List Chunk} (h : a.Perm b) : fcnt W a = fcnt W b := by
  rw [fcnt_eq_sum, fcnt_eq_sum]
  exact (h.map W.F).sum_nat

/-- **The `end` terminators of an emitted script are its block-final `end` commands**, one line each. -/
theorem endLines_emitScript (o : Opts) (ps : List ((Nat × Nat) × String)) (tl : List String)
    (s : Script) (ls : List Line) (h : emitScript o ps tl s = .ok ls) :
    (endLinesOf ls).length = endCount (absorbedCmds s.body) := by
  rw [C05.emitScript_eq] at h
  cases hc : scriptChunks s.body with
  | error e => rw [hc] at h; cases h
  | ok G =>
    rw [hc] at h
    simp only at h
    obtain ⟨order, ho, hls, _⟩ := renderChunks_ok o ps s.name G (s.scope == .GLOBAL) tl ls h
    obtain ⟨hperm, _, _⟩ := C05.script_order_perm o s G order hc ho
    obtain ⟨hn, _⟩ := C05.scriptChunks_ids s.body G hc
    rw [hls, endLinesOf_layout, fcnt_perm endWeights (C04c.map_chunkOf_perm G order hn hperm),
      endWeights.scriptChunks_total s.body G hc]
    rfl

end Pory.C10d
