import PoryProofs.MarkerTokensND
/-
Copy of the theorems of `PoryProofs/Properties/C16b.lean` for the token sets of
`PoryProofs/MarkerTokensND.lean` (the value token of a `default` switch case is not counted):
`progToks p`, `MartWF`, `RawLine`, `marker_lines_from_tokens`, `marker_lines_when_tokens_in_range`.
Statements and proofs are unchanged; only the meaning of `stmtsToks` (through `casesToks`) differs,
which makes the hypotheses about `progToks p` weaker, i.e. the theorems stronger.
-/
namespace Pory.C16nd
open Pory Pory.Emit

def optScriptToks : Option Script → List Tok
  | some s => stmtsToks s.body
  | none => []

def tableToks (t : TableMapScript) : List Tok :=
  t.type :: t.entries.flatMap fun e => e.condition :: optScriptToks e.script

def mapScriptsToks (m : MapScripts) : List Tok :=
  (m.mapScripts.flatMap fun ms => ms.type :: optScriptToks ms.script) ++ m.tables.flatMap tableToks

/-- Tokens stored in a top-level statement. -/
def topToks : Top → List Tok
  | .script s => s.tok :: stmtsToks s.body
  | .raw tok vtok _ => [tok, vtok]
  | .text t => [t.tok]
  | .movement m => m.tok :: m.cmds
  | .mart tok _ tis _ _ => tok :: tis
  | .mapscripts m => m.tok :: mapScriptsToks m

/-- Every token stored in the AST (see the file header). -/
def progToks (p : Program) : List Tok := p.tops.flatMap topToks ++ p.texts.map (·.tok)

/-- `n` is one of the lines of the value of a raw statement of `p`. -/
def RawLine (p : Program) (n : Nat) : Prop :=
  ∃ tok vtok v i, Top.raw tok vtok v ∈ p.tops ∧ i < (splitLines v.toList).length ∧ n = vtok.line + i

/-- Mart statements carry a token for every item. -/
def MartWF (p : Program) : Prop :=
  ∀ tok name tis items scope, Top.mart tok name tis items scope ∈ p.tops → items.length ≤ tis.length

/-- The line numbers a marker may carry. -/
def LineQ (p : Program) (n : Nat) : Prop := (∃ t ∈ progToks p, n = t.line) ∨ RawLine p n

theorem lineQ_of_top {p : Program} {top : Top} (htop : top ∈ p.tops) {t : Tok} (ht : t ∈ topToks top) :
    LineQ p t.line :=
  Or.inl ⟨t, by simp only [progToks, List.mem_append, List.mem_flatMap]; exact Or.inl ⟨top, htop, ht⟩, rfl⟩

theorem optOK_of {p : Program} {os : Option Script} (h : ∀ t ∈ optScriptToks os, LineQ p t.line) :
    OptOK (LineQ p) os := by
  cases os with
  | none => trivial
  | some s => exact h

theorem topOK_of_mem (p : Program) (hwf : MartWF p) (top : Top) (htop : top ∈ p.tops) :
    TopOK (LineQ p) top := by
  have key : ∀ t ∈ topToks top, LineQ p t.line := fun t ht => lineQ_of_top htop ht
  cases top with
  | script s => exact fun t ht => key t (by simp [topToks, ht])
  | raw tok vtok v => exact fun i hi => Or.inr ⟨tok, vtok, v, i, htop, hi, rfl⟩
  | text t => trivial
  | movement m => exact ⟨key _ (by simp [topToks]), fun c hc => key c (by simp [topToks, hc])⟩
  | mart tok name tis items scope =>
    exact ⟨key _ (by simp [topToks]), fun t ht => key t (by simp [topToks, ht]),
      hwf tok name tis items scope htop⟩
  | mapscripts m =>
    refine ⟨fun ms hms => ⟨key _ ?_, optOK_of fun t ht => key t ?_⟩,
      fun tb htb => ⟨key _ ?_, fun e he => ⟨key _ ?_, optOK_of fun t ht => key t ?_⟩⟩⟩
    · simp only [topToks, mapScriptsToks, List.mem_cons, List.mem_append, List.mem_flatMap]
      exact Or.inr (Or.inl ⟨ms, hms, Or.inl rfl⟩)
    · simp only [topToks, mapScriptsToks, List.mem_cons, List.mem_append, List.mem_flatMap]
      exact Or.inr (Or.inl ⟨ms, hms, Or.inr ht⟩)
    · simp only [topToks, mapScriptsToks, tableToks, List.mem_cons, List.mem_append, List.mem_flatMap]
      exact Or.inr (Or.inr ⟨tb, htb, Or.inl rfl⟩)
    · simp only [topToks, mapScriptsToks, tableToks, List.mem_cons, List.mem_append, List.mem_flatMap]
      exact Or.inr (Or.inr ⟨tb, htb, Or.inr ⟨e, he, Or.inl rfl⟩⟩)
    · simp only [topToks, mapScriptsToks, tableToks, List.mem_cons, List.mem_append, List.mem_flatMap]
      exact Or.inr (Or.inr ⟨tb, htb, Or.inr ⟨e, he, Or.inr ht⟩⟩)

/-- **C16, emitter side.** Every marker names the input path and the line of a token stored in
the AST, or a line of a raw statement's value. -/
theorem marker_lines_from_tokens (o : Opts) (p : Program) (hwf : MartWF p) (ls : List Line)
    (h : emitProgram o p = .ok ls) :
    ∀ n path, Line.marker n path ∈ ls →
      path = o.inputPath ∧ ((∃ t ∈ progToks p, n = t.line) ∨ RawLine p n) := by
  have hm : MarkOK o (LineQ p) ls :=
    emitProgram_mark p (fun t ht => topOK_of_mem p hwf t ht)
      (fun t ht => Or.inl ⟨t.tok, by simp only [progToks, List.mem_append, List.mem_map]; exact Or.inr ⟨t, ht, rfl⟩, rfl⟩)
      ls h
  intro n path hmem
  exact hm (n, path) (mem_markers.mpr hmem)

/-- With the parser-side range facts as hypotheses: all marker line numbers are in `1 … N`. -/
theorem marker_lines_when_tokens_in_range (o : Opts) (p : Program) (hwf : MartWF p) (N : Nat)
    (htok : ∀ t ∈ progToks p, 1 ≤ t.line ∧ t.line ≤ N)
    (hraw : ∀ tok vtok v, Top.raw tok vtok v ∈ p.tops →
      vtok.line + (splitLines v.toList).length ≤ N + 1)
    (ls : List Line) (h : emitProgram o p = .ok ls) :
    ∀ n path, Line.marker n path ∈ ls → 1 ≤ n ∧ n ≤ N := by
  intro n path hmem
  rcases (marker_lines_from_tokens o p hwf ls h n path hmem).2 with ⟨t, ht, rfl⟩ | ⟨tok, vtok, v, i, hr, hi, rfl⟩
  · exact htok t ht
  · have h1 := (htok vtok (by
      simp only [progToks, List.mem_append, List.mem_flatMap]
      exact Or.inl ⟨_, hr, by simp [topToks]⟩)).1
    have h2 := hraw tok vtok v hr
    omega

/-! ### non-vacuity -/

def tkl (t : TT) (l : String) (line : Nat) : Tok := { type := t, lit := l, line := line, endLine := line }

/-- ```
1 script S {
2   lock
3   if (flag(F)) {
4     msgbox(T)
5   }
6 }
7 raw `a
8 b`
9 movement M { walk_up }
``` -/
def exProg : Program :=
  { tops := [
      .script { tok := tkl .SCRIPT "script" 1, name := "S",
                body := [.cmd { id := 0, tok := tkl .IDENT "lock" 2, name := "lock" },
                         .ite (tkl .IF "if" 3)
                           (.leaf { operand := tkl .IDENT "F" 3, operator := .EQ, cmpValue := "TRUE",
                                    type := .FLAG })
                           [.cmd { id := 1, tok := tkl .IDENT "msgbox" 4, name := "msgbox", args := ["T"] }]
                           [] none] },
      .raw (tkl .RAW "raw" 7) (tkl .RAWSTRING "a\nb" 7) "a\nb",
      .movement { tok := tkl .MOVEMENT "movement" 9, name := "M", cmds := [tkl .IDENT "walk_up" 9] }] }

def exOpts : Opts := { optimize := false, lineMarkers := true, inputPath := "f.pory" }

/-- The markers of the example output (the run succeeds: the list is not empty). -/
theorem exProg_markers :
    (match emitProgram exOpts exProg with
     | .ok ls => markers ls
     | .error _ => []) =
      [(2, "f.pory"), (4, "f.pory"), (3, "f.pory"), (7, "f.pory"), (8, "f.pory"), (9, "f.pory"),
       (9, "f.pory")] := by decide

example : MartWF exProg := by
  intro tok name tis items scope h
  simp [exProg] at h

example (ls : List Line) (h : emitProgram exOpts exProg = .ok ls) (n : Nat) (path : String)
    (hm : Line.marker n path ∈ ls) : path = "f.pory" ∧ 1 ≤ n ∧ n ≤ 9 := by
  have hwf : MartWF exProg := by intro tok name tis items scope h; simp [exProg] at h
  refine ⟨(marker_lines_from_tokens exOpts exProg hwf ls h n path hm).1, ?_⟩
  refine marker_lines_when_tokens_in_range exOpts exProg hwf 9 (by decide) ?_ ls h n path hm
  intro tok vtok v hr
  simp [exProg] at hr
  obtain ⟨-, rfl, rfl⟩ := hr
  decide

end Pory.C16nd
