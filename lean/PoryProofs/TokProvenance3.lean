import PoryProofs.TokProvenance2
/-
Token provenance in the parser (C16, parser side), part 3: the statement block (one induction on
the fuel through the 13 mutually recursive functions, `provAll`).

Token sets are those of `PoryProofs/MarkerTokensND.lean` (`C16nd.stmtsToks`: command, label, leaf
operand, switch operand and non-default case value tokens, recursively).
-/
namespace Pory.Parser
open Pory

def SOK (I : List Tok) (ss : List Stmt) : Prop := AllPos I (C16nd.stmtsToks ss)
def EOK (I : List Tok) (es : List (BoolExpr × List Stmt)) : Prop := AllPos I (C16nd.elifsToks es)
def COK (I : List Tok) (cs : List SwitchCase) : Prop := AllPos I (C16nd.casesToks cs)
def OCondOK (I : List Tok) (c : Option BoolExpr) : Prop := ∀ e, c = some e → CondOK I e
/-- Result of a statement-level function: statements and implicit data. -/
def SR (I : List Tok) (r : List Stmt × ImpData) : Prop := SOK I r.1 ∧ ImpOK I r.2

theorem OCondOK_none (I : List Tok) : OCondOK I none ↔ True := iff_true_intro (fun _ h => by cases h)
theorem OCondOK_some (I : List Tok) (e : BoolExpr) : OCondOK I (some e) ↔ CondOK I e :=
  ⟨fun h => h e rfl, fun h e' he => by cases he; exact h⟩

theorem OCondOK.elim {I : List Tok} {c : Option BoolExpr} {e : BoolExpr} (h : OCondOK I c) (hc : c = some e) :
    CondOK I e := h e hc

theorem SOK_nil (I : List Tok) : SOK I [] ↔ True := by simp [SOK, C16nd.stmtsToks, AllPos_nil]
theorem SOK_append (I : List Tok) (a b : List Stmt) : SOK I (a ++ b) ↔ SOK I a ∧ SOK I b := by
  simp only [SOK, C16nd.stmtsToks_append, AllPos_append]
theorem SOK_cmd (I : List Tok) (c : Cmd) : SOK I [.cmd c] ↔ Pos I c.tok := by
  simp [SOK, C16nd.stmtsToks, C16nd.stmtToks, AllPos_cons, AllPos_nil]
theorem SOK_label (I : List Tok) (t : Tok) (nm : String) (g : Bool) : SOK I [.label t nm g] ↔ Pos I t := by
  simp [SOK, C16nd.stmtsToks, C16nd.stmtToks, AllPos_cons, AllPos_nil]
theorem SOK_brk (I : List Tok) (t : Tok) (sid : Nat) : SOK I [.brk t sid] ↔ True := by
  simp [SOK, C16nd.stmtsToks, C16nd.stmtToks, AllPos_nil]
theorem SOK_cont (I : List Tok) (t : Tok) (sid : Nat) : SOK I [.cont t sid] ↔ True := by
  simp [SOK, C16nd.stmtsToks, C16nd.stmtToks, AllPos_nil]
theorem SOK_ite_none (I : List Tok) (t : Tok) (c : BoolExpr) (b : List Stmt) (es : List (BoolExpr × List Stmt)) :
    SOK I [.ite t c b es none] ↔ CondOK I c ∧ SOK I b ∧ EOK I es := by
  simp [SOK, EOK, CondOK, C16nd.stmtsToks, C16nd.stmtToks, AllPos_append]
theorem SOK_ite_some (I : List Tok) (t : Tok) (c : BoolExpr) (b : List Stmt) (es : List (BoolExpr × List Stmt))
    (l : List Stmt) :
    SOK I [.ite t c b es (some l)] ↔ CondOK I c ∧ SOK I b ∧ EOK I es ∧ SOK I l := by
  simp [SOK, EOK, CondOK, C16nd.stmtsToks, C16nd.stmtToks, AllPos_append]
theorem SOK_while (I : List Tok) (t : Tok) (sid : Nat) (c : Option BoolExpr) (b : List Stmt) :
    SOK I [.while_ t sid c b] ↔ OCondOK I c ∧ SOK I b := by
  cases c with
  | none => simp [SOK, OCondOK_none, C16nd.stmtsToks, C16nd.stmtToks]
  | some e => simp [SOK, CondOK, OCondOK_some, C16nd.stmtsToks, C16nd.stmtToks, AllPos_append]
theorem SOK_doWhile (I : List Tok) (t : Tok) (sid : Nat) (c : BoolExpr) (b : List Stmt) :
    SOK I [.doWhile t sid c b] ↔ CondOK I c ∧ SOK I b := by
  simp [SOK, CondOK, C16nd.stmtsToks, C16nd.stmtToks, AllPos_append]
theorem SOK_switch (I : List Tok) (t : Tok) (sid : Nat) (op : Tok) (cs : List SwitchCase) :
    SOK I [.switch_ t sid op cs] ↔ Pos I op ∧ COK I cs := by
  simp [SOK, COK, C16nd.stmtsToks, C16nd.stmtToks, AllPos_cons]

theorem elifsToks_append (a b : List (BoolExpr × List Stmt)) :
    C16nd.elifsToks (a ++ b) = C16nd.elifsToks a ++ C16nd.elifsToks b := by
  induction a with
  | nil => simp [C16nd.elifsToks]
  | cons x r ih => obtain ⟨c, bd⟩ := x; simp [C16nd.elifsToks, ih]
theorem casesToks_append (a b : List SwitchCase) :
    C16nd.casesToks (a ++ b) = C16nd.casesToks a ++ C16nd.casesToks b := by
  induction a with
  | nil => simp [C16nd.casesToks]
  | cons x r ih => obtain ⟨v, d, bd⟩ := x; simp [C16nd.casesToks, ih]

theorem EOK_nil (I : List Tok) : EOK I [] ↔ True := by simp [EOK, C16nd.elifsToks, AllPos_nil]
theorem EOK_snoc (I : List Tok) (a : List (BoolExpr × List Stmt)) (e : BoolExpr) (b : List Stmt) :
    EOK I (a ++ [(e, b)]) ↔ EOK I a ∧ CondOK I e ∧ SOK I b := by
  simp [EOK, SOK, CondOK, elifsToks_append, C16nd.elifsToks, AllPos_append]
theorem COK_nil (I : List Tok) : COK I [] ↔ True := by simp [COK, C16nd.casesToks, AllPos_nil]
theorem COK_snoc_case (I : List Tok) (a : List SwitchCase) (v : Tok) (b : List Stmt) :
    COK I (a ++ [(v, false, b)]) ↔ COK I a ∧ Pos I v ∧ SOK I b := by
  simp [COK, SOK, casesToks_append, C16nd.casesToks, AllPos_append, AllPos_cons]
/-- The value token of a `default` case (the zero token) is not constrained. -/
theorem COK_snoc_default (I : List Tok) (a : List SwitchCase) (v : Tok) (b : List Stmt) :
    COK I (a ++ [(v, true, b)]) ↔ COK I a ∧ SOK I b := by
  simp [COK, SOK, casesToks_append, C16nd.casesToks, AllPos_append]

theorem prov_tryParseLabel (I : List Tok) :
    Prov I tryParseLabelStatement (fun r => ∀ st, r = some st → SOK I [st]) :=
  (prov_tryParseLabelStatement I).mono fun r h st hst => by
    obtain ⟨t, nm, g, rfl, ht⟩ := h st hst
    exact (SOK_label I t nm g).2 ht

/-- Symbolic execution at statement level. -/
syntax "spvc" (" [" Lean.Parser.Tactic.simpLemma,* "]")? : tactic
macro_rules
  | `(tactic| spvc) => `(tactic| pvc [SR, OCondOK_none, OCondOK_some, SOK_nil, SOK_append, SOK_cmd, SOK_label, SOK_brk,
      SOK_cont, SOK_ite_none, SOK_ite_some, SOK_while, SOK_doWhile, SOK_switch, EOK_nil, EOK_snoc, COK_nil,
      COK_snoc_case, COK_snoc_default])
  | `(tactic| spvc [$ts,*]) => `(tactic| pvc [SR, OCondOK_none, OCondOK_some, SOK_nil, SOK_append, SOK_cmd, SOK_label,
      SOK_brk, SOK_cont, SOK_ite_none, SOK_ite_some, SOK_while, SOK_doWhile, SOK_switch, EOK_nil, EOK_snoc,
      COK_nil, COK_snoc_case, COK_snoc_default, $ts,*])

macro "spfin" : tactic => `(tactic| pfin [OCondOK.elim, SR])

/-- The provenance invariant of the whole statement block at fuel `n`. -/
structure ProvAll (I : List Tok) (n : Nat) : Prop where
  block : ∀ env sn tok acc imp, Prov I (parseBlockStatement env sn tok n acc imp)
    (fun r => SOK I acc → ImpOK I imp → SR I r)
  swblock : ∀ env sn tok acc imp, Prov I (parseSwitchBlockStatement env sn tok n acc imp)
    (fun r => SOK I acc → ImpOK I imp → SR I r)
  stmt : ∀ env sn, Prov I (parseStatement env sn n) (SR I)
  cond : ∀ env sn req, Prov I (parseConditionExpression env sn req n)
    (fun r => OCondOK I r.1 ∧ SOK I r.2.1 ∧ ImpOK I r.2.2)
  elifs : ∀ env sn acc imp, Prov I (parseElifs env sn n acc imp)
    (fun r => EOK I acc → ImpOK I imp → EOK I r.1 ∧ ImpOK I r.2)
  ifs : ∀ env sn, Prov I (parseIfStatement env sn n) (SR I)
  whiles : ∀ env sn, Prov I (parseWhileStatement env sn n) (SR I)
  doWhiles : ∀ env sn, Prov I (parseDoWhileStatement env sn n) (SR I)
  cases : ∀ env sn tok cs vals hd imp, Prov I (parseSwitchCases env sn tok n cs vals hd imp)
    (fun r => COK I cs → ImpOK I imp → COK I r.1 ∧ ImpOK I r.2.2)
  switch : ∀ env sn, Prov I (parseSwitchStatement env sn n) (SR I)
  pory : ∀ env sn, Prov I (parsePoryswitchStatement env sn n) (SR I)
  poryCases : ∀ env sn tok acc, Prov I (parsePoryswitchStatementCases env sn tok n acc)
    (fun r => CasesOK (SR I) acc → CasesOK (SR I) r)
  poryStmts : ∀ env sn am acc imp, Prov I (parsePoryswitchStatements env sn am n acc imp)
    (fun r => SOK I acc → ImpOK I imp → SR I r)

theorem provAll_zero (I : List Tok) : ProvAll I 0 :=
  { block := by intros; intro s _; rw [parseBlockStatement]; swp
    swblock := by intros; intro s _; rw [parseSwitchBlockStatement]; swp
    stmt := by intros; intro s _; rw [parseStatement]; swp
    cond := by intros; intro s _; rw [parseConditionExpression]; swp
    elifs := by intros; intro s _; rw [parseElifs]; swp
    ifs := by intros; intro s _; rw [parseIfStatement]; swp
    whiles := by intros; intro s _; rw [parseWhileStatement]; swp
    doWhiles := by intros; intro s _; rw [parseDoWhileStatement]; swp
    cases := by intros; intro s _; rw [parseSwitchCases]; swp
    switch := by intros; intro s _; rw [parseSwitchStatement]; swp
    pory := by intros; intro s _; rw [parsePoryswitchStatement]; swp
    poryCases := by intros; intro s _; rw [parsePoryswitchStatementCases]; swp
    poryStmts := by intros; intro s _; rw [parsePoryswitchStatements]; swp }

theorem provAll_succ {I : List Tok} {n : Nat} (ih : ProvAll I n) : ProvAll I (n + 1) :=
  { block := by
      intro env sn tok acc imp s hi
      obtain ⟨hp, hs⟩ := hi
      have hf := hp.facts
      have hs' := iff_true_intro hs
      rw [parseBlockStatement]
      spvc [(ih.stmt _ _).wp_iff, (ih.block _ _ _ _ _).wp_iff, hf, hs']
      all_goals spfin
    swblock := by
      intro env sn tok acc imp s hi
      obtain ⟨hp, hs⟩ := hi
      have hf := hp.facts
      have hs' := iff_true_intro hs
      rw [parseSwitchBlockStatement]
      spvc [(ih.stmt _ _).wp_iff, (ih.swblock _ _ _ _ _).wp_iff, hf, hs']
      all_goals spfin
    stmt := by
      intro env sn s hi
      obtain ⟨hp, hs⟩ := hi
      have hf := hp.facts
      have hs' := iff_true_intro hs
      rw [parseStatement]
      spvc [(ih.ifs _ _).wp_iff, (ih.whiles _ _).wp_iff, (ih.doWhiles _ _).wp_iff, (ih.switch _ _).wp_iff,
        (ih.pory _ _).wp_iff, (prov_tryParseLabel I).wp_iff,
        (prov_parseCommandStatement I _ _ _).wp_iff, hf, hs']
      all_goals spfin
    cond := by
      intro env sn req s hi
      obtain ⟨hp, hs⟩ := hi
      have hf := hp.facts
      have hs' := iff_true_intro hs
      rw [parseConditionExpression]
      spvc [(ih.block _ _ _ _ _).wp_iff, (prov_parseBooleanExpression I _ _ _ _ _).wp_iff, hf, hs']
      all_goals spfin
    elifs := by
      intro env sn acc imp s hi
      obtain ⟨hp, hs⟩ := hi
      have hf := hp.facts
      have hs' := iff_true_intro hs
      rw [parseElifs]
      spvc [(ih.cond _ _ _).wp_iff, (ih.elifs _ _ _ _).wp_iff, hf, hs']
      all_goals spfin
    ifs := by
      intro env sn s hi
      obtain ⟨hp, hs⟩ := hi
      have hf := hp.facts
      have hs' := iff_true_intro hs
      rw [parseIfStatement]
      spvc [(ih.cond _ _ _).wp_iff, (ih.elifs _ _ _ _).wp_iff, (ih.block _ _ _ _ _).wp_iff, hf, hs']
      all_goals spfin
    whiles := by
      intro env sn s hi
      obtain ⟨hp, hs⟩ := hi
      have hf := hp.facts
      have hs' := iff_true_intro hs
      rw [parseWhileStatement]
      spvc [(ih.cond _ _ _).wp_iff, hf, hs']
      all_goals spfin
    doWhiles := by
      intro env sn s hi
      obtain ⟨hp, hs⟩ := hi
      have hf := hp.facts
      have hs' := iff_true_intro hs
      rw [parseDoWhileStatement]
      spvc [(ih.block _ _ _ _ _).wp_iff, (prov_parseBooleanExpression I _ _ _ _ _).wp_iff, hf, hs']
      all_goals spfin
    cases := by
      intro env sn tok cs vals hd imp s hi
      obtain ⟨hp, hs⟩ := hi
      have hf := hp.facts
      have hs' := iff_true_intro hs
      rw [parseSwitchCases]
      spvc [(ih.swblock _ _ _ _ _).wp_iff, (ih.cases _ _ _ _ _ _ _).wp_iff, (prov_collectUntil I _ _ _ _).wp_iff,
        hf, hs']
      all_goals spfin
    switch := by
      intro env sn s hi
      obtain ⟨hp, hs⟩ := hi
      have hf := hp.facts
      have hs' := iff_true_intro hs
      rw [parseSwitchStatement]
      spvc [(ih.cases _ _ _ _ _ _ _).wp_iff, (prov_expectPeekVarOrAutoVar I _ _ _).wp_iff,
        (prov_switchOperandLoop I _ _ _).wp_iff, hf, hs']
      all_goals spfin
    pory := by
      intro env sn s hi
      obtain ⟨hp, hs⟩ := hi
      have hf := hp.facts
      have hs' := iff_true_intro hs
      rw [parsePoryswitchStatement]
      spvc [(ih.poryCases _ _ _ _).wp_iff, (prov_parsePoryswitchHeader I _).wp_iff, hf, hs']
      all_goals spfin
    poryCases := by
      intro env sn tok acc s hi
      obtain ⟨hp, hs⟩ := hi
      have hf := hp.facts
      have hs' := iff_true_intro hs
      rw [parsePoryswitchStatementCases]
      spvc [(ih.poryStmts _ _ _ _ _).wp_iff, (ih.poryCases _ _ _ _).wp_iff, hf, hs']
      all_goals spfin
    poryStmts := by
      intro env sn am acc imp s hi
      obtain ⟨hp, hs⟩ := hi
      have hf := hp.facts
      have hs' := iff_true_intro hs
      rw [parsePoryswitchStatements]
      spvc [(ih.stmt _ _).wp_iff, (ih.pory _ _).wp_iff, (ih.poryStmts _ _ _ _ _).wp_iff, hf, hs']
      all_goals spfin }

theorem provAll (I : List Tok) : ∀ n : Nat, ProvAll I n
  | 0 => provAll_zero I
  | n + 1 => provAll_succ (provAll I n)

end Pory.Parser
