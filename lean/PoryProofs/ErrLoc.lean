import PoryProofs.ParserScopes
/-
C18 / C20 (parser side): every error value the parser returns is located on tokens of its input.
Part 1: predicates, the two-sided triple `tri`, its calculus and the tactics.

`T` is the input token list and `E` the end-of-input token (`T.getD i E` is input token number `i`;
every index `≥ T.length` stands for `E`).

* `LocAt T E i j e` : the six position fields of the error `e` are the start fields of input token `i`
  and the end fields of input token `j`;
* `El T E f` : if the failure `f` is an error value, it is `LocAt i j` for some `i ≤ j`;
* `Tin T E t` : the token `t` agrees in all six position fields with some input token (tokens copied with
  a changed `lit` / `type` keep this);
* `Inv T E k s` : the token window of `s` is `T.drop k`, its end-of-input token is `E`, and every token
  stored in the state (inline texts, text statements, inline movements) satisfies `Tin`;
* `tri El m s Q` : a successful run of `m` from `s` satisfies `Q`, a failing run fails with `El`;
* `Post T E k R` : the postcondition "window is `T.drop k'` for some `k' ≥ k`, `Inv` holds, result
  satisfies `R`".
-/
namespace Pory.ErrLoc
open Pory Pory.Parser

/-! ### located errors -/

def LocAt (T : List Tok) (E : Tok) (i j : Nat) (e : PErr) : Prop :=
  e.lineStart = (T.getD i E).line ∧ e.charStart = (T.getD i E).startChar ∧
  e.utf8Start = (T.getD i E).startUtf8 ∧ e.lineEnd = (T.getD j E).endLine ∧
  e.charEnd = (T.getD j E).endChar ∧ e.utf8End = (T.getD j E).endUtf8

/-- A failure is harmless for this property if it is not an error value, or an error value whose
range goes from input token `i` to input token `j` with `i ≤ j`. -/
def El (T : List Tok) (E : Tok) (f : PFail) : Prop :=
  ∀ e, f = .err e → ∃ i j, i ≤ j ∧ LocAt T E i j e

/-- Same six position fields. -/
def SamePos (a b : Tok) : Prop :=
  a.line = b.line ∧ a.startChar = b.startChar ∧ a.startUtf8 = b.startUtf8 ∧
  a.endLine = b.endLine ∧ a.endChar = b.endChar ∧ a.endUtf8 = b.endUtf8

theorem SamePos.rfl' (a : Tok) : SamePos a a := ⟨rfl, rfl, rfl, rfl, rfl, rfl⟩

/-- `t` stands at the position of an input token. -/
def Tin (T : List Tok) (E : Tok) (t : Tok) : Prop := ∃ i, SamePos t (T.getD i E)

section
variable (T : List Tok) (E : Tok)

theorem tin_at (i : Nat) : Tin T E (T.getD i E) ↔ True := iff_true_intro ⟨i, SamePos.rfl' _⟩
theorem tin_lit (t : Tok) (x : String) : Tin T E { t with lit := x } ↔ Tin T E t := Iff.rfl
theorem tin_type_lit (t : Tok) (ty : TT) (x : String) :
    Tin T E { t with type := ty, lit := x } ↔ Tin T E t := Iff.rfl

theorem el_fuel : El T E .outOfFuel ↔ True := iff_true_intro (fun _ h => by cases h)
theorem el_panic (w : String) : El T E (.panic w) ↔ True := iff_true_intro (fun _ h => by cases h)

theorem el_range_of {t1 t2 : Tok} {i j : Nat} (h1 : SamePos t1 (T.getD i E)) (h2 : SamePos t2 (T.getD j E))
    (hij : i ≤ j) (msg : String) : El T E (newRangeParseError t1 t2 msg) := by
  intro e he
  simp only [newRangeParseError, PFail.err.injEq] at he
  subst he
  exact ⟨i, j, hij, h1.1, h1.2.1, h1.2.2.1, h2.2.2.2.1, h2.2.2.2.2.1, h2.2.2.2.2.2⟩

theorem el_tin_of {t : Tok} (h : Tin T E t) (msg : String) : El T E (newParseError t msg) := by
  obtain ⟨i, hi⟩ := h
  exact el_range_of T E hi hi (Nat.le_refl _) msg

/-- An error on a single input token. -/
theorem el_at (i : Nat) (msg : String) : El T E (newParseError (T.getD i E) msg) ↔ True :=
  iff_true_intro (el_tin_of T E ⟨i, SamePos.rfl' _⟩ msg)

theorem el_ite (c : Prop) [Decidable c] (a b : Tok) (msg : String) :
    El T E (newParseError (if c then a else b) msg) ↔
      (c → El T E (newParseError a msg)) ∧ (¬ c → El T E (newParseError b msg)) := by
  split <;> simp_all

/-- A range error from input token `i` to input token `j ≥ i`. -/
theorem el_range (i j : Nat) (msg : String) (hij : i ≤ j) :
    El T E (newRangeParseError (T.getD i E) (T.getD j E) msg) :=
  el_range_of T E (SamePos.rfl' _) (SamePos.rfl' _) hij msg

/-! ### the invariant -/

/-- Tokens stored in the parser state stand at input positions. -/
def StOk (s : PState) : Prop :=
  (∀ x ∈ s.inlineTexts, Tin T E x.tok) ∧ (∀ x ∈ s.textStatements, Tin T E x.tok) ∧
  (∀ m ∈ s.inlineMovements, Tin T E m.tok)

structure Inv (k : Nat) (s : PState) : Prop where
  toks : s.toks = T.drop k
  eof : s.eof = E
  st : StOk T E s

theorem Inv.upd {k : Nat} {s : PState} (h : Inv T E k s) (k' c : Nat) : Inv T E k' (upd s (T.drop k') c) :=
  ⟨rfl, h.eof, h.st⟩
theorem Inv.setSid {k : Nat} {s : PState} (h : Inv T E k s) (n : Nat) : Inv T E k (setSid s n) :=
  ⟨h.toks, h.eof, h.st⟩
theorem Inv.setB {k : Nat} {s : PState} (h : Inv T E k s) (B : List Nat) : Inv T E k (setB s B) :=
  ⟨h.toks, h.eof, h.st⟩
theorem Inv.setC {k : Nat} {s : PState} (h : Inv T E k s) (C : List Nat) : Inv T E k (setC s C) :=
  ⟨h.toks, h.eof, h.st⟩

/-- The state after `parseTextStatement` recorded its text. -/
def addTextSt (s : PState) (t : Text) : PState := { s with textStatements := s.textStatements ++ [t] }
/-- The state after `parseConstant` recorded a constant. -/
def addConst (s : PState) (c v : String) : PState := { s with constants := (c, v) :: s.constants }

theorem addTextSt_toks (s : PState) (t : Text) : (addTextSt s t).toks = s.toks := id rfl
theorem addTextSt_eof (s : PState) (t : Text) : (addTextSt s t).eof = s.eof := id rfl
theorem addTextSt_constants (s : PState) (t : Text) : (addTextSt s t).constants = s.constants := id rfl
theorem addTextSt_nextCmdId (s : PState) (t : Text) : (addTextSt s t).nextCmdId = s.nextCmdId := id rfl
theorem addConst_toks (s : PState) (c v : String) : (addConst s c v).toks = s.toks := id rfl
theorem addConst_eof (s : PState) (c v : String) : (addConst s c v).eof = s.eof := id rfl
theorem addConst_nextCmdId (s : PState) (c v : String) : (addConst s c v).nextCmdId = s.nextCmdId := id rfl

theorem Inv.addTextSt {k : Nat} {s : PState} (h : Inv T E k s) {t : Text} (ht : Tin T E t.tok) :
    Inv T E k (addTextSt s t) := by
  refine ⟨h.toks, h.eof, h.st.1, ?_, h.st.2.2⟩
  intro x hx
  rcases List.mem_append.1 hx with h1 | h1
  · exact h.st.2.1 x h1
  · rw [List.mem_singleton] at h1; subst h1; exact ht
theorem Inv.addConst {k : Nat} {s : PState} (h : Inv T E k s) (c v : String) : Inv T E k (addConst s c v) :=
  ⟨h.toks, h.eof, h.st⟩

/-- Postcondition: the window moved forward, the invariant holds, the result satisfies `R`. -/
def Post {α} (k : Nat) (R : α → Prop) (a : α) (s' : PState) : Prop :=
  ∃ k', k ≤ k' ∧ Inv T E k' s' ∧ R a

theorem post_intro {α} {k k' : Nat} {R : α → Prop} {a : α} {s' : PState}
    (hi : Inv T E k' s') (hk : k ≤ k') (hr : R a) : Post T E k R a s' := ⟨k', hk, hi, hr⟩

end

/-! ### tokens in collected implicit data -/

/-- Tokens of implicit texts / movements (they end up in the state and may be reported by the duplicate
label checks at the end of `ParseProgram`). -/
def ImpOK (T : List Tok) (E : Tok) (d : ImpData) : Prop :=
  (∀ x ∈ d.texts, Tin T E x.text) ∧ (∀ m ∈ d.movements, Tin T E m.cmdTok)

theorem impok_empty (T : List Tok) (E : Tok) : ImpOK T E {} :=
  ⟨fun _ h => absurd h List.not_mem_nil, fun _ h => absurd h List.not_mem_nil⟩

theorem impok_add {T : List Tok} {E : Tok} {a b : ImpData} (ha : ImpOK T E a) (hb : ImpOK T E b) :
    ImpOK T E (a.add b) := by
  refine ⟨fun x hx => ?_, fun m hm => ?_⟩
  · rcases List.mem_append.1 hx with h | h
    · exact ha.1 x h
    · exact hb.1 x h
  · rcases List.mem_append.1 hm with h | h
    · exact ha.2 m h
    · exact hb.2 m h

theorem impok_addText {T : List Tok} {E : Tok} {d : ImpData} {x : ImpText} (hd : ImpOK T E d)
    (hx : Tin T E x.text) : ImpOK T E { d with texts := d.texts ++ [x] } := by
  refine ⟨fun y hy => ?_, hd.2⟩
  rcases List.mem_append.1 hy with h | h
  · exact hd.1 y h
  · rw [List.mem_singleton] at h; subst h; exact hx

theorem impok_addMovement {T : List Tok} {E : Tok} {d : ImpData} {x : ImpMovement} (hd : ImpOK T E d)
    (h1 : Tin T E x.cmdTok) : ImpOK T E { d with movements := d.movements ++ [x] } := by
  refine ⟨hd.1, fun y hy => ?_⟩
  rcases List.mem_append.1 hy with h | h
  · exact hd.2 y h
  · rw [List.mem_singleton] at h; subst h; exact h1

/-! ### window normal forms -/

theorem drop_tail_tok (T : List Tok) (k : Nat) : (T.drop k).tail = T.drop (k + 1) := by
  rw [List.tail_drop]
theorem drop_getD_tok (T : List Tok) (k n : Nat) (E : Tok) : (T.drop k).getD n E = T.getD (k + n) E := by
  simp [List.getD, List.getElem?_drop]
theorem headD_eq_getD_zero (l : List Tok) (E : Tok) : l.headD E = l.getD 0 E := by
  cases l <;> rfl
theorem drop_headD_tok (T : List Tok) (k : Nat) (E : Tok) : (T.drop k).headD E = T.getD k E := by
  rw [headD_eq_getD_zero, drop_getD_tok]; rfl

/-! ### the triple -/

def tri {α} (El : PFail → Prop) (m : PM α) (s : PState) (Q : α → PState → Prop) : Prop :=
  match m.run s with
  | .ok (a, s') => Q a s'
  | .error f => El f

section
variable (El : PFail → Prop)

theorem tri_bind {α β} (m : PM α) (f : α → PM β) (s : PState) (Q : β → PState → Prop) :
    tri El (m >>= f) s Q ↔ tri El m s (fun a s1 => tri El (f a) s1 Q) := by
  unfold tri
  simp only [StateT.run_bind]
  cases h : m.run s with
  | error e => simp [bind, Except.bind]
  | ok r =>
    obtain ⟨a, s1⟩ := r
    simp [bind, Except.bind]

theorem tri_pure {α} (a : α) (s : PState) (Q : α → PState → Prop) : tri El (pure a) s Q ↔ Q a s := by
  simp [tri, pure, StateT.pure, StateT.run, Except.pure]

theorem tri_fail {α} (e : PFail) (s : PState) (Q : α → PState → Prop) : tri El (fail e) s Q ↔ El e := by
  simp [tri, fail, throw, throwThe, MonadExceptOf.throw, StateT.run, StateT.lift, bind, Except.bind]

theorem tri_ite {α} (c : Prop) [Decidable c] (a b : PM α) (s : PState) (Q : α → PState → Prop) :
    tri El (if c then a else b) s Q ↔ if c then tri El a s Q else tri El b s Q := by
  split <;> rfl

/-- Use a proved triple at a call site. -/
theorem tri_call {α} {m : PM α} {s : PState} {Q₀ Q : α → PState → Prop} (h : tri El m s Q₀)
    (hq : ∀ a s', Q₀ a s' → Q a s') : tri El m s Q := by
  unfold tri at h ⊢
  cases hr : m.run s with
  | error e => rw [hr] at h; exact h
  | ok r => obtain ⟨a, s1⟩ := r; rw [hr] at h; exact hq a s1 h

/-- What a triple says about a failing run. -/
theorem tri_error {α} {m : PM α} {s : PState} {Q : α → PState → Prop} (h : tri El m s Q) {f : PFail}
    (hr : m.run s = .error f) : El f := by
  unfold tri at h
  rw [hr] at h
  exact h

theorem tri_get (s : PState) (Q : PState → PState → Prop) : tri El get s Q ↔ Q s s := by
  simp [tri, StateT.run, get, getThe, MonadStateOf.get, StateT.get, pure, Except.pure]

theorem tri_set (s1 s : PState) (Q : PUnit → PState → Prop) : tri El (set s1) s Q ↔ Q ⟨⟩ s1 := by
  simp [tri, StateT.run, set, StateT.set, pure, Except.pure]

theorem tri_modify (f : PState → PState) (s : PState) (Q : PUnit → PState → Prop) :
    tri El (modify f) s Q ↔ Q ⟨⟩ (f s) := by
  simp [tri, StateT.run, modify, modifyGet, MonadStateOf.modifyGet, StateT.modifyGet, pure, Except.pure]

theorem tri_cur (s : PState) (Q : Tok → PState → Prop) : tri El cur s Q ↔ Q (s.toks.headD s.eof) s := by
  unfold cur; simp only [tri_bind, tri_get, tri_pure]

theorem tri_peekAt (n : Nat) (s : PState) (Q : Tok → PState → Prop) :
    tri El (peekAt n) s Q ↔ Q (s.toks.getD n s.eof) s := by
  unfold peekAt; simp only [tri_bind, tri_get, tri_pure]

theorem tri_peek (s : PState) (Q : Tok → PState → Prop) : tri El peek s Q ↔ Q (s.toks.getD 1 s.eof) s :=
  tri_peekAt El 1 s Q
theorem tri_peek2 (s : PState) (Q : Tok → PState → Prop) : tri El peek2 s Q ↔ Q (s.toks.getD 2 s.eof) s :=
  tri_peekAt El 2 s Q
theorem tri_peek3 (s : PState) (Q : Tok → PState → Prop) : tri El peek3 s Q ↔ Q (s.toks.getD 3 s.eof) s :=
  tri_peekAt El 3 s Q
theorem tri_peek4 (s : PState) (Q : Tok → PState → Prop) : tri El peek4 s Q ↔ Q (s.toks.getD 4 s.eof) s :=
  tri_peekAt El 4 s Q

theorem tri_nextToken (s : PState) (Q : Unit → PState → Prop) :
    tri El nextToken s Q ↔ Q () (upd s s.toks.tail s.nextCmdId) := by
  unfold nextToken; rw [tri_modify]; rfl

theorem tri_curIs (t : TT) (s : PState) (Q : Bool → PState → Prop) :
    tri El (curIs t) s Q ↔ Q ((s.toks.headD s.eof).type == t) s := by
  unfold curIs; simp only [tri_bind, tri_cur, tri_pure]

theorem tri_peekIs (t : TT) (s : PState) (Q : Bool → PState → Prop) :
    tri El (peekIs t) s Q ↔ Q ((s.toks.getD 1 s.eof).type == t) s := by
  unfold peekIs; simp only [tri_bind, tri_peek, tri_pure]

theorem tri_peek2Is (t : TT) (s : PState) (Q : Bool → PState → Prop) :
    tri El (peek2Is t) s Q ↔ Q ((s.toks.getD 2 s.eof).type == t) s := by
  unfold peek2Is; simp only [tri_bind, tri_peek2, tri_pure]

theorem tri_expectPeek (t : TT) (s : PState) (Q : Bool → PState → Prop) :
    tri El (expectPeek t) s Q ↔
      if (s.toks.getD 1 s.eof).type == t then Q true (upd s s.toks.tail s.nextCmdId) else Q false s := by
  unfold expectPeek
  simp only [tri_bind, tri_peekIs, tri_ite, tri_nextToken, tri_pure]

theorem tri_expectPeekErr (t : TT) (s : PState) (Q : Unit → PState → Prop) :
    tri El (expectPeekErr t) s Q ↔
      if (s.toks.getD 1 s.eof).type == t then Q () (upd s s.toks.tail s.nextCmdId)
      else El (newParseError (s.toks.getD 1 s.eof)
        s!"expected next token to be '{t.str}', got '{(s.toks.getD 1 s.eof).lit}' instead") := by
  unfold expectPeekErr
  simp only [tri_bind, tri_peek, tri_ite, tri_nextToken, tri_fail]

theorem tri_tryReplace (v : String) (s : PState) (Q : String → PState → Prop) :
    tri El (tryReplaceWithConstant v) s Q ↔ Q ((s.constants.lookup v).getD v) s := by
  unfold tryReplaceWithConstant; simp only [tri_bind, tri_get, tri_pure]

theorem tri_newSid (s : PState) (Q : Nat → PState → Prop) :
    tri El newSid s Q ↔ Q s.nextSid (setSid s (s.nextSid + 1)) := by
  unfold newSid
  simp only [tri_bind, tri_get, tri_set, tri_pure]
  rfl
theorem tri_pushBreak (sid : Nat) (s : PState) (Q : Unit → PState → Prop) :
    tri El (pushBreak sid) s Q ↔ Q () (setB s (sid :: s.breakStack)) := by
  unfold pushBreak; rw [tri_modify]; rfl
theorem tri_popBreak (s : PState) (Q : Unit → PState → Prop) :
    tri El popBreak s Q ↔ Q () (setB s s.breakStack.tail) := by
  unfold popBreak; rw [tri_modify]; rfl
theorem tri_pushContinue (sid : Nat) (s : PState) (Q : Unit → PState → Prop) :
    tri El (pushContinue sid) s Q ↔ Q () (setC s (sid :: s.continueStack)) := by
  unfold pushContinue; rw [tri_modify]; rfl
theorem tri_popContinue (s : PState) (Q : Unit → PState → Prop) :
    tri El popContinue s Q ↔ Q () (setC s s.continueStack.tail) := by
  unfold popContinue; rw [tri_modify]; rfl

theorem tri_peekTokenIsAutoVar (env : Env) (s : PState) (Q : Bool → PState → Prop) :
    tri El (peekTokenIsAutoVar env) s Q ↔
      Q (if (s.toks.getD 1 s.eof).type != .IDENT then false
         else (env.autoVars.lookup (s.toks.getD 1 s.eof).lit).isSome) s := by
  unfold peekTokenIsAutoVar
  simp only [tri_bind, tri_peek]
  split <;> simp only [tri_pure]

theorem tri_addTextSt (t : Text) (s : PState) (Q : PUnit → PState → Prop) :
    tri El (modify fun s => { s with textStatements := s.textStatements ++ [t] }) s Q ↔
      Q ⟨⟩ (addTextSt s t) := by
  rw [tri_modify]; rfl
theorem tri_addConst (c v : String) (s : PState) (Q : PUnit → PState → Prop) :
    tri El (modify fun s => { s with constants := (c, v) :: s.constants }) s Q ↔
      Q ⟨⟩ (addConst s c v) := by
  rw [tri_modify]; rfl

theorem tri_bumpCmdId (s : PState) (Q : PUnit → PState → Prop) :
    tri El (modify fun s => { s with nextCmdId := s.nextCmdId + 1 }) s Q ↔
      Q ⟨⟩ (upd s s.toks (s.nextCmdId + 1)) := by
  rw [tri_modify]; rfl

end

/- From here on `tri` is only used through the lemmas above (otherwise `assumption` / `apply` may try to
evaluate a parser function on a symbolic state while unifying). -/
attribute [irreducible] tri

/-! ### tactics -/

theorem ite_prop_iff (c : Prop) [Decidable c] (P Q : Prop) :
    (if c then P else Q) ↔ (c → P) ∧ (¬ c → Q) := by
  split <;> simp_all

/-- Symbolic execution of a `do` block under `tri`; windows are normalised to `T.drop k`, tokens to
`T.getD i E`; errors on a single input token are discharged on the way. -/
syntax "tsimp" (" [" Lean.Parser.Tactic.simpLemma,* "]")? : tactic
syntax "tsimpS" : tactic
macro_rules
  | `(tactic| tsimp) => `(tactic| simp only [tri_bind, tri_pure, tri_fail, tri_ite, tri_get, tri_set, tri_cur, tri_peek, tri_peek2, tri_peek3,
      tri_peek4, tri_nextToken, tri_curIs, tri_peekIs, tri_peek2Is, tri_expectPeek, tri_expectPeekErr,
      tri_tryReplace, tri_newSid, tri_pushBreak, tri_popBreak, tri_pushContinue, tri_popContinue,
      tri_bumpCmdId, tri_peekTokenIsAutoVar, tri_addTextSt, tri_addConst, addTextSt_toks, addTextSt_eof,
      addTextSt_constants, addTextSt_nextCmdId, addConst_toks, addConst_eof, addConst_nextCmdId, upd_toks, upd_nextCmdId, upd_eof, upd_constants, upd_breakStack, upd_continueStack,
      upd_nextSid, upd_upd, setSid_toks, setSid_eof, setSid_constants, setSid_nextCmdId,
      setSid_breakStack, setSid_continueStack, setSid_nextSid, setB_toks, setB_eof, setB_constants,
      setB_nextCmdId, setB_breakStack, setB_continueStack, setB_nextSid, setC_toks, setC_eof,
      setC_constants, setC_nextCmdId, setC_breakStack, setC_continueStack, setC_nextSid, drop_tail_tok,
      drop_headD_tok, drop_getD_tok, el_ite, el_at, el_fuel, el_panic, tin_at, tin_lit, tin_type_lit,
      Bool.not_true, Bool.not_false, Bool.false_eq_true, if_true, if_false, ite_self, implies_true,
      and_self, and_true, true_and, ite_prop_iff, true_implies, false_implies, not_false_eq_true,
      not_true_eq_false, bne_iff_ne, ne_eq, reduceCtorEq, true_or, or_true])
  | `(tactic| tsimp [$ts,*]) => `(tactic| simp only [tri_bind, tri_pure, tri_fail, tri_ite, tri_get, tri_set, tri_cur, tri_peek, tri_peek2, tri_peek3,
      tri_peek4, tri_nextToken, tri_curIs, tri_peekIs, tri_peek2Is, tri_expectPeek, tri_expectPeekErr,
      tri_tryReplace, tri_newSid, tri_pushBreak, tri_popBreak, tri_pushContinue, tri_popContinue,
      tri_bumpCmdId, tri_peekTokenIsAutoVar, tri_addTextSt, tri_addConst, addTextSt_toks, addTextSt_eof,
      addTextSt_constants, addTextSt_nextCmdId, addConst_toks, addConst_eof, addConst_nextCmdId, upd_toks, upd_nextCmdId, upd_eof, upd_constants, upd_breakStack, upd_continueStack,
      upd_nextSid, upd_upd, setSid_toks, setSid_eof, setSid_constants, setSid_nextCmdId,
      setSid_breakStack, setSid_continueStack, setSid_nextSid, setB_toks, setB_eof, setB_constants,
      setB_nextCmdId, setB_breakStack, setB_continueStack, setB_nextSid, setC_toks, setC_eof,
      setC_constants, setC_nextCmdId, setC_breakStack, setC_continueStack, setC_nextSid, drop_tail_tok,
      drop_headD_tok, drop_getD_tok, el_ite, el_at, el_fuel, el_panic, tin_at, tin_lit, tin_type_lit,
      Bool.not_true, Bool.not_false, Bool.false_eq_true, if_true, if_false, ite_self, implies_true,
      and_self, and_true, true_and, ite_prop_iff, true_implies, false_implies, not_false_eq_true,
      not_true_eq_false, bne_iff_ne, ne_eq, reduceCtorEq, true_or, or_true, $ts,*])
  | `(tactic| tsimpS) => `(tactic| simp only [tri_bind, tri_pure, tri_fail, tri_ite, tri_get, tri_set, tri_cur, tri_peek, tri_peek2, tri_peek3,
      tri_peek4, tri_nextToken, tri_curIs, tri_peekIs, tri_peek2Is, tri_expectPeek, tri_expectPeekErr,
      tri_tryReplace, tri_newSid, tri_pushBreak, tri_popBreak, tri_pushContinue, tri_popContinue,
      tri_bumpCmdId, tri_peekTokenIsAutoVar, tri_addTextSt, tri_addConst, addTextSt_toks, addTextSt_eof,
      addTextSt_constants, addTextSt_nextCmdId, addConst_toks, addConst_eof, addConst_nextCmdId, upd_toks, upd_nextCmdId, upd_eof, upd_constants, upd_breakStack, upd_continueStack,
      upd_nextSid, upd_upd, setSid_toks, setSid_eof, setSid_constants, setSid_nextCmdId,
      setSid_breakStack, setSid_continueStack, setSid_nextSid, setB_toks, setB_eof, setB_constants,
      setB_nextCmdId, setB_breakStack, setB_continueStack, setB_nextSid, setC_toks, setC_eof,
      setC_constants, setC_nextCmdId, setC_breakStack, setC_continueStack, setC_nextSid, drop_tail_tok,
      drop_headD_tok, drop_getD_tok, el_ite, el_at, el_fuel, el_panic, tin_at, tin_lit, tin_type_lit,
      Bool.not_true, Bool.not_false, Bool.false_eq_true, if_true, if_false, ite_self, implies_true,
      and_self, and_true, true_and, ite_prop_iff, true_implies, false_implies, not_false_eq_true,
      not_true_eq_false, bne_iff_ne, ne_eq, reduceCtorEq, true_or, or_true, *])

/-- Start: symbolic execution from a state with invariant `hi`; the window equations stay in the context for
later `tsimpS` calls. -/
macro "tstart " hi:ident : tactic =>
  `(tactic| (have hs := ($hi).toks; have he := ($hi).eof; have hst := ($hi).st; tsimp [hs, he]))

/-- Re-establish the invariant for a state built from one that satisfies it. -/
macro "invtac" : tactic =>
  `(tactic| (repeat' (first | assumption | apply Inv.upd | apply Inv.setSid | apply Inv.setB | apply Inv.setC)))

theorem tri_exceptMatch {α β} (El : PFail → Prop) (x : Except String β) (s : PState) (Q : α → PState → Prop)
    (f : β → PM α) (g : String → PM α) :
    tri El (match x with | .ok a => f a | .error e => g e) s Q ↔
      (∀ a, x = .ok a → tri El (f a) s Q) ∧ (∀ e, x = .error e → tri El (g e) s Q) := by
  cases x <;> simp

/-- Break a verification condition into its leaves and close them: `Post` leaves (`invtac`, `omega`), range
errors (`omega`), calls of functions whose specifications are given in the list. -/
syntax "tgo" (" [" term,* "]")? : tactic
macro_rules
  | `(tactic| tgo) => `(tactic| tgo [])
  | `(tactic| tgo [$ts,*]) => `(tactic| repeat' (first
      | exact True.intro
      | assumption
      | (with_reducible (apply And.intro))
      | (apply post_intro)
      | (exact impok_empty _ _) | (apply impok_add) | (apply impok_addText) | (apply impok_addMovement)
      | (exact el_range _ _ _ _ _ (by omega))
      | (apply Inv.upd) | (apply Inv.setSid) | (apply Inv.setB) | (apply Inv.setC)
      | (apply Inv.addTextSt) | (apply Inv.addConst)
      | (refine Inv.mk rfl (by first | rfl | assumption) (by assumption))
      | (show (_ : Nat) ≤ _; omega)
      | ((with_reducible (intro a s' hp)); obtain ⟨k', hk, hinv, hr⟩ := hp; have hs := hinv.toks; have he := hinv.eof;
          have hst := hinv.st;
          try tsimp [hs, he])
      | (with_reducible intro _)
      | tsimpS
      | (apply tri_call; first $[| (with_reducible (apply $ts))]*)
      | (apply el_tin_of)
      | (first $[| (with_reducible (apply $ts))]*)
      | split))

end Pory.ErrLoc
