import PoryProofs.LexPos
/-
`nextToken` split into one function per token class (`nextToken_eq`, by `rfl`), and for every
class the facts about the produced token: where it starts (`StartsAt`), for single-line classes
where it ends (`SingleLine`), and that the counters stay truthful (`Steps`).
Used by `PoryProofs/Properties/C19.lean`.
The skipping phase is described by `Skips` (end of the file).  F16 (fixed in lexer.go and in the
model): `skipToNextLine` stops at a newline or at the real end of the input only, so a comment may
contain NUL characters (`skipToNextLine_shape`, `Skips.comment`, `Skips.commentEnd`).
-/
namespace Pory.LexPos
open Pory Pory.Lexer

/-! ### `nextToken`, one definition per branch -/

def oneTok (s : LS) (c : Char) (t : TT) : List Tok × LS × Bool :=
  ([newSingleCharToken t c s.p], readChar s, false)

def twoTok (s : LS) (c : Char) (t : TT) : List Tok × LS × Bool :=
  ([twoCharToken t c (ch (readChar s).inp) (readChar s).p], readChar (readChar s), false)

def strTok (s : LS) : List Tok × LS × Bool :=
  ([(readStringToken s).1], (readStringToken s).2, false)

def rawTok (s : LS) : List Tok × LS × Bool :=
  let p := s.p
  let s' := readChar s
  let (body, s2) := rawBody s'.inp s'.p
  let s3 := readChar s2
  ([{ type := .RAWSTRING, lit := String.ofList (trimRightSpace body), line := p.line,
      startChar := p.col - 1, startUtf8 := p.ucol - 1, endLine := s3.p.line,
      endChar := s3.p.col, endUtf8 := s3.p.ucol }], s3, false)

def hexTok (s : LS) : List Tok × LS × Bool :=
  let p := s.p
  let s' := readChar (readChar s)
  let (ds, s2) := readHexNumber s'.inp s'.p
  ([{ type := .INT, lit := String.ofList ('0' :: 'x' :: ds), line := p.line,
      startChar := p.col - 1, startUtf8 := p.ucol - 1, endLine := s2.p.line,
      endChar := s2.p.prevCol, endUtf8 := s2.p.prevUcol }], s2, false)

def zeroTok (s : LS) : List Tok × LS × Bool :=
  let p := s.p
  let (ds, s2) := readNumber s.inp s.p
  ([{ type := .INT, lit := String.ofList ds, line := p.line,
      startChar := p.col - 1, startUtf8 := p.ucol - 1, endLine := s2.p.line,
      endChar := s2.p.prevCol, endUtf8 := s2.p.prevUcol }], s2, false)

def identTok (s : LS) (c : Char) : List Tok × LS × Bool :=
  let p := s.p
  let s' := readChar s
  let (cs, s2) := readIdentRest s'.inp s'.p
  let lit := String.ofList (c :: cs)
  let tok : Tok := { type := getIdentType lit, lit := lit, line := p.line,
                     startChar := p.prevCol, startUtf8 := p.prevUcol, endLine := s2.p.line,
                     endChar := s2.p.prevCol, endUtf8 := s2.p.prevUcol }
  if ch s2.inp == '"' then
    let (st, s3) := readStringToken s2
    ([{ tok with type := .STRINGTYPE }, st], s3, false)
  else ([tok], s2, false)

def negTok (s : LS) : List Tok × LS × Bool :=
  let p := s.p
  let s' := readChar s
  let (ds, s2) := readNumber s'.inp s'.p
  ([{ type := .INT, lit := String.ofList ('-' :: ds), line := p.line,
      startChar := p.prevCol, startUtf8 := p.prevUcol, endLine := s2.p.line,
      endChar := s2.p.prevCol, endUtf8 := s2.p.prevUcol }], s2, false)

def numTok (s : LS) : List Tok × LS × Bool :=
  let p := s.p
  let (ds, s2) := readNumber s.inp s.p
  ([{ type := .INT, lit := String.ofList ds, line := p.line,
      startChar := p.prevCol, startUtf8 := p.prevUcol, endLine := s2.p.line,
      endChar := s2.p.prevCol, endUtf8 := s2.p.prevUcol }], s2, false)

def illTok (s : LS) (c : Char) : List Tok × LS × Bool :=
  ([{ newSingleCharToken .ILLEGAL c s.p with startChar := s.p.prevCol }], readChar s, false)

def nulTok (s : LS) : List Tok × LS × Bool := ([eofToken s.p], readChar s, false)

/-- The `switch l.ch` of `NextToken`, for a current character `c` (`s.inp = c :: _`). -/
def tokenAt (s : LS) (c : Char) : List Tok × LS × Bool :=
  if c == '*' then oneTok s c .MUL
  else if c == '=' then (if peekChar s.inp == '=' then twoTok s c .EQ else oneTok s c .ASSIGN)
  else if c == '!' then (if peekChar s.inp == '=' then twoTok s c .NEQ else oneTok s c .NOT)
  else if c == '<' then (if peekChar s.inp == '=' then twoTok s c .LTE else oneTok s c .LT)
  else if c == '>' then (if peekChar s.inp == '=' then twoTok s c .GTE else oneTok s c .GT)
  else if c == '&' then (if peekChar s.inp == '&' then twoTok s c .AND else oneTok s c .ILLEGAL)
  else if c == '|' then (if peekChar s.inp == '|' then twoTok s c .OR else oneTok s c .ILLEGAL)
  else if c == '(' then oneTok s c .LPAREN
  else if c == ')' then oneTok s c .RPAREN
  else if c == '[' then oneTok s c .LBRACKET
  else if c == ']' then oneTok s c .RBRACKET
  else if c == ',' then oneTok s c .COMMA
  else if c == ':' then oneTok s c .COLON
  else if c == '"' then strTok s
  else if c == '`' then rawTok s
  else if c == '{' then oneTok s c .LBRACE
  else if c == '}' then oneTok s c .RBRACE
  else if c == '0' then (if peekChar s.inp == 'x' then hexTok s else zeroTok s)
  else if c == NUL then nulTok s
  else if isLetter c then identTok s c
  else if isDigit c || (c == '-' && isDigit (peekChar s.inp)) then (if c == '-' then negTok s else numTok s)
  else illTok s c

/-- `skipWhitespace` followed by the comment loop at the start of `NextToken`. -/
def skipAll (s0 : LS) : LS :=
  let s1 := skipWhitespace s0.inp s0.p
  skipComments (s1.inp.length + 1) s1

theorem nextToken_eq (s0 : LS) : nextToken s0 =
    match (skipAll s0).inp with
    | [] => ([eofToken (skipAll s0).p], readChar (skipAll s0), true)
    | c :: _ => tokenAt (skipAll s0) c := by rfl

/-! ### What is claimed of a token -/

/-- The character `c` found at the token's reported start is the token's first character: the
opening quote for strings, the back-quote for raw strings, the first character of the literal
otherwise. -/
def FirstChar (c : Char) (t : Tok) : Prop :=
  (t.type = .STRING ∧ c = '"') ∨ (t.type = .RAWSTRING ∧ c = '`') ∨
    ∃ l, t.lit = String.ofList (c :: l)

/-- Token `t` is reported at the split point `pre | rest` of the source.
Two deviations of the Go lexer are part of the statement:
* the `EOF` token at the real end of input has character column `eofUcol pre`
  (1, not 0, when the source ends with a newline);
* the `EOF` token produced for a NUL character is reported one column *after* the NUL. -/
def StartsAt (pre rest : List Char) (t : Tok) : Prop :=
  t.line = lineOf pre ∧
  match rest with
  | [] => t.type = .EOF ∧ t.startChar = colOf pre ∧ t.startUtf8 = eofUcol pre
  | c :: _ =>
    if c = NUL then t.type = .EOF ∧ t.startChar = colOf pre + 1 ∧ t.startUtf8 = ucolOf pre + 1
    else t.startChar = colOf pre ∧ t.startUtf8 = ucolOf pre ∧ FirstChar c t

/-- The token's literal is a run `lexeme` of source characters at the head of `rest`, it ends on
the line it starts on, and its end columns are start + size of the lexeme. -/
def SingleLine (rest : List Char) (t : Tok) : Prop :=
  ∃ lexeme after, rest = lexeme ++ after ∧ t.lit = String.ofList lexeme ∧
    t.endLine = t.line ∧ t.endChar = t.startChar + bytesOf lexeme ∧
    t.endUtf8 = t.startUtf8 + lexeme.length

/-- token classes for which no single-line end claim is made -/
def Multi (t : Tok) : Prop := t.type = .STRING ∨ t.type = .RAWSTRING ∨ t.type = .EOF

/-- Everything proved of one branch of `nextToken`, started in a truthful state with input `rest`
after prefix `pre`. -/
def TokOK (pre rest : List Char) (out : List Tok × LS × Bool) : Prop :=
  ∃ t ts, out.1 = t :: ts ∧ StartsAt pre rest t ∧ (Multi t ∨ SingleLine rest t) ∧
    (∀ t2 ∈ ts, ∃ a b, rest = a ++ b ∧ StartsAt (pre ++ a) b t2 ∧ Multi t2) ∧
    Steps pre rest out.2.1

/-! ### Character facts -/

theorem inRanges_list (tab : Array (Nat × Nat × Nat)) (n : Nat) :
    inRanges tab n =
      tab.toList.any fun (lo, hi, stride) => lo ≤ n && n ≤ hi && (n - lo) % stride == 0 := by
  simp [inRanges]

theorem isLetter_nl : isLetter '\n' = false := by
  unfold isLetter; rw [inRanges_list]; decide +kernel
theorem isDigit_nl : isDigit '\n' = false := by
  unfold isDigit; rw [inRanges_list]; decide +kernel
theorem isDigit_zero : isDigit '0' = true := by
  unfold isDigit; rw [inRanges_list]; decide +kernel
theorem isHexDigit_nl : isHexDigit '\n' = false := by decide
theorem NUL_size : NUL.utf8Size = 1 := by decide

theorem peekChar_eq {c x : Char} {r : List Char} (h : peekChar (c :: r) = x) (hx : x ≠ NUL) :
    ∃ r', r = x :: r' := by
  cases r with
  | nil => exact absurd h.symm hx
  | cons d r' =>
    simp only [peekChar] at h
    split at h
    · exact absurd h.symm hx
    · exact ⟨r', by rw [h]⟩

/-- End positions taken from the `prev` counters after consuming `lexeme`. -/
theorem end_prev {pre lexeme inp : List Char} {p : Pos} (T : Truthful (pre ++ lexeme) inp p)
    (hne : lexeme ≠ [] ∨ inp ≠ []) (hnl : ∀ c ∈ lexeme, c ≠ '\n') :
    p.line = lineOf pre ∧ p.prevCol = colOf pre + bytesOf lexeme ∧
      p.prevUcol = ucolOf pre + lexeme.length := by
  refine ⟨by rw [T.line, lineOf_append _ _ hnl], by rw [T.prevCol, colOf_append _ _ hnl], ?_⟩
  by_cases hi : inp = []
  · have hl : lexeme ≠ [] := by
      rcases hne with h | h
      · exact h
      · exact absurd hi h
    rcases T.prevUcolE hi with h | h
    · rw [h, ucolOf_append _ _ hnl]
    · rw [h, eofUcol_append _ _ hl hnl, ucolOf_append _ _ hnl]
  · rw [T.prevUcolN hi, ucolOf_append _ _ hnl]

/-! ### The branches -/

theorem startsAt_cons {pre : List Char} {c : Char} {r : List Char} {t : Tok} (hnul : c ≠ NUL)
    (h1 : t.line = lineOf pre) (h2 : t.startChar = colOf pre) (h3 : t.startUtf8 = ucolOf pre)
    (h4 : FirstChar c t) : StartsAt pre (c :: r) t := by
  refine ⟨h1, ?_⟩
  simp only [hnul, if_false]
  exact ⟨h2, h3, h4⟩

theorem oneTok_ok {pre : List Char} {c : Char} {r : List Char} {p : Pos} (ty : TT)
    (T : Truthful pre (c :: r) p) (hsz : c.utf8Size = 1) (hnul : c ≠ NUL) :
    TokOK pre (c :: r) (oneTok ⟨c :: r, p⟩ c ty) := by
  have hc := T.col
  simp only [nextSize] at hc
  have hu := T.ucolN (by simp)
  refine ⟨_, [], rfl, startsAt_cons hnul ?_ ?_ ?_ (Or.inr (Or.inr ⟨[], rfl⟩)),
    Or.inr ⟨[c], r, rfl, rfl, ?_⟩, by simp, steps_readChar (s := ⟨c :: r, p⟩) T⟩
  · simp [newSingleCharToken, T.line]
  · simp [newSingleCharToken, hc, hsz]
  · simp [newSingleCharToken, hu]
  · simp [newSingleCharToken, hc, hu, hsz]

theorem illTok_ok {pre : List Char} {c : Char} {r : List Char} {p : Pos}
    (T : Truthful pre (c :: r) p) (hnul : c ≠ NUL) :
    TokOK pre (c :: r) (illTok ⟨c :: r, p⟩ c) := by
  have hc := T.col
  simp only [nextSize] at hc
  have hu := T.ucolN (by simp)
  refine ⟨_, [], rfl, startsAt_cons hnul ?_ ?_ ?_ (Or.inr (Or.inr ⟨[], rfl⟩)),
    Or.inr ⟨[c], r, rfl, rfl, ?_⟩, by simp, steps_readChar (s := ⟨c :: r, p⟩) T⟩
  · simp [newSingleCharToken, T.line]
  · simp [T.prevCol]
  · simp [newSingleCharToken, hu]
  · simp [newSingleCharToken, hc, hu, T.prevCol]

theorem twoTok_ok {pre : List Char} {c d : Char} {r : List Char} {p : Pos} (ty : TT)
    (T : Truthful pre (c :: d :: r) p) (hsz : c.utf8Size = 1) (hsd : d.utf8Size = 1)
    (hnul : c ≠ NUL) (hnl : c ≠ '\n') :
    TokOK pre (c :: d :: r) (twoTok ⟨c :: d :: r, p⟩ c ty) := by
  have T1 := truthful_adv T
  have hl := T1.line
  have hc := T1.col
  have hu := T1.ucolN (by simp)
  rw [lineOf_snoc _ _ hnl] at hl
  rw [colOf_append _ _ (by simpa using hnl)] at hc
  rw [ucolOf_append _ _ (by simpa using hnl)] at hu
  simp only [nextSize, bytesOf_cons, bytesOf_nil, hsz, hsd, List.length_singleton] at hc hu
  refine ⟨_, [], rfl, startsAt_cons hnul ?_ ?_ ?_ (Or.inr (Or.inr ⟨[d], ?_⟩)),
    Or.inr ⟨[c, d], r, rfl, ?_, ?_⟩, by simp, ?_⟩
  · simp [readChar, twoCharToken, hl]
  · simp [readChar, twoCharToken, hc]
  · simp [readChar, twoCharToken, hu]
  · simp [readChar, twoCharToken, ch]
  · simp [readChar, twoCharToken, ch]
  · simp [readChar, twoCharToken, hc, hu, hsz, hsd]
  · refine (steps_readChar (s := ⟨c :: d :: r, p⟩) T).trans fun pre1 t1 => ?_
    exact steps_readChar t1

theorem strTok_ok {pre : List Char} {r : List Char} {p : Pos}
    (T : Truthful pre ('"' :: r) p) : TokOK pre ('"' :: r) (strTok ⟨'"' :: r, p⟩) := by
  obtain ⟨h1, h2, h3, h4⟩ := readStringToken_start ⟨'"' :: r, p⟩
  refine ⟨_, [], rfl, startsAt_cons (by decide) ?_ ?_ ?_ (Or.inl ⟨h1, rfl⟩),
    Or.inl (Or.inl h1), by simp, readStringToken_steps (s := ⟨'"' :: r, p⟩) T⟩
  · rw [h2]; exact T.line
  · rw [h3]; exact T.prevCol
  · rw [h4]; exact T.prevUcolN (by simp)

theorem nulTok_ok {pre : List Char} {r : List Char} {p : Pos}
    (T : Truthful pre (NUL :: r) p) : TokOK pre (NUL :: r) (nulTok ⟨NUL :: r, p⟩) := by
  have hc := T.col
  simp only [nextSize, NUL_size] at hc
  have hu := T.ucolN (by simp)
  refine ⟨_, [], rfl, ⟨?_, ?_⟩, Or.inl (Or.inr (Or.inr rfl)), by simp,
    steps_readChar (s := ⟨NUL :: r, p⟩) T⟩
  · simp [eofToken, T.line]
  · simp [eofToken, hc, hu]

theorem eof_ok {pre : List Char} {p : Pos} (T : Truthful pre [] p) :
    TokOK pre [] ([eofToken p], readChar ⟨[], p⟩, true) := by
  have hc := T.col
  simp only [nextSize] at hc
  refine ⟨_, [], rfl, ⟨?_, ?_⟩, Or.inl (Or.inr (Or.inr rfl)), by simp,
    steps_readChar (s := ⟨[], p⟩) T⟩
  · simp [eofToken, T.line]
  · simp [eofToken, hc, T.ucolE rfl]

theorem rawTok_ok {pre : List Char} {r : List Char} {p : Pos}
    (T : Truthful pre ('`' :: r) p) : TokOK pre ('`' :: r) (rawTok ⟨'`' :: r, p⟩) := by
  have hc := T.col
  have hsz : ('`' : Char).utf8Size = 1 := by decide
  simp only [nextSize, hsz] at hc
  have hu := T.ucolN (by simp)
  refine ⟨_, [], rfl, startsAt_cons (by decide) ?_ ?_ ?_ (Or.inr (Or.inl ⟨rfl, rfl⟩)),
    Or.inl (Or.inr (Or.inl rfl)), by simp, ?_⟩
  · exact T.line
  · show p.col - 1 = _
    omega
  · show p.ucol - 1 = _
    omega
  · refine (steps_readChar (s := ⟨'`' :: r, p⟩) T).trans fun pre1 t1 => ?_
    refine (rawBody_steps t1).trans fun pre2 t2 => ?_
    exact steps_readChar t2

/-- Tokens whose literal is the consumed run `lexeme` and whose end is read off the `prev`
counters of the state after it (identifiers and numbers). -/
theorem lexTok_ok {pre rest lexeme l : List Char} {s2 : LS} {c : Char} (t : Tok)
    (hrest : rest = lexeme ++ s2.inp) (hlex : lexeme = c :: l) (hnul : c ≠ NUL)
    (T2 : Truthful (pre ++ lexeme) s2.inp s2.p) (hnl : ∀ c ∈ lexeme, c ≠ '\n')
    (hline : t.line = lineOf pre) (hsc : t.startChar = colOf pre)
    (hsu : t.startUtf8 = ucolOf pre) (hlit : t.lit = String.ofList lexeme)
    (hel : t.endLine = s2.p.line) (hec : t.endChar = s2.p.prevCol)
    (heu : t.endUtf8 = s2.p.prevUcol) :
    StartsAt pre rest t ∧ SingleLine rest t := by
  obtain ⟨e1, e2, e3⟩ := end_prev T2 (Or.inl (by rw [hlex]; simp)) hnl
  constructor
  · rw [hrest, hlex]
    exact startsAt_cons hnul hline hsc hsu (Or.inr (Or.inr ⟨l, by rw [hlit, hlex]⟩))
  · exact ⟨lexeme, s2.inp, hrest, hlit, by rw [hel, e1, hline], by rw [hec, e2, hsc],
      by rw [heu, e3, hsu]⟩

theorem digits_no_nl {ds : List Char} (h : ∀ c ∈ ds, isDigit c = true) : ∀ c ∈ ds, c ≠ '\n' := by
  intro c hc e
  subst e
  have := h _ hc
  rw [isDigit_nl] at this
  exact absurd this (by decide)

theorem readNumber_cons {c : Char} (r : List Char) (p : Pos) (h : isDigit c = true) :
    (readNumber (c :: r) p).1 = c :: (readNumber r (adv c r p)).1 := by
  simp [readNumber, h]

/-- `readNumber` started on a digit `c` (classes `0…` and other digits); `start` facts are
supplied by the caller because the two classes compute the start differently. -/
theorem number_ok {pre : List Char} {c : Char} {r : List Char} {p : Pos} (t : Tok)
    (T : Truthful pre (c :: r) p) (hd : isDigit c = true) (hnul : c ≠ NUL)
    (hline : t.line = lineOf pre) (hsc : t.startChar = colOf pre)
    (hsu : t.startUtf8 = ucolOf pre)
    (hlit : t.lit = String.ofList (readNumber (c :: r) p).1)
    (hel : t.endLine = (readNumber (c :: r) p).2.p.line)
    (hec : t.endChar = (readNumber (c :: r) p).2.p.prevCol)
    (heu : t.endUtf8 = (readNumber (c :: r) p).2.p.prevUcol) :
    TokOK pre (c :: r) ([t], (readNumber (c :: r) p).2, false) := by
  obtain ⟨e, T2, hall, _⟩ := readNumber_spec pre (c :: r) p T
  obtain ⟨h1, h2⟩ := lexTok_ok t e (readNumber_cons r p hd) hnul T2 (digits_no_nl hall) hline hsc hsu
    hlit hel hec heu
  exact ⟨t, [], rfl, h1, Or.inr h2, by simp, readNumber_steps T⟩

theorem zeroTok_ok {pre : List Char} {r : List Char} {p : Pos}
    (T : Truthful pre ('0' :: r) p) : TokOK pre ('0' :: r) (zeroTok ⟨'0' :: r, p⟩) := by
  have hc := T.col
  have hsz : ('0' : Char).utf8Size = 1 := by decide
  simp only [nextSize, hsz] at hc
  have hu := T.ucolN (by simp)
  refine number_ok _ T isDigit_zero (by decide) T.line ?_ ?_ rfl rfl rfl rfl
  · show p.col - 1 = _
    omega
  · show p.ucol - 1 = _
    omega

theorem numTok_ok {pre : List Char} {c : Char} {r : List Char} {p : Pos}
    (T : Truthful pre (c :: r) p) (hd : isDigit c = true) (hnul : c ≠ NUL) :
    TokOK pre (c :: r) (numTok ⟨c :: r, p⟩) :=
  number_ok _ T hd hnul T.line T.prevCol (T.prevUcolN (by simp)) rfl rfl rfl rfl

theorem negTok_ok {pre : List Char} {r : List Char} {p : Pos}
    (T : Truthful pre ('-' :: r) p) : TokOK pre ('-' :: r) (negTok ⟨'-' :: r, p⟩) := by
  have T1 := truthful_adv T
  obtain ⟨e, T2, hall, _⟩ := readNumber_spec _ r _ T1
  have e' : '-' :: r = ('-' :: (readNumber r (adv '-' r p)).1) ++ (readNumber r (adv '-' r p)).2.inp := by
    simpa using e
  have hnl : ∀ c ∈ '-' :: (readNumber r (adv '-' r p)).1, c ≠ '\n' := by
    intro c hc
    rcases List.mem_cons.1 hc with rfl | hc
    · decide
    · exact digits_no_nl hall c hc
  obtain ⟨h1, h2⟩ := lexTok_ok (pre := pre) (negTok ⟨'-' :: r, p⟩).1.head! e' rfl (by decide)
    (by simpa using T2) hnl T.line T.prevCol (T.prevUcolN (by simp)) rfl rfl rfl rfl
  refine ⟨_, [], rfl, h1, Or.inr h2, by simp, ?_⟩
  refine (steps_readChar (s := ⟨'-' :: r, p⟩) T).trans fun pre1 t1 => ?_
  exact readNumber_steps t1

theorem hexTok_ok {pre : List Char} {r : List Char} {p : Pos}
    (T : Truthful pre ('0' :: 'x' :: r) p) :
    TokOK pre ('0' :: 'x' :: r) (hexTok ⟨'0' :: 'x' :: r, p⟩) := by
  have hc := T.col
  have hsz : ('0' : Char).utf8Size = 1 := by decide
  simp only [nextSize, hsz] at hc
  have hu := T.ucolN (by simp)
  have T1 := truthful_adv (truthful_adv T)
  obtain ⟨e, T2, hall, _⟩ := readHexNumber_spec _ r _ T1
  generalize hp2 : adv 'x' r (adv '0' ('x' :: r) p) = p2 at e T2 hall
  have e' : '0' :: 'x' :: r = ('0' :: 'x' :: (readHexNumber r p2).1) ++ (readHexNumber r p2).2.inp := by
    simpa using e
  have hnl : ∀ c ∈ '0' :: 'x' :: (readHexNumber r p2).1, c ≠ '\n' := by
    intro c hc
    rcases List.mem_cons.1 hc with rfl | hc
    · decide
    · rcases List.mem_cons.1 hc with rfl | hc
      · decide
      · intro e
        subst e
        have := hall _ hc
        rw [isHexDigit_nl] at this
        exact absurd this (by decide)
  subst hp2
  obtain ⟨h1, h2⟩ := lexTok_ok (pre := pre) (hexTok ⟨'0' :: 'x' :: r, p⟩).1.head! e' rfl (by decide)
    (by simpa using T2) hnl T.line (show p.col - 1 = _ by omega) (show p.ucol - 1 = _ by omega)
    rfl rfl rfl rfl
  refine ⟨_, [], rfl, h1, Or.inr h2, by simp, ?_⟩
  refine (steps_readChar (s := ⟨'0' :: 'x' :: r, p⟩) T).trans fun pre1 t1 => ?_
  refine (steps_readChar t1).trans fun pre2 t2 => ?_
  exact readHexNumber_steps t2

theorem ch_quote {inp : List Char} (h : (ch inp == '"') = true) : ∃ r, inp = '"' :: r := by
  cases inp with
  | nil => exact absurd h (by decide)
  | cons d r => exact ⟨r, by simp [ch] at h; rw [h]⟩

theorem identTok_ok {pre : List Char} {c : Char} {r : List Char} {p : Pos}
    (T : Truthful pre (c :: r) p) (hl : isLetter c = true) (hnul : c ≠ NUL) :
    TokOK pre (c :: r) (identTok ⟨c :: r, p⟩ c) := by
  have T1 := truthful_adv T
  obtain ⟨e, T2, hall, _⟩ := readIdentRest_spec _ r _ T1
  generalize hp1 : adv c r p = p1 at e T2 hall
  have e' : c :: r = (c :: (readIdentRest r p1).1) ++ (readIdentRest r p1).2.inp := by
    simpa using e
  have hcnl : c ≠ '\n' := by
    intro e
    subst e
    rw [isLetter_nl] at hl
    exact absurd hl (by decide)
  have hnl : ∀ d ∈ c :: (readIdentRest r p1).1, d ≠ '\n' := by
    intro d hd
    rcases List.mem_cons.1 hd with rfl | hd
    · exact hcnl
    · intro e
      subst e
      have := hall _ hd
      rw [isLetter_nl, isDigit_nl] at this
      exact absurd this (by decide)
  have T2' : Truthful (pre ++ c :: (readIdentRest r p1).1) (readIdentRest r p1).2.inp
      (readIdentRest r p1).2.p := by simpa using T2
  have hsteps : Steps pre (c :: r) (readIdentRest r p1).2 := by
    subst hp1
    refine (steps_readChar (s := ⟨c :: r, p⟩) T).trans fun pre1 t1 => ?_
    exact readIdentRest_steps t1
  have key : ∀ ty : TT, let t : Tok :=
      { type := ty, lit := String.ofList (c :: (readIdentRest r p1).1), line := p.line,
        startChar := p.prevCol, startUtf8 := p.prevUcol,
        endLine := (readIdentRest r p1).2.p.line, endChar := (readIdentRest r p1).2.p.prevCol,
        endUtf8 := (readIdentRest r p1).2.p.prevUcol }
      StartsAt pre (c :: r) t ∧ SingleLine (c :: r) t := fun ty =>
    lexTok_ok _ e' rfl hnul T2' hnl T.line T.prevCol (T.prevUcolN (by simp)) rfl rfl rfl rfl
  simp only [identTok, readChar, hp1]
  split
  · next hq =>
    obtain ⟨r2, hr2⟩ := ch_quote hq
    obtain ⟨h1, h2⟩ := key .STRINGTYPE
    obtain ⟨g1, g2, g3, g4⟩ := readStringToken_start (readIdentRest r p1).2
    refine ⟨_, _, rfl, h1, Or.inr h2, ?_, ?_⟩
    · intro t2 ht2
      simp only [List.mem_singleton] at ht2
      subst ht2
      refine ⟨c :: (readIdentRest r p1).1, (readIdentRest r p1).2.inp, e', ?_⟩
      rw [hr2]
      refine ⟨startsAt_cons (by decide) ?_ ?_ ?_ (Or.inl ⟨g1, rfl⟩), Or.inl g1⟩
      · rw [g2]; exact T2'.line
      · rw [g3]; exact T2'.prevCol
      · rw [g4]; exact T2'.prevUcolN (by rw [hr2]; simp)
    · exact hsteps.trans fun pre1 t1 => readStringToken_steps t1
  · obtain ⟨h1, h2⟩ := key (getIdentType (String.ofList (c :: (readIdentRest r p1).1)))
    exact ⟨_, [], rfl, h1, Or.inr h2, by simp, hsteps⟩

theorem two_case {pre : List Char} {c : Char} {r : List Char} {p : Pos} (ty : TT) (x : Char)
    (T : Truthful pre (c :: r) p) (hpk : (peekChar (c :: r) == x) = true) (hx : x ≠ NUL)
    (hsz : c.utf8Size = 1) (hsx : x.utf8Size = 1) (hnul : c ≠ NUL) (hnl : c ≠ '\n') :
    TokOK pre (c :: r) (twoTok ⟨c :: r, p⟩ c ty) := by
  obtain ⟨r', hr'⟩ := peekChar_eq (eq_of_beq hpk) hx
  subst hr'
  exact twoTok_ok ty T hsz hsx hnul hnl

theorem tok_ite {pre rest : List Char} {b : Bool} {x y : List Tok × LS × Bool}
    (h1 : b = true → TokOK pre rest x) (h2 : b = false → TokOK pre rest y) :
    TokOK pre rest (if b = true then x else y) := by
  cases b
  · simpa using h2 rfl
  · simpa using h1 rfl

/-- Every branch of the `switch` yields a correctly positioned token and a truthful state. -/
theorem tokenAt_ok {pre : List Char} {c : Char} {r : List Char} {p : Pos}
    (T : Truthful pre (c :: r) p) : TokOK pre (c :: r) (tokenAt ⟨c :: r, p⟩ c) := by
  unfold tokenAt
  refine tok_ite (fun h => ?_) (fun h => ?_)
  · have hc := eq_of_beq h
    subst hc
    exact oneTok_ok _ T (by decide) (by decide)
  refine tok_ite (fun h => ?_) (fun h => ?_)
  · have hc := eq_of_beq h
    subst hc
    refine tok_ite (fun hp => ?_) (fun hp => ?_)
    · exact two_case _ '=' T hp (by decide) (by decide) (by decide) (by decide) (by decide)
    · exact oneTok_ok _ T (by decide) (by decide)
  refine tok_ite (fun h => ?_) (fun h => ?_)
  · have hc := eq_of_beq h
    subst hc
    refine tok_ite (fun hp => ?_) (fun hp => ?_)
    · exact two_case _ '=' T hp (by decide) (by decide) (by decide) (by decide) (by decide)
    · exact oneTok_ok _ T (by decide) (by decide)
  refine tok_ite (fun h => ?_) (fun h => ?_)
  · have hc := eq_of_beq h
    subst hc
    refine tok_ite (fun hp => ?_) (fun hp => ?_)
    · exact two_case _ '=' T hp (by decide) (by decide) (by decide) (by decide) (by decide)
    · exact oneTok_ok _ T (by decide) (by decide)
  refine tok_ite (fun h => ?_) (fun h => ?_)
  · have hc := eq_of_beq h
    subst hc
    refine tok_ite (fun hp => ?_) (fun hp => ?_)
    · exact two_case _ '=' T hp (by decide) (by decide) (by decide) (by decide) (by decide)
    · exact oneTok_ok _ T (by decide) (by decide)
  refine tok_ite (fun h => ?_) (fun h => ?_)
  · have hc := eq_of_beq h
    subst hc
    refine tok_ite (fun hp => ?_) (fun hp => ?_)
    · exact two_case _ '&' T hp (by decide) (by decide) (by decide) (by decide) (by decide)
    · exact oneTok_ok _ T (by decide) (by decide)
  refine tok_ite (fun h => ?_) (fun h => ?_)
  · have hc := eq_of_beq h
    subst hc
    refine tok_ite (fun hp => ?_) (fun hp => ?_)
    · exact two_case _ '|' T hp (by decide) (by decide) (by decide) (by decide) (by decide)
    · exact oneTok_ok _ T (by decide) (by decide)
  refine tok_ite (fun h => ?_) (fun h => ?_)
  · have hc := eq_of_beq h
    subst hc
    exact oneTok_ok _ T (by decide) (by decide)
  refine tok_ite (fun h => ?_) (fun h => ?_)
  · have hc := eq_of_beq h
    subst hc
    exact oneTok_ok _ T (by decide) (by decide)
  refine tok_ite (fun h => ?_) (fun h => ?_)
  · have hc := eq_of_beq h
    subst hc
    exact oneTok_ok _ T (by decide) (by decide)
  refine tok_ite (fun h => ?_) (fun h => ?_)
  · have hc := eq_of_beq h
    subst hc
    exact oneTok_ok _ T (by decide) (by decide)
  refine tok_ite (fun h => ?_) (fun h => ?_)
  · have hc := eq_of_beq h
    subst hc
    exact oneTok_ok _ T (by decide) (by decide)
  refine tok_ite (fun h => ?_) (fun h => ?_)
  · have hc := eq_of_beq h
    subst hc
    exact oneTok_ok _ T (by decide) (by decide)
  refine tok_ite (fun h => ?_) (fun h => ?_)
  · have hc := eq_of_beq h
    subst hc
    exact strTok_ok T
  refine tok_ite (fun h => ?_) (fun h => ?_)
  · have hc := eq_of_beq h
    subst hc
    exact rawTok_ok T
  refine tok_ite (fun h => ?_) (fun h => ?_)
  · have hc := eq_of_beq h
    subst hc
    exact oneTok_ok _ T (by decide) (by decide)
  refine tok_ite (fun h => ?_) (fun h => ?_)
  · have hc := eq_of_beq h
    subst hc
    exact oneTok_ok _ T (by decide) (by decide)
  refine tok_ite (fun h => ?_) (fun h => ?_)
  · have hc := eq_of_beq h
    subst hc
    refine tok_ite (fun hp => ?_) (fun hp => ?_)
    · obtain ⟨r', hr'⟩ := peekChar_eq (eq_of_beq hp) (by decide)
      subst hr'
      exact hexTok_ok T
    · exact zeroTok_ok T
  refine tok_ite (fun h => ?_) (fun h => ?_)
  · have hc := eq_of_beq h
    subst hc
    exact nulTok_ok T
  have hnul' : c ≠ NUL := by simpa using h
  refine tok_ite (fun h => ?_) (fun h => ?_)
  · exact identTok_ok T h hnul'
  refine tok_ite (fun h2 => ?_) (fun h2 => ?_)
  · refine tok_ite (fun hm => ?_) (fun hm => ?_)
    · have hc := eq_of_beq hm
      subst hc
      exact negTok_ok T
    · have hd : isDigit c = true := by
        simp only [Bool.or_eq_true, Bool.and_eq_true, hm] at h2
        simpa using h2
      exact numTok_ok T hd hnul'
  · exact illTok_ok T hnul'

theorem done_ite {b : Bool} {x y : List Tok × LS × Bool} (h1 : x.2.2 = false)
    (h2 : y.2.2 = false) : (if b = true then x else y).2.2 = false := by
  cases b
  · simpa using h2
  · simpa using h1

theorem identTok_done (s : LS) (c : Char) : (identTok s c).2.2 = false := by
  unfold identTok
  exact done_ite rfl rfl

/-- Inside the `switch` the "real end of input" flag is never set. -/
theorem tokenAt_done (s : LS) (c : Char) : (tokenAt s c).2.2 = false := by
  unfold tokenAt
  repeat (first | apply done_ite | exact identTok_done s c | exact rfl)

/-! ### The skipping phase -/

theorem skipAll_steps {pre : List Char} {s : LS} (h : Truthful pre s.inp s.p) :
    Steps pre s.inp (skipAll s) :=
  (skipWhitespace_steps h).trans fun _ t1 => skipComments_steps _ t1

theorem skipWhitespace_head (inp : List Char) (p : Pos) :
    ∀ c r, (skipWhitespace inp p).inp = c :: r → isWs c = false := by
  induction inp generalizing p with
  | nil => simp [skipWhitespace]
  | cons d r' ih =>
    rw [skipWhitespace]
    split
    · exact ih _
    · next hw =>
      intro c r hd
      simp at hd
      rw [← hd.1]; simpa using hw

theorem skipWhitespace_length (inp : List Char) (p : Pos) :
    (skipWhitespace inp p).inp.length ≤ inp.length := by
  induction inp generalizing p with
  | nil => simp [skipWhitespace]
  | cons c r ih =>
    rw [skipWhitespace]
    split
    · exact Nat.le_trans (ih _) (by simp)
    · simp

theorem skipToNextLine_length (inp : List Char) (p : Pos) :
    (skipToNextLine inp p).inp.length ≤ inp.length - 1 := by
  induction inp generalizing p with
  | nil => simp [skipToNextLine, readChar]
  | cons c r ih =>
    rw [skipToNextLine]
    split
    · exact Nat.le_trans (ih _) (by simp)
    · simp [readChar]

theorem isCommentStart_ne_nil {inp : List Char} (h : isCommentStart inp = true) : inp ≠ [] := by
  intro e
  subst e
  exact absurd h (by decide)

/-- After the skipping phase the current character is neither whitespace nor the start of a
comment (the fuel of the comment loop is sufficient). -/
theorem skipComments_stop (n : Nat) (s : LS) (hn : s.inp.length < n)
    (hw : ∀ c r, s.inp = c :: r → isWs c = false) :
    (∀ c r, (skipComments n s).inp = c :: r → isWs c = false) ∧
      isCommentStart (skipComments n s).inp = false := by
  induction n generalizing s with
  | zero => exact absurd hn (Nat.not_lt_zero _)
  | succ n ih =>
    rw [skipComments]
    split
    · next hc =>
      have hne := isCommentStart_ne_nil hc
      have hpos : 0 < s.inp.length := List.length_pos_iff.2 hne
      have h1 := skipToNextLine_length s.inp s.p
      have h2 := skipWhitespace_length (skipToNextLine s.inp s.p).inp (skipToNextLine s.inp s.p).p
      refine ih _ (by omega) ?_
      exact skipWhitespace_head _ _
    · next hc => exact ⟨hw, by simpa using hc⟩

theorem skipAll_stop (s : LS) :
    (∀ c r, (skipAll s).inp = c :: r → isWs c = false) ∧
      isCommentStart (skipAll s).inp = false :=
  skipComments_stop _ _ (Nat.lt_succ_self _) (skipWhitespace_head _ _)

/-- `Skips inp rest`: `rest` is `inp` without some leading whitespace and comments, where a
comment starts at `#` or `//` and runs up to and including the next newline, or to the end of the
input.  A comment body may contain any character except newline — NUL included (finding F16,
fixed: `skipToNextLine` used to stop at a NUL). -/
inductive Skips : List Char → List Char → Prop
  | done (rest : List Char) : Skips rest rest
  | ws (c : Char) (r rest : List Char) : isWs c = true → Skips r rest → Skips (c :: r) rest
  | comment (body next rest : List Char) :
      isCommentStart (body ++ '\n' :: next) = true → (∀ c ∈ body, c ≠ '\n') →
      Skips next rest → Skips (body ++ '\n' :: next) rest
  | commentEnd (body : List Char) :
      isCommentStart body = true → (∀ c ∈ body, c ≠ '\n') → Skips body []

theorem Skips.of_nil {a c : List Char} (h : Skips a c) (ha : a = []) : c = [] := by
  cases h with
  | done => exact ha
  | ws d r rest hw _ => exact absurd ha (by simp)
  | comment body next rest hs hb _ => exact absurd ha (by simp)
  | commentEnd body hs hb => rfl

theorem Skips.trans {a b c : List Char} (h1 : Skips a b) (h2 : Skips b c) : Skips a c := by
  induction h1 with
  | done => exact h2
  | ws d r rest hw _ ih => exact .ws d r c hw (ih h2)
  | comment body next rest hs hb _ ih => exact .comment body next c hs hb (ih h2)
  | commentEnd body hs hb =>
    rw [h2.of_nil rfl]
    exact .commentEnd body hs hb

theorem skipWhitespace_skips (inp : List Char) (p : Pos) :
    Skips inp (skipWhitespace inp p).inp := by
  induction inp generalizing p with
  | nil => exact .done _
  | cons c r ih =>
    rw [skipWhitespace]
    split
    · next hw => exact .ws c r _ hw (ih _)
    · exact .done _

/-- `skipToNextLine` consumes a newline-free `body` (which may contain NUL characters) and then
either the input ends or the newline that follows is consumed too. -/
theorem skipToNextLine_shape (inp : List Char) (p : Pos) :
    ∃ body, (∀ c ∈ body, c ≠ '\n') ∧
      ((inp = body ∧ (skipToNextLine inp p).inp = []) ∨
        inp = body ++ '\n' :: (skipToNextLine inp p).inp) := by
  induction inp generalizing p with
  | nil => exact ⟨[], by simp, Or.inl ⟨rfl, rfl⟩⟩
  | cons c r ih =>
    rw [skipToNextLine]
    split
    · next hc =>
      obtain ⟨body, hb, hr⟩ := ih (adv c r p)
      have hc' : c ≠ '\n' := by simpa using hc
      refine ⟨c :: body, ?_, ?_⟩
      · intro d hd
        rcases List.mem_cons.1 hd with rfl | hd
        · exact hc'
        · exact hb d hd
      · rcases hr with ⟨e1, e2⟩ | e
        · exact Or.inl ⟨by rw [e1], e2⟩
        · exact Or.inr (by simpa using e)
    · next hc =>
      have hc' : c = '\n' := by simpa using hc
      subst hc'
      exact ⟨[], by simp, Or.inr (by simp [readChar])⟩

theorem skipComments_skips (n : Nat) (s : LS) : Skips s.inp (skipComments n s).inp := by
  induction n generalizing s with
  | zero => exact .done _
  | succ n ih =>
    rw [skipComments]
    split
    · next hc =>
      have h1 : Skips s.inp (skipToNextLine s.inp s.p).inp := by
        obtain ⟨body, hb, hr⟩ := skipToNextLine_shape s.inp s.p
        rcases hr with ⟨e1, e2⟩ | e
        · rw [e2]
          have := Skips.commentEnd body (by rw [← e1]; exact hc) hb
          rw [← e1] at this
          exact this
        · have := Skips.comment body _ _ (by rw [← e]; exact hc) hb (.done _)
          rw [← e] at this
          exact this
      exact (h1.trans (skipWhitespace_skips _ _)).trans (ih _)
    · exact .done _

/-- What the skipping phase removes is whitespace and comments only. -/
theorem skipAll_skips (s : LS) : Skips s.inp (skipAll s).inp :=
  (skipWhitespace_skips _ _).trans (skipComments_skips _ _)

end Pory.LexPos
