import PoryProofs.Properties.C06b
/-
A closed-form description of the hoisting tables (helper module of C06c).

The text pass and the movement pass of `addImplicitData` have the same shape: look the key up; if it is
new, append a record whose name is `lbl owner (counter of owner)`, remember `(key, name)` and bump the
owner's counter.  `gstep` is that shape; `GModel` says what the three fields look like after processing
the items `P` (from empty tables):

* the records are `mkRecs [] (firstOccBy key P)`: one record per item that shows a key for the first
  time (`firstOccBy`), in order of appearance, the `i`-th one named
  `lbl owner_i (number of earlier first occurrences with the same owner)` (`numFrom`);
* the table has exactly the keys of those items;
* the counter of `o` is the number of those items owned by `o`.
-/
namespace Pory.HoistModel
open Pory Pory.Parser Pory.Hoist Pory.C06 Pory.C06b

/-! ### numbering per owner -/

/-- `numFrom lbl os l`: the names given to the owners `l`, in order, when the owners `os` have already
been served: owner `o` gets `lbl o (number of earlier occurrences of o)`. -/
def numFrom (lbl : String → Nat → String) : List String → List String → List String
  | _, [] => []
  | os, o :: r => lbl o (os.count o) :: numFrom lbl (os ++ [o]) r

theorem numFrom_length (lbl : String → Nat → String) (os l : List String) :
    (numFrom lbl os l).length = l.length := by
  induction l generalizing os with
  | nil => rfl
  | cons o r ih => simp [numFrom, ih]

theorem numFrom_snoc (lbl : String → Nat → String) (os l : List String) (o : String) :
    numFrom lbl os (l ++ [o]) = numFrom lbl os l ++ [lbl o ((os ++ l).count o)] := by
  induction l generalizing os with
  | nil => simp [numFrom]
  | cons a r ih => simp [numFrom, ih, List.append_assoc]

/-- The `i`-th name: its owner, numbered by the occurrences of that owner before position `i`. -/
theorem numFrom_get (lbl : String → Nat → String) (os l : List String) (i : Nat) :
    (numFrom lbl os l)[i]? = l[i]?.map fun o => lbl o ((os ++ l.take i).count o) := by
  induction l generalizing os i with
  | nil => simp [numFrom]
  | cons a r ih =>
    cases i with
    | zero => simp [numFrom]
    | succ i => simp [numFrom, ih, List.append_assoc]

/-- No gaps: owner `o` holds exactly the numbers from its start value up to its final counter. -/
theorem mem_numFrom_iff (lbl : String → Nat → String)
    (hinj : ∀ o1 o2 n1 n2, lbl o1 n1 = lbl o2 n2 → o1 = o2 ∧ n1 = n2) (os l : List String) (o : String)
    (k : Nat) : lbl o k ∈ numFrom lbl os l ↔ os.count o ≤ k ∧ k < (os ++ l).count o := by
  induction l generalizing os with
  | nil => simp [numFrom]
  | cons a r ih =>
    simp only [numFrom, List.mem_cons, ih]
    have e : os ++ [a] ++ r = os ++ a :: r := by simp
    rw [e]
    by_cases ha : a = o
    · subst ha
      have h1 : (os ++ [a]).count a = os.count a + 1 := by simp [List.count_append]
      have h2 : os.count a + 1 ≤ (os ++ a :: r).count a := by simp [List.count_append]
      constructor
      · rintro (h | h)
        · obtain ⟨_, rfl⟩ := hinj _ _ _ _ h; omega
        · omega
      · intro h
        by_cases hk : k = os.count a
        · left; rw [hk]
        · right; omega
    · have h1 : (os ++ [a]).count o = os.count o := by simp [List.count_append, ha]
      constructor
      · rintro (h | h)
        · exact absurd (hinj _ _ _ _ h).1.symm ha
        · omega
      · intro h; right; omega

/-- Names are pairwise distinct (for an injective label scheme). -/
theorem numFrom_nodup (lbl : String → Nat → String)
    (hinj : ∀ o1 o2 n1 n2, lbl o1 n1 = lbl o2 n2 → o1 = o2 ∧ n1 = n2) (os l : List String) :
    (numFrom lbl os l).Nodup := by
  induction l generalizing os with
  | nil => simp [numFrom]
  | cons a r ih =>
    simp only [numFrom, List.nodup_cons]
    refine ⟨?_, ih _⟩
    rw [mem_numFrom_iff lbl hinj]
    simp [List.count_append]

theorem eq_of_nodup_map {α β : Type} (f : α → β) : ∀ (l : List α), (l.map f).Nodup →
    ∀ a ∈ l, ∀ b ∈ l, f a = f b → a = b := by
  intro l
  induction l with
  | nil => intro _ a ha; cases ha
  | cons x r ih =>
    intro hn a ha b hb hab
    simp only [List.map_cons, List.nodup_cons] at hn
    rcases List.mem_cons.1 ha with e1 | ha' <;> rcases List.mem_cons.1 hb with e2 | hb'
    · rw [e1, e2]
    · subst e1; exact absurd (List.mem_map.2 ⟨b, hb', hab.symm⟩) hn.1
    · subst e2; exact absurd (List.mem_map.2 ⟨a, ha', hab⟩) hn.1
    · exact ih hn.2 a ha' b hb' hab

/-! ### first occurrences -/

theorem rev_ind {α : Type} {P : List α → Prop} (nil : P [])
    (append_singleton : ∀ l a, P l → P (l ++ [a])) : ∀ l, P l := by
  intro l
  have : ∀ r : List α, P r.reverse := by
    intro r
    induction r with
    | nil => exact nil
    | cons a r ih => rw [List.reverse_cons]; exact append_singleton _ _ ih
  simpa using this l.reverse

variable {α κ ρ : Type} [BEq κ] [LawfulBEq κ]

/-- The items that show their key for the first time, in order. -/
def firstOccBy (key : α → κ) (l : List α) : List α :=
  l.foldl (fun acc t => if (acc.map key).contains (key t) then acc else acc ++ [t]) []

omit [LawfulBEq κ] in
theorem firstOccBy_nil (key : α → κ) : firstOccBy key [] = [] := rfl

omit [LawfulBEq κ] in
theorem firstOccBy_snoc (key : α → κ) (l : List α) (t : α) :
    firstOccBy key (l ++ [t]) =
      if ((firstOccBy key l).map key).contains (key t) then firstOccBy key l else firstOccBy key l ++ [t] := by
  unfold firstOccBy; rw [List.foldl_append]; rfl

/-- Every key of the input occurs among the first occurrences, and only those. -/
theorem firstOccBy_keys (key : α → κ) (l : List α) (k : κ) :
    k ∈ (firstOccBy key l).map key ↔ k ∈ l.map key := by
  induction l using rev_ind with
  | nil => simp [firstOccBy]
  | append_singleton l t ih =>
    rw [firstOccBy_snoc]
    split
    · next h =>
      have h' : key t ∈ (firstOccBy key l).map key := by simpa using h
      simp only [List.map_append, List.mem_append, List.map_cons, List.map_nil, List.mem_singleton, ih]
      constructor
      · exact Or.inl
      · rintro (h2 | rfl)
        · exact h2
        · exact ih.1 h'
    · simp only [List.map_append, List.mem_append, ih]

/-- The first occurrences have pairwise distinct keys. -/
theorem firstOccBy_nodup (key : α → κ) (l : List α) : ((firstOccBy key l).map key).Nodup := by
  induction l using rev_ind with
  | nil => simp [firstOccBy]
  | append_singleton l t ih =>
    rw [firstOccBy_snoc]
    split
    · exact ih
    · next h =>
      have h' : key t ∉ (firstOccBy key l).map key := by simpa using h
      rw [List.map_append, List.nodup_append]
      refine ⟨ih, by simp, ?_⟩
      intro a ha b hb
      simp only [List.map_cons, List.map_nil, List.mem_singleton] at hb
      subst hb
      intro e; subst e; exact h' ha

omit [LawfulBEq κ] in
/-- The first occurrences are a sublist of the input. -/
theorem firstOccBy_sublist (key : α → κ) (l : List α) : (firstOccBy key l).Sublist l := by
  induction l using rev_ind with
  | nil => simp [firstOccBy]
  | append_singleton l t ih =>
    rw [firstOccBy_snoc]
    split
    · exact ih.trans (List.sublist_append_left _ _)
    · exact List.Sublist.append ih (List.Sublist.refl _)

/-! ### the generic hoisting step -/

/-- records, table, counters -/
abbrev GState (κ ρ : Type) := List ρ × List (κ × String) × List (String × Nat)

def gstep (lbl : String → Nat → String) (st : GState κ ρ) (k : κ) (o : String) (mk : String → ρ) :
    GState κ ρ :=
  match st.2.1.lookup k with
  | some _ => st
  | none =>
    (st.1 ++ [mk (lbl o (lookupD st.2.2 o))], (k, lbl o (lookupD st.2.2 o)) :: st.2.1,
      setCount st.2.2 o (lookupD st.2.2 o + 1))

/-- The records made from the first occurrences `F` when the owners `os` have already been served. -/
def mkRecs (lbl : String → Nat → String) (owner : α → String) (mk : α → String → ρ) :
    List String → List α → List ρ
  | _, [] => []
  | os, a :: r => mk a (lbl (owner a) (os.count (owner a))) :: mkRecs lbl owner mk (os ++ [owner a]) r

theorem mkRecs_snoc (lbl : String → Nat → String) (owner : α → String) (mk : α → String → ρ)
    (os : List String) (F : List α) (a : α) :
    mkRecs lbl owner mk os (F ++ [a]) =
      mkRecs lbl owner mk os F ++ [mk a (lbl (owner a) ((os ++ F.map owner).count (owner a)))] := by
  induction F generalizing os with
  | nil => simp [mkRecs]
  | cons b r ih => simp [mkRecs, ih, List.append_assoc]

theorem mkRecs_length (lbl : String → Nat → String) (owner : α → String) (mk : α → String → ρ)
    (os : List String) (F : List α) : (mkRecs lbl owner mk os F).length = F.length := by
  induction F generalizing os with
  | nil => rfl
  | cons b r ih => simp [mkRecs, ih]

/-- Projection of the records: names. -/
theorem mkRecs_map_name (lbl : String → Nat → String) (owner : α → String) (mk : α → String → ρ)
    (nm : ρ → String) (hnm : ∀ a l, nm (mk a l) = l) (os : List String) (F : List α) :
    (mkRecs lbl owner mk os F).map nm = numFrom lbl os (F.map owner) := by
  induction F generalizing os with
  | nil => rfl
  | cons b r ih => simp [mkRecs, numFrom, ih, hnm]

/-- Projection of the records: anything that does not depend on the name. -/
theorem mkRecs_map (lbl : String → Nat → String) (owner : α → String) (mk : α → String → ρ)
    {β : Type} (f : ρ → β) (g : α → β) (hf : ∀ a l, f (mk a l) = g a) (os : List String) (F : List α) :
    (mkRecs lbl owner mk os F).map f = F.map g := by
  induction F generalizing os with
  | nil => rfl
  | cons b r ih => simp [mkRecs, ih, hf]

/-- What the three fields look like after processing the items `P` from empty tables. -/
structure GModel (lbl : String → Nat → String) (key : α → κ) (owner : α → String) (mk : α → String → ρ)
    (st : GState κ ρ) (P : List α) : Prop where
  recs : st.1 = mkRecs lbl owner mk [] (firstOccBy key P)
  keys : st.2.1.map (·.1) = ((firstOccBy key P).map key).reverse
  counts : ∀ o, lookupD st.2.2 o = ((firstOccBy key P).map owner).count o

omit [LawfulBEq κ] in
theorem gModel_init (lbl : String → Nat → String) (key : α → κ) (owner : α → String)
    (mk : α → String → ρ) : GModel lbl key owner mk ([], [], []) [] :=
  ⟨rfl, rfl, fun _ => rfl⟩

theorem lookup_none_iff (l : List (κ × String)) (k : κ) : l.lookup k = none ↔ k ∉ l.map (·.1) := by
  induction l with
  | nil => simp
  | cons e r ih =>
    obtain ⟨a, b⟩ := e
    simp only [List.lookup_cons, List.map_cons, List.mem_cons, not_or]
    by_cases h : k = a
    · subst h; simp
    · have : (k == a) = false := by simpa using h
      simp [this, ih, h]

theorem gModel_step (lbl : String → Nat → String) (key : α → κ) (owner : α → String)
    (mk : α → String → ρ) (st : GState κ ρ) (P : List α) (a : α)
    (h : GModel lbl key owner mk st P) :
    GModel lbl key owner mk (gstep lbl st (key a) (owner a) (mk a)) (P ++ [a]) := by
  obtain ⟨h1, h2, h3⟩ := h
  unfold gstep
  cases hl : st.2.1.lookup (key a) with
  | some l =>
    have hm : key a ∈ (firstOccBy key P).map key := by
      have : ¬ (key a ∉ st.2.1.map (·.1)) := fun hn => by
        rw [(lookup_none_iff _ _).2 hn] at hl; cases hl
      have := Classical.not_not.1 this
      rw [h2] at this
      exact List.mem_reverse.1 this
    have hc : ((firstOccBy key P).map key).contains (key a) = true := by simpa using hm
    refine ⟨?_, ?_, ?_⟩ <;> simp only [firstOccBy_snoc, hc, if_true] <;> assumption
  | none =>
    have hm : key a ∉ (firstOccBy key P).map key := by
      have := (lookup_none_iff _ _).1 hl
      rw [h2] at this
      exact fun hh => this (List.mem_reverse.2 hh)
    have hc : ((firstOccBy key P).map key).contains (key a) = false := by simpa using hm
    have hn : lookupD st.2.2 (owner a) = ((firstOccBy key P).map owner).count (owner a) := h3 _
    refine ⟨?_, ?_, ?_⟩
    · simp only [firstOccBy_snoc, hc, Bool.false_eq_true, if_false, mkRecs_snoc, List.nil_append, h1, hn]
    · simp only [firstOccBy_snoc, hc, Bool.false_eq_true, if_false, List.map_cons, h2, List.map_append,
        List.map_nil, List.reverse_append, List.reverse_cons, List.reverse_nil, List.nil_append,
        List.singleton_append]
    · intro o
      simp only [firstOccBy_snoc, hc, Bool.false_eq_true, if_false, List.map_append, List.map_cons,
        List.map_nil, List.count_append]
      by_cases ho : o = owner a
      · subst ho
        rw [lookupD_setCount_same, hn]; simp
      · rw [lookupD_setCount_other _ _ _ _ ho, h3]
        have : (owner a == o) = false := by simpa using fun e => ho e.symm
        simp [List.count_cons, this]

/-! ### instances: texts and movements -/

def textRec (t : ImpText) (l : String) : Text :=
  { name := l, value := t.text.lit, tok := t.text, stringType := t.stringType, isGlobal := false }

def moveRec (m : ImpMovement) (l : String) : MovementStmt :=
  { tok := m.cmdTok, name := l, cmds := m.movements, scope := .LOCAL }

def textFields (s : PState) : GState (String × String) Text :=
  (s.inlineTexts, s.inlineTextsSet, s.inlineTextCounts)

def moveFields (s : PState) : GState String MovementStmt :=
  (s.inlineMovements, s.inlineMovementsSet, s.inlineMovementCounts)

theorem textFields_step (s : PState) (t : ImpText) :
    textFields (addTextStep s t) =
      gstep getImplicitTextLabel (textFields s) (keyOf t) t.scriptName (textRec t) := by
  unfold addTextStep gstep textFields keyOf textRec
  cases h : s.inlineTextsSet.lookup (t.text.lit, t.stringType) <;> simp [h]

theorem moveFields_step (s : PState) (m : ImpMovement) :
    moveFields (addMovementStep s m) =
      gstep getImplicitMovementLabel (moveFields s) (mkeyOf m) m.scriptName (moveRec m) := by
  unfold addMovementStep gstep moveFields mkeyOf moveRec
  cases h : s.inlineMovementsSet.lookup (getMovementsKey m.movements) <;> simp [h]

theorem textFields_moveStep (s : PState) (m : ImpMovement) :
    textFields (addMovementStep s m) = textFields s := by
  obtain ⟨a, b, c⟩ := addMovementStep_text_fields s m
  simp [textFields, a, b, c]

theorem moveFields_textStep (s : PState) (t : ImpText) :
    moveFields (addTextStep s t) = moveFields s := by
  obtain ⟨a, b, c⟩ := addTextStep_movement_fields s t
  simp [moveFields, a, b, c]

/-- The text tables after processing the inline texts `P`. -/
def TModel (s : PState) (P : List ImpText) : Prop :=
  GModel getImplicitTextLabel keyOf (·.scriptName) textRec (textFields s) P

/-- The movement tables after processing the `moves()` items `M`. -/
def MModel (s : PState) (M : List ImpMovement) : Prop :=
  GModel getImplicitMovementLabel mkeyOf (·.scriptName) moveRec (moveFields s) M

theorem tModel_textStep (s : PState) (P : List ImpText) (t : ImpText) (h : TModel s P) :
    TModel (addTextStep s t) (P ++ [t]) := by
  unfold TModel; rw [textFields_step]; exact gModel_step _ _ _ _ _ _ t h

theorem mModel_moveStep (s : PState) (M : List ImpMovement) (m : ImpMovement) (h : MModel s M) :
    MModel (addMovementStep s m) (M ++ [m]) := by
  unfold MModel; rw [moveFields_step]; exact gModel_step _ _ _ _ _ _ m h

theorem tModel_moveStep (s : PState) (P : List ImpText) (m : ImpMovement) (h : TModel s P) :
    TModel (addMovementStep s m) P := by
  unfold TModel; rw [textFields_moveStep]; exact h

theorem mModel_textStep (s : PState) (M : List ImpMovement) (t : ImpText) (h : MModel s M) :
    MModel (addTextStep s t) M := by
  unfold MModel; rw [moveFields_textStep]; exact h

/-! ### patches -/

/-- What the parser collects for a command argument: an inline text or a `moves()`. -/
abbrev Item := ImpText ⊕ ImpMovement

/-- The items of one `ImpData` in the order in which `addImplicitData` processes them. -/
def itemsOf (d : ImpData) : List Item := d.texts.map .inl ++ d.movements.map .inr

/-- The argument slot `(command id, argument index)` an item was written at. -/
def slotOf : Item → Nat × Nat
  | .inl t => (t.cmdId, t.argPos)
  | .inr m => (m.cmdId, m.argPos)

/-- The label the tables of `s` hold for the content of an item. -/
def labelIn (s : PState) : Item → Option String
  | .inl t => s.inlineTextsSet.lookup (keyOf t)
  | .inr m => s.inlineMovementsSet.lookup (mkeyOf m)

/-- One patch per processed item, in order: its slot, and the label the (current) table holds for its
content. -/
def PModel (s : PState) (items : List Item) : Prop :=
  s.patches.map (fun p => (p.1, some p.2)) = items.map fun it => (slotOf it, labelIn s it)

theorem pModel_known {s : PState} {items : List Item} (h : PModel s items) (it : Item) (hit : it ∈ items) :
    ∃ l, labelIn s it = some l := by
  have : (slotOf it, labelIn s it) ∈ s.patches.map (fun p => (p.1, some p.2)) := by
    rw [h]; exact List.mem_map.2 ⟨it, hit, rfl⟩
  obtain ⟨p, _, hp⟩ := List.mem_map.1 this
  exact ⟨p.2, (Prod.mk.inj hp).2.symm⟩

theorem labelIn_textStep (s : PState) (t : ImpText) (it : Item) (l : String) (h : labelIn s it = some l) :
    labelIn (addTextStep s t) it = some l := by
  cases it with
  | inl t' => exact lookup_stable s t _ _ h
  | inr m => simpa [labelIn, (addTextStep_movement_fields s t).2.1] using h

theorem labelIn_moveStep (s : PState) (m : ImpMovement) (it : Item) (l : String) (h : labelIn s it = some l) :
    labelIn (addMovementStep s m) it = some l := by
  cases it with
  | inl t => simpa [labelIn, (addMovementStep_text_fields s m).2.1] using h
  | inr m' => exact movement_lookup_stable s m _ _ h

theorem pModel_textStep (s : PState) (items : List Item) (t : ImpText) (h : PModel s items) :
    PModel (addTextStep s t) (items ++ [.inl t]) := by
  unfold PModel
  rw [patch_appended, List.map_append, List.map_append, h]
  congr 1
  · apply List.map_congr_left
    intro it hit
    obtain ⟨l, hl⟩ := pModel_known h it hit
    rw [hl, labelIn_textStep s t it l hl]
  · simp [slotOf, labelIn, label_assigned]

theorem pModel_moveStep (s : PState) (items : List Item) (m : ImpMovement) (h : PModel s items) :
    PModel (addMovementStep s m) (items ++ [.inr m]) := by
  unfold PModel
  rw [movement_patch_appended, List.map_append, List.map_append, h]
  congr 1
  · apply List.map_congr_left
    intro it hit
    obtain ⟨l, hl⟩ := pModel_known h it hit
    rw [hl, labelIn_moveStep s m it l hl]
  · simp [slotOf, labelIn, movement_label_assigned]

/-! ### everything together -/

/-- The hoisting fields of `s` after the parser has processed the inline texts `P`, the `moves()` items
`M`, in the interleaving `items`, starting from empty tables. -/
structure Model (s : PState) (P : List ImpText) (M : List ImpMovement) (items : List Item) : Prop where
  texts : TModel s P
  moves : MModel s M
  patches : PModel s items
  inv : HoistInv s

theorem model_init (toks : List Tok) (eof : Tok) : Model { toks := toks, eof := eof } [] [] [] :=
  ⟨gModel_init _ _ _ _, gModel_init _ _ _ _, rfl, hoistInv_initial toks eof⟩

/-- The fields `Model` talks about. -/
def hfields (s : PState) := (textFields s, moveFields s, s.patches)

theorem model_congr {s s' : PState} {P M items} (h : hfields s' = hfields s) (hm : Model s P M items) :
    Model s' P M items := by
  simp only [hfields, textFields, moveFields, Prod.mk.injEq] at h
  obtain ⟨⟨a1, a2, a3⟩, ⟨b1, b2, b3⟩, c⟩ := h
  obtain ⟨h1, h2, h3, h4⟩ := hm
  refine ⟨?_, ?_, ?_, textInv_congr a1 a2 a3 h4.1, moveInv_congr b1 b2 b3 h4.2⟩
  · unfold TModel textFields at *; rw [a1, a2, a3]; exact h1
  · unfold MModel moveFields at *; rw [b1, b2, b3]; exact h2
  · unfold PModel at *
    rw [c, h3]
    apply List.map_congr_left
    intro it _
    cases it <;> simp [labelIn, a2, b2]

theorem model_textStep {s : PState} {P M items} (t : ImpText) (h : Model s P M items) :
    Model (addTextStep s t) (P ++ [t]) M (items ++ [.inl t]) :=
  ⟨tModel_textStep s P t h.texts, mModel_textStep s M t h.moves, pModel_textStep s items t h.patches,
   hoistInv_addTextStep s t h.inv⟩

theorem model_moveStep {s : PState} {P M items} (m : ImpMovement) (h : Model s P M items) :
    Model (addMovementStep s m) P (M ++ [m]) (items ++ [.inr m]) :=
  ⟨tModel_moveStep s P m h.texts, mModel_moveStep s M m h.moves, pModel_moveStep s items m h.patches,
   hoistInv_addMovementStep s m h.inv⟩

theorem model_texts_fold (ts : List ImpText) {s : PState} {P M items} (h : Model s P M items) :
    Model (ts.foldl addTextStep s) (P ++ ts) M (items ++ ts.map .inl) := by
  induction ts generalizing s P items with
  | nil => simpa using h
  | cons t r ih =>
    have := ih (model_textStep t h)
    simpa [List.append_assoc] using this

theorem model_moves_fold (ms : List ImpMovement) {s : PState} {P M items} (h : Model s P M items) :
    Model (ms.foldl addMovementStep s) P (M ++ ms) (items ++ ms.map .inr) := by
  induction ms generalizing s M items with
  | nil => simpa using h
  | cons m r ih =>
    have := ih (model_moveStep m h)
    simpa [List.append_assoc] using this

/-- The state change of `addImplicitData d` (`C06b.wp_addImplicitData`). -/
def stepData (s : PState) (d : ImpData) : PState :=
  d.movements.foldl addMovementStep (d.texts.foldl addTextStep s)

theorem model_stepData (d : ImpData) {s : PState} {P M items} (h : Model s P M items) :
    Model (stepData s d) (P ++ d.texts) (M ++ d.movements) (items ++ itemsOf d) := by
  have := model_moves_fold d.movements (model_texts_fold d.texts h)
  simpa [stepData, itemsOf, List.append_assoc] using this

/-! ### closed forms -/

/-- The hoisted text records produced for the inline texts `P` (all inline texts of the file in the order
in which `addImplicitData` sees them): one per first occurrence of a `(content, string type)` key. -/
def hoistedTexts (P : List ImpText) : List Text :=
  mkRecs getImplicitTextLabel (·.scriptName) textRec [] (firstOccBy keyOf P)

/-- The owning scripts of the hoisted texts, in order. -/
def textOwners (P : List ImpText) : List String := (firstOccBy keyOf P).map (·.scriptName)

def hoistedMoves (M : List ImpMovement) : List MovementStmt :=
  mkRecs getImplicitMovementLabel (·.scriptName) moveRec [] (firstOccBy mkeyOf M)

def moveOwners (M : List ImpMovement) : List String := (firstOccBy mkeyOf M).map (·.scriptName)

theorem model_inlineTexts {s : PState} {P M items} (h : Model s P M items) :
    s.inlineTexts = hoistedTexts P := h.texts.recs

theorem model_inlineMovements {s : PState} {P M items} (h : Model s P M items) :
    s.inlineMovements = hoistedMoves M := h.moves.recs

theorem model_textCounts {s : PState} {P M items} (h : Model s P M items) (o : String) :
    lookupD s.inlineTextCounts o = (textOwners P).count o := h.texts.counts o

theorem model_moveCounts {s : PState} {P M items} (h : Model s P M items) (o : String) :
    lookupD s.inlineMovementCounts o = (moveOwners M).count o := h.moves.counts o

theorem hoistedTexts_length (P : List ImpText) : (hoistedTexts P).length = (firstOccBy keyOf P).length :=
  mkRecs_length _ _ _ _ _

/-- Names: `<owner>_Text_<k>`, `k` = number of earlier hoisted texts of the same owner. -/
theorem hoistedTexts_names (P : List ImpText) :
    (hoistedTexts P).map (·.name) = numFrom getImplicitTextLabel [] (textOwners P) :=
  mkRecs_map_name _ _ _ _ (fun _ _ => rfl) _ _

/-- Contents: the keys of the first occurrences, in order of first appearance. -/
theorem hoistedTexts_keys (P : List ImpText) :
    (hoistedTexts P).map (fun x => (x.value, x.stringType)) = (firstOccBy keyOf P).map keyOf :=
  mkRecs_map _ _ textRec (fun x => (x.value, x.stringType)) keyOf (fun _ _ => rfl) _ _

theorem hoistedTexts_toks (P : List ImpText) :
    (hoistedTexts P).map (·.tok) = (firstOccBy keyOf P).map (·.text) :=
  mkRecs_map _ _ textRec (·.tok) (·.text) (fun _ _ => rfl) _ _

theorem hoistedTexts_local (P : List ImpText) : ∀ x ∈ hoistedTexts P, x.isGlobal = false := by
  have h : (hoistedTexts P).map (·.isGlobal) = (firstOccBy keyOf P).map (fun _ => false) :=
    mkRecs_map _ _ textRec (·.isGlobal) (fun _ => false) (fun _ _ => rfl) _ _
  intro x hx
  have : x.isGlobal ∈ (hoistedTexts P).map (·.isGlobal) := List.mem_map.2 ⟨x, hx, rfl⟩
  rw [h] at this
  obtain ⟨_, _, e⟩ := List.mem_map.1 this
  exact e.symm

theorem text_lbl_inj : ∀ o1 o2 n1 n2, getImplicitTextLabel o1 n1 = getImplicitTextLabel o2 n2 →
    o1 = o2 ∧ n1 = n2 := fun _ _ _ _ h => text_label_inj h

theorem move_lbl_inj : ∀ o1 o2 n1 n2, getImplicitMovementLabel o1 n1 = getImplicitMovementLabel o2 n2 →
    o1 = o2 ∧ n1 = n2 := fun _ _ _ _ h => movement_label_inj h

theorem hoistedTexts_names_nodup (P : List ImpText) : ((hoistedTexts P).map (·.name)).Nodup := by
  rw [hoistedTexts_names]; exact numFrom_nodup _ text_lbl_inj _ _

theorem hoistedTexts_keys_nodup (P : List ImpText) :
    ((hoistedTexts P).map (fun x => (x.value, x.stringType))).Nodup := by
  rw [hoistedTexts_keys]; exact firstOccBy_nodup _ _

theorem hoistedMoves_length (M : List ImpMovement) :
    (hoistedMoves M).length = (firstOccBy mkeyOf M).length :=
  mkRecs_length _ _ _ _ _

theorem hoistedMoves_names (M : List ImpMovement) :
    (hoistedMoves M).map (·.name) = numFrom getImplicitMovementLabel [] (moveOwners M) :=
  mkRecs_map_name _ _ _ _ (fun _ _ => rfl) _ _

theorem hoistedMoves_keys (M : List ImpMovement) :
    (hoistedMoves M).map (fun x => getMovementsKey x.cmds) = (firstOccBy mkeyOf M).map mkeyOf :=
  mkRecs_map _ _ moveRec (fun x => getMovementsKey x.cmds) mkeyOf (fun _ _ => rfl) _ _

theorem hoistedMoves_cmds (M : List ImpMovement) :
    (hoistedMoves M).map (·.cmds) = (firstOccBy mkeyOf M).map (·.movements) :=
  mkRecs_map _ _ moveRec (·.cmds) (·.movements) (fun _ _ => rfl) _ _

theorem hoistedMoves_toks (M : List ImpMovement) :
    (hoistedMoves M).map (·.tok) = (firstOccBy mkeyOf M).map (·.cmdTok) :=
  mkRecs_map _ _ moveRec (·.tok) (·.cmdTok) (fun _ _ => rfl) _ _

theorem hoistedMoves_local (M : List ImpMovement) : ∀ x ∈ hoistedMoves M, x.scope = .LOCAL := by
  have h : (hoistedMoves M).map (·.scope) = (firstOccBy mkeyOf M).map (fun _ => TT.LOCAL) :=
    mkRecs_map _ _ moveRec (·.scope) (fun _ => TT.LOCAL) (fun _ _ => rfl) _ _
  intro x hx
  have : x.scope ∈ (hoistedMoves M).map (·.scope) := List.mem_map.2 ⟨x, hx, rfl⟩
  rw [h] at this
  obtain ⟨_, _, e⟩ := List.mem_map.1 this
  exact e.symm

theorem hoistedMoves_names_nodup (M : List ImpMovement) : ((hoistedMoves M).map (·.name)).Nodup := by
  rw [hoistedMoves_names]; exact numFrom_nodup _ move_lbl_inj _ _

theorem hoistedMoves_keys_nodup (M : List ImpMovement) :
    ((hoistedMoves M).map (fun x => getMovementsKey x.cmds)).Nodup := by
  rw [hoistedMoves_keys]; exact firstOccBy_nodup _ _

/-! ### what a patch label points to -/

/-- `Defines T Mv it l`: the label `l` is the name of exactly one of the hoisted texts `T` / movements
`Mv`; that record holds the content of the item `it` (for a text: value and string type; for a `moves()`:
the movement key, i.e. the step names), is local, and no record of the other kind has that name. -/
def Defines (T : List Text) (Mv : List MovementStmt) : Item → String → Prop
  | .inl t, l =>
    (∃ x ∈ T, x.name = l ∧ x.value = t.text.lit ∧ x.stringType = t.stringType ∧ x.isGlobal = false ∧
      ∀ y ∈ T, y.name = l → y = x) ∧ ∀ m ∈ Mv, m.name ≠ l
  | .inr m, l =>
    (∃ x ∈ Mv, x.name = l ∧ getMovementsKey x.cmds = getMovementsKey m.movements ∧ x.scope = .LOCAL ∧
      ∀ y ∈ Mv, y.name = l → y = x) ∧ ∀ t ∈ T, t.name ≠ l

theorem defines_of_labelIn {s : PState} (hi : HoistInv s) (it : Item) (l : String)
    (h : labelIn s it = some l) : Defines s.inlineTexts s.inlineMovements it l := by
  cases it with
  | inl t =>
    have hm := mem_of_lookup _ _ _ h
    obtain ⟨x, hx, h1, h2, h3⟩ := hi.1.recorded _ hm
    simp only [keyOf, Prod.mk.injEq] at h2
    refine ⟨⟨x, hx, h1, h2.1, h2.2, h3, ?_⟩, ?_⟩
    · intro y hy hyl
      exact eq_of_nodup_map _ _ (hoisted_text_names_nodup s hi.1) y hy x hx (hyl.trans h1.symm)
    · intro m hmm hml
      have : m.name ∈ s.inlineMovements.map (·.name) := List.mem_map.2 ⟨m, hmm, rfl⟩
      rw [hi.2.names, List.mem_reverse] at this
      obtain ⟨e2, he2, hee⟩ := List.mem_map.1 this
      exact text_movement_disjoint s hi.1 hi.2 _ hm e2 he2 (by rw [hee, hml])
  | inr m =>
    have hm := mem_of_lookup _ _ _ h
    obtain ⟨x, hx, h1, h2, h3⟩ := hi.2.recorded _ hm
    refine ⟨⟨x, hx, h1, h2, h3, ?_⟩, ?_⟩
    · intro y hy hyl
      exact eq_of_nodup_map _ _ (hoisted_movement_names_nodup s hi.2) y hy x hx (hyl.trans h1.symm)
    · intro t ht htl
      have : t.name ∈ s.inlineTexts.map (·.name) := List.mem_map.2 ⟨t, ht, rfl⟩
      rw [hi.1.names, List.mem_reverse] at this
      obtain ⟨e1, he1, hee⟩ := List.mem_map.1 this
      exact text_movement_disjoint s hi.1 hi.2 e1 he1 _ hm (by rw [hee, htl])

/-- **Patches of a modelled state**: one patch per processed item, in order, at the item's slot, with a
label that `Defines` the item's content. -/
theorem model_patches {s : PState} {P M items} (h : Model s P M items) :
    s.patches.length = items.length ∧
    ∀ (i : Nat) (q : (Nat × Nat) × String) (it : Item), s.patches[i]? = some q → items[i]? = some it →
      q.1 = slotOf it ∧ Defines s.inlineTexts s.inlineMovements it q.2 := by
  have hp := h.patches
  unfold PModel at hp
  refine ⟨by simpa using congrArg List.length hp, ?_⟩
  intro i q it hq hit
  have h1 := congrArg (fun l => l[i]?) hp
  simp only [List.getElem?_map, hq, hit, Option.map_some, Option.some.injEq, Prod.mk.injEq] at h1
  exact ⟨h1.1, defines_of_labelIn h.inv it q.2 h1.2.symm⟩

/-- Same content ⇔ same label, for two inline texts whose labels are defined in `T`. -/
theorem defines_text_label_iff {T : List Text} {Mv : List MovementStmt}
    (hk : (T.map (fun x => (x.value, x.stringType))).Nodup) {t1 t2 : ImpText} {l1 l2 : String}
    (h1 : Defines T Mv (.inl t1) l1) (h2 : Defines T Mv (.inl t2) l2) :
    l1 = l2 ↔ keyOf t1 = keyOf t2 := by
  obtain ⟨⟨x1, hx1, n1, v1, s1, _, u1⟩, _⟩ := h1
  obtain ⟨⟨x2, hx2, n2, v2, s2, _, u2⟩, _⟩ := h2
  constructor
  · intro e
    have : x2 = x1 := u1 x2 hx2 (n2.trans e.symm)
    subst this
    simp only [keyOf, Prod.mk.injEq]
    exact ⟨v1.symm.trans v2, s1.symm.trans s2⟩
  · intro e
    simp only [keyOf, Prod.mk.injEq] at e
    have : x1 = x2 := eq_of_nodup_map _ _ hk x1 hx1 x2 hx2 (by
      simp only [Prod.mk.injEq]; exact ⟨v1.trans (e.1.trans v2.symm), s1.trans (e.2.trans s2.symm)⟩)
    subst this
    exact n1.symm.trans n2

/-- Same movement key ⇔ same label. -/
theorem defines_move_label_iff {T : List Text} {Mv : List MovementStmt}
    (hk : (Mv.map (fun x => getMovementsKey x.cmds)).Nodup) {m1 m2 : ImpMovement} {l1 l2 : String}
    (h1 : Defines T Mv (.inr m1) l1) (h2 : Defines T Mv (.inr m2) l2) :
    l1 = l2 ↔ mkeyOf m1 = mkeyOf m2 := by
  obtain ⟨⟨x1, hx1, n1, v1, _, u1⟩, _⟩ := h1
  obtain ⟨⟨x2, hx2, n2, v2, _, u2⟩, _⟩ := h2
  constructor
  · intro e
    have : x2 = x1 := u1 x2 hx2 (n2.trans e.symm)
    subst this
    exact v1.symm.trans v2
  · intro e
    have : x1 = x2 := eq_of_nodup_map _ _ hk x1 hx1 x2 hx2 (v1.trans (e.trans v2.symm))
    subst this
    exact n1.symm.trans n2

/-- A text label is never a movement label. -/
theorem defines_text_ne_move {T : List Text} {Mv : List MovementStmt} {t : ImpText} {m : ImpMovement}
    {l1 l2 : String} (h1 : Defines T Mv (.inl t) l1) (h2 : Defines T Mv (.inr m) l2) : l1 ≠ l2 := by
  obtain ⟨_, hno⟩ := h1
  obtain ⟨⟨x, hx, n, _⟩, _⟩ := h2
  intro e
  exact hno x hx (n.trans e.symm)

end Pory.HoistModel
