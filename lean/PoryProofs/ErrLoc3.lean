import PoryProofs.ErrLoc2
/-
Located parser errors, part 3: conditions (auto-var operands, the collecting loops, leaf and nested
boolean expressions), labels, the switch operand loop.
-/
namespace Pory.ErrLoc
open Pory Pory.Parser

section
variable (T : List Tok) (E : Tok)

/-- Result of `expectPeekVarOrAutoVar`. -/
def OptImpOK (r : Option (String × Cmd × ImpData)) : Prop :=
  match r with
  | some x => ImpOK T E x.2.2
  | none => True

theorem optimpok_some {x : String × Cmd × ImpData} (h : ImpOK T E x.2.2) : OptImpOK T E (some x) := h
theorem optimpok_none : OptImpOK T E none := True.intro

theorem sp_expectPeekVarOrAutoVar (env : Env) (sn : String) (n : Nat) (k : Nat) (s : PState)
    (hi : Inv T E k s) :
    tri (El T E) (expectPeekVarOrAutoVar env sn n) s (Post T E k (OptImpOK T E)) := by
  unfold expectPeekVarOrAutoVar
  tstart hi
  tgo [sp_parseCommandStatement T E, optimpok_some T E, optimpok_none T E]

theorem sp_collectUntil (stop : Tok → Bool) (onEOF : PFail) (ho : El T E onEOF) :
    ∀ (n : Nat) (parts : List String) (k : Nat) (s : PState), Inv T E k s →
    tri (El T E) (collectUntil stop onEOF n parts) s (Post T E k (fun _ => True)) := by
  intro n
  induction n with
  | zero => intros; rw [collectUntil]; tsimp
  | succ n ih =>
    intro parts k s hi
    rw [collectUntil]
    tstart hi
    tgo [ih]

theorem sp_valueLoop (i : Nat) : ∀ (n c : Nat) (parts : List String) (k : Nat) (s : PState), Inv T E k s →
    tri (El T E) (valueLoop (T.getD i E) n c parts) s (Post T E k (fun _ => True)) := by
  intro n
  induction n with
  | zero => intros; rw [valueLoop]; tsimp
  | succ n ih =>
    intro c parts k s hi
    rw [valueLoop]
    tstart hi
    tgo [ih]

theorem sp_collectUntilRange (i : Nat) : ∀ (n : Nat) (parts : List String) (k : Nat) (s : PState),
    Inv T E k s → i ≤ k →
    tri (El T E) (parseConditionVarOperator.collectUntilRange (T.getD i E) n parts) s
      (Post T E k (fun _ => True)) := by
  intro n
  induction n with
  | zero => intros; rw [parseConditionVarOperator.collectUntilRange]; tsimp
  | succ n ih =>
    intro parts k s hi hik
    rw [parseConditionVarOperator.collectUntilRange]
    tstart hi
    tgo [ih]

theorem sp_parseConditionVarOperator (e : OpExpr) (n : Nat) (k : Nat) (s : PState) (hi : Inv T E k s) :
    tri (El T E) (parseConditionVarOperator e n) s (Post T E k (fun _ => True)) := by
  unfold parseConditionVarOperator
  tstart hi
  tgo [sp_valueLoop T E, sp_collectUntilRange T E]

theorem sp_parseConditionFlagLikeOperator (e : OpExpr) (nm : String) (k : Nat) (s : PState)
    (hi : Inv T E k s) :
    tri (El T E) (parseConditionFlagLikeOperator e nm) s (Post T E k (fun _ => True)) := by
  unfold parseConditionFlagLikeOperator
  tstart hi
  tgo

theorem sp_parseLeafBooleanExpression (env : Env) (sn : String) (n : Nat) (k : Nat) (s : PState)
    (hi : Inv T E k s) :
    tri (El T E) (parseLeafBooleanExpression env sn n) s (Post T E k (fun r => ImpOK T E r.2)) := by
  unfold parseLeafBooleanExpression
  tstart hi
  tgo [sp_expectPeekVarOrAutoVar T E, sp_collectUntil T E,
    sp_parseConditionVarOperator T E, sp_parseConditionFlagLikeOperator T E]

theorem sp_boolBlock (env : Env) (sn : String) : ∀ n : Nat,
    (∀ single negated k s, Inv T E k s →
      tri (El T E) (parseBooleanExpression env sn single negated n) s (Post T E k (fun r => ImpOK T E r.2))) ∧
    (∀ left single negated k s, Inv T E k s →
      tri (El T E) (parseRightSideExpression env sn left single negated n) s
        (Post T E k (fun r => ImpOK T E r.2))) := by
  intro n
  induction n with
  | zero =>
    refine ⟨?_, ?_⟩
    · intros; rw [parseBooleanExpression]; tsimp
    · intros; rw [parseRightSideExpression]; tsimp
  | succ n ih =>
    obtain ⟨ih1, ih2⟩ := ih
    refine ⟨?_, ?_⟩
    · intro single negated k s hi
      rw [parseBooleanExpression]
      tstart hi
      tgo [ih1, ih2, sp_parseLeafBooleanExpression T E]
    · intro left single negated k s hi
      rw [parseRightSideExpression]
      tstart hi
      tgo [ih1, ih2]

theorem sp_parseBooleanExpression (env : Env) (sn : String) (single negated : Bool) (n : Nat) (k : Nat)
    (s : PState) (hi : Inv T E k s) :
    tri (El T E) (parseBooleanExpression env sn single negated n) s (Post T E k (fun r => ImpOK T E r.2)) :=
  (sp_boolBlock T E env sn n).1 single negated k s hi

theorem sp_tryParseLabelStatement (k : Nat) (s : PState) (hi : Inv T E k s) :
    tri (El T E) tryParseLabelStatement s (Post T E k (fun _ => True)) := by
  unfold tryParseLabelStatement
  tstart hi
  tgo

theorem sp_switchOperandLoop (i : Nat) : ∀ (n : Nat) (parts : List String) (k : Nat) (s : PState),
    Inv T E k s →
    tri (El T E) (parseSwitchStatement.switchOperandLoop (T.getD i E) n parts) s
      (Post T E k (fun _ => True)) := by
  intro n
  induction n with
  | zero => intros; rw [parseSwitchStatement.switchOperandLoop]; tsimp
  | succ n ih =>
    intro parts k s hi
    rw [parseSwitchStatement.switchOperandLoop]
    tstart hi
    tgo [ih]

end
end Pory.ErrLoc
