import PoryProofs.TextValueParse
import PoryProofs.ListSwitchErr
/-
P2d helpers, part 2: the body of a text statement — a text value (`TVal`: `STRING`, `STRINGTYPE STRING`,
`format ( [STRINGTYPE] STRING <params> )`, parameters as C07b covers them) or a poryswitch over text values —
with ALL outcomes: the parser is the reference elaboration `elBody env` into `Except PFail`.

C12b covers cases whose values are string literals, on the success path of the header.  Here the case values are
`TVal`s (so `format(…)` is allowed inside a case, closing the gap noted at `C12b.parse_poryswitch_text_full`), and
the located errors (header: no `-s` / undefined switch; no case found; a `format()` whose font is unknown) are
part of the reference.
-/
namespace Pory.P2d
open Pory Pory.Parser Pory.C02P Pory.TopParse Pory.C07b Pory.TextValueParse
open Pory.C14b (swVal)

/-! ### decidability of `TVal.WF` -/

instance optDec {α : Type} (o : Option α) (P : α → Prop) [DecidablePred P] : Decidable (∀ t, o = some t → P t) :=
  match o with
  | none => isTrue (by intro t h; cases h)
  | some a => if h : P a then isTrue (by intro t ht; cases ht; exact h) else isFalse (fun H => h (H a rfl))

instance : DecidablePred NamedP.WF := fun n => by unfold NamedP.WF; exact inferInstance
instance : DecidablePred Pos.WF := fun p => by cases p <;> unfold Pos.WF <;> exact inferInstance
instance : DecidablePred Params.WF := fun P => by unfold Params.WF; exact inferInstance
instance : DecidablePred Params.NoRep := fun P => by unfold Params.NoRep; exact inferInstance
instance : DecidablePred TVal.WF := fun v => by cases v <;> unfold TVal.WF <;> exact inferInstance

/-! ### syntax -/

/-- One case of a text poryswitch: `key : textvalue` or `key { textvalue }`. -/
inductive TCaseV
  | colon (key c : Tok) (v : TVal)
  | brace (key lb : Tok) (v : TVal) (rb : Tok)

def TCaseV.toks : TCaseV → List Tok
  | .colon key c v => key :: c :: v.toks
  | .brace key lb v rb => key :: lb :: (v.toks ++ [rb])

def TCaseV.WF : TCaseV → Prop
  | .colon key c v => (key.type = .IDENT ∨ key.type = .INT) ∧ c.type = .COLON ∧ v.WF
  | .brace key lb v rb => (key.type = .IDENT ∨ key.type = .INT) ∧ lb.type = .LBRACE ∧ v.WF ∧ rb.type = .RBRACE

instance : DecidablePred TCaseV.WF := fun c => by cases c <;> unfold TCaseV.WF <;> exact inferInstance

def TCaseV.key : TCaseV → String
  | .colon key _ _ => key.lit
  | .brace key _ _ _ => key.lit

def TCaseV.val : TCaseV → TVal
  | .colon _ _ v => v
  | .brace _ _ v _ => v

def printCasesV : List TCaseV → List Tok
  | [] => []
  | c :: r => c.toks ++ printCasesV r

/-- The body of a text statement. -/
inductive TBody
  | val (v : TVal)
  | sw (psw lp x rp lb : Tok) (cases : List TCaseV) (rb : Tok)

def TBody.toks : TBody → List Tok
  | .val v => v.toks
  | .sw psw lp x rp lb cases rb => psw :: lp :: x :: rp :: lb :: (printCasesV cases ++ [rb])

def TBody.WF : TBody → Prop
  | .val v => v.WF
  | .sw psw lp x rp lb cases rb =>
    psw.type = .PORYSWITCH ∧ lp.type = .LPAREN ∧ x.type = .IDENT ∧ rp.type = .RPAREN ∧ lb.type = .LBRACE ∧
      (∀ c ∈ cases, c.WF) ∧ rb.type = .RBRACE

instance : DecidablePred TBody.WF := fun b => by cases b <;> unfold TBody.WF <;> exact inferInstance

/-- The last token of the body (where the body parser leaves the window). -/
def TBody.last : TBody → Tok
  | .val v => v.last
  | .sw _ _ _ _ _ _ rb => rb

/-! ### reference elaboration -/

/-- A text value: (text with the terminator of its string type, string type), or the located error of a
`format()` with an unknown font. -/
def elVal (env : Env) (v : TVal) : Except PFail (String × String) :=
  match v.raw env with
  | .ok raw => .ok (formatTextTerminator raw v.strType, v.strType)
  | .error e => .error e

/-- The case table, newest first (every case value is elaborated, in source order). -/
def elTCases (env : Env) : List TCaseV → List (String × String × String) →
    Except PFail (List (String × String × String))
  | [], acc => .ok acc
  | c :: r, acc =>
    match elVal env c.val with
    | .error e => .error e
    | .ok v => elTCases env r ((c.key, v) :: acc)

/-- The body: the value, or EXACTLY the value of the selected case (`("", "")` in the lint parser when there is
none). -/
def elBody (env : Env) : TBody → Except PFail (String × String)
  | .val v => elVal env v
  | .sw psw _ x _ _ cases _ =>
    match headerErr env psw x with
    | some e => .error e
    | none =>
      match elTCases env cases [] with
      | .error e => .error e
      | .ok cs => pick env psw x cs ("", "")

/-! ### fuel -/

def needTCases : List TCaseV → Nat
  | [] => 1
  | c :: r => 1 + c.val.need + needTCases r

def TBody.need : TBody → Nat
  | .val v => v.need
  | .sw _ _ _ _ _ cases _ => needTCases cases

theorem printNamed_length : ∀ (ns : List NamedP), ns.length ≤ (printNamed ns).length
  | [] => Nat.le_refl _
  | n :: r => by
    have := printNamed_length r
    simp only [printNamed, NamedP.toks, List.length_cons, List.length_append]
    omega

theorem TVal.need_le (v : TVal) : v.need ≤ v.toks.length := by
  cases v with
  | plain => simp [TVal.need]
  | typed => simp [TVal.need]
  | format fm lp sty text P rp =>
    have h : P.named.length ≤ P.toks.length := by
      unfold Params.toks
      cases hn : P.named with
      | nil => simp
      | cons n r =>
        have := printNamed_length (n :: r)
        simp only [List.length_append, List.length_cons] at this ⊢
        omega
    simp only [TVal.need, TVal.toks, List.length_cons, List.length_append, List.length_nil]
    omega

theorem needTCases_le : ∀ (cs : List TCaseV), needTCases cs ≤ (printCasesV cs).length + 1
  | [] => by simp [needTCases, printCasesV]
  | c :: r => by
    have := needTCases_le r
    have := TVal.need_le c.val
    cases c <;>
      simp only [needTCases, printCasesV, TCaseV.toks, TCaseV.val, List.length_cons, List.length_append,
        List.length_nil] at * <;> omega

theorem TBody.need_le (b : TBody) : b.need ≤ b.toks.length := by
  cases b with
  | val v => exact TVal.need_le v
  | sw psw lp x rp lb cases rb =>
    have := needTCases_le cases
    simp only [TBody.need, TBody.toks, List.length_cons, List.length_append, List.length_nil]
    omega

/-! ### the parser -/

theorem tval_run' (env : Env) (fuel : Nat) (s : PState) (v : TVal) (tl : List Tok) (hv : v.WF)
    (hf : v.need ≤ fuel) :
    (parseTextValue env fuel).run (st s (v.toks ++ tl)) =
      match elVal env v with
      | .ok r => .ok (r, st s (v.last :: tl))
      | .error e => .error e := by
  rw [tval_run env fuel s v tl hv hf]
  unfold elVal
  cases v.raw env <;> rfl

section
variable (env : Env) (stt : Tok) (n : Nat) (acc : List (String × String × String)) (s : PState)

theorem tcasesV_colon (key c : Tok) (v : TVal) (tl : List Tok)
    (hk : key.type = .IDENT ∨ key.type = .INT) (hc : c.type = .COLON) (hv : v.WF) (hn : v.need ≤ n) :
    (poryswitchTextCases env stt (n + 1) acc).run (st s (key :: c :: (v.toks ++ tl))) =
      match elVal env v with
      | .error e => .error e
      | .ok r => (poryswitchTextCases env stt n ((key.lit, r) :: acc)).run (st s tl) := by
  rw [poryswitchTextCases]
  have h := tval_run' env n s v tl hv hn
  cases hr : elVal env v with
  | error e => rw [hr] at h; rcases hk with hk | hk <;> simp [hk, hc, h]
  | ok r => rw [hr] at h; rcases hk with hk | hk <;> simp [hk, hc, h]

theorem tcasesV_brace (key lb : Tok) (v : TVal) (rb : Tok) (tl : List Tok)
    (hk : key.type = .IDENT ∨ key.type = .INT) (hlb : lb.type = .LBRACE) (hv : v.WF)
    (hrb : rb.type = .RBRACE) (hn : v.need ≤ n) :
    (poryswitchTextCases env stt (n + 1) acc).run (st s (key :: lb :: (v.toks ++ rb :: tl))) =
      match elVal env v with
      | .error e => .error e
      | .ok r => (poryswitchTextCases env stt n ((key.lit, r) :: acc)).run (st s tl) := by
  rw [poryswitchTextCases]
  have h := tval_run' env n s v (rb :: tl) hv hn
  cases hr : elVal env v with
  | error e => rw [hr] at h; rcases hk with hk | hk <;> simp [hk, hlb, h]
  | ok r => rw [hr] at h; rcases hk with hk | hk <;> simp [hk, hlb, hrb, h]

end

/-- The case loop over printed cases up to the closing `}` of the poryswitch. -/
theorem tcasesV_run (env : Env) (stt : Tok) (s : PState) (rb : Tok) (tl : List Tok) (hrb : rb.type = .RBRACE) :
    ∀ (cs : List TCaseV) (acc : List (String × String × String)) (f : Nat), (∀ c ∈ cs, c.WF) →
      needTCases cs ≤ f →
      (poryswitchTextCases env stt f acc).run (st s (printCasesV cs ++ rb :: tl)) =
        match elTCases env cs acc with
        | .error e => .error e
        | .ok tbl => .ok (tbl, st s (rb :: tl))
  | [], acc, f, _, hf => by
    obtain ⟨n, rfl⟩ : ∃ n, f = n + 1 := ⟨f - 1, by simp [needTCases] at hf; omega⟩
    simpa [printCasesV, elTCases] using tcases_close env stt n acc s rb tl hrb
  | c :: r, acc, f, hwf, hf => by
    obtain ⟨n, rfl⟩ : ∃ n, f = n + 1 := ⟨f - 1, by simp [needTCases] at hf; omega⟩
    have hc := hwf c (by simp)
    have hr : ∀ x ∈ r, x.WF := fun x hx => hwf x (by simp [hx])
    simp only [needTCases] at hf
    have ih := fun acc' => tcasesV_run env stt s rb tl hrb r acc' n hr (by omega)
    cases c with
    | colon key cl v =>
      simp only [TCaseV.WF] at hc
      simp only [TCaseV.val] at hf
      have := tcasesV_colon env stt n acc s key cl v (printCasesV r ++ rb :: tl) hc.1 hc.2.1 hc.2.2 (by omega)
      simp only [printCasesV, TCaseV.toks, List.cons_append, List.append_assoc]
      rw [this]
      simp only [elTCases, TCaseV.val, TCaseV.key]
      cases elVal env v with
      | error e => rfl
      | ok v' => exact ih _
    | brace key lb v rb' =>
      simp only [TCaseV.WF] at hc
      simp only [TCaseV.val] at hf
      have := tcasesV_brace env stt n acc s key lb v rb' (printCasesV r ++ rb :: tl) hc.1 hc.2.1 hc.2.2.1
        hc.2.2.2 (by omega)
      simp only [printCasesV, TCaseV.toks, List.cons_append, List.append_assoc, List.nil_append]
      rw [this]
      simp only [elTCases, TCaseV.val, TCaseV.key]
      cases elVal env v with
      | error e => rfl
      | ok v' => exact ih _

/-- `parsePoryswitchTextStatement` on a printed text poryswitch: all outcomes. -/
theorem text_switch_run (env : Env) (s : PState) (psw lp x rp lb : Tok) (cs : List TCaseV) (rb : Tok)
    (tl : List Tok) (hlp : lp.type = .LPAREN) (hx : x.type = .IDENT) (hrp : rp.type = .RPAREN)
    (hlb : lb.type = .LBRACE) (hrb : rb.type = .RBRACE) (hwf : ∀ c ∈ cs, c.WF) (fuel : Nat)
    (hf : needTCases cs ≤ fuel) :
    (parsePoryswitchTextStatement env fuel).run
        (st s (psw :: lp :: x :: rp :: lb :: (printCasesV cs ++ rb :: tl))) =
      match elBody env (.sw psw lp x rp lb cs rb) with
      | .error e => .error e
      | .ok v => .ok (v, st s (rb :: tl)) := by
  unfold parsePoryswitchTextStatement
  simp only [StateT.run_bind, run_cur, ex_bind_ok, header_total env s psw lp x rp lb _ hlp hx hrp hlb, elBody]
  cases headerErr env psw x with
  | some e => rfl
  | none =>
    simp only [ex_bind_ok, tcasesV_run env _ s rb tl hrb cs [] fuel hwf hf]
    cases elTCases env cs [] with
    | error e => rfl
    | ok tbl =>
      simp only [ex_bind_ok, pick]
      cases h1 : tbl.lookup (swVal env x.lit) with
      | some v1 => obtain ⟨a, b⟩ := v1; simp
      | none =>
        cases h2 : tbl.lookup "_" with
        | some v2 => obtain ⟨a, b⟩ := v2; simp
        | none => cases he : env.envErrors <;> simp [noCaseErr]

theorem TBody.head_type (b : TBody) (hb : b.WF) (tl : List Tok) (d : Tok) :
    ((b.toks ++ tl).headD d).type = .PORYSWITCH ↔ ∃ psw lp x rp lb cs rb, b = .sw psw lp x rp lb cs rb := by
  cases b with
  | val v =>
    have := v.head_type hb tl d
    simp only [TBody.toks]
    constructor
    · intro h
      rcases this with h' | h' | h' <;> rw [h'] at h <;> cases h
    · rintro ⟨_, _, _, _, _, _, _, h⟩; cases h
  | sw psw lp x rp lb cs rb =>
    simp only [TBody.WF] at hb
    simp [TBody.toks, hb.1]

/-- **The body of a text statement, all outcomes.** -/
theorem body_run (env : Env) (fuel : Nat) (s : PState) (b : TBody) (tl : List Tok) (hb : b.WF)
    (hf : b.need ≤ fuel) :
    (if ((b.toks ++ tl).headD s.eof).type = .PORYSWITCH then parsePoryswitchTextStatement env fuel
      else parseTextValue env fuel).run (st s (b.toks ++ tl)) =
      match elBody env b with
      | .error e => .error e
      | .ok v => .ok (v, st s (b.last :: tl)) := by
  cases b with
  | val v =>
    have hh : ¬ (((TBody.val v).toks ++ tl).headD s.eof).type = .PORYSWITCH := by
      rw [TBody.head_type _ hb]
      rintro ⟨_, _, _, _, _, _, _, h⟩; cases h
    rw [if_neg hh]
    simp only [TBody.toks, elBody, TBody.last]
    rw [tval_run' env fuel s v tl hb hf]
    cases elVal env v <;> rfl
  | sw psw lp x rp lb cs rb =>
    have hh : (((TBody.sw psw lp x rp lb cs rb).toks ++ tl).headD s.eof).type = .PORYSWITCH := by
      rw [TBody.head_type _ hb]
      exact ⟨_, _, _, _, _, _, _, rfl⟩
    rw [if_pos hh]
    obtain ⟨-, hlp, hx, hrp, hlb, hcs, hrb⟩ := hb
    have hw : (TBody.sw psw lp x rp lb cs rb).toks ++ tl =
        psw :: lp :: x :: rp :: lb :: (printCasesV cs ++ rb :: tl) := by simp [TBody.toks]
    rw [hw]
    exact text_switch_run env s psw lp x rp lb cs rb tl hlp hx hrp hlb hrb hcs fuel hf

end Pory.P2d
