import PoryProofs.BoolParse
import PoryProofs.CmdParse
import PoryProofs.SwitchParse
import PoryProofs.AutoVarParse
import PoryProofs.Properties.C11b
import PoryProofs.CmdParseImp
/-
P1 (statement grammar), stage 1: the surface syntax of script bodies, its printer, the decidable
token-type side conditions, and the reference elaboration.

* `SStmt` (with `SElif`, `SElse`, `SCase`, `SPCase`; conditions `SCond`): surface statements; every
  constructor carries the tokens it is printed with (arbitrary records: any positions, any literals;
  `swf…` fixes their types only).
    command      `name ( a0 , a1 , … )` with plain / parenthesised arguments (`cmd`, as `C10b.printCmd`) or
                 with arguments that may also contain string literals, typed strings and `moves( … )`
                 (`cmdI`, `C10c.printCmdE`); `name ( )`; `name`
    label        `name :`, `name ( global|local ) :`
    if           `if ( c ) { … } [elif ( c ) { … }]* [else { … }]`
    while        `while ( c ) { … }`, `while { … }`
    do-while     `do { … } while ( c )`
    break / continue
    switch       `switch ( var ( operand… ) ) { [case v… : …]* [default : …]* }` (`switch_`),
                 `switch ( name ( a0 , … ) ) { … }` on a configured auto-var command (`switchA`)
    poryswitch   `poryswitch ( X ) { [key : stmt | key { … }]* }` (`pory`), nested to any depth
  Conditions `c : SCond`: an expression of the grammar `SOr` of `PoryProofs/BoolParse.lean` (`||`, `&&`,
  `!( )`, parentheses over all non-autovar leaf forms), or a single auto-var leaf `[!] name(…) [op N]`.
* `printL : List SStmt → List Tok` (= `printStmts`; with `printS`, `printElifs`, `printElse`, `printCases`,
  `printPCases`, `printCond`).
* `swfL : List SStmt → Bool` — the token types (`lb.type = .LBRACE`, …), `C10b.ArgOK` / `C10c.argEOK` for
  command arguments, case values contain no `:` / EOF, switch operands no `)` / EOF, poryswitch keys are
  IDENT / INT.  `SWF b := swfL b = true`.
* `elabL env sn σ B C last b sid cid : Except PFail (List Stmt × ImpData × Nat × Nat)` — the reference
  elaboration.  `env` = the configuration (auto-var commands, `-s` switches, environment errors on/off), `sn`
  = the script name (recorded in implicit texts / movements), `σ` = constant substitution, `B` / `C` = the
  stacks of enclosing break-able / continue-able scope ids (innermost first), `last` = "the list is closed by
  `}`" (false for a switch-case body followed by another case), `sid` / `cid` = next scope id / next command
  id; the result: statements, their implicit data in source order, the counters after the list.
  Ids are handed out in source order (a loop / switch takes its scope id before anything inside it; the
  command of an auto-var condition takes its id when the condition is read: before the body of `if` /
  `while`, after the body of `do … while`; ALL cases of a poryswitch are elaborated and take ids, the
  statements (and implicit data) of the selected one are spliced in place).
  The `.error` results are the located errors the parser must report (`Violation` in
  `PoryProofs/StmtParseErr.lean`): `break` outside any loop / switch, `continue` outside any loop,
  `continue` not directly followed by `}`, duplicate `case` value, second `default`, `switch` without cases;
  an auto-var condition / switch operand that is not a configured command or whose configured argument
  position addresses no argument; `poryswitch` without `-s` switches / with an undefined switch / without a
  matching case (environment errors on).  The first one in source order is the result.
* `Ctx`, `elabE`, `elaborate : Env → String → Ctx → List SStmt → Option (List Stmt × ImpData × Ctx)`
  (`elab` is a Lean keyword) — the packaged form for a `{ … }` block (`none` exactly for the errors above;
  stacks of the result = stacks at entry by construction).
* `needL` — sufficient fuel, `needL_le : needL b ≤ 2 * (printL b).length + 1`.

Stage 2 / 3 (the parser on printed blocks) is `PoryProofs/StmtParse.lean`.
-/
namespace Pory.StmtG
open Pory Pory.Parser Pory.C02P Pory.C10b Pory.SwitchParse
open Pory.C14b (swVal)
open Pory.C10c
open Pory.C11b (operandName badPosMsg Form printAuto autoLeafT leftSideMsg)

/-! ### surface syntax -/

/-- A condition: an expression of the grammar `SOr` (`||`, `&&`, `!( )`, parentheses over the non-autovar
leaves), or a single auto-var leaf `[!] name ( a0 , … ) [op N]` (`C11b.printAuto`). -/
inductive SCond where
  | plain (g : SOr)
  | auto (fm : Form) (name lp : Tok) (a0 : List Tok) (more : List (Tok × List Tok)) (rp : Tok)

def printCond : SCond → List Tok
  | .plain g => printOr g
  | .auto fm name lp a0 more rp => printAuto fm name lp a0 more rp

def swfCond : SCond → Bool
  | .plain _ => true
  | .auto _ name lp a0 more rp =>
      name.type == .IDENT && lp.type == .LPAREN && rp.type == .RPAREN && decide (ArgOK a0) &&
        more.all (fun p => p.1.type == .COMMA && decide (ArgOK p.2))

def needCond : SCond → Nat
  | .plain g => needOr g
  | .auto _ _ _ a0 more _ => a0.length + (printMore more).length + 3

mutual
inductive SStmt where
  /-- `name ( a0 , a1 , … )`; `more` = (comma token, argument) pairs -/
  | cmd (name lp : Tok) (a0 : List Tok) (more : List (Tok × List Tok)) (rp : Tok)
  /-- `name ( a0 , a1 , … )` whose arguments may contain string literals, typed strings and `moves( … )`
  (`C10c.AElem`) -/
  | cmdI (name lp : Tok) (a0 : List AElem) (more : List (Tok × List AElem)) (rp : Tok)
  /-- `name ( )` -/
  | cmdE (name lp rp : Tok)
  /-- `name` -/
  | cmd0 (name : Tok)
  /-- `name :` -/
  | label (name colon : Tok)
  /-- `name ( global ) :` / `name ( local ) :` -/
  | labelS (name lp scope rp colon : Tok)
  /-- `if ( c ) { body } elifs els` -/
  | ite (ifTok lp : Tok) (c : SCond) (rp lb : Tok) (body : List SStmt) (rb : Tok)
      (elifs : List SElif) (els : SElse)
  /-- `while ( c ) { body }` -/
  | while_ (wTok lp : Tok) (c : SCond) (rp lb : Tok) (body : List SStmt) (rb : Tok)
  /-- `while { body }` -/
  | whileInf (wTok lb : Tok) (body : List SStmt) (rb : Tok)
  /-- `do { body } while ( c )` -/
  | doWhile (doTok lb : Tok) (body : List SStmt) (rb wTok lp : Tok) (c : SCond) (rp : Tok)
  | brk (t : Tok)
  | cont (t : Tok)
  /-- `switch ( var ( operand… ) ) { cases }` -/
  | switch_ (swTok lp varTok lp2 : Tok) (operand : List Tok) (rp2 rp lb : Tok) (cases : List SCase)
      (rb : Tok)
  /-- `switch ( name ( a0 , a1 , … ) ) { cases }` on a configured auto-var command -/
  | switchA (swTok lp name lp2 : Tok) (a0 : List Tok) (more : List (Tok × List Tok)) (rp2 rp lb : Tok)
      (cases : List SCase) (rb : Tok)
  /-- `poryswitch ( X ) { cases }` -/
  | pory (psTok lp x rp lb : Tok) (cases : List SPCase) (rb : Tok)
inductive SElif where
  /-- `elif ( c ) { body }` -/
  | mk (eTok lp : Tok) (c : SCond) (rp lb : Tok) (body : List SStmt) (rb : Tok)
inductive SElse where
  | none
  /-- `else { body }` -/
  | some (eTok lb : Tok) (body : List SStmt) (rb : Tok)
inductive SCase where
  /-- `case v… : body` -/
  | case (cTok : Tok) (vs : List Tok) (colon : Tok) (body : List SStmt)
  /-- `default : body` -/
  | dflt (dTok colon : Tok) (body : List SStmt)
inductive SPCase where
  /-- `key : stmt` (exactly one statement) -/
  | colon (key c : Tok) (stmt : SStmt)
  /-- `key { body }` -/
  | brace (key lb : Tok) (body : List SStmt) (rb : Tok)
end

/-! ### printer -/
mutual
def printS : SStmt → List Tok
  | .cmd name lp a0 more rp => printCmd name lp a0 more rp
  | .cmdI name lp a0 more rp => printCmdE name lp a0 more rp
  | .cmdE name lp rp => [name, lp, rp]
  | .cmd0 name => [name]
  | .label name colon => [name, colon]
  | .labelS name lp sc rp colon => [name, lp, sc, rp, colon]
  | .ite ifTok lp c rp lb body rb elifs els =>
      ifTok :: lp :: (printCond c ++ rp :: lb :: (printL body ++ rb :: (printElifs elifs ++ printElse els)))
  | .while_ w lp c rp lb body rb => w :: lp :: (printCond c ++ rp :: lb :: (printL body ++ [rb]))
  | .whileInf w lb body rb => w :: lb :: (printL body ++ [rb])
  | .doWhile d lb body rb w lp c rp => d :: lb :: (printL body ++ rb :: w :: lp :: (printCond c ++ [rp]))
  | .brk t => [t]
  | .cont t => [t]
  | .switch_ sw lp v lp2 ops rp2 rp lb cases rb =>
      sw :: lp :: v :: lp2 :: (ops ++ rp2 :: rp :: lb :: (printCases cases ++ [rb]))
  | .switchA sw lp name lp2 a0 more rp2 rp lb cases rb =>
      sw :: lp :: (printCmd name lp2 a0 more rp2 ++ rp :: lb :: (printCases cases ++ [rb]))
  | .pory ps lp x rp lb cases rb => ps :: lp :: x :: rp :: lb :: (printPCases cases ++ [rb])
def printL : List SStmt → List Tok
  | [] => []
  | x :: r => printS x ++ printL r
def printElif : SElif → List Tok
  | .mk e lp c rp lb body rb => e :: lp :: (printCond c ++ rp :: lb :: (printL body ++ [rb]))
def printElifs : List SElif → List Tok
  | [] => []
  | e :: r => printElif e ++ printElifs r
def printElse : SElse → List Tok
  | .none => []
  | .some e lb body rb => e :: lb :: (printL body ++ [rb])
def printCase : SCase → List Tok
  | .case c vs colon body => c :: (vs ++ colon :: printL body)
  | .dflt d colon body => d :: colon :: printL body
def printCases : List SCase → List Tok
  | [] => []
  | c :: r => printCase c ++ printCases r
def printPCase : SPCase → List Tok
  | .colon key c x => key :: c :: printS x
  | .brace key lb body rb => key :: lb :: (printL body ++ [rb])
def printPCases : List SPCase → List Tok
  | [] => []
  | c :: r => printPCase c ++ printPCases r
end

/-- `printStmts` of the task statement. -/
abbrev printStmts : List SStmt → List Tok := printL

/-! ### token-type side conditions -/

/-- A value token of a `case`: not `:` and not the end of input. -/
def caseValTok (v : Tok) : Bool := v.type != .COLON && v.type != .EOF
/-- An operand token of `switch (var( … ))`: not `)` and not the end of input. -/
def operandTok (o : Tok) : Bool := o.type != .RPAREN && o.type != .EOF

mutual
def swfS : SStmt → Bool
  | .cmd name lp a0 more rp =>
      name.type == .IDENT && lp.type == .LPAREN && rp.type == .RPAREN && decide (ArgOK a0) &&
        more.all (fun p => p.1.type == .COMMA && decide (ArgOK p.2))
  | .cmdI name lp a0 more rp =>
      name.type == .IDENT && lp.type == .LPAREN && rp.type == .RPAREN && argEOK a0 &&
        more.all (fun p => p.1.type == .COMMA && argEOK p.2)
  | .cmdE name lp rp => name.type == .IDENT && lp.type == .LPAREN && rp.type == .RPAREN
  | .cmd0 name => name.type == .IDENT
  | .label name colon => name.type == .IDENT && colon.type == .COLON
  | .labelS name lp sc rp colon =>
      name.type == .IDENT && lp.type == .LPAREN && (sc.type == .GLOBAL || sc.type == .LOCAL) &&
        rp.type == .RPAREN && colon.type == .COLON
  | .ite ifTok lp c rp lb body rb elifs els =>
      ifTok.type == .IF && lp.type == .LPAREN && rp.type == .RPAREN && lb.type == .LBRACE &&
        rb.type == .RBRACE && swfL body && swfElifs elifs && swfElse els && swfCond c
  | .while_ w lp c rp lb body rb =>
      w.type == .WHILE && lp.type == .LPAREN && rp.type == .RPAREN && lb.type == .LBRACE &&
        rb.type == .RBRACE && swfL body && swfCond c
  | .whileInf w lb body rb => w.type == .WHILE && lb.type == .LBRACE && rb.type == .RBRACE && swfL body
  | .doWhile d lb body rb w lp c rp =>
      d.type == .DO && lb.type == .LBRACE && rb.type == .RBRACE && w.type == .WHILE &&
        lp.type == .LPAREN && rp.type == .RPAREN && swfL body && swfCond c
  | .brk t => t.type == .BREAK
  | .cont t => t.type == .CONTINUE
  | .switch_ sw lp v lp2 ops rp2 rp lb cases rb =>
      sw.type == .SWITCH && lp.type == .LPAREN && v.type == .VAR && lp2.type == .LPAREN &&
        ops.all operandTok && rp2.type == .RPAREN && rp.type == .RPAREN && lb.type == .LBRACE &&
        rb.type == .RBRACE && swfCases cases
  | .switchA sw lp name lp2 a0 more rp2 rp lb cases rb =>
      sw.type == .SWITCH && lp.type == .LPAREN && name.type == .IDENT && lp2.type == .LPAREN &&
        decide (ArgOK a0) && more.all (fun p => p.1.type == .COMMA && decide (ArgOK p.2)) &&
        rp2.type == .RPAREN && rp.type == .RPAREN && lb.type == .LBRACE && rb.type == .RBRACE &&
        swfCases cases
  | .pory ps lp x rp lb cases rb =>
      ps.type == .PORYSWITCH && lp.type == .LPAREN && x.type == .IDENT && rp.type == .RPAREN &&
        lb.type == .LBRACE && rb.type == .RBRACE && swfPCases cases
def swfL : List SStmt → Bool
  | [] => true
  | x :: r => swfS x && swfL r
def swfElif : SElif → Bool
  | .mk e lp c rp lb body rb =>
      e.type == .ELSEIF && lp.type == .LPAREN && rp.type == .RPAREN && lb.type == .LBRACE &&
        rb.type == .RBRACE && swfL body && swfCond c
def swfElifs : List SElif → Bool
  | [] => true
  | e :: r => swfElif e && swfElifs r
def swfElse : SElse → Bool
  | .none => true
  | .some e lb body rb => e.type == .ELSE && lb.type == .LBRACE && rb.type == .RBRACE && swfL body
def swfCase : SCase → Bool
  | .case c vs colon body => c.type == .CASE && vs.all caseValTok && colon.type == .COLON && swfL body
  | .dflt d colon body => d.type == .DEFAULT && colon.type == .COLON && swfL body
def swfCases : List SCase → Bool
  | [] => true
  | c :: r => swfCase c && swfCases r
def swfPCase : SPCase → Bool
  | .colon key c x => (key.type == .IDENT || key.type == .INT) && c.type == .COLON && swfS x
  | .brace key lb body rb =>
      (key.type == .IDENT || key.type == .INT) && lb.type == .LBRACE && rb.type == .RBRACE && swfL body
def swfPCases : List SPCase → Bool
  | [] => true
  | c :: r => swfPCase c && swfPCases r
end

/-- Well-formedness of a printed block: the token types of the documented grammar. -/
def SWF (b : List SStmt) : Prop := swfL b = true
instance (b : List SStmt) : Decidable (SWF b) := by unfold SWF; exact inferInstance

/-! ### reference elaboration -/

def breakOutsideErr (t : Tok) : PFail :=
  newParseError t "'break' statement outside of any break-able scope"
def continueOutsideErr (t : Tok) : PFail :=
  newParseError t "'continue' statement outside of any continue-able scope"
def continueNotLastErr (t : Tok) : PFail :=
  newParseError t "'continue' must be the last statement in block scope"
def duplicateCaseErr (c colon : Tok) (v : String) : PFail := newRangeParseError c colon (dupMsg v)
def secondDefaultErr (d : Tok) : PFail := newParseError d multiDefaultMsg
def emptySwitchErr (sw rb : Tok) : PFail :=
  newRangeParseError sw rb "switch statement has no cases or default case"

def notAutoVarErr (name : Tok) : PFail :=
  newParseError name
    s!"expected next token to be '{TT.VAR.str}' or auto-var command, got '{name.lit}' instead"
def badPosErr (name rp2 : Tok) (pos : Int) (nargs : Nat) : PFail :=
  newRangeParseError name rp2 (badPosMsg name.lit pos nargs)

/-- The configured argument position of an auto-var command when it does not address one of `nargs`
arguments. -/
def autoPosBad (av : AutoVar) (nargs : Nat) : Option Int :=
  match av.argPos with
  | none => none
  | some pos => if pos < 0 || pos > (nargs : Int) - 1 then some pos else none

def notLeafErr (name : Tok) : PFail := newParseError name (leftSideMsg name.lit)

/-- The tree of a condition and the command id after it (an auto-var leaf runs its command first: it takes
the next command id). -/
def elabCond (env : Env) (σ : String → String) : SCond → Nat → Except PFail (BoolExpr × Nat)
  | .plain g, cid => .ok (treeOr σ false g, cid)
  | .auto fm name _ a0 more rp, cid =>
      match env.autoVars.lookup name.lit with
      | none => .error (notLeafErr name)
      | some av =>
        match autoPosBad av (more.length + 1) with
        | some pos => .error (badPosErr name rp pos (more.length + 1))
        | none =>
          .ok (.leaf (autoLeafT σ fm (operandName av ((a0 :: more.map (·.2)).map (renderArg σ)))
            { id := cid, tok := name, name := name.lit, args := (a0 :: more.map (·.2)).map (renderArg σ) }),
            cid + 1)

def noSwitchesErr (ps : Tok) : PFail :=
  newParseError ps "poryswitch used, but no compile switches were specified with the '-s' option"
def undefinedSwitchErr (x : Tok) : PFail :=
  newParseError x s!"no poryswitch for '{x.lit}' was specified with the '-s' option"
def noPoryCaseErr (ps x : Tok) (v : String) : PFail :=
  newParseError ps s!"no poryswitch case found for '{x.lit}={v}', which was specified with the '-s' option"

/-- The command node of a command statement. -/
def cmdNode (cid : Nat) (name : Tok) (args : List String) : Stmt :=
  .cmd { id := cid, tok := name, name := name.lit, args := args }

/-- The value of a `case`: literals of its tokens, constants substituted, joined by single spaces. -/
def caseValue (σ : String → String) (vs : List Tok) : String := joinSp (vs.map fun v => σ v.lit)

/-- The token stored for a `case`: its first value token (the `:` when there is none) carrying the
value. -/
def caseTok (σ : String → String) (vs : List Tok) (colon : Tok) : Tok :=
  { vs.headD colon with lit := caseValue σ vs }

/-- The operand token of `switch (var( o… ))`. -/
def operandOf (σ : String → String) (ops : List Tok) (rp2 : Tok) : Tok :=
  { ops.headD rp2 with lit := joinSp (ops.map fun o => σ o.lit) }

mutual
/-- One statement. `nx` = the token after the statement is `}`. The result: the statements, their implicit
data (texts / movements of command arguments, in source order), the counters after the statement. -/
def elabS (env : Env) (sn : String) (σ : String → String) (B C : List Nat) (nx : Bool) :
    SStmt → Nat → Nat → Except PFail (List Stmt × ImpData × Nat × Nat)
  | .cmd name _ a0 more _, sid, cid =>
      .ok ([cmdNode cid name ((a0 :: more.map (·.2)).map (renderArg σ))], {}, sid, cid + 1)
  | .cmdI name _ a0 more _, sid, cid =>
      .ok ([cmdNode cid name ((a0 :: more.map (·.2)).map (renderArgE σ))],
        impArgs sn cid name 0 (a0 :: more.map (·.2)), sid, cid + 1)
  | .cmdE name _ _, sid, cid => .ok ([cmdNode cid name []], {}, sid, cid + 1)
  | .cmd0 name, sid, cid => .ok ([cmdNode cid name []], {}, sid, cid + 1)
  | .label name _, sid, cid => .ok ([.label name name.lit false], {}, sid, cid)
  | .labelS name _ sc _ _, sid, cid => .ok ([.label name name.lit (sc.type == .GLOBAL)], {}, sid, cid)
  | .ite ifTok _ c _ _ body _ elifs els, sid, cid =>
      match elabCond env σ c cid with
      | .error e => .error e
      | .ok (t, cid0) =>
        match elabL env sn σ B C true body sid cid0 with
        | .error e => .error e
        | .ok (b, m1, sid1, cid1) =>
          match elabElifs env sn σ B C elifs sid1 cid1 with
          | .error e => .error e
          | .ok (es, m2, sid2, cid2) =>
            match elabElse env sn σ B C els sid2 cid2 with
            | .error e => .error e
            | .ok (el, m3, sid3, cid3) => .ok ([.ite ifTok t b es el], m1.add (m2.add m3), sid3, cid3)
  | .while_ w _ c _ _ body _, sid, cid =>
      match elabCond env σ c cid with
      | .error e => .error e
      | .ok (t, cid0) =>
        match elabL env sn σ (sid :: B) (sid :: C) true body (sid + 1) cid0 with
        | .error e => .error e
        | .ok (b, m1, sid1, cid1) => .ok ([.while_ w sid (some t) b], m1, sid1, cid1)
  | .whileInf w _ body _, sid, cid =>
      match elabL env sn σ (sid :: B) (sid :: C) true body (sid + 1) cid with
      | .error e => .error e
      | .ok (b, m1, sid1, cid1) => .ok ([.while_ w sid none b], m1, sid1, cid1)
  | .doWhile d _ body _ _ _ c _, sid, cid =>
      match elabL env sn σ (sid :: B) (sid :: C) true body (sid + 1) cid with
      | .error e => .error e
      | .ok (b, m1, sid1, cid1) =>
        match elabCond env σ c cid1 with
        | .error e => .error e
        | .ok (t, cid2) => .ok ([.doWhile d sid t b], m1, sid1, cid2)
  | .brk t, sid, cid =>
      match B with
      | [] => .error (breakOutsideErr t)
      | b :: _ => .ok ([.brk t b], {}, sid, cid)
  | .cont t, sid, cid =>
      match C with
      | [] => .error (continueOutsideErr t)
      | c :: _ => if nx then .ok ([.cont t c], {}, sid, cid) else .error (continueNotLastErr t)
  | .switch_ sw _ _ _ ops rp2 _ _ cases rb, sid, cid =>
      match elabCases env sn σ (sid :: B) C cases [] false (sid + 1) cid with
      | .error e => .error e
      | .ok (cs, m1, sid1, cid1) =>
        if cs.isEmpty then .error (emptySwitchErr sw rb)
        else .ok ([.switch_ sw sid (operandOf σ ops rp2) cs], m1, sid1, cid1)
  | .switchA sw _ name _ a0 more rp2 _ _ cases rb, sid, cid =>
      match env.autoVars.lookup name.lit with
      | none => .error (notAutoVarErr name)
      | some av =>
        match autoPosBad av (more.length + 1) with
        | some pos => .error (badPosErr name rp2 pos (more.length + 1))
        | none =>
          match elabCases env sn σ (sid :: B) C cases [] false (sid + 1) (cid + 1) with
          | .error e => .error e
          | .ok (cs, m1, sid1, cid1) =>
            if cs.isEmpty then .error (emptySwitchErr sw rb)
            else
              .ok ([cmdNode cid name ((a0 :: more.map (·.2)).map (renderArg σ)),
                    .switch_ sw sid
                      { name with type := .IDENT,
                                  lit := operandName av ((a0 :: more.map (·.2)).map (renderArg σ)) } cs],
                   m1, sid1, cid1)
  | .pory ps _ x _ _ cases _, sid, cid =>
      if env.envErrors && env.switches.isEmpty then .error (noSwitchesErr ps)
      else if env.envErrors && (env.switches.lookup x.lit).isNone then .error (undefinedSwitchErr x)
      else
        match elabPCases env sn σ B C cases [] sid cid with
        | .error e => .error e
        | .ok (table, sid1, cid1) =>
          match selectCase env table (swVal env x.lit) with
          | some r => .ok (r.1, r.2, sid1, cid1)
          | none =>
            if env.envErrors then .error (noPoryCaseErr ps x (swVal env x.lit)) else .ok ([], {}, sid1, cid1)
/-- A statement list. `last` = the token after the list is `}`. -/
def elabL (env : Env) (sn : String) (σ : String → String) (B C : List Nat) (last : Bool) :
    List SStmt → Nat → Nat → Except PFail (List Stmt × ImpData × Nat × Nat)
  | [], sid, cid => .ok ([], {}, sid, cid)
  | x :: r, sid, cid =>
      match elabS env sn σ B C (r.isEmpty && last) x sid cid with
      | .error e => .error e
      | .ok (a, m1, sid1, cid1) =>
        match elabL env sn σ B C last r sid1 cid1 with
        | .error e => .error e
        | .ok (b, m2, sid2, cid2) => .ok (a ++ b, m1.add m2, sid2, cid2)
def elabElifs (env : Env) (sn : String) (σ : String → String) (B C : List Nat) :
    List SElif → Nat → Nat → Except PFail (List (BoolExpr × List Stmt) × ImpData × Nat × Nat)
  | [], sid, cid => .ok ([], {}, sid, cid)
  | .mk _ _ c _ _ body _ :: r, sid, cid =>
      match elabCond env σ c cid with
      | .error e => .error e
      | .ok (t, cid0) =>
        match elabL env sn σ B C true body sid cid0 with
        | .error e => .error e
        | .ok (b, m1, sid1, cid1) =>
          match elabElifs env sn σ B C r sid1 cid1 with
          | .error e => .error e
          | .ok (es, m2, sid2, cid2) => .ok ((t, b) :: es, m1.add m2, sid2, cid2)
def elabElse (env : Env) (sn : String) (σ : String → String) (B C : List Nat) :
    SElse → Nat → Nat → Except PFail (Option (List Stmt) × ImpData × Nat × Nat)
  | .none, sid, cid => .ok (none, {}, sid, cid)
  | .some _ _ body _, sid, cid =>
      match elabL env sn σ B C true body sid cid with
      | .error e => .error e
      | .ok (b, m1, sid1, cid1) => .ok (some b, m1, sid1, cid1)
/-- The cases of a switch. `seen` = the case values met so far, `hd` = a `default` was met. -/
def elabCases (env : Env) (sn : String) (σ : String → String) (B C : List Nat) :
    List SCase → List String → Bool → Nat → Nat → Except PFail (List SwitchCase × ImpData × Nat × Nat)
  | [], _, _, sid, cid => .ok ([], {}, sid, cid)
  | .case c vs colon body :: r, seen, hd, sid, cid =>
      if seen.contains (caseValue σ vs) then .error (duplicateCaseErr c colon (caseValue σ vs))
      else
        match elabL env sn σ B C r.isEmpty body sid cid with
        | .error e => .error e
        | .ok (b, m1, sid1, cid1) =>
          match elabCases env sn σ B C r (caseValue σ vs :: seen) hd sid1 cid1 with
          | .error e => .error e
          | .ok (cs, m2, sid2, cid2) => .ok ((caseTok σ vs colon, false, b) :: cs, m1.add m2, sid2, cid2)
  | .dflt d _ body :: r, seen, hd, sid, cid =>
      if hd then .error (secondDefaultErr d)
      else
        match elabL env sn σ B C r.isEmpty body sid cid with
        | .error e => .error e
        | .ok (b, m1, sid1, cid1) =>
          match elabCases env sn σ B C r seen true sid1 cid1 with
          | .error e => .error e
          | .ok (cs, m2, sid2, cid2) => .ok ((({} : Tok), true, b) :: cs, m1.add m2, sid2, cid2)
/-- The cases of a poryswitch: ALL of them are elaborated, in source order (ids are handed out, violations
reported); the result is the table the parser selects from (newest entry first), each entry with its
statements and their implicit data. -/
def elabPCases (env : Env) (sn : String) (σ : String → String) (B C : List Nat) :
    List SPCase → List (String × List Stmt × ImpData) → Nat → Nat →
      Except PFail (List (String × List Stmt × ImpData) × Nat × Nat)
  | [], acc, sid, cid => .ok (acc, sid, cid)
  | .colon key _ x :: r, acc, sid, cid =>
      match elabS env sn σ B C r.isEmpty x sid cid with
      | .error e => .error e
      | .ok (a, m1, sid1, cid1) => elabPCases env sn σ B C r ((key.lit, a, m1) :: acc) sid1 cid1
  | .brace key _ body _ :: r, acc, sid, cid =>
      match elabL env sn σ B C true body sid cid with
      | .error e => .error e
      | .ok (a, m1, sid1, cid1) => elabPCases env sn σ B C r ((key.lit, a, m1) :: acc) sid1 cid1
end

/-- What the parser threads through a script body. -/
structure Ctx where
  consts : List (String × String) := []
  nextSid : Nat := 0
  nextCmdId : Nat := 0
  breakStack : List Nat := []
  continueStack : List Nat := []

/-- The context of a parser state. -/
def ctxOf (s : PState) : Ctx :=
  { consts := s.constants, nextSid := s.nextSid, nextCmdId := s.nextCmdId,
    breakStack := s.breakStack, continueStack := s.continueStack }

/-- The reference elaboration with located errors, on a context (for a `{ … }` block). -/
def elabE (env : Env) (sn : String) (c : Ctx) (b : List SStmt) : Except PFail (List Stmt × ImpData × Ctx) :=
  match elabL env sn (substC c.consts) c.breakStack c.continueStack true b c.nextSid c.nextCmdId with
  | .error e => .error e
  | .ok (stmts, imp, sid, cid) => .ok (stmts, imp, { c with nextSid := sid, nextCmdId := cid })

/-- **The reference elaboration** of a `{ … }` block: `none` exactly for the documented violations. -/
def elaborate (env : Env) (sn : String) (c : Ctx) (b : List SStmt) : Option (List Stmt × ImpData × Ctx) :=
  (elabE env sn c b).toOption

theorem elaborate_some {env : Env} {sn : String} {c : Ctx} {b : List SStmt} {r : List Stmt × ImpData × Ctx}
    (h : elaborate env sn c b = some r) : elabE env sn c b = .ok r := by
  unfold elaborate at h
  cases h' : elabE env sn c b with
  | error e => rw [h'] at h; cases h
  | ok r' => rw [h'] at h; cases h; rfl

theorem elaborate_none {env : Env} {sn : String} {c : Ctx} {b : List SStmt}
    (h : elaborate env sn c b = none) : ∃ e, elabE env sn c b = .error e := by
  unfold elaborate at h
  cases h' : elabE env sn c b with
  | error e => exact ⟨e, rfl⟩
  | ok r' => rw [h'] at h; cases h

/-- The stacks of the resulting context are those at entry. -/
theorem elabE_stacks {env : Env} {sn : String} {c c' : Ctx} {b : List SStmt} {stmts : List Stmt}
    {imp : ImpData} (h : elabE env sn c b = .ok (stmts, imp, c')) :
    c'.breakStack = c.breakStack ∧ c'.continueStack = c.continueStack ∧ c'.consts = c.consts := by
  unfold elabE at h
  split at h
  · cases h
  · cases h; exact ⟨rfl, rfl, rfl⟩

/-! ### last token of a statement (where the parser stops) -/

def SElif.rb : SElif → Tok
  | .mk _ _ _ _ _ _ rb => rb

/-- The last token of `pre elifs…` (`pre` = the token before the first `elif`). -/
def lastElifs : List SElif → Tok → Tok
  | [], d => d
  | e :: r, _ => lastElifs r e.rb

def lastElse : SElse → Tok → Tok
  | .none, d => d
  | .some _ _ _ rb, _ => rb

/-- The last token of a statement. -/
def lastS : SStmt → Tok
  | .cmd _ _ _ _ rp => rp
  | .cmdI _ _ _ _ rp => rp
  | .cmdE _ _ rp => rp
  | .cmd0 name => name
  | .label _ colon => colon
  | .labelS _ _ _ _ colon => colon
  | .ite _ _ _ _ _ _ rb elifs els => lastElse els (lastElifs elifs rb)
  | .while_ _ _ _ _ _ _ rb => rb
  | .whileInf _ _ _ rb => rb
  | .doWhile _ _ _ _ _ _ _ rp => rp
  | .brk t => t
  | .cont t => t
  | .switch_ _ _ _ _ _ _ _ _ _ rb => rb
  | .switchA _ _ _ _ _ _ _ _ _ _ rb => rb
  | .pory _ _ _ _ _ _ rb => rb

/-! ### fuel -/
mutual
def needS : SStmt → Nat
  | .cmd _ _ a0 more _ => a0.length + (printMore more).length + 2
  | .cmdI _ _ a0 more _ => needCmdE a0 more + 1
  | .cmdE _ _ _ => 2
  | .cmd0 _ => 1
  | .label _ _ => 1
  | .labelS _ _ _ _ _ => 1
  | .ite _ _ c _ _ body _ elifs els => 3 + needCond c + needL body + needElifs elifs + needElse els
  | .while_ _ _ c _ _ body _ => 3 + needCond c + needL body
  | .whileInf _ _ body _ => 3 + needL body
  | .doWhile _ _ body _ _ _ c _ => 2 + needL body + needCond c
  | .brk _ => 1
  | .cont _ => 1
  | .switch_ _ _ _ _ ops _ _ _ cases _ => 3 + ops.length + needCases cases
  | .switchA _ _ _ _ a0 more _ _ _ cases _ => 4 + a0.length + (printMore more).length + needCases cases
  | .pory _ _ _ _ _ cases _ => 2 + needPCases cases
def needL : List SStmt → Nat
  | [] => 1
  | x :: r => 1 + needS x + needL r
def needElifs : List SElif → Nat
  | [] => 1
  | .mk _ _ c _ _ body _ :: r => 2 + needCond c + needL body + needElifs r
def needElse : SElse → Nat
  | .none => 0
  | .some _ _ body _ => needL body
def needCases : List SCase → Nat
  | [] => 1
  | .case _ vs _ body :: r => 2 + vs.length + needL body + needCases r
  | .dflt _ _ body :: r => 1 + needL body + needCases r
def needPCases : List SPCase → Nat
  | [] => 1
  | .colon _ _ x :: r => 2 + needS x + needPCases r
  | .brace _ _ body _ :: r => 1 + needL body + needPCases r
end

/-! ### the fuel bound is linear in the number of tokens -/

theorem needCond_le (c : SCond) : needCond c ≤ 2 * (printCond c).length + 1 := by
  cases c with
  | plain g => exact needOr_le g
  | auto fm name lp a0 more rp =>
    simp only [needCond, printCond, printAuto, printCmd, List.length_append, List.length_cons,
      List.length_nil]
    omega

mutual
theorem needS_le : (x : SStmt) → needS x + 1 ≤ 2 * (printS x).length
  | .cmd _ _ a0 more _ => by simp only [needS, printS, printCmd, List.length_cons, List.length_append, List.length_nil]; omega
  | .cmdI name lp a0 more rp => by
    have := needCmdE_le name lp a0 more rp
    simp only [needS, printS]; omega
  | .cmdE _ _ _ => by simp [needS, printS]
  | .cmd0 _ => by simp [needS, printS]
  | .label _ _ => by simp [needS, printS]
  | .labelS _ _ _ _ _ => by simp [needS, printS]
  | .ite _ _ c _ _ body _ elifs els => by
    have := needCond_le c; have := needL_le body; have := needElifs_le elifs; have := needElse_le els
    simp only [needS, printS, List.length_cons, List.length_append]; omega
  | .while_ _ _ c _ _ body _ => by
    have := needCond_le c; have := needL_le body
    simp only [needS, printS, List.length_cons, List.length_append, List.length_nil]; omega
  | .whileInf _ _ body _ => by
    have := needL_le body
    simp only [needS, printS, List.length_cons, List.length_append, List.length_nil]; omega
  | .doWhile _ _ body _ _ _ c _ => by
    have := needCond_le c; have := needL_le body
    simp only [needS, printS, List.length_cons, List.length_append, List.length_nil]; omega
  | .brk _ => by simp [needS, printS]
  | .cont _ => by simp [needS, printS]
  | .switch_ _ _ _ _ ops _ _ _ cases _ => by
    have := needCases_le cases
    simp only [needS, printS, List.length_cons, List.length_append, List.length_nil]; omega
  | .switchA _ _ _ _ a0 more _ _ _ cases _ => by
    have := needCases_le cases
    simp only [needS, printS, printCmd, List.length_cons, List.length_append, List.length_nil]; omega
  | .pory _ _ _ _ _ cases _ => by
    have := needPCases_le cases
    simp only [needS, printS, List.length_cons, List.length_append, List.length_nil]; omega
theorem needL_le : (b : List SStmt) → needL b ≤ 2 * (printL b).length + 1
  | [] => by simp [needL, printL]
  | x :: r => by
    have := needS_le x; have := needL_le r
    simp only [needL, printL, List.length_append]; omega
theorem needElifs_le : (es : List SElif) → needElifs es ≤ 2 * (printElifs es).length + 1
  | [] => by simp [needElifs, printElifs]
  | .mk _ _ c _ _ body _ :: r => by
    have := needCond_le c; have := needL_le body; have := needElifs_le r
    simp only [needElifs, printElifs, printElif, List.length_cons, List.length_append, List.length_nil]; omega
theorem needElse_le : (e : SElse) → needElse e ≤ 2 * (printElse e).length + 1
  | .none => by simp [needElse]
  | .some _ _ body _ => by
    have := needL_le body
    simp only [needElse, printElse, List.length_cons, List.length_append, List.length_nil]; omega
theorem needCases_le : (cs : List SCase) → needCases cs ≤ 2 * (printCases cs).length + 1
  | [] => by simp [needCases, printCases]
  | .case _ vs _ body :: r => by
    have := needL_le body; have := needCases_le r
    simp only [needCases, printCases, printCase, List.length_cons, List.length_append]; omega
  | .dflt _ _ body :: r => by
    have := needL_le body; have := needCases_le r
    simp only [needCases, printCases, printCase, List.length_cons, List.length_append]; omega
theorem needPCases_le : (cs : List SPCase) → needPCases cs ≤ 2 * (printPCases cs).length + 1
  | [] => by simp [needPCases, printPCases]
  | .colon _ _ x :: r => by
    have := needS_le x; have := needPCases_le r
    simp only [needPCases, printPCases, printPCase, List.length_cons, List.length_append]; omega
  | .brace _ _ body _ :: r => by
    have := needL_le body; have := needPCases_le r
    simp only [needPCases, printPCases, printPCase, List.length_cons, List.length_append, List.length_nil]; omega
end

end Pory.StmtG
