import PoryProofs.HoistIds
/-
Command ids of the implicit data, part 2 (helper module of C06c, part 4): the ids of the items collected
by the statement functions lie in `[nextCmdId at entry, nextCmdId at exit)`, the counter never
decreases, and the items are owned by the script name passed down (`idsAll`).
-/
namespace Pory.Parser
open Pory

/-- All items have a command id in `[lo, hi)` and the owner `sn`. -/
def ItemsIn (lo hi : Nat) (sn : String) (d : ImpData) : Prop :=
  (∀ t ∈ d.texts, lo ≤ t.cmdId ∧ t.cmdId < hi ∧ t.scriptName = sn) ∧
  (∀ m ∈ d.movements, lo ≤ m.cmdId ∧ m.cmdId < hi ∧ m.scriptName = sn)

theorem ItemsIn.empty (lo hi : Nat) (sn : String) : ItemsIn lo hi sn {} :=
  ⟨fun _ h => absurd h List.not_mem_nil, fun _ h => absurd h List.not_mem_nil⟩

theorem ItemsIn.mono {lo hi lo' hi' sn d} (h : ItemsIn lo hi sn d) (h1 : lo' ≤ lo) (h2 : hi ≤ hi') :
    ItemsIn lo' hi' sn d :=
  ⟨fun t ht => ⟨Nat.le_trans h1 (h.1 t ht).1, Nat.lt_of_lt_of_le (h.1 t ht).2.1 h2, (h.1 t ht).2.2⟩,
   fun m hm => ⟨Nat.le_trans h1 (h.2 m hm).1, Nat.lt_of_lt_of_le (h.2 m hm).2.1 h2, (h.2 m hm).2.2⟩⟩

theorem ItemsIn.add {lo hi sn d1 d2} (h1 : ItemsIn lo hi sn d1) (h2 : ItemsIn lo hi sn d2) :
    ItemsIn lo hi sn (d1.add d2) := by
  refine ⟨?_, ?_⟩
  · intro t ht
    rcases List.mem_append.1 ht with ht | ht
    · exact h1.1 t ht
    · exact h2.1 t ht
  · intro m hm
    rcases List.mem_append.1 hm with hm | hm
    · exact h1.2 m hm
    · exact h2.2 m hm

theorem ItemsOf.itemsIn {id sn b d} (h : ItemsOf id sn b d) : ItemsIn id (id + 1) sn d :=
  ⟨fun t ht => ⟨Nat.le_of_eq (h.1 t ht).1.symm, by have := (h.1 t ht).1; omega, (h.1 t ht).2.2⟩,
   fun m hm => ⟨Nat.le_of_eq (h.2 m hm).1.symm, by have := (h.2 m hm).1; omega, (h.2 m hm).2.2⟩⟩

/-- `Ext n n' sn imp r`: while the counter went from `n` to `n'` (not down), the implicit data grew from
`imp` to `r` by items with ids in `[n, n')` owned by `sn`. -/
def Ext (n n' : Nat) (sn : String) (imp r : ImpData) : Prop :=
  n ≤ n' ∧ ∀ lo, lo ≤ n → ItemsIn lo n sn imp → ItemsIn lo n' sn r

theorem Ext.refl (n : Nat) (sn : String) (imp : ImpData) : Ext n n sn imp imp :=
  ⟨Nat.le_refl _, fun _ _ h => h⟩

theorem Ext.trans {n n1 n2 sn a b c} (h1 : Ext n n1 sn a b) (h2 : Ext n1 n2 sn b c) : Ext n n2 sn a c :=
  ⟨Nat.le_trans h1.1 h2.1, fun lo hlo h => h2.2 lo (Nat.le_trans hlo h1.1) (h1.2 lo hlo h)⟩

/-- What a function without accumulator yields: the new items. -/
theorem Ext.new {n n' sn r} (h : Ext n n' sn {} r) : ItemsIn n n' sn r :=
  h.2 n (Nat.le_refl _) (ItemsIn.empty _ _ _)

theorem Ext.of_new {n n' sn r} (hle : n ≤ n') (h : ItemsIn n n' sn r) : Ext n n' sn {} r :=
  ⟨hle, fun _ hlo _ => h.mono hlo (Nat.le_refl _)⟩

/-- Appending the yield of a function without accumulator. -/
theorem Ext.add {n n' sn imp d} (h : Ext n n' sn {} d) : Ext n n' sn imp (imp.add d) :=
  ⟨h.1, fun _ hlo hi => (hi.mono (Nat.le_refl _) h.1).add (h.new.mono hlo (Nat.le_refl _))⟩

theorem Ext.weaken {n n' sn imp r} (h : Ext n n' sn imp r) (himp : ItemsIn n n sn imp) :
    Ext n n' sn {} r :=
  ⟨h.1, fun _ hlo _ => (h.2 n (Nat.le_refl _) himp).mono hlo (Nat.le_refl _)⟩

theorem empty_add (d : ImpData) : ({} : ImpData).add d = d := by
  cases d; simp [ImpData.add]

theorem Ext.empty (n : Nat) (sn : String) : Ext n n sn {} {} := Ext.refl _ _ _

/-- Sequencing: first `imp ↦ a`, then a function without accumulator yields `b`. -/
theorem Ext.seq {n n1 n2 sn imp a b} (h1 : Ext n n1 sn imp a) (h2 : Ext n1 n2 sn {} b) :
    Ext n n2 sn imp (a.add b) := h1.trans h2.add

/-- Close the verification conditions that are chains of `Ext` facts. -/
macro "extfin" : tactic => `(tactic| repeat' (first
  | trivial
  | assumption
  | exact Ext.refl _ _ _
  | (apply ite_prop_intro <;> intro _)
  | (with_reducible intro _)
  | (apply Ext.seq)))

/-! ### below the statement level -/

theorem ids_parseCommandStatement (env : Env) (sn : String) (n : Nat) (s : PState) :
    wp (parseCommandStatement env sn n) s (fun r s' => Ext s.nextCmdId s'.nextCmdId sn {} r.2) := by
  refine wp_mono (parseCommandStatement_slots env sn n s) ?_
  intro r s' h
  obtain ⟨h1, h2, h3⟩ := h
  rw [h2]
  exact Ext.of_new (Nat.le_succ _) (h1 ▸ h3.itemsIn)

/-- The implicit data of an auto-var operand (none for `var(`). -/
def autoImp : Option (String × Cmd × ImpData) → ImpData
  | none => {}
  | some x => x.2.2

theorem ids_expectPeekVarOrAutoVar (env : Env) (sn : String) (n : Nat) (s : PState) :
    wp (expectPeekVarOrAutoVar env sn n) s (fun r s' =>
      Ext s.nextCmdId s'.nextCmdId sn {} (autoImp r)) := by
  unfold expectPeekVarOrAutoVar
  tsimp [wp_spec (ids_parseCommandStatement _ _ _ _)]
  apply ite_prop_intro <;> intro _
  · apply ite_prop_intro <;> intro _
    · exact Ext.refl _ _ _
    · trivial
  · split
    · tsimp [wp_spec (ids_parseCommandStatement _ _ _ _)]
      intro a s' _ h
      split
      · tsimp; exact h
      · tsimp
        split
        · trivial
        · exact h
    · tsimp

theorem ids_parseLeafBooleanExpression (env : Env) (sn : String) (n : Nat) (s : PState) :
    wp (parseLeafBooleanExpression env sn n) s (fun r s' => Ext s.nextCmdId s'.nextCmdId sn {} r.2) := by
  unfold parseLeafBooleanExpression
  tsimp [(tframe_peekTokenIsAutoVar _).wp_iff, (tframe_collectUntil _ _ _ _).wp_iff,
    wp_spec (ids_expectPeekVarOrAutoVar _ _ _ _), (tframe_parseConditionVarOperator _ _).wp_iff,
    (tframe_parseConditionFlagLikeOperator _ _).wp_iff]
  repeat' (first
    | trivial
    | exact Ext.refl _ _ _
    | (apply ite_prop_intro <;> intro _)
    | (with_reducible intro _)
    | (split)
    | (tsimp [empty_add, (tframe_parseConditionVarOperator _ _).wp_iff]))
  all_goals assumption

theorem ids_boolBlock (env : Env) (sn : String) : ∀ n : Nat,
    (∀ single negated s, wp (parseBooleanExpression env sn single negated n) s
      (fun r s' => Ext s.nextCmdId s'.nextCmdId sn {} r.2)) ∧
    (∀ left single negated s, wp (parseRightSideExpression env sn left single negated n) s
      (fun r s' => Ext s.nextCmdId s'.nextCmdId sn {} r.2)) := by
  intro n
  induction n with
  | zero =>
    refine ⟨?_, ?_⟩
    · intro a b s; rw [parseBooleanExpression]; tsimp
    · intro l a b s; rw [parseRightSideExpression]; tsimp
  | succ n ih =>
    obtain ⟨ih1, ih2⟩ := ih
    refine ⟨?_, ?_⟩
    · intro a b s
      rw [parseBooleanExpression]
      tsimp [wp_spec (ih1 _ _ _), wp_spec (ih2 _ _ _ _), wp_spec (ids_parseLeafBooleanExpression _ _ _ _)]
      extfin
    · intro l a b s
      rw [parseRightSideExpression]
      tsimp [wp_spec (ih1 _ _ _), wp_spec (ih2 _ _ _ _)]
      extfin

theorem ids_parseBooleanExpression (env : Env) (sn : String) (single negated : Bool) (n : Nat) (s : PState) :
    wp (parseBooleanExpression env sn single negated n) s
      (fun r s' => Ext s.nextCmdId s'.nextCmdId sn {} r.2) := (ids_boolBlock env sn n).1 single negated s

/-! ### the statement block -/

/-- Folding the yield `a` of a function without accumulator into the accumulator of the recursive call. -/
theorem Ext.acc {n n1 n2 sn imp a r} (h1 : Ext n n1 sn {} a) (h2 : Ext n1 n2 sn (imp.add a) r) :
    Ext n n2 sn imp r := (h1.add).trans h2

/-- The same for the list of parsed poryswitch cases. -/
def ExtL (n n' : Nat) (sn : String) (acc r : List (String × List Stmt × ImpData)) : Prop :=
  n ≤ n' ∧ ∀ lo, lo ≤ n → (∀ e ∈ acc, ItemsIn lo n sn e.2.2) → ∀ e ∈ r, ItemsIn lo n' sn e.2.2

theorem ExtL.refl (n : Nat) (sn : String) (acc : List (String × List Stmt × ImpData)) : ExtL n n sn acc acc :=
  ⟨Nat.le_refl _, fun _ _ h => h⟩

theorem ExtL.acc {n n1 n2 sn acc r} {k : String} {st : List Stmt} {a : ImpData} (h1 : Ext n n1 sn {} a)
    (h2 : ExtL n1 n2 sn ((k, st, a) :: acc) r) : ExtL n n2 sn acc r := by
  refine ⟨Nat.le_trans h1.1 h2.1, ?_⟩
  intro lo hlo hacc
  refine h2.2 lo (Nat.le_trans hlo h1.1) ?_
  intro e he
  rcases List.mem_cons.1 he with rfl | he
  · exact h1.new.mono hlo (Nat.le_refl _)
  · exact (hacc e he).mono (Nat.le_refl _) h1.1

theorem ExtL.select {n n' sn} {cs : List (String × List Stmt × ImpData)} {env : Env} {v : String}
    {r : List Stmt × ImpData} (h : ExtL n n' sn [] cs) (hs : selectCase env cs v = some r) :
    Ext n n' sn {} r.2 := by
  obtain ⟨k, hk⟩ := selectCase_mem hs
  exact Ext.of_new h.1 (h.2 n (Nat.le_refl _) (fun _ he => absurd he List.not_mem_nil) _ hk)

theorem ExtL.nothing {n n' sn} {cs : List (String × List Stmt × ImpData)} (h : ExtL n n' sn [] cs) :
    Ext n n' sn {} {} := Ext.of_new h.1 (ItemsIn.empty _ _ _)

syntax "idfin" (" [" Lean.Parser.Tactic.simpLemma,* "]")? : tactic
macro_rules
  | `(tactic| idfin) => `(tactic| repeat' (first
      | trivial | assumption | exact Ext.refl _ _ _ | exact ExtL.refl _ _ _
      | (apply ite_prop_intro <;> intro _) | (with_reducible intro _)
      | (swp [empty_add]) | (split)
      | (apply Ext.seq) | (refine Ext.acc ?_ (by assumption)) | (refine ExtL.acc ?_ (by assumption))
      | (refine Ext.trans ?_ (by assumption))))
  | `(tactic| idfin [$ts,*]) => `(tactic| repeat' (first
      | trivial | assumption | exact Ext.refl _ _ _ | exact ExtL.refl _ _ _
      | (apply ite_prop_intro <;> intro _) | (with_reducible intro _)
      | (swp [empty_add, $ts,*]) | (split)
      | (apply Ext.seq) | (refine Ext.acc ?_ (by assumption)) | (refine ExtL.acc ?_ (by assumption))
      | (refine Ext.trans ?_ (by assumption))))

/-- The id-range invariant of the whole mutual block at fuel `n`. -/
structure IdsAll (n : Nat) : Prop where
  block : ∀ env sn tok acc imp s, wp (parseBlockStatement env sn tok n acc imp) s
    (fun r s' => Ext s.nextCmdId s'.nextCmdId sn imp r.2)
  swblock : ∀ env sn tok acc imp s, wp (parseSwitchBlockStatement env sn tok n acc imp) s
    (fun r s' => Ext s.nextCmdId s'.nextCmdId sn imp r.2)
  stmt : ∀ env sn s, wp (parseStatement env sn n) s (fun r s' => Ext s.nextCmdId s'.nextCmdId sn {} r.2)
  cond : ∀ env sn req s, wp (parseConditionExpression env sn req n) s
    (fun r s' => Ext s.nextCmdId s'.nextCmdId sn {} r.2.2)
  elifs : ∀ env sn acc imp s, wp (parseElifs env sn n acc imp) s
    (fun r s' => Ext s.nextCmdId s'.nextCmdId sn imp r.2)
  ifs : ∀ env sn s, wp (parseIfStatement env sn n) s (fun r s' => Ext s.nextCmdId s'.nextCmdId sn {} r.2)
  whiles : ∀ env sn s, wp (parseWhileStatement env sn n) s
    (fun r s' => Ext s.nextCmdId s'.nextCmdId sn {} r.2)
  doWhiles : ∀ env sn s, wp (parseDoWhileStatement env sn n) s
    (fun r s' => Ext s.nextCmdId s'.nextCmdId sn {} r.2)
  cases : ∀ env sn tok cs vals hd imp s, wp (parseSwitchCases env sn tok n cs vals hd imp) s
    (fun r s' => Ext s.nextCmdId s'.nextCmdId sn imp r.2.2)
  switch : ∀ env sn s, wp (parseSwitchStatement env sn n) s
    (fun r s' => Ext s.nextCmdId s'.nextCmdId sn {} r.2)
  pory : ∀ env sn s, wp (parsePoryswitchStatement env sn n) s
    (fun r s' => Ext s.nextCmdId s'.nextCmdId sn {} r.2)
  poryCases : ∀ env sn tok acc s, wp (parsePoryswitchStatementCases env sn tok n acc) s
    (fun r s' => ExtL s.nextCmdId s'.nextCmdId sn acc r)
  poryStmts : ∀ env sn am acc imp s, wp (parsePoryswitchStatements env sn am n acc imp) s
    (fun r s' => Ext s.nextCmdId s'.nextCmdId sn imp r.2)

theorem idsAll_zero : IdsAll 0 :=
  { block := by intros; rw [parseBlockStatement]; swp
    swblock := by intros; rw [parseSwitchBlockStatement]; swp
    stmt := by intros; rw [parseStatement]; swp
    cond := by intros; rw [parseConditionExpression]; swp
    elifs := by intros; rw [parseElifs]; swp
    ifs := by intros; rw [parseIfStatement]; swp
    whiles := by intros; rw [parseWhileStatement]; swp
    doWhiles := by intros; rw [parseDoWhileStatement]; swp
    cases := by intros; rw [parseSwitchCases]; swp
    switch := by intros; rw [parseSwitchStatement]; swp
    pory := by intros; rw [parsePoryswitchStatement]; swp
    poryCases := by intros; rw [parsePoryswitchStatementCases]; swp
    poryStmts := by intros; rw [parsePoryswitchStatements]; swp }

theorem idsAll_succ {n : Nat} (ih : IdsAll n) : IdsAll (n + 1) :=
  { block := by
      intro env sn tok acc imp s
      rw [parseBlockStatement]
      idfin [wp_spec (ih.stmt _ _ _), wp_spec (ih.block _ _ _ _ _ _)]
    swblock := by
      intro env sn tok acc imp s
      rw [parseSwitchBlockStatement]
      idfin [wp_spec (ih.stmt _ _ _), wp_spec (ih.swblock _ _ _ _ _ _)]
    stmt := by
      intro env sn s
      rw [parseStatement]
      idfin [wp_spec (ih.ifs _ _ _), wp_spec (ih.whiles _ _ _), wp_spec (ih.doWhiles _ _ _),
        wp_spec (ih.switch _ _ _), wp_spec (ih.pory _ _ _), tframe_tryParseLabelStatement.wp_iff,
        wp_spec (ids_parseCommandStatement _ _ _ _)]
    cond := by
      intro env sn req s
      rw [parseConditionExpression]
      idfin [wp_spec (ih.block _ _ _ _ _ _), wp_spec (ids_parseBooleanExpression _ _ _ _ _ _)]
    elifs := by
      intro env sn acc imp s
      rw [parseElifs]
      idfin [wp_spec (ih.cond _ _ _ _), wp_spec (ih.elifs _ _ _ _ _)]
    ifs := by
      intro env sn s
      rw [parseIfStatement]
      idfin [wp_spec (ih.cond _ _ _ _), wp_spec (ih.elifs _ _ _ _ _), wp_spec (ih.block _ _ _ _ _ _)]
    whiles := by
      intro env sn s
      rw [parseWhileStatement]
      idfin [wp_spec (ih.cond _ _ _ _)]
    doWhiles := by
      intro env sn s
      rw [parseDoWhileStatement]
      idfin [wp_spec (ih.block _ _ _ _ _ _), wp_spec (ids_parseBooleanExpression _ _ _ _ _ _)]
    cases := by
      intro env sn tok cs vals hd imp s
      rw [parseSwitchCases]
      idfin [wp_spec (ih.swblock _ _ _ _ _ _), wp_spec (ih.cases _ _ _ _ _ _ _ _),
        (tframe_collectUntil _ _ _ _).wp_iff]
    switch := by
      intro env sn s
      rw [parseSwitchStatement]
      idfin [wp_spec (ih.cases _ _ _ _ _ _ _ _), wp_spec (ids_expectPeekVarOrAutoVar _ _ _ _),
        (tframe_switchOperandLoop _ _ _).wp_iff]
    pory := by
      intro env sn s
      rw [parsePoryswitchStatement]
      idfin [wp_spec (ih.poryCases _ _ _ _ _), (tframe_parsePoryswitchHeader _).wp_iff]
      all_goals first
        | exact ExtL.select (by assumption) (by assumption)
        | exact ExtL.nothing (by assumption)
    poryCases := by
      intro env sn tok acc s
      rw [parsePoryswitchStatementCases]
      idfin [wp_spec (ih.poryStmts _ _ _ _ _ _), wp_spec (ih.poryCases _ _ _ _ _)]
    poryStmts := by
      intro env sn am acc imp s
      rw [parsePoryswitchStatements]
      idfin [wp_spec (ih.stmt _ _ _), wp_spec (ih.pory _ _ _), wp_spec (ih.poryStmts _ _ _ _ _ _)] }

theorem idsAll : ∀ n : Nat, IdsAll n
  | 0 => idsAll_zero
  | n + 1 => idsAll_succ (idsAll n)

/-- **Blocks**: the items collected for a block body have ids in `[nextCmdId at entry, nextCmdId at
exit)`, the counter does not decrease, and the items are owned by the script name of the block. -/
theorem ids_parseBlockStatement (env : Env) (sn : String) (tok : Tok) (n : Nat) (acc : List Stmt) (s : PState) :
    wp (parseBlockStatement env sn tok n acc {}) s (fun r s' =>
      s.nextCmdId ≤ s'.nextCmdId ∧ ItemsIn s.nextCmdId s'.nextCmdId sn r.2) :=
  wp_mono ((idsAll n).block env sn tok acc {} s) fun _ _ h => ⟨h.1, h.new⟩

/-! ### top-level statements -/

/-- All items have a command id in `[lo, hi)` (owners not constrained: the inline scripts of a
`mapscripts` statement have generated names). -/
def IdsIn (lo hi : Nat) (d : ImpData) : Prop :=
  (∀ t ∈ d.texts, lo ≤ t.cmdId ∧ t.cmdId < hi) ∧ (∀ m ∈ d.movements, lo ≤ m.cmdId ∧ m.cmdId < hi)

theorem ItemsIn.idsIn {lo hi sn d} (h : ItemsIn lo hi sn d) : IdsIn lo hi d :=
  ⟨fun t ht => ⟨(h.1 t ht).1, (h.1 t ht).2.1⟩, fun m hm => ⟨(h.2 m hm).1, (h.2 m hm).2.1⟩⟩

theorem IdsIn.empty (lo hi : Nat) : IdsIn lo hi {} :=
  ⟨fun _ h => absurd h List.not_mem_nil, fun _ h => absurd h List.not_mem_nil⟩

theorem IdsIn.mono {lo hi lo' hi' d} (h : IdsIn lo hi d) (h1 : lo' ≤ lo) (h2 : hi ≤ hi') : IdsIn lo' hi' d :=
  ⟨fun t ht => ⟨Nat.le_trans h1 (h.1 t ht).1, Nat.lt_of_lt_of_le (h.1 t ht).2 h2⟩,
   fun m hm => ⟨Nat.le_trans h1 (h.2 m hm).1, Nat.lt_of_lt_of_le (h.2 m hm).2 h2⟩⟩

theorem IdsIn.add {lo hi d1 d2} (h1 : IdsIn lo hi d1) (h2 : IdsIn lo hi d2) : IdsIn lo hi (d1.add d2) := by
  refine ⟨?_, ?_⟩
  · intro t ht
    rcases List.mem_append.1 ht with ht | ht
    · exact h1.1 t ht
    · exact h2.1 t ht
  · intro m hm
    rcases List.mem_append.1 hm with hm | hm
    · exact h1.2 m hm
    · exact h2.2 m hm

def ExtI (n n' : Nat) (imp r : ImpData) : Prop :=
  n ≤ n' ∧ ∀ lo, lo ≤ n → IdsIn lo n imp → IdsIn lo n' r

theorem ExtI.refl (n : Nat) (imp : ImpData) : ExtI n n imp imp := ⟨Nat.le_refl _, fun _ _ h => h⟩

theorem ExtI.new {n n' r} (h : ExtI n n' {} r) : IdsIn n n' r := h.2 n (Nat.le_refl _) (IdsIn.empty _ _)

/-- Folding the yield of a block into the accumulator of the recursive call. -/
theorem ExtI.acc {n n1 n2 sn imp a r} (h1 : n ≤ n1 ∧ ItemsIn n n1 sn a) (h2 : ExtI n1 n2 (imp.add a) r) :
    ExtI n n2 imp r :=
  ⟨Nat.le_trans h1.1 h2.1, fun lo hlo hi =>
    h2.2 lo (Nat.le_trans hlo h1.1) ((hi.mono (Nat.le_refl _) h1.1).add (h1.2.idsIn.mono hlo (Nat.le_refl _)))⟩

/-- Folding the yield of a table into the accumulator of the recursive call. -/
theorem ExtI.acc' {n n1 n2 imp a r} (h1 : ExtI n n1 {} a) (h2 : ExtI n1 n2 (imp.add a) r) :
    ExtI n n2 imp r :=
  ⟨Nat.le_trans h1.1 h2.1, fun lo hlo hi =>
    h2.2 lo (Nat.le_trans hlo h1.1) ((hi.mono (Nat.le_refl _) h1.1).add (h1.new.mono hlo (Nat.le_refl _)))⟩

/-- **Script statements**: ids in `[nextCmdId at entry, nextCmdId at exit)`, owner = the script's name. -/
theorem ids_parseScriptStatement (env : Env) (fuel : Nat) (s : PState) :
    wp (parseScriptStatement env fuel) s (fun r s' =>
      s.nextCmdId ≤ s'.nextCmdId ∧ ItemsIn s.nextCmdId s'.nextCmdId r.1.name r.2) := by
  unfold parseScriptStatement
  tsimp [(tframe_parseScopeModifier _).wp_iff, wp_spec (ids_parseBlockStatement _ _ _ _ _ _)]
  vc

theorem ids_parseTableEntries (env : Env) (ms ty : String) : ∀ (n i : Nat) (acc : List TableEntry)
    (imp : ImpData) (s : PState),
    wp (parseTableEntries env ms ty n i acc imp) s (fun r s' => ExtI s.nextCmdId s'.nextCmdId imp r.2) := by
  intro n
  induction n with
  | zero => intro i acc imp s; rw [parseTableEntries]; tsimp
  | succ n ih =>
    intro i acc imp s
    rw [parseTableEntries]
    tsimp [(tframe_tableCollect _ _ _ _).wp_iff, wp_spec (ids_parseBlockStatement _ _ _ _ _ _),
      wp_spec (ih _ _ _ _)]
    repeat' (first
      | trivial | assumption | exact ExtI.refl _ _
      | (apply ite_prop_intro <;> intro _) | (with_reducible intro _)
      | (refine ExtI.acc (by assumption) (by assumption)))

theorem ids_parseMapScriptEntries (env : Env) (ms : String) : ∀ (n : Nat) (mss : List MapScript)
    (tables : List TableMapScript) (imp : ImpData) (s : PState),
    wp (parseMapScriptEntries env ms n mss tables imp) s
      (fun r s' => ExtI s.nextCmdId s'.nextCmdId imp r.2.2) := by
  intro n
  induction n with
  | zero => intro mss tables imp s; rw [parseMapScriptEntries]; tsimp
  | succ n ih =>
    intro mss tables imp s
    rw [parseMapScriptEntries]
    tsimp [wp_spec (ids_parseBlockStatement _ _ _ _ _ _), wp_spec (ids_parseTableEntries _ _ _ _ _ _ _ _),
      wp_spec (ih _ _ _ _)]
    repeat' (first
      | trivial | assumption | exact ExtI.refl _ _
      | (apply ite_prop_intro <;> intro _) | (with_reducible intro _)
      | (refine ExtI.acc (by assumption) (by assumption))
      | (refine ExtI.acc' (by assumption) (by assumption)))

/-- **Mapscripts statements**: ids in `[nextCmdId at entry, nextCmdId at exit)`. -/
theorem ids_parseMapscriptsStatement (env : Env) (fuel : Nat) (s : PState) :
    wp (parseMapscriptsStatement env fuel) s (fun r s' =>
      s.nextCmdId ≤ s'.nextCmdId ∧ IdsIn s.nextCmdId s'.nextCmdId r.2) := by
  unfold parseMapscriptsStatement
  tsimp [(tframe_parseScopeModifier _).wp_iff, wp_spec (ids_parseMapScriptEntries _ _ _ _ _ _ _)]
  repeat' (first
    | trivial
    | (apply ite_prop_intro <;> intro _) | (with_reducible intro _))
  all_goals (rename_i h; exact ⟨h.1, h.new⟩)

/-- The remaining top-level statements do not touch the command counter. -/
theorem kn_parseTextStatement (env : Env) (fuel : Nat) (s : PState) :
    wp (parseTextStatement env fuel) s (fun _ s' => s'.nextCmdId = s.nextCmdId) := by
  unfold parseTextStatement
  tsimp [(tframe_parseScopeModifier _).wp_iff, (tframe_parsePoryswitchTextStatement _ _).wp_iff,
    (tframe_parseTextValue _ _).wp_iff, wp_modify]
  vc
  all_goals rfl

theorem kn_parseConstant (fuel : Nat) (s : PState) :
    wp (parseConstant fuel) s (fun _ s' => s'.nextCmdId = s.nextCmdId) := by
  unfold parseConstant
  tsimp [(tframe_constLoop _ _).wp_iff, wp_modify]
  vc
  all_goals rfl

end Pory.Parser
