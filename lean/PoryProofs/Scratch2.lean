import PoryProofs.ParserFrames
namespace Pory.Parser
open Pory

theorem Frame.bind {α β} {m : PM α} {f : α → PM β} (hm : Frame m) (hf : ∀ a, Frame (f a)) :
    Frame (m >>= f) := by
  intro s
  rw [wp_bind]
  refine wp_mono (hm s) ?_
  rintro a s1 ⟨l, k, rfl⟩
  refine wp_mono (hf a _) ?_
  rintro b s2 ⟨l', k', rfl⟩
  exact ⟨l', k', rfl⟩

theorem Frame.pure {α} (a : α) : Frame (pure a : PM α) := by intro s; wpsimp
theorem Frame.fail {α} (e : PFail) : Frame (fail e : PM α) := by intro s; wpsimp
theorem Frame.cur : Frame cur := by intro s; wpsimp
theorem Frame.peek : Frame peek := by intro s; wpsimp
theorem Frame.peek2 : Frame peek2 := by intro s; wpsimp
theorem Frame.peek3 : Frame peek3 := by intro s; wpsimp
theorem Frame.peek4 : Frame peek4 := by intro s; wpsimp
theorem Frame.nextToken : Frame nextToken := by intro s; wpsimp
theorem Frame.curIs (t : TT) : Frame (curIs t) := by intro s; wpsimp
theorem Frame.peekIs (t : TT) : Frame (peekIs t) := by intro s; wpsimp
theorem Frame.peek2Is (t : TT) : Frame (peek2Is t) := by intro s; wpsimp
theorem Frame.expectPeek (t : TT) : Frame (expectPeek t) := by intro s; wpsimp
theorem Frame.expectPeekErr (t : TT) : Frame (expectPeekErr t) := by intro s; wpsimp
theorem Frame.tryReplace (v : String) : Frame (tryReplaceWithConstant v) := by intro s; wpsimp
theorem Frame.get : Frame (get : PM PState) := by intro s; wpsimp

syntax "frame" : tactic
syntax "frame_let" : tactic
macro_rules
  | `(tactic| frame_let) => `(tactic|
      (intro jp;
       first
       | (have hjp : ∀ a, Frame (jp a) := by (intro a; simp only [jp]; frame)
          clear_value jp; frame)
       | (have hjp : ∀ a b, Frame (jp a b) := by (intro a b; simp only [jp]; frame)
          clear_value jp; frame)
       | (have hjp : ∀ a b c, Frame (jp a b c) := by (intro a b c; simp only [jp]; frame)
          clear_value jp; frame)
       | (clear_value jp; frame)))
  | `(tactic| frame) => `(tactic|
    first
    | frame_let
    | (lift_lets; frame_let)
    | with_reducible exact Frame.pure _ 
    | with_reducible exact Frame.fail _ 
    | with_reducible exact Frame.cur 
    | with_reducible exact Frame.peek 
    | with_reducible exact Frame.peek2
    | with_reducible exact Frame.peek3 
    | with_reducible exact Frame.peek4 
    | with_reducible exact Frame.nextToken 
    | with_reducible exact Frame.curIs _
    | with_reducible exact Frame.peekIs _ 
    | with_reducible exact Frame.peek2Is _ 
    | with_reducible exact Frame.expectPeek _ 
    | with_reducible exact Frame.expectPeekErr _
    | with_reducible exact Frame.tryReplace _ 
    | with_reducible exact Frame.get
    | with_reducible apply_assumption -exfalso -symm
    | (with_reducible refine Frame.bind ?_ (fun _ => ?_)) <;> frame
    | (split <;> frame))



example (d : TT) : Frame (parseScopeModifier d) := by
  unfold parseScopeModifier
  frame

example (env : Env) : Frame (parsePoryswitchHeader env) := by
  unfold parsePoryswitchHeader
  frame

end Pory.Parser
