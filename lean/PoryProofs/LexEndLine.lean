import PoryProofs.LexMono
import PoryProofs.Properties.C18
/-
The reported end line of every token lies inside the source (used by `PoryProofs/Properties/C18d.lean`).

`C18.token_line_in_range` bounds the *start* line of every token of `lexAll src`; here the same for the
*end* line, for every token class (including multi-line `STRING`s, `RAWSTRING`s and the `EOF` token):
`lexAll_endLine_le : t ∈ lexAll src → t.endLine ≤ lineOf src`.

`EndOK pre inp out`: every token of one `nextToken` call started at prefix `pre` ends on a line not after the
line where the call stops.
-/
namespace Pory.LexEndLine
open Pory Pory.Lexer Pory.LexPos Pory.LexMono

theorem lineOf_le (pre m : List Char) : lineOf pre ≤ lineOf (pre ++ m) := C18.lineOf_le_append pre m

/-- The line counter never decreases along steps. -/
theorem steps_line {pre inp : List Char} {p : Pos} {s' : LS} (h : Truthful pre inp p)
    (hs : Steps pre inp s') : p.line ≤ s'.p.line := by
  obtain ⟨m, _, t⟩ := hs
  rw [h.line, t.line]
  exact lineOf_le pre m

/-- The end line recorded by `readString` is not after the line where it stops. -/
theorem readString_endLine (n : Nat) {pre : List Char} {s : LS} (sb : List Char) (e : Nat × Nat × Nat)
    (h : Truthful pre s.inp s.p) (he : e.1 ≤ s.p.line) :
    (readString n s sb e).2.1.1 ≤ (readString n s sb e).2.2.p.line := by
  induction n generalizing pre s sb e with
  | zero => exact he
  | succ n ih =>
    simp only [readString]
    split
    · obtain ⟨m1, _, t1⟩ := steps_readChar h
      obtain ⟨m2, _, t2⟩ := strBody_steps ((readChar s).inp.length + 1) t1
      obtain ⟨m3, _, t3⟩ := steps_readChar t2
      have hs4 := skipWhitespace_steps t3
      obtain ⟨m4, _, t4⟩ := hs4
      refine ih _ _ t4 ?_
      exact steps_line t3 ⟨m4, by assumption, t4⟩
    · exact he

theorem readStringToken_endLine {pre : List Char} {s : LS} (h : Truthful pre s.inp s.p) :
    (readStringToken s).1.endLine ≤ (readStringToken s).2.p.line := by
  simpa [readStringToken] using readString_endLine (s.inp.length + 1) [] (0, 0, 0) h (Nat.zero_le _)

/-- What is proved of one `nextToken` call from a truthful state at prefix `pre`. -/
def EndOK (pre inp : List Char) (out : List Tok × LS × Bool) : Prop :=
  ∃ consumed, inp = consumed ++ out.2.1.inp ∧ Truthful (pre ++ consumed) out.2.1.inp out.2.1.p ∧
    ∀ t ∈ out.1, t.endLine ≤ lineOf (pre ++ consumed)

theorem simple_end {pre : List Char} {c : Char} {r : List Char} {p : Pos}
    (T : Truthful pre (c :: r) p) (hS : Simple (tokenAt ⟨c :: r, p⟩ c)) :
    EndOK pre (c :: r) (tokenAt ⟨c :: r, p⟩ c) := by
  obtain ⟨t, ht, hnm⟩ := hS
  obtain ⟨t', ts, e, hs, hm, _, ⟨mid, e2, T2⟩⟩ := tokenAt_ok T
  rw [ht] at e
  have et : t = t' := by injection e
  subst et
  have hsl : SingleLine (c :: r) t := hm.resolve_left hnm
  refine ⟨mid, e2, T2, ?_⟩
  intro x hx
  rw [ht] at hx
  simp only [List.mem_singleton] at hx
  subst hx
  obtain ⟨_, _, _, _, g1, _⟩ := hsl
  rw [g1, hs.1]
  exact lineOf_le pre mid

theorem str_end {pre : List Char} {r : List Char} {p : Pos} (T : Truthful pre ('"' :: r) p) :
    EndOK pre ('"' :: r) (strTok ⟨'"' :: r, p⟩) := by
  obtain ⟨mid, e2, T2⟩ := readStringToken_steps (s := ⟨'"' :: r, p⟩) T
  refine ⟨mid, e2, T2, ?_⟩
  intro x hx
  simp only [strTok, List.mem_singleton] at hx
  subst hx
  have := readStringToken_endLine (s := ⟨'"' :: r, p⟩) T
  rw [← T2.line]
  exact this

theorem raw_end {pre : List Char} {r : List Char} {p : Pos} (T : Truthful pre ('`' :: r) p) :
    EndOK pre ('`' :: r) (rawTok ⟨'`' :: r, p⟩) := by
  obtain ⟨t, ts, e, hs, _, _, ⟨mid, e2, T2⟩⟩ := rawTok_ok T
  have hshape : ∃ t0, (rawTok ⟨'`' :: r, p⟩).1 = [t0] ∧
      t0.endLine = (rawTok ⟨'`' :: r, p⟩).2.1.p.line := ⟨_, rfl, rfl⟩
  obtain ⟨t0, ht0, g1⟩ := hshape
  refine ⟨mid, e2, T2, ?_⟩
  intro x hx
  rw [ht0] at hx
  simp only [List.mem_singleton] at hx
  subst hx
  rw [g1, T2.line]
  exact Nat.le_refl _

theorem nul_end {pre : List Char} {r : List Char} {p : Pos} (T : Truthful pre (NUL :: r) p) :
    EndOK pre (NUL :: r) (nulTok ⟨NUL :: r, p⟩) := by
  refine ⟨[NUL], rfl, truthful_adv T, ?_⟩
  intro x hx
  simp only [nulTok, List.mem_singleton] at hx
  subst hx
  show p.line ≤ _
  rw [T.line]
  exact lineOf_le pre [NUL]

theorem eof_end {pre : List Char} {p : Pos} (T : Truthful pre [] p) :
    EndOK pre [] ([eofToken p], readChar ⟨[], p⟩, true) := by
  refine ⟨[], rfl, by simpa [readChar] using truthful_advEOF T, ?_⟩
  intro x hx
  simp only [List.mem_singleton] at hx
  subst hx
  show p.line ≤ _
  rw [T.line]
  exact lineOf_le pre []

theorem ident_end {pre : List Char} {c : Char} {r : List Char} {p : Pos}
    (T : Truthful pre (c :: r) p) :
    EndOK pre (c :: r) (identTok ⟨c :: r, p⟩ c) := by
  have T1 := truthful_adv T
  obtain ⟨e, T2, _, _⟩ := readIdentRest_spec _ r _ T1
  generalize hp1 : adv c r p = p1 at e T2
  have e' : c :: r = (c :: (readIdentRest r p1).1) ++ (readIdentRest r p1).2.inp := by
    simpa using e
  have T2' : Truthful (pre ++ c :: (readIdentRest r p1).1) (readIdentRest r p1).2.inp
      (readIdentRest r p1).2.p := by simpa using T2
  simp only [identTok, readChar, hp1]
  split
  · obtain ⟨mid2, e2, T3⟩ := readStringToken_steps (s := (readIdentRest r p1).2) T2'
    have hstr := readStringToken_endLine (s := (readIdentRest r p1).2) T2'
    refine ⟨c :: (readIdentRest r p1).1 ++ mid2, ?_, by simpa using T3, ?_⟩
    · show c :: r = c :: (readIdentRest r p1).1 ++ mid2 ++ (readStringToken (readIdentRest r p1).2).2.inp
      rw [List.append_assoc, ← e2]
      exact e'
    · intro x hx
      simp only [List.mem_cons, List.not_mem_nil, or_false] at hx
      have hfin : lineOf (pre ++ (c :: (readIdentRest r p1).1 ++ mid2)) =
          (readStringToken (readIdentRest r p1).2).2.p.line := by
        rw [T3.line]; simp
      rcases hx with rfl | rfl
      · show (readIdentRest r p1).2.p.line ≤ _
        rw [T2'.line]
        have : pre ++ (c :: (readIdentRest r p1).1 ++ mid2) = (pre ++ c :: (readIdentRest r p1).1) ++ mid2 := by
          simp
        rw [this]
        exact lineOf_le _ _
      · rw [hfin]; exact hstr
  · refine ⟨c :: (readIdentRest r p1).1, e', T2', ?_⟩
    intro x hx
    simp only [List.mem_singleton] at hx
    subst hx
    show (readIdentRest r p1).2.p.line ≤ _
    rw [T2'.line]
    exact Nat.le_refl _

theorem tokenAt_end {pre : List Char} {c : Char} {r : List Char} {p : Pos}
    (T : Truthful pre (c :: r) p) : EndOK pre (c :: r) (tokenAt ⟨c :: r, p⟩ c) := by
  rcases tokenAt_class ⟨c :: r, p⟩ c with h | ⟨hc, h⟩ | ⟨hc, h⟩ | ⟨hc, h⟩ | ⟨_, _, h⟩
  · exact simple_end T h
  · subst hc; rw [h]; exact str_end T
  · subst hc; rw [h]; exact raw_end T
  · subst hc; rw [h]; exact nul_end T
  · rw [h]; exact ident_end T

theorem endOK_shift {pre skipped rest : List Char} {out : List Tok × LS × Bool}
    (h : EndOK (pre ++ skipped) rest out) : EndOK pre (skipped ++ rest) out := by
  obtain ⟨consumed, e, T, hb⟩ := h
  refine ⟨skipped ++ consumed, by rw [e]; simp, by simpa using T, ?_⟩
  intro t ht
  simpa using hb t ht

theorem nextToken_end {pre : List Char} {s : LS} (h : Truthful pre s.inp s.p) :
    EndOK pre s.inp (nextToken s) := by
  obtain ⟨skipped, e, T⟩ := skipAll_steps h
  rw [nextToken_eq, e]
  apply endOK_shift
  generalize skipAll s = sk at T
  obtain ⟨inp, p⟩ := sk
  cases inp with
  | nil => exact eof_end T
  | cons c r => exact tokenAt_end T

theorem lexLoop_endLine (n : Nat) {pre : List Char} {s : LS} (h : Truthful pre s.inp s.p) :
    ∀ t ∈ lexLoop n s, t.endLine ≤ lineOf (pre ++ s.inp) := by
  induction n generalizing pre s with
  | zero => simp [lexLoop]
  | succ n ih =>
    obtain ⟨consumed, e, T, hb⟩ := nextToken_end h
    have hhere : ∀ t ∈ (nextToken s).1, t.endLine ≤ lineOf (pre ++ s.inp) := by
      intro t ht
      have := hb t ht
      rw [e, ← List.append_assoc]
      exact Nat.le_trans this (lineOf_le _ _)
    simp only [lexLoop]
    split
    · exact hhere
    · intro t ht
      rcases List.mem_append.1 ht with ht | ht
      · exact hhere t ht
      · have := ih T t ht
        rw [e, ← List.append_assoc]
        exact this

/-- **Every token ends on a line of the source.** -/
theorem lexAll_endLine_le (src : List Char) (t : Tok) (ht : t ∈ lexAll src) : t.endLine ≤ lineOf src := by
  have := lexLoop_endLine (src.length + 2) (truthful_init src) t ht
  simpa [initLS] using this

end Pory.LexEndLine
