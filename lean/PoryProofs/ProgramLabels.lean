import PoryProofs.Properties.C04b
import PoryProofs.Properties.C06b
import PoryProofs.Properties.C08
/-
Helpers for property C04c (whole-file label census).

§1  `scriptDefs`, `topDefs`, `programLabelDefs`, `programLabels`: the labels an accepted program
    defines, as a function of the AST (the chunk table of a script is taken from `scriptChunks`,
    its layout order from `C05.chunkOrder`, the registered jump targets from `RenderSim.regsOf`,
    exactly as in `C04.labels_of_script`).
§2  `labelsOf_emit…`: the label lines of every emitter function are that census
    (`labelsOf_emitProgram`).
§3  counting: `count_scriptNames_le` … `count_programLabels_le`: every census entry is a declared
    name (top-level name, user label statement), a generated sub-label `<script>_<d>` (d ≠ 0) that
    is laid out and registered, or a text name — counted with multiplicity.
§4  generated sub-labels: `subLabelsOf_nodup`, `subLabels_cross`, `programSubLabels_nodup`.
§5  `Closed` lines (every generated reference is defined among the same lines) and
    `closed_emitProgram`.
§6  `emitTop`, `emitTops_mem`, `emitScripts_mem`, `emitTables_mem`, `script_accepted`: the components
    of an accepted program are accepted and their lines are in the output; `entry_in_census`,
    `script_name_defined`, `…_sub_program`.
§7  `accepted_label_statements_fresh`: the label checks `renderStatements` performs.
-/
namespace Pory.C04c
open Pory Pory.Emit Pory.RenderSim

/-! ### 1. the census as a function of the AST -/

/-- The label lines contributed by the chunk `id` of a script: its own label when it is the entry
chunk or a registered jump target, then the label statements it holds. -/
def chunkDefs (name : String) (isGlobal : Bool) (G : List Chunk) (jumps : List Nat) (id : Nat) :
    List (String × Bool) :=
  (if id == 0 || jumps.contains id then [(chunkLabel name id, id == 0 && isGlobal)] else []) ++
    stmtLabels (chunkOf G id).statements

/-- `chunkDefs` in the vocabulary of `C04.labels_of_script`. -/
theorem chunkDefs_eq (name : String) (isGlobal : Bool) (G : List Chunk) (jumps : List Nat) (id : Nat) :
    chunkDefs name isGlobal G jumps id =
      (if id = 0 ∨ id ∈ jumps then [(chunkLabel name id, id == 0 && isGlobal)] else []) ++
      (match findChunk G id with | some c => stmtLabels c.statements | none => []) := by
  unfold chunkDefs chunkOf
  congr 1
  · by_cases h : id = 0 ∨ id ∈ jumps
    · have : (id == 0 || jumps.contains id) = true := by simpa using h
      rw [if_pos h, if_pos this]
    · have : ¬ ((id == 0 || jumps.contains id) = true) := by simpa using h
      rw [if_neg h, if_neg this]
  · cases findChunk G id <;> rfl

/-- Census of one script (top-level or inline): entry label, registered sub-labels and user label
statements in layout order.  Empty when the script cannot be laid out (then nothing is emitted). -/
def scriptDefs (o : Opts) (patches : List ((Nat × Nat) × String)) (s : Script) : List (String × Bool) :=
  match scriptChunks s.body with
  | .error _ => []
  | .ok G =>
    match C05.chunkOrder o G with
    | .error _ => []
    | .ok order =>
      order.flatMap (chunkDefs s.name (s.scope == .GLOBAL) G (regsOf o patches s.name G order))

def scriptsDefs (o : Opts) (patches : List ((Nat × Nat) × String)) :
    List (Option Script) → List (String × Bool)
  | [] => []
  | none :: r => scriptsDefs o patches r
  | some s :: r => scriptDefs o patches s ++ scriptsDefs o patches r

def tablesDefs (o : Opts) (patches : List ((Nat × Nat) × String)) :
    List TableMapScript → List (String × Bool)
  | [] => []
  | t :: r => (t.name, false) :: (scriptsDefs o patches (t.entries.map (·.script)) ++ tablesDefs o patches r)

def mapScriptsDefs (o : Opts) (patches : List ((Nat × Nat) × String)) (m : MapScripts) :
    List (String × Bool) :=
  (m.name, m.scope == .GLOBAL) ::
    (scriptsDefs o patches (m.mapScripts.map (·.script)) ++ tablesDefs o patches m.tables)

/-- Census of one top-level statement.  A `raw` block contributes nothing: its content is opaque
text for poryscript (labels written inside it are invisible to the compiler and to this census);
a `text` statement is rendered through `Program.texts`. -/
def topDefs (o : Opts) (patches : List ((Nat × Nat) × String)) : Top → List (String × Bool)
  | .script s => scriptDefs o patches s
  | .raw _ _ _ => []
  | .text _ => []
  | .movement m => [(m.name, m.scope == .GLOBAL)]
  | .mart _ name _ _ scope => [(name, scope == .GLOBAL)]
  | .mapscripts m => mapScriptsDefs o patches m

/-- The label definitions (name, global?) of the output of `emitProgram o p`, in output order. -/
def programLabelDefs (o : Opts) (p : Program) : List (String × Bool) :=
  p.tops.flatMap (topDefs o p.patches) ++ p.texts.map fun t => (t.name, t.isGlobal)

/-- The labels the output of `emitProgram o p` defines, in output order. -/
def programLabels (o : Opts) (p : Program) : List String := (programLabelDefs o p).map (·.1)

/-! ### 2. the label lines of the emitters -/

theorem labelsOf_flatMap_nil {α : Type} (f : α → List Line) (l : List α)
    (h : ∀ x ∈ l, labelsOf (f x) = []) : labelsOf (l.flatMap f) = [] := by
  induction l with
  | nil => rfl
  | cons a r ih =>
    rw [List.flatMap_cons, labelsOf_append, h a (by simp), ih (fun x hx => h x (by simp [hx]))]
    rfl

theorem labelsOf_layout (o : Opts) (patches : List ((Nat × Nat) × String)) (name : String)
    (G : List Chunk) (isGlobal : Bool) (jumps : List Nat) : ∀ (order : List Nat),
    labelsOf (layout o patches name G isGlobal jumps order) =
      order.flatMap (chunkDefs name isGlobal G jumps) := by
  intro order
  induction order with
  | nil => rfl
  | cons id rest ih =>
    rw [layout_cons, labelsOf_append, labelsOf_append, labelsOf_bodyOf, ih, List.flatMap_cons]
    unfold chunkDefs lbl
    split <;> simp

theorem labelsOf_emitScript (o : Opts) (patches : List ((Nat × Nat) × String)) (tl : List String)
    (s : Script) (ls : List Line) (h : emitScript o patches tl s = .ok ls) :
    labelsOf ls = scriptDefs o patches s := by
  rw [C05.emitScript_eq] at h
  unfold scriptDefs
  cases hc : scriptChunks s.body with
  | error e => rw [hc] at h; cases h
  | ok G =>
    rw [hc] at h
    simp only at h
    obtain ⟨order, ho, hls, _⟩ := renderChunks_ok o patches s.name G (s.scope == .GLOBAL) tl ls h
    simp only [ho]
    rw [hls, labelsOf_layout]

theorem labelsOf_emitScripts (o : Opts) (patches : List ((Nat × Nat) × String)) (tl : List String) :
    ∀ (ss : List (Option Script)) (ls : List Line), emitScripts o patches tl ss = .ok ls →
      labelsOf ls = scriptsDefs o patches ss := by
  intro ss
  induction ss with
  | nil => intro ls h; simp [emitScripts] at h; subst h; rfl
  | cons s r ih =>
    intro ls h
    cases s with
    | none => simp only [emitScripts] at h; exact ih ls h
    | some sc =>
      simp only [emitScripts] at h
      split at h
      · cases h
      · next p hp =>
        split at h
        · cases h
        · next rest hr =>
          injection h with h
          subst h
          rw [labelsOf_append, labelsOf_emitScript o patches tl sc p hp, ih rest hr]
          rfl

theorem labelsOf_tableHead (o : Opts) (t : TableMapScript) :
    labelsOf (C08.tableHead o t) = [(t.name, false)] := by
  unfold C08.tableHead
  rw [labelsOf_append, labelsOf_append, labelsOf_flatMap_nil]
  · simp [labelsOf, labelOf]
  · intro e _; simp [labelsOf_cons, labelOf]

theorem labelsOf_headerLines (o : Opts) (m : MapScripts) :
    labelsOf (C08.headerLines o m) = [(m.name, m.scope == .GLOBAL)] := by
  unfold C08.headerLines
  rw [labelsOf_append, labelsOf_append, labelsOf_append, labelsOf_flatMap_nil, labelsOf_flatMap_nil]
  · simp [labelsOf, labelOf]
  · intro e _; simp [labelsOf_cons, labelOf]
  · intro e _; simp [labelsOf_cons, labelOf]

theorem labelsOf_emitTables (o : Opts) (patches : List ((Nat × Nat) × String)) (tl : List String) :
    ∀ (ts : List TableMapScript) (ls : List Line), emitTables o patches tl ts = .ok ls →
      labelsOf ls = tablesDefs o patches ts := by
  intro ts
  induction ts with
  | nil => intro ls h; simp [emitTables] at h; subst h; rfl
  | cons t r ih =>
    intro ls h
    obtain ⟨scripts, rest, h1, h2, rfl⟩ := C08.table_shape o patches tl t r ls h
    rw [labelsOf_append, labelsOf_append, labelsOf_tableHead, labelsOf_emitScripts o patches tl _ _ h1,
      ih rest h2]
    rfl

theorem labelsOf_emitMapScripts (o : Opts) (patches : List ((Nat × Nat) × String)) (tl : List String)
    (m : MapScripts) (ls : List Line) (h : emitMapScripts o patches tl m = .ok ls) :
    labelsOf ls = mapScriptsDefs o patches m := by
  obtain ⟨scripts, tables, h1, h2, rfl⟩ := C08.header_shape o patches tl m ls h
  rw [labelsOf_append, labelsOf_append, labelsOf_headerLines, labelsOf_emitScripts o patches tl _ _ h1,
    labelsOf_emitTables o patches tl _ _ h2]
  rfl

theorem labelsOf_emitRaw (o : Opts) (vt : Tok) (v : String) : labelsOf (emitRaw o vt v) = [] := by
  unfold emitRaw
  apply labelsOf_flatMap_nil
  intro i _
  split <;> simp [labelsOf, labelOf]

theorem labelsOf_emitMovement (o : Opts) (m : MovementStmt) :
    labelsOf (emitMovement o m) = [(m.name, m.scope == .GLOBAL)] := by
  unfold emitMovement
  simp

theorem labelsOf_emitMart (o : Opts) (tok : Tok) (name : String) (tis : List Tok) (items : List String)
    (scope : TT) : labelsOf (emitMart o tok name tis items scope) = [(name, scope == .GLOBAL)] := by
  unfold emitMart
  simp [labelsOf_cons, labelOf]

theorem labelsOf_emitTops (o : Opts) (patches : List ((Nat × Nat) × String)) (tl : List String) :
    ∀ (tops : List Top) (i : Nat) (ls : List Line) (n : Nat),
      emitTops o patches tl tops i = .ok (ls, n) → labelsOf ls = tops.flatMap (topDefs o patches) := by
  intro tops
  induction tops with
  | nil => intro i ls n h; simp [emitTops] at h; rw [h.1]; rfl
  | cons t r ih =>
    intro i ls n h
    have hsep : labelsOf (if i > 0 then [Line.blank] else []) = [] := by
      split <;> simp [labelsOf, labelOf]
    cases t with
    | text tx => simp only [emitTops] at h; rw [List.flatMap_cons]; exact ih i ls n h
    | script s =>
      simp only [emitTops] at h
      split at h
      · cases h
      · next l hl =>
        split at h
        · cases h
        · next l' n' hr =>
          simp only [Except.ok.injEq, Prod.mk.injEq] at h
          rw [← h.1, labelsOf_append, labelsOf_append, hsep, labelsOf_emitScript o patches tl s l hl,
            ih _ _ _ hr]
          rfl
    | mapscripts m =>
      simp only [emitTops] at h
      split at h
      · cases h
      · next l hl =>
        split at h
        · cases h
        · next l' n' hr =>
          simp only [Except.ok.injEq, Prod.mk.injEq] at h
          rw [← h.1, labelsOf_append, labelsOf_append, hsep, labelsOf_emitMapScripts o patches tl m l hl,
            ih _ _ _ hr]
          rfl
    | raw tk vt v =>
      simp only [emitTops] at h
      split at h
      · cases h
      · next l' n' hr =>
        simp only [Except.ok.injEq, Prod.mk.injEq] at h
        rw [← h.1, labelsOf_append, labelsOf_append, hsep, labelsOf_emitRaw, ih _ _ _ hr]
        rfl
    | movement m =>
      simp only [emitTops] at h
      split at h
      · cases h
      · next l' n' hr =>
        simp only [Except.ok.injEq, Prod.mk.injEq] at h
        rw [← h.1, labelsOf_append, labelsOf_append, hsep, labelsOf_emitMovement, ih _ _ _ hr]
        rfl
    | mart tk name tis items scope =>
      simp only [emitTops] at h
      split at h
      · cases h
      · next l' n' hr =>
        simp only [Except.ok.injEq, Prod.mk.injEq] at h
        rw [← h.1, labelsOf_append, labelsOf_append, hsep, labelsOf_emitMart, ih _ _ _ hr]
        rfl

/-- **The census of a whole program.** -/
theorem labelsOf_emitProgram (o : Opts) (p : Program) (ls : List Line) (h : emitProgram o p = .ok ls) :
    labelsOf ls = programLabelDefs o p := by
  obtain ⟨body, i, hb, rfl⟩ := C06b.emitProgram_texts o p ls h
  rw [labelsOf_append, labelsOf_emitTops o p.patches _ p.tops 0 body i hb, C06b.labelsOf_textsBlock]
  rfl

/-! ### 3. counting: where the census entries come from -/

/-- The label statements of a script as they sit in its chunk table (table order).  Label
statements in unreachable code are included — they sit in chunks like any other. -/
def userLabelsOf (s : Script) : List String :=
  match scriptChunks s.body with
  | .error _ => []
  | .ok G => G.flatMap fun c => (stmtLabels c.statements).map (·.1)

/-- The generated sub-labels `<script>_<d>` (`d ≠ 0`) that the output defines: `d` is laid out and
registered as a jump target. -/
def subLabelsOf (o : Opts) (patches : List ((Nat × Nat) × String)) (s : Script) : List String :=
  match scriptChunks s.body with
  | .error _ => []
  | .ok G =>
    match C05.chunkOrder o G with
    | .error _ => []
    | .ok order =>
      (order.filter fun id => id != 0 && (regsOf o patches s.name G order).contains id).map
        (jumpLabel s.name)

def optScripts (l : List (Option Script)) : List Script := l.filterMap id

/-- The scripts of a top-level statement, in output order: the script itself; for `mapscripts` the
inline scripts of the entries, then those of the table rows. -/
def topScripts : Top → List Script
  | .script s => [s]
  | .mapscripts m =>
    optScripts (m.mapScripts.map (·.script)) ++
      m.tables.flatMap fun t => optScripts (t.entries.map (·.script))
  | _ => []

def scriptsOf (p : Program) : List Script := p.tops.flatMap topScripts

/-- What the author of a script declares: its name and its label statements. -/
def scriptDeclared (s : Script) : List String := s.name :: userLabelsOf s

/-- The names a top-level statement declares (user-written or parser-made, but not generated by
the emitter): statement name, names of inline scripts and tables, label statements. -/
def topDeclared : Top → List String
  | .script s => scriptDeclared s
  | .raw _ _ _ => []
  | .text _ => []
  | .movement m => [m.name]
  | .mart _ name _ _ _ => [name]
  | .mapscripts m =>
    m.name :: ((optScripts (m.mapScripts.map (·.script))).flatMap scriptDeclared ++
      m.tables.flatMap fun t => t.name :: (optScripts (t.entries.map (·.script))).flatMap scriptDeclared)

def declaredNames (p : Program) : List String := p.tops.flatMap topDeclared
def textNames (p : Program) : List String := p.texts.map (·.name)

/-- All generated sub-labels the output defines. -/
def programSubLabels (o : Opts) (p : Program) : List String :=
  (scriptsOf p).flatMap (subLabelsOf o p.patches)

def scriptNames (o : Opts) (patches : List ((Nat × Nat) × String)) (s : Script) : List String :=
  (scriptDefs o patches s).map (·.1)

theorem scriptsDefs_eq (o : Opts) (patches : List ((Nat × Nat) × String)) (ss : List (Option Script)) :
    (scriptsDefs o patches ss).map (·.1) = (optScripts ss).flatMap (scriptNames o patches) := by
  induction ss with
  | nil => rfl
  | cons s r ih =>
    cases s with
    | none => simpa [scriptsDefs, optScripts] using ih
    | some sc =>
      simp only [scriptsDefs, optScripts, List.filterMap_cons, id, List.flatMap_cons, List.map_append] at ih ⊢
      rw [ih]; rfl

theorem tablesDefs_eq (o : Opts) (patches : List ((Nat × Nat) × String)) (ts : List TableMapScript) :
    (tablesDefs o patches ts).map (·.1) =
      ts.flatMap fun t => t.name :: (optScripts (t.entries.map (·.script))).flatMap (scriptNames o patches) := by
  induction ts with
  | nil => rfl
  | cons t r ih =>
    simp only [tablesDefs, List.map_cons, List.map_append, List.flatMap_cons, List.cons_append, scriptsDefs_eq, ih]

section Count
variable (a : String)

theorem count_flatMap_append {α : Type} (f g : α → List String) (l : List α) :
    (l.flatMap fun x => f x ++ g x).count a = (l.flatMap f).count a + (l.flatMap g).count a := by
  induction l with
  | nil => rfl
  | cons x r ih => simp only [List.flatMap_cons, List.count_append, ih]; omega

theorem count_flatMap_le {α : Type} (f g h : α → List String) (l : List α)
    (H : ∀ x ∈ l, (f x).count a ≤ (g x).count a + (h x).count a) :
    (l.flatMap f).count a ≤ (l.flatMap g).count a + (l.flatMap h).count a := by
  induction l with
  | nil => simp
  | cons x r ih =>
    have h1 := H x (by simp)
    have h2 := ih (fun y hy => H y (by simp [hy]))
    simp only [List.flatMap_cons, List.count_append]
    omega

theorem count_entry (name : String) (C : Nat) (hC : [name].count a = C) (l : List Nat) :
    (l.flatMap fun id => if id == 0 then [name] else []).count a = l.count 0 * C := by
  induction l with
  | nil => simp
  | cons x r ih =>
    rw [List.flatMap_cons, List.count_append, ih, List.count_cons (a := 0)]
    by_cases hx : x = 0
    · subst hx
      have e1 : (if ((0 : Nat) == 0) = true then [name] else ([] : List String)) = [name] := rfl
      have e2 : (if ((0 : Nat) == 0) = true then 1 else 0) = 1 := rfl
      rw [e1, e2, Nat.add_mul, Nat.one_mul, Nat.add_comm, hC]
    · have : (x == 0) = false := by simpa using hx
      rw [this]
      simp only [Bool.false_eq_true, if_false, List.count_nil, Nat.zero_add, Nat.add_zero]

theorem filter_map_eq_flatMap {α β : Type} (p : α → Bool) (f : α → β) (l : List α) :
    (l.filter p).map f = l.flatMap fun x => if p x then [f x] else [] := by
  induction l with
  | nil => rfl
  | cons x r ih =>
    rw [List.filter_cons, List.flatMap_cons]
    split <;> simp [ih]

end Count

theorem chunkOf_self (G : List Chunk) (hn : (G.map (·.id)).Nodup) : ∀ c ∈ G, chunkOf G c.id = c := by
  induction G with
  | nil => intro c hc; cases hc
  | cons x r ih =>
    intro c hc
    rw [List.map_cons, List.nodup_cons] at hn
    unfold chunkOf findChunk
    rw [List.find?_cons]
    by_cases hx : x.id = c.id
    · have : (x.id == c.id) = true := by simpa using hx
      rw [this]
      rcases List.mem_cons.1 hc with rfl | hc
      · rfl
      · exact absurd (hx ▸ List.mem_map.2 ⟨c, hc, rfl⟩) hn.1
    · have : (x.id == c.id) = false := by simpa using hx
      rw [this]
      rcases List.mem_cons.1 hc with rfl | hc
      · exact absurd rfl hx
      · exact ih hn.2 c hc

theorem map_chunkOf_perm (G : List Chunk) (order : List Nat) (hn : (G.map (·.id)).Nodup)
    (hp : order.Perm (G.map (·.id))) : (order.map (chunkOf G)).Perm G := by
  have h1 := hp.map (chunkOf G)
  rw [List.map_map] at h1
  have h2 : G.map (chunkOf G ∘ fun c => c.id) = G := by
    conv => rhs; rw [← List.map_id G]
    apply List.map_congr_left
    intro c hc
    exact chunkOf_self G hn c hc
  rw [h2] at h1
  exact h1

theorem chunkDefs_names (name : String) (g : Bool) (G : List Chunk) (J : List Nat) (id : Nat) :
    (chunkDefs name g G J id).map (·.1) =
      ((if id == 0 then [name] else []) ++
        (if id != 0 && J.contains id then [jumpLabel name id] else [])) ++
      (stmtLabels (chunkOf G id).statements).map (·.1) := by
  unfold chunkDefs
  rw [List.map_append]
  congr 1
  by_cases h0 : id = 0
  · subst h0; simp [chunkLabel]
  · have h1 : (id == 0) = false := by simpa using h0
    cases hj : J.contains id <;> simp [h0, h1, chunkLabel, jumpLabel]

/-- Every entry of a script's census is the script's name, one of its label statements, or one of
its registered sub-labels — with multiplicity. -/
theorem count_scriptNames_le (o : Opts) (patches : List ((Nat × Nat) × String)) (s : Script) (a : String) :
    (scriptNames o patches s).count a ≤
      (scriptDeclared s).count a + (subLabelsOf o patches s).count a := by
  unfold scriptNames scriptDefs scriptDeclared subLabelsOf userLabelsOf
  cases hc : scriptChunks s.body with
  | error e => simp
  | ok G =>
    simp only []
    cases ho : C05.chunkOrder o G with
    | error e => simp
    | ok order =>
      simp only []
      obtain ⟨hperm, _, hnd⟩ := C05.script_order_perm o s G order hc ho
      obtain ⟨hidn, _⟩ := C05.scriptChunks_ids s.body G hc
      rw [List.map_flatMap]
      have hf : (fun id => (chunkDefs s.name (s.scope == TT.GLOBAL) G
            (regsOf o patches s.name G order) id).map (·.1)) = _ :=
        funext (chunkDefs_names s.name (s.scope == TT.GLOBAL) G (regsOf o patches s.name G order))
      rw [hf, count_flatMap_append, count_flatMap_append, count_entry a s.name _ rfl, ← filter_map_eq_flatMap]
      have hU : (order.flatMap fun id => (stmtLabels (chunkOf G id).statements).map (·.1)).count a =
          (G.flatMap fun c => (stmtLabels c.statements).map (·.1)).count a := by
        have : (order.flatMap fun id => (stmtLabels (chunkOf G id).statements).map (·.1)) =
            (order.map (chunkOf G)).flatMap fun c => (stmtLabels c.statements).map (·.1) := by
          rw [List.flatMap_map]
        rw [this]
        exact ((map_chunkOf_perm G order hidn hperm).flatMap_right _).count_eq a
      rw [hU]
      have h0 : order.count 0 ≤ 1 := List.nodup_iff_count.1 hnd 0
      generalize (G.flatMap fun c => (stmtLabels c.statements).map (·.1)) = UL
      have hc1 : (s.name :: UL).count a = UL.count a + [s.name].count a := by
        rw [List.count_cons, List.count_singleton]
      rw [hc1]
      generalize [s.name].count a = C
      have hm : order.count 0 * C ≤ C := by
        calc order.count 0 * C ≤ 1 * C := Nat.mul_le_mul_right _ h0
          _ = _ := Nat.one_mul _
      omega

theorem count_scripts_le (o : Opts) (patches : List ((Nat × Nat) × String)) (a : String) (l : List Script) :
    (l.flatMap (scriptNames o patches)).count a ≤
      (l.flatMap scriptDeclared).count a + (l.flatMap (subLabelsOf o patches)).count a :=
  count_flatMap_le a _ _ _ l (fun s _ => count_scriptNames_le o patches s a)

theorem count_topNames_le (o : Opts) (patches : List ((Nat × Nat) × String)) (a : String) (t : Top) :
    ((topDefs o patches t).map (·.1)).count a ≤
      (topDeclared t).count a + ((topScripts t).flatMap (subLabelsOf o patches)).count a := by
  cases t with
  | script s =>
    simp only [topDefs, topDeclared, topScripts, List.flatMap_cons, List.flatMap_nil, List.append_nil]
    exact count_scriptNames_le o patches s a
  | raw _ _ _ => simp [topDefs]
  | text _ => simp [topDefs]
  | movement m => simp [topDefs, topDeclared]
  | mart _ name _ _ _ => simp [topDefs, topDeclared]
  | mapscripts m =>
    simp only [topDefs, topDeclared, topScripts, mapScriptsDefs, List.map_cons, List.map_append,
      scriptsDefs_eq, tablesDefs_eq, List.flatMap_append, List.flatMap_assoc]
    have h1 := count_scripts_le o patches a (optScripts (m.mapScripts.map (·.script)))
    have h2 := count_flatMap_le a
      (fun t : TableMapScript => t.name :: (optScripts (t.entries.map (·.script))).flatMap (scriptNames o patches))
      (fun t => t.name :: (optScripts (t.entries.map (·.script))).flatMap scriptDeclared)
      (fun t => (optScripts (t.entries.map (·.script))).flatMap (subLabelsOf o patches)) m.tables
      (by
        intro t _
        have := count_scripts_le o patches a (optScripts (t.entries.map (·.script)))
        simp only [List.count_cons]
        omega)
    simp only [List.count_cons, List.count_append]
    omega

/-- Every census entry is a declared name, a registered generated sub-label, or a text name — with
multiplicity. -/
theorem count_programLabels_le (o : Opts) (p : Program) (a : String) :
    (programLabels o p).count a ≤
      (declaredNames p).count a + (programSubLabels o p).count a + (textNames p).count a := by
  unfold programLabels programLabelDefs declaredNames programSubLabels textNames scriptsOf
  rw [List.map_append, List.map_flatMap, List.map_map, List.count_append, List.flatMap_assoc]
  have h := count_flatMap_le a (fun t => (topDefs o p.patches t).map (·.1)) topDeclared
    (fun t => (topScripts t).flatMap (subLabelsOf o p.patches)) p.tops
    (fun t _ => count_topNames_le o p.patches a t)
  have he : ((fun x : String × Bool => x.1) ∘ fun t : Text => (t.name, t.isGlobal)) = fun t => t.name := rfl
  rw [he]
  omega

/-! ### 4. the generated sub-labels are pairwise distinct -/

theorem jumpLabel_toList (n : String) (d : Nat) :
    (jumpLabel n d).toList = n.toList ++ '_' :: Nat.toDigits 10 d := by
  simp [jumpLabel, String.toList_append, Hoist.toString_string]

/-- `<name>_<d>` determines both the name and the number (the digits after the LAST `_`). -/
theorem jumpLabel_inj {n n' : String} {d d' : Nat} (h : jumpLabel n d = jumpLabel n' d') :
    n = n' ∧ d = d' := by
  have h2 := congrArg String.toList h
  rw [jumpLabel_toList, jumpLabel_toList] at h2
  obtain ⟨e1, e2⟩ := Hoist.suffix_digits_unique _ _ _ _ h2
  exact ⟨String.toList_inj.1 e1, e2⟩

theorem mem_subLabelsOf {o : Opts} {patches : List ((Nat × Nat) × String)} {s : Script} {x : String}
    (h : x ∈ subLabelsOf o patches s) : ∃ d, d ≠ 0 ∧ x = jumpLabel s.name d := by
  unfold subLabelsOf at h
  split at h
  · cases h
  · split at h
    · cases h
    · obtain ⟨d, hd, rfl⟩ := List.mem_map.1 h
      have := (List.mem_filter.1 hd).2
      simp only [Bool.and_eq_true, bne_iff_ne, ne_eq] at this
      exact ⟨d, this.1, rfl⟩

theorem subLabelsOf_nodup (o : Opts) (patches : List ((Nat × Nat) × String)) (s : Script) :
    (subLabelsOf o patches s).Nodup := by
  unfold subLabelsOf
  cases hc : scriptChunks s.body with
  | error e => simp
  | ok G =>
    simp only []
    cases ho : C05.chunkOrder o G with
    | error e => simp
    | ok order =>
      simp only []
      obtain ⟨_, _, hnd⟩ := C05.script_order_perm o s G order hc ho
      unfold List.Nodup
      rw [List.pairwise_map]
      have hf : (order.filter fun id => id != 0 && (regsOf o patches s.name G order).contains id).Pairwise
          (· ≠ ·) := List.Pairwise.filter _ hnd
      exact hf.imp (fun hab h => hab (jumpLabel_inj h).2)

theorem nodup_flatMap_of_key {α : Type} (key : α → String) (f : α → List String) :
    ∀ l : List α, (l.map key).Nodup → (∀ x ∈ l, (f x).Nodup) →
      (∀ x ∈ l, ∀ y ∈ l, ∀ a, a ∈ f x → a ∈ f y → key x = key y) → (l.flatMap f).Nodup := by
  intro l
  induction l with
  | nil => intro _ _ _; simp
  | cons x r ih =>
    intro hk hf hc
    rw [List.map_cons, List.nodup_cons] at hk
    rw [List.flatMap_cons, List.nodup_append]
    refine ⟨hf x (by simp), ih hk.2 (fun y hy => hf y (by simp [hy]))
      (fun y hy z hz => hc y (by simp [hy]) z (by simp [hz])), ?_⟩
    intro a ha b hb hab
    subst hab
    obtain ⟨y, hy, hay⟩ := List.mem_flatMap.1 hb
    have := hc x (by simp) y (by simp [hy]) a ha hay
    exact hk.1 (this ▸ List.mem_map.2 ⟨y, hy, rfl⟩)

/-- Scripts with different names have different generated sub-labels. -/
theorem subLabels_cross {o : Opts} {patches : List ((Nat × Nat) × String)} {s t : Script} {a : String}
    (h1 : a ∈ subLabelsOf o patches s) (h2 : a ∈ subLabelsOf o patches t) : s.name = t.name := by
  obtain ⟨d, _, rfl⟩ := mem_subLabelsOf h1
  obtain ⟨e, _, h⟩ := mem_subLabelsOf h2
  exact (jumpLabel_inj h).1

theorem count_map_name_le (a : String) (l : List Script) :
    (l.map (·.name)).count a ≤ (l.flatMap scriptDeclared).count a := by
  induction l with
  | nil => simp
  | cons s r ih =>
    simp only [List.map_cons, List.flatMap_cons, scriptDeclared, List.count_cons, List.count_append,
      List.cons_append]
    omega

theorem count_flatMap_le1 {α : Type} (a : String) (f g : α → List String) (l : List α)
    (H : ∀ x ∈ l, (f x).count a ≤ (g x).count a) : (l.flatMap f).count a ≤ (l.flatMap g).count a := by
  induction l with
  | nil => simp
  | cons x r ih =>
    have h1 := H x (by simp)
    have h2 := ih (fun y hy => H y (by simp [hy]))
    simp only [List.flatMap_cons, List.count_append]
    omega

theorem count_topScriptNames_le (a : String) (t : Top) :
    ((topScripts t).map (·.name)).count a ≤ (topDeclared t).count a := by
  cases t with
  | script s => simp [topScripts, topDeclared, scriptDeclared, List.count_cons]
  | raw _ _ _ => simp [topScripts]
  | text _ => simp [topScripts]
  | movement m => simp [topScripts]
  | mart _ name _ _ _ => simp [topScripts]
  | mapscripts m =>
    simp only [topScripts, topDeclared, List.map_append, List.map_flatMap, List.count_cons, List.count_append]
    have h1 := count_map_name_le a (optScripts (m.mapScripts.map (·.script)))
    have h2 := count_flatMap_le1 a
      (fun t : TableMapScript => (optScripts (t.entries.map (·.script))).map (·.name))
      (fun t => t.name :: (optScripts (t.entries.map (·.script))).flatMap scriptDeclared) m.tables
      (by
        intro t _
        have := count_map_name_le a (optScripts (t.entries.map (·.script)))
        simp only [List.count_cons]
        omega)
    omega

/-- The script names are among the declared names (with multiplicity). -/
theorem scriptNames_nodup (p : Program) (h : (declaredNames p).Nodup) :
    ((scriptsOf p).map (·.name)).Nodup := by
  rw [List.nodup_iff_count] at h ⊢
  intro a
  refine Nat.le_trans ?_ (h a)
  unfold scriptsOf declaredNames
  rw [List.map_flatMap]
  exact count_flatMap_le1 a _ _ _ (fun t _ => count_topScriptNames_le a t)

theorem programSubLabels_nodup (o : Opts) (p : Program) (h : (declaredNames p).Nodup) :
    (programSubLabels o p).Nodup :=
  nodup_flatMap_of_key (·.name) _ _ (scriptNames_nodup p h)
    (fun s _ => subLabelsOf_nodup o p.patches s) (fun _ _ _ _ _ h1 h2 => subLabels_cross h1 h2)

/-- The counting argument: the census is duplicate-free when the declared names and the text names
are pairwise distinct and no registered sub-label is among them. -/
theorem programLabels_nodup_of (o : Opts) (p : Program)
    (h1 : (declaredNames p ++ textNames p).Nodup)
    (h2 : ∀ x ∈ programSubLabels o p, x ∉ declaredNames p ++ textNames p) :
    (programLabels o p).Nodup := by
  have hs := programSubLabels_nodup o p (List.nodup_append.1 h1).1
  rw [List.nodup_iff_count] at hs h1 ⊢
  intro a
  have hc := count_programLabels_le o p a
  have h1a := h1 a
  rw [List.count_append] at h1a
  by_cases ha : a ∈ programSubLabels o p
  · have hn := h2 a ha
    have h0 : (declaredNames p ++ textNames p).count a = 0 := List.count_eq_zero.2 hn
    rw [List.count_append] at h0
    have := hs a
    omega
  · have h0 : (programSubLabels o p).count a = 0 := List.count_eq_zero.2 ha
    omega

/-! ### 5. generated references are defined among the same lines -/

/-- Every label named by a generated jump / conditional jump / `case` line of `ls` has a label line
in `ls`. -/
def Closed (ls : List Line) : Prop := ∀ x ∈ C04.refsOf ls, x ∈ (labelsOf ls).map (·.1)

theorem closed_of_norefs {ls : List Line} (h : C04.refsOf ls = []) : Closed ls := by
  intro x hx; rw [h] at hx; cases hx

theorem closed_append {a b : List Line} (ha : Closed a) (hb : Closed b) : Closed (a ++ b) := by
  intro x hx
  rw [C04.refsOf_append, List.mem_append] at hx
  rw [labelsOf_append, List.map_append, List.mem_append]
  rcases hx with hx | hx
  · exact .inl (ha x hx)
  · exact .inr (hb x hx)

theorem refsOf_flatMap_nil {α : Type} (f : α → List Line) (l : List α)
    (h : ∀ x ∈ l, C04.refsOf (f x) = []) : C04.refsOf (l.flatMap f) = [] := by
  induction l with
  | nil => rfl
  | cons a r ih =>
    rw [List.flatMap_cons, C04.refsOf_append, h a (by simp), ih (fun x hx => h x (by simp [hx]))]
    rfl

theorem refsOf_stmtLines (o : Opts) (patches : List ((Nat × Nat) × String)) (ss : List Stmt) :
    C04.refsOf (stmtLines o patches ss) = [] := by
  induction ss with
  | nil => rfl
  | cons s r ih =>
    cases s <;>
      simp [stmtLines, C04.refsOf_append, C04.refsOf_marker, C04.refsOf_cons, C04.refOf, renderCommand, ih]

theorem refsOf_lbl (name : String) (g : Bool) (jumps : List Nat) (id : Nat) :
    C04.refsOf (lbl name g jumps id) = [] := by
  unfold lbl; split <;> simp [C04.refsOf, C04.refOf]

theorem refsOf_layout_mem (o : Opts) (patches : List ((Nat × Nat) × String)) (name : String)
    (G : List Chunk) (g : Bool) (jumps : List Nat) : ∀ (order : List Nat) (x : String),
    x ∈ C04.refsOf (layout o patches name G g jumps order) →
      ∃ pre k rest, order = pre ++ k :: rest ∧
        x ∈ C04.refsOf (renderBranching o patches name (chunkOf G k) rest.head?).1 := by
  intro order
  induction order with
  | nil => intro x hx; simp [layout, C04.refsOf] at hx
  | cons id rest ih =>
    intro x hx
    rw [layout_cons, C04.refsOf_append, C04.refsOf_append, refsOf_lbl, List.nil_append, List.mem_append] at hx
    rcases hx with hx | hx
    · unfold bodyOf at hx
      rw [C04.refsOf_append, C04.refsOf_append, refsOf_stmtLines, List.nil_append, List.mem_append] at hx
      rcases hx with hx | hx
      · exact ⟨[], id, rest, rfl, hx⟩
      · split at hx <;> simp [C04.refsOf, C04.refOf] at hx
    · obtain ⟨pre, k, rest', e, h⟩ := ih x hx
      exact ⟨id :: pre, k, rest', by rw [e]; rfl, h⟩

/-- The lines of one emitted script are closed (`C04b.generated_refs_defined`). -/
theorem closed_emitScript (o : Opts) (patches : List ((Nat × Nat) × String)) (tl : List String)
    (s : Script) (ls : List Line) (h : emitScript o patches tl s = .ok ls) : Closed ls := by
  obtain ⟨G, order, hc, ho, hall⟩ := C04b.generated_refs_defined o patches tl s ls h
  have h' := h
  rw [C05.emitScript_eq, hc] at h'
  simp only at h'
  obtain ⟨order', ho', hls, hfound⟩ := renderChunks_ok o patches s.name G (s.scope == .GLOBAL) tl ls h'
  rw [ho] at ho'
  injection ho' with ho'
  subst ho'
  intro x hx
  rw [hls] at hx
  obtain ⟨pre, k, rest, e, hxk⟩ := refsOf_layout_mem o patches s.name G _ _ order x hx
  obtain ⟨c, _, hck, _⟩ := hfound k (by rw [e]; simp)
  have hco : chunkOf G k = c := by simp [chunkOf, hck]
  rw [hco] at hxk
  obtain ⟨d, _, _, _, hmem⟩ := hall pre k rest e c hck x hxk
  exact List.mem_map.2 ⟨(x, false), hmem, rfl⟩

theorem closed_emitScripts (o : Opts) (patches : List ((Nat × Nat) × String)) (tl : List String) :
    ∀ (ss : List (Option Script)) (ls : List Line), emitScripts o patches tl ss = .ok ls → Closed ls := by
  intro ss
  induction ss with
  | nil => intro ls h; simp [emitScripts] at h; subst h; exact closed_of_norefs rfl
  | cons s r ih =>
    intro ls h
    cases s with
    | none => simp only [emitScripts] at h; exact ih ls h
    | some sc =>
      simp only [emitScripts] at h
      split at h
      · cases h
      · next p hp =>
        split at h
        · cases h
        · next rest hr =>
          injection h with h
          subst h
          exact closed_append (closed_emitScript o patches tl sc p hp) (ih rest hr)

theorem refsOf_tableHead (o : Opts) (t : TableMapScript) : C04.refsOf (C08.tableHead o t) = [] := by
  unfold C08.tableHead
  rw [C04.refsOf_append, C04.refsOf_append, refsOf_flatMap_nil]
  · simp [C04.refsOf, C04.refOf]
  · intro e _; rw [C04.refsOf_append, C04.refsOf_marker]; rfl

theorem refsOf_headerLines (o : Opts) (m : MapScripts) : C04.refsOf (C08.headerLines o m) = [] := by
  unfold C08.headerLines
  rw [C04.refsOf_append, C04.refsOf_append, C04.refsOf_append, refsOf_flatMap_nil, refsOf_flatMap_nil]
  · simp [C04.refsOf, C04.refOf]
  · intro e _; rw [C04.refsOf_append, C04.refsOf_marker]; rfl
  · intro e _; rw [C04.refsOf_append, C04.refsOf_marker]; rfl

theorem closed_emitTables (o : Opts) (patches : List ((Nat × Nat) × String)) (tl : List String) :
    ∀ (ts : List TableMapScript) (ls : List Line), emitTables o patches tl ts = .ok ls → Closed ls := by
  intro ts
  induction ts with
  | nil => intro ls h; simp [emitTables] at h; subst h; exact closed_of_norefs rfl
  | cons t r ih =>
    intro ls h
    obtain ⟨scripts, rest, h1, h2, rfl⟩ := C08.table_shape o patches tl t r ls h
    exact closed_append (closed_append (closed_of_norefs (refsOf_tableHead o t))
      (closed_emitScripts o patches tl _ _ h1)) (ih rest h2)

theorem closed_emitMapScripts (o : Opts) (patches : List ((Nat × Nat) × String)) (tl : List String)
    (m : MapScripts) (ls : List Line) (h : emitMapScripts o patches tl m = .ok ls) : Closed ls := by
  obtain ⟨scripts, tables, h1, h2, rfl⟩ := C08.header_shape o patches tl m ls h
  exact closed_append (closed_append (closed_of_norefs (refsOf_headerLines o m))
    (closed_emitScripts o patches tl _ _ h1)) (closed_emitTables o patches tl _ _ h2)

theorem refsOf_emitRaw (o : Opts) (vt : Tok) (v : String) : C04.refsOf (emitRaw o vt v) = [] := by
  unfold emitRaw
  apply refsOf_flatMap_nil
  intro i _
  split <;> simp [C04.refsOf, C04.refOf]

theorem refsOf_movement_steps (o : Opts) (cmds : List Tok) :
    C04.refsOf (emitMovement.steps o cmds) = [] := by
  induction cmds with
  | nil => simp [emitMovement.steps, C04.refsOf, C04.refOf]
  | cons c r ih =>
    unfold emitMovement.steps
    split <;> simp [C04.refsOf_append, C04.refsOf_marker, C04.refsOf_cons, C04.refOf, ih] <;> rfl

theorem refsOf_mart_go (o : Opts) (ts : List Tok) (items : List String) :
    C04.refsOf (emitMart.go o ts items) = [] := by
  induction items generalizing ts with
  | nil => simp [emitMart.go, C04.refsOf, C04.refOf]
  | cons i r ih =>
    unfold emitMart.go
    split <;> simp [C04.refsOf_append, C04.refsOf_marker, C04.refsOf_cons, C04.refOf, ih] <;> rfl

theorem refsOf_emitMovement (o : Opts) (m : MovementStmt) : C04.refsOf (emitMovement o m) = [] := by
  unfold emitMovement
  simp [C04.refsOf_append, C04.refsOf_marker, C04.refsOf_cons, C04.refOf, refsOf_movement_steps]

theorem refsOf_emitMart (o : Opts) (tok : Tok) (name : String) (tis : List Tok) (items : List String)
    (scope : TT) : C04.refsOf (emitMart o tok name tis items scope) = [] := by
  unfold emitMart
  simp [C04.refsOf_append, C04.refsOf_marker, C04.refsOf_cons, C04.refOf, refsOf_mart_go]

theorem refsOf_emitText (o : Opts) (t : Text) : C04.refsOf (emitText o t) = [] := by
  rw [C09.emitText_shape, C04.refsOf_append, C04.refsOf_append, C04.refsOf_marker]
  have : ∀ (d : String) (l : List (List Char)),
      C04.refsOf (l.map fun x => Line.textLine d (String.ofList x)) = [] := by
    intro d l
    induction l with
    | nil => rfl
    | cons x r ih => rw [List.map_cons, C04.refsOf_cons]; exact ih
  rw [this]
  rfl

theorem refsOf_textsBlock (o : Opts) (texts : List Text) (i : Nat) :
    C04.refsOf (C06b.textsBlock o i texts) = [] := by
  induction texts generalizing i with
  | nil => rfl
  | cons t r ih =>
    simp only [C06b.textsBlock, C04.refsOf_append, refsOf_emitText, ih, List.append_nil]
    split <;> simp [C04.refsOf, C04.refOf]

theorem closed_emitTops (o : Opts) (patches : List ((Nat × Nat) × String)) (tl : List String) :
    ∀ (tops : List Top) (i : Nat) (ls : List Line) (n : Nat),
      emitTops o patches tl tops i = .ok (ls, n) → Closed ls := by
  intro tops
  induction tops with
  | nil => intro i ls n h; simp [emitTops] at h; rw [h.1]; exact closed_of_norefs rfl
  | cons t r ih =>
    intro i ls n h
    have hsep : Closed (if i > 0 then [Line.blank] else []) := by
      apply closed_of_norefs; split <;> simp [C04.refsOf, C04.refOf]
    cases t with
    | text tx => simp only [emitTops] at h; exact ih i ls n h
    | script s =>
      simp only [emitTops] at h
      split at h
      · cases h
      · next l hl =>
        split at h
        · cases h
        · next l' n' hr =>
          simp only [Except.ok.injEq, Prod.mk.injEq] at h
          rw [← h.1]
          exact closed_append (closed_append hsep (closed_emitScript o patches tl s l hl)) (ih _ _ _ hr)
    | mapscripts m =>
      simp only [emitTops] at h
      split at h
      · cases h
      · next l hl =>
        split at h
        · cases h
        · next l' n' hr =>
          simp only [Except.ok.injEq, Prod.mk.injEq] at h
          rw [← h.1]
          exact closed_append (closed_append hsep (closed_emitMapScripts o patches tl m l hl)) (ih _ _ _ hr)
    | raw tk vt v =>
      simp only [emitTops] at h
      split at h
      · cases h
      · next l' n' hr =>
        simp only [Except.ok.injEq, Prod.mk.injEq] at h
        rw [← h.1]
        exact closed_append (closed_append hsep (closed_of_norefs (refsOf_emitRaw o vt v))) (ih _ _ _ hr)
    | movement m =>
      simp only [emitTops] at h
      split at h
      · cases h
      · next l' n' hr =>
        simp only [Except.ok.injEq, Prod.mk.injEq] at h
        rw [← h.1]
        exact closed_append (closed_append hsep (closed_of_norefs (refsOf_emitMovement o m))) (ih _ _ _ hr)
    | mart tk name tis items scope =>
      simp only [emitTops] at h
      split at h
      · cases h
      · next l' n' hr =>
        simp only [Except.ok.injEq, Prod.mk.injEq] at h
        rw [← h.1]
        exact closed_append (closed_append hsep (closed_of_norefs (refsOf_emitMart o tk name tis items scope)))
          (ih _ _ _ hr)

/-- The output of an accepted program is closed under generated references. -/
theorem closed_emitProgram (o : Opts) (p : Program) (ls : List Line) (h : emitProgram o p = .ok ls) :
    Closed ls := by
  obtain ⟨body, i, hb, rfl⟩ := C06b.emitProgram_texts o p ls h
  exact closed_append (closed_emitTops o p.patches _ p.tops 0 body i hb)
    (closed_of_norefs (refsOf_textsBlock o p.texts i))

/-! ### 6. the components of an accepted program are accepted, and their lines are in the output -/

/-- What `emitTops` emits for one top-level statement. -/
def emitTop (o : Opts) (patches : List ((Nat × Nat) × String)) (tl : List String) :
    Top → Except EFail (List Line)
  | .mapscripts m => emitMapScripts o patches tl m
  | .script s => emitScript o patches tl s
  | .raw _ vtok v => .ok (emitRaw o vtok v)
  | .movement m => .ok (emitMovement o m)
  | .mart tok name tis items scope => .ok (emitMart o tok name tis items scope)
  | .text _ => .ok []

theorem emitTops_mem (o : Opts) (patches : List ((Nat × Nat) × String)) (tl : List String) :
    ∀ (tops : List Top) (i : Nat) (ls : List Line) (n : Nat),
      emitTops o patches tl tops i = .ok (ls, n) →
      ∀ t ∈ tops, ∃ lt, emitTop o patches tl t = .ok lt ∧ ∀ l ∈ lt, l ∈ ls := by
  intro tops
  induction tops with
  | nil => intro i ls n _ t ht; cases ht
  | cons t0 r ih =>
    intro i ls n h t ht
    have key : ∀ (l0 l' : List Line) (n' : Nat), emitTop o patches tl t0 = .ok l0 →
        emitTops o patches tl r (i + 1) = .ok (l', n') →
        ls = (if i > 0 then [Line.blank] else []) ++ l0 ++ l' →
        ∃ lt, emitTop o patches tl t = .ok lt ∧ ∀ l ∈ lt, l ∈ ls := by
      intro l0 l' n' h0 hr hls
      rcases List.mem_cons.1 ht with rfl | ht
      · exact ⟨l0, h0, fun l hl => by rw [hls]; simp [hl]⟩
      · obtain ⟨lt, h1, h2⟩ := ih _ _ _ hr t ht
        exact ⟨lt, h1, fun l hl => by rw [hls]; simp [h2 l hl]⟩
    cases t0 with
    | text tx =>
      simp only [emitTops] at h
      rcases List.mem_cons.1 ht with rfl | ht
      · exact ⟨[], rfl, fun l hl => by cases hl⟩
      · exact ih i ls n h t ht
    | script s =>
      simp only [emitTops] at h
      split at h
      · cases h
      · next l hl =>
        split at h
        · cases h
        · next l' n' hr =>
          simp only [Except.ok.injEq, Prod.mk.injEq] at h
          exact key l l' n' hl hr h.1.symm
    | mapscripts m =>
      simp only [emitTops] at h
      split at h
      · cases h
      · next l hl =>
        split at h
        · cases h
        · next l' n' hr =>
          simp only [Except.ok.injEq, Prod.mk.injEq] at h
          exact key l l' n' hl hr h.1.symm
    | raw tk vt v =>
      simp only [emitTops] at h
      split at h
      · cases h
      · next l' n' hr =>
        simp only [Except.ok.injEq, Prod.mk.injEq] at h
        exact key _ l' n' rfl hr h.1.symm
    | movement m =>
      simp only [emitTops] at h
      split at h
      · cases h
      · next l' n' hr =>
        simp only [Except.ok.injEq, Prod.mk.injEq] at h
        exact key _ l' n' rfl hr h.1.symm
    | mart tk name tis items scope =>
      simp only [emitTops] at h
      split at h
      · cases h
      · next l' n' hr =>
        simp only [Except.ok.injEq, Prod.mk.injEq] at h
        exact key _ l' n' rfl hr h.1.symm

theorem emitScripts_mem (o : Opts) (patches : List ((Nat × Nat) × String)) (tl : List String) :
    ∀ (ss : List (Option Script)) (ls : List Line), emitScripts o patches tl ss = .ok ls →
      ∀ s, some s ∈ ss → ∃ l, emitScript o patches tl s = .ok l ∧ ∀ x ∈ l, x ∈ ls := by
  intro ss
  induction ss with
  | nil => intro ls _ s hs; cases hs
  | cons s0 r ih =>
    intro ls h s hs
    cases s0 with
    | none =>
      simp only [emitScripts] at h
      rcases List.mem_cons.1 hs with e | hs
      · cases e
      · exact ih ls h s hs
    | some sc =>
      simp only [emitScripts] at h
      split at h
      · cases h
      · next p hp =>
        split at h
        · cases h
        · next rest hr =>
          injection h with h
          subst h
          rcases List.mem_cons.1 hs with e | hs
          · injection e with e
            subst e
            exact ⟨p, hp, fun x hx => by simp [hx]⟩
          · obtain ⟨l, h1, h2⟩ := ih rest hr s hs
            exact ⟨l, h1, fun x hx => by simp [h2 x hx]⟩

theorem emitTables_mem (o : Opts) (patches : List ((Nat × Nat) × String)) (tl : List String) :
    ∀ (ts : List TableMapScript) (ls : List Line), emitTables o patches tl ts = .ok ls →
      ∀ t ∈ ts, (∀ l ∈ C08.tableHead o t, l ∈ ls) ∧
        ∃ sl, emitScripts o patches tl (t.entries.map (·.script)) = .ok sl ∧ ∀ x ∈ sl, x ∈ ls := by
  intro ts
  induction ts with
  | nil => intro ls _ t ht; cases ht
  | cons t0 r ih =>
    intro ls h t ht
    obtain ⟨scripts, rest, h1, h2, rfl⟩ := C08.table_shape o patches tl t0 r ls h
    rcases List.mem_cons.1 ht with rfl | ht
    · exact ⟨fun l hl => by simp [hl], scripts, h1, fun x hx => by simp [hx]⟩
    · obtain ⟨a, sl, b, c⟩ := ih rest h2 t ht
      exact ⟨fun l hl => by simp [a l hl], sl, b, fun x hx => by simp [c x hx]⟩

theorem mem_optScripts {l : List (Option Script)} {s : Script} : s ∈ optScripts l ↔ some s ∈ l := by
  unfold optScripts
  simp [List.mem_filterMap]

/-- Every script of an accepted program (top-level or inline) was accepted by `emitScript`, and
its lines are in the output. -/
theorem script_accepted (o : Opts) (p : Program) (ls : List Line) (h : emitProgram o p = .ok ls)
    (s : Script) (hs : s ∈ scriptsOf p) :
    ∃ l, emitScript o p.patches (p.texts.map (·.name)) s = .ok l ∧ ∀ x ∈ l, x ∈ ls := by
  obtain ⟨body, i, hb, rfl⟩ := C06b.emitProgram_texts o p ls h
  unfold scriptsOf at hs
  obtain ⟨t, ht, hst⟩ := List.mem_flatMap.1 hs
  obtain ⟨lt, h1, h2⟩ := emitTops_mem o p.patches _ p.tops 0 body i hb t ht
  cases t with
  | script s' =>
    simp only [topScripts, List.mem_singleton] at hst
    subst hst
    exact ⟨lt, h1, fun x hx => by simp [h2 x hx]⟩
  | mapscripts m =>
    simp only [topScripts, List.mem_append, List.mem_flatMap] at hst
    obtain ⟨scripts, tables, e1, e2, rfl⟩ := C08.header_shape o p.patches _ m lt h1
    rcases hst with hst | ⟨t, htt, hst⟩
    · obtain ⟨l, a, b⟩ := emitScripts_mem o p.patches _ _ scripts e1 s (mem_optScripts.1 hst)
      exact ⟨l, a, fun x hx => by
        have := h2 x (by simp [b x hx]); simp [this]⟩
    · obtain ⟨_, sl, e3, c⟩ := emitTables_mem o p.patches _ _ tables e2 t htt
      obtain ⟨l, a, b⟩ := emitScripts_mem o p.patches _ _ sl e3 s (mem_optScripts.1 hst)
      exact ⟨l, a, fun x hx => by
        have := h2 x (by simp [c x (b x hx)]); simp [this]⟩
  | raw _ _ _ => simp [topScripts] at hst
  | text _ => simp [topScripts] at hst
  | movement _ => simp [topScripts] at hst
  | mart _ _ _ _ _ => simp [topScripts] at hst

/-- The entry label of an accepted script is in its census. -/
theorem entry_in_census (o : Opts) (patches : List ((Nat × Nat) × String)) (tl : List String)
    (s : Script) (l : List Line) (h : emitScript o patches tl s = .ok l) :
    (s.name, s.scope == .GLOBAL) ∈ scriptDefs o patches s := by
  rw [C05.emitScript_eq] at h
  unfold scriptDefs
  cases hc : scriptChunks s.body with
  | error e => rw [hc] at h; cases h
  | ok G =>
    rw [hc] at h
    simp only at h
    obtain ⟨order, ho, _, _⟩ := renderChunks_ok o patches s.name G (s.scope == .GLOBAL) tl l h
    simp only [ho]
    obtain ⟨_, hh, _⟩ := C05.script_order_perm o s G order hc ho
    cases order with
    | nil => cases hh
    | cons x rest =>
      simp only [List.head?_cons, Option.some.injEq] at hh
      subst hh
      rw [List.flatMap_cons]
      apply List.mem_append_left
      unfold chunkDefs
      apply List.mem_append_left
      simp [chunkLabel]

theorem scriptNames_sub_top (o : Opts) (patches : List ((Nat × Nat) × String)) (t : Top) (s : Script)
    (hs : s ∈ topScripts t) : ∀ x ∈ scriptNames o patches s, x ∈ (topDefs o patches t).map (·.1) := by
  intro x hx
  cases t with
  | script s' =>
    simp only [topScripts, List.mem_singleton] at hs
    subst hs
    exact hx
  | mapscripts m =>
    simp only [topScripts, List.mem_append, List.mem_flatMap] at hs
    simp only [topDefs, mapScriptsDefs, List.map_cons, List.map_append, scriptsDefs_eq, tablesDefs_eq,
      List.mem_cons, List.mem_append, List.mem_flatMap]
    rcases hs with hs | ⟨t, ht, hs⟩
    · exact .inr (.inl ⟨s, hs, hx⟩)
    · exact .inr (.inr ⟨t, ht, .inr ⟨s, hs, hx⟩⟩)
  | raw _ _ _ => simp [topScripts] at hs
  | text _ => simp [topScripts] at hs
  | movement _ => simp [topScripts] at hs
  | mart _ _ _ _ _ => simp [topScripts] at hs

theorem topNames_sub_program (o : Opts) (p : Program) (t : Top) (ht : t ∈ p.tops) :
    ∀ x ∈ (topDefs o p.patches t).map (·.1), x ∈ programLabels o p := by
  intro x hx
  unfold programLabels programLabelDefs
  rw [List.map_append, List.mem_append, List.map_flatMap]
  exact .inl (List.mem_flatMap.2 ⟨t, ht, hx⟩)

theorem textNames_sub_program (o : Opts) (p : Program) : ∀ x ∈ textNames p, x ∈ programLabels o p := by
  intro x hx
  unfold programLabels programLabelDefs
  rw [List.map_append, List.mem_append, List.map_map]
  exact .inr hx

theorem scriptNames_sub_program (o : Opts) (p : Program) (s : Script) (hs : s ∈ scriptsOf p) :
    ∀ x ∈ scriptNames o p.patches s, x ∈ programLabels o p := by
  intro x hx
  unfold scriptsOf at hs
  obtain ⟨t, ht, hst⟩ := List.mem_flatMap.1 hs
  exact topNames_sub_program o p t ht x (scriptNames_sub_top o p.patches t s hst x hx)

/-- The name of every script of an accepted program is defined in the output. -/
theorem script_name_defined (o : Opts) (p : Program) (ls : List Line) (h : emitProgram o p = .ok ls)
    (s : Script) (hs : s ∈ scriptsOf p) : s.name ∈ programLabels o p := by
  obtain ⟨l, hl, _⟩ := script_accepted o p ls h s hs
  have := entry_in_census o p.patches _ s l hl
  exact scriptNames_sub_program o p s hs s.name (List.mem_map.2 ⟨_, this, rfl⟩)

/-! ### 7. what acceptance already guarantees about label statements -/

theorem renderStatements_fresh_tl (o : Opts) (patches : List ((Nat × Nat) × String)) (cl tl : List String) :
    ∀ (ss : List Stmt) (ls : List Line), renderStatements o patches cl tl ss = .ok ls →
      ∀ n ∈ stmtLabels ss, n.1 ∉ tl := by
  intro ss
  induction ss with
  | nil => intro ls _ n hn; cases hn
  | cons s r ih =>
    intro ls h
    cases s with
    | cmd c =>
      simp only [renderStatements] at h
      split at h
      · cases h
      · next ls' hr => simpa [stmtLabels] using ih ls' hr
    | label tok n g =>
      simp only [renderStatements] at h
      split at h
      · cases h
      · split at h
        · cases h
        · next hn =>
          split at h
          · cases h
          · next ls' hr =>
            intro x hx
            simp only [stmtLabels, List.mem_cons] at hx
            rcases hx with rfl | hx
            · simpa using hn
            · exact ih ls' hr x hx
    | ite => simp [renderStatements] at h
    | while_ => simp [renderStatements] at h
    | doWhile => simp [renderStatements] at h
    | brk => simp [renderStatements] at h
    | cont => simp [renderStatements] at h
    | switch_ => simp [renderStatements] at h

/-- In an accepted script no label statement equals a text name or a chunk label (entry label or
`<script>_<d>` for ANY chunk id `d` of the table, registered or not) of the same script: that is
what `renderStatements` checks.  Nothing is checked across scripts, nor between chunk labels and
text / movement / mart / mapscripts names. -/
theorem accepted_label_statements_fresh (o : Opts) (patches : List ((Nat × Nat) × String))
    (tl : List String) (s : Script) (l : List Line) (h : emitScript o patches tl s = .ok l) :
    ∀ n ∈ userLabelsOf s, n ∉ tl ∧
      ∀ G, scriptChunks s.body = .ok G → ∀ c ∈ G, n ≠ chunkLabel s.name c.id := by
  rw [C05.emitScript_eq] at h
  unfold userLabelsOf
  cases hc : scriptChunks s.body with
  | error e => rw [hc] at h; cases h
  | ok G =>
    rw [hc] at h
    simp only at h
    obtain ⟨order, ho, _, hfound⟩ := renderChunks_ok o patches s.name G (s.scope == .GLOBAL) tl l h
    obtain ⟨hperm, _, _⟩ := C05.script_order_perm o s G order hc ho
    obtain ⟨hidn, _⟩ := C05.scriptChunks_ids s.body G hc
    intro n hn
    obtain ⟨c, hcG, hnc⟩ := List.mem_flatMap.1 hn
    obtain ⟨nb, hnb, rfl⟩ := List.mem_map.1 hnc
    have hid : c.id ∈ order := hperm.mem_iff.2 (List.mem_map.2 ⟨c, hcG, rfl⟩)
    obtain ⟨c', sl, hf, hr⟩ := hfound c.id hid
    have hcc : c' = c := by
      have := chunkOf_self G hidn c hcG
      simp [chunkOf, hf] at this
      exact this
    subst hcc
    obtain ⟨_, _, h3⟩ := renderStatements_ok o patches _ tl _ _ hr
    refine ⟨renderStatements_fresh_tl o patches _ tl _ _ hr nb hnb, ?_⟩
    intro G' hG' d hd
    injection hG' with hG'
    subst hG'
    intro e
    exact h3 nb hnb (List.mem_map.2 ⟨d, hd, e.symm⟩)

end Pory.C04c
