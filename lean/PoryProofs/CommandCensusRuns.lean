import PoryProofs.CommandCensusRender
/-
Command census, part 4 (helper module of PoryProofs/Properties/C10d.lean): ORDER.  The straight-line runs
of a body.

* `runsOf body`: the non-empty maximal runs of consecutive command / label statements of every block of the
  body (at any depth), a block-final `end` / `return` command excluded from its run.
* `chunkRuns G`: the non-empty statement lists of the chunks of a table.
* `scriptChunks_runs`: `chunkRuns (scriptChunks body) ~ runsOf body` — every run is the statement list of
  exactly one chunk, and every chunk with statements holds exactly one run.
* `run_infix_emitScript`: hence every run `R` is rendered as ONE contiguous stretch of lines
  `stmtLines o ps R` (its statements in source order, each preceded by its marker if markers are on).
* `stretch_in_run`: consecutive command / label statements of a block (at any depth; the last one not the
  block-final `end` / `return`) lie next to each other in one run.
-/
namespace Pory.C10d
open Pory Pory.Emit Pory.RenderSim

def simpleB : Stmt → Bool
  | .cmd _ => true
  | .label .. => true
  | _ => false

theorem simpleB_iff (s : Stmt) : simpleB s = true ↔ IsSimple s := by cases s <;> simp [simpleB, IsSimple]

/-- a command statement named `end` / `return` -/
def isTermStmt : Stmt → Bool
  | .cmd c => isTerm c
  | _ => false

/-- a run, if it is not empty -/
def emitRun (acc : List Stmt) : List (List Stmt) := if acc.isEmpty then [] else [acc]

theorem emitRun_nil : emitRun [] = [] := rfl

mutual
/-- runs inside a compound statement -/
def stmtRuns : Stmt → List (List Stmt)
  | .cmd _ => []
  | .label .. => []
  | .ite _ _ b es e =>
    blockRuns [] b ++ elifsRuns es ++ (match e with | some l => blockRuns [] l | none => [])
  | .while_ _ _ _ b => blockRuns [] b
  | .doWhile _ _ _ b => blockRuns [] b
  | .brk .. => []
  | .cont .. => []
  | .switch_ _ _ _ cs => casesRuns cs
/-- runs of a block, in source order; `acc`: the simple statements seen since the last control statement -/
def blockRuns (acc : List Stmt) : List Stmt → List (List Stmt)
  | [] => emitRun acc
  | s :: r =>
    if simpleB s then (if r.isEmpty && isTermStmt s then emitRun acc else blockRuns (acc ++ [s]) r)
    else emitRun acc ++ stmtRuns s ++ blockRuns [] r
def elifsRuns : List (BoolExpr × List Stmt) → List (List Stmt)
  | [] => []
  | (_, b) :: r => blockRuns [] b ++ elifsRuns r
def casesRuns : List SwitchCase → List (List Stmt)
  | [] => []
  | (_, _, b) :: r => blockRuns [] b ++ casesRuns r
end

/-- **The straight-line runs of a body**: for every block at any depth, its maximal runs of consecutive
command / label statements (a block-final `end` / `return` left out), empty runs dropped; source order. -/
def runsOf (body : List Stmt) : List (List Stmt) := blockRuns [] body

theorem stmtRuns_ite (t : Tok) (c : BoolExpr) (b : List Stmt) (es : List (BoolExpr × List Stmt))
    (e : Option (List Stmt)) : stmtRuns (.ite t c b es e) =
      blockRuns [] b ++ elifsRuns es ++ (match e with | some l => blockRuns [] l | none => []) := by
  cases e <;> rw [stmtRuns]
theorem stmtRuns_while (t : Tok) (sid : Nat) (c : Option BoolExpr) (b : List Stmt) :
    stmtRuns (.while_ t sid c b) = blockRuns [] b := by rw [stmtRuns]
theorem stmtRuns_doWhile (t : Tok) (sid : Nat) (c : BoolExpr) (b : List Stmt) :
    stmtRuns (.doWhile t sid c b) = blockRuns [] b := by rw [stmtRuns]
theorem stmtRuns_brk (t : Tok) (sid : Nat) : stmtRuns (.brk t sid) = [] := by rw [stmtRuns]
theorem stmtRuns_cont (t : Tok) (sid : Nat) : stmtRuns (.cont t sid) = [] := by rw [stmtRuns]
theorem stmtRuns_switch (t : Tok) (sid : Nat) (o : Tok) (cs : List SwitchCase) :
    stmtRuns (.switch_ t sid o cs) = casesRuns cs := by rw [stmtRuns]
theorem blockRuns_nil (acc : List Stmt) : blockRuns acc [] = emitRun acc := by rw [blockRuns]
theorem blockRuns_cons (acc : List Stmt) (s : Stmt) (r : List Stmt) : blockRuns acc (s :: r) =
    if simpleB s then (if r.isEmpty && isTermStmt s then emitRun acc else blockRuns (acc ++ [s]) r)
    else emitRun acc ++ stmtRuns s ++ blockRuns [] r := by rw [blockRuns]
theorem elifsRuns_nil : elifsRuns [] = [] := by rw [elifsRuns]
theorem elifsRuns_cons (c : BoolExpr) (b : List Stmt) (r : List (BoolExpr × List Stmt)) :
    elifsRuns ((c, b) :: r) = blockRuns [] b ++ elifsRuns r := by rw [elifsRuns]
theorem casesRuns_nil : casesRuns [] = [] := by rw [casesRuns]
theorem casesRuns_cons (v : Tok) (d : Bool) (b : List Stmt) (r : List SwitchCase) :
    casesRuns ((v, d, b) :: r) = blockRuns [] b ++ casesRuns r := by rw [casesRuns]

theorem blockRuns_ctrl (acc : List Stmt) (s : Stmt) (r : List Stmt) (h : ¬ IsSimple s) :
    blockRuns acc (s :: r) = emitRun acc ++ stmtRuns s ++ blockRuns [] r := by
  rw [blockRuns_cons, if_neg (by rw [simpleB_iff]; exact h)]

/-! ### the scanning loop -/

theorem scan_runs : ∀ (ss : List Stmt) (i0 len : Nat), len = i0 + ss.length →
    ∀ i fin, scanSimple ss i0 len = (i, fin) →
    ∃ pre rest, ss = pre ++ rest ∧ i = i0 + pre.length ∧
      ∀ acc, blockRuns acc ss = emitRun (acc ++ pre) ++ blockRuns [] rest := by
  intro ss
  induction ss with
  | nil =>
    intro i0 len _ i fin h
    simp only [scanSimple, Prod.mk.injEq] at h
    exact ⟨[], [], rfl, by simp [h.1], fun acc => by simp [blockRuns_nil, emitRun_nil]⟩
  | cons s r ih =>
    intro i0 len hlen i fin h
    have stop : ¬ IsSimple s → (i, fin) = (i0, none) →
        ∃ pre rest, s :: r = pre ++ rest ∧ i = i0 + pre.length ∧
          ∀ acc, blockRuns acc (s :: r) = emitRun (acc ++ pre) ++ blockRuns [] rest := by
      intro hs h'
      simp only [Prod.mk.injEq] at h'
      refine ⟨[], s :: r, rfl, by simp [h'.1], fun acc => ?_⟩
      rw [blockRuns_ctrl acc s r hs, blockRuns_ctrl [] s r hs]
      simp [emitRun_nil]
    have go : simpleB s = true → (r.isEmpty && isTermStmt s) = false →
        scanSimple r (i0 + 1) len = (i, fin) →
        ∃ pre rest, s :: r = pre ++ rest ∧ i = i0 + pre.length ∧
          ∀ acc, blockRuns acc (s :: r) = emitRun (acc ++ pre) ++ blockRuns [] rest := by
      intro hs hflag h'
      obtain ⟨pre, rest, e1, e3, e4⟩ := ih (i0 + 1) len (by simp at hlen; omega) i fin h'
      refine ⟨s :: pre, rest, by simp [e1], by simp [e3]; omega, fun acc => ?_⟩
      rw [blockRuns_cons, if_pos hs, hflag]
      simp only [Bool.false_eq_true, if_false]
      rw [e4]
      simp
    cases s with
    | cmd c =>
      rw [scanSimple] at h
      split at h
      · rename_i hc
        simp only [Bool.and_eq_true, beq_iff_eq] at hc
        simp only [Prod.mk.injEq] at h
        have hr : r = [] := by
          have : r.length = 0 := by simp at hlen; omega
          exact List.eq_nil_of_length_eq_zero this
        subst hr
        refine ⟨[], [.cmd c], rfl, by simp [h.1], fun acc => ?_⟩
        have ht : isTerm c = true := by simpa [isTerm] using hc.2
        rw [blockRuns_cons, blockRuns_cons]
        simp [simpleB, isTermStmt, ht, emitRun_nil]
      · rename_i hc
        refine go rfl ?_ h
        cases r with
        | nil =>
          have : i0 + 1 = len := by simp at hlen; omega
          simp only [isTermStmt, isTerm, List.isEmpty_nil, Bool.true_and]
          simpa [this] using hc
        | cons x y => rfl
    | label t n g =>
      rw [scanSimple] at h
      exact go rfl (by simp [isTermStmt]) h
    | ite => simp only [scanSimple] at h; exact stop (by simp [IsSimple]) h.symm
    | while_ => simp only [scanSimple] at h; exact stop (by simp [IsSimple]) h.symm
    | doWhile => simp only [scanSimple] at h; exact stop (by simp [IsSimple]) h.symm
    | brk => simp only [scanSimple] at h; exact stop (by simp [IsSimple]) h.symm
    | cont => simp only [scanSimple] at h; exact stop (by simp [IsSimple]) h.symm
    | switch_ => simp only [scanSimple] at h; exact stop (by simp [IsSimple]) h.symm

theorem scan_runs0 (ss : List Stmt) (i : Nat) (fin : Option Bool)
    (h : scanSimple ss 0 ss.length = (i, fin)) :
    blockRuns [] ss = emitRun (ss.take i) ++ blockRuns [] (ss.drop i) := by
  obtain ⟨pre, rest, e1, e2, e3⟩ := scan_runs ss 0 _ (by simp) i fin h
  simp only [Nat.zero_add] at e2
  subst e2
  have ht : ss.take pre.length = pre := by rw [e1]; simp
  have hd : ss.drop pre.length = rest := by rw [e1]; simp
  rw [ht, hd]
  simpa using e3 []

/-! ### the weights "occurrences of the run `R`" -/

section
open Classical

/-- occurrences of `R` in a list of runs (equality of statements is decided classically) -/
noncomputable def runCount (R : List Stmt) (l : List (List Stmt)) : Nat := l.countP fun x => decide (x = R)

theorem runCount_nil (R : List Stmt) : runCount R [] = 0 := rfl
theorem runCount_append (R : List Stmt) (a b : List (List Stmt)) :
    runCount R (a ++ b) = runCount R a + runCount R b := by
  simp [runCount, List.countP_append]

theorem runCount_pos {R : List Stmt} {l : List (List Stmt)} : 0 < runCount R l ↔ R ∈ l := by
  unfold runCount
  rw [List.countP_pos_iff]
  constructor
  · rintro ⟨x, hx, hd⟩
    have : x = R := of_decide_eq_true hd
    exact this ▸ hx
  · intro h
    exact ⟨R, h, decide_eq_true rfl⟩

theorem runCount_flatMap {α : Type} (R : List Stmt) (f : α → List (List Stmt)) (l : List α) :
    runCount R (l.flatMap f) = (l.map fun x => runCount R (f x)).sum := by
  induction l with
  | nil => rfl
  | cons a r ih => simp [List.flatMap_cons, runCount_append, ih]

noncomputable def runWeights (R : List Stmt) : Weights where
  K _ := 0
  S _ s := runCount R (stmtRuns s)
  B ss := runCount R (blockRuns [] ss)
  E es := runCount R (elifsRuns es)
  C cs := runCount R (casesRuns cs)
  Br _ := 0
  F c := runCount R (emitRun c.statements)
  B_nil := by simp [blockRuns_nil, emitRun_nil, runCount]
  B_cons := by
    intro x r hx
    rw [blockRuns_ctrl [] x r hx]
    simp [emitRun_nil, runCount, List.countP_append]
  S_ite := by
    intro l t c b es e
    rw [stmtRuns_ite]
    cases e <;> simp only [runCount_append, runCount_nil] <;> omega
  S_while := by
    intro l t sid c b
    rw [stmtRuns_while]
    cases c <;> simp
  S_doWhile := by intro l t sid c b; rw [stmtRuns_doWhile]; simp
  S_brk := by intro l t sid; simp [stmtRuns_brk, runCount_nil]
  S_cont := by intro l t sid; simp [stmtRuns_cont, runCount_nil]
  S_switch := by intro l t sid o cs; rw [stmtRuns_switch]
  E_nil := by simp [elifsRuns_nil, runCount_nil]
  E_cons := by intro c b r; simp only [elifsRuns_cons, runCount_append]; omega
  C_nil := by simp [casesRuns_nil, runCount_nil]
  C_cons := by intro v d b r; simp [casesRuns_cons, runCount_append]
  K_bin := by intro l op r; rfl
  Br_none := rfl
  Br_jump := fun _ => rfl
  Br_breakCtx := fun _ => rfl
  Br_switch := fun _ _ _ _ => rfl
  Br_leaf := fun _ _ _ => rfl
  F_helper := by intro id ret br; simp [emitRun_nil, runCount_nil]
  F_none := by
    intro ss i h id ret br _
    rw [scan_runs0 ss i none h, runCount_append]
  F_some := by
    intro ss i e h id
    obtain ⟨_, e2⟩ := scan_cmds0 .emitted ss i (some e) h
    rcases e2 with ⟨h2, _⟩ | ⟨c, _, hd, ht⟩
    · cases h2
    · rw [scan_runs0 ss i (some e) h, hd, blockRuns_cons]
      simp [simpleB, isTermStmt, ht, emitRun_nil]

/-- The non-empty statement lists of the chunks of a table. -/
def chunkRuns (G : List Chunk) : List (List Stmt) := G.flatMap fun c => emitRun c.statements

theorem fcnt_runWeights (R : List Stmt) (G : List Chunk) : fcnt (runWeights R) G = runCount R (chunkRuns G) := by
  rw [fcnt_eq_sum, chunkRuns, runCount_flatMap]
  rfl

/-- every run occurs in the table as often as in the source -/
theorem scriptChunks_runCount (body : List Stmt) (chunks : List Chunk) (h : scriptChunks body = .ok chunks)
    (R : List Stmt) : runCount R (chunkRuns chunks) = runCount R (runsOf body) := by
  rw [← fcnt_runWeights, (runWeights R).scriptChunks_total body chunks h]
  rfl

/-- **The runs of the chunk table are the runs of the body.** -/
theorem scriptChunks_runs (body : List Stmt) (chunks : List Chunk) (h : scriptChunks body = .ok chunks) :
    (chunkRuns chunks).Perm (runsOf body) := by
  rw [List.perm_iff_count]
  intro R
  have := scriptChunks_runCount body chunks h R
  unfold runCount at this
  rw [List.count_eq_countP, List.count_eq_countP]
  have e : (fun x : List Stmt => x == R) = fun x => decide (x = R) := by
    funext x
    rw [Bool.eq_iff_iff]
    simp only [beq_iff_eq, decide_eq_true_eq]
  rw [e]
  exact this

end

theorem mem_chunkRuns {G : List Chunk} {R : List Stmt} :
    R ∈ chunkRuns G ↔ R ≠ [] ∧ ∃ c ∈ G, c.statements = R := by
  unfold chunkRuns emitRun
  simp only [List.mem_flatMap]
  constructor
  · rintro ⟨c, hc, hR⟩
    split at hR
    · cases hR
    · rename_i hne
      simp only [List.mem_singleton] at hR
      subst hR
      exact ⟨by simpa using hne, c, hc, rfl⟩
  · rintro ⟨hne, c, hc, rfl⟩
    refine ⟨c, hc, ?_⟩
    rw [if_neg (by simpa using hne)]
    simp

/-- Every run of the body is the statement list of a chunk of the table. -/
theorem run_is_chunk (body : List Stmt) (chunks : List Chunk) (h : scriptChunks body = .ok chunks)
    (R : List Stmt) (hR : R ∈ runsOf body) : R ≠ [] ∧ ∃ c ∈ chunks, c.statements = R :=
  mem_chunkRuns.1 ((scriptChunks_runs body chunks h).mem_iff.2 hR)

/-- Every chunk with statements holds a run of the body. -/
theorem chunk_is_run (body : List Stmt) (chunks : List Chunk) (h : scriptChunks body = .ok chunks)
    (c : Chunk) (hc : c ∈ chunks) (hne : c.statements ≠ []) : c.statements ∈ runsOf body :=
  (scriptChunks_runs body chunks h).mem_iff.1 (mem_chunkRuns.2 ⟨hne, c, hc, rfl⟩)

/-! ### runs are rendered contiguously -/

section
variable (o : Opts) (ps : List ((Nat × Nat) × String))

theorem infix_layout (n : String) (G : List Chunk) (g : Bool) (jumps : List Nat) : ∀ (order : List Nat),
    ∀ id ∈ order, stmtLines o ps (chunkOf G id).statements <:+: layout o ps n G g jumps order := by
  intro order
  induction order with
  | nil => intro id h; cases h
  | cons x rest ih =>
    intro id hid
    rw [layout_cons]
    rcases List.mem_cons.1 hid with rfl | hid
    · unfold bodyOf
      refine ⟨lbl n g jumps id, ((renderBranching o ps n (chunkOf G id) rest.head?).1 ++
        (if (renderBranching o ps n (chunkOf G id) rest.head?).2.2 then [] else [.blank])) ++
        layout o ps n G g jumps rest, ?_⟩
      simp only [List.append_assoc]
    · obtain ⟨a, b, e⟩ := ih id hid
      exact ⟨lbl n g jumps x ++ bodyOf o ps n (chunkOf G x) rest.head? ++ a, b, by rw [← e]; simp⟩

/-- **Every run of the body is rendered as one contiguous stretch of lines**: its statements in source
order, each command as its command line (each label as its label line), preceded by its marker when markers
are on — nothing else in between. -/
theorem run_infix_emitScript (tl : List String) (s : Script) (ls : List Line)
    (h : emitScript o ps tl s = .ok ls) (R : List Stmt) (hR : R ∈ runsOf s.body) :
    stmtLines o ps R <:+: ls := by
  rw [C05.emitScript_eq] at h
  cases hc : scriptChunks s.body with
  | error e => rw [hc] at h; cases h
  | ok G =>
    rw [hc] at h
    simp only at h
    obtain ⟨order, ho, hls, _⟩ := renderChunks_ok o ps s.name G (s.scope == .GLOBAL) tl ls h
    obtain ⟨hperm, _, _⟩ := C05.script_order_perm o s G order hc ho
    obtain ⟨hn, _⟩ := C05.scriptChunks_ids s.body G hc
    obtain ⟨_, c, hcG, rfl⟩ := run_is_chunk s.body G hc R hR
    have hid : c.id ∈ order := hperm.mem_iff.2 (List.mem_map.2 ⟨c, hcG, rfl⟩)
    have := infix_layout o ps s.name G (s.scope == .GLOBAL) (regsOf o ps s.name G order) order c.id hid
    rw [C04c.chunkOf_self G hn c hcG] at this
    rw [hls]
    exact this

theorem stmtLines_append' (a b : List Stmt) : stmtLines o ps (a ++ b) = stmtLines o ps a ++ stmtLines o ps b := by
  induction a with
  | nil => rfl
  | cons s r ih => cases s <;> simp [stmtLines, ih]

/-- a stretch of a run is a stretch of the output -/
theorem run_part_infix (tl : List String) (s : Script) (ls : List Line)
    (h : emitScript o ps tl s = .ok ls) (R X M Y : List Stmt) (hR : R ∈ runsOf s.body) (e : R = X ++ M ++ Y) :
    stmtLines o ps M <:+: ls := by
  have := run_infix_emitScript o ps tl s ls h R hR
  rw [e, stmtLines_append', stmtLines_append'] at this
  exact List.IsInfix.trans ⟨stmtLines o ps X, stmtLines o ps Y, rfl⟩ this

end

/-! ### consecutive statements of a block lie in one run -/

/-- a non-empty accumulator is the beginning of a run -/
theorem acc_prefix_run : ∀ (Z acc : List Stmt), acc ≠ [] → ∃ R ∈ blockRuns acc Z, acc <+: R := by
  intro Z
  induction Z with
  | nil =>
    intro acc hne
    rw [blockRuns_nil]
    refine ⟨acc, ?_, List.prefix_refl _⟩
    simp [emitRun, hne]
  | cons s r ih =>
    intro acc hne
    rw [blockRuns_cons]
    have hem : acc ∈ emitRun acc := by simp [emitRun, hne]
    split
    · split
      · exact ⟨acc, hem, List.prefix_refl _⟩
      · obtain ⟨R, hR, hp⟩ := ih (acc ++ [s]) (by simp)
        exact ⟨R, hR, List.IsPrefix.trans (List.prefix_append _ _) hp⟩
    · exact ⟨acc, by simp [hem], List.prefix_refl _⟩

/-- a stretch of simple statements that does not end in a block-final `end` / `return` is consumed into the
accumulator -/
theorem blockRuns_consume (Z : List Stmt) : ∀ (M acc : List Stmt), (∀ s ∈ M, simpleB s = true) →
    (Z ≠ [] ∨ ∀ s, M.getLast? = some s → isTermStmt s = false) →
    blockRuns acc (M ++ Z) = blockRuns (acc ++ M) Z := by
  intro M
  induction M with
  | nil => intro acc _ _; simp
  | cons s M ih =>
    intro acc hM hfin
    rw [List.cons_append, blockRuns_cons, if_pos (hM s (by simp))]
    have hflag : ((M ++ Z).isEmpty && isTermStmt s) = false := by
      cases M with
      | nil =>
        cases Z with
        | nil =>
          rcases hfin with h | h
          · exact absurd rfl h
          · simp [h s rfl]
        | cons z Z => rfl
      | cons m M => rfl
    rw [hflag]
    simp only [Bool.false_eq_true, if_false]
    rw [ih (acc ++ [s]) (fun x hx => hM x (by simp [hx]))]
    · simp
    · rcases hfin with h | h
      · exact .inl h
      · cases M with
        | nil => exact .inr (fun x hx => by cases hx)
        | cons m M => exact .inr (fun x hx => h x (by simpa using hx))

/-- **A stretch `M` of consecutive simple statements of a block** `A ++ M ++ Z` — not ending in the block-final
`end` / `return` — **lies inside one run of the block.** -/
theorem stretch_in_blockRuns (M Z : List Stmt) (hM : ∀ s ∈ M, simpleB s = true) (hne : M ≠ [])
    (hfin : Z ≠ [] ∨ ∀ s, M.getLast? = some s → isTermStmt s = false) : ∀ (A acc : List Stmt),
    ∃ R ∈ blockRuns acc (A ++ M ++ Z), ∃ X Y, R = X ++ M ++ Y := by
  intro A
  induction A with
  | nil =>
    intro acc
    rw [List.nil_append, blockRuns_consume Z M acc hM hfin]
    obtain ⟨R, hR, Y, hY⟩ := acc_prefix_run Z (acc ++ M) (by simp [hne])
    exact ⟨R, hR, acc, Y, by rw [← hY]⟩
  | cons a A ih =>
    intro acc
    rw [List.cons_append, List.cons_append, blockRuns_cons]
    split
    · have : ((A ++ M ++ Z).isEmpty && isTermStmt a) = false := by
        cases M with
        | nil => exact absurd rfl hne
        | cons m M => simp
      rw [this]
      simp only [Bool.false_eq_true, if_false]
      exact ih _
    · obtain ⟨R, hR, hx⟩ := ih []
      exact ⟨R, List.mem_append_right _ hR, hx⟩

/-! ### blocks of a body, and the runs of inner blocks -/

mutual
/-- the blocks directly or indirectly inside a statement -/
def stmtBlocks : Stmt → List (List Stmt)
  | .cmd _ => []
  | .label .. => []
  | .ite _ _ b es e =>
    (b :: innerBlocks b) ++ elifsBlocks es ++ (match e with | some l => l :: innerBlocks l | none => [])
  | .while_ _ _ _ b => b :: innerBlocks b
  | .doWhile _ _ _ b => b :: innerBlocks b
  | .brk .. => []
  | .cont .. => []
  | .switch_ _ _ _ cs => casesBlocks cs
def innerBlocks : List Stmt → List (List Stmt)
  | [] => []
  | s :: r => stmtBlocks s ++ innerBlocks r
def elifsBlocks : List (BoolExpr × List Stmt) → List (List Stmt)
  | [] => []
  | (_, b) :: r => (b :: innerBlocks b) ++ elifsBlocks r
def casesBlocks : List SwitchCase → List (List Stmt)
  | [] => []
  | (_, _, b) :: r => (b :: innerBlocks b) ++ casesBlocks r
end

/-- **All blocks of a body**: the body itself and, at any depth, the bodies of `if` / `elif` / `else`, loops
and `switch` cases. -/
def blocksOf (body : List Stmt) : List (List Stmt) := body :: innerBlocks body

theorem stmtBlocks_simple (s : Stmt) (h : simpleB s = true) : stmtBlocks s = [] := by
  cases s <;> simp [simpleB] at h <;> rw [stmtBlocks]

mutual
theorem runs_of_stmtBlocks (R : List Stmt) : ∀ (s : Stmt) (b : List Stmt), b ∈ stmtBlocks s →
    R ∈ blockRuns [] b → R ∈ stmtRuns s
  | .cmd _, b, hb, _ => by rw [stmtBlocks] at hb; cases hb
  | .label .., b, hb, _ => by rw [stmtBlocks] at hb; cases hb
  | .brk .., b, hb, _ => by rw [stmtBlocks] at hb; cases hb
  | .cont .., b, hb, _ => by rw [stmtBlocks] at hb; cases hb
  | .while_ t sid c body, b, hb, hR => by
    rw [stmtBlocks] at hb
    rw [stmtRuns_while]
    rcases List.mem_cons.1 hb with rfl | hb
    · exact hR
    · exact runs_of_innerBlocks R body b hb hR []
  | .doWhile t sid c body, b, hb, hR => by
    rw [stmtBlocks] at hb
    rw [stmtRuns_doWhile]
    rcases List.mem_cons.1 hb with rfl | hb
    · exact hR
    · exact runs_of_innerBlocks R body b hb hR []
  | .switch_ t sid o cs, b, hb, hR => by
    rw [stmtBlocks] at hb
    rw [stmtRuns_switch]
    exact runs_of_casesBlocks R cs b hb hR
  | .ite t c body es e, b, hb, hR => by
    rw [stmtRuns_ite]
    cases e with
    | none =>
      rw [stmtBlocks] at hb
      simp only [List.append_nil, List.mem_append, List.mem_cons] at hb ⊢
      rcases hb with (rfl | hb) | hb
      · exact .inl hR
      · exact .inl (runs_of_innerBlocks R body b hb hR [])
      · exact .inr (runs_of_elifsBlocks R es b hb hR)
    | some l =>
      rw [stmtBlocks] at hb
      simp only [List.mem_append, List.mem_cons] at hb ⊢
      rcases hb with ((rfl | hb) | hb) | (rfl | hb)
      · exact .inl (.inl hR)
      · exact .inl (.inl (runs_of_innerBlocks R body b hb hR []))
      · exact .inl (.inr (runs_of_elifsBlocks R es b hb hR))
      · exact .inr hR
      · exact .inr (runs_of_innerBlocks R l b hb hR [])
theorem runs_of_innerBlocks (R : List Stmt) : ∀ (ss : List Stmt) (b : List Stmt), b ∈ innerBlocks ss →
    R ∈ blockRuns [] b → ∀ acc, R ∈ blockRuns acc ss
  | [], b, hb, _, _ => by rw [innerBlocks] at hb; cases hb
  | s :: r, b, hb, hR, acc => by
    rw [innerBlocks] at hb
    rw [blockRuns_cons]
    rcases List.mem_append.1 hb with hb | hb
    · have hs : simpleB s = false := by
        cases h : simpleB s with
        | false => rfl
        | true => rw [stmtBlocks_simple s h] at hb; cases hb
      rw [hs]
      simp only [Bool.false_eq_true, if_false, List.mem_append]
      exact .inl (.inr (runs_of_stmtBlocks R s b hb hR))
    · split
      · have hne : r ≠ [] := by
          intro e; subst e; rw [innerBlocks] at hb; cases hb
        have : (r.isEmpty && isTermStmt s) = false := by
          cases r with
          | nil => exact absurd rfl hne
          | cons x y => rfl
        rw [this]
        simp only [Bool.false_eq_true, if_false]
        exact runs_of_innerBlocks R r b hb hR _
      · simp only [List.mem_append]
        exact .inr (runs_of_innerBlocks R r b hb hR _)
theorem runs_of_elifsBlocks (R : List Stmt) : ∀ (es : List (BoolExpr × List Stmt)) (b : List Stmt),
    b ∈ elifsBlocks es → R ∈ blockRuns [] b → R ∈ elifsRuns es
  | [], b, hb, _ => by rw [elifsBlocks] at hb; cases hb
  | (c, body) :: r, b, hb, hR => by
    rw [elifsBlocks] at hb
    rw [elifsRuns_cons]
    simp only [List.mem_append, List.mem_cons] at hb ⊢
    rcases hb with (rfl | hb) | hb
    · exact .inl hR
    · exact .inl (runs_of_innerBlocks R body b hb hR [])
    · exact .inr (runs_of_elifsBlocks R r b hb hR)
theorem runs_of_casesBlocks (R : List Stmt) : ∀ (cs : List SwitchCase) (b : List Stmt),
    b ∈ casesBlocks cs → R ∈ blockRuns [] b → R ∈ casesRuns cs
  | [], b, hb, _ => by rw [casesBlocks] at hb; cases hb
  | (v, d, body) :: r, b, hb, hR => by
    rw [casesBlocks] at hb
    rw [casesRuns_cons]
    simp only [List.mem_append, List.mem_cons] at hb ⊢
    rcases hb with (rfl | hb) | hb
    · exact .inl hR
    · exact .inl (runs_of_innerBlocks R body b hb hR [])
    · exact .inr (runs_of_casesBlocks R r b hb hR)
end

/-- The runs of every block of the body are runs of the body. -/
theorem runsOf_block (body b : List Stmt) (hb : b ∈ blocksOf body) : ∀ R ∈ runsOf b, R ∈ runsOf body := by
  intro R hR
  rcases List.mem_cons.1 hb with rfl | hb
  · exact hR
  · exact runs_of_innerBlocks R body b hb hR []

/-- **stretch_in_run**: a stretch `M` of consecutive command / label statements of a block `b = A ++ M ++ Z` of
the body (at any depth), not ending in the block-final `end` / `return` of `b`, lies inside one run of the
body. -/
theorem stretch_in_run (body b : List Stmt) (hb : b ∈ blocksOf body) (A M Z : List Stmt)
    (e : b = A ++ M ++ Z) (hM : ∀ s ∈ M, simpleB s = true) (hne : M ≠ [])
    (hfin : Z ≠ [] ∨ ∀ s, M.getLast? = some s → isTermStmt s = false) :
    ∃ R ∈ runsOf body, ∃ X Y, R = X ++ M ++ Y := by
  obtain ⟨R, hR, hx⟩ := stretch_in_blockRuns M Z hM hne hfin A []
  exact ⟨R, runsOf_block body b hb R (by rw [e]; exact hR), hx⟩

end Pory.C10d
