import PoryModel.Render
/-
The chunk table built by the worklist (`scriptChunks`) has pairwise distinct chunk ids and
contains chunk 0.  (Used by property C05 to discharge the hypotheses of
`optimizeChunkOrder_perm` / `chunkOrder_perm` for the tables the emitter really produces.)

Proof idea: every helper that creates chunks (`splitBool`, `createIf`, …) only touches `counter`
and `queue`, never `final`; `processChunk cur` ends with one `setFinal c` with `c.id = cur.id`;
`setFinal` keeps the ids distinct; the first processed chunk is chunk 0.
-/
namespace Pory.C05
open Pory Pory.Emit

theorem splitChunkForBranch_final (c : Chunk) (i : Nat) (s : WS) :
    (splitChunkForBranch c i s).1.final = s.final := by
  unfold splitChunkForBranch; split <;> rfl

theorem keepStatementsAfterJump_final (c : Chunk) (i : Nat) (s : WS) :
    (keepStatementsAfterJump c i s).final = s.final := by
  unfold keepStatementsAfterJump; split <;> rfl

theorem splitBool_final (e : BoolExpr) :
    ∀ (succ : Nat) (fail : Option Nat) (s s' : WS) (id : Nat),
      splitBool e succ fail s = .ok (s', id) → s'.final = s.final := by
  induction e with
  | leaf e =>
    intro succ fail s s' id h
    simp only [splitBool, Except.ok.injEq, Prod.mk.injEq] at h
    rw [← h.1]
  | bin l op r ihl ihr =>
    intro succ fail s s' id h
    rw [splitBool] at h
    split at h
    · simp only at h
      split at h
      · cases h
      · rename_i s1 le hl
        split at h
        · cases h
        · rename_i s2 re hr
          simp only [Except.ok.injEq, Prod.mk.injEq] at h
          rw [← h.1]
          show s2.final = s.final
          rw [ihr _ _ _ _ _ hr, ihl _ _ _ _ _ hl]
    · split at h
      · simp only at h
        split at h
        · cases h
        · rename_i s1 le hl
          split at h
          · cases h
          · rename_i s2 re hr
            simp only [Except.ok.injEq, Prod.mk.injEq] at h
            rw [← h.1]
            show s2.final = s.final
            rw [ihr _ _ _ _ _ hr, ihl _ _ _ _ _ hl]
      · cases h

theorem splitElifs_final (lastFail : Option Nat) :
    ∀ (elifs : List (BoolExpr × List Stmt)) (ids : List Nat) (s s' : WS) (r : Option Nat),
      splitElifs elifs ids lastFail s = .ok (s', r) → s'.final = s.final := by
  intro elifs
  induction elifs with
  | nil =>
    intro ids s s' r h
    simp only [splitElifs, Except.ok.injEq, Prod.mk.injEq] at h
    rw [← h.1]
  | cons e restE ih =>
    intro ids s s' r h
    cases ids with
    | nil =>
      simp only [splitElifs, Except.ok.injEq, Prod.mk.injEq] at h
      rw [← h.1]
    | cons id restI =>
      obtain ⟨c, b⟩ := e
      rw [splitElifs] at h
      split at h
      · cases h
      · rename_i s1 ne h1
        split at h
        · cases h
        · rename_i s2 en h2
          simp only [Except.ok.injEq, Prod.mk.injEq] at h
          rw [← h.1, splitBool_final _ _ _ _ _ _ h2, ih _ _ _ _ h1]

theorem foldl_final {α : Type} (f : WS × List Nat → α → WS × List Nat)
    (hf : ∀ acc e, (f acc e).1.final = acc.1.final) (l : List α) :
    ∀ (acc : WS × List Nat), (l.foldl f acc).1.final = acc.1.final := by
  induction l with
  | nil => intro acc; rfl
  | cons e r ih => intro acc; rw [List.foldl_cons, ih, hf]

theorem createIf_final (cond : BoolExpr) (body : List Stmt) (elifs : List (BoolExpr × List Stmt))
    (els : Option (List Stmt)) (c : Chunk) (i : Nat) (s s' : WS) (br : Branch) (r : Option Nat)
    (h : createIf cond body elifs els c i s = .ok (s', br, r)) : s'.final = s.final := by
  unfold createIf at h
  simp only at h
  split at h
  · cases h
  · rename_i s1 ac h1
    split at h
    · cases h
    · rename_i s2 en h2
      simp only [Except.ok.injEq, Prod.mk.injEq] at h
      rw [← h.1, splitBool_final _ _ _ _ _ _ h2, splitElifs_final _ _ _ _ _ _ h1]
      cases els with
      | none =>
        exact (foldl_final _ (by intro acc e; rfl) _ _).trans (splitChunkForBranch_final c i s)
      | some st =>
        exact (foldl_final _ (by intro acc e; rfl) _ _).trans (splitChunkForBranch_final c i s)

theorem createWhile_final (cond : Option BoolExpr) (body : List Stmt) (c : Chunk) (i : Nat)
    (s s' : WS) (br : Branch) (r : Option Nat) (k : Nat)
    (h : createWhile cond body c i s = .ok (s', br, r, k)) : s'.final = s.final := by
  unfold createWhile at h
  simp only at h
  split at h
  · simp only [Except.ok.injEq, Prod.mk.injEq] at h
    rw [← h.1]
    exact splitChunkForBranch_final c i s
  · split at h
    · cases h
    · rename_i s1 en h1
      simp only [Except.ok.injEq, Prod.mk.injEq] at h
      rw [← h.1]
      exact (splitBool_final _ _ _ _ _ _ h1).trans (splitChunkForBranch_final c i s)

theorem createDoWhile_final (cond : BoolExpr) (body : List Stmt) (c : Chunk) (i : Nat)
    (s s' : WS) (br : Branch) (r : Option Nat) (k : Nat)
    (h : createDoWhile cond body c i s = .ok (s', br, r, k)) : s'.final = s.final := by
  unfold createDoWhile at h
  simp only at h
  split at h
  · cases h
  · rename_i s1 en h1
    simp only [Except.ok.injEq, Prod.mk.injEq] at h
    rw [← h.1]
    exact (splitBool_final _ _ _ _ _ _ h1).trans (splitChunkForBranch_final c i s)

theorem switchBodies_final (returnID : Option Nat) (cases : List SwitchCase) :
    ∀ (s : WS), (switchBodies returnID cases s).1.final = s.final := by
  induction cases with
  | nil => intro s; rfl
  | cons c r ih =>
    intro s
    obtain ⟨v, d, body⟩ := c
    rw [switchBodies]
    split
    · simp only; rw [ih]; rfl
    · simp only; rw [ih]

theorem createSwitch_final (operand : Tok) (cases : List SwitchCase) (c : Chunk) (i : Nat) (s : WS) :
    (createSwitch operand cases c i s).1.final = s.final := by
  unfold createSwitch
  simp only
  split
  · exact (switchBodies_final _ _ _).trans (splitChunkForBranch_final c i s)
  · split
    · exact (switchBodies_final _ _ _).trans (splitChunkForBranch_final c i s)
    · exact (switchBodies_final _ _ _).trans (splitChunkForBranch_final c i s)

/-- `s'.final` is `s.final` with the entry for `id` replaced (or added). -/
def Updated (id : Nat) (s s' : WS) : Prop :=
  ∃ c : Chunk, c.id = id ∧ s'.final = c :: s.final.filter (·.id != id)

theorem updated_setFinal {s s1 : WS} {id : Nat} (c : Chunk) (hid : c.id = id) (h : s1.final = s.final) :
    Updated id s (s1.setFinal c) :=
  ⟨c, hid, by simp [WS.setFinal, h, hid]⟩

theorem processChunk_final (cur : Chunk) (s s' : WS) (h : processChunk cur s = .ok s') :
    Updated cur.id s s' := by
  unfold processChunk at h
  simp only at h
  split at h
  · injection h with h; rw [← h]; exact updated_setFinal _ rfl rfl
  · split at h
    · injection h with h; rw [← h]; exact updated_setFinal _ rfl rfl
    · split at h
      · -- if
        split at h
        · cases h
        · rename_i s1 br r h1
          injection h with h; rw [← h]
          exact updated_setFinal { id := cur.id, returnID := r, statements := _, branch := br } rfl
            (createIf_final _ _ _ _ _ _ _ _ _ _ h1)
      · -- while
        split at h
        · cases h
        · rename_i s1 br r k h1
          injection h with h; rw [← h]
          exact updated_setFinal { id := cur.id, returnID := r, statements := _, branch := br } rfl
            (createWhile_final _ _ _ _ _ _ _ _ _ h1)
      · -- do-while
        split at h
        · cases h
        · rename_i s1 br r k h1
          injection h with h; rw [← h]
          exact updated_setFinal { id := cur.id, returnID := r, statements := _, branch := br } rfl
            (createDoWhile_final _ _ _ _ _ _ _ _ _ h1)
      · -- break
        split at h
        · cases h
        · injection h with h; rw [← h]
          exact updated_setFinal { id := cur.id, returnID := cur.returnID, statements := _, branch := _ } rfl
            (keepStatementsAfterJump_final _ _ _)
      · -- continue
        split at h
        · cases h
        · injection h with h; rw [← h]
          exact updated_setFinal { id := cur.id, returnID := cur.returnID, statements := _, branch := _ } rfl
            (keepStatementsAfterJump_final _ _ _)
      · -- switch
        injection h with h; rw [← h]
        exact updated_setFinal { id := cur.id, returnID := _, statements := _, branch := _ } rfl
            (createSwitch_final _ _ _ _ _)
      · injection h with h; rw [← h]; exact updated_setFinal _ rfl rfl

theorem Updated.nodup {id : Nat} {s s' : WS} (h : Updated id s s')
    (hn : (s.final.map (·.id)).Nodup) : (s'.final.map (·.id)).Nodup := by
  obtain ⟨c, hc, hf⟩ := h
  rw [hf, List.map_cons, List.nodup_cons]
  constructor
  · intro hm
    rw [List.mem_map] at hm
    obtain ⟨d, hd, hdc⟩ := hm
    have := (List.mem_filter.1 hd).2
    simp [hdc, hc] at this
  · exact List.Nodup.sublist ((List.filter_sublist).map _) hn

theorem Updated.mem_self {id : Nat} {s s' : WS} (h : Updated id s s') :
    id ∈ s'.final.map (·.id) := by
  obtain ⟨c, hc, hf⟩ := h
  rw [hf]; simp [hc]

theorem Updated.mem_of_mem {id x : Nat} {s s' : WS} (h : Updated id s s')
    (hx : x ∈ s.final.map (·.id)) : x ∈ s'.final.map (·.id) := by
  by_cases hxi : x = id
  · rw [hxi]; exact h.mem_self
  · obtain ⟨c, hc, hf⟩ := h
    rw [hf, List.map_cons]
    refine List.mem_cons_of_mem _ ?_
    rw [List.mem_map] at hx ⊢
    obtain ⟨d, hd, hdx⟩ := hx
    exact ⟨d, List.mem_filter.2 ⟨hd, by simp [hdx, hxi]⟩, hdx⟩

theorem runWorklist_ids :
    ∀ (n : Nat) (s s' : WS), (s.final.map (·.id)).Nodup →
      (0 ∈ s.final.map (·.id) ∨ ∃ c r, s.queue = c :: r ∧ c.id = 0) →
      runWorklist n s = .ok s' →
      (s'.final.map (·.id)).Nodup ∧ 0 ∈ s'.final.map (·.id) := by
  intro n
  induction n with
  | zero => intro s s' _ _ h; rw [runWorklist] at h; cases h
  | succ n ih =>
    intro s s' hn h0 h
    rw [runWorklist] at h
    split at h
    · rename_i hq
      injection h with h
      subst h
      refine ⟨hn, ?_⟩
      rcases h0 with h0 | ⟨c, r, hcr, _⟩
      · exact h0
      · rw [hq] at hcr; cases hcr
    · rename_i cur rest hq
      split at h
      · cases h
      · rename_i s1 h1
        have hu := processChunk_final _ _ _ h1
        refine ih s1 s' (hu.nodup hn) (.inl ?_) h
        rcases h0 with h0 | ⟨c, r, hcr, hc0⟩
        · exact hu.mem_of_mem h0
        · rw [hq] at hcr
          injection hcr with hc _
          rw [← hc0, ← hc]
          exact hu.mem_self

/-- The chunk table of a script has pairwise distinct ids and contains chunk 0. -/
theorem scriptChunks_ids (body : List Stmt) (chunks : List Chunk)
    (h : scriptChunks body = .ok chunks) :
    (chunks.map (·.id)).Nodup ∧ 0 ∈ chunks.map (·.id) := by
  unfold scriptChunks at h
  split at h
  · cases h
  · rename_i s hs
    injection h with h
    subst h
    exact runWorklist_ids _ _ _ (by simp) (.inr ⟨_, _, rfl, rfl⟩) hs

end Pory.C05
