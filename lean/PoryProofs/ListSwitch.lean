import PoryProofs.ListParse
/-
Helpers for C14 (parser half), part 2: movement lists WITH `poryswitch (X) { case … }` elements.
Reference syntax `ItemP / Cases / Items` (a plain mutual inductive: own list types instead of
`List`, so that recursion and induction are plainly structural), printer `….toks`, expected
expansion `expItems env` (the case selected by `env.switches`, `_` as fallback, later cases
override earlier ones with the same name — exactly the map semantics of the Go code), fuel needs,
one-step lemmas for `parseListValue` (any `allowMultiple`), `parsePoryswitchHeader`,
`parsePoryswitchListStatement`, `parsePoryswitchListCases`, and the mutual parse∘print induction
`stepP / casesP / itemsP`. Property theorem: `PoryProofs/Properties/C14b.lean`
(`parse_movement_list_switch`).
-/
namespace Pory.C14b
open Pory Pory.Parser Pory.C02P

/-! ### reference syntax -/
mutual
/-- One element of a movement list. -/
inductive ItemP
  | plain (i : Item)
  /-- `poryswitch ( X ) { cases }` -/
  | sw (psw lp x rp lb : Tok) (cases : Cases) (rb : Tok)
/-- The cases of a poryswitch. -/
inductive Cases
  | nil
  /-- `V : element` (exactly one list element) -/
  | colon (v c : Tok) (e : ItemP) (rest : Cases)
  /-- `V { elements }` -/
  | brace (v lb : Tok) (items : Items) (rb : Tok) (rest : Cases)
/-- A list of elements. -/
inductive Items
  | nil
  | cons (i : ItemP) (r : Items)
end

mutual
def ItemP.toks : ItemP → List Tok
  | .plain i => i.toks
  | .sw psw lp x rp lb cases rb => psw :: lp :: x :: rp :: lb :: (cases.toks ++ [rb])
def Cases.toks : Cases → List Tok
  | .nil => []
  | .colon v c e rest => v :: c :: (e.toks ++ rest.toks)
  | .brace v lb items rb rest => v :: lb :: (items.toks ++ rb :: rest.toks)
def Items.toks : Items → List Tok
  | .nil => []
  | .cons i r => i.toks ++ r.toks
end

def Items.ofList : List Item → Items
  | [] => .nil
  | i :: r => .cons (.plain i) (Items.ofList r)

theorem Items.ofList_toks (l : List Item) : (Items.ofList l).toks = printItems l := by
  induction l with
  | nil => simp [Items.ofList, Items.toks, printItems]
  | cons i r ih => simp [Items.ofList, Items.toks, ItemP.toks, printItems, ih]

/-- The value of switch `name` (`""` when it is not defined — only possible without environment
errors, i.e. in the lint parser). -/
def swVal (env : Env) (name : String) : String :=
  match env.switches.lookup name with
  | some v => v
  | none => ""

/-- Which case a poryswitch statement yields; `cases` is newest-first. `none` = the
"no poryswitch case found" error. -/
def selectCase (env : Env) (name : String) (cases : List (String × List Tok)) : Option (List Tok) :=
  match cases.lookup (swVal env name) with
  | some items => some items
  | none =>
    match cases.lookup "_" with
    | some items => some items
    | none => if env.envErrors then none else some []

mutual
def expItem (env : Env) : ItemP → Option (List Tok)
  | .plain i => i.expand
  | .sw _ _ x _ _ cases _ =>
    match expCases env cases [] with
    | none => none
    | some cs => selectCase env x.lit cs
/-- The case table (newest first) — every case body is expanded, also the ones not selected. -/
def expCases (env : Env) : Cases → List (String × List Tok) → Option (List (String × List Tok))
  | .nil, acc => some acc
  | .colon v _ e rest, acc =>
    match expItem env e with
    | none => none
    | some l => expCases env rest ((v.lit, l) :: acc)
  | .brace v _ items _ rest, acc =>
    match expItems env items with
    | none => none
    | some l => expCases env rest ((v.lit, l) :: acc)
def expItems (env : Env) : Items → Option (List Tok)
  | .nil => some []
  | .cons i r =>
    match expItem env i, expItems env r with
    | some a, some b => some (a ++ b)
    | _, _ => none
end

mutual
def wfItem (env : Env) : ItemP → Prop
  | .plain i => i.WF
  | .sw psw lp x rp lb cases rb =>
    psw.type = .PORYSWITCH ∧ lp.type = .LPAREN ∧ x.type = .IDENT ∧ rp.type = .RPAREN ∧
    lb.type = .LBRACE ∧ rb.type = .RBRACE ∧
    (env.envErrors = true → (env.switches.lookup x.lit).isSome = true) ∧ wfCases env cases
def wfCases (env : Env) : Cases → Prop
  | .nil => True
  | .colon v c e rest =>
    (v.type = .IDENT ∨ v.type = .INT) ∧ c.type = .COLON ∧ wfItem env e ∧ wfCases env rest
  | .brace v lb items rb rest =>
    (v.type = .IDENT ∨ v.type = .INT) ∧ lb.type = .LBRACE ∧ rb.type = .RBRACE ∧
    wfItems env items ∧ wfCases env rest
def wfItems (env : Env) : Items → Prop
  | .nil => True
  | .cons i r => wfItem env i ∧ wfItems env r
end

/-! fuel needs (sums, so that sub-bounds follow by `omega`) -/
mutual
def needItem : ItemP → Nat
  | .plain _ => 0
  | .sw _ _ _ _ _ cases _ => 1 + needCases cases
def needCases : Cases → Nat
  | .nil => 1
  | .colon _ _ e rest => 2 + needItem e + needCases rest
  | .brace _ _ items _ rest => 1 + needItems items + needCases rest
def needItems : Items → Nat
  | .nil => 1
  | .cons i r => 1 + needItem i + needItems r
end

theorem Items.ofList_exp (env : Env) (l : List Item) : expItems env (Items.ofList l) = expand l := by
  induction l with
  | nil => simp [Items.ofList, expItems, expand]
  | cons i r ih =>
    simp only [Items.ofList, expItems, expItem, expand, ih]
    cases i.expand <;> cases expand r <;> rfl

theorem Items.ofList_wf (env : Env) (l : List Item) (h : ∀ i ∈ l, i.WF) : wfItems env (Items.ofList l) := by
  induction l with
  | nil => simp [Items.ofList, wfItems]
  | cons i r ih =>
    simp only [Items.ofList, wfItems, wfItem]
    exact ⟨h i (by simp), ih (fun j hj => h j (by simp [hj]))⟩

/-! ### first tokens -/

theorem item_head (env : Env) (i : ItemP) (h : wfItem env i) :
    ∃ a l, i.toks = a :: l ∧ a.type ≠ .MUL := by
  cases i with
  | plain it =>
    simp only [wfItem] at h
    cases it with
    | step n => exact ⟨n, _, rfl, by simp [Item.WF] at h; simp [h]⟩
    | stepMul n st' m => exact ⟨n, _, rfl, by simp [Item.WF] at h; simp [h.1]⟩
    | comma t => exact ⟨t, _, rfl, by simp [Item.WF] at h; simp [h]⟩
  | sw psw lp x rp lb cases rb =>
    simp only [wfItem] at h
    exact ⟨psw, lp :: x :: rp :: lb :: (cases.toks ++ [rb]), by simp [ItemP.toks], by simp [h.1]⟩

theorem items_head (env : Env) (is : Items) (nx : Tok) (tl : List Tok) (h : wfItems env is)
    (hnx : nx.type ≠ .MUL) : ∃ a l, is.toks ++ nx :: tl = a :: l ∧ a.type ≠ .MUL := by
  cases is with
  | nil => exact ⟨nx, tl, by simp [Items.toks], hnx⟩
  | cons i r =>
    simp only [wfItems] at h
    obtain ⟨a, l, he, ha⟩ := item_head env i h.1
    exact ⟨a, l ++ (r.toks ++ nx :: tl), by simp [Items.toks, he], ha⟩

theorem cases_head (env : Env) (cs : Cases) (nx : Tok) (tl : List Tok) (h : wfCases env cs)
    (hnx : nx.type ≠ .MUL) : ∃ a l, cs.toks ++ nx :: tl = a :: l ∧ a.type ≠ .MUL := by
  cases cs with
  | nil => exact ⟨nx, tl, by simp [Cases.toks], hnx⟩
  | colon v c e rest =>
    simp only [wfCases] at h
    exact ⟨v, c :: (e.toks ++ (rest.toks ++ nx :: tl)), by simp [Cases.toks],
      by rcases h.1 with h | h <;> simp [h]⟩
  | brace v lb items rb rest =>
    simp only [wfCases] at h
    exact ⟨v, lb :: (items.toks ++ rb :: (rest.toks ++ nx :: tl)), by simp [Cases.toks],
      by rcases h.1 with h | h <;> simp [h]⟩

/-! ### one-step lemmas, any `allowMultiple` -/

/-- What `parseListValue` does after one element: loop or stop. -/
def after (env : Env) (closing : TT) (am : Bool) (f : Nat) (acc' : List Tok) (s' : PState) :
    Except PFail (List Tok × PState) :=
  if am = true then (parseListValue env (.movement closing) am f acc').run s' else .ok (acc', s')

section
variable (env : Env) (closing : TT) (am : Bool) (f : Nat) (acc : List Tok) (s : PState)

theorem plvA_close (c : Tok) (tl : List Tok) (hc : c.type = closing) :
    (parseListValue env (.movement closing) am (f + 1) acc).run (st s (c :: tl)) =
      .ok (acc, st s (c :: tl)) := by
  rw [parseListValue]
  simp [hc, ListKind.closing]

theorem plvA_step (name nx : Tok) (tl : List Tok)
    (hn : name.type = .IDENT) (hcl : closing ≠ .IDENT) (hnx : nx.type ≠ .MUL) :
    (parseListValue env (.movement closing) am (f + 1) acc).run (st s (name :: nx :: tl)) =
      after env closing am f (acc ++ [name]) (st s (nx :: tl)) := by
  rw [parseListValue]
  cases am <;> simp [hn, ListKind.closing, Ne.symm hcl, hnx, after]

theorem plvA_comma (c : Tok) (tl : List Tok) (hc : c.type = .COMMA) (hcl : closing ≠ .COMMA) :
    (parseListValue env (.movement closing) am (f + 1) acc).run (st s (c :: tl)) =
      after env closing am f acc (st s tl) := by
  rw [parseListValue]
  cases am <;> simp [hc, ListKind.closing, Ne.symm hcl, after]

theorem plvA_mul (name star num : Tok) (tl : List Tok) (k : Nat)
    (hn : name.type = .IDENT) (hs : star.type = .MUL) (hm : num.type = .INT) (hcl : closing ≠ .IDENT)
    (hk : mulCheck num.lit = .ok k) :
    (parseListValue env (.movement closing) am (f + 1) acc).run (st s (name :: star :: num :: tl)) =
      after env closing am f (acc ++ List.replicate k name) (st s tl) := by
  obtain ⟨n, hp, h0, h1, rfl⟩ := (mulCheck_ok_iff _ _).mp hk
  have h0' : ¬ n ≤ 0 := by omega
  have h1' : ¬ (Facts.multiplierMax : Int) < n := by simp [Facts.multiplierMax]; omega
  rw [parseListValue]
  cases am <;> simp [hn, hs, hm, ListKind.closing, Ne.symm hcl, hp, h0', h1', after]

theorem plvA_sw (psw : Tok) (tl : List Tok) (items : List Tok) (s1 : PState)
    (hp : psw.type = .PORYSWITCH) (hcl : closing ≠ .PORYSWITCH)
    (hst : (parsePoryswitchListStatement env (.movement closing) f).run (st s (psw :: tl)) =
      .ok (items, s1)) :
    (parseListValue env (.movement closing) am (f + 1) acc).run (st s (psw :: tl)) =
      after env closing am f (acc ++ items) s1 := by
  rw [parseListValue]
  cases am <;> simp [hp, ListKind.closing, Ne.symm hcl, hst, after]

end

/-! ### header, statement, cases -/

theorem header_ok (env : Env) (s : PState) (psw lp x rp lb : Tok) (tl : List Tok)
    (hlp : lp.type = .LPAREN) (hx : x.type = .IDENT) (hrp : rp.type = .RPAREN)
    (hlb : lb.type = .LBRACE)
    (hsw : env.envErrors = true → (env.switches.lookup x.lit).isSome = true) :
    (parsePoryswitchHeader env).run (st s (psw :: lp :: x :: rp :: lb :: tl)) =
      .ok ((x.lit, swVal env x.lit), st s tl) := by
  unfold parsePoryswitchHeader swVal
  rcases hl : env.switches.lookup x.lit with _ | v
  · cases he : env.envErrors
    · simp [hlp, hx, hrp, hlb, hl]
    · simp [hl, he] at hsw
  · have hne : env.switches.isEmpty = false := by
      cases hsws : env.switches with
      | nil => simp [hsws] at hl
      | cons a b => rfl
    simp [hlp, hx, hrp, hlb, hl, hne]

theorem stmt_ok (env : Env) (closing : TT) (n : Nat) (s : PState) (psw lp x rp lb : Tok)
    (tl : List Tok) (cs : List (String × List Tok)) (rb : Tok) (tl' : List Tok) (items : List Tok)
    (hlp : lp.type = .LPAREN) (hx : x.type = .IDENT) (hrp : rp.type = .RPAREN)
    (hlb : lb.type = .LBRACE)
    (hsw : env.envErrors = true → (env.switches.lookup x.lit).isSome = true)
    (hrun : ∀ stt, (parsePoryswitchListCases env (.movement closing) stt n []).run (st s tl) =
      .ok (cs, st s (rb :: tl')))
    (hsel : selectCase env x.lit cs = some items) :
    (parsePoryswitchListStatement env (.movement closing) (n + 1)).run
        (st s (psw :: lp :: x :: rp :: lb :: tl)) = .ok (items, st s tl') := by
  rw [parsePoryswitchListStatement]
  unfold selectCase at hsel
  rcases h1 : cs.lookup (swVal env x.lit) with _ | it1
  · rcases h2 : cs.lookup "_" with _ | it2
    · cases he : env.envErrors
      · simp [h1, h2, he] at hsel; subst hsel
        simp [header_ok env s psw lp x rp lb tl hlp hx hrp hlb hsw, hrun, h1, h2]
      · simp [h1, h2, he] at hsel
    · simp [h1, h2] at hsel; subst hsel
      simp [header_ok env s psw lp x rp lb tl hlp hx hrp hlb hsw, hrun, h1, h2]
  · simp [h1] at hsel; subst hsel
    simp [header_ok env s psw lp x rp lb tl hlp hx hrp hlb hsw, hrun, h1]

section
variable (env : Env) (closing : TT) (stt : Tok) (n : Nat) (acc : List (String × List Tok))
  (s : PState)

theorem cases_close (c : Tok) (tl : List Tok) (hc : c.type = .RBRACE) :
    (parsePoryswitchListCases env (.movement closing) stt (n + 1) acc).run (st s (c :: tl)) =
      .ok (acc, st s (c :: tl)) := by
  rw [parsePoryswitchListCases]
  simp [hc]

theorem cases_colon (v c : Tok) (tl : List Tok) (items : List Tok) (s1 : PState)
    (hv : v.type = .IDENT ∨ v.type = .INT) (hc : c.type = .COLON)
    (hrun : (parseListValue env (.movement .RBRACE) false n []).run (st s tl) = .ok (items, s1)) :
    (parsePoryswitchListCases env (.movement closing) stt (n + 1) acc).run (st s (v :: c :: tl)) =
      (parsePoryswitchListCases env (.movement closing) stt n ((v.lit, items) :: acc)).run s1 := by
  rw [parsePoryswitchListCases]
  have hb : (TT.COLON == TT.LBRACE) = false := by decide
  rcases hv with hv | hv <;> simp [hv, hc, ListKind.nested, hb, hrun]

theorem cases_brace (v lb : Tok) (tl : List Tok) (items : List Tok) (rb : Tok) (tl' : List Tok)
    (hv : v.type = .IDENT ∨ v.type = .INT) (hlb : lb.type = .LBRACE) (hrb : rb.type = .RBRACE)
    (hrun : (parseListValue env (.movement .RBRACE) true n []).run (st s tl) =
      .ok (items, st s (rb :: tl'))) :
    (parsePoryswitchListCases env (.movement closing) stt (n + 1) acc).run (st s (v :: lb :: tl)) =
      (parsePoryswitchListCases env (.movement closing) stt n ((v.lit, items) :: acc)).run
        (st s tl') := by
  rw [parsePoryswitchListCases]
  rcases hv with hv | hv <;> simp [hv, hlb, hrb, ListKind.nested, hrun]

end

/-- Closing token types a list can end with (`}` and `)` are). -/
structure GoodClosing (closing : TT) : Prop where
  ident : closing ≠ .IDENT
  comma : closing ≠ .COMMA
  mul : closing ≠ .MUL
  psw : closing ≠ .PORYSWITCH

theorem good_rbrace : GoodClosing .RBRACE := ⟨by decide, by decide, by decide, by decide⟩
theorem good_rparen : GoodClosing .RPAREN := ⟨by decide, by decide, by decide, by decide⟩

/-! ### the mutual parse∘print induction -/
section
variable (env : Env) (s : PState)

mutual
/-- One element, as one iteration of `parseListValue` (looping or not). -/
theorem stepP (i : ItemP) (closing : TT) (hg : GoodClosing closing) (am : Bool) (acc : List Tok)
    (nx : Tok) (tl : List Tok) (hnx : nx.type ≠ .MUL) (hwf : wfItem env i) (out : List Tok)
    (hex : expItem env i = some out) (f : Nat) (hf : needItem i ≤ f) :
    (parseListValue env (.movement closing) am (f + 1) acc).run (st s (i.toks ++ nx :: tl)) =
      after env closing am f (acc ++ out) (st s (nx :: tl)) := by
  cases i with
  | plain it =>
    simp only [wfItem] at hwf
    simp only [expItem] at hex
    cases it with
    | step n =>
      simp [Item.expand] at hex; subst hex
      simp only [Item.WF] at hwf
      exact plvA_step env closing am f acc s n nx tl hwf hg.ident hnx
    | stepMul n st' m =>
      simp only [Item.WF] at hwf
      simp only [Item.expand, mulOf] at hex
      cases hk : mulCheck m.lit with
      | error e => simp [hk] at hex
      | ok k =>
        simp [hk] at hex; subst hex
        exact plvA_mul env closing am f acc s n st' m _ k hwf.1 hwf.2.1 hwf.2.2 hg.ident hk
    | comma t =>
      simp [Item.expand] at hex; subst hex
      simp only [Item.WF] at hwf
      simpa [ItemP.toks, Item.toks] using plvA_comma env closing am f acc s t (nx :: tl) hwf hg.comma
  | sw psw lp x rp lb cases rb =>
    simp only [wfItem] at hwf
    obtain ⟨hpsw, hlp, hx, hrp, hlb, hrb, hsw, hwc⟩ := hwf
    simp only [expItem] at hex
    cases hcs : expCases env cases [] with
    | none => simp [hcs] at hex
    | some cs =>
      simp only [hcs] at hex
      obtain ⟨n, rfl⟩ : ∃ n, f = n + 1 := ⟨f - 1, by simp [needItem] at hf; omega⟩
      have hC := fun stt => casesP cases closing stt [] rb (nx :: tl) hrb hwc cs hcs n
        (by simp [needItem] at hf; omega)
      have hS := stmt_ok env closing n s psw lp x rp lb _ cs rb (nx :: tl) out hlp hx hrp hlb hsw hC hex
      have := plvA_sw env closing am (n + 1) acc s psw _ out _ hpsw hg.psw hS
      simpa [ItemP.toks] using this
/-- The case list of a poryswitch up to its closing `}`. -/
theorem casesP (cs : Cases) (closing : TT) (stt : Tok) (acc : List (String × List Tok)) (rb : Tok)
    (tl : List Tok) (hrb : rb.type = .RBRACE) (hwf : wfCases env cs)
    (res : List (String × List Tok)) (hex : expCases env cs acc = some res) (f : Nat)
    (hf : needCases cs ≤ f) :
    (parsePoryswitchListCases env (.movement closing) stt f acc).run (st s (cs.toks ++ rb :: tl)) =
      .ok (res, st s (rb :: tl)) := by
  obtain ⟨n, rfl⟩ : ∃ n, f = n + 1 := ⟨f - 1, by cases cs <;> simp [needCases] at hf <;> omega⟩
  cases cs with
  | nil =>
    simp [expCases] at hex; subst hex
    simpa [Cases.toks] using cases_close env closing stt n acc s rb tl hrb
  | colon v c e rest =>
    simp only [wfCases] at hwf
    obtain ⟨hv, hc, hwe, hwr⟩ := hwf
    simp only [expCases] at hex
    cases hee : expItem env e with
    | none => simp [hee] at hex
    | some l =>
      simp only [hee] at hex
      obtain ⟨m, rfl⟩ : ∃ m, n = m + 1 := ⟨n - 1, by simp [needCases] at hf; omega⟩
      obtain ⟨a, t', heq, ha⟩ := cases_head env rest rb tl hwr (by simp [hrb])
      have hE := stepP e .RBRACE good_rbrace false [] a t' ha hwe l hee m
        (by simp [needCases] at hf; omega)
      simp only [after, Bool.false_eq_true, if_false, List.nil_append] at hE
      have hR := casesP rest closing stt ((v.lit, l) :: acc) rb tl hrb hwr res hex (m + 1)
        (by simp [needCases] at hf; omega)
      have := cases_colon env closing stt (m + 1) acc s v c (e.toks ++ a :: t') l _ hv hc hE
      rw [← heq] at this
      simpa [Cases.toks, ← heq] using this.trans hR
  | brace v lb items rb' rest =>
    simp only [wfCases] at hwf
    obtain ⟨hv, hlb, hrb', hwi, hwr⟩ := hwf
    simp only [expCases] at hex
    cases hie : expItems env items with
    | none => simp [hie] at hex
    | some l =>
      simp only [hie] at hex
      have hI := itemsP items .RBRACE good_rbrace [] rb' (rest.toks ++ rb :: tl) hrb' hwi l hie n
        (by simp [needCases] at hf; omega)
      simp only [List.nil_append] at hI
      have hR := casesP rest closing stt ((v.lit, l) :: acc) rb tl hrb hwr res hex n
        (by simp [needCases] at hf; omega)
      have := cases_brace env closing stt n acc s v lb _ l rb' _ hv hlb hrb' hI
      simpa [Cases.toks] using this.trans hR
/-- A whole list up to its closing token. -/
theorem itemsP (is : Items) (closing : TT) (hg : GoodClosing closing) (acc : List Tok) (close : Tok)
    (tl : List Tok) (hclose : close.type = closing) (hwf : wfItems env is) (out : List Tok)
    (hex : expItems env is = some out) (f : Nat) (hf : needItems is ≤ f) :
    (parseListValue env (.movement closing) true f acc).run (st s (is.toks ++ close :: tl)) =
      .ok (acc ++ out, st s (close :: tl)) := by
  obtain ⟨n, rfl⟩ : ∃ n, f = n + 1 := ⟨f - 1, by cases is <;> simp [needItems] at hf <;> omega⟩
  cases is with
  | nil =>
    simp [expItems] at hex; subst hex
    simpa [Items.toks] using plvA_close env closing true n acc s close tl hclose
  | cons i r =>
    simp only [wfItems] at hwf
    simp only [expItems] at hex
    cases hie : expItem env i with
    | none => simp [hie] at hex
    | some a =>
      cases hre : expItems env r with
      | none => simp [hie, hre] at hex
      | some b =>
        simp [hie, hre] at hex; subst hex
        obtain ⟨x, t', heq, hx⟩ := items_head env r close tl hwf.2 (by rw [hclose]; exact hg.mul)
        have hS := stepP i closing hg true acc x t' hx hwf.1 a hie n (by simp [needItems] at hf; omega)
        simp only [after, if_true] at hS
        have hR := itemsP r closing hg (acc ++ a) close tl hclose hwf.2 b hre n
          (by simp [needItems] at hf; omega)
        rw [← heq] at hS
        simpa [Items.toks] using hS.trans hR
end

end

/-! ### the fuel bound is linear in the number of tokens -/
mutual
theorem needItem_le (i : ItemP) : needItem i + 1 ≤ i.toks.length := by
  cases i with
  | plain it => cases it <;> simp [needItem, ItemP.toks, Item.toks]
  | sw psw lp x rp lb cases rb =>
    have := needCases_le cases
    simp only [needItem, ItemP.toks, List.length_cons, List.length_append, List.length_nil]; omega
theorem needCases_le (cs : Cases) : needCases cs ≤ cs.toks.length + 1 := by
  cases cs with
  | nil => simp [needCases, Cases.toks]
  | colon v c e rest =>
    have := needItem_le e; have := needCases_le rest
    simp only [needCases, Cases.toks, List.length_cons, List.length_append]; omega
  | brace v lb items rb rest =>
    have := needItems_le items; have := needCases_le rest
    simp only [needCases, Cases.toks, List.length_cons, List.length_append]; omega
theorem needItems_le (is : Items) : needItems is ≤ is.toks.length + 1 := by
  cases is with
  | nil => simp [needItems, Items.toks]
  | cons i r =>
    have := needItem_le i; have := needItems_le r
    simp only [needItems, Items.toks, List.length_append]; omega
end

end Pory.C14b
