import PoryProofs.ProgramGrammar
/-
P2 (whole-file grammar), stage 2: the parser model on printed files.

* `parse_top_step`  : `parseTopLevelStatement` on `printTop t ++ nx :: rest` = `stepTop env t` (result, state,
  or located error), the window left on the last token of the statement;
* `topLoop_elab`    : `topLoop` on `printTops ts ++ eof :: tl` = `elabTops env ts`;
* `parseProgramM_elab`, `parseTokens_elab` : with the post-passes (`finish`) and the model's fuel.
-/
namespace Pory.P2
open Pory Pory.Parser Pory.C02P Pory.StmtG Pory.TopParse
open Pory.C14b (Item printItems expand)
open Pory.C12c (addImp)

/-! ### `addImp` does not look at the token window -/

theorem addTextStep_st (s : PState) (l : List Tok) (t : ImpText) :
    addTextStep (st s l) t = st (addTextStep s t) l := by
  unfold addTextStep st
  cases h : s.inlineTextsSet.lookup (t.text.lit, t.stringType) <;> simp [h]

theorem addMovementStep_st (s : PState) (l : List Tok) (t : ImpMovement) :
    addMovementStep (st s l) t = st (addMovementStep s t) l := by
  unfold addMovementStep st
  cases h : s.inlineMovementsSet.lookup (getMovementsKey t.movements) <;> simp [h]

theorem foldl_st {α : Type} (step : PState → α → PState) (h : ∀ s l t, step (st s l) t = st (step s t) l) :
    ∀ (xs : List α) (s : PState) (l : List Tok), xs.foldl step (st s l) = st (xs.foldl step s) l
  | [], _, _ => rfl
  | x :: r, s, l => by simp only [List.foldl_cons, h, foldl_st step h r]

theorem addImp_st (imp : ImpData) (s : PState) (l : List Tok) : addImp imp (st s l) = st (addImp imp s) l := by
  unfold addImp
  rw [foldl_st _ addTextStep_st, foldl_st _ addMovementStep_st]

/-! ### one statement -/

theorem parse_script_statement_err (env : Env) (fuel : Nat) (s : PState) (kw : Tok) (md : Mod)
    (name lb : Tok) (body : List Tok) (hmd : md.WF) (hname : name.type = .IDENT)
    (hlb : lb.type = .LBRACE) (e : PFail)
    (hbody : (parseBlockStatement env name.lit lb fuel [] {}).run (st s body) = .error e) :
    (parseScriptStatement env fuel).run (st s (kw :: (md.toks ++ name :: lb :: body))) = .error e := by
  unfold parseScriptStatement
  simp [scope_mod _ s kw md name (lb :: body) hmd (by simp [hname]), hname, hlb, hbody]

theorem top_script (env : Env) (fuel : Nat) (s : PState) (kw : Tok) (md : Mod) (name lb : Tok)
    (b : List SStmt) (rb : Tok) (rest : List Tok) (hkw : kw.type = .SCRIPT) (hmd : md.WF)
    (hname : name.type = .IDENT) (hlb : lb.type = .LBRACE) (hwf : SWF b) (hrb : rb.type = .RBRACE)
    (hfuel : needL b ≤ fuel) :
    (parseTopLevelStatement env fuel).run (st s (kw :: (md.toks ++ name :: lb :: (printStmts b ++ rb :: rest)))) =
      match stepTop env (.script kw md name lb b rb) s with
      | .error e => .error e
      | .ok (o, s') => .ok (o, st s' (rb :: rest)) := by
  have hb := StmtG.parse_block_elab env name.lit lb b rb rest hwf hrb (st s (printStmts b ++ rb :: rest)) rfl
    fuel hfuel
  have hctx : ctxOf (st s (printStmts b ++ rb :: rest)) = ctxOf s := rfl
  rw [hctx] at hb
  unfold parseTopLevelStatement stepTop
  cases he : elabE env name.lit (ctxOf s) b with
  | error e =>
    rw [he] at hb
    have := parse_script_statement_err env fuel s kw md name lb _ hmd hname hlb e hb
    simp [hkw, this, he]
  | ok r =>
    obtain ⟨stmts, imp, c'⟩ := r
    rw [he] at hb
    have := C15b.parse_script_statement_gen env fuel s kw md name lb _ hmd hname hlb _ _ hb
    simp [hkw, this, he, C12c.addImplicitData_run, afterScript, scriptOf]
    rw [← addImp_st]
    rfl

theorem top_raw (env : Env) (fuel : Nat) (s : PState) (kw v : Tok) (rest : List Tok) (hkw : kw.type = .RAW)
    (hv : v.type = .RAWSTRING) :
    (parseTopLevelStatement env fuel).run (st s (kw :: v :: rest)) =
      .ok (some (.raw kw v v.lit), st s (v :: rest)) := by
  unfold parseTopLevelStatement
  simp [hkw, C15b.parse_raw_statement s kw v rest hv]

theorem parse_constant_empty (s : PState) (kw name eq : Tok) (vs : List Tok) (nx : Tok) (tl : List Tok)
    (fuel : Nat) (hname : name.type = .IDENT) (heq : eq.type = .ASSIGN) (hvs : ∀ v ∈ vs, ValTok v)
    (hnx : nx.type ∈ Facts.topLevelTokens) (hnew : s.constants.lookup name.lit = none)
    (hval : constAcc s.constants vs "" = "") (hf : vs.length + 1 ≤ fuel) :
    (parseConstant fuel).run (st s (kw :: name :: eq :: (vs ++ nx :: tl))) =
      .error (emptyConstErr kw eq name) := by
  obtain ⟨f, rfl⟩ : ∃ f, fuel = vs.length + (f + 1) := ⟨fuel - vs.length - 1, by omega⟩
  have hloop := constLoop_run s vs eq nx tl "" f (by simp [heq]) hvs hnx
  unfold parseConstant emptyConstErr
  simp [hname, heq, hnew, hloop, hval]

theorem top_const (env : Env) (fuel : Nat) (s : PState) (kw name eq : Tok) (vs : List Tok) (nx : Tok)
    (tl : List Tok) (hkw : kw.type = .CONST) (hname : name.type = .IDENT) (heq : eq.type = .ASSIGN)
    (hvs : ∀ v ∈ vs, ValTok v) (hnx : nx.type ∈ Facts.topLevelTokens) (hf : vs.length + 1 ≤ fuel) :
    (parseTopLevelStatement env fuel).run (st s (kw :: name :: eq :: (vs ++ nx :: tl))) =
      match stepTop env (.const kw name eq vs) s with
      | .error e => .error e
      | .ok (o, s') => .ok (o, st s' (vs.getLastD eq :: nx :: tl)) := by
  unfold parseTopLevelStatement stepTop
  by_cases hdup : (s.constants.lookup name.lit).isSome = true
  · have := C13b.const_redefined_rejected s kw name (eq :: (vs ++ nx :: tl)) fuel hname hdup
    simp [hkw, this, hdup, dupConstErr]
  · have hnew : s.constants.lookup name.lit = none := by
      cases h : s.constants.lookup name.lit <;> simp_all
    by_cases hval : constAcc s.constants vs "" = ""
    · have := parse_constant_empty s kw name eq vs nx tl fuel hname heq hvs hnx hnew hval hf
      simp [hkw, this, hnew, hval]
    · have := C13b.parse_constant_acc s kw name eq vs nx tl fuel hname heq hvs hnx hnew hval hf
      simp [hkw, this, hnew, hval]
      rfl

theorem top_movement (env : Env) (fuel : Nat) (s : PState) (kw : Tok) (md : Mod) (name lb : Tok)
    (items : List Item) (rb : Tok) (rest : List Tok) (hkw : kw.type = .MOVEMENT) (hmd : md.WF)
    (hname : name.type = .IDENT) (hlb : lb.type = .LBRACE) (hwf : ∀ i ∈ items, i.WF)
    (hex : (expand items).isSome = true) (hrb : rb.type = .RBRACE)
    (hf : (printItems items).length + 1 ≤ fuel) :
    (parseTopLevelStatement env fuel).run
        (st s (kw :: (md.toks ++ name :: lb :: (printItems items ++ rb :: rest)))) =
      .ok (some (.movement { tok := kw, name := name.lit, cmds := (expand items).getD [],
                             scope := md.scope (defaultScopeOf "parseMovementStatement") }),
           st s (rb :: rest)) := by
  obtain ⟨out, hout⟩ := Option.isSome_iff_exists.1 hex
  have := C15b.parse_movement_statement_plain env s kw md name lb items rb rest hmd hname hlb hrb hwf out
    hout fuel hf
  unfold parseTopLevelStatement
  simp [hkw, this, hout]

theorem top_mart (env : Env) (fuel : Nat) (s : PState) (kw : Tok) (md : Mod) (name lb : Tok)
    (items : List Tok) (rb : Tok) (rest : List Tok) (hkw : kw.type = .MART) (hmd : md.WF)
    (hname : name.type = .IDENT) (hlb : lb.type = .LBRACE) (hi : ∀ t ∈ items, t.type = .IDENT)
    (hrb : rb.type = .RBRACE) (hf : items.length + 1 ≤ fuel) :
    (parseTopLevelStatement env fuel).run (st s (kw :: (md.toks ++ name :: lb :: (items ++ rb :: rest)))) =
      .ok (some (.mart kw name.lit items (items.map fun t => substC s.constants t.lit)
                   (md.scope (defaultScopeOf "parseMartStatement"))), st s (rb :: rest)) := by
  have := C15b.parse_mart_statement_partial env s kw md name lb items rb rest hmd hname hlb hrb hi fuel hf
  unfold parseTopLevelStatement
  simp [hkw, this]

theorem top_text (env : Env) (fuel : Nat) (s : PState) (kw : Tok) (md : Mod) (name lb : Tok)
    (v : TextVal) (rb : Tok) (rest : List Tok) (hkw : kw.type = .TEXT) (hmd : md.WF)
    (hname : name.type = .IDENT) (hlb : lb.type = .LBRACE) (hv : v.WF) (hrb : rb.type = .RBRACE) :
    (parseTopLevelStatement env fuel).run (st s (kw :: (md.toks ++ name :: lb :: (v.toks ++ rb :: rest)))) =
      .ok (some (.text (C15b.mkText kw name (md.scope (defaultScopeOf "parseTextStatement")) v.value)),
           { st s (rb :: rest) with textStatements := s.textStatements ++
               [C15b.mkText kw name (md.scope (defaultScopeOf "parseTextStatement")) v.value] }) := by
  have := C15b.parse_text_statement env fuel s kw md name lb v rb rest hmd hname hlb hv hrb
  unfold parseTopLevelStatement
  simp [hkw, this]

/-- **One top-level statement.** `parseTopLevelStatement` on the printed statement followed by `nx :: rest`
(after a `const`: `nx` a top-level keyword) is `stepTop`; the window is left on the statement's last token. -/
theorem parse_top_step (env : Env) (fuel : Nat) (t : STop) (s : PState) (nx : Tok) (rest : List Tok)
    (hwf : TopWF t) (hnx : t.isConst = true → nx.type ∈ Facts.topLevelTokens) (hf : needTop t ≤ fuel) :
    (parseTopLevelStatement env fuel).run (st s (printTop t ++ nx :: rest)) =
      match stepTop env t s with
      | .error e => .error e
      | .ok (o, s') => .ok (o, st s' (t.last :: nx :: rest)) := by
  cases t with
  | script kw md name lb body rb =>
    obtain ⟨h1, h2, h3, h4, h5, h6⟩ := hwf
    have := top_script env fuel s kw md name lb body rb (nx :: rest) h1 h2 h3 h4 h5 h6 hf
    simpa [printTop, STop.last] using this
  | raw kw v =>
    obtain ⟨h1, h2⟩ := hwf
    simpa [printTop, STop.last, stepTop] using top_raw env fuel s kw v (nx :: rest) h1 h2
  | const kw name eq vs =>
    obtain ⟨h1, h2, h3, h4⟩ := hwf
    simpa [printTop, STop.last] using top_const env fuel s kw name eq vs nx rest h1 h2 h3 h4 (hnx rfl) hf
  | movement kw md name lb items rb =>
    obtain ⟨h1, h2, h3, h4, h5, h6, h7⟩ := hwf
    simpa [printTop, STop.last, stepTop] using
      top_movement env fuel s kw md name lb items rb (nx :: rest) h1 h2 h3 h4 h5 h6 h7 hf
  | mart kw md name lb items rb =>
    obtain ⟨h1, h2, h3, h4, h5, h6⟩ := hwf
    simpa [printTop, STop.last, stepTop] using
      top_mart env fuel s kw md name lb items rb (nx :: rest) h1 h2 h3 h4 h5 h6 hf
  | text kw md name lb v rb =>
    obtain ⟨h1, h2, h3, h4, h5, h6⟩ := hwf
    have := top_text env fuel s kw md name lb v rb (nx :: rest) h1 h2 h3 h4 h5 h6
    simp only [printTop, STop.last, stepTop, List.cons_append, List.append_assoc, List.nil_append]
    rw [this]
    rfl

/-! ### the top-level loop -/

theorem printTop_head (t : STop) : ∃ tl, printTop t = t.kw :: tl := by
  cases t <;> exact ⟨_, rfl⟩

theorem topLoop_succ (env : Env) (fuel n : Nat) (acc : List Top) :
    topLoop env fuel (n + 1) acc = (do
      if (← curIs .EOF) then return acc
      let st ← parseTopLevelStatement env fuel
      nextToken
      topLoop env fuel n (match st with | some t => acc ++ [t] | none => acc)) := rfl

theorem acc_optTop (acc : List Top) (o : Option Top) :
    (match o with | some t => acc ++ [t] | none => acc) = acc ++ optTop o := by
  cases o <;> simp [optTop]

/-- **The top-level loop on a printed file** is the reference elaboration of the file. -/
theorem topLoop_elab (env : Env) (fuel : Nat) (eofT : Tok) (tl : List Tok) (heof : eofT.type = .EOF) :
    ∀ (ts : List STop) (n : Nat) (acc : List Top) (s : PState), TWF ts → ts.length + 1 ≤ n →
      (∀ t ∈ ts, needTop t ≤ fuel) →
      (topLoop env fuel n acc).run (st s (printTops ts ++ eofT :: tl)) =
        match elabTops env ts s with
        | .error e => .error e
        | .ok (tops, s') => .ok (acc ++ tops, st s' (eofT :: tl))
  | [], n, acc, s, _, hn, _ => by
    obtain ⟨m, rfl⟩ : ∃ m, n = m + 1 := ⟨n - 1, by simp at hn; omega⟩
    rw [topLoop_succ]
    simp [printTops, elabTops, heof]
  | t :: r, n, acc, s, hwf, hn, hf => by
    obtain ⟨m, rfl⟩ : ∃ m, n = m + 1 := ⟨n - 1, by simp at hn; omega⟩
    obtain ⟨h1, h2, h3⟩ := hwf
    -- the window after the statement
    obtain ⟨nx, rest, hw, hnx⟩ : ∃ nx rest, printTops r ++ eofT :: tl = nx :: rest ∧
        (t.isConst = true → nx.type ∈ Facts.topLevelTokens) := by
      cases r with
      | nil => exact ⟨eofT, tl, rfl, fun hc => absurd rfl (h2 hc)⟩
      | cons t2 r2 =>
        obtain ⟨tl2, htl2⟩ := printTop_head t2
        refine ⟨t2.kw, tl2 ++ (printTops r2 ++ eofT :: tl), by simp [printTops, htl2], fun _ => h3.1.kw_top⟩
    have hstep := parse_top_step env fuel t s nx rest h1 hnx (hf t (by simp))
    obtain ⟨tl1, htl1⟩ := printTop_head t
    have hkw : (t.kw.type == TT.EOF) = false := by
      have := h1.kw_top
      cases hk : t.kw.type <;> simp_all [Facts.topLevelTokens]
    have hwin : printTops (t :: r) ++ eofT :: tl = printTop t ++ nx :: rest := by
      simp [printTops, hw]
    rw [topLoop_succ, hwin]
    simp only [StateT.run_bind, run_curIs, ex_bind_ok, st_toks, htl1, List.cons_append, List.headD_cons, hkw,
      Bool.false_eq_true, if_false]
    rw [← List.cons_append, ← htl1, hstep]
    simp only [elabTops]
    cases hs : stepTop env t s with
    | error e => simp
    | ok q =>
      obtain ⟨o, s1⟩ := q
      have ih := topLoop_elab env fuel eofT tl heof r m (acc ++ optTop o) s1 h3 (by simp at hn; omega)
        (fun x hx => hf x (by simp [hx]))
      simp only [ex_bind_ok, run_nextToken, st_toks, List.tail_cons, st_st, acc_optTop]
      rw [← hw, ih]
      cases elabTops env r s1 with
      | error e => rfl
      | ok q2 => obtain ⟨tops, s2⟩ := q2; simp

/-! ### `ParseProgram` -/

theorem parseProgramM_elab (env : Env) (fuel : Nat) (eofT : Tok) (tl : List Tok) (heof : eofT.type = .EOF)
    (ts : List STop) (s : PState) (hwf : TWF ts) (hn : ts.length + 1 ≤ fuel)
    (hf : ∀ t ∈ ts, needTop t ≤ fuel) :
    (parseProgramM env fuel).run (st s (printTops ts ++ eofT :: tl)) =
      match elabTops env ts s with
      | .error e => .error e
      | .ok (tops, s') =>
        match finish tops s' with
        | .error e => .error e
        | .ok p => .ok (p, st s' (eofT :: tl)) := by
  unfold parseProgramM
  simp only [StateT.run_bind, topLoop_elab env fuel eofT tl heof ts fuel [] s hwf hn hf, List.nil_append]
  cases elabTops env ts s with
  | error e => simp
  | ok q =>
    obtain ⟨tops, s'⟩ := q
    simp only [ex_bind_ok, run_get, finish, dupTextErr, dupMovementErr]
    have h1 : (st s' (eofT :: tl)).inlineTexts = s'.inlineTexts := rfl
    have h2 : (st s' (eofT :: tl)).textStatements = s'.textStatements := rfl
    have h3 : (st s' (eofT :: tl)).inlineMovements = s'.inlineMovements := rfl
    have h4 : (st s' (eofT :: tl)).patches = s'.patches := rfl
    simp only [h1, h2, h3, h4]
    cases firstDuplicateText (s'.inlineTexts ++ s'.textStatements) [] with
    | some t => simp
    | none =>
      dsimp only
      cases firstDuplicateMovement (tops ++ List.map Top.movement s'.inlineMovements) [] with
      | some q => obtain ⟨tok, name⟩ := q; simp
      | none => simp

theorem length_le_printTops : ∀ (ts : List STop), ts.length ≤ (printTops ts).length
  | [] => Nat.le_refl _
  | t :: r => by
    obtain ⟨tl, h⟩ := printTop_head t
    have := length_le_printTops r
    simp only [printTops, List.length_cons, List.length_append, h]
    omega

theorem printTop_length_le {t : STop} : ∀ {ts : List STop}, t ∈ ts → (printTop t).length ≤ (printTops ts).length
  | x :: r, h => by
    simp only [printTops, List.length_append]
    rcases List.mem_cons.1 h with rfl | h
    · omega
    · have := printTop_length_le h; omega

/-- The initial parser state of `parseTokens` (without the token window). -/
def initState (eofT : Tok) : PState := { toks := [], eof := eofT }

/-- **`parseTokens` on a printed file** (the final token an EOF token), with the model's own fuel
`4 * tokens + 50`: the reference elaboration followed by the post-passes. -/
theorem parseTokens_elab (env : Env) (eofT : Tok) (heof : eofT.type = .EOF) (ts : List STop) (hwf : TWF ts) :
    parseTokens env (printTops ts ++ [eofT]) = elabFile env ts (initState eofT) := by
  unfold parseTokens elabFile
  have hl : (printTops ts ++ [eofT]).getLastD { type := .EOF } = eofT := by simp
  have hs : ({ toks := printTops ts ++ [eofT], eof := eofT } : PState) =
      st (initState eofT) (printTops ts ++ [eofT]) := rfl
  have hlen := length_le_printTops ts
  simp only [hl, hs, StateT.run']
  have h := parseProgramM_elab env (4 * (printTops ts ++ [eofT]).length + 50) eofT [] heof ts (initState eofT) hwf
    (by simp only [List.length_append, List.length_cons, List.length_nil]; omega)
    (fun t ht => by
      have h1 := needTop_le t
      have h2 := printTop_length_le ht
      simp only [List.length_append, List.length_cons, List.length_nil]; omega)
  unfold StateT.run at h
  rw [h]
  cases elabTops env ts (initState eofT) with
  | error e => rfl
  | ok q =>
    obtain ⟨tops, s'⟩ := q
    simp only
    cases finish tops s' <;> rfl

end Pory.P2
