import PoryProofs.TextValueParse
import PoryProofs.Properties.C10b
/-
Helpers for P1b: ONE reference syntax for every written form of a command,
    `name ( a0 , a1 , … )`  |  `name ( )`  |  `name`
whose arguments are made of plain tokens, balanced parentheses, string literals, typed string literals,
`moves( … )` and inline `format( … )` (`TextValueParse.IElem`), and `parseCommandStatement` on it — errors
included: an inline `format( … )` whose text cannot be formatted (unknown font, environment errors on) makes the
command fail with the located error of C07b; the FIRST such element in source order decides.

* decidable token-type well-formedness: `Decidable (TVal.WF v)`, `elemOk`, `argOk`, `CmdF.ok`;
* `CmdF.elabC env sn σ cid c : Except PFail (Cmd × ImpData)` (the command node with EMPTY strings for the inline
  elements and the implicit data in source order, or the error);
* `cmdF_run` : `parseCommandStatement` on `printCmdF c ++ rest` = `CmdF.elabC` (window left on `CmdF.last c`,
  command id counter advanced);
* `cmdF_not_label` : a printed command is never read as a scoped label `name ( global ) :`;
* `CmdF.need_le` : fuel need + 1 ≤ number of tokens;
* the plain-token commands of `C10b` and the `AElem` commands of `C10c` are the special cases `ofToks` / `ofE`.
-/
namespace Pory.CmdGen
open Pory Pory.Parser Pory.C02P Pory.C07b Pory.C10b Pory.C10c Pory.TextValueParse

/-! ### decidability of the token-type side conditions of `format( … )` -/

instance optAllDec (p : Tok → Prop) [DecidablePred p] : (o : Option Tok) → Decidable (∀ c, o = some c → p c)
  | none => isTrue (by intro c h; cases h)
  | some x =>
    if h : p x then isTrue (by intro c hc; cases hc; exact h) else isFalse (fun H => h (H x rfl))

instance (n : NamedP) : Decidable n.WF := by unfold NamedP.WF; infer_instance

instance : (p : Pos) → Decidable p.WF
  | .none => isTrue trivial
  | .font c f => inferInstanceAs (Decidable (c.type = .COMMA ∧ f.type = .STRING))
  | .len c n => inferInstanceAs (Decidable (c.type = .COMMA ∧ n.type = .INT))
  | .fontLen c1 f c2 n =>
      inferInstanceAs (Decidable (c1.type = .COMMA ∧ f.type = .STRING ∧ c2.type = .COMMA ∧ n.type = .INT))
  | .lenFont c1 n c2 f =>
      inferInstanceAs (Decidable (c1.type = .COMMA ∧ n.type = .INT ∧ c2.type = .COMMA ∧ f.type = .STRING))

instance (P : Params) : Decidable P.WF :=
  decidable_of_iff (P.pos.WF ∧ (P.named.isEmpty = false → P.comma.type = .COMMA) ∧ ∀ n ∈ P.named, n.WF) (by
    unfold Params.WF
    cases P.named <;> simp)

instance (P : Params) : Decidable P.NoRep := by unfold Params.NoRep; infer_instance

instance : (v : TVal) → Decidable v.WF
  | .plain str => inferInstanceAs (Decidable (str.type = .STRING))
  | .typed ty str => inferInstanceAs (Decidable (ty.type = .STRINGTYPE ∧ str.type = .STRING))
  | .format fm lp sty text P rp =>
      inferInstanceAs (Decidable (fm.type = .FORMAT ∧ lp.type = .LPAREN ∧
        (∀ t, sty = some t → t.type = .STRINGTYPE) ∧ text.type = .STRING ∧ P.WF ∧ P.NoRep ∧ rp.type = .RPAREN))

/-! ### elements and arguments -/

/-- Token types of an element (`format( … )`: `TVal.WF`). -/
def elemOk : IElem → Bool
  | .base e => e.ok
  | .fmt fm lp sty text P rp => decide (TVal.format fm lp sty text P rp).WF

/-- The located error of an element: an inline `format( … )` whose text cannot be formatted. -/
def elemErr (env : Env) : IElem → Option PFail
  | .base _ => none
  | .fmt fm lp sty text P rp =>
    match (TVal.format fm lp sty text P rp).raw env with
    | .ok _ => none
    | .error e => some e

/-- The first error of an argument, in source order. -/
def argErr (env : Env) : List IElem → Option PFail
  | [] => none
  | e :: r => (elemErr env e).orElse fun _ => argErr env r

def argsErr (env : Env) : List (List IElem) → Option PFail
  | [] => none
  | a :: r => (argErr env a).orElse fun _ => argsErr env r

theorem ok_of_elemOk {env : Env} {e : IElem} (h : elemOk e = true) (h2 : elemErr env e = none) : e.OK env := by
  cases e with
  | base e => exact h
  | fmt fm lp sty text P rp =>
    refine ⟨by simpa [elemOk] using h, ?_⟩
    simp only [elemErr] at h2
    cases hr : (TVal.format fm lp sty text P rp).raw env with
    | ok raw => exact ⟨raw, rfl⟩
    | error e => rw [hr] at h2; cases h2

/-- A command argument: non-empty, well-typed elements, parentheses balanced. -/
def argOk (a : List IElem) : Bool := !a.isEmpty && a.all elemOk && depthE 0 (a.map IElem.skel) == some 0

theorem argOk_iff (a : List IElem) :
    argOk a = true ↔ a ≠ [] ∧ a.all elemOk = true ∧ depthE 0 (a.map IElem.skel) = some 0 := by
  unfold argOk
  cases a with
  | nil => simp
  | cons e r => simp

theorem allOK_of {env : Env} : ∀ (a : List IElem), a.all elemOk = true → argErr env a = none →
    ∀ e ∈ a, e.OK env
  | [], _, _ => fun e he => by cases he
  | x :: r, ht, h2 => by
    simp only [List.all_cons, Bool.and_eq_true] at ht
    simp only [argErr] at h2
    cases hx : elemErr env x with
    | some e => rw [hx] at h2; cases h2
    | none =>
      rw [hx] at h2
      intro e he
      rcases List.mem_cons.mp he with rfl | he
      · exact ok_of_elemOk ht.1 hx
      · exact allOK_of r ht.2 h2 e he

/-- `ArgIOK env` = `argOk` + no element fails. -/
theorem argIOK_of {env : Env} {a : List IElem} (h : argOk a = true) (h2 : argErr env a = none) : ArgIOK env a := by
  obtain ⟨h1, ht, hd⟩ := (argOk_iff a).mp h
  exact ⟨h1, allOK_of a ht h2, hd⟩

/-! ### the argument loop, errors included -/
section
variable (env : Env) (sn : String) (id : Nat) (ct : Tok) (s : PState)

/-- The elements of one argument: one iteration per element; the first failing `format( … )` stops the run. -/
theorem cal_argI_g (ts : List IElem) (rest : List Tok) (A Q : List String) (d : Nat) (I : ImpData)
    (hts : ts.all elemOk = true) (d' : Nat) (hd : depthE d (ts.map IElem.skel) = some d') (f : Nat)
    (hf : needArgI ts ≤ f) :
    (cmdArgsLoop env sn id ct (ts.length + f) ⟨A, Q, d, I⟩).run (st s (printArgI ts ++ rest)) =
      match argErr env ts with
      | some e => .error e
      | none =>
        (cmdArgsLoop env sn id ct f
          ⟨A, Q ++ ts.map (fun e => partE (substC s.constants) e.skel), d',
            I.add (impArgI env sn id ct A.length ts)⟩).run (st s rest) := by
  induction ts generalizing Q d I with
  | nil =>
    simp [depthE] at hd; subst hd
    simp [printArgI, impArgI, add_nil, argErr]
  | cons e r ih =>
    simp only [List.all_cons, Bool.and_eq_true] at hts
    obtain ⟨he, hr⟩ := hts
    simp only [needArgI] at hf
    have hlen : (e :: r).length + f = 1 + (r.length + f) := by simp; omega
    rw [hlen]
    cases e with
    | base e =>
      simp only [List.map_cons, IElem.skel] at hd
      obtain ⟨d'', hd1, hd2⟩ := depthE_cons_some e _ d d' hd
      have h1 := cal_argE env sn id ct s [e] (printArgI r ++ rest) A Q d I
        (by simpa [elemOk] using he) d'' hd1 (r.length + f) (by simp [needArgE, IElem.need] at hf ⊢; omega)
      simp only [List.length_singleton, printArgE, List.append_nil] at h1
      simp only [printArgI, IElem.toks, List.append_assoc]
      rw [h1, ih _ _ _ hr hd2 (by omega)]
      simp only [argErr, elemErr, Option.orElse]
      cases argErr env r with
      | some x => rfl
      | none => simp [impArg, impArgI, impOfI, add_nil, add_assoc, IElem.skel]
    | fmt fm lp sty text P rp =>
      have hwf : (TVal.format fm lp sty text P rp).WF := by simpa [elemOk] using he
      simp only [List.map_cons, IElem.skel, depthE] at hd
      simp only [IElem.need] at hf
      simp only [printArgI, IElem.toks, List.append_assoc]
      rw [TVal.format_toks_append, Nat.add_comm 1]
      simp only [argErr, elemErr]
      cases hraw : (TVal.format fm lp sty text P rp).raw env with
      | error x =>
        rw [cal_fmt_err env sn id ct _ A Q d I s fm lp sty text P rp _ hwf (by omega) x hraw]
        rfl
      | ok raw =>
        rw [cal_fmt env sn id ct _ A Q d I s fm lp sty text P rp _ hwf (by omega) raw hraw,
          ih _ _ _ hr hd (by omega)]
        simp only [Option.orElse]
        cases argErr env r with
        | some x => rfl
        | none => simp [impArgI, impOfI, add_assoc, IElem.skel, partE, rawD, hraw]

theorem cal_moreI_g (more : List (Tok × List IElem)) (rest : List Tok) (A Q : List String) (I : ImpData)
    (hm : ∀ p ∈ more, p.1.type = .COMMA ∧ p.2.all elemOk = true ∧
      depthE 0 (p.2.map IElem.skel) = some 0) (f : Nat)
    (hf : needMoreI more ≤ f) :
    (cmdArgsLoop env sn id ct (stepsMoreI more + f) ⟨A, Q, 0, I⟩).run
        (st s (printMoreI more ++ rest)) =
      match argsErr env (more.map (·.2)) with
      | some e => .error e
      | none =>
        (cmdArgsLoop env sn id ct f
          ⟨(accMoreE (substC s.constants) A Q (skelMore more)).1,
            (accMoreE (substC s.constants) A Q (skelMore more)).2, 0,
            I.add (impMoreI env sn id ct A.length more)⟩).run (st s rest) := by
  induction more generalizing A Q I with
  | nil => simp [printMoreI, accMoreE, impMoreI, stepsMoreI, add_nil, skelMore, argsErr]
  | cons p m ih =>
    obtain ⟨hc, hts, hd⟩ := hm p (by simp)
    simp only [needMoreI] at hf
    have hlen : stepsMoreI (p :: m) + f = (p.2.length + (stepsMoreI m + f)) + 1 := by
      simp [stepsMoreI]; omega
    rw [hlen]
    simp only [printMoreI, List.cons_append, List.append_assoc]
    rw [cal_comma env sn id ct _ s A Q 0 I p.1 _ hc,
      cal_argI_g env sn id ct s p.2 _ _ _ 0 I hts 0 hd _ (by omega)]
    simp only [List.map_cons, argsErr, Option.orElse]
    cases argErr env p.2 with
    | some x => rfl
    | none =>
      simp only
      rw [ih _ _ _ (fun q hq => hm q (by simp [hq])) (by omega)]
      cases argsErr env (m.map (·.2)) with
      | some x => rfl
      | none => simp [accMoreE, impMoreI, add_assoc, skelMore, Function.comp_def]

end

/-- `parse_command_inline` with the error side: the first inline `format( … )` that cannot be formatted makes
the command fail with its located error. -/
theorem parse_command_inline_g (env : Env) (sn : String) (s : PState) (name lp : Tok) (a0 : List IElem)
    (more : List (Tok × List IElem)) (rp : Tok) (rest : List Tok)
    (hlp : lp.type = .LPAREN) (hrp : rp.type = .RPAREN) (h0 : argOk a0 = true)
    (hm : ∀ p ∈ more, p.1.type = .COMMA ∧ argOk p.2 = true) (fuel : Nat)
    (hf : needCmdI a0 more ≤ fuel) :
    (parseCommandStatement env sn fuel).run (st s (printCmdI name lp a0 more rp ++ rest)) =
      match argsErr env (a0 :: more.map (·.2)) with
      | some e => .error e
      | none =>
        .ok (({ id := s.nextCmdId, tok := name, name := name.lit,
                args := (a0 :: more.map (·.2)).map (renderArgI (substC s.constants)) },
              impArgsI env sn s.nextCmdId name 0 (a0 :: more.map (·.2))),
             st (bump s) (rp :: rest)) := by
  obtain ⟨h0n, h0t, h0d⟩ := (argOk_iff a0).mp h0
  have hm' : ∀ p ∈ more, p.1.type = .COMMA ∧ p.2.all elemOk = true ∧
      depthE 0 (p.2.map IElem.skel) = some 0 :=
    fun p hp => ⟨(hm p hp).1, ((argOk_iff p.2).mp (hm p hp).2).2.1, ((argOk_iff p.2).mp (hm p hp).2).2.2⟩
  have hne : ∀ p ∈ skelMore more, p.2 ≠ [] := by
    intro p hp
    simp only [skelMore, List.mem_map] at hp
    obtain ⟨q, hq, rfl⟩ := hp
    simpa using ((argOk_iff q.2).mp (hm q hq).2).1
  unfold needCmdI at hf
  obtain ⟨f, rfl, hg⟩ : ∃ f, fuel = a0.length + (stepsMoreI more + (f + 1)) ∧
      needArgI a0 + needMoreI more ≤ f + 1 :=
    ⟨fuel - a0.length - stepsMoreI more - 1, by omega, by omega⟩
  have hp : printCmdI name lp a0 more rp ++ rest =
      name :: lp :: (printArgI a0 ++ (printMoreI more ++ rp :: rest)) := by simp [printCmdI]
  have e0 : ({} : CmdAcc) = ⟨[], [], 0, {}⟩ := rfl
  rw [hp, pcs_paren env sn _ s name lp _ hlp, e0,
    cal_argI_g env sn s.nextCmdId name (bump s) a0 _ [] [] 0 {} h0t 0 h0d _ (by omega)]
  simp only [argsErr, Option.orElse]
  cases argErr env a0 with
  | some x => rfl
  | none =>
    simp only [List.nil_append]
    rw [cal_moreI_g env sn s.nextCmdId name (bump s) more _ _ _ _ hm' _ (by omega)]
    cases argsErr env (more.map (·.2)) with
    | some x => rfl
    | none =>
      simp only
      rw [cal_close env sn s.nextCmdId name _ (bump s) _ _ _ rp rest hrp]
      simp only [cmdOf, bump_constants]
      have hne' := accMoreE_parts_ne (substC s.constants) []
        (a0.map (fun e => partE (substC s.constants) e.skel)) (skelMore more) (by simpa using h0n) hne
      have hpos : (accMoreE (substC s.constants) []
          (a0.map (fun e => partE (substC s.constants) e.skel)) (skelMore more)).2.length > 0 :=
        Nat.pos_of_ne_zero (fun h => hne' (List.eq_nil_of_length_eq_zero h))
      simp only [hpos, if_true, accMoreE_args]
      simp [renderArgI, renderArgE, Function.comp_def, impArgsI, impMoreI_eq, nil_add, skelMore]

/-! ### the written forms of a command -/

inductive CmdF where
  /-- `name ( a0 , a1 , … )` -/
  | args (name lp : Tok) (a0 : List IElem) (more : List (Tok × List IElem)) (rp : Tok)
  /-- `name ( )` -/
  | empty (name lp rp : Tok)
  /-- `name` -/
  | bare (name : Tok)

namespace CmdF

def print : CmdF → List Tok
  | .args name lp a0 more rp => printCmdI name lp a0 more rp
  | .empty name lp rp => [name, lp, rp]
  | .bare name => [name]

def name : CmdF → Tok
  | .args name .. => name
  | .empty name .. => name
  | .bare name => name

/-- The token the command parser stops on. -/
def last : CmdF → Tok
  | .args _ _ _ _ rp => rp
  | .empty _ _ rp => rp
  | .bare name => name

/-- Token types. -/
def ok : CmdF → Bool
  | .args name lp a0 more rp =>
      name.type == .IDENT && lp.type == .LPAREN && rp.type == .RPAREN && argOk a0 &&
        more.all (fun p => p.1.type == .COMMA && argOk p.2)
  | .empty name lp rp => name.type == .IDENT && lp.type == .LPAREN && rp.type == .RPAREN
  | .bare name => name.type == .IDENT

/-- The written arguments. -/
def argList : CmdF → List (List IElem)
  | .args _ _ a0 more _ => a0 :: more.map (·.2)
  | _ => []

def nargs (c : CmdF) : Nat := c.argList.length

/-- The rendered arguments: inline texts / movements contribute the EMPTY string. -/
def rendered (σ : String → String) (c : CmdF) : List String := c.argList.map (renderArgI σ)

def need : CmdF → Nat
  | .args _ _ a0 more _ => needCmdI a0 more
  | .empty .. => 1
  | .bare _ => 0

/-- The command node. -/
def node (σ : String → String) (cid : Nat) (c : CmdF) : Cmd :=
  { id := cid, tok := c.name, name := c.name.lit, args := c.rendered σ }

/-- The implicit data, in source order. -/
def imp (env : Env) (sn : String) (cid : Nat) (c : CmdF) : ImpData :=
  impArgsI env sn cid c.name 0 c.argList

/-- The reference elaboration of a command: node and implicit data, or the located error of the first inline
`format( … )` that cannot be formatted. -/
def elabC (env : Env) (sn : String) (σ : String → String) (cid : Nat) (c : CmdF) : Except PFail (Cmd × ImpData) :=
  match argsErr env c.argList with
  | some e => .error e
  | none => .ok (c.node σ cid, c.imp env sn cid)

theorem name_ident {c : CmdF} (h : c.ok = true) : c.name.type = .IDENT := by
  cases c <;> simp only [ok, Bool.and_eq_true, beq_iff_eq] at h
  · exact h.1.1.1.1
  · exact h.1.1
  · exact h

theorem print_head (c : CmdF) : ∃ tl, c.print = c.name :: tl := by
  cases c
  · exact ⟨_, rfl⟩
  · exact ⟨_, rfl⟩
  · exact ⟨_, rfl⟩

end CmdF

theorem impArgsI_nil (env : Env) (sn : String) (cid : Nat) (ct : Tok) (k : Nat) :
    impArgsI env sn cid ct k [] = {} := rfl

/-- **`parseCommandStatement` on every written form of a command.** `rest` = the tokens after the command; for
the bare form the next token must not be `(`. -/
theorem cmdF_run (env : Env) (sn : String) (s : PState) (c : CmdF) (rest : List Tok) (hc : c.ok = true)
    (hrest : ∀ n, c = .bare n → (rest.headD s.eof).type ≠ .LPAREN) (fuel : Nat) (hf : c.need ≤ fuel) :
    (parseCommandStatement env sn fuel).run (st s (c.print ++ rest)) =
      match c.elabC env sn (substC s.constants) s.nextCmdId with
      | .error e => .error e
      | .ok r => .ok (r, st (bump s) (c.last :: rest)) := by
  cases c with
  | args name lp a0 more rp =>
    simp only [CmdF.ok, Bool.and_eq_true, beq_iff_eq, List.all_eq_true] at hc
    obtain ⟨⟨⟨⟨h1, h2⟩, h3⟩, h4⟩, h5⟩ := hc
    simp only [CmdF.print, CmdF.elabC, CmdF.argList, CmdF.last]
    rw [parse_command_inline_g env sn s name lp a0 more rp rest h2 h3 h4 h5 fuel hf]
    cases argsErr env (a0 :: more.map (·.2)) with
    | some e => rfl
    | none => rfl
  | empty name lp rp =>
    simp only [CmdF.ok, Bool.and_eq_true, beq_iff_eq] at hc
    simp only [CmdF.print, List.cons_append, List.nil_append]
    rw [parse_command_empty_parens env sn s name lp rp rest hc.1.2 hc.2 fuel hf]
    rfl
  | bare name =>
    simp only [CmdF.print, List.cons_append, List.nil_append]
    rw [parse_command_bare env sn fuel _ (by
      have := hrest name rfl
      cases rest with
      | nil => simpa using this
      | cons a b => simpa using this)]
    rfl

/-! ### a printed command is not a scoped label -/

theorem elem_head (e : IElem) (h : elemOk e = true) :
    (∃ t, e = .base (.tok t)) ∨
      ∃ x tl, e.toks = x :: tl ∧ (x.type = .STRING ∨ x.type = .STRINGTYPE ∨ x.type = .MOVES ∨ x.type = .FORMAT) := by
  cases e with
  | base e =>
    cases e with
    | tok t => exact .inl ⟨t, rfl⟩
    | str t => exact .inr ⟨t, [], rfl, .inl (by simpa [elemOk, AElem.ok] using h)⟩
    | tstr ty t =>
      refine .inr ⟨ty, [t], rfl, .inr (.inl ?_)⟩
      simp only [elemOk, AElem.ok, Bool.and_eq_true, beq_iff_eq] at h
      exact h.1
    | moves mv lp items rp =>
      refine .inr ⟨mv, _, rfl, .inr (.inr (.inl ?_))⟩
      simp only [elemOk, AElem.ok, Bool.and_eq_true, beq_iff_eq] at h
      exact h.1.1.1.1
  | fmt fm lp sty text P rp =>
    have hwf : (TVal.format fm lp sty text P rp).WF := by simpa [elemOk] using h
    exact .inr ⟨fm, _, rfl, .inr (.inr (.inr hwf.1))⟩

/-- `name ( a0 , … )` is never read as a scoped label `name ( global ) :`. -/
theorem args_not_label (a0 : List IElem) (more : List (Tok × List IElem)) (rp t : Tok) (tl : List Tok)
    (d : Tok) (h0 : argOk a0 = true) (hm : ∀ p ∈ more, p.1.type = .COMMA ∧ argOk p.2 = true)
    (ht : t.type ≠ .COLON) :
    ¬ ((((printArgI a0 ++ (printMoreI more ++ rp :: t :: tl)).getD 0 d).type = .GLOBAL ∨
        ((printArgI a0 ++ (printMoreI more ++ rp :: t :: tl)).getD 0 d).type = .LOCAL) ∧
      ((printArgI a0 ++ (printMoreI more ++ rp :: t :: tl)).getD 1 d).type = .RPAREN ∧
      ((printArgI a0 ++ (printMoreI more ++ rp :: t :: tl)).getD 2 d).type = .COLON) := by
  obtain ⟨hne, htoks, hbal⟩ := (argOk_iff a0).mp h0
  cases a0 with
  | nil => exact absurd rfl hne
  | cons e a0' =>
    simp only [List.all_cons, Bool.and_eq_true] at htoks
    rcases elem_head e htoks.1 with ⟨g, rfl⟩ | ⟨x, xtl, hx, hty⟩
    · cases a0' with
      | nil =>
        cases more with
        | nil =>
          simp only [printArgI, IElem.toks, AElem.toks, printMoreI, List.nil_append, List.cons_append,
            List.getD_cons_succ, List.getD_cons_zero, List.append_nil]
          intro h; exact ht h.2.2
        | cons p m =>
          have := (hm p (by simp)).1
          simp only [printArgI, IElem.toks, AElem.toks, printMoreI, List.nil_append, List.cons_append,
            List.getD_cons_succ, List.getD_cons_zero, List.append_nil]
          intro h; rw [this] at h; exact absurd h.2.1 (by decide)
      | cons e2 a0'' =>
        simp only [List.all_cons, Bool.and_eq_true] at htoks
        rcases elem_head e2 htoks.2.1 with ⟨x, rfl⟩ | ⟨x, xtl, hx, hty⟩
        · simp only [printArgI, IElem.toks, AElem.toks, List.cons_append, List.nil_append, List.getD_cons_succ,
            List.getD_cons_zero]
          intro h
          have hg1 : g.type ≠ .LPAREN := by rcases h.1 with h | h <;> rw [h] <;> decide
          have hg2 : g.type ≠ .RPAREN := by rcases h.1 with h | h <;> rw [h] <;> decide
          simp [IElem.skel, depthE, hg1, hg2, h.2.1] at hbal
        · simp only [printArgI]
          rw [hx]
          simp only [IElem.toks, AElem.toks, List.cons_append, List.nil_append,
            List.getD_cons_succ, List.getD_cons_zero]
          intro h
          rcases hty with hty | hty | hty | hty <;> rw [hty] at h <;> exact absurd h.2.1 (by decide)
    · simp only [printArgI]
      rw [hx]
      simp only [List.cons_append, List.getD_cons_zero]
      intro h
      rcases hty with hty | hty | hty | hty <;> rw [hty] at h <;> rcases h.1 with h | h <;>
        exact absurd h (by decide)

/-! ### fuel -/

theorem needArgI_le (a : List IElem) : a.length + needArgI a ≤ (printArgI a).length := by
  induction a with
  | nil => simp [needArgI, printArgI]
  | cons e r ih =>
    cases e with
    | base e =>
      cases e <;> simp only [needArgI, IElem.need, AElem.need, printArgI, IElem.toks, AElem.toks,
        List.length_cons, List.length_append, List.length_nil] <;> omega
    | fmt fm lp sty text P rp =>
      have : P.named.length ≤ P.toks.length := by
        unfold Params.toks
        cases hn : P.named with
        | nil => simp
        | cons n r =>
          have : ∀ l : List NamedP, l.length ≤ (printNamed l).length := by
            intro l
            induction l with
            | nil => simp [printNamed]
            | cons x xs ih => simp only [printNamed, NamedP.toks, List.length_append, List.length_cons]; omega
          have := this (n :: r)
          simp only [List.length_append, List.length_cons] at this ⊢
          omega
      simp only [needArgI, IElem.need, printArgI, IElem.toks, TVal.toks, List.length_cons, List.length_append,
        List.length_nil]
      omega

theorem needMoreI_le (more : List (Tok × List IElem)) :
    stepsMoreI more + needMoreI more ≤ (printMoreI more).length := by
  induction more with
  | nil => simp [stepsMoreI, needMoreI, printMoreI]
  | cons p m ih =>
    have := needArgI_le p.2
    simp only [stepsMoreI, needMoreI, printMoreI, List.length_cons, List.length_append]; omega

theorem needCmdI_le (name lp : Tok) (a0 : List IElem) (more : List (Tok × List IElem)) (rp : Tok) :
    needCmdI a0 more + 2 ≤ (printCmdI name lp a0 more rp).length := by
  have := needArgI_le a0
  have := needMoreI_le more
  simp only [needCmdI, printCmdI, List.length_cons, List.length_append, List.length_nil]; omega

theorem CmdF.need_le (c : CmdF) : c.need + 1 ≤ c.print.length := by
  cases c with
  | args name lp a0 more rp => have := needCmdI_le name lp a0 more rp; simp only [CmdF.need, CmdF.print]; omega
  | empty name lp rp => simp [CmdF.need, CmdF.print]
  | bare name => simp [CmdF.need, CmdF.print]

/-! ### the commands of C10b (plain tokens) and C10c (`AElem`) as special cases -/

def ofE (a : List AElem) : List IElem := a.map .base
def ofEMore (more : List (Tok × List AElem)) : List (Tok × List IElem) := more.map fun p => (p.1, ofE p.2)
def ofT (a : List Tok) : List IElem := a.map fun t => .base (.tok t)
def ofTMore (more : List (Tok × List Tok)) : List (Tok × List IElem) := more.map fun p => (p.1, ofT p.2)

theorem skel_ofE (a : List AElem) : (ofE a).map IElem.skel = a := by
  induction a with
  | nil => rfl
  | cons e r ih => simp only [ofE, List.map_cons, IElem.skel, List.cons.injEq, true_and] at ih ⊢; exact ih

theorem printArgI_ofE (a : List AElem) : printArgI (ofE a) = printArgE a := by
  induction a with
  | nil => rfl
  | cons e r ih => simp only [ofE, List.map_cons, printArgI, printArgE, IElem.toks] at ih ⊢; rw [ih]

theorem printMoreI_ofE (more : List (Tok × List AElem)) : printMoreI (ofEMore more) = printMoreE more := by
  induction more with
  | nil => rfl
  | cons p m ih =>
    simp only [ofEMore, List.map_cons, printMoreI, printMoreE, printArgI_ofE] at ih ⊢; rw [ih]

theorem printCmdI_ofE (name lp : Tok) (a0 : List AElem) (more : List (Tok × List AElem)) (rp : Tok) :
    printCmdI name lp (ofE a0) (ofEMore more) rp = printCmdE name lp a0 more rp := by
  simp [printCmdI, printCmdE, printArgI_ofE, printMoreI_ofE]

theorem argErr_ofE (env : Env) (a : List AElem) : argErr env (ofE a) = none := by
  induction a with
  | nil => rfl
  | cons e r ih => simpa [ofE, argErr, elemErr, Option.orElse] using ih

theorem argOk_ofE (a : List AElem) : argOk (ofE a) = argEOK a := by
  have h1 : (ofE a).isEmpty = a.isEmpty := by cases a <;> rfl
  have h2 : ∀ a : List AElem, (ofE a).all elemOk = a.all AElem.ok := by
    intro a
    induction a with
    | nil => rfl
    | cons e r ih => simp only [ofE, List.map_cons, List.all_cons, elemOk] at ih ⊢; rw [ih]
  have h2 := h2 a
  simp only [argOk, argEOK, h1, h2, skel_ofE]

theorem renderArgI_ofE (σ : String → String) (a : List AElem) : renderArgI σ (ofE a) = renderArgE σ a := by
  simp [renderArgI, skel_ofE]

theorem impArgI_ofE (env : Env) (sn : String) (cid : Nat) (ct : Tok) (pos : Nat) (a : List AElem) :
    impArgI env sn cid ct pos (ofE a) = impArg sn cid ct pos a := by
  induction a with
  | nil => rfl
  | cons e r ih => simp only [ofE, List.map_cons, impArgI, impArg, impOfI] at ih ⊢; rw [ih]

theorem impArgsI_ofE (env : Env) (sn : String) (cid : Nat) (ct : Tok) (pos : Nat) (args : List (List AElem)) :
    impArgsI env sn cid ct pos (args.map ofE) = impArgs sn cid ct pos args := by
  induction args generalizing pos with
  | nil => rfl
  | cons a r ih => simp only [List.map_cons, impArgsI, impArgs, impArgI_ofE, ih]

theorem needArgI_ofE (a : List AElem) : needArgI (ofE a) = needArgE a := by
  induction a with
  | nil => rfl
  | cons e r ih => simp only [ofE, List.map_cons, needArgI, needArgE, IElem.need] at ih ⊢; rw [ih]

theorem needCmdI_ofE (a0 : List AElem) (more : List (Tok × List AElem)) :
    needCmdI (ofE a0) (ofEMore more) = needCmdE a0 more := by
  have h1 : ∀ more : List (Tok × List AElem), stepsMoreI (ofEMore more) = stepsMoreE more := by
    intro more
    induction more with
    | nil => rfl
    | cons p m ih => simp only [ofEMore, List.map_cons, stepsMoreI, stepsMoreE] at ih ⊢; rw [ih]; simp [ofE]
  have h2 : ∀ more : List (Tok × List AElem), needMoreI (ofEMore more) = needMoreE more := by
    intro more
    induction more with
    | nil => rfl
    | cons p m ih => simp only [ofEMore, List.map_cons, needMoreI, needMoreE, needArgI_ofE] at ih ⊢; rw [ih]
  have h3 : (ofE a0).length = a0.length := by simp [ofE]
  simp only [needCmdI, needCmdE, h1, h2, needArgI_ofE, h3]

/-- a plain-token argument as a list of `AElem` -/
def tokE (a : List Tok) : List AElem := a.map .tok

theorem ofT_eq (a : List Tok) : ofT a = ofE (tokE a) := by simp [ofT, ofE, tokE]

theorem printArgE_tokE (a : List Tok) : printArgE (tokE a) = a := by
  induction a with
  | nil => rfl
  | cons t r ih => simp only [tokE, List.map_cons, printArgE, AElem.toks] at ih ⊢; rw [ih]; rfl

theorem depthE_tokE (a : List Tok) (d : Nat) : depthE d (tokE a) = depthAfter d a := by
  induction a generalizing d with
  | nil => rfl
  | cons t r ih =>
    simp only [tokE, List.map_cons, depthE, depthAfter] at ih ⊢
    by_cases h1 : t.type = .LPAREN
    · simp only [h1, if_true]; exact ih _
    · by_cases h2 : t.type = .RPAREN
      · simp only [h2, if_true]
        cases d with
        | zero => simp
        | succ k => simp only [reduceCtorEq, if_false]; exact ih _
      · simp only [h1, h2, if_false]; exact ih _

theorem argEOK_tokE (a : List Tok) : argEOK (tokE a) = true ↔ ArgOK a := by
  rw [argEOK_iff]
  constructor
  · rintro ⟨h1, h2, h3⟩
    refine ⟨by simpa [tokE] using h1, ?_, by rw [← depthE_tokE]; exact h3⟩
    intro t ht
    have := List.all_eq_true.mp h2 (.tok t) (by simp [tokE]; exact ht)
    simpa [AElem.ok] using this
  · rintro ⟨h1, h2, h3⟩
    refine ⟨by simpa [tokE] using h1, ?_, by rw [depthE_tokE]; exact h3⟩
    rw [List.all_eq_true]
    intro e he
    simp only [tokE, List.mem_map] at he
    obtain ⟨t, ht, rfl⟩ := he
    simpa [AElem.ok] using h2 t ht

theorem renderArgE_tokE (σ : String → String) (a : List Tok) : renderArgE σ (tokE a) = renderArg σ a := by
  simp [renderArgE, renderArg, tokE, Function.comp_def, partE]

theorem impArg_tokE (sn : String) (cid : Nat) (ct : Tok) (pos : Nat) (a : List Tok) :
    impArg sn cid ct pos (tokE a) = {} := by
  induction a with
  | nil => rfl
  | cons t r ih => simp only [tokE, List.map_cons, impArg, impOf] at ih ⊢; rw [ih]; rfl

theorem impArgs_tokE (sn : String) (cid : Nat) (ct : Tok) (pos : Nat) (args : List (List Tok)) :
    impArgs sn cid ct pos (args.map tokE) = {} := by
  induction args generalizing pos with
  | nil => rfl
  | cons a r ih => simp only [List.map_cons, impArgs, impArg_tokE, ih]; rfl

end Pory.CmdGen
