import PoryProofs.PorySelect
import PoryModel.EmitRender
/-
C12c, stretch: the emitter model does not look at command ids and scope ids beyond comparing them.

`emit_ids_irrelevant`: two scripts with the same token / name / scope whose bodies are `RelL R` (the same
statements up to an order-preserving correspondence `R` of command ids and of scope ids), emitted with
patch lists that correspond under `R.c`, give the same `Emit.emitScript` result (lines or error).

The proof is a simulation through `PoryModel/Emitter.lean` (`RelWS`: counters equal, chunk tables related
chunk by chunk, `brk` / `cont` lists keyed by `R.s`-related scope ids) and `PoryModel/EmitRender.lean`.
-/
namespace Pory.C12c
open Pory Pory.Emit

/-! ### `All2`, `RelL` and list operations -/

theorem All2.length_eq {α β : Type} {P : α → β → Prop} :
    ∀ {l : List α} {m : List β}, All2 P l m → l.length = m.length
  | [], [], _ => rfl
  | _ :: _, _ :: _, h => by simp [All2.length_eq h.2]
  | [], _ :: _, h => h.elim
  | _ :: _, [], h => h.elim

theorem All2.filter {α β : Type} {P : α → β → Prop} {p : α → Bool} {q : β → Bool}
    (hpq : ∀ a b, P a b → p a = q b) :
    ∀ {l : List α} {m : List β}, All2 P l m → All2 P (l.filter p) (m.filter q)
  | [], [], _ => trivial
  | a :: l, b :: m, h => by
    have ih := All2.filter hpq h.2
    simp only [List.filter_cons, hpq a b h.1]
    cases q b with
    | true => exact ⟨h.1, ih⟩
    | false => exact ih
  | [], _ :: _, h => h.elim
  | _ :: _, [], h => h.elim

theorem all2_map_eq' {α β γ : Type} {P : α → β → Prop} {f : α → γ} {g : β → γ} (h : ∀ a b, P a b → f a = g b) :
    ∀ {l : List α} {m : List β}, All2 P l m → l.map f = m.map g
  | [], [], _ => rfl
  | a :: l, b :: m, h1 => by rw [List.map_cons, List.map_cons, h a b h1.1, all2_map_eq' h h1.2]
  | [], _ :: _, h1 => h1.elim
  | _ :: _, [], h1 => h1.elim

theorem All2.drop {α β : Type} {P : α → β → Prop} :
    ∀ (n : Nat) {l : List α} {m : List β}, All2 P l m → All2 P (l.drop n) (m.drop n)
  | 0, _, _, h => h
  | _ + 1, [], [], _ => trivial
  | n + 1, _ :: _, _ :: _, h => All2.drop n h.2
  | _ + 1, [], _ :: _, h => h.elim
  | _ + 1, _ :: _, [], h => h.elim

theorem All2.isEmpty_eq {α β : Type} {P : α → β → Prop} :
    ∀ {l : List α} {m : List β}, All2 P l m → l.isEmpty = m.isEmpty
  | [], [], _ => rfl
  | _ :: _, _ :: _, _ => rfl
  | [], _ :: _, h => h.elim
  | _ :: _, [], h => h.elim

theorem All2.getLast? {α β : Type} {P : α → β → Prop} :
    ∀ {l : List α} {m : List β}, All2 P l m →
      (l.getLast? = none ∧ m.getLast? = none) ∨ ∃ a b, l.getLast? = some a ∧ m.getLast? = some b ∧ P a b
  | [], [], _ => .inl ⟨rfl, rfl⟩
  | [a], [b], h => .inr ⟨a, b, rfl, rfl, h.1⟩
  | a :: a2 :: l, b :: b2 :: m, h => by
    have ih := All2.getLast? (l := a2 :: l) (m := b2 :: m) h.2
    simpa [List.getLast?_cons_cons] using ih
  | [], _ :: _, h => h.elim
  | _ :: _, [], h => h.elim
  | [_], _ :: _ :: _, h => h.2.elim
  | _ :: _ :: _, [_], h => h.2.elim

theorem All2.modify {α β : Type} {P : α → β → Prop} {f : α → α} {g : β → β}
    (hfg : ∀ a b, P a b → P (f a) (g b)) :
    ∀ (n : Nat) {l : List α} {m : List β}, All2 P l m → All2 P (l.modify n f) (m.modify n g)
  | _, [], [], _ => by simp [All2]
  | 0, a :: l, b :: m, h => by simp only [List.modify_zero_cons]; exact ⟨hfg a b h.1, h.2⟩
  | n + 1, a :: l, b :: m, h => by simp only [List.modify_succ_cons]; exact ⟨h.1, All2.modify hfg n h.2⟩
  | _, [], _ :: _, h => h.elim
  | _, _ :: _, [], h => h.elim

theorem RelL.length_eq {R : Ren} : ∀ {a' a : List Stmt}, RelL R a' a → a'.length = a.length
  | _, _, .nil => rfl
  | _, _, .cons _ hr => by simp [RelL.length_eq hr]

theorem RelL.drop {R : Ren} : ∀ (n : Nat) {a' a : List Stmt}, RelL R a' a → RelL R (a'.drop n) (a.drop n)
  | 0, _, _, h => h
  | _ + 1, _, _, .nil => .nil
  | n + 1, _, _, .cons _ hr => RelL.drop n hr

theorem RelL.take {R : Ren} : ∀ (n : Nat) {a' a : List Stmt}, RelL R a' a → RelL R (a'.take n) (a.take n)
  | 0, _, _, _ => .nil
  | _ + 1, _, _, .nil => .nil
  | n + 1, _, _, .cons hx hr => .cons hx (RelL.take n hr)

theorem RelL.get? {R : Ren} : ∀ (n : Nat) {a' a : List Stmt}, RelL R a' a →
    (a'[n]? = none ∧ a[n]? = none) ∨ ∃ x' x, a'[n]? = some x' ∧ a[n]? = some x ∧ RelS R x' x
  | _, _, _, .nil => .inl ⟨rfl, rfl⟩
  | 0, _, _, .cons hx _ => .inr ⟨_, _, rfl, rfl, hx⟩
  | n + 1, _, _, .cons _ hr => by simpa using RelL.get? n hr

/-! ### related chunks and worklist states -/

inductive RelBranch (R : Ren) : Branch → Branch → Prop
  | none : RelBranch R .none .none
  | jump (d : Nat) : RelBranch R (.jump d) (.jump d)
  | breakCtx (d : Option Nat) : RelBranch R (.breakCtx d) (.breakCtx d)
  | leaf (t : Nat) {e' e : OpExpr} (f : Option Nat) : relOp R e' e → RelBranch R (.leaf t e' f) (.leaf t e f)
  | switch_ (o : Tok) (cs : List SwitchCaseBranch) (d dest : Option Nat) :
      RelBranch R (.switch_ o cs d dest) (.switch_ o cs d dest)

structure RelChunk (R : Ren) (c' c : Chunk) : Prop where
  id : c'.id = c.id
  ret : c'.returnID = c.returnID
  term : c'.useEndTerminator = c.useEndTerminator
  stmts : RelL R c'.statements c.statements
  br : RelBranch R c'.branch c.branch

structure RelWS (R : Ren) (s' s : WS) : Prop where
  counter : s'.counter = s.counter
  final : All2 (RelChunk R) s'.final s.final
  queue : All2 (RelChunk R) s'.queue s.queue
  brk : All2 (fun p' p => R.s p'.1 p.1 ∧ p'.2 = p.2) s'.brk s.brk
  cont : All2 (fun p' p => R.s p'.1 p.1 ∧ p'.2 = p.2) s'.cont s.cont

/-- Results of two runs: the same error, or related values. -/
def RelEx {α β : Type} (Q : α → β → Prop) : Except EFail α → Except EFail β → Prop
  | .error e', .error e => e' = e
  | .ok a', .ok a => Q a' a
  | _, _ => False

theorem All2.snoc {α β : Type} {P : α → β → Prop} {l : List α} {m : List β} {a : α} {b : β}
    (h : All2 P l m) (hab : P a b) : All2 P (l ++ [a]) (m ++ [b]) :=
  All2.append h ⟨hab, trivial⟩

theorem RelWS.setFinal {R : Ren} {s' s : WS} {c' c : Chunk} (h : RelWS R s' s) (hc : RelChunk R c' c) :
    RelWS R (s'.setFinal c') (s.setFinal c) := by
  refine ⟨h.counter, ⟨hc, ?_⟩, h.queue, h.brk, h.cont⟩
  exact All2.filter (fun a b hab => by simp only [hab.id, hc.id]) h.final

theorem RelWS.enqueue {R : Ren} {s' s : WS} {c' c : Chunk} (h : RelWS R s' s) (hc : RelChunk R c' c)
    (n : Nat) :
    RelWS R { s' with counter := n, queue := s'.queue ++ [c'] } { s with counter := n, queue := s.queue ++ [c] } :=
  ⟨rfl, h.final, h.queue.snoc hc, h.brk, h.cont⟩

/-! ### `PoryModel/Emitter.lean` -/

theorem rel_splitChunkForBranch {R : Ren} {c' c : Chunk} {s' s : WS} (hc : RelChunk R c' c)
    (hs : RelWS R s' s) (i : Nat) :
    RelWS R (splitChunkForBranch c' i s').1 (splitChunkForBranch c i s).1 ∧
      (splitChunkForBranch c' i s').2 = (splitChunkForBranch c i s).2 := by
  unfold splitChunkForBranch
  rw [hc.stmts.length_eq]
  cases h : (i + 1 == c.statements.length) with
  | true => simp only [if_true]; exact ⟨hs, hc.ret⟩
  | false =>
    simp only [Bool.false_eq_true, if_false, hs.counter]
    refine ⟨hs.enqueue ?_ _, trivial⟩
    exact ⟨rfl, hc.ret, rfl, hc.stmts.drop _, .none⟩

theorem rel_keepStatementsAfterJump {R : Ren} {c' c : Chunk} {s' s : WS} (hc : RelChunk R c' c)
    (hs : RelWS R s' s) (i : Nat) :
    RelWS R (keepStatementsAfterJump c' i s') (keepStatementsAfterJump c i s) := by
  unfold keepStatementsAfterJump
  rw [hc.stmts.length_eq]
  cases h : (i + 1 == c.statements.length) with
  | true => simp only [if_true]; exact hs
  | false =>
    simp only [Bool.false_eq_true, if_false, hs.counter]
    refine hs.enqueue ?_ _
    exact ⟨rfl, hc.ret, rfl, hc.stmts.drop _, .none⟩

/-- related state, equal number -/
def RelWSN (R : Ren) (r' r : WS × Nat) : Prop := RelWS R r'.1 r.1 ∧ r'.2 = r.2

theorem rel_splitBool {R : Ren} : ∀ {e' e : BoolExpr}, relB R e' e → ∀ (succ : Nat) (failure : Option Nat)
    {s' s : WS}, RelWS R s' s → RelEx (RelWSN R) (splitBool e' succ failure s') (splitBool e succ failure s)
  | .leaf e', .leaf e, he, succ, failure, s', s, hs => by
    simp only [relB] at he
    simp only [splitBool, RelEx, RelWSN, hs.counter, and_true]
    refine hs.enqueue ?_ _
    exact ⟨rfl, rfl, rfl, .nil, .leaf _ _ he⟩
  | .bin l' op' r', .bin l op r, he, succ, failure, s', s, hs => by
    simp only [relB] at he
    obtain ⟨hl, rfl, hr⟩ := he
    rw [splitBool, splitBool]
    cases hand : (op' == TT.AND) with
    | true =>
      simp only [if_true, hs.counter]
      have hs1 : RelWS R { s' with counter := s.counter + 1 } { s with counter := s.counter + 1 } :=
        ⟨rfl, hs.final, hs.queue, hs.brk, hs.cont⟩
      have ih1 := rel_splitBool hl (s.counter + 1) failure hs1
      revert ih1
      generalize splitBool l' (s.counter + 1) failure _ = x'
      generalize splitBool l (s.counter + 1) failure _ = x
      intro ih1
      cases x' <;> cases x <;> simp only [RelEx] at ih1 ⊢
      · exact ih1
      · rename_i a' a
        obtain ⟨s2', n'⟩ := a'
        obtain ⟨s2, n⟩ := a
        obtain ⟨hs2, rfl⟩ := ih1
        simp only at hs2 ⊢
        have ih2 := rel_splitBool hr succ failure hs2
        revert ih2
        generalize splitBool r' succ failure s2' = y'
        generalize splitBool r succ failure s2 = y
        intro ih2
        cases y' <;> cases y <;> simp only [RelEx] at ih2 ⊢
        · exact ih2
        · rename_i b' b
          obtain ⟨s3', m'⟩ := b'
          obtain ⟨s3, m⟩ := b
          obtain ⟨hs3, rfl⟩ := ih2
          simp only at hs3
          exact ⟨⟨hs3.counter, hs3.final, hs3.queue.snoc ⟨rfl, rfl, rfl, .nil, .jump _⟩, hs3.brk, hs3.cont⟩, rfl⟩
    | false =>
      simp only [Bool.false_eq_true, if_false]
      cases hor : (op' == TT.OR) with
      | false => simp only [Bool.false_eq_true, if_false, RelEx]
      | true =>
        simp only [if_true, hs.counter]
        have hs1 : RelWS R { s' with counter := s.counter + 1 } { s with counter := s.counter + 1 } :=
          ⟨rfl, hs.final, hs.queue, hs.brk, hs.cont⟩
        have ih1 := rel_splitBool hl succ (some (s.counter + 1)) hs1
        revert ih1
        generalize splitBool l' succ (some (s.counter + 1)) _ = x'
        generalize splitBool l succ (some (s.counter + 1)) _ = x
        intro ih1
        cases x' <;> cases x <;> simp only [RelEx] at ih1 ⊢
        · exact ih1
        · rename_i a' a
          obtain ⟨s2', n'⟩ := a'
          obtain ⟨s2, n⟩ := a
          obtain ⟨hs2, rfl⟩ := ih1
          simp only at hs2 ⊢
          have ih2 := rel_splitBool hr succ failure hs2
          revert ih2
          generalize splitBool r' succ failure s2' = y'
          generalize splitBool r succ failure s2 = y
          intro ih2
          cases y' <;> cases y <;> simp only [RelEx] at ih2 ⊢
          · exact ih2
          · rename_i b' b
            obtain ⟨s3', m'⟩ := b'
            obtain ⟨s3, m⟩ := b
            obtain ⟨hs3, rfl⟩ := ih2
            simp only at hs3
            exact ⟨⟨hs3.counter, hs3.final, hs3.queue.snoc ⟨rfl, rfl, rfl, .nil, .jump _⟩, hs3.brk, hs3.cont⟩, rfl⟩
  | .leaf _, .bin .., he, _, _, _, _, _ => by simp [relB] at he
  | .bin .., .leaf _, he, _, _, _, _, _ => by simp [relB] at he

/-- related state, related branch, equal rest -/
def RelCreate {β : Type} (R : Ren) (r' r : WS × Branch × β) : Prop :=
  RelWS R r'.1 r.1 ∧ RelBranch R r'.2.1 r.2.1 ∧ r'.2.2 = r.2.2

/-- related state, equal rest -/
def RelWSX {β : Type} (R : Ren) (r' r : WS × β) : Prop := RelWS R r'.1 r.1 ∧ r'.2 = r.2

theorem rel_splitElifs {R : Ren} : ∀ {es' es : List (BoolExpr × List Stmt)}, RelElifs R es' es →
    ∀ (ids : List Nat) (lastFail : Option Nat) {s' s : WS}, RelWS R s' s →
    RelEx (RelWSX R) (splitElifs es' ids lastFail s') (splitElifs es ids lastFail s)
  | _, _, .nil, ids, lf, s', s, hs => by
    unfold splitElifs
    exact ⟨hs, rfl⟩
  | _, _, .cons (c' := c') (c := c) (b' := b') (b := b) (r' := r') (r := r) hc hb hr, [], lf, s', s, hs => by
    unfold splitElifs
    exact ⟨hs, rfl⟩
  | _, _, .cons (c' := c') (c := c) (b' := b') (b := b) (r' := r') (r := r) hc hb hr, id :: ids, lf, s', s, hs => by
    rw [splitElifs, splitElifs]
    have ih1 := rel_splitElifs hr ids lf hs
    revert ih1
    generalize splitElifs r' ids lf s' = x'
    generalize splitElifs r ids lf s = x
    intro ih1
    cases x' <;> cases x <;> simp only [RelEx] at ih1 ⊢
    · exact ih1
    · rename_i a' a
      obtain ⟨s2', n'⟩ := a'
      obtain ⟨s2, n⟩ := a
      obtain ⟨hs2, rfl⟩ := ih1
      simp only at hs2 ⊢
      have ih2 := rel_splitBool hc id n' hs2
      revert ih2
      generalize splitBool c' id n' s2' = y'
      generalize splitBool c id n' s2 = y
      intro ih2
      cases y' <;> cases y <;> simp only [RelEx] at ih2 ⊢
      · exact ih2
      · rename_i b2' b2
        obtain ⟨s3', m'⟩ := b2'
        obtain ⟨s3, m⟩ := b2
        obtain ⟨hs3, rfl⟩ := ih2
        exact ⟨hs3, rfl⟩

/-- one step of the elif loop of `createIf` -/
def elifStep (returnID : Option Nat) (acc : WS × List Nat) (e : BoolExpr × List Stmt) : WS × List Nat :=
  ({ acc.1 with counter := acc.1.counter + 1,
                queue := acc.1.queue ++ [{ id := acc.1.counter + 1, returnID := returnID, statements := e.2 }] },
   acc.2 ++ [acc.1.counter + 1])

theorem rel_elifFold {R : Ren} (ret : Option Nat) : ∀ {es' es : List (BoolExpr × List Stmt)},
    RelElifs R es' es → ∀ {a' a : WS × List Nat}, RelWS R a'.1 a.1 → a'.2 = a.2 →
    RelWSX R (es'.foldl (elifStep ret) a') (es.foldl (elifStep ret) a)
  | _, _, .nil, _, _, h1, h2 => ⟨h1, h2⟩
  | _, _, .cons (c' := c') (c := c) (b' := b') (b := b) hc hb hr, a', a, h1, h2 => by
    simp only [List.foldl_cons]
    refine rel_elifFold ret hr ?_ ?_
    · simp only [elifStep, h1.counter]
      refine h1.enqueue ?_ _
      exact ⟨rfl, rfl, rfl, hb, .none⟩
    · simp only [elifStep, h1.counter, h2]

theorem createIf_eq (cond : BoolExpr) (body : List Stmt) (elifs : List (BoolExpr × List Stmt))
    (els : Option (List Stmt)) (c : Chunk) (i : Nat) (s : WS) :
    createIf cond body elifs els c i s =
      let r0 := splitChunkForBranch c i s
      let s2 : WS := { r0.1 with counter := r0.1.counter + 1,
                                 queue := r0.1.queue ++ [{ id := r0.1.counter + 1, returnID := r0.2, statements := body }] }
      let r3 := elifs.foldl (elifStep r0.2) (s2, [])
      let r4 : WS × Option Nat := match els with
        | some st =>
          ({ r3.1 with counter := r3.1.counter + 1,
                       queue := r3.1.queue ++ [{ id := r3.1.counter + 1, returnID := r0.2, statements := st }] },
           some (r3.1.counter + 1))
        | none => (r3.1, none)
      let lastFail : Option Nat := match r4.2 with | some id => some id | none => r0.2
      match splitElifs elifs r3.2 lastFail r4.1 with
      | .error e => .error e
      | .ok (s, afterCons) =>
        match splitBool cond (r0.1.counter + 1) afterCons s with
        | .error e => .error e
        | .ok (s, entry) => .ok (s, .jump entry, r0.2) := by
  cases els <;> rfl

theorem rel_createIf_tail {R : Ren} {cond' cond : BoolExpr} {es' es : List (BoolExpr × List Stmt)}
    (hcond : relB R cond' cond) (hes : RelElifs R es' es) (ids' : List Nat) (lf : Option Nat) (k : Nat)
    (ret' : Option Nat) {s4' s4 : WS} (hs4 : RelWS R s4' s4) :
    RelEx (RelCreate R)
      (match splitElifs es' ids' lf s4' with
        | .error e => .error e
        | .ok (s, afterCons) =>
          match splitBool cond' k afterCons s with
          | .error e => .error e
          | .ok (s, entry) => .ok (s, Branch.jump entry, ret'))
      (match splitElifs es ids' lf s4 with
        | .error e => .error e
        | .ok (s, afterCons) =>
          match splitBool cond k afterCons s with
          | .error e => .error e
          | .ok (s, entry) => .ok (s, Branch.jump entry, ret')) := by
  have ih1 := rel_splitElifs hes ids' lf hs4
  revert ih1
  generalize splitElifs es' ids' lf s4' = x'
  generalize splitElifs es ids' lf s4 = x
  intro ih1
  cases x' <;> cases x <;> simp only [RelEx] at ih1 ⊢
  · exact ih1
  · rename_i a' a
    obtain ⟨s5', n'⟩ := a'
    obtain ⟨s5, n⟩ := a
    obtain ⟨hs5, rfl⟩ := ih1
    simp only at hs5 ⊢
    have ih2 := rel_splitBool hcond k n' hs5
    revert ih2
    generalize splitBool cond' k n' s5' = y'
    generalize splitBool cond k n' s5 = y
    intro ih2
    cases y' <;> cases y <;> simp only [RelEx] at ih2 ⊢
    · exact ih2
    · rename_i b2' b2
      obtain ⟨s6', m'⟩ := b2'
      obtain ⟨s6, m⟩ := b2
      obtain ⟨hs6, rfl⟩ := ih2
      exact ⟨hs6, .jump _, rfl⟩

theorem rel_createIf {R : Ren} {cond' cond : BoolExpr} {body' body : List Stmt}
    {es' es : List (BoolExpr × List Stmt)} {el' el : Option (List Stmt)} {c' c : Chunk} {s' s : WS}
    (hcond : relB R cond' cond) (hbody : RelL R body' body) (hes : RelElifs R es' es)
    (hel : RelOptL R el' el) (hc : RelChunk R c' c) (hs : RelWS R s' s) (i : Nat) :
    RelEx (RelCreate R) (createIf cond' body' es' el' c' i s') (createIf cond body es el c i s) := by
  rw [createIf_eq, createIf_eq]
  have h0 := rel_splitChunkForBranch hc hs i
  revert h0
  generalize splitChunkForBranch c' i s' = r0'
  generalize splitChunkForBranch c i s = r0
  intro h0
  obtain ⟨s1', ret'⟩ := r0'
  obtain ⟨s1, ret⟩ := r0
  simp only at h0
  obtain ⟨hs1, rfl⟩ := h0
  simp only [hs1.counter]
  have hs2 : RelWS R
      { s1' with counter := s1.counter + 1,
                 queue := s1'.queue ++ [{ id := s1.counter + 1, returnID := ret', statements := body' }] }
      { s1 with counter := s1.counter + 1,
                queue := s1.queue ++ [{ id := s1.counter + 1, returnID := ret', statements := body }] } := by
    refine hs1.enqueue ?_ _
    exact ⟨rfl, rfl, rfl, hbody, .none⟩
  have h3 := rel_elifFold ret' hes (a' := (_, [])) (a := (_, [])) hs2 rfl
  revert h3
  generalize List.foldl (elifStep ret') (_, []) es' = r3'
  generalize List.foldl (elifStep ret') (_, []) es = r3
  intro h3
  obtain ⟨s3', ids'⟩ := r3'
  obtain ⟨s3, ids⟩ := r3
  obtain ⟨hs3, hids⟩ := h3
  simp only at hs3 hids
  subst hids
  simp only
  cases hel with
  | none =>
    simp only
    exact rel_createIf_tail hcond hes ids' ret' _ ret' hs3
  | some hb =>
    simp only [hs3.counter]
    refine rel_createIf_tail hcond hes ids' _ _ ret' ?_
    refine hs3.enqueue ?_ _
    exact ⟨rfl, rfl, rfl, hb, .none⟩

theorem rel_createWhile {R : Ren} {cond' cond : Option BoolExpr} {body' body : List Stmt} {c' c : Chunk}
    {s' s : WS} (hcond : relOptB R cond' cond) (hbody : RelL R body' body) (hc : RelChunk R c' c)
    (hs : RelWS R s' s) (i : Nat) :
    RelEx (RelCreate R) (createWhile cond' body' c' i s') (createWhile cond body c i s) := by
  unfold createWhile
  have h0 := rel_splitChunkForBranch hc hs i
  revert h0
  generalize splitChunkForBranch c' i s' = r0'
  generalize splitChunkForBranch c i s = r0
  intro h0
  obtain ⟨s1', ret'⟩ := r0'
  obtain ⟨s1, ret⟩ := r0
  simp only at h0
  obtain ⟨hs1, rfl⟩ := h0
  simp only [alloc, hs1.counter]
  have hs2 : RelWS R { s1' with counter := s1.counter + 1 + 1 } { s1 with counter := s1.counter + 1 + 1 } :=
    ⟨rfl, hs1.final, hs1.queue, hs1.brk, hs1.cont⟩
  have hcons : RelChunk R
      { id := s1.counter + 1 + 1, returnID := some (s1.counter + 1), statements := body' }
      { id := s1.counter + 1 + 1, returnID := some (s1.counter + 1), statements := body } :=
    ⟨rfl, rfl, rfl, hbody, .none⟩
  cases cond' with
  | none =>
    cases cond with
    | some _ => exact hcond.elim
    | none =>
      simp only [RelEx]
      exact ⟨⟨rfl, hs1.final, All2.append hs1.queue ⟨hcons, ⟨rfl, rfl, rfl, .nil, .jump _⟩, trivial⟩, hs1.brk,
        hs1.cont⟩, .jump _, rfl⟩
  | some e' =>
    cases cond with
    | none => exact hcond.elim
    | some e =>
      simp only
      have ih2 := rel_splitBool (show relB R e' e from hcond) (s1.counter + 1 + 1) ret' hs2
      revert ih2
      generalize splitBool e' (s1.counter + 1 + 1) ret' _ = y'
      generalize splitBool e (s1.counter + 1 + 1) ret' _ = y
      intro ih2
      cases y' <;> cases y <;> simp only [RelEx] at ih2 ⊢
      · exact ih2
      · rename_i b2' b2
        obtain ⟨s6', m'⟩ := b2'
        obtain ⟨s6, m⟩ := b2
        obtain ⟨hs6, rfl⟩ := ih2
        simp only at hs6
        exact ⟨⟨hs6.counter, hs6.final,
          All2.append hs6.queue ⟨hcons, ⟨rfl, rfl, rfl, .nil, .jump _⟩, trivial⟩, hs6.brk, hs6.cont⟩, .jump _, rfl⟩

theorem rel_createDoWhile {R : Ren} {cond' cond : BoolExpr} {body' body : List Stmt} {c' c : Chunk}
    {s' s : WS} (hcond : relB R cond' cond) (hbody : RelL R body' body) (hc : RelChunk R c' c)
    (hs : RelWS R s' s) (i : Nat) :
    RelEx (RelCreate R) (createDoWhile cond' body' c' i s') (createDoWhile cond body c i s) := by
  unfold createDoWhile
  have h0 := rel_splitChunkForBranch hc hs i
  revert h0
  generalize splitChunkForBranch c' i s' = r0'
  generalize splitChunkForBranch c i s = r0
  intro h0
  obtain ⟨s1', ret'⟩ := r0'
  obtain ⟨s1, ret⟩ := r0
  simp only at h0
  obtain ⟨hs1, rfl⟩ := h0
  simp only [alloc, hs1.counter]
  have hs2 : RelWS R { s1' with counter := s1.counter + 1 + 1 } { s1 with counter := s1.counter + 1 + 1 } :=
    ⟨rfl, hs1.final, hs1.queue, hs1.brk, hs1.cont⟩
  have hcons : RelChunk R
      { id := s1.counter + 1 + 1, returnID := some (s1.counter + 1), statements := body' }
      { id := s1.counter + 1 + 1, returnID := some (s1.counter + 1), statements := body } :=
    ⟨rfl, rfl, rfl, hbody, .none⟩
  have ih2 := rel_splitBool hcond (s1.counter + 1 + 1) ret' hs2
  revert ih2
  generalize splitBool cond' (s1.counter + 1 + 1) ret' _ = y'
  generalize splitBool cond (s1.counter + 1 + 1) ret' _ = y
  intro ih2
  cases y' <;> cases y <;> simp only [RelEx] at ih2 ⊢
  · exact ih2
  · rename_i b2' b2
    obtain ⟨s6', m'⟩ := b2'
    obtain ⟨s6, m⟩ := b2
    obtain ⟨hs6, rfl⟩ := ih2
    simp only at hs6
    exact ⟨⟨hs6.counter, hs6.final,
      All2.append hs6.queue ⟨hcons, ⟨rfl, rfl, rfl, .nil, .jump _⟩, trivial⟩, hs6.brk, hs6.cont⟩, .jump _, rfl⟩

theorem rel_switchBodies {R : Ren} (ret : Option Nat) : ∀ {cs' cs : List SwitchCase}, RelCases R cs' cs →
    ∀ {s' s : WS}, RelWS R s' s → RelWSX R (switchBodies ret cs' s') (switchBodies ret cs s)
  | _, _, .nil, _, _, hs => by
    unfold switchBodies
    exact ⟨hs, rfl⟩
  | _, _, .cons (b' := b') (b := b) (r' := r') (r := r) t d hb hr, s', s, hs => by
    rw [switchBodies, switchBodies, hb.length_eq]
    cases hlen : decide (b.length > 0) with
    | true =>
      simp only [decide_eq_true_eq] at hlen
      simp only [hlen, if_true, alloc, hs.counter]
      have hs2 : RelWS R
          { s' with counter := s.counter + 1,
                    queue := s'.queue ++ [{ id := s.counter + 1, returnID := ret, statements := b' }] }
          { s with counter := s.counter + 1,
                   queue := s.queue ++ [{ id := s.counter + 1, returnID := ret, statements := b }] } := by
        refine hs.enqueue ?_ _
        exact ⟨rfl, rfl, rfl, hb, .none⟩
      have ih := rel_switchBodies ret hr hs2
      revert ih
      generalize switchBodies ret r' _ = x'
      generalize switchBodies ret r _ = x
      intro ih
      obtain ⟨s3', ids'⟩ := x'
      obtain ⟨s3, ids⟩ := x
      obtain ⟨h3, h4⟩ := ih
      simp only at h3 h4
      subst h4
      exact ⟨h3, rfl⟩
    | false =>
      simp only [decide_eq_false_iff_not] at hlen
      simp only [hlen, if_false]
      have ih := rel_switchBodies ret hr hs
      revert ih
      generalize switchBodies ret r' _ = x'
      generalize switchBodies ret r _ = x
      intro ih
      obtain ⟨s3', ids'⟩ := x'
      obtain ⟨s3, ids⟩ := x
      obtain ⟨h3, h4⟩ := ih
      simp only at h3 h4
      subst h4
      exact ⟨h3, rfl⟩

theorem switchDefaultDest_fold {R : Ren} : ∀ {cs' cs : List SwitchCase}, RelCases R cs' cs →
    ∀ (ids : List (Option Nat)) (acc : Option Nat),
    (cs'.zip ids).foldl (fun acc (cb : SwitchCase × Option Nat) =>
      if cb.1.2.1 then (match cb.2 with | some d => some d | none => acc) else acc) acc =
    (cs.zip ids).foldl (fun acc (cb : SwitchCase × Option Nat) =>
      if cb.1.2.1 then (match cb.2 with | some d => some d | none => acc) else acc) acc
  | _, _, .nil, _, _ => rfl
  | _, _, .cons t d hb hr, [], _ => rfl
  | _, _, .cons t d hb hr, x :: ids, acc => by
    simp only [List.zip_cons_cons, List.foldl_cons]
    exact switchDefaultDest_fold hr ids _

theorem switchDefaultDest_rel {R : Ren} {cs' cs : List SwitchCase} (h : RelCases R cs' cs)
    (ids : List (Option Nat)) : switchDefaultDest cs' ids = switchDefaultDest cs ids :=
  switchDefaultDest_fold h ids none

theorem switchBranchCases_rel {R : Ren} : ∀ {cs' cs : List SwitchCase}, RelCases R cs' cs →
    ∀ (ids : List (Option Nat)), switchBranchCases cs' ids = switchBranchCases cs ids
  | _, _, .nil, _ => rfl
  | _, _, .cons t d hb hr, [] => rfl
  | _, _, .cons t d hb hr, x :: ids => by
    have ih := switchBranchCases_rel hr ids
    unfold switchBranchCases at ih ⊢
    simp only [List.zip_cons_cons, List.filterMap_cons, ih]

theorem switchTrailing_rel {R : Ren} : ∀ {cs' cs : List SwitchCase}, RelCases R cs' cs →
    ∀ (ids : List (Option Nat)),
    (switchTrailing cs' ids).map (·.1) = (switchTrailing cs ids).map (·.1)
  | _, _, .nil, _ => rfl
  | _, _, .cons t d hb hr, [] => rfl
  | _, _, .cons t d hb hr, x :: ids => by
    have ih := switchTrailing_rel hr ids
    unfold switchTrailing at ih ⊢
    simp only [List.zip_cons_cons, List.filter_cons]
    cases (!d && x.isNone) with
    | true => simp only [if_true, List.map_cons, ih]
    | false => simpa using ih

theorem switchBranchOf_rel {R : Ren} {cs' cs : List SwitchCase} (h : RelCases R cs' cs) (operand : Tok)
    (ids : List (Option Nat)) (emptyId : Nat) (ret : Option Nat) :
    switchBranchOf operand cs' ids emptyId ret = switchBranchOf operand cs ids emptyId ret ∧
      switchNeedsEmpty cs' ids = switchNeedsEmpty cs ids := by
  have h1 := switchDefaultDest_rel h ids
  have h2 := switchBranchCases_rel h ids
  have h3 := switchTrailing_rel h ids
  have h4 : (switchTrailing cs' ids).length = (switchTrailing cs ids).length := by
    have := congrArg List.length h3
    simpa using this
  have h5 : switchNeedsEmpty cs' ids = switchNeedsEmpty cs ids := by
    unfold switchNeedsEmpty; rw [h1, h4]
  have h6 : (switchTrailing cs' ids).map (fun (sc : SwitchCase) => ({ value := sc.1, dest := emptyId } : SwitchCaseBranch)) =
      (switchTrailing cs ids).map (fun (sc : SwitchCase) => ({ value := sc.1, dest := emptyId } : SwitchCaseBranch)) := by
    have := congrArg (List.map (fun (t : Tok) => ({ value := t, dest := emptyId } : SwitchCaseBranch))) h3
    rw [List.map_map, List.map_map] at this
    exact this
  refine ⟨?_, h5⟩
  unfold switchBranchOf
  simp only [h1, h2, h5, h6]

theorem switchBranchOf_switch (operand : Tok) (cs : List SwitchCase) (ids : List (Option Nat)) (emptyId : Nat)
    (ret : Option Nat) : ∃ bcs d dest, switchBranchOf operand cs ids emptyId ret = .switch_ operand bcs d dest :=
  ⟨_, _, _, rfl⟩

theorem createSwitch_eq (operand : Tok) (cases : List SwitchCase) (c : Chunk) (i : Nat) (s : WS) :
    createSwitch operand cases c i s =
      let r0 := splitChunkForBranch c i s
      let s2 : WS := { r0.1 with counter := r0.1.counter + 1,
                                 queue := r0.1.queue ++ [{ id := r0.1.counter + 1, returnID := r0.2 }] }
      let r3 := switchBodies r0.2 cases s2
      if r3.2.all (·.isNone) then (r3.1, .jump (r0.1.counter + 1), r0.2, r0.1.counter + 1)
      else
        let r4 : WS × Nat :=
          if switchNeedsEmpty cases (propagateBack r3.2) then
            ({ r3.1 with counter := r3.1.counter + 1,
                         queue := r3.1.queue ++ [{ id := r3.1.counter + 1, returnID := r0.2 }] },
             r3.1.counter + 1)
          else (r3.1, 0)
        let br := switchBranchOf operand cases (propagateBack r3.2) r4.2 r0.2
        ({ r4.1 with queue := r4.1.queue.modify r0.1.queue.length fun ch => { ch with branch := br } },
         .jump (r0.1.counter + 1), r0.2, r0.1.counter + 1) := by
  rfl

theorem rel_createSwitch {R : Ren} {cs' cs : List SwitchCase} {c' c : Chunk} {s' s : WS}
    (hcs : RelCases R cs' cs) (hc : RelChunk R c' c) (hs : RelWS R s' s) (operand : Tok) (i : Nat) :
    RelCreate R (createSwitch operand cs' c' i s') (createSwitch operand cs c i s) := by
  rw [createSwitch_eq, createSwitch_eq]
  have h0 := rel_splitChunkForBranch hc hs i
  revert h0
  generalize splitChunkForBranch c' i s' = r0'
  generalize splitChunkForBranch c i s = r0
  intro h0
  obtain ⟨s1', ret'⟩ := r0'
  obtain ⟨s1, ret⟩ := r0
  simp only at h0
  obtain ⟨hs1, rfl⟩ := h0
  simp only [hs1.counter, hs1.queue.length_eq]
  have hs2 : RelWS R
      { s1' with counter := s1.counter + 1, queue := s1'.queue ++ [{ id := s1.counter + 1, returnID := ret' }] }
      { s1 with counter := s1.counter + 1, queue := s1.queue ++ [{ id := s1.counter + 1, returnID := ret' }] } := by
    refine hs1.enqueue ?_ _
    exact ⟨rfl, rfl, rfl, .nil, .none⟩
  have h3 := rel_switchBodies ret' hcs hs2
  revert h3
  generalize switchBodies ret' cs' _ = x'
  generalize switchBodies ret' cs _ = x
  intro h3
  obtain ⟨s3', ids'⟩ := x'
  obtain ⟨s3, ids⟩ := x
  obtain ⟨hs3, hids⟩ := h3
  simp only at hs3 hids
  subst hids
  simp only
  cases hall : ids'.all (·.isNone) with
  | true => simp only [if_true]; exact ⟨hs3, .jump _, rfl⟩
  | false =>
    simp only [Bool.false_eq_true, if_false]
    have hbr := fun e => switchBranchOf_rel hcs operand (propagateBack ids') e ret'
    rw [(hbr 0).2]
    cases hneed : switchNeedsEmpty cs (propagateBack ids') with
    | true =>
      simp only [if_true, hs3.counter, (hbr _).1]
      obtain ⟨bcs, d, dest, hb⟩ := switchBranchOf_switch operand cs (propagateBack ids') (s3.counter + 1) ret'
      refine ⟨⟨rfl, hs3.final, ?_, hs3.brk, hs3.cont⟩, .jump _, rfl⟩
      refine All2.modify ?_ _ (hs3.queue.snoc ⟨rfl, rfl, rfl, .nil, .none⟩)
      intro a b hab
      refine ⟨hab.id, hab.ret, hab.term, hab.stmts, ?_⟩
      simp only [hb]
      exact .switch_ _ _ _ _
    | false =>
      simp only [Bool.false_eq_true, if_false, (hbr _).1]
      obtain ⟨bcs, d, dest, hb⟩ := switchBranchOf_switch operand cs (propagateBack ids') 0 ret'
      refine ⟨⟨hs3.counter, hs3.final, ?_, hs3.brk, hs3.cont⟩, .jump _, rfl⟩
      refine All2.modify ?_ _ hs3.queue
      intro a b hab
      refine ⟨hab.id, hab.ret, hab.term, hab.stmts, ?_⟩
      simp only [hb]
      exact .switch_ _ _ _ _

theorem scanSimple_rel {R : Ren} : ∀ {a' a : List Stmt}, RelL R a' a → ∀ (i len : Nat),
    scanSimple a' i len = scanSimple a i len
  | _, _, .nil, _, _ => rfl
  | _, _, .cons hx hr, i, len => by
    have ih := fun i => scanSimple_rel hr i len
    cases hx with
    | cmd hc => simp only [scanSimple, hc.2.2.1, ih]
    | label => simp only [scanSimple, ih]
    | ite => simp only [scanSimple]
    | while_ => simp only [scanSimple]
    | doWhile => simp only [scanSimple]
    | brk => simp only [scanSimple]
    | cont => simp only [scanSimple]
    | switch_ => simp only [scanSimple]

theorem lookup_rel {β : Type} {P : Nat → Nat → Prop} (hm : Mono P) {k' k : Nat} (hk : P k' k) :
    ∀ {l' l : List (Nat × β)}, All2 (fun p' p => P p'.1 p.1 ∧ p'.2 = p.2) l' l → l'.lookup k' = l.lookup k
  | [], [], _ => rfl
  | (a', v') :: l', (a, v) :: l, h => by
    obtain ⟨⟨h1, h2⟩, h3⟩ := h
    have h1 : P a' a := h1
    have h2 : v' = v := h2
    subst h2
    have ih := lookup_rel hm hk h3
    have hbeq : (k' == a') = (k == a) := by
      by_cases hka : k = a
      · subst hka
        have := hm.injective hk h1
        subst this
        simp
      · have : k' ≠ a' := by
          intro h; subst h
          exact hka (hm.functional hk h1)
        rw [beq_eq_false_iff_ne.mpr this, beq_eq_false_iff_ne.mpr hka]
    simp only [List.lookup, hbeq, ih]
  | [], _ :: _, h => h.elim
  | _ :: _, [], h => h.elim

theorem rel_processChunk {R : Ren} (hm : Mono R.s) {cur' cur : Chunk} {s' s : WS} (hc : RelChunk R cur' cur)
    (hs : RelWS R s' s) : RelEx (RelWS R) (processChunk cur' s') (processChunk cur s) := by
  unfold processChunk
  rw [scanSimple_rel hc.stmts, hc.stmts.length_eq]
  generalize scanSimple cur.statements 0 cur.statements.length = r
  obtain ⟨i, fin⟩ := r
  simp only
  cases fin with
  | some isEnd =>
    simp only [RelEx]
    exact hs.setFinal ⟨hc.id, rfl, rfl, hc.stmts.take i, .none⟩
  | none =>
    simp only
    have hdef : RelWS R
        (s'.setFinal { id := cur'.id, returnID := cur'.returnID, statements := cur'.statements.take i })
        (s.setFinal { id := cur.id, returnID := cur.returnID, statements := cur.statements.take i }) :=
      hs.setFinal ⟨hc.id, hc.ret, rfl, hc.stmts.take i, .none⟩
    cases hi : (i == cur.statements.length) with
    | true => simp only [if_true, RelEx]; exact hs.setFinal hc
    | false =>
      simp only [Bool.false_eq_true, if_false]
      rcases hc.stmts.get? i with ⟨h1, h2⟩ | ⟨x', x, h1, h2, hx⟩
      · rw [h1, h2]; simp only [RelEx]; exact hdef
      · rw [h1, h2]
        cases hx with
        | cmd => simp only [RelEx]; exact hdef
        | label => simp only [RelEx]; exact hdef
        | @ite t c' c b' b es' es el' el hcond hb hes hel =>
          simp only
          have ih := rel_createIf hcond hb hes hel hc hs i
          revert ih
          generalize createIf c' b' es' el' cur' i s' = y'
          generalize createIf c b es el cur i s = y
          intro ih
          cases y' <;> cases y <;> simp only [RelEx] at ih ⊢
          · exact ih
          · rename_i a' a
            obtain ⟨s2', br', ret'⟩ := a'
            obtain ⟨s2, br, ret⟩ := a
            obtain ⟨hs2, hbr, hret⟩ := ih
            simp only at hs2 hbr hret
            subst hret
            exact hs2.setFinal ⟨hc.id, rfl, rfl, hc.stmts.take i, hbr⟩
        | @while_ t sid' sid c' c b' b hsid hcond hb =>
          simp only
          have ih := rel_createWhile hcond hb hc hs i
          revert ih
          generalize createWhile c' b' cur' i s' = y'
          generalize createWhile c b cur i s = y
          intro ih
          cases y' <;> cases y <;> simp only [RelEx] at ih ⊢
          · exact ih
          · rename_i a' a
            obtain ⟨s2', br', ret', cid'⟩ := a'
            obtain ⟨s2, br, ret, cid⟩ := a
            obtain ⟨hs2, hbr, hret⟩ := ih
            simp only [Prod.mk.injEq] at hs2 hbr hret
            obtain ⟨rfl, rfl⟩ := hret
            have hf := hs2.setFinal (⟨hc.id, rfl, rfl, hc.stmts.take i, hbr⟩ :
              RelChunk R ⟨cur'.id, ret', false, cur'.statements.take i, br'⟩
                ⟨cur.id, ret', false, cur.statements.take i, br⟩)
            exact ⟨hf.counter, hf.final, hf.queue, ⟨⟨hsid, rfl⟩, hf.brk⟩, ⟨⟨hsid, rfl⟩, hf.cont⟩⟩
        | @doWhile t sid' sid c' c b' b hsid hcond hb =>
          simp only
          have ih := rel_createDoWhile hcond hb hc hs i
          revert ih
          generalize createDoWhile c' b' cur' i s' = y'
          generalize createDoWhile c b cur i s = y
          intro ih
          cases y' <;> cases y <;> simp only [RelEx] at ih ⊢
          · exact ih
          · rename_i a' a
            obtain ⟨s2', br', ret', cid'⟩ := a'
            obtain ⟨s2, br, ret, cid⟩ := a
            obtain ⟨hs2, hbr, hret⟩ := ih
            simp only [Prod.mk.injEq] at hs2 hbr hret
            obtain ⟨rfl, rfl⟩ := hret
            have hf := hs2.setFinal (⟨hc.id, rfl, rfl, hc.stmts.take i, hbr⟩ :
              RelChunk R ⟨cur'.id, ret', false, cur'.statements.take i, br'⟩
                ⟨cur.id, ret', false, cur.statements.take i, br⟩)
            exact ⟨hf.counter, hf.final, hf.queue, ⟨⟨hsid, rfl⟩, hf.brk⟩, ⟨⟨hsid, rfl⟩, hf.cont⟩⟩
        | @brk t sid' sid hsid =>
          simp only
          rw [lookup_rel hm hsid hs.brk]
          cases s.brk.lookup sid with
          | none => simp only [RelEx]
          | some dest =>
            simp only [RelEx]
            exact (rel_keepStatementsAfterJump hc hs i).setFinal
              ⟨hc.id, hc.ret, rfl, hc.stmts.take i, .breakCtx _⟩
        | @cont t sid' sid hsid =>
          simp only
          rw [lookup_rel hm hsid hs.cont]
          cases s.cont.lookup sid with
          | none => simp only [RelEx]
          | some dest =>
            simp only [RelEx]
            exact (rel_keepStatementsAfterJump hc hs i).setFinal
              ⟨hc.id, hc.ret, rfl, hc.stmts.take i, .breakCtx _⟩
        | @switch_ t sid' sid o cs' cs hsid hcs =>
          simp only
          have ih := rel_createSwitch hcs hc hs o i
          revert ih
          generalize createSwitch o cs' cur' i s' = y'
          generalize createSwitch o cs cur i s = y
          intro ih
          obtain ⟨s2', br', ret', cid'⟩ := y'
          obtain ⟨s2, br, ret, cid⟩ := y
          obtain ⟨hs2, hbr, hret⟩ := ih
          simp only [Prod.mk.injEq] at hs2 hbr hret
          obtain ⟨rfl, rfl⟩ := hret
          simp only [RelEx]
          have hf := hs2.setFinal (⟨hc.id, rfl, rfl, hc.stmts.take i, hbr⟩ :
            RelChunk R ⟨cur'.id, ret', false, cur'.statements.take i, br'⟩
              ⟨cur.id, ret', false, cur.statements.take i, br⟩)
          exact ⟨hf.counter, hf.final, hf.queue, ⟨⟨hsid, rfl⟩, hf.brk⟩, ⟨⟨hsid, rfl⟩, hf.cont⟩⟩

theorem rel_runWorklist {R : Ren} (hm : Mono R.s) : ∀ (n : Nat) {s' s : WS}, RelWS R s' s →
    RelEx (RelWS R) (runWorklist n s') (runWorklist n s)
  | 0, _, _, _ => by simp only [runWorklist, RelEx]
  | n + 1, s', s, hs => by
    rw [runWorklist, runWorklist]
    have hq := hs.queue
    revert hq
    cases hq' : s'.queue with
    | nil =>
      cases hq : s.queue with
      | nil => intro _; simp only [RelEx]; exact hs
      | cons _ _ => intro h; exact h.elim
    | cons cur' rest' =>
      cases hq : s.queue with
      | nil => intro h; exact h.elim
      | cons cur rest =>
        intro h
        simp only
        have ih := rel_processChunk hm h.1 (s' := { s' with queue := rest' }) (s := { s with queue := rest })
          ⟨hs.counter, hs.final, h.2, hs.brk, hs.cont⟩
        revert ih
        generalize processChunk cur' _ = y'
        generalize processChunk cur _ = y
        intro ih
        cases y' <;> cases y <;> simp only [RelEx] at ih ⊢
        · exact ih
        · exact rel_runWorklist hm n ih

theorem condSize_rel {R : Ren} : ∀ {c' c : BoolExpr}, relB R c' c → condSize c' = condSize c
  | .leaf _, .leaf _, _ => rfl
  | .bin l' _ r', .bin l _ r, h => by
    simp only [relB] at h
    simp only [condSize, condSize_rel h.1, condSize_rel h.2.2]
  | .leaf _, .bin .., h => by simp [relB] at h
  | .bin .., .leaf _, h => by simp [relB] at h

mutual
theorem stmtSize_rel {R : Ren} : ∀ {a' a : Stmt}, RelS R a' a → stmtSize a' = stmtSize a
  | _, _, .cmd _ => by simp only [stmtSize]
  | _, _, .label .. => by simp only [stmtSize]
  | _, _, .ite t hc hb hes .none => by
    simp only [stmtSize, condSize_rel hc, stmtsSize_rel hb, elifsSize_rel hes]
  | _, _, .ite t hc hb hes (.some hb2) => by
    simp only [stmtSize, condSize_rel hc, stmtsSize_rel hb, elifsSize_rel hes, stmtsSize_rel hb2]
  | _, _, .while_ (c' := none) (c := none) t hs hc hb => by simp only [stmtSize, stmtsSize_rel hb]
  | _, _, .while_ (c' := some _) (c := some _) t hs hc hb => by
    simp only [stmtSize, stmtsSize_rel hb, condSize_rel (show relB R _ _ from hc)]
  | _, _, .while_ (c' := none) (c := some _) t hs hc hb => hc.elim
  | _, _, .while_ (c' := some _) (c := none) t hs hc hb => hc.elim
  | _, _, .doWhile t hs hc hb => by simp only [stmtSize, condSize_rel hc, stmtsSize_rel hb]
  | _, _, .brk .. => by simp only [stmtSize]
  | _, _, .cont .. => by simp only [stmtSize]
  | _, _, .switch_ t o hs hcs => by simp only [stmtSize, casesSize_rel hcs]
theorem stmtsSize_rel {R : Ren} : ∀ {a' a : List Stmt}, RelL R a' a → stmtsSize a' = stmtsSize a
  | _, _, .nil => rfl
  | _, _, .cons hx hr => by simp only [stmtsSize, stmtSize_rel hx, stmtsSize_rel hr]
theorem elifsSize_rel {R : Ren} : ∀ {a' a : List (BoolExpr × List Stmt)}, RelElifs R a' a →
    elifsSize a' = elifsSize a
  | _, _, .nil => rfl
  | _, _, .cons hc hb hr => by simp only [elifsSize, condSize_rel hc, stmtsSize_rel hb, elifsSize_rel hr]
theorem casesSize_rel {R : Ren} : ∀ {a' a : List SwitchCase}, RelCases R a' a → casesSize a' = casesSize a
  | _, _, .nil => rfl
  | _, _, .cons t d hb hr => by simp only [casesSize, stmtsSize_rel hb, casesSize_rel hr]
end

theorem rel_scriptChunks {R : Ren} (hm : Mono R.s) {body' body : List Stmt} (h : RelL R body' body) :
    RelEx (All2 (RelChunk R)) (scriptChunks body') (scriptChunks body) := by
  unfold scriptChunks
  rw [stmtsSize_rel h]
  have ih := rel_runWorklist hm (2 * stmtsSize body + 4)
    (s' := { queue := [{ id := 0, statements := body' }] }) (s := { queue := [{ id := 0, statements := body }] })
    ⟨rfl, trivial, ⟨⟨rfl, rfl, rfl, h, .none⟩, trivial⟩, trivial, trivial⟩
  revert ih
  generalize runWorklist _ { queue := [{ id := 0, statements := body' }] } = y'
  generalize runWorklist _ { queue := [{ id := 0, statements := body }] } = y
  intro ih
  cases y' <;> cases y <;> simp only [RelEx] at ih ⊢
  · exact ih
  · exact ih.final

/-! ### `PoryModel/EmitRender.lean` -/

theorem mono_beq {P : Nat → Nat → Prop} (hm : Mono P) {a' a b' b : Nat} (h1 : P a' a) (h2 : P b' b) :
    (a' == b') = (a == b) := by
  by_cases hab : a = b
  · subst hab
    have := hm.injective h1 h2
    subst this
    simp
  · have : a' ≠ b' := by
      intro h; subst h
      exact hab (hm.functional h1 h2)
    rw [beq_eq_false_iff_ne.mpr this, beq_eq_false_iff_ne.mpr hab]

/-- corresponding patches: the command ids correspond, argument position and label are equal -/
def relPatch (R : Ren) (p' p : (Nat × Nat) × String) : Prop := R.c p'.1.1 p.1.1 ∧ p'.1.2 = p.1.2 ∧ p'.2 = p.2

theorem patchedArgs_rel {R : Ren} (hm : Mono R.c) {ps' ps : List ((Nat × Nat) × String)}
    (hp : All2 (relPatch R) ps' ps) {c' c : Cmd} (hc : relCmd R c' c) :
    patchedArgs ps' c' = patchedArgs ps c := by
  unfold patchedArgs
  have hF : All2 (relPatch R) (ps'.filter fun p => p.1.1 == c'.id) (ps.filter fun p => p.1.1 == c.id) :=
    All2.filter (fun a b hab => mono_beq hm hab.1 hc.1) hp
  simp only [hF.isEmpty_eq, hc.2.2.2]
  cases (ps.filter fun p => p.1.1 == c.id).isEmpty with
  | true => rfl
  | false =>
    simp only [Bool.false_eq_true, if_false]
    apply List.map_congr_left
    intro i _
    have hG := All2.filter (p := fun p => p.1.2 == i) (q := fun p => p.1.2 == i)
      (fun a b hab => by simp only [hab.2.1]) hF
    rcases hG.getLast? with ⟨h1, h2⟩ | ⟨a, b, h1, h2, hab⟩
    · rw [h1, h2]
    · rw [h1, h2]; exact hab.2.2

theorem renderCommand_rel {R : Ren} (hm : Mono R.c) {ps' ps : List ((Nat × Nat) × String)}
    (hp : All2 (relPatch R) ps' ps) {c' c : Cmd} (hc : relCmd R c' c) :
    renderCommand ps' c' = renderCommand ps c := by
  unfold renderCommand
  rw [patchedArgs_rel hm hp hc, hc.2.2.1]

theorem renderStatements_rel {R : Ren} (hm : Mono R.c) (o : Opts) {ps' ps : List ((Nat × Nat) × String)}
    (hp : All2 (relPatch R) ps' ps) (chunkLabels textLabels : List String) :
    ∀ {a' a : List Stmt}, RelL R a' a →
      renderStatements o ps' chunkLabels textLabels a' = renderStatements o ps chunkLabels textLabels a
  | _, _, .nil => rfl
  | _, _, .cons hx hr => by
    have ih := renderStatements_rel hm o hp chunkLabels textLabels hr
    cases hx with
    | cmd hc => simp only [renderStatements, ih, renderCommand_rel hm hp hc, hc.2.1]
    | label => simp only [renderStatements, ih]
    | ite => simp only [renderStatements]
    | while_ => simp only [renderStatements]
    | doWhile => simp only [renderStatements]
    | brk => simp only [renderStatements]
    | cont => simp only [renderStatements]
    | switch_ => simp only [renderStatements]

theorem findChunk_rel {R : Ren} (id : Nat) : ∀ {cs' cs : List Chunk}, All2 (RelChunk R) cs' cs →
    (findChunk cs' id = none ∧ findChunk cs id = none) ∨
      ∃ c' c, findChunk cs' id = some c' ∧ findChunk cs id = some c ∧ RelChunk R c' c
  | [], [], _ => .inl ⟨rfl, rfl⟩
  | c' :: cs', c :: cs, h => by
    unfold findChunk
    simp only [List.find?_cons, h.1.id]
    cases (c.id == id) with
    | true => exact .inr ⟨c', c, rfl, rfl, h.1⟩
    | false => exact findChunk_rel id h.2
  | [], _ :: _, h => h.elim
  | _ :: _, [], h => h.elim

theorem tailId_rel {R : Ren} {c' c : Chunk} (h : RelChunk R c' c) : tailId c' = tailId c := by
  unfold tailId
  have hb := h.br
  revert hb
  generalize c'.branch = b'
  generalize c.branch = b
  intro hb
  cases hb <;> simp only [h.ret]

theorem optimizeLoop_rel {R : Ren} {cs' cs : List Chunk} (h : All2 (RelChunk R) cs' cs) (total : Nat) :
    ∀ (n : Nat) (order unv : List Nat) (i : Nat),
      optimizeLoop cs' total n order unv i = optimizeLoop cs total n order unv i
  | 0, _, _, _ => by rw [optimizeLoop, optimizeLoop]
  | n + 1, order, unv, i => by
    have hpick : optimizeLoop.pick cs' total n order unv i = optimizeLoop.pick cs total n order unv i := by
      rw [optimizeLoop.pick, optimizeLoop.pick]
      cases scanUnvisited unv total (total + 1) i with
      | mk j i' =>
        cases j with
        | none => rfl
        | some j => simp only [optimizeLoop_rel h total n]
    rw [optimizeLoop, optimizeLoop]
    cases hlt : decide (order.length < total) with
    | false =>
      simp only [decide_eq_false_iff_not] at hlt
      simp only [hlt, if_false]
    | true =>
      simp only [decide_eq_true_eq] at hlt
      simp only [hlt, if_true]
      cases order.getLast? with
      | none => rfl
      | some last =>
        simp only
        rcases findChunk_rel last h with ⟨h1, h2⟩ | ⟨c', c, h1, h2, hc⟩
        · rw [h1, h2]
        · rw [h1, h2]
          simp only [tailId_rel hc, hpick, optimizeLoop_rel h total n]

theorem optimizeChunkOrder_rel {R : Ren} {cs' cs : List Chunk} (h : All2 (RelChunk R) cs' cs) :
    optimizeChunkOrder cs' = optimizeChunkOrder cs := by
  unfold optimizeChunkOrder
  have hids : cs'.map (·.id) = cs.map (·.id) := all2_map_eq' (fun a b hab => hab.id) h
  rw [h.isEmpty_eq, h.length_eq, hids, optimizeLoop_rel h]

theorem renderBranching_rel {R : Ren} (hm : Mono R.c) (o : Opts) {ps' ps : List ((Nat × Nat) × String)}
    (hp : All2 (relPatch R) ps' ps) (scriptName : String) {c' c : Chunk} (h : RelChunk R c' c)
    (next : Option Nat) :
    renderBranching o ps' scriptName c' next = renderBranching o ps scriptName c next := by
  unfold renderBranching
  have hb := h.br
  revert hb
  generalize c'.branch = b'
  generalize c.branch = b
  intro hb
  cases hb with
  | none => simp only [h.ret, h.term]
  | jump d => rfl
  | breakCtx d => rfl
  | switch_ => rfl
  | @leaf t e' e f he =>
    obtain ⟨h1, h2, h3, h4, h5, h6⟩ := he
    have hcmp : renderBranchComparison o scriptName t e' = renderBranchComparison o scriptName t e := by
      unfold renderBranchComparison
      simp only [h1, h2, h3, h4, h5]
    simp only [hcmp]
    revert h6
    cases e'.preamble <;> cases e.preamble <;> intro h6
    · rfl
    · exact h6.elim
    · exact h6.elim
    · simp only [renderCommand_rel hm hp h6]

theorem renderBodies_rel {R : Ren} (hm : Mono R.c) (o : Opts) {ps' ps : List ((Nat × Nat) × String)}
    (hp : All2 (relPatch R) ps' ps) (scriptName : String) {cs' cs : List Chunk}
    (h : All2 (RelChunk R) cs' cs) (chunkLabels textLabels : List String) :
    ∀ (order : List Nat),
      renderBodies o ps' scriptName cs' chunkLabels textLabels order =
        renderBodies o ps scriptName cs chunkLabels textLabels order
  | [] => by rw [renderBodies, renderBodies]
  | id :: rest => by
    rw [renderBodies, renderBodies]
    rcases findChunk_rel id h with ⟨h1, h2⟩ | ⟨c', c, h1, h2, hc⟩
    · rw [h1, h2]
    · rw [h1, h2]
      simp only [renderStatements_rel hm o hp chunkLabels textLabels hc.stmts,
        renderBranching_rel hm o hp scriptName hc, renderBodies_rel hm o hp scriptName h chunkLabels textLabels rest]

theorem renderChunks_rel {R : Ren} (hm : Mono R.c) (o : Opts) {ps' ps : List ((Nat × Nat) × String)}
    (hp : All2 (relPatch R) ps' ps) {cs' cs : List Chunk} (h : All2 (RelChunk R) cs' cs)
    (scriptName : String) (isGlobal : Bool) (textLabels : List String) :
    renderChunks o ps' cs' scriptName isGlobal textLabels = renderChunks o ps cs scriptName isGlobal textLabels := by
  unfold renderChunks
  have hids : cs'.map (·.id) = cs.map (·.id) := all2_map_eq' (fun a b hab => hab.id) h
  have hlabels : (cs'.map fun c => chunkLabel scriptName c.id) = (cs.map fun c => chunkLabel scriptName c.id) :=
    all2_map_eq' (fun a b hab => by simp only [hab.id]) h
  simp only [optimizeChunkOrder_rel h, hids, hlabels, renderBodies_rel hm o hp scriptName h]

/-- **The emitter model does not depend on the numbering of command ids and scope ids**: two scripts with the
same token, name and scope whose bodies are the same statements up to an order-preserving correspondence `R`
of command ids (`R.c`) and of scope ids (`R.s`), emitted with patch lists that correspond under `R.c` (same
length, same argument positions and labels, corresponding command ids), give the same result — the same
lines, or the same error. -/
theorem emit_ids_irrelevant (R : Ren) (hc : Mono R.c) (hs : Mono R.s) (o : Opts)
    {patches' patches : List ((Nat × Nat) × String)} (hp : All2 (relPatch R) patches' patches)
    (textLabels : List String) {s' s : Script} (hname : s'.name = s.name) (hscope : s'.scope = s.scope)
    (hbody : RelL R s'.body s.body) :
    emitScript o patches' textLabels s' = emitScript o patches textLabels s := by
  unfold emitScript
  have h := rel_scriptChunks hs hbody
  revert h
  generalize scriptChunks s'.body = y'
  generalize scriptChunks s.body = y
  intro h
  cases y' <;> cases y <;> simp only [RelEx] at h ⊢
  · rw [h]
  · rw [hname, hscope]
    exact renderChunks_rel hc o hp h _ _ _

/-! ### the patches recorded for implicit texts / movements -/
open Pory.Parser

/-- The same parser state except for the patch list; the patch lists correspond. -/
def RelPS (R : Ren) (s' s : PState) : Prop :=
  ∃ ps, s' = { s with patches := ps } ∧ All2 (relPatch R) ps s.patches

theorem rel_addTextStep {R : Ren} {s' s : PState} (h : RelPS R s' s) {t' t : ImpText} (ht : relText R t' t) :
    RelPS R (addTextStep s' t') (addTextStep s t) := by
  obtain ⟨ps, rfl, hps⟩ := h
  obtain ⟨h1, h2, h3, h4, h5⟩ := ht
  unfold addTextStep
  simp only [h2, h3, h4, h5]
  cases s.inlineTextsSet.lookup (t.text.lit, t.stringType) with
  | some label => exact ⟨_, rfl, hps.snoc ⟨h1, rfl, rfl⟩⟩
  | none => exact ⟨_, rfl, hps.snoc ⟨h1, rfl, rfl⟩⟩

theorem rel_addMovementStep {R : Ren} {s' s : PState} (h : RelPS R s' s) {t' t : ImpMovement}
    (ht : relMove R t' t) : RelPS R (addMovementStep s' t') (addMovementStep s t) := by
  obtain ⟨ps, rfl, hps⟩ := h
  obtain ⟨h1, h2, h3, h4, h5⟩ := ht
  unfold addMovementStep
  simp only [h2, h3, h4, h5]
  cases s.inlineMovementsSet.lookup (getMovementsKey t.movements) with
  | some label => exact ⟨_, rfl, hps.snoc ⟨h1, rfl, rfl⟩⟩
  | none => exact ⟨_, rfl, hps.snoc ⟨h1, rfl, rfl⟩⟩

theorem rel_foldl {α : Type} {P : α → α → Prop} {R : Ren} {step : PState → α → PState}
    (hstep : ∀ {s' s : PState}, RelPS R s' s → ∀ {t' t : α}, P t' t → RelPS R (step s' t') (step s t)) :
    ∀ {l' l : List α}, All2 P l' l → ∀ {s' s : PState}, RelPS R s' s →
      RelPS R (l'.foldl step s') (l.foldl step s)
  | [], [], _, _, _, h => h
  | _ :: _, _ :: _, hl, _, _, h => rel_foldl hstep hl.2 (hstep h hl.1)
  | [], _ :: _, hl, _, _, _ => hl.elim
  | _ :: _, [], hl, _, _, _ => hl.elim

/-- What `addImplicitData` does to the parser state. -/
def addImp (d : ImpData) (s : PState) : PState :=
  d.movements.foldl addMovementStep (d.texts.foldl addTextStep s)

theorem addImplicitData_run (d : ImpData) (s : PState) : (addImplicitData d).run s = .ok ((), addImp d s) := rfl

theorem rel_addImp {R : Ren} {s' s : PState} (h : RelPS R s' s) {m' m : ImpData} (hm : relImp R m' m) :
    RelPS R (addImp m' s') (addImp m s) :=
  rel_foldl (P := relMove R) (step := addMovementStep) (fun h _ _ ht => rel_addMovementStep h ht) hm.2
    (rel_foldl (P := relText R) (step := addTextStep) (fun h _ _ ht => rel_addTextStep h ht) hm.1 h)

end Pory.C12c
