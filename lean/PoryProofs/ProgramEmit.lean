import PoryProofs.EmitIds
import PoryProofs.ProgramLabels
import PoryProofs.Properties.C17
/-
P2 helpers, emitter side.

* `emitScript_frame` : `C12c.emit_ids_irrelevant` with weaker hypotheses — the two patch lists need not
  correspond entry by entry, it is enough that they give the same arguments to corresponding commands
  (`patchedArgs`); the two lists of text labels may differ as long as they agree on the label statements of
  the script (as they sit in its chunk table: `C04c.userLabelsOf`).
* `topBlocks` / `joinFrom` : the output of `emitProgram` as a list of blocks (one per rendered top-level
  statement, then one per text) joined by single blank lines (`emitProgram_blocks`).
-/
namespace Pory.P2
open Pory Pory.Emit Pory.C12c

/-! ### `emitScript` reads patches through `patchedArgs` and text labels through label statements -/

section
variable {R : Ren} (o : Opts) {ps' ps : List ((Nat × Nat) × String)}
  (hpa : ∀ c' c, relCmd R c' c → patchedArgs ps' c' = patchedArgs ps c)
include hpa

theorem renderStatements_fr (cl : List String) {tl' tl : List String} :
    ∀ {a' a : List Stmt}, RelL R a' a → (∀ n ∈ stmtLabels a, tl'.contains n.1 = tl.contains n.1) →
      renderStatements o ps' cl tl' a' = renderStatements o ps cl tl a
  | _, _, .nil, _ => rfl
  | _, _, .cons hx hr, hl => by
    cases hx with
    | cmd hc =>
      have ih := renderStatements_fr cl hr (fun n hn => hl n (by simpa [stmtLabels] using hn))
      simp only [renderStatements, ih, renderCommand, hpa _ _ hc, hc.2.1, hc.2.2.1]
    | label t n g =>
      have ih := renderStatements_fr cl hr (fun x hx => hl x (by simp [stmtLabels, hx]))
      have h0 := hl (n, g) (by simp [stmtLabels])
      simp only at h0
      simp only [renderStatements, ih, h0]
    | ite => simp only [renderStatements]
    | while_ => simp only [renderStatements]
    | doWhile => simp only [renderStatements]
    | brk => simp only [renderStatements]
    | cont => simp only [renderStatements]
    | switch_ => simp only [renderStatements]

theorem renderBranching_fr (scriptName : String) {c' c : Chunk} (h : RelChunk R c' c) (next : Option Nat) :
    renderBranching o ps' scriptName c' next = renderBranching o ps scriptName c next := by
  unfold renderBranching
  have hb := h.br
  revert hb
  generalize c'.branch = b'
  generalize c.branch = b
  intro hb
  cases hb with
  | none => simp only [h.ret, h.term]
  | jump d => rfl
  | breakCtx d => rfl
  | switch_ => rfl
  | @leaf t e' e f he =>
    obtain ⟨h1, h2, h3, h4, h5, h6⟩ := he
    have hcmp : renderBranchComparison o scriptName t e' = renderBranchComparison o scriptName t e := by
      unfold renderBranchComparison
      simp only [h1, h2, h3, h4, h5]
    simp only [hcmp]
    revert h6
    cases e'.preamble <;> cases e.preamble <;> intro h6
    · rfl
    · exact h6.elim
    · exact h6.elim
    · simp only [renderCommand, hpa _ _ h6, h6.2.2.1]

theorem renderBodies_fr (scriptName : String) {cs' cs : List Chunk} (h : All2 (RelChunk R) cs' cs)
    (cl : List String) {tl' tl : List String}
    (hl : ∀ c ∈ cs, ∀ n ∈ stmtLabels c.statements, tl'.contains n.1 = tl.contains n.1) :
    ∀ (order : List Nat),
      renderBodies o ps' scriptName cs' cl tl' order = renderBodies o ps scriptName cs cl tl order
  | [] => by rw [renderBodies, renderBodies]
  | id :: rest => by
    rw [renderBodies, renderBodies]
    rcases findChunk_rel id h with ⟨h1, h2⟩ | ⟨c', c, h1, h2, hc⟩
    · rw [h1, h2]
    · rw [h1, h2]
      have hmem : c ∈ cs := List.mem_of_find?_eq_some h2
      simp only [renderStatements_fr o hpa cl hc.stmts (hl c hmem), renderBranching_fr o hpa scriptName hc,
        renderBodies_fr scriptName h cl hl rest]

theorem renderChunks_fr {cs' cs : List Chunk} (h : All2 (RelChunk R) cs' cs) (scriptName : String)
    (isGlobal : Bool) {tl' tl : List String}
    (hl : ∀ c ∈ cs, ∀ n ∈ stmtLabels c.statements, tl'.contains n.1 = tl.contains n.1) :
    renderChunks o ps' cs' scriptName isGlobal tl' = renderChunks o ps cs scriptName isGlobal tl := by
  unfold renderChunks
  have hids : cs'.map (·.id) = cs.map (·.id) := all2_map_eq' (fun a b hab => hab.id) h
  have hlabels : (cs'.map fun c => chunkLabel scriptName c.id) = (cs.map fun c => chunkLabel scriptName c.id) :=
    all2_map_eq' (fun a b hab => by simp only [hab.id]) h
  simp only [optimizeChunkOrder_rel h, hids, hlabels, renderBodies_fr o hpa scriptName h _ hl]

/-- **`emitScript` under renumbering, other patches and other text labels.** -/
theorem emitScript_frame (hs : Mono R.s) {tl' tl : List String} {s' s : Script} (hname : s'.name = s.name)
    (hscope : s'.scope = s.scope) (hbody : RelL R s'.body s.body)
    (hl : ∀ n ∈ C04c.userLabelsOf s, tl'.contains n = tl.contains n) :
    emitScript o ps' tl' s' = emitScript o ps tl s := by
  unfold emitScript
  have h := rel_scriptChunks hs hbody
  unfold C04c.userLabelsOf at hl
  revert h hl
  generalize scriptChunks s'.body = y'
  generalize scriptChunks s.body = y
  intro h hl
  cases y' <;> cases y <;> simp only [RelEx] at h ⊢
  · rw [h]
  · rw [hname, hscope]
    refine renderChunks_fr o hpa h _ _ ?_
    intro c hc n hn
    exact hl n.1 (List.mem_flatMap.2 ⟨c, hc, List.mem_map.2 ⟨n, hn, rfl⟩⟩)
end

end Pory.P2
