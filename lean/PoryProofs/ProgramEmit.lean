import PoryProofs.EmitIds
import PoryProofs.ProgramLabels
import PoryProofs.Properties.C17
/-
P2 helpers, emitter side.

* `emitScript_frame` : `C12c.emit_ids_irrelevant` with weaker hypotheses — the two patch lists need not
  correspond entry by entry, it is enough that they give the same arguments to corresponding commands
  (`patchedArgs`); the two lists of text labels may differ as long as they agree on the label statements of
  the script (as they sit in its chunk table: `C04c.userLabelsOf`).
* `topBlocks` / `joinFrom` : the output of `emitProgram` as a list of blocks (one per rendered top-level
  statement, then one per text) joined by single blank lines (`emitProgram_blocks`).
-/
namespace Pory.P2
open Pory Pory.Emit Pory.C12c

/-! ### `emitScript` reads patches through `patchedArgs` and text labels through label statements -/

section
variable {R : Ren} (o : Opts) {ps' ps : List ((Nat × Nat) × String)}
  (hpa : ∀ c' c, relCmd R c' c → patchedArgs ps' c' = patchedArgs ps c)
include hpa

theorem renderStatements_fr (cl : List String) {tl' tl : List String} :
    ∀ {a' a : List Stmt}, RelL R a' a → (∀ n ∈ stmtLabels a, tl'.contains n.1 = tl.contains n.1) →
      renderStatements o ps' cl tl' a' = renderStatements o ps cl tl a
  | _, _, .nil, _ => rfl
  | _, _, .cons hx hr, hl => by
    cases hx with
    | cmd hc =>
      have ih := renderStatements_fr cl hr (fun n hn => hl n (by simpa [stmtLabels] using hn))
      simp only [renderStatements, ih, renderCommand, hpa _ _ hc, hc.2.1, hc.2.2.1]
    | label t n g =>
      have ih := renderStatements_fr cl hr (fun x hx => hl x (by simp [stmtLabels, hx]))
      have h0 := hl (n, g) (by simp [stmtLabels])
      simp only at h0
      simp only [renderStatements, ih, h0]
    | ite => simp only [renderStatements]
    | while_ => simp only [renderStatements]
    | doWhile => simp only [renderStatements]
    | brk => simp only [renderStatements]
    | cont => simp only [renderStatements]
    | switch_ => simp only [renderStatements]

theorem renderBranching_fr (scriptName : String) {c' c : Chunk} (h : RelChunk R c' c) (next : Option Nat) :
    renderBranching o ps' scriptName c' next = renderBranching o ps scriptName c next := by
  unfold renderBranching
  have hb := h.br
  revert hb
  generalize c'.branch = b'
  generalize c.branch = b
  intro hb
  cases hb with
  | none => simp only [h.ret, h.term]
  | jump d => rfl
  | breakCtx d => rfl
  | switch_ => rfl
  | @leaf t e' e f he =>
    obtain ⟨h1, h2, h3, h4, h5, h6⟩ := he
    have hcmp : renderBranchComparison o scriptName t e' = renderBranchComparison o scriptName t e := by
      unfold renderBranchComparison
      simp only [h1, h2, h3, h4, h5]
    simp only [hcmp]
    revert h6
    cases e'.preamble <;> cases e.preamble <;> intro h6
    · rfl
    · exact h6.elim
    · exact h6.elim
    · simp only [renderCommand, hpa _ _ h6, h6.2.2.1]

theorem renderBodies_fr (scriptName : String) {cs' cs : List Chunk} (h : All2 (RelChunk R) cs' cs)
    (cl : List String) {tl' tl : List String}
    (hl : ∀ c ∈ cs, ∀ n ∈ stmtLabels c.statements, tl'.contains n.1 = tl.contains n.1) :
    ∀ (order : List Nat),
      renderBodies o ps' scriptName cs' cl tl' order = renderBodies o ps scriptName cs cl tl order
  | [] => by rw [renderBodies, renderBodies]
  | id :: rest => by
    rw [renderBodies, renderBodies]
    rcases findChunk_rel id h with ⟨h1, h2⟩ | ⟨c', c, h1, h2, hc⟩
    · rw [h1, h2]
    · rw [h1, h2]
      have hmem : c ∈ cs := List.mem_of_find?_eq_some h2
      simp only [renderStatements_fr o hpa cl hc.stmts (hl c hmem), renderBranching_fr o hpa scriptName hc,
        renderBodies_fr scriptName h cl hl rest]

theorem renderChunks_fr {cs' cs : List Chunk} (h : All2 (RelChunk R) cs' cs) (scriptName : String)
    (isGlobal : Bool) {tl' tl : List String}
    (hl : ∀ c ∈ cs, ∀ n ∈ stmtLabels c.statements, tl'.contains n.1 = tl.contains n.1) :
    renderChunks o ps' cs' scriptName isGlobal tl' = renderChunks o ps cs scriptName isGlobal tl := by
  unfold renderChunks
  have hids : cs'.map (·.id) = cs.map (·.id) := all2_map_eq' (fun a b hab => hab.id) h
  have hlabels : (cs'.map fun c => chunkLabel scriptName c.id) = (cs.map fun c => chunkLabel scriptName c.id) :=
    all2_map_eq' (fun a b hab => by simp only [hab.id]) h
  simp only [optimizeChunkOrder_rel h, hids, hlabels, renderBodies_fr o hpa scriptName h _ hl]

/-- **`emitScript` under renumbering, other patches and other text labels.** -/
theorem emitScript_frame (hs : Mono R.s) {tl' tl : List String} {s' s : Script} (hname : s'.name = s.name)
    (hscope : s'.scope = s.scope) (hbody : RelL R s'.body s.body)
    (hl : ∀ n ∈ C04c.userLabelsOf s, tl'.contains n = tl.contains n) :
    emitScript o ps' tl' s' = emitScript o ps tl s := by
  unfold emitScript
  have h := rel_scriptChunks hs hbody
  unfold C04c.userLabelsOf at hl
  revert h hl
  generalize scriptChunks s'.body = y'
  generalize scriptChunks s.body = y
  intro hl h
  cases y' <;> cases y <;> simp only [RelEx] at h ⊢
  · rw [h]
  · rw [hname, hscope]
    refine renderChunks_fr o hpa h _ _ ?_
    intro c hc n hn
    exact hl n.1 (List.mem_flatMap.2 ⟨c, hc, List.mem_map.2 ⟨n, hn, rfl⟩⟩)
end

/-! ### the output as blocks -/

/-- The lines of each rendered top-level statement (text statements are rendered in the text section). -/
def topBlocks (o : Opts) (ps : List ((Nat × Nat) × String)) (tl : List String) :
    List Top → Except EFail (List (List Line))
  | [] => .ok []
  | t :: r =>
    match C17.emitTopLines o ps tl t with
    | none => topBlocks o ps tl r
    | some (.error e) => .error e
    | some (.ok ls) =>
      match topBlocks o ps tl r with
      | .error e => .error e
      | .ok bs => .ok (ls :: bs)

/-- Blocks joined by single blank lines; `i` = number of blocks written before. -/
def joinFrom (i : Nat) : List (List Line) → List Line
  | [] => []
  | b :: r => (if i > 0 then [Line.blank] else []) ++ b ++ joinFrom (i + 1) r

theorem joinFrom_append : ∀ (a b : List (List Line)) (i : Nat),
    joinFrom i (a ++ b) = joinFrom i a ++ joinFrom (i + a.length) b
  | [], b, i => by simp [joinFrom]
  | x :: r, b, i => by
    simp only [List.cons_append, joinFrom, joinFrom_append r b (i + 1), List.length_cons, List.append_assoc]
    have : i + 1 + r.length = i + (r.length + 1) := by omega
    rw [this]

theorem textsBlock_join (o : Opts) : ∀ (texts : List Text) (i : Nat),
    C06b.textsBlock o i texts = joinFrom i (texts.map (emitText o))
  | [], _ => rfl
  | t :: r, i => by simp only [C06b.textsBlock, List.map_cons, joinFrom, textsBlock_join o r (i + 1)]

theorem emitTops_blocks (o : Opts) (ps : List ((Nat × Nat) × String)) (tl : List String) :
    ∀ (tops : List Top) (i : Nat),
      emitTops o ps tl tops i =
        match topBlocks o ps tl tops with
        | .error e => .error e
        | .ok bs => .ok (joinFrom i bs, i + bs.length)
  | [], i => by simp [emitTops, topBlocks, joinFrom]
  | t :: r, i => by
    cases h : C17.emitTopLines o ps tl t with
    | none =>
      have : ∃ x, t = .text x := by cases t <;> simp [C17.emitTopLines] at h; exact ⟨_, rfl⟩
      obtain ⟨x, rfl⟩ := this
      rw [C17.emitTops_text, emitTops_blocks o ps tl r i]
      simp only [topBlocks, h]
    | some e =>
      rw [C17.emitTops_cons o ps tl t r i e h, emitTops_blocks o ps tl r (i + 1)]
      simp only [topBlocks, h]
      cases e with
      | error err => rfl
      | ok ls =>
        simp only [C17.combine]
        cases topBlocks o ps tl r with
        | error err => rfl
        | ok bs =>
          simp only [joinFrom, List.length_cons, Except.ok.injEq, Prod.mk.injEq, true_and]
          omega

/-- **`emitProgram` as blocks**: one block per rendered top-level statement, then one per text, joined by
single blank lines. -/
theorem emitProgram_blocks (o : Opts) (p : Program) :
    emitProgram o p =
      match topBlocks o p.patches (p.texts.map (·.name)) p.tops with
      | .error e => .error e
      | .ok bs => .ok (joinFrom 0 (bs ++ p.texts.map (emitText o))) := by
  unfold emitProgram
  simp only [emitTops_blocks, C06b.textsBlock_eq]
  cases topBlocks o p.patches (p.texts.map (·.name)) p.tops with
  | error e => rfl
  | ok bs => simp [joinFrom_append, textsBlock_join]

theorem topBlocks_append (o : Opts) (ps : List ((Nat × Nat) × String)) (tl : List String) :
    ∀ (a b : List Top),
      topBlocks o ps tl (a ++ b) =
        match topBlocks o ps tl a with
        | .error e => .error e
        | .ok x =>
          match topBlocks o ps tl b with
          | .error e => .error e
          | .ok y => .ok (x ++ y)
  | [], b => by
    simp only [List.nil_append, topBlocks]
    cases topBlocks o ps tl b <;> rfl
  | t :: r, b => by
    simp only [List.cons_append, topBlocks, topBlocks_append o ps tl r b]
    cases C17.emitTopLines o ps tl t with
    | none => rfl
    | some e =>
      cases e with
      | error err => rfl
      | ok ls =>
        simp only
        cases topBlocks o ps tl r with
        | error err => rfl
        | ok x =>
          simp only
          cases topBlocks o ps tl b <;> rfl

/-- Statement by statement the same lines ⟹ the same blocks. -/
theorem topBlocks_congr (o : Opts) {ps' ps : List ((Nat × Nat) × String)} {tl' tl : List String} :
    ∀ {tops' tops : List Top},
      All2 (fun t' t => C17.emitTopLines o ps' tl' t' = C17.emitTopLines o ps tl t) tops' tops →
      topBlocks o ps' tl' tops' = topBlocks o ps tl tops
  | [], [], _ => rfl
  | _ :: _, _ :: _, h => by simp only [topBlocks, h.1, topBlocks_congr o h.2]
  | [], _ :: _, h => h.elim
  | _ :: _, [], h => h.elim

theorem topBlocks_movements (o : Opts) (ps : List ((Nat × Nat) × String)) (tl : List String) :
    ∀ (ms : List MovementStmt), topBlocks o ps tl (ms.map Top.movement) = .ok (ms.map (emitMovement o))
  | [] => rfl
  | m :: r => by simp only [List.map_cons, topBlocks, C17.emitTopLines, topBlocks_movements o ps tl r]

/-! ### patches that do not address a command -/

theorem patchedArgs_append_left (X Z : List ((Nat × Nat) × String)) (c : Cmd) (h : ∀ p ∈ X, p.1.1 ≠ c.id) :
    patchedArgs (X ++ Z) c = patchedArgs Z c := by
  have hf : X.filter (fun p => p.1.1 == c.id) = [] :=
    List.filter_eq_nil_iff.2 (fun p hp => by simpa using h p hp)
  unfold patchedArgs
  simp only [List.filter_append, hf, List.nil_append]

theorem patchedArgs_append_right (Z X : List ((Nat × Nat) × String)) (c : Cmd) (h : ∀ p ∈ X, p.1.1 ≠ c.id) :
    patchedArgs (Z ++ X) c = patchedArgs Z c := by
  have hf : X.filter (fun p => p.1.1 == c.id) = [] :=
    List.filter_eq_nil_iff.2 (fun p hp => by simpa using h p hp)
  unfold patchedArgs
  simp only [List.filter_append, hf, List.append_nil]

end Pory.P2
