import PoryProofs.Sim
import PoryProofs.Scoped
/-
Non-vacuity: a concrete chunk table for

    while (<AutoVar test e1>) {            -- scope 1
      switch (VAR) {                       -- scope 2
        case 1:                            -- body-less: shares the body of `case 2`
        case 2: a
        default: b; break                  -- leaves the `while`
        case 3:                            -- trailing body-less case (needs the empty chunk)
      }
    }
    end

with a derivation of `Impl` (hence `R`) for its initial configuration, so that `sim`,
`switch_branch_correct`, `cond_sim` and the C01 corollaries can be instantiated.
-/
namespace Pory.Sem.Example
open Pory Pory.Emit Pory.Sem

def ck : Cmd := { name := "checkitem" }
def ca : Cmd := { name := "a" }
def cb : Cmd := { name := "b" }
def cend : Cmd := { name := "end" }
def e1 : OpExpr := { preamble := some ck }
def tVar : Tok := { lit := "VAR_0" }
def v1 : Tok := { lit := "1" }
def v2 : Tok := { lit := "2" }
def v3 : Tok := { lit := "3" }
def vd : Tok := { lit := "default" }

def cases : List SwitchCase :=
  [(v1, false, []), (v2, false, [.cmd ca]), (vd, true, [.cmd cb, .brk {} 1]), (v3, false, [])]
def bodyIds0 : List (Option Nat) := [none, some 5, some 7, none]

def swStmt : Stmt := .switch_ {} 2 tVar cases
def prog : List Stmt := [.while_ {} 1 (some (.leaf e1)) [swStmt], .cmd cend]

def cx : Ctx where
  brk := fun s => if s = 1 then some 6 else if s = 2 then some 1 else none
  cont := fun s => if s = 1 then some 1 else none

def G : List Chunk :=
  [ { id := 0, returnID := some 6, branch := .jump 1 },
    { id := 1, branch := .jump 2 },
    { id := 2, branch := .leaf 3 e1 (some 6) },
    { id := 3, returnID := some 1, branch := .jump 4 },
    { id := 4, returnID := some 1,
      branch := switchBranchOf tVar cases (propagateBack bodyIds0) 8 (some 1) },
    { id := 5, returnID := some 1, statements := [.cmd ca] },
    { id := 6, useEndTerminator := true },
    { id := 7, returnID := some 1, statements := [.cmd cb], branch := .breakCtx (some 6) },
    { id := 8, returnID := some 1 } ]

def s0 : SCfg := ⟨prog, [], []⟩
def g0 : GCfg := ⟨0, 0, []⟩

theorem needsEmpty : switchNeedsEmpty cases (propagateBack bodyIds0) = true := by decide

theorem impl_empty : Impl G cx 8 0 [] (some 1) :=
  .nil (ch := { id := 8, returnID := some 1 }) rfl rfl rfl rfl rfl

theorem impl_a : Impl G cx 5 0 [.cmd ca] (some 1) :=
  .cmd (ch := { id := 5, returnID := some 1, statements := [.cmd ca] }) rfl rfl
    (.nil (ch := { id := 5, returnID := some 1, statements := [.cmd ca] }) rfl rfl rfl rfl rfl)

theorem impl_b : Impl G cx 7 0 [.cmd cb, .brk {} 1] (some 1) :=
  .cmd (ch := { id := 7, returnID := some 1, statements := [.cmd cb], branch := .breakCtx (some 6) })
    rfl rfl
    (.brk (p := 0)
      (ch := { id := 7, returnID := some 1, statements := [.cmd cb], branch := .breakCtx (some 6) })
      rfl rfl rfl (fun h => absurd rfl h))

theorem impl_end : Impl G cx 6 0 [.cmd cend] none :=
  .endLast (ch := { id := 6, useEndTerminator := true }) rfl rfl rfl rfl (.inl rfl) (by decide)

theorem hnone : ∀ i (hi : i < cases.length), (bodyIds0[i]? = some none ↔ (cases[i]).2.2 = []) := by
  intro i hi
  match i, hi with
  | 0, _ => simp [bodyIds0, cases]
  | 1, _ => simp [bodyIds0, cases]
  | 2, _ => simp [bodyIds0, cases]
  | 3, _ => simp [bodyIds0, cases]
  | n + 4, h => exact absurd h (by simp [cases])

theorem hbody : ∀ i (hi : i < cases.length), ∀ b, bodyIds0[i]? = some (some b) →
    Impl G cx b 0 (cases[i]).2.2 (some 1) := by
  intro i hi b hb
  match i, hi with
  | 0, _ => simp [bodyIds0] at hb
  | 1, _ =>
    have : b = 5 := by simpa [bodyIds0] using hb.symm
    subst this; exact impl_a
  | 2, _ =>
    have : b = 7 := by simpa [bodyIds0] using hb.symm
    subst this; exact impl_b
  | 3, _ => simp [bodyIds0] at hb
  | n + 4, h => exact absurd h (by simp [cases])

theorem impl_switch : Impl G cx 3 0 [swStmt] (some 1) :=
  .switch_ (p := 0) (emptyId := 8) (swId := 4) (bodyIds0 := bodyIds0)
    (ch := { id := 3, returnID := some 1, branch := .jump 4 })
    (sw := { id := 4, returnID := some 1,
             branch := switchBranchOf tVar cases (propagateBack bodyIds0) 8 (some 1) })
    rfl rfl rfl ⟨fun _ => rfl, fun h => absurd rfl h⟩ (fun h => absurd rfl h) rfl rfl
    hnone hbody ⟨(v2, false, [.cmd ca]), by simp [cases], by simp⟩ (by decide)
    (fun _ => impl_empty) rfl rfl rfl

theorem impl_prog : Impl G cx 0 0 prog none :=
  .while_ (p := 6) (hd := 1) (bId := 3) (e0 := 2) (post := some 6)
    (ch := { id := 0, returnID := some 6, branch := .jump 1 })
    rfl rfl rfl ⟨(fun h => by cases h), (fun _ => rfl)⟩ (fun _ => impl_end) rfl rfl
    impl_switch ⟨{ id := 1, branch := .jump 2 }, rfl, rfl, rfl⟩
    ⟨{ id := 2, branch := .leaf 3 e1 (some 6) }, rfl, rfl, rfl⟩

theorem R0 : R G cx s0 g0 := ⟨rfl, none, impl_prog, rfl⟩

theorem wellScoped0 : WellScoped s0 := by
  simp [WellScoped, s0, prog, swStmt, cases, scopedStmts, scopedStmt, scopedCases, scopedK,
    brkScopes, contScopes]

/-- `sim` applies to the initial configuration, for every world. -/
example (w : SWorld) : ∃ rg, Plus w G g0 rg ∧ Match G cx (sstep w s0) rg :=
  sim w G cx R0 (wellScoped_stepScoped wellScoped0)

/-- `cond_sim` on the loop test (an AutoVar leaf). -/
example (w : SWorld) (h : Hist) :
    Star w G (.next ⟨2, 0, h⟩)
      (match evalCond w h (.leaf e1) with
        | (h', true) => .next ⟨3, 0, h'⟩
        | (h', false) => goto (some 6) h') :=
  cond_sim w G ⟨{ id := 2, branch := .leaf 3 e1 (some 6) }, rfl, rfl, rfl⟩

/-- `switch_branch_correct` on the switch chunk. -/
example (w : SWorld) (h : Hist) :
    (switchBody w h tVar cases ≠ [] ∧ ∃ d, gstep w G ⟨4, 0, h⟩ = .next ⟨d, 0, h⟩ ∧
        Impl G cx d 0 (switchBody w h tVar cases) (some 1)) ∨
    (switchBody w h tVar cases = [] ∧ Star w G (gstep w G ⟨4, 0, h⟩) (goto (some 1) h)) :=
  switch_branch_correct w G cx (bodyIds0 := bodyIds0) (emptyId := 8)
    (sw := { id := 4, returnID := some 1,
             branch := switchBranchOf tVar cases (propagateBack bodyIds0) 8 (some 1) })
    rfl hnone hbody (by decide) (fun _ => impl_empty) rfl rfl rfl

/-- A world: the test holds while fewer than three commands have run; the operand equals 1. -/
def wex : SWorld where
  test := fun h _ => h.length < 3
  caseEq := fun _ _ v => v.lit == "1"

/-- Both machines, run directly: `case 1` shares the body of `case 2`; the AutoVar command runs
once per evaluation of the loop test. -/
example : siter wex 5 s0 = .fin .end_ [ck, ca, ck] := rfl
example : giter wex G 12 g0 = .fin .end_ [ck, ca, ck] := rfl

end Pory.Sem.Example
