import PoryProofs.ProgramParseMS
import PoryProofs.ProgramIndep
/-
P2b helpers: the frame lemma of the file elaboration for the extended grammar (files with `mapscripts`
statements) — `P2.elabTops_frame` with one more case.

* `AgreeC`, `body_frame`      : `P2.elabE_frame` on contexts (the inline bodies of one statement thread a context);
* `RelOptScript`, `RelMS`, `RelTE`, `RelTbl`, `RelTopM` : "the same top-level statement up to the id
  correspondence" with a `mapscripts` case (all inline scripts related by `RelL`);
* `rows_frame`, `entries_frame` : the row / entry elaboration from two agreeing contexts;
* `StepUsesM`, `UsesM`, `stepTopM_frame`, `elabTopsM_frame`.
-/
namespace Pory.P2b
open Pory Pory.Parser Pory.C02P Pory.StmtG Pory.TopParse Pory.P2
open Pory.MapScriptsParse (collVal rowName entryName)
open Pory.C12c

/-! ### contexts that agree -/

/-- The alone context `a` and the context `b` inside the bigger file (cf. `P2.Agree`). -/
structure AgreeC (D : Dom) (dc ds : Nat) (a b : Ctx) : Prop where
  consts : ∀ v, D.lit v → b.consts.lookup v = a.consts.lookup v
  ba : a.breakStack = []
  ca : a.continueStack = []
  bb : b.breakStack = []
  cb : b.continueStack = []
  cid : b.nextCmdId = a.nextCmdId + dc
  sid : b.nextSid = a.nextSid + ds

theorem agree_toC {D : Dom} {dc ds : Nat} {a b : PState} (h : Agree D dc ds a b) :
    AgreeC D dc ds (ctxOf a) (ctxOf b) :=
  ⟨h.consts, h.ba, h.ca, h.bb, h.cb, h.cid, h.sid⟩

theorem substC_agreeC {D : Dom} {dc ds : Nat} {a b : Ctx} (h : AgreeC D dc ds a b) {l : List Tok}
    (hl : ∀ tok ∈ l, D.lit tok.lit) : AgreeOn (substC b.consts) (substC a.consts) l := by
  intro tok ht
  unfold substC
  rw [h.consts _ (hl tok ht)]

theorem collVal_agree {D : Dom} {dc ds : Nat} {a b : Ctx} (h : AgreeC D dc ds a b) {l : List Tok}
    (hl : ∀ tok ∈ l, D.lit tok.lit) : collVal b.consts l = collVal a.consts l := by
  unfold collVal constAcc
  have : l.map (fun v => substC b.consts v.lit) = l.map (fun v => substC a.consts v.lit) :=
    List.map_congr_left (fun v hv => substC_agreeC h hl v hv)
  rw [this]

theorem elabE_frameC (env : Env) (sn : String) {D : Dom} {dc ds : Nat} {a b : Ctx} (h : AgreeC D dc ds a b)
    (body : List SStmt) (hl : ∀ tok ∈ printL body, D.lit tok.lit) :
    elabE env sn b body =
      match elabE env sn a body with
      | .error e => .error e
      | .ok (stmts, imp, c') =>
        .ok (mapL (· + dc) (· + ds) stmts, mapImp (· + dc) imp,
             { b with nextSid := c'.nextSid + ds, nextCmdId := c'.nextCmdId + dc }) := by
  unfold elabE
  simp only [h.ba, h.ca, h.bb, h.cb, h.cid, h.sid]
  rw [elabL_congr env sn body (substC_agreeC h hl)]
  have hs := elabL_shift env sn (substC a.consts) ds dc body [] [] true a.nextSid a.nextCmdId
  simp only [List.map_nil] at hs
  rw [hs]
  cases elabL env sn (substC a.consts) [] [] true body a.nextSid a.nextCmdId with
  | error e => rfl
  | ok q => obtain ⟨x, m, s1, c1⟩ := q; rfl

/-- A body elaborated from two agreeing contexts: the same error, or the same statements / implicit data up to
the shift, the resulting contexts agree again. -/
theorem body_frame (env : Env) (sn : String) {D : Dom} {dc ds : Nat} {a b : Ctx} (h : AgreeC D dc ds a b)
    (body : List SStmt) (hl : ∀ tok ∈ printL body, D.lit tok.lit) :
    match elabE env sn a body with
    | .error e => elabE env sn b body = .error e
    | .ok (stmts, imp, a') =>
      ∃ stmts' imp' b', elabE env sn b body = .ok (stmts', imp', b') ∧ AgreeC D dc ds a' b' ∧
        a.nextCmdId ≤ a'.nextCmdId ∧ RelL (Rb dc ds a.nextCmdId a'.nextCmdId) stmts' stmts ∧
        relImp (Rb dc ds a.nextCmdId a'.nextCmdId) imp' imp := by
  rw [elabE_frameC env sn h body hl]
  cases he : elabE env sn a body with
  | error e => rfl
  | ok q =>
    obtain ⟨stmts, imp, a'⟩ := q
    obtain ⟨hle, hr, hi⟩ := elabE_ids env sn a body stmts imp a' he
    obtain ⟨h1, h2, h3⟩ := elabE_stacks he
    refine ⟨_, _, _, rfl, ⟨?_, ?_, ?_, h.bb, h.cb, rfl, rfl⟩, hle, RelL.shift dc ds _ _ hr,
      relImp_shift dc ds _ _ hi⟩
    · rw [h3]; exact h.consts
    · rw [h1]; exact h.ba
    · rw [h2]; exact h.ca

/-! ### "the same statement up to the id correspondence", with `mapscripts` -/

def RelOptScript (R : Ren) : Option Script → Option Script → Prop
  | none, none => True
  | some s', some s => s'.tok = s.tok ∧ s'.name = s.name ∧ s'.scope = s.scope ∧ RelL R s'.body s.body
  | _, _ => False

def RelMS (R : Ren) (m' m : MapScript) : Prop :=
  m'.type = m.type ∧ m'.name = m.name ∧ RelOptScript R m'.script m.script

def RelTE (R : Ren) (e' e : TableEntry) : Prop :=
  e'.condition = e.condition ∧ e'.comparison = e.comparison ∧ e'.name = e.name ∧
    RelOptScript R e'.script e.script

def RelTbl (R : Ren) (t' t : TableMapScript) : Prop :=
  t'.type = t.type ∧ t'.name = t.name ∧ All2 (RelTE R) t'.entries t.entries

inductive RelTopM (R : Ren) : Top → Top → Prop
  | base {t' t : Top} : RelTop R t' t → RelTopM R t' t
  | mapscripts {m' m : MapScripts} : m'.tok = m.tok → m'.name = m.name → m'.scope = m.scope →
      All2 (RelMS R) m'.mapScripts m.mapScripts → All2 (RelTbl R) m'.tables m.tables →
      RelTopM R (.mapscripts m') (.mapscripts m)

theorem RelOptScript.mono {R Q : Ren} (h : R.Sub Q) : ∀ {s' s : Option Script}, RelOptScript R s' s →
    RelOptScript Q s' s
  | none, none, _ => trivial
  | some _, some _, hs => ⟨hs.1, hs.2.1, hs.2.2.1, RelL.mono h hs.2.2.2⟩
  | none, some _, hs => hs.elim
  | some _, none, hs => hs.elim

theorem RelMS.mono {R Q : Ren} (h : R.Sub Q) {m' m : MapScript} (hm : RelMS R m' m) : RelMS Q m' m :=
  ⟨hm.1, hm.2.1, hm.2.2.mono h⟩

theorem RelTE.mono {R Q : Ren} (h : R.Sub Q) {e' e : TableEntry} (he : RelTE R e' e) : RelTE Q e' e :=
  ⟨he.1, he.2.1, he.2.2.1, he.2.2.2.mono h⟩

theorem RelTbl.mono {R Q : Ren} (h : R.Sub Q) {t' t : TableMapScript} (ht : RelTbl R t' t) : RelTbl Q t' t :=
  ⟨ht.1, ht.2.1, All2.imp (fun _ _ he => he.mono h) ht.2.2⟩

theorem RelTopM.mono {R Q : Ren} (h : R.Sub Q) : ∀ {t' t : Top}, RelTopM R t' t → RelTopM Q t' t
  | _, _, .base hb => .base (hb.mono h)
  | _, _, .mapscripts h1 h2 h3 h4 h5 =>
    .mapscripts h1 h2 h3 (All2.imp (fun _ _ hm => hm.mono h) h4) (All2.imp (fun _ _ ht => ht.mono h) h5)

/-! ### rows and entries from two agreeing contexts -/

theorem rows_frame (env : Env) (ms ty : String) {D : Dom} {dc ds : Nat} :
    ∀ (rows : List SRow) (i : Nat) {a b : Ctx}, AgreeC D dc ds a b →
      (∀ tok ∈ printRows rows, D.lit tok.lit) →
      match elabRows env ms ty rows i a with
      | .error e => elabRows env ms ty rows i b = .error e
      | .ok (es, imp, a') =>
        ∃ es' imp' b', elabRows env ms ty rows i b = .ok (es', imp', b') ∧ AgreeC D dc ds a' b' ∧
          a.nextCmdId ≤ a'.nextCmdId ∧ All2 (RelTE (Rb dc ds a.nextCmdId a'.nextCmdId)) es' es ∧
          relImp (Rb dc ds a.nextCmdId a'.nextCmdId) imp' imp
  | [], i, a, b, hA, _ => by
    simp only [elabRows]
    exact ⟨_, _, _, rfl, hA, Nat.le_refl _, trivial, relImp.nil _⟩
  | .plain cs comma vs colon name :: rs, i, a, b, hA, hl => by
    have hcs : collVal b.consts cs = collVal a.consts cs :=
      collVal_agree hA (fun tok ht => hl tok (by simp [printRows, printRow, ht]))
    have hvs : collVal b.consts vs = collVal a.consts vs :=
      collVal_agree hA (fun tok ht => hl tok (by simp [printRows, printRow, ht]))
    have hct : condTok b.consts cs comma = condTok a.consts cs comma := by unfold condTok; rw [hcs]
    have ih := rows_frame env ms ty rs (i + 1) hA (fun tok ht => hl tok (by simp [printRows, ht]))
    simp only [elabRows, hcs, hvs, hct]
    by_cases h1 : collVal a.consts cs = ""
    · simp only [h1, if_true]
    · by_cases h2 : collVal a.consts vs = ""
      · simp only [h1, h2, if_true, if_false]
      · simp only [h1, h2, if_false]
        cases hr : elabRows env ms ty rs (i + 1) a with
        | error e => rw [hr] at ih; simp only [ih]
        | ok q =>
          obtain ⟨es, imp, a'⟩ := q
          rw [hr] at ih
          obtain ⟨es', imp', b', hb, hA', hle, hes, himp⟩ := ih
          simp only [hb]
          exact ⟨_, _, _, rfl, hA', hle, ⟨⟨rfl, rfl, rfl, trivial⟩, hes⟩, himp⟩
  | .inline cs comma vs lb body rb :: rs, i, a, b, hA, hl => by
    have hcs : collVal b.consts cs = collVal a.consts cs :=
      collVal_agree hA (fun tok ht => hl tok (by simp [printRows, printRow, ht]))
    have hvs : collVal b.consts vs = collVal a.consts vs :=
      collVal_agree hA (fun tok ht => hl tok (by simp [printRows, printRow, ht]))
    have hct : condTok b.consts cs comma = condTok a.consts cs comma := by unfold condTok; rw [hcs]
    have hbf := body_frame env (rowName ms ty i) hA body
      (fun tok ht => hl tok (by simp [printRows, printRow, printStmts, ht]))
    simp only [elabRows, hcs, hvs, hct]
    by_cases h1 : collVal a.consts cs = ""
    · simp only [h1, if_true]
    · by_cases h2 : collVal a.consts vs = ""
      · simp only [h1, h2, if_true, if_false]
      · simp only [h1, h2, if_false]
        cases he : elabE env (rowName ms ty i) a body with
        | error e => rw [he] at hbf; simp only [hbf]
        | ok q0 =>
          obtain ⟨stmts, bimp, a1⟩ := q0
          rw [he] at hbf
          obtain ⟨stmts', bimp', b1, hb1, hA1, hle1, hrl, hri⟩ := hbf
          simp only [hb1]
          have ih := rows_frame env ms ty rs (i + 1) hA1 (fun tok ht => hl tok (by simp [printRows, ht]))
          cases hr : elabRows env ms ty rs (i + 1) a1 with
          | error e => rw [hr] at ih; simp only [ih]
          | ok q =>
            obtain ⟨es, imp, a'⟩ := q
            rw [hr] at ih
            obtain ⟨es', imp', b', hb, hA', hle2, hes, himp⟩ := ih
            simp only [hb]
            have s1 : (Rb dc ds a.nextCmdId a1.nextCmdId).Sub (Rb dc ds a.nextCmdId a'.nextCmdId) :=
              Rb_sub (Nat.le_refl _) hle2
            have s2 : (Rb dc ds a1.nextCmdId a'.nextCmdId).Sub (Rb dc ds a.nextCmdId a'.nextCmdId) :=
              Rb_sub hle1 (Nat.le_refl _)
            exact ⟨_, _, _, rfl, hA', Nat.le_trans hle1 hle2,
              ⟨⟨rfl, rfl, rfl, ⟨rfl, rfl, rfl, RelL.mono s1 hrl⟩⟩, All2.imp (fun _ _ h => h.mono s2) hes⟩,
              relImp.add (hri.mono s1) (himp.mono s2)⟩

theorem entries_frame (env : Env) (ms : String) {D : Dom} {dc ds : Nat} :
    ∀ (es : List SEntry) {a b : Ctx}, AgreeC D dc ds a b →
      (∀ tok ∈ printEntries es, D.lit tok.lit) →
      match elabEntries env ms es a with
      | .error e => elabEntries env ms es b = .error e
      | .ok (mss, tbs, imp, a') =>
        ∃ mss' tbs' imp' b', elabEntries env ms es b = .ok (mss', tbs', imp', b') ∧ AgreeC D dc ds a' b' ∧
          a.nextCmdId ≤ a'.nextCmdId ∧ All2 (RelMS (Rb dc ds a.nextCmdId a'.nextCmdId)) mss' mss ∧
          All2 (RelTbl (Rb dc ds a.nextCmdId a'.nextCmdId)) tbs' tbs ∧
          relImp (Rb dc ds a.nextCmdId a'.nextCmdId) imp' imp
  | [], a, b, hA, _ => by
    simp only [elabEntries]
    exact ⟨_, _, _, _, rfl, hA, Nat.le_refl _, trivial, trivial, relImp.nil _⟩
  | .plain ty colon name :: es, a, b, hA, hl => by
    have ih := entries_frame env ms es hA (fun tok ht => hl tok (by simp [printEntries, ht]))
    simp only [elabEntries]
    cases hr : elabEntries env ms es a with
    | error e => rw [hr] at ih; simp only [ih]
    | ok q =>
      obtain ⟨mss, tbs, imp, a'⟩ := q
      rw [hr] at ih
      obtain ⟨mss', tbs', imp', b', hb, hA', hle, hms, htb, himp⟩ := ih
      simp only [hb]
      exact ⟨_, _, _, _, rfl, hA', hle, ⟨⟨rfl, rfl, trivial⟩, hms⟩, htb, himp⟩
  | .inline ty lb body rb :: es, a, b, hA, hl => by
    have hbf := body_frame env (entryName ms ty.lit) hA body
      (fun tok ht => hl tok (by simp [printEntries, printEntry, printStmts, ht]))
    simp only [elabEntries]
    cases he : elabE env (entryName ms ty.lit) a body with
    | error e => rw [he] at hbf; simp only [hbf]
    | ok q0 =>
      obtain ⟨stmts, bimp, a1⟩ := q0
      rw [he] at hbf
      obtain ⟨stmts', bimp', b1, hb1, hA1, hle1, hrl, hri⟩ := hbf
      simp only [hb1]
      have ih := entries_frame env ms es hA1 (fun tok ht => hl tok (by simp [printEntries, ht]))
      cases hr : elabEntries env ms es a1 with
      | error e => rw [hr] at ih; simp only [ih]
      | ok q =>
        obtain ⟨mss, tbs, imp, a'⟩ := q
        rw [hr] at ih
        obtain ⟨mss', tbs', imp', b', hb, hA', hle2, hms, htb, himp⟩ := ih
        simp only [hb]
        have s1 : (Rb dc ds a.nextCmdId a1.nextCmdId).Sub (Rb dc ds a.nextCmdId a'.nextCmdId) :=
          Rb_sub (Nat.le_refl _) hle2
        have s2 : (Rb dc ds a1.nextCmdId a'.nextCmdId).Sub (Rb dc ds a.nextCmdId a'.nextCmdId) :=
          Rb_sub hle1 (Nat.le_refl _)
        exact ⟨_, _, _, _, rfl, hA', Nat.le_trans hle1 hle2,
          ⟨⟨rfl, rfl, ⟨rfl, rfl, rfl, RelL.mono s1 hrl⟩⟩, All2.imp (fun _ _ h => h.mono s2) hms⟩,
          All2.imp (fun _ _ h => h.mono s2) htb, relImp.add (hri.mono s1) (himp.mono s2)⟩
  | .table ty lbr rows rbr :: es, a, b, hA, hl => by
    have hrf := rows_frame env ms ty.lit rows 0 hA
      (fun tok ht => hl tok (by simp [printEntries, printEntry, ht]))
    simp only [elabEntries]
    cases he : elabRows env ms ty.lit rows 0 a with
    | error e => rw [he] at hrf; simp only [hrf]
    | ok q0 =>
      obtain ⟨entries, rimp, a1⟩ := q0
      rw [he] at hrf
      obtain ⟨entries', rimp', b1, hb1, hA1, hle1, hre, hri⟩ := hrf
      simp only [hb1]
      have ih := entries_frame env ms es hA1 (fun tok ht => hl tok (by simp [printEntries, ht]))
      cases hr : elabEntries env ms es a1 with
      | error e => rw [hr] at ih; simp only [ih]
      | ok q =>
        obtain ⟨mss, tbs, imp, a'⟩ := q
        rw [hr] at ih
        obtain ⟨mss', tbs', imp', b', hb, hA', hle2, hms, htb, himp⟩ := ih
        simp only [hb]
        have s1 : (Rb dc ds a.nextCmdId a1.nextCmdId).Sub (Rb dc ds a.nextCmdId a'.nextCmdId) :=
          Rb_sub (Nat.le_refl _) hle2
        have s2 : (Rb dc ds a1.nextCmdId a'.nextCmdId).Sub (Rb dc ds a.nextCmdId a'.nextCmdId) :=
          Rb_sub hle1 (Nat.le_refl _)
        exact ⟨_, _, _, _, rfl, hA', Nat.le_trans hle1 hle2, All2.imp (fun _ _ h => h.mono s2) hms,
          ⟨⟨rfl, rfl, All2.imp (fun _ _ h => h.mono s1) hre⟩, All2.imp (fun _ _ h => h.mono s2) htb⟩,
          relImp.add (hri.mono s1) (himp.mono s2)⟩

/-! ### the frame lemma for one statement and for a file -/

/-- The literals of the tokens of `t` and the implicit data of its scripts stay inside the domain. -/
def StepUsesM (env : Env) (D : Dom) (t : STopM) (s : PState) : Prop :=
  match t with
  | .base t => StepUses env D t s
  | .mapscripts kw md name lb es rb =>
      (∀ tok ∈ printTopM (.mapscripts kw md name lb es rb), D.lit tok.lit) ∧
      match elabEntries env name.lit es (ctxOf s) with
      | .ok (_, _, imp, _) => ImpUses D imp
      | .error _ => True

def UsesM (env : Env) (D : Dom) : List STopM → PState → Prop
  | [], _ => True
  | t :: r, s =>
      StepUsesM env D t s ∧
        match stepTopM env t s with
        | .ok (_, s1) => UsesM env D r s1
        | .error _ => True

theorem stepTopM_frame (env : Env) (D : Dom) (dc ds : Nat) (t : STopM) {a b : PState} (hA : Agree D dc ds a b)
    (hU : StepUsesM env D t a) :
    match stepTopM env t a with
    | .error e => stepTopM env t b = .error e
    | .ok (o, a1) =>
      ∃ o' b1, stepTopM env t b = .ok (o', b1) ∧ Agree D dc ds a1 b1 ∧ a.nextCmdId ≤ a1.nextCmdId ∧
        All2 (RelTopM (Rb dc ds a.nextCmdId a1.nextCmdId)) (optTop o') (optTop o) ∧
        Delta (Rb dc ds a.nextCmdId a1.nextCmdId) a b a1 b1 := by
  cases t with
  | base t =>
    have h := stepTop_frame env D dc ds t hA hU
    simp only [stepTopM]
    cases hs : stepTop env t a with
    | error e => rw [hs] at h; exact h
    | ok q =>
      obtain ⟨o, a1⟩ := q
      rw [hs] at h
      obtain ⟨o', b1, h1, h2, h3, h4, h5⟩ := h
      exact ⟨o', b1, h1, h2, h3, All2.imp (fun _ _ hr => .base hr) h4, h5⟩
  | mapscripts kw md name lb es rb =>
    obtain ⟨hlit, hU⟩ := hU
    have hef := entries_frame env name.lit es (agree_toC hA)
      (fun tok ht => hlit tok (by simp [printTopM, ht]))
    simp only [stepTopM]
    cases he : elabEntries env name.lit es (ctxOf a) with
    | error e => rw [he] at hef; simp only [hef]
    | ok q =>
      obtain ⟨mss, tbs, imp, a'⟩ := q
      rw [he] at hef hU
      simp only at hU
      obtain ⟨mss', tbs', imp', b', hb, hA', hle, hms, htb, himp⟩ := hef
      have hlo : (ctxOf a).nextCmdId = a.nextCmdId := rfl
      rw [hlo] at hle hms htb himp
      have hH0 : Hoist D { a with nextSid := a'.nextSid, nextCmdId := a'.nextCmdId }
          { b with nextSid := b'.nextSid, nextCmdId := b'.nextCmdId } :=
        ⟨hA.hoist.ts, hA.hoist.tc, hA.hoist.ms, hA.hoist.mc⟩
      obtain ⟨hH1, hD1⟩ := addImp_frame (R := Rb dc ds a.nextCmdId a'.nextCmdId) hH0 himp hU
      have hhi : (afterScript a imp a').nextCmdId = a'.nextCmdId := by
        unfold afterScript; rw [addImp_nextCmdId]
      simp only [hb]
      refine ⟨_, _, rfl, ?_, ?_, ?_, ?_⟩
      · unfold afterScript
        exact ⟨by rw [addImp_constants, addImp_constants]; exact hA.consts,
          by rw [addImp_breakStack]; exact hA.ba, by rw [addImp_continueStack]; exact hA.ca,
          by rw [addImp_breakStack]; exact hA.bb, by rw [addImp_continueStack]; exact hA.cb,
          by rw [addImp_nextCmdId, addImp_nextCmdId]; exact hA'.cid,
          by rw [addImp_nextSid, addImp_nextSid]; exact hA'.sid, hH1⟩
      · rw [hhi]; exact hle
      · rw [hhi]
        exact ⟨.mapscripts rfl rfl rfl hms htb, trivial⟩
      · rw [hhi]
        obtain ⟨d1, d2, d3, d4⟩ := hD1
        exact ⟨d1, d2, d3, d4⟩

/-- **The frame lemma of the file elaboration**, extended grammar. -/
theorem elabTopsM_frame (env : Env) (D : Dom) (dc ds : Nat) : ∀ (ts : List STopM) {a b : PState},
    Agree D dc ds a b → UsesM env D ts a →
    match elabTopsM env ts a with
    | .error e => elabTopsM env ts b = .error e
    | .ok (topsA, a1) =>
      ∃ topsB b1, elabTopsM env ts b = .ok (topsB, b1) ∧ Agree D dc ds a1 b1 ∧ a.nextCmdId ≤ a1.nextCmdId ∧
        All2 (RelTopM (Rb dc ds a.nextCmdId a1.nextCmdId)) topsB topsA ∧
        Delta (Rb dc ds a.nextCmdId a1.nextCmdId) a b a1 b1
  | [], a, b, hA, _ => ⟨[], b, rfl, hA, Nat.le_refl _, trivial, Delta.refl _ _ _⟩
  | t :: r, a, b, hA, hU => by
    have hs := stepTopM_frame env D dc ds t hA hU.1
    have hU2 := hU.2
    simp only [elabTopsM]
    cases h1 : stepTopM env t a with
    | error e =>
      rw [h1] at hs
      simp only [hs]
    | ok q =>
      obtain ⟨o, a1⟩ := q
      rw [h1] at hs hU2
      obtain ⟨o', b1, hb, hA1, hle1, hr1, hd1⟩ := hs
      have ih := elabTopsM_frame env D dc ds r hA1 hU2
      simp only [hb]
      cases h2 : elabTopsM env r a1 with
      | error e =>
        rw [h2] at ih
        simp only [ih]
      | ok q2 =>
        obtain ⟨topsA, a2⟩ := q2
        rw [h2] at ih
        obtain ⟨topsB, b2, hb2, hA2, hle2, hr2, hd2⟩ := ih
        simp only [hb2]
        have s1 : (Rb dc ds a.nextCmdId a1.nextCmdId).Sub (Rb dc ds a.nextCmdId a2.nextCmdId) :=
          Rb_sub (Nat.le_refl _) hle2
        have s2 : (Rb dc ds a1.nextCmdId a2.nextCmdId).Sub (Rb dc ds a.nextCmdId a2.nextCmdId) :=
          Rb_sub hle1 (Nat.le_refl _)
        exact ⟨_, _, rfl, hA2, Nat.le_trans hle1 hle2,
          All2.append (All2.imp (fun _ _ h => h.mono s1) hr1) (All2.imp (fun _ _ h => h.mono s2) hr2),
          (hd1.mono s1).trans (hd2.mono s2)⟩

end Pory.P2b
