import PoryProofs.StmtParseMS
import PoryProofs.CommandCensus
/-
Source census (helper module of PoryProofs/Properties/C10e.lean).

* `surfS` / `surfL` / … : the command forms the author wrote in a surface script body (`P1c.SStmt`), in source
  order at any depth, each with the command id the parser hands out to it; a statement `poryswitch` contributes
  the commands of its SELECTED case only (but every case consumes command ids); AutoVar condition leaves and
  `switch ( cmd )` operands contribute their command.  The functions thread the command-id counter.
* `elabS_cmds` … : if the reference elaboration succeeds, `blockCmds .all` of the result is the surface list,
  each entry `(c, cid)` read as `c.node σ cid`; the counter agrees; and `argsErrM env c.argList = none` for every
  entry (so `c.elabC env sn σ cid = .ok (c.node σ cid, c.imp env sn cid)`).
-/
namespace Pory.C10e
open Pory Pory.Parser Pory.P1c Pory.BoolGen Pory.C10d Pory.CmdGen Pory.LeafGen
open Pory.C14b (swVal)

/-- A written command together with the command id it gets. -/
abbrev SCmd := CmdM × Nat

/-! ### the written commands -/

def leafI : CLeaf → Nat → List SCmd × Nat
  | .auto _ c, id => ([(c, id)], id + 1)
  | .autoV c _ _, id => ([(c, id)], id + 1)
  | _, id => ([], id)

mutual
def orI : GOr CLeaf → Nat → List SCmd × Nat
  | .one a, id => andI a id
  | .more a _ r, id => ((andI a id).1 ++ (orI r (andI a id).2).1, (orI r (andI a id).2).2)
def andI : GAnd CLeaf → Nat → List SCmd × Nat
  | .one u, id => unI u id
  | .more u _ r, id => ((unI u id).1 ++ (andI r (unI u id).2).1, (andI r (unI u id).2).2)
def unI : GUn CLeaf → Nat → List SCmd × Nat
  | .leaf lf, id => leafI lf id
  | .paren _ _ _ _ e, id => orI e id
end

mutual
def surfS (env : Env) : SStmt → Nat → List SCmd × Nat
  | .cmd c, cid => ([(c, cid)], cid + 1)
  | .label .., cid => ([], cid)
  | .labelS .., cid => ([], cid)
  | .ite _ _ c _ _ body _ elifs els, cid =>
      let r0 := orI c cid
      let r1 := surfL env body r0.2
      let r2 := surfElifs env elifs r1.2
      let r3 := surfElse env els r2.2
      (r0.1 ++ (r1.1 ++ (r2.1 ++ r3.1)), r3.2)
  | .while_ _ _ c _ _ body _, cid =>
      let r0 := orI c cid
      let r1 := surfL env body r0.2
      (r0.1 ++ r1.1, r1.2)
  | .whileInf _ _ body _, cid => surfL env body cid
  | .doWhile _ _ body _ _ _ c _, cid =>
      let r1 := surfL env body cid
      let r0 := orI c r1.2
      (r1.1 ++ r0.1, r0.2)
  | .brk _, cid => ([], cid)
  | .cont _, cid => ([], cid)
  | .switch_ _ _ _ _ _ _ _ _ cases _, cid => surfCases env cases cid
  | .switchA _ _ c _ _ cases _, cid =>
      let r1 := surfCases env cases (cid + 1)
      ((c, cid) :: r1.1, r1.2)
  | .pory _ _ x _ _ cases _, cid =>
      let r := surfPCases env cases [] cid
      ((selectCase env r.1 (swVal env x.lit)).getD [], r.2)
def surfL (env : Env) : List SStmt → Nat → List SCmd × Nat
  | [], cid => ([], cid)
  | x :: r, cid =>
      let a := surfS env x cid
      let b := surfL env r a.2
      (a.1 ++ b.1, b.2)
def surfElifs (env : Env) : List SElif → Nat → List SCmd × Nat
  | [], cid => ([], cid)
  | .mk _ _ c _ _ body _ :: r, cid =>
      let r0 := orI c cid
      let r1 := surfL env body r0.2
      let r2 := surfElifs env r r1.2
      (r0.1 ++ (r1.1 ++ r2.1), r2.2)
def surfElse (env : Env) : SElse → Nat → List SCmd × Nat
  | .none, cid => ([], cid)
  | .some _ _ body _, cid => surfL env body cid
def surfCases (env : Env) : List SCase → Nat → List SCmd × Nat
  | [], cid => ([], cid)
  | .case _ _ _ body :: r, cid =>
      let a := surfL env body cid
      let b := surfCases env r a.2
      (a.1 ++ b.1, b.2)
  | .dflt _ _ body :: r, cid =>
      let a := surfL env body cid
      let b := surfCases env r a.2
      (a.1 ++ b.1, b.2)
/-- the case table of a statement poryswitch (newest first), as the parser builds it -/
def surfPCases (env : Env) : List SPCase → List (String × List SCmd) → Nat → List (String × List SCmd) × Nat
  | [], acc, cid => (acc, cid)
  | .colon key _ x :: r, acc, cid =>
      let a := surfS env x cid
      surfPCases env r ((key.lit, a.1) :: acc) a.2
  | .colon0 key _ :: r, acc, cid => surfPCases env r ((key.lit, []) :: acc) cid
  | .brace key _ body _ :: r, acc, cid =>
      let a := surfL env body cid
      surfPCases env r ((key.lit, a.1) :: acc) a.2
end

/-! ### the invariant -/

/-- the command node of a written command -/
def nd (σ : String → String) (p : SCmd) : Cmd := p.1.node σ p.2

/-- `cmds` are the nodes of the written commands `L`, and every written command elaborates. -/
def Corr (env : Env) (σ : String → String) (cmds : List Cmd) (L : List SCmd) : Prop :=
  cmds = L.map (nd σ) ∧ ∀ p ∈ L, argsErrM env p.1.argList = none

section
variable {env : Env} {σ : String → String}

theorem Corr.nil : Corr env σ [] [] := ⟨rfl, fun _ h => absurd h List.not_mem_nil⟩

theorem Corr.append {a b : List Cmd} {A B : List SCmd} (h1 : Corr env σ a A) (h2 : Corr env σ b B) :
    Corr env σ (a ++ b) (A ++ B) := by
  refine ⟨by rw [h1.1, h2.1, List.map_append], ?_⟩
  intro p hp
  rcases List.mem_append.1 hp with h | h
  · exact h1.2 p h
  · exact h2.2 p h

theorem Corr.single {sn : String} {c : CmdM} {cid : Nat} {cmd : Cmd} {m : ImpData}
    (h : c.elabC env sn σ cid = .ok (cmd, m)) : Corr env σ [cmd] [(c, cid)] := by
  refine ⟨by rw [elabC_ok h]; rfl, ?_⟩
  intro p hp
  rw [List.mem_singleton.1 hp]
  unfold CmdM.elabC at h
  split at h
  · cases h
  · assumption

theorem Corr.cons {sn : String} {c : CmdM} {cid : Nat} {cmd : Cmd} {m : ImpData} {a : List Cmd} {A : List SCmd}
    (h : c.elabC env sn σ cid = .ok (cmd, m)) (h2 : Corr env σ a A) : Corr env σ (cmd :: a) ((c, cid) :: A) :=
  Corr.append (Corr.single h) h2

end

/-! ### `blockCmds .all` is compositional -/

theorem stmtCmds_all_last (l : Bool) (s : Stmt) : stmtCmds .all l s = stmtCmds .all true s := by
  cases s with
  | cmd c => rw [stmtCmds_cmd, stmtCmds_cmd]; rfl
  | label t n g => rw [stmtCmds_label, stmtCmds_label]
  | ite t c b es e => rw [stmtCmds_ite, stmtCmds_ite]
  | while_ t sid c b => rw [stmtCmds_while, stmtCmds_while]
  | doWhile t sid c b => rw [stmtCmds_doWhile, stmtCmds_doWhile]
  | brk t sid => rw [stmtCmds_brk, stmtCmds_brk]
  | cont t sid => rw [stmtCmds_cont, stmtCmds_cont]
  | switch_ t sid o cs => rw [stmtCmds_switch, stmtCmds_switch]

theorem blockAll_cons (s : Stmt) (r : List Stmt) :
    blockCmds .all (s :: r) = stmtCmds .all true s ++ blockCmds .all r := by
  rw [blockCmds_cons, stmtCmds_all_last]

theorem blockAll_append (a b : List Stmt) : blockCmds .all (a ++ b) = blockCmds .all a ++ blockCmds .all b := by
  induction a with
  | nil => rw [blockCmds_nil]; rfl
  | cons s r ih => rw [List.cons_append, blockAll_cons, blockAll_cons, ih, List.append_assoc]

theorem blockAll_single (s : Stmt) : blockCmds .all [s] = stmtCmds .all true s := by
  rw [blockAll_cons, blockCmds_nil, List.append_nil]

/-! ### conditions -/

theorem negLeaf_preamble (neg : Bool) (e : OpExpr) : (C02P.negLeaf neg e).preamble = e.preamble := by
  unfold C02P.negLeaf; split <;> rfl

theorem applyVal_preamble (σ : String → String) (e : OpExpr) (t : TT) (v : CmpVal) :
    (applyVal σ e t v).preamble = e.preamble := by
  cases v <;> rfl

theorem kleaf_preamble (σ : String → String) (l : KLeaf) : (l.tree σ).preamble = none := by
  obtain ⟨nt, kw, lp, o, ops, rp, post⟩ := l
  cases nt with
  | some x => rfl
  | none =>
    cases post with
    | none => simp only [KLeaf.tree]; split <;> rfl
    | flag a b => rfl
    | var a v => simp only [KLeaf.tree]; rw [applyVal_preamble]

theorem leaf_cmds {env : Env} {sn : String} {σ : String → String} {id : Nat} {lf : CLeaf} {t : OpExpr}
    {m : ImpData} {j : Nat} (h : CLeaf.res env sn σ id lf = .ok (t, m, j)) :
    Corr env σ t.preamble.toList (leafI lf id).1 ∧ j = (leafI lf id).2 := by
  cases lf with
  | plain l =>
    simp only [CLeaf.res] at h
    cases h
    refine ⟨?_, rfl⟩
    have : (C02P.leafT σ l).preamble = none := by cases l <;> rfl
    rw [this]; exact Corr.nil
  | kw l =>
    simp only [CLeaf.res] at h
    cases h
    refine ⟨?_, rfl⟩
    rw [kleaf_preamble]; exact Corr.nil
  | auto fm c =>
    simp only [CLeaf.res] at h
    split at h
    · cases h
    · split at h
      · cases h
      · rename_i cmd imp hc
        split at h
        · cases h
        · cases h
          exact ⟨Corr.single hc, rfl⟩
  | autoV c opTok v =>
    simp only [CLeaf.res] at h
    split at h
    · cases h
    · split at h
      · cases h
      · rename_i cmd imp hc
        split at h
        · cases h
        · cases h
          refine ⟨?_, rfl⟩
          rw [applyVal_preamble]
          exact Corr.single hc

theorem condCmds_bin (l : BoolExpr) (op : TT) (r : BoolExpr) : condCmds (.bin l op r) = condCmds l ++ condCmds r := rfl

section
variable (env : Env) (sn : String) (σ : String → String)

mutual
theorem or_cmds : (c : GOr CLeaf) → ∀ (neg : Bool) (id : Nat) (t : BoolExpr) (m : ImpData) (j : Nat),
    elabOr (CLeaf.res env sn) σ neg c id = .ok (t, m, j) →
    Corr env σ (condCmds t) (orI c id).1 ∧ j = (orI c id).2
  | .one a, neg, id, t, m, j, h => by
    simp only [elabOr] at h
    simpa only [orI] using and_cmds a neg id t m j h
  | .more a _ r, neg, id, t, m, j, h => by
    simp only [elabOr] at h
    split at h
    · cases h
    · rename_i ta ma j1 h1
      split at h
      · cases h
      · rename_i tr mr j2 h2
        simp only [Except.ok.injEq, Prod.mk.injEq] at h
        obtain ⟨ht, _, hj⟩ := h
        subst ht
        obtain ⟨c1, e1⟩ := and_cmds a neg id ta ma j1 h1
        subst e1
        obtain ⟨c2, e2⟩ := or_cmds r neg _ tr mr j2 h2
        simp only [orI]
        exact ⟨by rw [condCmds_bin]; exact c1.append c2, hj ▸ e2⟩
theorem and_cmds : (c : GAnd CLeaf) → ∀ (neg : Bool) (id : Nat) (t : BoolExpr) (m : ImpData) (j : Nat),
    elabAnd (CLeaf.res env sn) σ neg c id = .ok (t, m, j) →
    Corr env σ (condCmds t) (andI c id).1 ∧ j = (andI c id).2
  | .one u, neg, id, t, m, j, h => by
    simp only [elabAnd] at h
    simpa only [andI] using un_cmds u neg id t m j h
  | .more u _ r, neg, id, t, m, j, h => by
    simp only [elabAnd] at h
    split at h
    · cases h
    · rename_i t1 m1 j1 h1
      split at h
      · cases h
      · rename_i t2 m2 j2 h2
        simp only [Except.ok.injEq, Prod.mk.injEq] at h
        obtain ⟨ht, _, hj⟩ := h
        subst ht
        obtain ⟨c1, e1⟩ := un_cmds u neg id t1 m1 j1 h1
        subst e1
        obtain ⟨X, eX, c2, e2⟩ := acc_cmds r neg t1 _ t2 m2 j2 h2
        simp only [andI]
        exact ⟨by rw [eX]; exact c1.append c2, hj ▸ e2⟩
theorem acc_cmds : (c : GAnd CLeaf) → ∀ (neg : Bool) (left : BoolExpr) (id : Nat) (t : BoolExpr) (m : ImpData)
    (j : Nat), elabAcc (CLeaf.res env sn) σ neg left c id = .ok (t, m, j) →
    ∃ X, condCmds t = condCmds left ++ X ∧ Corr env σ X (andI c id).1 ∧ j = (andI c id).2
  | .one u, neg, left, id, t, m, j, h => by
    simp only [elabAcc] at h
    split at h
    · cases h
    · rename_i t1 m1 j1 h1
      simp only [Except.ok.injEq, Prod.mk.injEq] at h
      obtain ⟨ht, _, hj⟩ := h
      subst ht
      obtain ⟨c1, e1⟩ := un_cmds u neg id t1 m1 j1 h1
      simp only [andI]
      exact ⟨_, condCmds_bin _ _ _, c1, hj ▸ e1⟩
  | .more u _ r, neg, left, id, t, m, j, h => by
    simp only [elabAcc] at h
    split at h
    · cases h
    · rename_i t1 m1 j1 h1
      split at h
      · cases h
      · rename_i t2 m2 j2 h2
        simp only [Except.ok.injEq, Prod.mk.injEq] at h
        obtain ⟨ht, _, hj⟩ := h
        subst ht
        obtain ⟨c1, e1⟩ := un_cmds u neg id t1 m1 j1 h1
        subst e1
        obtain ⟨X, eX, c2, e2⟩ := acc_cmds r neg _ _ t2 m2 j2 h2
        simp only [andI]
        refine ⟨condCmds t1 ++ X, ?_, c1.append c2, hj ▸ e2⟩
        rw [eX, condCmds_bin, List.append_assoc]
theorem un_cmds : (c : GUn CLeaf) → ∀ (neg : Bool) (id : Nat) (t : BoolExpr) (m : ImpData) (j : Nat),
    elabUn (CLeaf.res env sn) σ neg c id = .ok (t, m, j) →
    Corr env σ (condCmds t) (unI c id).1 ∧ j = (unI c id).2
  | .leaf lf, neg, id, t, m, j, h => by
    simp only [elabUn] at h
    split at h
    · cases h
    · rename_i t1 m1 j1 h1
      simp only [Except.ok.injEq, Prod.mk.injEq] at h
      obtain ⟨ht, _, hj⟩ := h
      subst ht
      have := leaf_cmds h1
      simp only [unI]
      refine ⟨?_, hj ▸ this.2⟩
      show Corr env σ (C02P.negLeaf neg t1).preamble.toList _
      rw [negLeaf_preamble]; exact this.1
  | .paren n _ _ _ e, neg, id, t, m, j, h => by
    simp only [elabUn] at h
    simpa only [unI] using or_cmds e (neg != n) id t m j h
end

theorem cond_cmds {c : SCond} {cid : Nat} {t : BoolExpr} {m : ImpData} {j : Nat}
    (h : elabCond env sn σ c cid = .ok (t, m, j)) :
    Corr env σ (condCmds t) (orI c cid).1 ∧ j = (orI c cid).2 :=
  or_cmds env sn σ c false cid t m j h

end

/-! ### poryswitch tables -/

/-- the table of elaborated cases and the table of written cases run in parallel -/
inductive TCorr (env : Env) (σ : String → String) :
    List (String × List Stmt × ImpData) → List (String × List SCmd) → Prop
  | nil : TCorr env σ [] []
  | cons (k : String) {a : List Stmt} (m : ImpData) {L : List SCmd} {T : List (String × List Stmt × ImpData)}
      {T' : List (String × List SCmd)} (hc : Corr env σ (blockCmds .all a) L) (ht : TCorr env σ T T') :
      TCorr env σ ((k, a, m) :: T) ((k, L) :: T')

theorem lookup_corr {env : Env} {σ : String → String} {T : List (String × List Stmt × ImpData)}
    {T' : List (String × List SCmd)} (h : TCorr env σ T T') (k : String) :
    (T.lookup k = none → T'.lookup k = none) ∧
    (∀ r, T.lookup k = some r → ∃ r', T'.lookup k = some r' ∧ Corr env σ (blockCmds .all r.1) r') := by
  induction h with
  | nil => exact ⟨fun _ => rfl, fun r hr => by cases hr⟩
  | cons k1 m hc _ ih =>
    simp only [List.lookup_cons]
    cases hkk : (k == k1) with
    | true => exact ⟨fun h => (by cases h), fun r hr => (by cases hr; exact ⟨_, rfl, hc⟩)⟩
    | false => exact ih

theorem select_corr {env : Env} {σ : String → String} {T : List (String × List Stmt × ImpData)}
    {T' : List (String × List SCmd)} (h : TCorr env σ T T') (v : String) :
    (selectCase env T v = none → selectCase env T' v = none) ∧
    (∀ r, selectCase env T v = some r → ∃ r', selectCase env T' v = some r' ∧ Corr env σ (blockCmds .all r.1) r') := by
  unfold selectCase
  have h1 := lookup_corr h v
  have h2 := lookup_corr h "_"
  cases hv : T.lookup v with
  | some x =>
    obtain ⟨r', hr', hc⟩ := h1.2 x hv
    rw [hr']
    exact ⟨fun h => (by cases h), fun r hr => (by cases hr; exact ⟨r', rfl, hc⟩)⟩
  | none =>
    rw [h1.1 hv]
    exact h2

section
variable (env : Env) (sn : String) (σ : String → String)

/-! ### statements -/

mutual
theorem elabS_cmds : (x : SStmt) → ∀ (B C : List Nat) (nx : Bool) (sid cid : Nat) (a : List Stmt) (m : ImpData)
    (sid' cid' : Nat), elabS env sn σ B C nx x sid cid = .ok (a, m, sid', cid') →
    Corr env σ (blockCmds .all a) (surfS env x cid).1 ∧ cid' = (surfS env x cid).2
  | .cmd c, B, C, nx, sid, cid, a, m, sid', cid', h => by
    simp only [elabS] at h
    split at h
    · cases h
    · rename_i cmd m1 hc
      simp only [Except.ok.injEq, Prod.mk.injEq] at h
      obtain ⟨ha, _, _, hcid⟩ := h
      subst ha
      simp only [surfS]
      refine ⟨?_, hcid.symm⟩
      rw [blockAll_single, stmtCmds_cmd]
      exact Corr.single hc
  | .label name _, B, C, nx, sid, cid, a, m, sid', cid', h => by
    simp only [elabS, Except.ok.injEq, Prod.mk.injEq] at h
    obtain ⟨ha, _, _, hcid⟩ := h
    subst ha
    simp only [surfS]
    refine ⟨?_, hcid.symm⟩
    rw [blockAll_single, stmtCmds_label]
    exact Corr.nil
  | .labelS name _ sc _ _, B, C, nx, sid, cid, a, m, sid', cid', h => by
    simp only [elabS, Except.ok.injEq, Prod.mk.injEq] at h
    obtain ⟨ha, _, _, hcid⟩ := h
    subst ha
    simp only [surfS]
    refine ⟨?_, hcid.symm⟩
    rw [blockAll_single, stmtCmds_label]
    exact Corr.nil
  | .ite ifTok _ c _ _ body _ elifs els, B, C, nx, sid, cid, a, m, sid', cid', h => by
    simp only [elabS] at h
    split at h
    · cases h
    · rename_i t mc cid0 h0
      split at h
      · cases h
      · rename_i b m1 sid1 cid1 h1
        split at h
        · cases h
        · rename_i es m2 sid2 cid2 h2
          split at h
          · cases h
          · rename_i el m3 sid3 cid3 h3
            simp only [Except.ok.injEq, Prod.mk.injEq] at h
            obtain ⟨ha, _, _, hcid⟩ := h
            subst ha
            obtain ⟨c0, e0⟩ := cond_cmds env sn σ h0
            subst e0
            obtain ⟨c1, e1⟩ := elabL_cmds body B C true sid _ b m1 sid1 cid1 h1
            subst e1
            obtain ⟨c2, e2⟩ := elabElifs_cmds elifs B C sid1 _ es m2 sid2 cid2 h2
            subst e2
            obtain ⟨c3, e3⟩ := elabElse_cmds els B C sid2 _ el m3 sid3 cid3 h3
            simp only [surfS]
            refine ⟨?_, hcid ▸ e3⟩
            rw [blockAll_single, stmtCmds_ite, List.append_assoc, List.append_assoc]
            exact c0.append (c1.append (c2.append c3))
  | .while_ w _ c _ _ body _, B, C, nx, sid, cid, a, m, sid', cid', h => by
    simp only [elabS] at h
    split at h
    · cases h
    · rename_i t mc cid0 h0
      split at h
      · cases h
      · rename_i b m1 sid1 cid1 h1
        simp only [Except.ok.injEq, Prod.mk.injEq] at h
        obtain ⟨ha, _, _, hcid⟩ := h
        subst ha
        obtain ⟨c0, e0⟩ := cond_cmds env sn σ h0
        subst e0
        obtain ⟨c1, e1⟩ := elabL_cmds body _ _ true _ _ b m1 sid1 cid1 h1
        simp only [surfS]
        refine ⟨?_, hcid ▸ e1⟩
        rw [blockAll_single, stmtCmds_while]
        exact c0.append c1
  | .whileInf w _ body _, B, C, nx, sid, cid, a, m, sid', cid', h => by
    simp only [elabS] at h
    split at h
    · cases h
    · rename_i b m1 sid1 cid1 h1
      simp only [Except.ok.injEq, Prod.mk.injEq] at h
      obtain ⟨ha, _, _, hcid⟩ := h
      subst ha
      obtain ⟨c1, e1⟩ := elabL_cmds body _ _ true _ _ b m1 sid1 cid1 h1
      simp only [surfS]
      refine ⟨?_, hcid ▸ e1⟩
      rw [blockAll_single, stmtCmds_while]
      exact Corr.nil.append c1
  | .doWhile d _ body _ _ _ c _, B, C, nx, sid, cid, a, m, sid', cid', h => by
    simp only [elabS] at h
    split at h
    · cases h
    · rename_i b m1 sid1 cid1 h1
      split at h
      · cases h
      · rename_i t mc cid2 h0
        simp only [Except.ok.injEq, Prod.mk.injEq] at h
        obtain ⟨ha, _, _, hcid⟩ := h
        subst ha
        obtain ⟨c1, e1⟩ := elabL_cmds body _ _ true _ _ b m1 sid1 cid1 h1
        subst e1
        obtain ⟨c0, e0⟩ := cond_cmds env sn σ h0
        simp only [surfS]
        refine ⟨?_, hcid ▸ e0⟩
        rw [blockAll_single, stmtCmds_doWhile]
        exact c1.append c0
  | .brk t, B, C, nx, sid, cid, a, m, sid', cid', h => by
    simp only [elabS] at h
    split at h
    · cases h
    · simp only [Except.ok.injEq, Prod.mk.injEq] at h
      obtain ⟨ha, _, _, hcid⟩ := h
      subst ha
      simp only [surfS]
      refine ⟨?_, hcid.symm⟩
      rw [blockAll_single, stmtCmds_brk]
      exact Corr.nil
  | .cont t, B, C, nx, sid, cid, a, m, sid', cid', h => by
    simp only [elabS] at h
    split at h
    · cases h
    · split at h
      · simp only [Except.ok.injEq, Prod.mk.injEq] at h
        obtain ⟨ha, _, _, hcid⟩ := h
        subst ha
        simp only [surfS]
        refine ⟨?_, hcid.symm⟩
        rw [blockAll_single, stmtCmds_cont]
        exact Corr.nil
      · cases h
  | .switch_ sw _ _ _ ops rp2 _ _ cases rb, B, C, nx, sid, cid, a, m, sid', cid', h => by
    simp only [elabS] at h
    split at h
    · cases h
    · rename_i cs m1 sid1 cid1 h1
      split at h
      · cases h
      · simp only [Except.ok.injEq, Prod.mk.injEq] at h
        obtain ⟨ha, _, _, hcid⟩ := h
        subst ha
        obtain ⟨c1, e1⟩ := elabCases_cmds cases _ _ [] false _ _ cs m1 sid1 cid1 h1
        simp only [surfS]
        refine ⟨?_, hcid ▸ e1⟩
        rw [blockAll_single, stmtCmds_switch]
        exact c1
  | .switchA sw _ c _ _ cases rb, B, C, nx, sid, cid, a, m, sid', cid', h => by
    simp only [elabS] at h
    split at h
    · cases h
    · split at h
      · cases h
      · rename_i cmd mc hc
        split at h
        · cases h
        · split at h
          · cases h
          · rename_i cs m1 sid1 cid1 h1
            split at h
            · cases h
            · simp only [Except.ok.injEq, Prod.mk.injEq] at h
              obtain ⟨ha, _, _, hcid⟩ := h
              subst ha
              obtain ⟨c1, e1⟩ := elabCases_cmds cases _ _ [] false _ _ cs m1 sid1 cid1 h1
              simp only [surfS]
              refine ⟨?_, hcid ▸ e1⟩
              rw [blockAll_cons, blockAll_single, stmtCmds_cmd, stmtCmds_switch]
              exact Corr.cons hc c1
  | .pory ps _ x _ _ cases _, B, C, nx, sid, cid, a, m, sid', cid', h => by
    simp only [elabS] at h
    split at h
    · cases h
    · split at h
      · cases h
      · split at h
        · cases h
        · rename_i table sid1 cid1 hp
          obtain ⟨ht, e1⟩ := elabPCases_cmds cases B C [] [] sid cid table sid1 cid1 TCorr.nil hp
          simp only [surfS]
          split at h
          · rename_i r hsel
            simp only [Except.ok.injEq, Prod.mk.injEq] at h
            obtain ⟨ha, _, _, hcid⟩ := h
            subst ha
            obtain ⟨r', hr', hc⟩ := (select_corr ht _).2 r hsel
            simp only [hr', Option.getD_some]
            exact ⟨hc, hcid ▸ e1⟩
          · rename_i hsel
            split at h
            · cases h
            · simp only [Except.ok.injEq, Prod.mk.injEq] at h
              obtain ⟨ha, _, _, hcid⟩ := h
              subst ha
              simp only [(select_corr ht _).1 hsel, Option.getD_none]
              exact ⟨by rw [blockCmds_nil]; exact Corr.nil, hcid ▸ e1⟩
theorem elabL_cmds : (b : List SStmt) → ∀ (B C : List Nat) (last : Bool) (sid cid : Nat) (a : List Stmt)
    (m : ImpData) (sid' cid' : Nat), elabL env sn σ B C last b sid cid = .ok (a, m, sid', cid') →
    Corr env σ (blockCmds .all a) (surfL env b cid).1 ∧ cid' = (surfL env b cid).2
  | [], B, C, last, sid, cid, a, m, sid', cid', h => by
    simp only [elabL, Except.ok.injEq, Prod.mk.injEq] at h
    obtain ⟨ha, _, _, hcid⟩ := h
    subst ha
    simp only [surfL]
    exact ⟨by rw [blockCmds_nil]; exact Corr.nil, hcid.symm⟩
  | x :: r, B, C, last, sid, cid, a, m, sid', cid', h => by
    simp only [elabL] at h
    split at h
    · cases h
    · rename_i a1 m1 sid1 cid1 h1
      split at h
      · cases h
      · rename_i a2 m2 sid2 cid2 h2
        simp only [Except.ok.injEq, Prod.mk.injEq] at h
        obtain ⟨ha, _, _, hcid⟩ := h
        subst ha
        obtain ⟨c1, e1⟩ := elabS_cmds x B C _ sid cid a1 m1 sid1 cid1 h1
        subst e1
        obtain ⟨c2, e2⟩ := elabL_cmds r B C last sid1 _ a2 m2 sid2 cid2 h2
        simp only [surfL]
        refine ⟨?_, hcid ▸ e2⟩
        rw [blockAll_append]
        exact c1.append c2
theorem elabElifs_cmds : (es : List SElif) → ∀ (B C : List Nat) (sid cid : Nat)
    (a : List (BoolExpr × List Stmt)) (m : ImpData) (sid' cid' : Nat),
    elabElifs env sn σ B C es sid cid = .ok (a, m, sid', cid') →
    Corr env σ (elifsCmds .all a) (surfElifs env es cid).1 ∧ cid' = (surfElifs env es cid).2
  | [], B, C, sid, cid, a, m, sid', cid', h => by
    simp only [elabElifs, Except.ok.injEq, Prod.mk.injEq] at h
    obtain ⟨ha, _, _, hcid⟩ := h
    subst ha
    simp only [surfElifs]
    exact ⟨by rw [elifsCmds_nil]; exact Corr.nil, hcid.symm⟩
  | .mk _ _ c _ _ body _ :: r, B, C, sid, cid, a, m, sid', cid', h => by
    simp only [elabElifs] at h
    split at h
    · cases h
    · rename_i t mc cid0 h0
      split at h
      · cases h
      · rename_i b m1 sid1 cid1 h1
        split at h
        · cases h
        · rename_i es m2 sid2 cid2 h2
          simp only [Except.ok.injEq, Prod.mk.injEq] at h
          obtain ⟨ha, _, _, hcid⟩ := h
          subst ha
          obtain ⟨c0, e0⟩ := cond_cmds env sn σ h0
          subst e0
          obtain ⟨c1, e1⟩ := elabL_cmds body B C true sid _ b m1 sid1 cid1 h1
          subst e1
          obtain ⟨c2, e2⟩ := elabElifs_cmds r B C sid1 _ es m2 sid2 cid2 h2
          simp only [surfElifs]
          refine ⟨?_, hcid ▸ e2⟩
          rw [elifsCmds_cons, List.append_assoc]
          exact c0.append (c1.append c2)
theorem elabElse_cmds : (e : SElse) → ∀ (B C : List Nat) (sid cid : Nat) (a : Option (List Stmt)) (m : ImpData)
    (sid' cid' : Nat), elabElse env sn σ B C e sid cid = .ok (a, m, sid', cid') →
    Corr env σ (match a with | some l => blockCmds .all l | none => []) (surfElse env e cid).1 ∧
      cid' = (surfElse env e cid).2
  | .none, B, C, sid, cid, a, m, sid', cid', h => by
    simp only [elabElse, Except.ok.injEq, Prod.mk.injEq] at h
    obtain ⟨ha, _, _, hcid⟩ := h
    subst ha
    simp only [surfElse]
    exact ⟨Corr.nil, hcid.symm⟩
  | .some _ _ body _, B, C, sid, cid, a, m, sid', cid', h => by
    simp only [elabElse] at h
    split at h
    · cases h
    · rename_i b m1 sid1 cid1 h1
      simp only [Except.ok.injEq, Prod.mk.injEq] at h
      obtain ⟨ha, _, _, hcid⟩ := h
      subst ha
      obtain ⟨c1, e1⟩ := elabL_cmds body B C true sid cid b m1 sid1 cid1 h1
      simp only [surfElse]
      exact ⟨c1, hcid ▸ e1⟩
theorem elabCases_cmds : (cs : List SCase) → ∀ (B C : List Nat) (seen : List String) (hd : Bool) (sid cid : Nat)
    (a : List SwitchCase) (m : ImpData) (sid' cid' : Nat),
    elabCases env sn σ B C cs seen hd sid cid = .ok (a, m, sid', cid') →
    Corr env σ (casesCmds .all a) (surfCases env cs cid).1 ∧ cid' = (surfCases env cs cid).2
  | [], B, C, seen, hd, sid, cid, a, m, sid', cid', h => by
    simp only [elabCases, Except.ok.injEq, Prod.mk.injEq] at h
    obtain ⟨ha, _, _, hcid⟩ := h
    subst ha
    simp only [surfCases]
    exact ⟨by rw [casesCmds_nil]; exact Corr.nil, hcid.symm⟩
  | .case c vs colon body :: r, B, C, seen, hd, sid, cid, a, m, sid', cid', h => by
    simp only [elabCases] at h
    split at h
    · cases h
    · split at h
      · cases h
      · rename_i b m1 sid1 cid1 h1
        split at h
        · cases h
        · rename_i cs m2 sid2 cid2 h2
          simp only [Except.ok.injEq, Prod.mk.injEq] at h
          obtain ⟨ha, _, _, hcid⟩ := h
          subst ha
          obtain ⟨c1, e1⟩ := elabL_cmds body B C _ sid cid b m1 sid1 cid1 h1
          subst e1
          obtain ⟨c2, e2⟩ := elabCases_cmds r B C _ _ sid1 _ cs m2 sid2 cid2 h2
          simp only [surfCases]
          refine ⟨?_, hcid ▸ e2⟩
          rw [casesCmds_cons]
          exact c1.append c2
  | .dflt d _ body :: r, B, C, seen, hd, sid, cid, a, m, sid', cid', h => by
    simp only [elabCases] at h
    split at h
    · cases h
    · split at h
      · cases h
      · rename_i b m1 sid1 cid1 h1
        split at h
        · cases h
        · rename_i cs m2 sid2 cid2 h2
          simp only [Except.ok.injEq, Prod.mk.injEq] at h
          obtain ⟨ha, _, _, hcid⟩ := h
          subst ha
          obtain ⟨c1, e1⟩ := elabL_cmds body B C _ sid cid b m1 sid1 cid1 h1
          subst e1
          obtain ⟨c2, e2⟩ := elabCases_cmds r B C _ _ sid1 _ cs m2 sid2 cid2 h2
          simp only [surfCases]
          refine ⟨?_, hcid ▸ e2⟩
          rw [casesCmds_cons]
          exact c1.append c2
theorem elabPCases_cmds : (cs : List SPCase) → ∀ (B C : List Nat) (acc : List (String × List Stmt × ImpData))
    (acc' : List (String × List SCmd)) (sid cid : Nat) (T : List (String × List Stmt × ImpData))
    (sid' cid' : Nat), TCorr env σ acc acc' → elabPCases env sn σ B C cs acc sid cid = .ok (T, sid', cid') →
    TCorr env σ T (surfPCases env cs acc' cid).1 ∧ cid' = (surfPCases env cs acc' cid).2
  | [], B, C, acc, acc', sid, cid, T, sid', cid', hacc, h => by
    simp only [elabPCases, Except.ok.injEq, Prod.mk.injEq] at h
    obtain ⟨ha, _, hcid⟩ := h
    subst ha
    simp only [surfPCases]
    exact ⟨hacc, hcid.symm⟩
  | .colon key _ x :: r, B, C, acc, acc', sid, cid, T, sid', cid', hacc, h => by
    simp only [elabPCases] at h
    split at h
    · cases h
    · rename_i a1 m1 sid1 cid1 h1
      obtain ⟨c1, e1⟩ := elabS_cmds x B C _ sid cid a1 m1 sid1 cid1 h1
      subst e1
      simp only [surfPCases]
      exact elabPCases_cmds r B C _ _ sid1 _ T sid' cid' (TCorr.cons _ _ c1 hacc) h
  | .colon0 key _ :: r, B, C, acc, acc', sid, cid, T, sid', cid', hacc, h => by
    simp only [elabPCases] at h
    simp only [surfPCases]
    exact elabPCases_cmds r B C _ _ sid cid T sid' cid'
      (TCorr.cons _ {} (by rw [blockCmds_nil]; exact Corr.nil) hacc) h
  | .brace key _ body _ :: r, B, C, acc, acc', sid, cid, T, sid', cid', hacc, h => by
    simp only [elabPCases] at h
    split at h
    · cases h
    · rename_i a1 m1 sid1 cid1 h1
      obtain ⟨c1, e1⟩ := elabL_cmds body B C true sid cid a1 m1 sid1 cid1 h1
      subst e1
      simp only [surfPCases]
      exact elabPCases_cmds r B C _ _ sid1 _ T sid' cid' (TCorr.cons _ _ c1 hacc) h
end

end

end Pory.C10e
