import PoryProofs.ListSwitch
import PoryProofs.ParserWp
/-
Helpers for the top-level statement theorems (C15b scopes, C12b text poryswitch, C13b constants):
run-lemmas for `parseScopeModifier`, the optional modifier `Mod` of the reference syntax,
`parseTextValue` on string-literal bodies, `List.mapM tryReplaceWithConstant`.

Run-lemmas of the parser monad (`st`, `run_cur`, `substC`, …) come from
`PoryProofs/BoolParseLeaf.lean` (namespace `Pory.C02P`).
-/
namespace Pory.TopParse
open Pory Pory.Parser Pory.C02P

@[simp] theorem run_modify (f : PState → PState) (s : PState) :
    (modify f : PM PUnit).run s = .ok (⟨⟩, f s) := id rfl
@[simp] theorem run_get (s : PState) : (get : PM PState).run s = .ok (s, s) := id rfl

/-! ### `parseScopeModifier` -/

/-- No `(` after the keyword: the default, nothing consumed. -/
theorem scope_absent (d : TT) (s : PState) (h : (s.toks.getD 1 s.eof).type ≠ .LPAREN) :
    (parseScopeModifier d).run s = .ok (d, s) := by
  unfold parseScopeModifier
  simp only [List.getD_eq_getElem?_getD] at h
  simp [h]

/-- `kw ( global|local )`: the written modifier; the window now starts at the `)`. -/
theorem scope_present (d : TT) (s : PState) (kw lp m rp : Tok) (tl : List Tok)
    (hlp : lp.type = .LPAREN) (hm : m.type = .GLOBAL ∨ m.type = .LOCAL) (hrp : rp.type = .RPAREN) :
    (parseScopeModifier d).run (st s (kw :: lp :: m :: rp :: tl)) = .ok (m.type, st s (rp :: tl)) := by
  unfold parseScopeModifier
  rcases hm with hm | hm <;> simp [hlp, hm, hrp]

/-- `kw ( x` with `x` neither `global` nor `local`: error located on `x`. -/
theorem scope_bad_modifier (d : TT) (s : PState) (kw lp m : Tok) (tl : List Tok)
    (hlp : lp.type = .LPAREN) (h1 : m.type ≠ .GLOBAL) (h2 : m.type ≠ .LOCAL) :
    (parseScopeModifier d).run (st s (kw :: lp :: m :: tl)) =
      .error (newParseError m s!"scope modifier must be 'global' or 'local', but got '{m.lit}' instead") := by
  unfold parseScopeModifier
  simp [hlp, h1, h2]

/-- `kw (` at the very end of the token list: the offending token is the EOF token. -/
theorem scope_bad_modifier_eof (d : TT) (s : PState) (kw lp : Tok)
    (hlp : lp.type = .LPAREN) (h1 : s.eof.type ≠ .GLOBAL) (h2 : s.eof.type ≠ .LOCAL) :
    (parseScopeModifier d).run (st s [kw, lp]) =
      .error (newParseError s.eof
        s!"scope modifier must be 'global' or 'local', but got '{s.eof.lit}' instead") := by
  unfold parseScopeModifier
  simp [hlp, h1, h2]

/-- `kw ( global x` with `x` not `)`: error located on the modifier token (as in Go:
`NewParseError(p.curToken, …)`), naming `x`. -/
theorem scope_missing_rparen (d : TT) (s : PState) (kw lp m x : Tok) (tl : List Tok)
    (hlp : lp.type = .LPAREN) (hm : m.type = .GLOBAL ∨ m.type = .LOCAL) (hx : x.type ≠ .RPAREN) :
    (parseScopeModifier d).run (st s (kw :: lp :: m :: x :: tl)) =
      .error (newParseError m s!"missing ')' after scope modifier. Got '{x.lit}' instead") := by
  unfold parseScopeModifier
  rcases hm with hm | hm <;> simp [hlp, hm, hx]

/-! ### the optional modifier of the reference syntax -/

/-- `[ '(' ('global'|'local') ')' ]` -/
inductive Mod
  | absent
  | written (lp m rp : Tok)
  deriving DecidableEq, Repr

def Mod.toks : Mod → List Tok
  | .absent => []
  | .written lp m rp => [lp, m, rp]

def Mod.WF : Mod → Prop
  | .absent => True
  | .written lp m rp => lp.type = .LPAREN ∧ (m.type = .GLOBAL ∨ m.type = .LOCAL) ∧ rp.type = .RPAREN

/-- The scope a statement gets: the written modifier, else the default. -/
def Mod.scope (d : TT) : Mod → TT
  | .absent => d
  | .written _ m _ => m.type

/-- The current token after the modifier has been read. -/
def Mod.last (kw : Tok) : Mod → Tok
  | .absent => kw
  | .written _ _ rp => rp

theorem Mod.scope_cases (d : TT) (md : Mod) (h : md.WF) :
    md.scope d = d ∨ md.scope d = .GLOBAL ∨ md.scope d = .LOCAL := by
  cases md with
  | absent => exact Or.inl rfl
  | written lp m rp => exact Or.inr h.2.1

/-- `parseScopeModifier` on `kw [mod] nx …` where `nx` is not `(`. -/
theorem scope_mod (d : TT) (s : PState) (kw : Tok) (md : Mod) (nx : Tok) (tl : List Tok)
    (hwf : md.WF) (hnx : nx.type ≠ .LPAREN) :
    (parseScopeModifier d).run (st s (kw :: (md.toks ++ nx :: tl))) =
      .ok (md.scope d, st s (md.last kw :: nx :: tl)) := by
  cases md with
  | absent => exact scope_absent d _ (by simpa [Mod.toks] using hnx)
  | written lp m rp => exact scope_present d s kw lp m rp _ hwf.1 hwf.2.1 hwf.2.2

/-! ### `parseTextValue` on string-literal bodies -/

/-- `STRING` or `STRINGTYPE STRING` (no `format(...)`). -/
inductive TextVal
  | plain (str : Tok)
  | typed (ty str : Tok)
  deriving DecidableEq, Repr

def TextVal.toks : TextVal → List Tok
  | .plain str => [str]
  | .typed ty str => [ty, str]

def TextVal.WF : TextVal → Prop
  | .plain str => str.type = .STRING
  | .typed ty str => ty.type = .STRINGTYPE ∧ str.type = .STRING

def TextVal.strType : TextVal → String
  | .plain _ => ""
  | .typed ty _ => ty.lit

def TextVal.str : TextVal → Tok
  | .plain str => str
  | .typed _ str => str

/-- (value with the terminator of its string type, string type). -/
def TextVal.value (v : TextVal) : String × String :=
  (formatTextTerminator v.str.lit v.strType, v.strType)

/-- `parseTextValue` reads the value and stops ON its last token (the string literal). -/
theorem textValue_run (env : Env) (fuel : Nat) (s : PState) (v : TextVal) (tl : List Tok)
    (hwf : v.WF) :
    (parseTextValue env fuel).run (st s (v.toks ++ tl)) = .ok (v.value, st s (v.str :: tl)) := by
  cases v with
  | plain str =>
    simp only [TextVal.WF] at hwf
    unfold parseTextValue
    simp [TextVal.toks, TextVal.value, TextVal.str, TextVal.strType, hwf]
  | typed ty str =>
    simp only [TextVal.WF] at hwf
    unfold parseTextValue
    simp [TextVal.toks, TextVal.value, TextVal.str, TextVal.strType, hwf.1, hwf.2]

theorem TextVal.toks_eq (v : TextVal) : ∃ pre, v.toks = pre ++ [v.str] := by
  cases v with
  | plain str => exact ⟨[], rfl⟩
  | typed ty str => exact ⟨[ty], rfl⟩

/-! ### `mapM tryReplaceWithConstant` -/

theorem mapM_tryReplace (s : PState) (l : List Tok) :
    (l.mapM fun t => tryReplaceWithConstant t.lit).run s =
      .ok (l.map (fun t => substC s.constants t.lit), s) := by
  induction l with
  | nil => simp
  | cons t r ih => simp [List.mapM_cons, ih]

/-! ### `parsePoryswitchHeader`: the three ways the environment decides -/

open Pory.C14b in
/-- The header succeeds (lint parser, or switches given and this one defined). -/
theorem header_run (env : Env) (s : PState) (psw lp x rp lb : Tok) (tl : List Tok)
    (hlp : lp.type = .LPAREN) (hx : x.type = .IDENT) (hrp : rp.type = .RPAREN)
    (hlb : lb.type = .LBRACE)
    (henv : env.envErrors = false ∨ (env.switches ≠ [] ∧ (env.switches.lookup x.lit).isSome = true)) :
    (parsePoryswitchHeader env).run (st s (psw :: lp :: x :: rp :: lb :: tl)) =
      .ok ((x.lit, swVal env x.lit), st s tl) := by
  refine header_ok env s psw lp x rp lb tl hlp hx hrp hlb ?_
  intro he
  rcases henv with h | h
  · simp [h] at he
  · exact h.2

/-- `poryswitch` used with environment errors on and no `-s` option at all: error located on the
`poryswitch` token, before anything is read. -/
theorem header_no_switches (env : Env) (s : PState) (psw : Tok) (tl : List Tok)
    (he : env.envErrors = true) (hs : env.switches = []) :
    (parsePoryswitchHeader env).run (st s (psw :: tl)) =
      .error (newParseError psw
        "poryswitch used, but no compile switches were specified with the '-s' option") := by
  unfold parsePoryswitchHeader
  simp [he, hs]

/-- Environment errors on, some switches given, but not this one: error located on the switch
name. -/
theorem header_undefined_switch (env : Env) (s : PState) (psw lp x : Tok) (tl : List Tok)
    (hlp : lp.type = .LPAREN) (hx : x.type = .IDENT)
    (he : env.envErrors = true) (hs : env.switches ≠ []) (hl : env.switches.lookup x.lit = none) :
    (parsePoryswitchHeader env).run (st s (psw :: lp :: x :: tl)) =
      .error (newParseError x s!"no poryswitch for '{x.lit}' was specified with the '-s' option") := by
  unfold parsePoryswitchHeader
  have hne : env.switches.isEmpty = false := by
    cases hsw : env.switches with
    | nil => exact absurd hsw hs
    | cons a b => rfl
  simp [he, hne, hlp, hx, hl]

/-! ### text poryswitch: reference syntax and the case loop -/

/-- One case of a text poryswitch: `key : textvalue` or `key { textvalue }`. -/
inductive TCase
  | colon (key c : Tok) (v : TextVal)
  | brace (key lb : Tok) (v : TextVal) (rb : Tok)
  deriving DecidableEq, Repr

def TCase.toks : TCase → List Tok
  | .colon key c v => key :: c :: v.toks
  | .brace key lb v rb => key :: lb :: (v.toks ++ [rb])

def TCase.WF : TCase → Prop
  | .colon key c v => (key.type = .IDENT ∨ key.type = .INT) ∧ c.type = .COLON ∧ v.WF
  | .brace key lb v rb =>
    (key.type = .IDENT ∨ key.type = .INT) ∧ lb.type = .LBRACE ∧ v.WF ∧ rb.type = .RBRACE

def TCase.key : TCase → String
  | .colon key _ _ => key.lit
  | .brace key _ _ _ => key.lit

def TCase.val : TCase → TextVal
  | .colon _ _ v => v
  | .brace _ _ v _ => v

def printCases : List TCase → List Tok
  | [] => []
  | c :: r => c.toks ++ printCases r

/-- The table the case loop builds: newest first. -/
def caseTable : List TCase → List (String × String × String) → List (String × String × String)
  | [], acc => acc
  | c :: r, acc => caseTable r ((c.key, c.val.value) :: acc)

theorem caseTable_eq (cs : List TCase) (acc : List (String × String × String)) :
    caseTable cs acc = (cs.map fun c => (c.key, c.val.value)).reverse ++ acc := by
  induction cs generalizing acc with
  | nil => rfl
  | cons c r ih => simp [caseTable, ih]

section
variable (env : Env) (stt : Tok) (n : Nat) (acc : List (String × String × String)) (s : PState)

theorem tcases_close (c : Tok) (tl : List Tok) (hc : c.type = .RBRACE) :
    (poryswitchTextCases env stt (n + 1) acc).run (st s (c :: tl)) = .ok (acc, st s (c :: tl)) := by
  rw [poryswitchTextCases]
  simp [hc]

theorem tcases_colon (key c : Tok) (v : TextVal) (tl : List Tok)
    (hk : key.type = .IDENT ∨ key.type = .INT) (hc : c.type = .COLON) (hv : v.WF) :
    (poryswitchTextCases env stt (n + 1) acc).run (st s (key :: c :: (v.toks ++ tl))) =
      (poryswitchTextCases env stt n ((key.lit, v.value) :: acc)).run (st s tl) := by
  rw [poryswitchTextCases]
  rcases hk with hk | hk <;> simp [hk, hc, textValue_run env n s v tl hv]

theorem tcases_brace (key lb : Tok) (v : TextVal) (rb : Tok) (tl : List Tok)
    (hk : key.type = .IDENT ∨ key.type = .INT) (hlb : lb.type = .LBRACE) (hv : v.WF)
    (hrb : rb.type = .RBRACE) :
    (poryswitchTextCases env stt (n + 1) acc).run (st s (key :: lb :: (v.toks ++ rb :: tl))) =
      (poryswitchTextCases env stt n ((key.lit, v.value) :: acc)).run (st s tl) := by
  rw [poryswitchTextCases]
  rcases hk with hk | hk <;> simp [hk, hlb, hrb, textValue_run env n s v (rb :: tl) hv]

/-- A case opened with `{` whose value is not followed by `}`: error located on the token the
case list started at (Go reports `startToken` here, not the offending token). -/
theorem tcases_brace_unclosed (key lb : Tok) (v : TextVal) (x : Tok) (tl : List Tok)
    (hk : key.type = .IDENT ∨ key.type = .INT) (hlb : lb.type = .LBRACE) (hv : v.WF)
    (hx : x.type ≠ .RBRACE) :
    (poryswitchTextCases env stt (n + 1) acc).run (st s (key :: lb :: (v.toks ++ x :: tl))) =
      .error (newParseError stt s!"missing closing curly brace for poryswitch case '{key.lit}'") := by
  rw [poryswitchTextCases]
  rcases hk with hk | hk <;> simp [hk, hlb, hx, textValue_run env n s v (x :: tl) hv]

end

/-- The case loop over printed cases up to the closing `}` of the poryswitch. -/
theorem tcases_run (env : Env) (stt : Tok) (s : PState) (cs : List TCase) (rb : Tok) (tl : List Tok)
    (hrb : rb.type = .RBRACE) (hwf : ∀ c ∈ cs, c.WF) (acc : List (String × String × String))
    (f : Nat) :
    (poryswitchTextCases env stt (cs.length + (f + 1)) acc).run (st s (printCases cs ++ rb :: tl)) =
      .ok (caseTable cs acc, st s (rb :: tl)) := by
  induction cs generalizing acc with
  | nil => simpa [printCases, caseTable] using tcases_close env stt f acc s rb tl hrb
  | cons c r ih =>
    have hc := hwf c (by simp)
    have hr : ∀ x ∈ r, x.WF := fun x hx => hwf x (by simp [hx])
    have hlen : (c :: r).length + (f + 1) = (r.length + (f + 1)) + 1 := by simp; omega
    rw [hlen]
    cases c with
    | colon key cl v =>
      simp only [TCase.WF] at hc
      have := tcases_colon env stt (r.length + (f + 1)) acc s key cl v (printCases r ++ rb :: tl)
        hc.1 hc.2.1 hc.2.2
      simp only [printCases, TCase.toks, List.cons_append, List.append_assoc]
      rw [this, ih hr]
      rfl
    | brace key lb v rb' =>
      simp only [TCase.WF] at hc
      have := tcases_brace env stt (r.length + (f + 1)) acc s key lb v rb' (printCases r ++ rb :: tl)
        hc.1 hc.2.1 hc.2.2.1 hc.2.2.2
      simp only [printCases, TCase.toks, List.cons_append, List.append_assoc, List.nil_append]
      rw [this, ih hr]
      rfl

/-! ### `joinSp` / `sbAdd` -/

theorem joinSp_nil : joinSp [] = "" := rfl
theorem joinSp_one (a : String) : joinSp [a] = a := by rfl
theorem joinSp_cons_cons (a b : String) (l : List String) :
    joinSp (a :: b :: l) = a ++ " " ++ joinSp (b :: l) := String.intercalate_cons_cons

theorem joinSp_ne_empty (ws : List String) (h : ws ≠ []) (hw : ∀ w ∈ ws, w ≠ "") : joinSp ws ≠ "" := by
  match ws, h with
  | [a], _ => rw [joinSp_one]; exact hw a (by simp)
  | a :: b :: l, _ =>
    rw [joinSp_cons_cons]
    intro h'
    have := (String.append_eq_empty_iff.mp (String.append_eq_empty_iff.mp h').1).1
    exact hw a (by simp) this

theorem joinSp_append (a b : List String) (ha : a ≠ []) (hb : b ≠ []) :
    joinSp (a ++ b) = joinSp a ++ " " ++ joinSp b := by
  induction a with
  | nil => exact absurd rfl ha
  | cons x r ih =>
    cases r with
    | nil =>
      obtain ⟨y, l, rfl⟩ := List.exists_cons_of_ne_nil hb
      simp [joinSp_cons_cons, joinSp_one]
    | cons y l =>
      have := ih (by simp)
      simp only [List.cons_append] at this ⊢
      rw [joinSp_cons_cons, this, joinSp_cons_cons]
      simp [String.append_assoc]

/-- Joining joined groups = joining the concatenation, for non-empty groups. -/
theorem joinSp_map_joinSp (wss : List (List String)) (h : ∀ ws ∈ wss, ws ≠ []) :
    joinSp (wss.map joinSp) = joinSp wss.flatten := by
  induction wss with
  | nil => rfl
  | cons ws r ih =>
    cases r with
    | nil => simp [joinSp_one]
    | cons ws' r' =>
      have ih' := ih (fun x hx => h x (by simp [hx]))
      have hne : (ws' :: r').flatten ≠ [] := by
        have := h ws' (by simp)
        simp [this]
      rw [List.map_cons, List.map_cons, joinSp_cons_cons, ← List.map_cons, ih',
        show (ws :: ws' :: r').flatten = ws ++ (ws' :: r').flatten from List.flatten_cons,
        joinSp_append _ _ (h ws (by simp)) hne]

theorem sbAdd_empty (x : String) : sbAdd "" x = x := by
  simp [sbAdd]

theorem sbAdd_ne (a x : String) (ha : a ≠ "") : sbAdd a x = a ++ " " ++ x := by
  have : a.isEmpty = false := by
    cases h : a.isEmpty with
    | false => rfl
    | true => exact absurd (String.isEmpty_iff.mp h) ha
  simp [sbAdd, this]

theorem sbAdd_ne_empty (a x : String) (hx : x ≠ "") : sbAdd a x ≠ "" := by
  by_cases ha : a = ""
  · subst ha; rw [sbAdd_empty]; exact hx
  · rw [sbAdd_ne a x ha]
    intro h
    exact hx (String.append_eq_empty_iff.mp h).2

theorem foldl_sbAdd_ne (ws : List String) (a : String) (ha : a ≠ "") (hws : ∀ w ∈ ws, w ≠ "") :
    ws.foldl sbAdd a = joinSp (a :: ws) := by
  induction ws generalizing a with
  | nil => simp [joinSp_one]
  | cons w r ih =>
    rw [List.foldl_cons, ih _ (sbAdd_ne_empty a w (hws w (by simp))) (fun x hx => hws x (by simp [hx])),
      sbAdd_ne a w ha]
    cases r with
    | nil => simp [joinSp_one, joinSp_cons_cons]
    | cons u l => simp [joinSp_cons_cons, String.append_assoc]

/-- The string-builder accumulation of `parseConstant` / map-script tables is `joinSp`, provided
no part is empty. -/
theorem foldl_sbAdd (ws : List String) (hws : ∀ w ∈ ws, w ≠ "") : ws.foldl sbAdd "" = joinSp ws := by
  cases ws with
  | nil => rfl
  | cons w r =>
    rw [List.foldl_cons, sbAdd_empty, foldl_sbAdd_ne r w (hws w (by simp)) (fun x hx => hws x (by simp [hx]))]

/-- MODEL = Go: an empty part (the literal of `""`) is NOT separated: `strings.Builder` only
writes a space when it already holds something. -/
example : ["", "B"].foldl sbAdd "" = "B" ∧ joinSp ["", "B"] = " B" := by decide

/-! ### `constLoop` -/

/-- A token that the value loop of `parseConstant` takes as part of the value when it is the
peek token: not a top-level keyword; and, to be passed over as current token, not EOF. -/
def ValTok (v : Tok) : Prop := v.type ∉ Facts.topLevelTokens ∧ v.type ≠ .EOF

instance : DecidablePred ValTok := fun v => by unfold ValTok; exact inferInstance

/-- The value the loop accumulates. -/
def constAcc (cs : List (String × String)) (vs : List Tok) (acc : String) : String :=
  (vs.map fun v => substC cs v.lit).foldl sbAdd acc

theorem constLoop_run (s : PState) (vs : List Tok) (c nx : Tok) (tl : List Tok) (acc : String) (f : Nat)
    (hc : c.type ≠ .EOF) (hvs : ∀ v ∈ vs, ValTok v)
    (hnx : nx.type ∈ Facts.topLevelTokens) :
    (constLoop (vs.length + (f + 1)) acc).run (st s (c :: (vs ++ nx :: tl))) =
      .ok (constAcc s.constants vs acc, st s (vs.getLastD c :: nx :: tl)) := by
  induction vs generalizing c acc with
  | nil =>
    simp only [List.length_nil, Nat.zero_add]
    rw [constLoop]
    simp [hnx, constAcc]
  | cons v r ih =>
    have hv := hvs v (by simp)
    have hlen : (v :: r).length + (f + 1) = (r.length + (f + 1)) + 1 := by simp; omega
    rw [hlen, constLoop]
    have := ih v (sbAdd acc (substC s.constants v.lit)) hv.2 (fun x hx => hvs x (by simp [hx]))
    simp [hv.1, hc]
    rw [this]
    simp [constAcc]
    cases r <;> simp [List.getLast?_cons]

end Pory.TopParse
