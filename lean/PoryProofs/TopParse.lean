import PoryProofs.ListSwitch
import PoryProofs.ParserWp
/-
Helpers for the top-level statement theorems (C15b scopes, C12b text poryswitch, C13b constants):
run-lemmas for `parseScopeModifier`, the optional modifier `Mod` of the reference syntax,
`parseTextValue` on string-literal bodies, `List.mapM tryReplaceWithConstant`.

Run-lemmas of the parser monad (`st`, `run_cur`, `substC`, …) come from
`PoryProofs/BoolParseLeaf.lean` (namespace `Pory.C02P`).
-/
namespace Pory.TopParse
open Pory Pory.Parser Pory.C02P

/-! ### `parseScopeModifier` -/

/-- No `(` after the keyword: the default, nothing consumed. -/
theorem scope_absent (d : TT) (s : PState) (h : (s.toks.getD 1 s.eof).type ≠ .LPAREN) :
    (parseScopeModifier d).run s = .ok (d, s) := by
  unfold parseScopeModifier
  simp only [List.getD_eq_getElem?_getD] at h
  simp [h]

/-- `kw ( global|local )`: the written modifier; the window now starts at the `)`. -/
theorem scope_present (d : TT) (s : PState) (kw lp m rp : Tok) (tl : List Tok)
    (hlp : lp.type = .LPAREN) (hm : m.type = .GLOBAL ∨ m.type = .LOCAL) (hrp : rp.type = .RPAREN) :
    (parseScopeModifier d).run (st s (kw :: lp :: m :: rp :: tl)) = .ok (m.type, st s (rp :: tl)) := by
  unfold parseScopeModifier
  rcases hm with hm | hm <;> simp [hlp, hm, hrp]

/-- `kw ( x` with `x` neither `global` nor `local`: error located on `x`. -/
theorem scope_bad_modifier (d : TT) (s : PState) (kw lp m : Tok) (tl : List Tok)
    (hlp : lp.type = .LPAREN) (h1 : m.type ≠ .GLOBAL) (h2 : m.type ≠ .LOCAL) :
    (parseScopeModifier d).run (st s (kw :: lp :: m :: tl)) =
      .error (newParseError m s!"scope modifier must be 'global' or 'local', but got '{m.lit}' instead") := by
  unfold parseScopeModifier
  simp [hlp, h1, h2]

/-- `kw (` at the very end of the token list: the offending token is the EOF token. -/
theorem scope_bad_modifier_eof (d : TT) (s : PState) (kw lp : Tok)
    (hlp : lp.type = .LPAREN) (h1 : s.eof.type ≠ .GLOBAL) (h2 : s.eof.type ≠ .LOCAL) :
    (parseScopeModifier d).run (st s [kw, lp]) =
      .error (newParseError s.eof
        s!"scope modifier must be 'global' or 'local', but got '{s.eof.lit}' instead") := by
  unfold parseScopeModifier
  simp [hlp, h1, h2]

/-- `kw ( global x` with `x` not `)`: error located on the modifier token (as in Go:
`NewParseError(p.curToken, …)`), naming `x`. -/
theorem scope_missing_rparen (d : TT) (s : PState) (kw lp m x : Tok) (tl : List Tok)
    (hlp : lp.type = .LPAREN) (hm : m.type = .GLOBAL ∨ m.type = .LOCAL) (hx : x.type ≠ .RPAREN) :
    (parseScopeModifier d).run (st s (kw :: lp :: m :: x :: tl)) =
      .error (newParseError m s!"missing ')' after scope modifier. Got '{x.lit}' instead") := by
  unfold parseScopeModifier
  rcases hm with hm | hm <;> simp [hlp, hm, hx]

/-! ### the optional modifier of the reference syntax -/

/-- `[ '(' ('global'|'local') ')' ]` -/
inductive Mod
  | absent
  | written (lp m rp : Tok)

def Mod.toks : Mod → List Tok
  | .absent => []
  | .written lp m rp => [lp, m, rp]

def Mod.WF : Mod → Prop
  | .absent => True
  | .written lp m rp => lp.type = .LPAREN ∧ (m.type = .GLOBAL ∨ m.type = .LOCAL) ∧ rp.type = .RPAREN

/-- The scope a statement gets: the written modifier, else the default. -/
def Mod.scope (d : TT) : Mod → TT
  | .absent => d
  | .written _ m _ => m.type

/-- The current token after the modifier has been read. -/
def Mod.last (kw : Tok) : Mod → Tok
  | .absent => kw
  | .written _ _ rp => rp

theorem Mod.scope_cases (d : TT) (md : Mod) (h : md.WF) :
    md.scope d = d ∨ md.scope d = .GLOBAL ∨ md.scope d = .LOCAL := by
  cases md with
  | absent => exact Or.inl rfl
  | written lp m rp => exact Or.inr h.2.1

/-- `parseScopeModifier` on `kw [mod] nx …` where `nx` is not `(`. -/
theorem scope_mod (d : TT) (s : PState) (kw : Tok) (md : Mod) (nx : Tok) (tl : List Tok)
    (hwf : md.WF) (hnx : nx.type ≠ .LPAREN) :
    (parseScopeModifier d).run (st s (kw :: (md.toks ++ nx :: tl))) =
      .ok (md.scope d, st s (md.last kw :: nx :: tl)) := by
  cases md with
  | absent => exact scope_absent d _ (by simpa [Mod.toks] using hnx)
  | written lp m rp => exact scope_present d s kw lp m rp _ hwf.1 hwf.2.1 hwf.2.2

/-! ### `parseTextValue` on string-literal bodies -/

/-- `STRING` or `STRINGTYPE STRING` (no `format(...)`). -/
inductive TextVal
  | plain (str : Tok)
  | typed (ty str : Tok)

def TextVal.toks : TextVal → List Tok
  | .plain str => [str]
  | .typed ty str => [ty, str]

def TextVal.WF : TextVal → Prop
  | .plain str => str.type = .STRING
  | .typed ty str => ty.type = .STRINGTYPE ∧ str.type = .STRING

def TextVal.strType : TextVal → String
  | .plain _ => ""
  | .typed ty _ => ty.lit

def TextVal.str : TextVal → Tok
  | .plain str => str
  | .typed _ str => str

/-- (value with the terminator of its string type, string type). -/
def TextVal.value (v : TextVal) : String × String :=
  (formatTextTerminator v.str.lit v.strType, v.strType)

/-- `parseTextValue` reads the value and stops ON its last token (the string literal). -/
theorem textValue_run (env : Env) (fuel : Nat) (s : PState) (v : TextVal) (tl : List Tok)
    (hwf : v.WF) :
    (parseTextValue env fuel).run (st s (v.toks ++ tl)) = .ok (v.value, st s (v.str :: tl)) := by
  cases v with
  | plain str =>
    simp only [TextVal.WF] at hwf
    unfold parseTextValue
    simp [TextVal.toks, TextVal.value, TextVal.str, TextVal.strType, hwf]
  | typed ty str =>
    simp only [TextVal.WF] at hwf
    unfold parseTextValue
    simp [TextVal.toks, TextVal.value, TextVal.str, TextVal.strType, hwf.1, hwf.2]

theorem TextVal.toks_eq (v : TextVal) : ∃ pre, v.toks = pre ++ [v.str] := by
  cases v with
  | plain str => exact ⟨[], rfl⟩
  | typed ty str => exact ⟨[ty], rfl⟩

/-! ### `mapM tryReplaceWithConstant` -/

theorem mapM_tryReplace (s : PState) (l : List Tok) :
    (l.mapM fun t => tryReplaceWithConstant t.lit).run s =
      .ok (l.map (fun t => substC s.constants t.lit), s) := by
  induction l with
  | nil => simp
  | cons t r ih => simp [List.mapM_cons, ih]

end Pory.TopParse
