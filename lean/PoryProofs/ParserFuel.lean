import PoryProofs.ParserTotal
/-
C18 (totality of the parser), part 2: `.outOfFuel`.

`nf m s` : running `m` from `s` does not end in `.error .outOfFuel`.

Assumption needed by every result here: the end-of-input token has type `EOF` (`s.eof.type = .EOF`;
`parseTokens` takes `eof` to be the last token of its input, and the lexer always ends with an
`EOF` token).  Without it the statement is FALSE for the model: once the window is empty `cur` keeps
returning the last token, and a loop that waits for `)` or `EOF` spins until the fuel is gone —
see `outOfFuel_reachable_without_eof` below.

This file: the calculus (`nf_bind`, … , `nfsimp`) and the per-loop facts (`…_partial`, each for all states
with `eof.type = EOF`): the token-collecting loops `collectUntil`, `valueLoop`, `collectUntilRange`,
`switchOperandLoop`, `tableCollect`, `constLoop` do not run out of fuel when `fuel ≥ toks.length + 1`
(each iteration that recurses has consumed one token).
The full statement `parser_total_full` (stated here) is PROVED as `parser_total` /
`parser_never_out_of_fuel` in `PoryProofs/ParserFuel6.lean`:
* `ParserFuel2.lean`, `ParserFuel3.lean` — `Dec k m`: below statement level, a successful run of `m` shortens
  the token window by at least `k` tokens (`k = 1` for the poryswitch header, the poryswitch list statement,
  the leaf and the whole boolean expression; `k = 0` otherwise);
* `ParserFuel4.lean` — `SDec 0`: the same for the 13 functions of the statement block (one induction on the
  fuel, `sdecAll`) and for the top-level statements; `eof` is never changed;
* `ParserFuel5.lean` — below statement level, `4 * toks.length + c ≤ fuel → nf` with `c` = 1 … 6
  (`formatNamedParams`, text values and the simple loops only need `toks.length + 1 ≤ fuel`);
* `ParserFuel6.lean` — the statement block (`nfAll`: `c` = 6 for conditions / `elif`s / `case`s / poryswitch
  cases, 7 for `if` / `while` / `do` / `switch` / `poryswitch`, 8 for `parseStatement`, 9 for the three
  block loops), map scripts (10, 11), the top level loop, `parseProgramM`, `parseTokens` (which gives 50).
No loop of the model can iterate without consuming a token, so no change to the model was needed.
-/
namespace Pory.Parser
open Pory

def NotFuel (e : PFail) : Prop := e ≠ .outOfFuel

/-- Running `m` from `s` does not run out of fuel. -/
def nf {α} (m : PM α) (s : PState) : Prop := m.run s ≠ .error .outOfFuel

theorem nf_bind {α β} (m : PM α) (f : α → PM β) (s : PState) :
    nf (m >>= f) s ↔ nf m s ∧ wp m s (fun a s1 => nf (f a) s1) := by
  unfold nf wp
  simp only [StateT.run_bind]
  cases h : m.run s with
  | error e => simp [bind, Except.bind]
  | ok r =>
    obtain ⟨a, s1⟩ := r
    simp [bind, Except.bind]

theorem nf_pure {α} (a : α) (s : PState) : nf (pure a : PM α) s ↔ True := by
  simp [nf, pure, StateT.pure, StateT.run, Except.pure]

theorem nf_fail {α} (e : PFail) (s : PState) : nf (fail e : PM α) s ↔ NotFuel e := by
  simp [nf, NotFuel, fail, throw, throwThe, MonadExceptOf.throw, StateT.run, StateT.lift, bind, Except.bind]

theorem notFuel_err (t : Tok) (m : String) : NotFuel (newParseError t m) ↔ True :=
  iff_true_intro (fun h => by cases h)
theorem notFuel_rerr (t1 t2 : Tok) (m : String) : NotFuel (newRangeParseError t1 t2 m) ↔ True :=
  iff_true_intro (fun h => by cases h)
theorem notFuel_fuel : NotFuel .outOfFuel ↔ False := iff_false_intro (fun h => h rfl)

theorem nf_ite {α} (c : Prop) [Decidable c] (a b : PM α) (s : PState) :
    nf (if c then a else b) s ↔ if c then nf a s else nf b s := by
  split <;> rfl

theorem nf_get (s : PState) : nf (get : PM PState) s ↔ True := by
  simp [nf, StateT.run, get, getThe, MonadStateOf.get, StateT.get, pure, Except.pure]
theorem nf_modify (f : PState → PState) (s : PState) : nf (modify f : PM PUnit) s ↔ True := by
  simp [nf, StateT.run, modify, modifyGet, MonadStateOf.modifyGet, StateT.modifyGet, pure, Except.pure]
theorem nf_cur (s : PState) : nf cur s ↔ True := by
  unfold cur; simp only [nf_bind, nf_get, nf_pure, wp_get, and_self]
theorem nf_peekAt (n : Nat) (s : PState) : nf (peekAt n) s ↔ True := by
  unfold peekAt; simp only [nf_bind, nf_get, nf_pure, wp_get, and_self]
theorem nf_peek (s : PState) : nf peek s ↔ True := nf_peekAt 1 s
theorem nf_nextToken (s : PState) : nf nextToken s ↔ True := by unfold nextToken; exact nf_modify _ s
theorem nf_curIs (t : TT) (s : PState) : nf (curIs t) s ↔ True := by
  unfold curIs; simp only [nf_bind, nf_cur, nf_pure, wp_cur, and_self]
theorem nf_tryReplace (v : String) (s : PState) : nf (tryReplaceWithConstant v) s ↔ True := by
  unfold tryReplaceWithConstant; simp only [nf_bind, nf_get, nf_pure, wp_get, and_self]

theorem nf_set (s1 s : PState) : nf (set s1 : PM PUnit) s ↔ True := by
  simp [nf, StateT.run, set, StateT.set, pure, Except.pure]
theorem nf_peek2 (s : PState) : nf peek2 s ↔ True := nf_peekAt 2 s
theorem nf_peek3 (s : PState) : nf peek3 s ↔ True := nf_peekAt 3 s
theorem nf_peek4 (s : PState) : nf peek4 s ↔ True := nf_peekAt 4 s
theorem nf_peekIs (t : TT) (s : PState) : nf (peekIs t) s ↔ True := by
  unfold peekIs; simp only [nf_bind, nf_peek, nf_pure, wp_peek, and_self]
theorem nf_peek2Is (t : TT) (s : PState) : nf (peek2Is t) s ↔ True := by
  unfold peek2Is; simp only [nf_bind, nf_peek2, nf_pure, wp_peek2, and_self]
theorem nf_expectPeek (t : TT) (s : PState) : nf (expectPeek t) s ↔ True := by
  unfold expectPeek
  simp only [nf_bind, nf_peekIs, nf_ite, nf_nextToken, nf_pure, wp_peekIs, wp_nextToken, true_and, ite_self]
theorem nf_expectPeekErr (t : TT) (s : PState) : nf (expectPeekErr t) s ↔ True := by
  unfold expectPeekErr
  simp only [nf_bind, nf_peek, nf_ite, nf_nextToken, nf_fail, notFuel_err, wp_peek, true_and, ite_self]
theorem nf_newSid (s : PState) : nf newSid s ↔ True := by
  unfold newSid; simp only [nf_bind, nf_get, nf_set, nf_pure, wp_get, wp_set, and_self]
theorem nf_pushBreak (x : Nat) (s : PState) : nf (pushBreak x) s ↔ True := by
  unfold pushBreak; exact nf_modify _ s
theorem nf_popBreak (s : PState) : nf popBreak s ↔ True := by unfold popBreak; exact nf_modify _ s
theorem nf_pushContinue (x : Nat) (s : PState) : nf (pushContinue x) s ↔ True := by
  unfold pushContinue; exact nf_modify _ s
theorem nf_popContinue (s : PState) : nf popContinue s ↔ True := by unfold popContinue; exact nf_modify _ s
theorem notFuel_panic (w : String) : NotFuel (.panic w) ↔ True := iff_true_intro (fun h => by cases h)

/-- Symbolic execution for `nf`. -/
syntax "nfsimp" (" [" Lean.Parser.Tactic.simpLemma,* "]")? : tactic
macro_rules
  | `(tactic| nfsimp) => `(tactic| swp [nf_bind, nf_pure, nf_fail, nf_ite, notFuel_err, notFuel_rerr,
      notFuel_fuel, notFuel_panic, nf_get, nf_set, nf_modify, nf_cur, nf_peek, nf_peek2, nf_peek3, nf_peek4,
      nf_nextToken, nf_curIs, nf_peekIs, nf_peek2Is, nf_expectPeek, nf_expectPeekErr, nf_tryReplace, nf_newSid,
      nf_pushBreak, nf_popBreak, nf_pushContinue, nf_popContinue, wp_modify, wp_set, and_true, true_and,
      wp_true_iff])
  | `(tactic| nfsimp [$ts,*]) => `(tactic| swp [nf_bind, nf_pure, nf_fail, nf_ite, notFuel_err, notFuel_rerr,
      notFuel_fuel, notFuel_panic, nf_get, nf_set, nf_modify, nf_cur, nf_peek, nf_peek2, nf_peek3, nf_peek4,
      nf_nextToken, nf_curIs, nf_peekIs, nf_peek2Is, nf_expectPeek, nf_expectPeekErr, nf_tryReplace, nf_newSid,
      nf_pushBreak, nf_popBreak, nf_pushContinue, nf_popContinue, wp_modify, wp_set, and_true, true_and,
      wp_true_iff, $ts,*])

/-- After the window is exhausted the current token is the `EOF` token. -/
theorem headD_tail_eof {l : List Tok} {eof : Tok} (he : eof.type = .EOF)
    (h : ¬ ((l.tail.headD eof).type == TT.EOF) = true) : l.tail.length + 1 ≤ l.length ∧ l.tail ≠ [] := by
  cases l with
  | nil => simp [he] at h
  | cons x r =>
    cases r with
    | nil => simp [he] at h
    | cons y r' => simp

theorem collectUntil_fuel_partial (stop : Tok → Bool) (onEOF : PFail) (ho : NotFuel onEOF) :
    ∀ (n : Nat) (parts : List String) (s : PState), s.eof.type = .EOF → s.toks.length + 1 ≤ n →
      nf (collectUntil stop onEOF n parts) s := by
  intro n
  induction n with
  | zero => intro parts s _ h; omega
  | succ n ih =>
    intro parts s he hn
    rw [collectUntil]
    nfsimp [iff_true_intro ho]
    split
    · trivial
    · split
      · trivial
      · rename_i _ h
        have := headD_tail_eof he h
        exact ih _ _ he (by simp only [upd_toks]; omega)

/-- A current token that is not `EOF` is a real token of the window. -/
theorem headD_not_eof {l : List Tok} {eof : Tok} (he : eof.type = .EOF)
    (h : ¬ ((l.headD eof).type == TT.EOF) = true) : l.tail.length + 1 ≤ l.length := by
  cases l with
  | nil => simp [he] at h
  | cons x r => simp

theorem tableCollect_fuel_partial (stop : Tok → Bool) (onEOF : PFail) (ho : NotFuel onEOF) :
    ∀ (n : Nat) (acc : String) (s : PState), s.eof.type = .EOF → s.toks.length + 1 ≤ n →
      nf (tableCollect stop onEOF n acc) s := by
  intro n
  induction n with
  | zero => intro acc s _ h; omega
  | succ n ih =>
    intro acc s he hn
    rw [tableCollect]
    nfsimp [iff_true_intro ho]
    split
    · trivial
    · split
      · trivial
      · rename_i _ h
        have := headD_tail_eof he h
        exact ih _ _ he (by simp only [upd_toks]; omega)

theorem valueLoop_fuel_partial (vt : Tok) :
    ∀ (n k : Nat) (parts : List String) (s : PState), s.eof.type = .EOF → s.toks.length + 1 ≤ n →
      nf (valueLoop vt n k parts) s := by
  intro n
  induction n with
  | zero => intro k parts s _ h; omega
  | succ n ih =>
    intro k parts s he hn
    rw [valueLoop]
    nfsimp
    split
    · trivial
    · split
      · trivial
      · rename_i _ h
        have := headD_tail_eof he h
        exact ih _ _ _ he (by simp only [upd_toks]; omega)

theorem collectUntilRange_fuel_partial (st : Tok) :
    ∀ (n : Nat) (parts : List String) (s : PState), s.eof.type = .EOF → s.toks.length + 1 ≤ n →
      nf (parseConditionVarOperator.collectUntilRange st n parts) s := by
  intro n
  induction n with
  | zero => intro parts s _ h; omega
  | succ n ih =>
    intro parts s he hn
    rw [parseConditionVarOperator.collectUntilRange]
    nfsimp
    split
    · trivial
    · split
      · trivial
      · rename_i _ h
        have := headD_tail_eof he h
        exact ih _ _ he (by simp only [upd_toks]; omega)

theorem switchOperandLoop_fuel_partial (ot : Tok) :
    ∀ (n : Nat) (parts : List String) (s : PState), s.eof.type = .EOF → s.toks.length + 1 ≤ n →
      nf (parseSwitchStatement.switchOperandLoop ot n parts) s := by
  intro n
  induction n with
  | zero => intro parts s _ h; omega
  | succ n ih =>
    intro parts s he hn
    rw [parseSwitchStatement.switchOperandLoop]
    nfsimp
    split
    · trivial
    · split
      · trivial
      · rename_i _ h
        have := headD_not_eof he h
        exact ih _ _ he (by simp only [upd_toks]; omega)

theorem constLoop_fuel_partial :
    ∀ (n : Nat) (acc : String) (s : PState), s.eof.type = .EOF → s.toks.length + 1 ≤ n →
      nf (constLoop n acc) s := by
  intro n
  induction n with
  | zero => intro acc s _ h; omega
  | succ n ih =>
    intro acc s he hn
    rw [constLoop]
    nfsimp
    split
    · trivial
    · rename_i h
      have h' : ¬ ((s.toks.headD s.eof).type == TT.EOF) = true := by
        intro hc; apply h; rw [hc]; exact Bool.or_true _
      have := headD_not_eof he h'
      exact ih _ _ he (by simp only [upd_toks]; omega)

/-- The full property (proved: `parser_total` in `ParserFuel6.lean`): on a token list that ends with an `EOF` token the parser does
not run out of the fuel `parseTokens` gives it. -/
def parser_total_full : Prop :=
  ∀ (env : Env) (toks : List Tok), (toks.getLastD { type := .EOF }).type = .EOF →
    parseTokens env toks ≠ .error .outOfFuel

/-! ### the `EOF` assumption is necessary -/
section Example
private def tk (t : TT) (l : String := "") : Tok := { type := t, lit := l }

set_option maxRecDepth 20000 in
/-- `script S { c ( x` without a final `EOF` token: the argument loop never sees `)` or `EOF`. -/
theorem outOfFuel_reachable_without_eof :
    parseTokens {} [tk .SCRIPT, tk .IDENT "S", tk .LBRACE, tk .IDENT "c", tk .LPAREN, tk .IDENT "x"] =
      .error .outOfFuel := by rfl

set_option maxRecDepth 20000 in
/-- With the `EOF` token the same input is answered with a located error. -/
example : ∃ e, parseTokens {}
    [tk .SCRIPT, tk .IDENT "S", tk .LBRACE, tk .IDENT "c", tk .LPAREN, tk .IDENT "x", tk .EOF] =
      .error (.err e) := ⟨_, rfl⟩

/-- Non-vacuity of the loop facts: three tokens, fuel 4. -/
example : nf (collectUntil (fun t => t.type == .RPAREN) (newParseError (tk .EOF) "eof") 4 [])
    { toks := [tk .IDENT "a", tk .IDENT "b", tk .RPAREN], eof := tk .EOF } :=
  collectUntil_fuel_partial _ _ (fun h => by cases h) 4 [] _ rfl (by decide)
end Example

end Pory.Parser
