import PoryProofs.ParserTotal
/-
C18 (totality of the parser), part 2: `.outOfFuel`.

`nf m s` : running `m` from `s` does not end in `.error .outOfFuel`.

Assumption needed by every result here: the end-of-input token has type `EOF` (`s.eof.type = .EOF`;
`parseTokens` takes `eof` to be the last token of its input, and the lexer always ends with an
`EOF` token).  Without it the statement is FALSE for the model: once the window is empty `cur` keeps
returning the last token, and a loop that waits for `)` or `EOF` spins until the fuel is gone —
see `outOfFuel_reachable_without_eof` below.

Proved (`…_partial` = the per-loop facts, each for all states with `eof.type = EOF`):
the token-collecting loops `collectUntil`, `valueLoop`, `collectUntilRange`, `switchOperandLoop`,
`tableCollect`, `constLoop` do not run out of fuel when `fuel ≥ toks.length + 1`
(each iteration that recurses has consumed one token).
Only stated (`def parser_total_full : Prop`): the same for `parseTokens` itself.  What is missing is
the analogous bound for the nested functions (format / list / command arguments, the boolean block,
the statement block, the top level), where a constant number of fuel units is used between two
consumed tokens; the calculus (`nf_bind`, …) is set up for it.
-/
namespace Pory.Parser
open Pory

def NotFuel (e : PFail) : Prop := e ≠ .outOfFuel

/-- Running `m` from `s` does not run out of fuel. -/
def nf {α} (m : PM α) (s : PState) : Prop := m.run s ≠ .error .outOfFuel

theorem nf_bind {α β} (m : PM α) (f : α → PM β) (s : PState) :
    nf (m >>= f) s ↔ nf m s ∧ wp m s (fun a s1 => nf (f a) s1) := by
  unfold nf wp
  simp only [StateT.run_bind]
  cases h : m.run s with
  | error e => simp [bind, Except.bind]
  | ok r =>
    obtain ⟨a, s1⟩ := r
    simp [bind, Except.bind]

theorem nf_pure {α} (a : α) (s : PState) : nf (pure a : PM α) s ↔ True := by
  simp [nf, pure, StateT.pure, StateT.run, Except.pure]

theorem nf_fail {α} (e : PFail) (s : PState) : nf (fail e : PM α) s ↔ NotFuel e := by
  simp [nf, NotFuel, fail, throw, throwThe, MonadExceptOf.throw, StateT.run, StateT.lift, bind, Except.bind]

theorem notFuel_err (t : Tok) (m : String) : NotFuel (newParseError t m) ↔ True :=
  iff_true_intro (fun h => by cases h)
theorem notFuel_rerr (t1 t2 : Tok) (m : String) : NotFuel (newRangeParseError t1 t2 m) ↔ True :=
  iff_true_intro (fun h => by cases h)
theorem notFuel_fuel : NotFuel .outOfFuel ↔ False := iff_false_intro (fun h => h rfl)

theorem nf_ite {α} (c : Prop) [Decidable c] (a b : PM α) (s : PState) :
    nf (if c then a else b) s ↔ if c then nf a s else nf b s := by
  split <;> rfl

theorem nf_get (s : PState) : nf (get : PM PState) s ↔ True := by
  simp [nf, StateT.run, get, getThe, MonadStateOf.get, StateT.get, pure, Except.pure]
theorem nf_modify (f : PState → PState) (s : PState) : nf (modify f : PM PUnit) s ↔ True := by
  simp [nf, StateT.run, modify, modifyGet, MonadStateOf.modifyGet, StateT.modifyGet, pure, Except.pure]
theorem nf_cur (s : PState) : nf cur s ↔ True := by
  unfold cur; simp only [nf_bind, nf_get, nf_pure, wp_get, and_self]
theorem nf_peekAt (n : Nat) (s : PState) : nf (peekAt n) s ↔ True := by
  unfold peekAt; simp only [nf_bind, nf_get, nf_pure, wp_get, and_self]
theorem nf_peek (s : PState) : nf peek s ↔ True := nf_peekAt 1 s
theorem nf_nextToken (s : PState) : nf nextToken s ↔ True := by unfold nextToken; exact nf_modify _ s
theorem nf_curIs (t : TT) (s : PState) : nf (curIs t) s ↔ True := by
  unfold curIs; simp only [nf_bind, nf_cur, nf_pure, wp_cur, and_self]
theorem nf_tryReplace (v : String) (s : PState) : nf (tryReplaceWithConstant v) s ↔ True := by
  unfold tryReplaceWithConstant; simp only [nf_bind, nf_get, nf_pure, wp_get, and_self]

/-- Symbolic execution for `nf`. -/
syntax "nfsimp" (" [" Lean.Parser.Tactic.simpLemma,* "]")? : tactic
macro_rules
  | `(tactic| nfsimp) => `(tactic| wpsimp [nf_bind, nf_pure, nf_fail, nf_ite, notFuel_err, notFuel_rerr,
      notFuel_fuel, nf_get, nf_modify, nf_cur, nf_peek, nf_nextToken, nf_curIs, nf_tryReplace, and_true, true_and])
  | `(tactic| nfsimp [$ts,*]) => `(tactic| wpsimp [nf_bind, nf_pure, nf_fail, nf_ite, notFuel_err, notFuel_rerr,
      notFuel_fuel, nf_get, nf_modify, nf_cur, nf_peek, nf_nextToken, nf_curIs, nf_tryReplace, and_true, true_and,
      $ts,*])

/-- After the window is exhausted the current token is the `EOF` token. -/
theorem headD_tail_eof {l : List Tok} {eof : Tok} (he : eof.type = .EOF)
    (h : ¬ ((l.tail.headD eof).type == TT.EOF) = true) : l.tail.length + 1 ≤ l.length ∧ l.tail ≠ [] := by
  cases l with
  | nil => simp [he] at h
  | cons x r =>
    cases r with
    | nil => simp [he] at h
    | cons y r' => simp

theorem collectUntil_fuel_partial (stop : Tok → Bool) (onEOF : PFail) (ho : NotFuel onEOF) :
    ∀ (n : Nat) (parts : List String) (s : PState), s.eof.type = .EOF → s.toks.length + 1 ≤ n →
      nf (collectUntil stop onEOF n parts) s := by
  intro n
  induction n with
  | zero => intro parts s _ h; omega
  | succ n ih =>
    intro parts s he hn
    rw [collectUntil]
    nfsimp [iff_true_intro ho]
    split
    · trivial
    · split
      · trivial
      · rename_i _ h
        have := headD_tail_eof he h
        exact ih _ _ he (by simp only [upd_toks]; omega)

/-- A current token that is not `EOF` is a real token of the window. -/
theorem headD_not_eof {l : List Tok} {eof : Tok} (he : eof.type = .EOF)
    (h : ¬ ((l.headD eof).type == TT.EOF) = true) : l.tail.length + 1 ≤ l.length := by
  cases l with
  | nil => simp [he] at h
  | cons x r => simp

theorem tableCollect_fuel_partial (stop : Tok → Bool) (onEOF : PFail) (ho : NotFuel onEOF) :
    ∀ (n : Nat) (acc : String) (s : PState), s.eof.type = .EOF → s.toks.length + 1 ≤ n →
      nf (tableCollect stop onEOF n acc) s := by
  intro n
  induction n with
  | zero => intro acc s _ h; omega
  | succ n ih =>
    intro acc s he hn
    rw [tableCollect]
    nfsimp [iff_true_intro ho]
    split
    · trivial
    · split
      · trivial
      · rename_i _ h
        have := headD_tail_eof he h
        exact ih _ _ he (by simp only [upd_toks]; omega)

theorem valueLoop_fuel_partial (vt : Tok) :
    ∀ (n k : Nat) (parts : List String) (s : PState), s.eof.type = .EOF → s.toks.length + 1 ≤ n →
      nf (valueLoop vt n k parts) s := by
  intro n
  induction n with
  | zero => intro k parts s _ h; omega
  | succ n ih =>
    intro k parts s he hn
    rw [valueLoop]
    nfsimp
    split
    · trivial
    · split
      · trivial
      · rename_i _ h
        have := headD_tail_eof he h
        exact ih _ _ _ he (by simp only [upd_toks]; omega)

theorem collectUntilRange_fuel_partial (st : Tok) :
    ∀ (n : Nat) (parts : List String) (s : PState), s.eof.type = .EOF → s.toks.length + 1 ≤ n →
      nf (parseConditionVarOperator.collectUntilRange st n parts) s := by
  intro n
  induction n with
  | zero => intro parts s _ h; omega
  | succ n ih =>
    intro parts s he hn
    rw [parseConditionVarOperator.collectUntilRange]
    nfsimp
    split
    · trivial
    · split
      · trivial
      · rename_i _ h
        have := headD_tail_eof he h
        exact ih _ _ he (by simp only [upd_toks]; omega)

theorem switchOperandLoop_fuel_partial (ot : Tok) :
    ∀ (n : Nat) (parts : List String) (s : PState), s.eof.type = .EOF → s.toks.length + 1 ≤ n →
      nf (parseSwitchStatement.switchOperandLoop ot n parts) s := by
  intro n
  induction n with
  | zero => intro parts s _ h; omega
  | succ n ih =>
    intro parts s he hn
    rw [parseSwitchStatement.switchOperandLoop]
    nfsimp
    split
    · trivial
    · split
      · trivial
      · rename_i _ h
        have := headD_not_eof he h
        exact ih _ _ he (by simp only [upd_toks]; omega)

theorem constLoop_fuel_partial :
    ∀ (n : Nat) (acc : String) (s : PState), s.eof.type = .EOF → s.toks.length + 1 ≤ n →
      nf (constLoop n acc) s := by
  intro n
  induction n with
  | zero => intro acc s _ h; omega
  | succ n ih =>
    intro acc s he hn
    rw [constLoop]
    nfsimp
    split
    · trivial
    · rename_i h
      have h' : ¬ ((s.toks.headD s.eof).type == TT.EOF) = true := by
        intro hc; apply h; rw [hc]; exact Bool.or_true _
      have := headD_not_eof he h'
      exact ih _ _ he (by simp only [upd_toks]; omega)

/-- The full property (not proved): on a token list that ends with an `EOF` token the parser does
not run out of the fuel `parseTokens` gives it. -/
def parser_total_full : Prop :=
  ∀ (env : Env) (toks : List Tok), (toks.getLastD { type := .EOF }).type = .EOF →
    parseTokens env toks ≠ .error .outOfFuel

/-! ### the `EOF` assumption is necessary -/
section Example
private def tk (t : TT) (l : String := "") : Tok := { type := t, lit := l }

set_option maxRecDepth 20000 in
/-- `script S { c ( x` without a final `EOF` token: the argument loop never sees `)` or `EOF`. -/
theorem outOfFuel_reachable_without_eof :
    parseTokens {} [tk .SCRIPT, tk .IDENT "S", tk .LBRACE, tk .IDENT "c", tk .LPAREN, tk .IDENT "x"] =
      .error .outOfFuel := by rfl

set_option maxRecDepth 20000 in
/-- With the `EOF` token the same input is answered with a located error. -/
example : ∃ e, parseTokens {}
    [tk .SCRIPT, tk .IDENT "S", tk .LBRACE, tk .IDENT "c", tk .LPAREN, tk .IDENT "x", tk .EOF] =
      .error (.err e) := ⟨_, rfl⟩

/-- Non-vacuity of the loop facts: three tokens, fuel 4. -/
example : nf (collectUntil (fun t => t.type == .RPAREN) (newParseError (tk .EOF) "eof") 4 [])
    { toks := [tk .IDENT "a", tk .IDENT "b", tk .RPAREN], eof := tk .EOF } :=
  collectUntil_fuel_partial _ _ (fun h => by cases h) 4 [] _ rfl (by decide)
end Example

end Pory.Parser
