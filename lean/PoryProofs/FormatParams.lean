import PoryProofs.BoolParseLeaf
/-
Helpers for C07b (parameter resolution of `format(...)`).

* reference syntax of a written parameter list: `Pos` (the positional prefix), `NamedP` (one named
  parameter `name = value [,]`), `Params`; printers to tokens; `Written` (which token, if any, gives
  each of the four settings) and `Params.written`;
* `resolve` : the box geometry for a `Written` (the rule the MODEL implements, see the header of
  `PoryProofs/Properties/C07b.lean` for the one point where it differs from the documentation,
  `resolveDoc`);
* the tail of `parseFormatStringOperator` as separate definitions (`tailM`, `namedTail`; tied to the
  model in `PoryProofs/FormatParamsShapes.lean`) evaluated once (`tailM_run`, `namedTail_run`);
* run-lemmas for `formatNamedParams`: one step (`fnp_step`), every rejection (`fnp_unknown`,
  `fnp_noassign`, `fnp_dup`, `fnp_badval`, `fnp_afterComma`), a printed prefix (`fnp_prefix`) and
  the whole loop (`fnp_all`).
`parseFormatStringOperator` itself is evaluated shape by shape in
`PoryProofs/FormatParamsShapes.lean`; the property theorems are in
`PoryProofs/Properties/C07b.lean`.

Run-lemmas of the parser monad (`st`, `run_cur`, …) come from `PoryProofs/BoolParseLeaf.lean`.
-/
namespace Pory.C07b
open Pory Pory.Parser Pory.C02P

/-! ### reference syntax -/

/-- The four named parameters of `format()`. -/
inductive PName | fontId | maxLineLength | numLines | cursorOverlapWidth
  deriving DecidableEq, Repr

def PName.str : PName → String
  | .fontId => "fontId" | .maxLineLength => "maxLineLength" | .numLines => "numLines"
  | .cursorOverlapWidth => "cursorOverlapWidth"

/-- Type of the value token of a named parameter. -/
def PName.valTT : PName → TT
  | .fontId => .STRING | _ => .INT

theorem PName.str_inj {a b : PName} (h : a.str = b.str) : a = b := by
  cases a <;> cases b <;> first | rfl | (exact absurd h (by decide))

theorem PName.str_mem (a : PName) : Facts.namedParameters.contains a.str = true := by
  cases a <;> decide

/-- Which token (if any) of the written parameter list determines each setting. -/
structure Written where
  font? : Option Tok := none       -- a STRING token
  maxLen? : Option Tok := none     -- an INT token
  numLines? : Option Tok := none
  overlap? : Option Tok := none

/-- One named parameter `name = value`, optionally followed by a comma. Tokens are arbitrary
records (any positions) constrained only by `NamedP.WF`. -/
structure NamedP where
  name : PName
  nameTok : Tok
  eq : Tok
  val : Tok
  sep : Option Tok

def NamedP.WF (n : NamedP) : Prop :=
  n.nameTok.type = .IDENT ∧ n.nameTok.lit = n.name.str ∧ n.eq.type = .ASSIGN ∧
  n.val.type = n.name.valTT ∧ ∀ c, n.sep = some c → c.type = .COMMA

def NamedP.toks (n : NamedP) : List Tok := n.nameTok :: n.eq :: n.val :: n.sep.toList

/-- Last token of the printed parameter. -/
def NamedP.last (n : NamedP) : Tok := n.sep.getD n.val

def NamedP.set (w : Written) (n : NamedP) : Written :=
  match n.name with
  | .fontId => { w with font? := some n.val }
  | .maxLineLength => { w with maxLen? := some n.val }
  | .numLines => { w with numLines? := some n.val }
  | .cursorOverlapWidth => { w with overlap? := some n.val }

def printNamed : List NamedP → List Tok
  | [] => []
  | n :: r => n.toks ++ printNamed r

/-- What may follow the named parameter `n`: after a comma a name or `)`, otherwise anything but a
comma (which would be that comma). -/
def StepOK (n : NamedP) (nx : Tok) : Prop :=
  match n.sep with
  | some _ => nx.type = .IDENT ∨ nx.type = .RPAREN
  | none => nx.type ≠ .COMMA

/-- `StepOK` for the last parameter of the list. -/
def LastOK : List NamedP → Tok → Prop
  | [], _ => True
  | [n], nx => StepOK n nx
  | _ :: m :: r, nx => LastOK (m :: r) nx

theorem lastOK_of (nx : Tok) (h : ∀ n, StepOK n nx) : ∀ ns, LastOK ns nx
  | [] => trivial
  | [n] => h n
  | _ :: m :: r => lastOK_of nx h (m :: r)

theorem stepOK_ident (n : NamedP) (nx : Tok) (h : nx.type = .IDENT) : StepOK n nx := by
  unfold StepOK; cases n.sep <;> simp [h]

theorem stepOK_rparen (n : NamedP) (nx : Tok) (h : nx.type = .RPAREN) : StepOK n nx := by
  unfold StepOK; cases n.sep <;> simp [h]

/-- The token the window is left on after the list (`c` = the token before the list). -/
def lastTok (c : Tok) : List NamedP → Tok
  | [] => c
  | n :: r => lastTok n.last r

/-- The positional prefix (each parameter with the comma before it). -/
inductive Pos
  | none
  | font (c f : Tok)                 -- `, "font"`
  | len (c n : Tok)                  -- `, 100`
  | fontLen (c1 f c2 n : Tok)        -- `, "font", 100`
  | lenFont (c1 n c2 f : Tok)        -- `, 100, "font"`

def Pos.WF : Pos → Prop
  | .none => True
  | .font c f => c.type = .COMMA ∧ f.type = .STRING
  | .len c n => c.type = .COMMA ∧ n.type = .INT
  | .fontLen c1 f c2 n => c1.type = .COMMA ∧ f.type = .STRING ∧ c2.type = .COMMA ∧ n.type = .INT
  | .lenFont c1 n c2 f => c1.type = .COMMA ∧ n.type = .INT ∧ c2.type = .COMMA ∧ f.type = .STRING

def Pos.toks : Pos → List Tok
  | .none => []
  | .font c f => [c, f]
  | .len c n => [c, n]
  | .fontLen c1 f c2 n => [c1, f, c2, n]
  | .lenFont c1 n c2 f => [c1, n, c2, f]

def Pos.written : Pos → Written
  | .none => {}
  | .font _ f => { font? := some f }
  | .len _ n => { maxLen? := some n }
  | .fontLen _ f _ n => { font? := some f, maxLen? := some n }
  | .lenFont _ n _ f => { font? := some f, maxLen? := some n }

/-- The name the MODEL records as already specified after the positional prefix: only the FIRST
positional parameter is recorded. -/
def Pos.first : Pos → Option PName
  | .none => Option.none
  | .font .. | .fontLen .. => some .fontId
  | .len .. | .lenFont .. => some .maxLineLength

/-- Both names given positionally (what the documentation's "no repetition" refers to). -/
def Pos.names : Pos → List PName
  | .none => []
  | .font .. => [.fontId]
  | .len .. => [.maxLineLength]
  | .fontLen .. => [.fontId, .maxLineLength]
  | .lenFont .. => [.maxLineLength, .fontId]

def Pos.spec (p : Pos) : List String := (p.first.map PName.str).toList

def Pos.had : Pos → Bool
  | .none => false
  | _ => true

/-- The current token after the prefix (`text` = the text token before it). -/
def Pos.lastTok (text : Tok) : Pos → Tok
  | .none => text
  | .font _ f => f
  | .len _ n => n
  | .fontLen _ _ _ n => n
  | .lenFont _ _ _ f => f

/-- What must follow `pos ,` for the parser to enter the named-parameter loop. -/
def Pos.ReachOK : Pos → Tok → Prop
  | .none, nt => nt.type ≠ .INT ∧ nt.type ≠ .STRING
  | .font .., nt => nt.type = .IDENT
  | .len .., nt => nt.type = .IDENT
  | .fontLen .., _ => True
  | .lenFont .., _ => True

theorem Pos.reachOK_ident (p : Pos) (nt : Tok) (h : nt.type = .IDENT) : p.ReachOK nt := by
  cases p <;> simp [Pos.ReachOK, h]

/-- A written parameter list: positional prefix, then (if `named ≠ []`) `comma` and the named
parameters. -/
structure Params where
  pos : Pos
  comma : Tok
  named : List NamedP

def Params.toks (P : Params) : List Tok :=
  P.pos.toks ++ match P.named with
    | [] => []
    | n :: r => P.comma :: printNamed (n :: r)

def Params.WF (P : Params) : Prop :=
  P.pos.WF ∧ (P.named ≠ [] → P.comma.type = .COMMA) ∧ ∀ n ∈ P.named, n.WF

/-- The MODEL's repetition rule: named parameters pairwise different and different from the first
positional parameter. -/
def Params.NoRep (P : Params) : Prop :=
  (P.named.map (·.name)).Nodup ∧ ∀ n ∈ P.named, P.pos.first ≠ some n.name

/-- The documented repetition rule: no name twice, positional ones included. -/
def Params.NoRepDoc (P : Params) : Prop :=
  (P.pos.names ++ P.named.map (·.name)).Nodup

theorem Params.noRep_of_doc (P : Params) (h : P.NoRepDoc) : P.NoRep := by
  unfold Params.NoRepDoc at h
  rw [List.nodup_append] at h
  refine ⟨h.2.1, fun n hn he => ?_⟩
  have hm : n.name ∈ P.named.map (·.name) := List.mem_map.mpr ⟨n, hn, rfl⟩
  have hp : n.name ∈ P.pos.names := by
    revert he
    cases P.pos <;> simp [Pos.first, Pos.names] <;> intro h <;> simp [← h]
  exact h.2.2 _ hp _ hm rfl

def Params.written (P : Params) : Written := P.named.foldl NamedP.set P.pos.written

/-! ### resolution -/

/-- The box geometry handed to `Fmt.formatText`. -/
structure Resolved where
  fontID : String
  maxLineLength : Int
  cursorOverlapWidth : Int
  numLines : Int
  deriving DecidableEq, Repr

/-- Go's `strconv.ParseInt(lit, 0, 64)` with the error dropped, as the parser uses it. -/
def valOf (t : Tok) : Int := parseIntVal t.lit

/-- The font id in force: the written one, else `-f`, else the font config's default. -/
def fontOf (env : Env) (w : Written) : String :=
  match w.font? with
  | some t => t.lit
  | none => if env.defaultFontID ≠ "" then env.defaultFontID else env.fonts.defaultFontID

/-- Resolution as the MODEL (and `parser.go`) performs it.
* font id: written, else `-f`, else the font config's `defaultFontId`;
* maxLineLength: the written value if positive; if a value was written but is not positive, the
  font's `maxLineLength` (NOT `-l`); if none was written, `-l` if positive, else the font's;
* numLines: the written value if positive, else the font's if positive, else 2;
* cursorOverlapWidth: the written value if positive, else the font's. -/
def resolve (env : Env) (w : Written) : Resolved :=
  let font := env.fonts.font (fontOf env w)
  { fontID := fontOf env w
    maxLineLength :=
      match w.maxLen? with
      | some t => if 0 < valOf t then valOf t else font.maxLineLength
      | none => if 0 < env.maxLineLength then env.maxLineLength else font.maxLineLength
    cursorOverlapWidth :=
      match w.overlap? with
      | some t => if 0 < valOf t then valOf t else font.cursorOverlapWidth
      | none => font.cursorOverlapWidth
    numLines :=
      match w.numLines? with
      | some t => if 0 < valOf t then valOf t else if 0 < font.numLines then font.numLines else 2
      | none => if 0 < font.numLines then font.numLines else 2 }

/-- Resolution as documented in the task: a missing OR non-positive maxLineLength falls back to
`-l`, then to the font. Differs from `resolve` only in that case. -/
def resolveDoc (env : Env) (w : Written) : Resolved :=
  let font := env.fonts.font (fontOf env w)
  { resolve env w with
    maxLineLength :=
      match w.maxLen? with
      | some t =>
        if 0 < valOf t then valOf t
        else if 0 < env.maxLineLength then env.maxLineLength else font.maxLineLength
      | none => if 0 < env.maxLineLength then env.maxLineLength else font.maxLineLength }

/-- The result of `parseFormatStringOperator` once the parameters are resolved: format the text;
an unknown font is an error (located at `errTok`) only with environment errors enabled. -/
def outcome (env : Env) (text : Tok) (stringType : String) (r : Resolved) (errTok : Tok)
    (s' : PState) : Except PFail ((Tok × String × String) × PState) :=
  match Fmt.formatText env.fonts text.lit.toList r.maxLineLength r.cursorOverlapWidth r.fontID
      r.numLines with
  | .ok formatted => .ok ((text, String.ofList formatted, stringType), s')
  | .error msg =>
    if env.envErrors then .error (newParseError errTok msg) else .ok ((text, "", stringType), s')

/-! ### the model's accumulator -/

def intOf (t : Option Tok) (d : Int) : Int :=
  match t with
  | some t => valOf t
  | none => d

/-- The `FmtParams` the parser holds when the settings written so far are `w`. -/
def fpOf (env : Env) (w : Written) (spec : List String) (had : Bool) : FmtParams :=
  { fontID := fontOf env w
    fontIdToken := w.font?.getD {}
    maxLineLength := intOf w.maxLen? env.maxLineLength
    numLines := intOf w.numLines? (-1)
    cursorOverlapWidth := intOf w.overlap? (-1)
    specified := spec
    hadParam := had }

/-- Effect of one named parameter on the accumulator. -/
def applyNamed (fp : FmtParams) (n : NamedP) : FmtParams :=
  match n.name with
  | .fontId =>
    { fp with hadParam := true, specified := n.name.str :: fp.specified, fontID := n.val.lit,
              fontIdToken := n.val }
  | .maxLineLength =>
    { fp with hadParam := true, specified := n.name.str :: fp.specified,
              maxLineLength := parseIntVal n.val.lit }
  | .numLines =>
    { fp with hadParam := true, specified := n.name.str :: fp.specified,
              numLines := parseIntVal n.val.lit }
  | .cursorOverlapWidth =>
    { fp with hadParam := true, specified := n.name.str :: fp.specified,
              cursorOverlapWidth := parseIntVal n.val.lit }

theorem applyNamed_specified (fp : FmtParams) (n : NamedP) :
    (applyNamed fp n).specified = n.name.str :: fp.specified := by
  unfold applyNamed; cases n.name <;> rfl

theorem applyNamed_fpOf (env : Env) (w : Written) (spec : List String) (had : Bool) (n : NamedP) :
    applyNamed (fpOf env w spec had) n = fpOf env (n.set w) (n.name.str :: spec) true := by
  obtain ⟨name, nameTok, eq, val, sep⟩ := n
  cases name <;> rfl

/-- The `specified` list after the named parameters `ns`. -/
def specAfter (spec : List String) : List NamedP → List String
  | [] => spec
  | n :: r => specAfter (n.name.str :: spec) r

theorem mem_specAfter (x : String) : ∀ (ns : List NamedP) (spec : List String),
    x ∈ specAfter spec ns ↔ x ∈ spec ∨ ∃ n ∈ ns, n.name.str = x
  | [], spec => by simp [specAfter]
  | n :: r, spec => by
    rw [specAfter, mem_specAfter x r]
    simp only [List.mem_cons, exists_eq_or_imp]
    constructor
    · rintro ((h | h) | h)
      · exact .inr (.inl h.symm)
      · exact .inl h
      · exact .inr (.inr h)
    · rintro (h | h | h)
      · exact .inl (.inr h)
      · exact .inl (.inl h.symm)
      · exact .inr h

theorem foldl_applyNamed_fpOf (env : Env) : ∀ (ns : List NamedP) (w : Written) (spec : List String)
    (had : Bool),
    ns.foldl applyNamed (fpOf env w spec had) =
      fpOf env (ns.foldl NamedP.set w) (specAfter spec ns) (had || !ns.isEmpty)
  | [], w, spec, had => by simp [specAfter]
  | n :: r, w, spec, had => by
    rw [List.foldl_cons, applyNamed_fpOf, foldl_applyNamed_fpOf env r]
    simp [specAfter]

theorem foldl_applyNamed_specified : ∀ (ns : List NamedP) (fp : FmtParams),
    (ns.foldl applyNamed fp).specified = specAfter fp.specified ns
  | [], fp => rfl
  | n :: r, fp => by
    rw [List.foldl_cons, foldl_applyNamed_specified r, applyNamed_specified]; rfl

/-- The model's resolution of the accumulated parameters (end of `parseFormatStringOperator`). -/
def resolveFp (env : Env) (fp : FmtParams) : Resolved :=
  let font := env.fonts.font fp.fontID
  { fontID := fp.fontID
    maxLineLength := if fp.maxLineLength ≤ 0 then font.maxLineLength else fp.maxLineLength
    cursorOverlapWidth :=
      if fp.cursorOverlapWidth ≤ 0 then font.cursorOverlapWidth else fp.cursorOverlapWidth
    numLines :=
      if fp.numLines ≤ 0 then (if font.numLines ≤ 0 then 2 else font.numLines) else fp.numLines }

/-- The token an unknown-font error is reported at. -/
def errTokFp (text : Tok) (fp : FmtParams) : Tok :=
  if fp.fontIdToken.type != .STRING then text else fp.fontIdToken

theorem ite_le_zero (v a : Int) : (if v ≤ 0 then a else v) = if 0 < v then v else a := by
  by_cases h : v ≤ 0
  · have : ¬ 0 < v := by omega
    simp [h, this]
  · have : 0 < v := by omega
    simp [h, this]

theorem resolveFp_fpOf (env : Env) (w : Written) (spec : List String) (had : Bool) :
    resolveFp env (fpOf env w spec had) = resolve env w := by
  obtain ⟨fo, ml, nl, ov⟩ := w
  simp only [resolveFp, fpOf, resolve]
  cases ml <;> cases nl <;> cases ov <;> simp only [intOf] <;> grind

/-- Written font tokens are STRING tokens. -/
def Written.FontOK (w : Written) : Prop := ∀ t, w.font? = some t → t.type = .STRING

theorem errTokFp_fpOf (env : Env) (text : Tok) (w : Written) (spec : List String) (had : Bool)
    (hw : w.FontOK) : errTokFp text (fpOf env w spec had) = w.font?.getD text := by
  unfold errTokFp fpOf
  cases h : w.font? with
  | none => simp
  | some t => simp [hw t h]

theorem set_fontOK (w : Written) (n : NamedP) (hn : n.WF) (hw : w.FontOK) : (n.set w).FontOK := by
  obtain ⟨name, nameTok, eq, val, sep⟩ := n
  cases name
  · intro t ht
    simp [NamedP.set] at ht
    subst ht
    exact hn.2.2.2.1
  all_goals exact hw

theorem foldl_set_fontOK : ∀ (ns : List NamedP) (w : Written), (∀ n ∈ ns, n.WF) → w.FontOK →
    (ns.foldl NamedP.set w).FontOK
  | [], _, _, hw => hw
  | n :: r, w, hns, hw =>
    foldl_set_fontOK r _ (fun m hm => hns m (by simp [hm]))
      (set_fontOK w n (hns n (by simp)) hw)

theorem Pos.written_fontOK (p : Pos) (hp : p.WF) : p.written.FontOK := by
  cases p <;> intro t ht <;> simp [Pos.written] at ht <;> subst ht
  · exact hp.2
  · exact hp.2.1
  · exact hp.2.2.2

theorem Params.written_fontOK (P : Params) (hP : P.WF) : P.written.FontOK :=
  foldl_set_fontOK _ _ hP.2.2 (P.pos.written_fontOK hP.1)

/-! ### the tail of `parseFormatStringOperator` -/

/-- From the closing parenthesis on (copy of the model's code; tied to the model by the `reach_*`
and `posOnly_*` lemmas below). -/
def tailM (env : Env) (textToken : Tok) (stringType : String) (fp : FmtParams) :
    PM (Tok × String × String) := do
  if !(← expectPeek .RPAREN) then
    fail (newParseError (← peek) "missing closing parenthesis ')' for format()")
  let font := env.fonts.font fp.fontID
  let maxLineLength := if fp.maxLineLength ≤ 0 then font.maxLineLength else fp.maxLineLength
  let numLines :=
    if fp.numLines ≤ 0 then (if font.numLines ≤ 0 then 2 else font.numLines) else fp.numLines
  let overlap := if fp.cursorOverlapWidth ≤ 0 then font.cursorOverlapWidth else fp.cursorOverlapWidth
  match Fmt.formatText env.fonts textToken.lit.toList maxLineLength overlap fp.fontID numLines with
  | .ok formatted => return (textToken, String.ofList formatted, stringType)
  | .error msg =>
    if env.envErrors then
      let t := if fp.fontIdToken.type != .STRING then textToken else fp.fontIdToken
      fail (newParseError t msg)
    else return (textToken, "", stringType)

/-- The tail after the named-parameter loop: the `hadParam` check, then `tailM`. -/
def namedTail (env : Env) (textToken : Tok) (stringType : String) (fp : FmtParams) :
    PM (Tok × String × String) := do
  if !fp.hadParam then
    let pk ← peek
    fail (newParseError pk s!"invalid format() parameter '{pk.lit}'")
  tailM env textToken stringType fp

def missingParen (x : Tok) : PFail :=
  newParseError x "missing closing parenthesis ')' for format()"

theorem tailM_run (env : Env) (text : Tok) (sty : String) (fp : FmtParams) (s : PState)
    (c x : Tok) (rest : List Tok) :
    (tailM env text sty fp).run (st s (c :: x :: rest)) =
      if x.type = .RPAREN then
        outcome env text sty (resolveFp env fp) (errTokFp text fp) (st s (x :: rest))
      else .error (missingParen x) := by
  by_cases hx : x.type = .RPAREN
  · simp only [hx, if_true]
    unfold tailM outcome resolveFp errTokFp
    simp only [hx, StateT.run_bind, run_expectPeek, st_toks, getD_one, beq_self_eq_true, if_true,
      ex_bind_ok, Bool.not_true, Bool.false_eq_true, if_false, List.tail_cons, st_st]
    cases Fmt.formatText env.fonts text.lit.toList
        (if fp.maxLineLength ≤ 0 then (env.fonts.font fp.fontID).maxLineLength else fp.maxLineLength)
        (if fp.cursorOverlapWidth ≤ 0 then (env.fonts.font fp.fontID).cursorOverlapWidth
          else fp.cursorOverlapWidth)
        fp.fontID
        (if fp.numLines ≤ 0 then (if (env.fonts.font fp.fontID).numLines ≤ 0 then 2
          else (env.fonts.font fp.fontID).numLines) else fp.numLines) with
    | ok out => simp
    | error msg => cases env.envErrors <;> simp
  · simp [tailM, hx, missingParen]

theorem namedTail_run (env : Env) (text : Tok) (sty : String) (fp : FmtParams) (s : PState)
    (c x : Tok) (rest : List Tok) :
    (namedTail env text sty fp).run (st s (c :: x :: rest)) =
      if fp.hadParam then (tailM env text sty fp).run (st s (c :: x :: rest))
      else .error (newParseError x s!"invalid format() parameter '{x.lit}'") := by
  unfold namedTail
  cases fp.hadParam <;> simp

/-! ### `formatNamedParams`: one step -/

theorem fnp_stop (f : Nat) (fp : FmtParams) (s : PState) (c nx : Tok) (tl : List Tok)
    (h : nx.type ≠ .IDENT) :
    (formatNamedParams (f + 1) fp).run (st s (c :: nx :: tl)) = .ok (fp, st s (c :: nx :: tl)) := by
  rw [formatNamedParams]
  simp [h]

theorem fnp_step (f : Nat) (fp : FmtParams) (s : PState) (c : Tok) (n : NamedP) (nx : Tok)
    (tl : List Tok) (hwf : n.WF) (hnew : n.name.str ∉ fp.specified) (hok : StepOK n nx) :
    (formatNamedParams (f + 1) fp).run (st s (c :: n.toks ++ nx :: tl)) =
      (formatNamedParams f (applyNamed fp n)).run (st s (n.last :: nx :: tl)) := by
  obtain ⟨name, nameTok, eq, val, sep⟩ := n
  obtain ⟨h1, h2, h3, h4, h5⟩ := hwf
  simp only at h1 h2 h3 h4 h5 hnew
  rw [formatNamedParams]
  cases name <;> cases sep <;>
    simp only [PName.str, PName.valTT, StepOK] at h2 h4 hnew hok
  case fontId.none | maxLineLength.none | numLines.none | cursorOverlapWidth.none =>
    all_goals
      simp [NamedP.toks, NamedP.last, applyNamed, PName.str, Facts.namedParameters,
        Facts.formatParamFontId, Facts.formatParamMaxLineLength, Facts.formatParamNumLines,
        Facts.formatParamCursorOverlapWidth, h1, h2, h3, h4, hnew, hok]
  all_goals
    have h6 := h5 _ rfl
    have h7 : ¬ (¬ nx.type = TT.IDENT ∧ ¬ nx.type = TT.RPAREN) := by
      rcases hok with h | h <;> simp [h]
    simp [NamedP.toks, NamedP.last, applyNamed, PName.str, Facts.namedParameters,
      Facts.formatParamFontId, Facts.formatParamMaxLineLength, Facts.formatParamNumLines,
      Facts.formatParamCursorOverlapWidth, h1, h2, h3, h4, hnew, h6, h7]

theorem PName.str_mem' (a : PName) : a.str ∈ Facts.namedParameters := by
  cases a <;> decide

/-- (`l` is a variable on purpose: with `nameTok.lit` in its place `simp` unfolds string literals.) -/
theorem fnp_unknown' (f : Nat) (fp : FmtParams) (s : PState) (c nameTok : Tok) (tl : List Tok)
    (l : String) (h1 : nameTok.type = .IDENT) (hl : nameTok.lit = l)
    (h2 : l ∉ Facts.namedParameters) :
    (formatNamedParams (f + 1) fp).run (st s (c :: nameTok :: tl)) =
      .error (newParseError nameTok s!"invalid format() named parameter '{l}'") := by
  rw [formatNamedParams]
  simp [h1, hl, h2]

/-- An identifier that is not one of the four names: error at that identifier. -/
theorem fnp_unknown (f : Nat) (fp : FmtParams) (s : PState) (c nameTok : Tok) (tl : List Tok)
    (h1 : nameTok.type = .IDENT) (h2 : nameTok.lit ∉ Facts.namedParameters) :
    (formatNamedParams (f + 1) fp).run (st s (c :: nameTok :: tl)) =
      .error (newParseError nameTok s!"invalid format() named parameter '{nameTok.lit}'") :=
  fnp_unknown' f fp s c nameTok tl _ h1 rfl h2

/-- A known name not followed by `=`: error at the token after the name. -/
theorem fnp_noassign (f : Nat) (fp : FmtParams) (s : PState) (c nameTok nx : Tok) (tl : List Tok)
    (name : PName) (h1 : nameTok.type = .IDENT) (h2 : nameTok.lit = name.str)
    (h3 : nx.type ≠ .ASSIGN) :
    (formatNamedParams (f + 1) fp).run (st s (c :: nameTok :: nx :: tl)) =
      .error (newParseError nx s!"missing '=' after format() named parameter '{name.str}'") := by
  rw [formatNamedParams]
  have hm := PName.str_mem' name
  simp only [StateT.run_bind, run_peekIs, st_toks, getD_one, h1, ex_bind_ok, beq_self_eq_true,
    Bool.not_true, Bool.false_eq_true, if_false, run_nextToken, List.tail_cons, st_st, run_cur,
    List.headD_cons, List.contains_eq_mem, h2, hm, decide_true, if_true, run_fail,
    ex_bind_err, run_expectPeek, h3, beq_iff_eq, run_peek, Bool.not_false]

/-- A name that was already given (by name, or as the first positional parameter): error at the
name token. -/
theorem fnp_dup (f : Nat) (fp : FmtParams) (s : PState) (c nameTok eq : Tok) (tl : List Tok)
    (name : PName) (h1 : nameTok.type = .IDENT) (h2 : nameTok.lit = name.str)
    (h3 : eq.type = .ASSIGN) (hdup : name.str ∈ fp.specified) :
    (formatNamedParams (f + 1) fp).run (st s (c :: nameTok :: eq :: tl)) =
      .error (newParseError nameTok s!"duplicate parameter '{name.str}'") := by
  rw [formatNamedParams]
  have hm := PName.str_mem' name
  simp only [StateT.run_bind, run_peekIs, st_toks, getD_one, h1, ex_bind_ok, beq_self_eq_true,
    Bool.not_true, Bool.false_eq_true, if_false, run_nextToken, List.tail_cons, st_st, run_cur,
    List.headD_cons, List.contains_eq_mem, h2, hm, decide_true, if_true, run_fail,
    ex_bind_err, run_expectPeek, h3, beq_iff_eq, hdup]

def badValueMsg (name : PName) (lit : String) : String :=
  match name with
  | .fontId => s!"invalid {Facts.formatParamFontId} '{lit}'. Expected string"
  | .maxLineLength => s!"invalid {Facts.formatParamMaxLineLength} '{lit}'. Expected integer"
  | .numLines => s!"invalid {Facts.formatParamNumLines} '{lit}'. Expected integer"
  | .cursorOverlapWidth => s!"invalid {Facts.formatParamCursorOverlapWidth} '{lit}'. Expected integer"

/-- A value token of the wrong type: error at the value token. -/
theorem fnp_badval (f : Nat) (fp : FmtParams) (s : PState) (c nameTok eq val : Tok) (tl : List Tok)
    (name : PName) (h1 : nameTok.type = .IDENT) (h2 : nameTok.lit = name.str)
    (h3 : eq.type = .ASSIGN) (hnew : name.str ∉ fp.specified) (h4 : val.type ≠ name.valTT) :
    (formatNamedParams (f + 1) fp).run (st s (c :: nameTok :: eq :: val :: tl)) =
      .error (newParseError val (badValueMsg name val.lit)) := by
  rw [formatNamedParams]
  cases name <;> simp only [PName.str, PName.valTT] at h2 h4 hnew <;>
    simp [h1, h2, h3, h4, hnew, Facts.namedParameters, badValueMsg,
      Facts.formatParamFontId, Facts.formatParamMaxLineLength, Facts.formatParamNumLines,
      Facts.formatParamCursorOverlapWidth]

/-- `name = value ,` followed by something that is neither a name nor `)` (a positional parameter
in particular): error at that token. -/
theorem fnp_afterComma (f : Nat) (fp : FmtParams) (s : PState) (c : Tok) (n : NamedP) (cm nx : Tok)
    (tl : List Tok) (hwf : n.WF) (hsep : n.sep = some cm) (hnew : n.name.str ∉ fp.specified)
    (hx1 : nx.type ≠ .IDENT) (hx2 : nx.type ≠ .RPAREN) :
    (formatNamedParams (f + 1) fp).run (st s (c :: n.toks ++ nx :: tl)) =
      .error (newParseError nx s!"invalid parameter '{nx.lit}'. Expected named parameter") := by
  obtain ⟨name, nameTok, eq, val, sep⟩ := n
  obtain ⟨h1, h2, h3, h4, h5⟩ := hwf
  simp only at h1 h2 h3 h4 h5 hnew hsep
  subst hsep
  have h6 := h5 _ rfl
  rw [formatNamedParams]
  cases name <;> simp only [PName.str, PName.valTT] at h2 h4 hnew <;>
    simp [NamedP.toks, Facts.namedParameters,
      Facts.formatParamFontId, Facts.formatParamMaxLineLength, Facts.formatParamNumLines,
      Facts.formatParamCursorOverlapWidth, h1, h2, h3, h4, hnew, h6, hx1, hx2]

/-! ### `formatNamedParams`: a printed prefix -/

theorem printNamed_head (ns : List NamedP) (nx : Tok) (tl : List Tok) (hwf : ∀ n ∈ ns, n.WF)
    (m : NamedP) (hm : LastOK (m :: ns) nx) :
    ∃ a l, printNamed ns ++ nx :: tl = a :: l ∧ StepOK m a := by
  cases ns with
  | nil => exact ⟨nx, tl, rfl, hm⟩
  | cons n r =>
    exact ⟨n.nameTok, _, rfl, stepOK_ident m _ (hwf n (by simp)).1⟩

/-- Running the loop over the printed parameters `ns` (pairwise different names, none specified
before): one unit of fuel per parameter, the accumulator updated by each in turn. -/
theorem fnp_prefix : ∀ (ns : List NamedP) (f : Nat) (fp : FmtParams) (s : PState) (c nx : Tok)
    (tl : List Tok), (∀ n ∈ ns, n.WF) → (ns.map (·.name)).Nodup →
    (∀ n ∈ ns, n.name.str ∉ fp.specified) → LastOK ns nx →
    (formatNamedParams (ns.length + f) fp).run (st s (c :: printNamed ns ++ nx :: tl)) =
      (formatNamedParams f (ns.foldl applyNamed fp)).run (st s (lastTok c ns :: nx :: tl))
  | [], f, fp, s, c, nx, tl, _, _, _, _ => by simp [printNamed, lastTok]
  | n :: r, f, fp, s, c, nx, tl, hwf, hnd, hnew, hlast => by
    have hr : ∀ m ∈ r, m.WF := fun m hm => hwf m (by simp [hm])
    obtain ⟨a, l, heq, ha⟩ := printNamed_head r nx tl hr n hlast
    have hlen : (n :: r).length + f = (r.length + f) + 1 := by simp; omega
    rw [List.map_cons, List.nodup_cons] at hnd
    have hnew' : ∀ m ∈ r, m.name.str ∉ (applyNamed fp n).specified := by
      intro m hm
      rw [applyNamed_specified, List.mem_cons]
      rintro (h | h)
      · exact hnd.1 (List.mem_map.mpr ⟨m, hm, (PName.str_inj h)⟩)
      · exact hnew m (by simp [hm]) h
    have hlast' : LastOK r nx := by
      cases r with
      | nil => trivial
      | cons m r' => exact hlast
    rw [hlen, printNamed, ← List.cons_append, List.append_assoc, heq,
      fnp_step _ fp s c n a l (hwf n (by simp)) (hnew n (by simp)) ha, ← heq, ← List.cons_append,
      fnp_prefix r f _ s n.last nx tl hr hnd.2 hnew' hlast']
    rfl

/-- The whole loop on a printed list followed by a token that is not a name. -/
theorem fnp_all (ns : List NamedP) (f : Nat) (fp : FmtParams) (s : PState) (c nx : Tok)
    (tl : List Tok) (hwf : ∀ n ∈ ns, n.WF) (hnd : (ns.map (·.name)).Nodup)
    (hnew : ∀ n ∈ ns, n.name.str ∉ fp.specified) (hlast : LastOK ns nx) (hnx : nx.type ≠ .IDENT) :
    (formatNamedParams (ns.length + (f + 1)) fp).run (st s (c :: printNamed ns ++ nx :: tl)) =
      .ok (ns.foldl applyNamed fp, st s (lastTok c ns :: nx :: tl)) := by
  rw [fnp_prefix ns (f + 1) fp s c nx tl hwf hnd hnew hlast, fnp_stop _ _ _ _ _ _ hnx]

end Pory.C07b
