import PoryProofs.Properties.C07b
import PoryProofs.Properties.C15b
import PoryProofs.Properties.C09
import PoryProofs.CmdParseImp
/-
Helpers for C09c (text values, parser side).
* run-lemmas for `parseTextValue` on every shape of its input (`ptv_*`), and `ptv_format_eq`
  (`format` branch = `parseFormatStringOperator` + terminator);
* reference syntax `TVal` = `STRING | STRINGTYPE STRING | format ( [STRINGTYPE] STRING <params> )`
  (`Params` of C07b) with `toks`, `WF`, `last`, `strType`, `need` (fuel), `raw` (the text before the
  terminator: literal / `Fmt.formatText` of the literal for the resolved parameters);
  `pfso_run` (C07b `format_params_resolved` in terms of `TVal.raw`), `tval_run`;
* `parseTextStatement` with a failing body / a body not followed by `}`;
* the `format` branch of `cmdArgsLoop` (`cal_format_eq`, `cal_fmt`, `cal_fmt_err`), command arguments
  with inline `format(…)` (`IElem` = `C10c.AElem` + `fmt`; `cal_argI`, `cal_moreI`,
  `parse_command_inline` extending `C10c.parse_command_imp`);
* the inline texts of a command as a list in source order (`textsOfArgsE`, `textsOfArgsI`,
  `impArgs_texts`, `impArgsI_texts`, `textsOfArgsI_mem`).
The property theorems are in `PoryProofs/Properties/C09c.lean`.
-/
namespace Pory.TextValueParse
open Pory Pory.Parser Pory.C02P Pory.TopParse Pory.C07b

/-! ### `parseTextValue`, literal bodies and errors -/

theorem ptv_plain (env : Env) (fuel : Nat) (s : PState) (str : Tok) (tl : List Tok)
    (h : str.type = .STRING) :
    (parseTextValue env fuel).run (st s (str :: tl)) =
      .ok ((formatTextTerminator str.lit "", ""), st s (str :: tl)) := by
  unfold parseTextValue
  simp [h]

theorem ptv_typed (env : Env) (fuel : Nat) (s : PState) (ty str : Tok) (tl : List Tok)
    (hty : ty.type = .STRINGTYPE) (h : str.type = .STRING) :
    (parseTextValue env fuel).run (st s (ty :: str :: tl)) =
      .ok ((formatTextTerminator str.lit ty.lit, ty.lit), st s (str :: tl)) := by
  unfold parseTextValue
  simp [hty, h]

/-- A string type not followed by a string literal: error located on the offending token. -/
theorem ptv_typed_err (env : Env) (fuel : Nat) (s : PState) (ty x : Tok) (tl : List Tok)
    (hty : ty.type = .STRINGTYPE) (h : x.type ≠ .STRING) :
    (parseTextValue env fuel).run (st s (ty :: x :: tl)) =
      .error (newParseError x
        s!"expected a string literal after string type '{ty.lit}'. Got '{x.lit}' instead") := by
  unfold parseTextValue
  simp [hty, h]

/-- … at the end of the token list the offending token is the EOF token. -/
theorem ptv_typed_err_eof (env : Env) (fuel : Nat) (s : PState) (ty : Tok)
    (hty : ty.type = .STRINGTYPE) (h : s.eof.type ≠ .STRING) :
    (parseTextValue env fuel).run (st s [ty]) =
      .error (newParseError s.eof
        s!"expected a string literal after string type '{ty.lit}'. Got '{s.eof.lit}' instead") := by
  unfold parseTextValue
  simp [hty, h]

/-- Anything that is not `format`, a string literal or a string type: error on that token. -/
theorem ptv_other_err (env : Env) (fuel : Nat) (s : PState) (x : Tok) (tl : List Tok)
    (h1 : x.type ≠ .FORMAT) (h2 : x.type ≠ .STRING) (h3 : x.type ≠ .STRINGTYPE) :
    (parseTextValue env fuel).run (st s (x :: tl)) =
      .error (newParseError x
        s!"body of text statement must be a string or formatted string. Got '{x.lit}' instead") := by
  unfold parseTextValue
  simp [h1, h2, h3]

/-- `parseTextValue` on `format …` is `parseFormatStringOperator` followed by the terminator. -/
theorem ptv_format_eq (env : Env) (fuel : Nat) (s : PState) (h : (s.toks.headD s.eof).type = .FORMAT) :
    (parseTextValue env fuel).run s =
      match (parseFormatStringOperator env fuel).run s with
      | .ok (r, s') => .ok ((formatTextTerminator r.2.1 r.2.2, r.2.2), s')
      | .error e => .error e := by
  unfold parseTextValue
  simp only [StateT.run_bind, run_cur, ex_bind_ok, h, beq_self_eq_true, if_true]
  generalize (parseFormatStringOperator env fuel).run s = X
  cases X with
  | error e => rfl
  | ok p => obtain ⟨⟨a, b, c⟩, s'⟩ := p; rfl

/-! ### reference syntax of a text value -/

/-- `STRING`, `STRINGTYPE STRING` or `format ( [STRINGTYPE] STRING <params> )`
(`Params`: `PoryProofs/FormatParams.lean`). -/
inductive TVal
  | plain (str : Tok)
  | typed (ty str : Tok)
  | format (fm lp : Tok) (sty : Option Tok) (text : Tok) (P : Params) (rp : Tok)

def TVal.toks : TVal → List Tok
  | .plain str => [str]
  | .typed ty str => [ty, str]
  | .format fm lp sty text P rp => fm :: lp :: (sty.toList ++ text :: (P.toks ++ [rp]))

def TVal.WF : TVal → Prop
  | .plain str => str.type = .STRING
  | .typed ty str => ty.type = .STRINGTYPE ∧ str.type = .STRING
  | .format fm lp sty text P rp =>
    fm.type = .FORMAT ∧ lp.type = .LPAREN ∧ (∀ t, sty = some t → t.type = .STRINGTYPE) ∧
      text.type = .STRING ∧ P.WF ∧ P.NoRep ∧ rp.type = .RPAREN

/-- The last token of the value: where `parseTextValue` leaves the window. -/
def TVal.last : TVal → Tok
  | .plain str => str
  | .typed _ str => str
  | .format _ _ _ _ _ rp => rp

/-- The string type: none, the prefix, the prefix of the literal inside `format(`. -/
def TVal.strType : TVal → String
  | .plain _ => ""
  | .typed ty _ => ty.lit
  | .format _ _ sty _ _ _ => styLit sty

/-- Fuel the named-parameter loop of `format()` needs. -/
def TVal.need : TVal → Nat
  | .format _ _ _ _ P _ => P.named.length + 1
  | _ => 0

/-- The text BEFORE the terminator is added: the literal, resp. the literal formatted by
`Fmt.formatText` for the resolved parameters (C07b); when `formatText` fails (unknown font) this is
an error at the font-id token in force (else the text token) if environment errors are on, and the
empty text otherwise. -/
def TVal.raw (env : Env) : TVal → Except PFail String
  | .plain str => .ok str.lit
  | .typed _ str => .ok str.lit
  | .format _ _ _ text P _ =>
    match Fmt.formatText env.fonts text.lit.toList (resolve env P.written).maxLineLength
        (resolve env P.written).cursorOverlapWidth (resolve env P.written).fontID
        (resolve env P.written).numLines with
    | .ok out => .ok (String.ofList out)
    | .error msg =>
      if env.envErrors then .error (newParseError (P.written.font?.getD text) msg) else .ok ""

theorem TVal.head_type (v : TVal) (hv : v.WF) (tl : List Tok) (d : Tok) :
    ((v.toks ++ tl).headD d).type = .STRING ∨ ((v.toks ++ tl).headD d).type = .STRINGTYPE ∨
      ((v.toks ++ tl).headD d).type = .FORMAT := by
  cases v with
  | plain str => exact .inl hv
  | typed ty str => exact .inr (.inl hv.1)
  | format fm lp sty text P rp => exact .inr (.inr hv.1)

/-- `parseFormatStringOperator` on a well-formed `format(…)`: (text token, formatted text, string
type), window on the closing parenthesis — `C07b.format_params_resolved` in terms of `TVal.raw`. -/
theorem pfso_run (env : Env) (fuel : Nat) (s : PState) (fm lp : Tok) (sty : Option Tok) (text : Tok)
    (P : Params) (rp : Tok) (tl : List Tok) (hv : (TVal.format fm lp sty text P rp).WF)
    (hf : P.named.length + 1 ≤ fuel) :
    (parseFormatStringOperator env fuel).run
        (st s (fm :: lp :: (sty.toList ++ text :: (P.toks ++ rp :: tl)))) =
      match (TVal.format fm lp sty text P rp).raw env with
      | .ok raw => .ok ((text, raw, styLit sty), st s (rp :: tl))
      | .error e => .error e := by
  obtain ⟨hfm, hlp, hsty, htext, hP, hrep, hrp⟩ := hv
  obtain ⟨f, rfl⟩ : ∃ f, fuel = P.named.length + (f + 1) := ⟨fuel - P.named.length - 1, by omega⟩
  rw [format_params_resolved env s f fm lp sty text hlp hsty htext P rp tl hP hrep hrp]
  simp only [TVal.raw, outcome]
  cases Fmt.formatText env.fonts text.lit.toList (resolve env P.written).maxLineLength
      (resolve env P.written).cursorOverlapWidth (resolve env P.written).fontID
      (resolve env P.written).numLines with
  | ok out => rfl
  | error msg => cases env.envErrors <;> rfl

theorem TVal.format_toks_append (fm lp : Tok) (sty : Option Tok) (text : Tok) (P : Params) (rp : Tok)
    (tl : List Tok) :
    (TVal.format fm lp sty text P rp).toks ++ tl =
      fm :: lp :: (sty.toList ++ text :: (P.toks ++ rp :: tl)) := by
  simp [TVal.toks, List.append_assoc]

/-- `parseTextValue` on a text value: the value with the terminator of its string type and the
string type; the window is left ON the last token of the value. -/
theorem tval_run (env : Env) (fuel : Nat) (s : PState) (v : TVal) (tl : List Tok) (hv : v.WF)
    (hf : v.need ≤ fuel) :
    (parseTextValue env fuel).run (st s (v.toks ++ tl)) =
      match v.raw env with
      | .ok raw => .ok ((formatTextTerminator raw v.strType, v.strType), st s (v.last :: tl))
      | .error e => .error e := by
  cases v with
  | plain str => exact ptv_plain env fuel s str tl hv
  | typed ty str => exact ptv_typed env fuel s ty str tl hv.1 hv.2
  | format fm lp sty text P rp =>
    rw [TVal.format_toks_append, ptv_format_eq env _ _ (by simpa using hv.1),
      pfso_run env fuel s fm lp sty text P rp tl hv hf]
    simp only [TVal.strType, TVal.last]
    cases (TVal.format fm lp sty text P rp).raw env <;> rfl

/-! ### `parseTextStatement`: a failing body -/

/-- If the body parser fails, the text statement fails with the same error. -/
theorem text_statement_err (env : Env) (fuel : Nat) (s : PState) (kw : Tok) (md : Mod)
    (name lb : Tok) (body : List Tok) (hmd : md.WF) (hname : name.type = .IDENT)
    (hlb : lb.type = .LBRACE) (e : PFail)
    (hbody : (if (body.headD s.eof).type = .PORYSWITCH then parsePoryswitchTextStatement env fuel
              else parseTextValue env fuel).run (st s body) = .error e) :
    (parseTextStatement env fuel).run (st s (kw :: (md.toks ++ name :: lb :: body))) = .error e := by
  unfold parseTextStatement
  by_cases hp : (body.headD s.eof).type = .PORYSWITCH
  · simp only [hp, if_true] at hbody
    simp only [List.headD_eq_head?_getD] at hp
    simp [scope_mod _ s kw md name (lb :: body) hmd (by simp [hname]), hname, hlb, hp, hbody]
  · simp only [hp, if_false] at hbody
    simp only [List.headD_eq_head?_getD] at hp
    simp [scope_mod _ s kw md name (lb :: body) hmd (by simp [hname]), hname, hlb, hp, hbody]

/-- The body is not followed by `}`: error located on the offending token. -/
theorem text_statement_missing_rbrace (env : Env) (fuel : Nat) (s : PState) (kw : Tok) (md : Mod)
    (name lb : Tok) (body : List Tok) (hmd : md.WF) (hname : name.type = .IDENT)
    (hlb : lb.type = .LBRACE) (v : String × String) (last x : Tok) (rest : List Tok)
    (hx : x.type ≠ .RBRACE)
    (hbody : (if (body.headD s.eof).type = .PORYSWITCH then parsePoryswitchTextStatement env fuel
              else parseTextValue env fuel).run (st s body) = .ok (v, st s (last :: x :: rest))) :
    (parseTextStatement env fuel).run (st s (kw :: (md.toks ++ name :: lb :: body))) =
      .error (newParseError x s!"expected closing curly brace for text. Got '{x.lit}' instead") := by
  unfold parseTextStatement
  by_cases hp : (body.headD s.eof).type = .PORYSWITCH
  · simp only [hp, if_true] at hbody
    simp only [List.headD_eq_head?_getD] at hp
    simp [scope_mod _ s kw md name (lb :: body) hmd (by simp [hname]), hname, hlb, hp, hbody, hx]
  · simp only [hp, if_false] at hbody
    simp only [List.headD_eq_head?_getD] at hp
    simp [scope_mod _ s kw md name (lb :: body) hmd (by simp [hname]), hname, hlb, hp, hbody, hx]

/-! ### the `format` branch of `cmdArgsLoop` -/

/-- The implicit text an inline `format(…)` yields: the text token with its literal replaced by the
formatted text plus terminator. -/
def fmtImp (sn : String) (cid pos : Nat) (text : Tok) (raw ty : String) : ImpData :=
  { texts := [{ cmdId := cid, argPos := pos, text := { text with lit := formatTextTerminator raw ty },
                stringType := ty, scriptName := sn }] }

section
variable (env : Env) (sn : String) (id : Nat) (ct : Tok) (f : Nat)
  (A Q : List String) (d : Nat) (I : ImpData)

/-- One iteration of the argument loop on a `format` token is `parseFormatStringOperator`, then one
more token is consumed (the closing parenthesis of `format(`). -/
theorem cal_format_eq (s : PState) (h : (s.toks.headD s.eof).type = .FORMAT) :
    (cmdArgsLoop env sn id ct (f + 1) ⟨A, Q, d, I⟩).run s =
      match (parseFormatStringOperator env f).run s with
      | .ok (r, s') =>
        (cmdArgsLoop env sn id ct f ⟨A, Q ++ [""], d, I.add (fmtImp sn id A.length r.1 r.2.1 r.2.2)⟩).run
          (st s' s'.toks.tail)
      | .error e => .error e := by
  rw [cmdArgsLoop]
  have h1 : (TT.FORMAT == TT.RPAREN) = false := by decide
  have h2 : (TT.FORMAT == TT.EOF) = false := by decide
  have h3 : (TT.FORMAT == TT.COMMA) = false := by decide
  have h4 : (TT.FORMAT == TT.LPAREN) = false := by decide
  simp only [StateT.run_bind, run_cur, ex_bind_ok, h, h1, h2, h3, h4, beq_self_eq_true, if_true,
    Bool.false_and, Bool.false_eq_true, if_false]
  generalize (parseFormatStringOperator env f).run s = X
  cases X with
  | error e => rfl
  | ok p => obtain ⟨⟨a, b, c⟩, s'⟩ := p; simp [fmtImp, ImpData.add]

/-- The iteration on a well-formed inline `format(…)` whose text can be formatted. -/
theorem cal_fmt (s : PState) (fm lp : Tok) (sty : Option Tok) (text : Tok) (P : Params) (rp : Tok)
    (tl : List Tok) (hv : (TVal.format fm lp sty text P rp).WF) (hf : P.named.length + 1 ≤ f)
    (raw : String) (hraw : (TVal.format fm lp sty text P rp).raw env = .ok raw) :
    (cmdArgsLoop env sn id ct (f + 1) ⟨A, Q, d, I⟩).run
        (st s (fm :: lp :: (sty.toList ++ text :: (P.toks ++ rp :: tl)))) =
      (cmdArgsLoop env sn id ct f
        ⟨A, Q ++ [""], d, I.add (fmtImp sn id A.length text raw (styLit sty))⟩).run (st s tl) := by
  rw [cal_format_eq env sn id ct f A Q d I _ (by simpa using hv.1),
    pfso_run env f s fm lp sty text P rp tl hv hf, hraw]
  rfl

/-- … and when it cannot (unknown font, environment errors on): the located error of C07b. -/
theorem cal_fmt_err (s : PState) (fm lp : Tok) (sty : Option Tok) (text : Tok) (P : Params) (rp : Tok)
    (tl : List Tok) (hv : (TVal.format fm lp sty text P rp).WF) (hf : P.named.length + 1 ≤ f)
    (e : PFail) (hraw : (TVal.format fm lp sty text P rp).raw env = .error e) :
    (cmdArgsLoop env sn id ct (f + 1) ⟨A, Q, d, I⟩).run
        (st s (fm :: lp :: (sty.toList ++ text :: (P.toks ++ rp :: tl)))) = .error e := by
  rw [cal_format_eq env sn id ct f A Q d I _ (by simpa using hv.1),
    pfso_run env f s fm lp sty text P rp tl hv hf, hraw]

end

/-! ### command arguments with inline `format(…)`

`C10c.AElem` (tokens, string literals, typed string literals, `moves(…)`) extended by `format(…)`. -/

open Pory.C10b Pory.C10c

inductive IElem
  | base (e : AElem)
  | fmt (fm lp : Tok) (sty : Option Tok) (text : Tok) (P : Params) (rp : Tok)

def IElem.toks : IElem → List Tok
  | .base e => e.toks
  | .fmt fm lp sty text P rp => (TVal.format fm lp sty text P rp).toks

/-- Well-formed, and (for `format`) the text can be formatted. -/
def IElem.OK (env : Env) : IElem → Prop
  | .base e => e.ok = true
  | .fmt fm lp sty text P rp =>
    (TVal.format fm lp sty text P rp).WF ∧ ∃ raw, (TVal.format fm lp sty text P rp).raw env = .ok raw

/-- The formatted text (`""` if there is none). -/
def rawD (env : Env) (v : TVal) : String :=
  match v.raw env with
  | .ok r => r
  | .error _ => ""

/-- For the argument STRING an inline `format(…)` counts like a string literal: it contributes the
empty part and does not change the parenthesis depth (its own parentheses are consumed by
`parseFormatStringOperator`). -/
def IElem.skel : IElem → AElem
  | .base e => e
  | .fmt _ _ _ text _ _ => .str text

def printArgI : List IElem → List Tok
  | [] => []
  | e :: r => e.toks ++ printArgI r

def IElem.need : IElem → Nat
  | .base e => e.need
  | .fmt _ _ _ _ P _ => P.named.length + 1

def needArgI : List IElem → Nat
  | [] => 0
  | e :: r => e.need + needArgI r

/-- The implicit data of one element. -/
def impOfI (env : Env) (sn : String) (cid : Nat) (cmdTok : Tok) (pos : Nat) : IElem → ImpData
  | .base e => impOf sn cid cmdTok pos e
  | .fmt fm lp sty text P rp =>
    fmtImp sn cid pos text (rawD env (.format fm lp sty text P rp)) (styLit sty)

def impArgI (env : Env) (sn : String) (cid : Nat) (cmdTok : Tok) (pos : Nat) : List IElem → ImpData
  | [] => {}
  | e :: r => (impOfI env sn cid cmdTok pos e).add (impArgI env sn cid cmdTok pos r)

def impArgsI (env : Env) (sn : String) (cid : Nat) (cmdTok : Tok) : Nat → List (List IElem) → ImpData
  | _, [] => {}
  | pos, a :: r => (impArgI env sn cid cmdTok pos a).add (impArgsI env sn cid cmdTok (pos + 1) r)

theorem depthE_cons_some (e : AElem) (r : List AElem) (d d' : Nat) (h : depthE d (e :: r) = some d') :
    ∃ d'', depthE d [e] = some d'' ∧ depthE d'' r = some d' := by
  cases e with
  | tok t =>
    by_cases h1 : t.type = .LPAREN
    · simp only [depthE, h1, if_true] at h ⊢
      exact ⟨_, rfl, h⟩
    · by_cases h2 : t.type = .RPAREN
      · cases d with
        | zero => simp [depthE, h2] at h
        | succ k =>
          simp only [depthE, h2, if_true] at h ⊢
          exact ⟨_, rfl, h⟩
      · simp only [depthE, h1, h2, if_false] at h ⊢
        exact ⟨_, rfl, h⟩
  | str t => exact ⟨d, rfl, h⟩
  | tstr ty t => exact ⟨d, rfl, h⟩
  | moves mv lp items rp => exact ⟨d, rfl, h⟩

section
variable (env : Env) (sn : String) (id : Nat) (ct : Tok) (s : PState)

/-- The elements of one argument: one iteration of the loop per element. -/
theorem cal_argI (ts : List IElem) (rest : List Tok) (A Q : List String) (d : Nat) (I : ImpData)
    (hts : ∀ e ∈ ts, e.OK env) (d' : Nat) (hd : depthE d (ts.map IElem.skel) = some d') (f : Nat)
    (hf : needArgI ts ≤ f) :
    (cmdArgsLoop env sn id ct (ts.length + f) ⟨A, Q, d, I⟩).run (st s (printArgI ts ++ rest)) =
      (cmdArgsLoop env sn id ct f
        ⟨A, Q ++ ts.map (fun e => partE (substC s.constants) e.skel), d',
          I.add (impArgI env sn id ct A.length ts)⟩).run (st s rest) := by
  induction ts generalizing Q d I with
  | nil =>
    simp [depthE] at hd; subst hd
    simp [printArgI, impArgI, add_nil]
  | cons e r ih =>
    have he := hts e (by simp)
    have hr : ∀ x ∈ r, x.OK env := fun x hx => hts x (by simp [hx])
    simp only [needArgI] at hf
    have hlen : (e :: r).length + f = 1 + (r.length + f) := by simp; omega
    rw [hlen]
    cases e with
    | base e =>
      simp only [List.map_cons, IElem.skel] at hd
      obtain ⟨d'', hd1, hd2⟩ := depthE_cons_some e _ d d' hd
      have h1 := cal_argE env sn id ct s [e] (printArgI r ++ rest) A Q d I
        (by simpa [IElem.OK] using he) d'' hd1 (r.length + f) (by simp [needArgE, IElem.need] at hf ⊢; omega)
      simp only [List.length_singleton, printArgE, List.append_nil] at h1
      simp only [printArgI, IElem.toks, List.append_assoc]
      rw [h1, ih _ _ _ hr hd2 (by omega)]
      simp [impArg, impArgI, impOfI, add_nil, add_assoc, IElem.skel]
    | fmt fm lp sty text P rp =>
      obtain ⟨hwf, raw, hraw⟩ := he
      simp only [List.map_cons, IElem.skel, depthE] at hd
      simp only [IElem.need] at hf
      simp only [printArgI, IElem.toks, List.append_assoc]
      rw [TVal.format_toks_append, Nat.add_comm 1,
        cal_fmt env sn id ct _ A Q d I s fm lp sty text P rp _ hwf (by omega) raw hraw,
        ih _ _ _ hr hd (by omega)]
      simp [impArgI, impOfI, add_assoc, IElem.skel, partE, rawD, hraw]

def printMoreI : List (Tok × List IElem) → List Tok
  | [] => []
  | p :: m => p.1 :: (printArgI p.2 ++ printMoreI m)

def needMoreI : List (Tok × List IElem) → Nat
  | [] => 0
  | p :: m => needArgI p.2 + needMoreI m

def stepsMoreI : List (Tok × List IElem) → Nat
  | [] => 0
  | p :: m => 1 + p.2.length + stepsMoreI m

def skelMore (more : List (Tok × List IElem)) : List (Tok × List AElem) :=
  more.map fun p => (p.1, p.2.map IElem.skel)

def impMoreI (env : Env) (sn : String) (cid : Nat) (cmdTok : Tok) : Nat → List (Tok × List IElem) → ImpData
  | _, [] => {}
  | k, p :: m => (impArgI env sn cid cmdTok (k + 1) p.2).add (impMoreI env sn cid cmdTok (k + 1) m)

theorem cal_moreI (more : List (Tok × List IElem)) (rest : List Tok) (A Q : List String) (I : ImpData)
    (hm : ∀ p ∈ more, p.1.type = .COMMA ∧ (∀ e ∈ p.2, e.OK env) ∧
      depthE 0 (p.2.map IElem.skel) = some 0) (f : Nat)
    (hf : needMoreI more ≤ f) :
    (cmdArgsLoop env sn id ct (stepsMoreI more + f) ⟨A, Q, 0, I⟩).run
        (st s (printMoreI more ++ rest)) =
      (cmdArgsLoop env sn id ct f
        ⟨(accMoreE (substC s.constants) A Q (skelMore more)).1,
          (accMoreE (substC s.constants) A Q (skelMore more)).2, 0,
          I.add (impMoreI env sn id ct A.length more)⟩).run (st s rest) := by
  induction more generalizing A Q I with
  | nil => simp [printMoreI, accMoreE, impMoreI, stepsMoreI, add_nil, skelMore]
  | cons p m ih =>
    obtain ⟨hc, hts, hd⟩ := hm p (by simp)
    simp only [needMoreI] at hf
    have hlen : stepsMoreI (p :: m) + f = (p.2.length + (stepsMoreI m + f)) + 1 := by
      simp [stepsMoreI]; omega
    rw [hlen]
    simp only [printMoreI, List.cons_append, List.append_assoc]
    rw [cal_comma env sn id ct _ s A Q 0 I p.1 _ hc,
      cal_argI env sn id ct s p.2 _ _ _ 0 I hts 0 hd _ (by omega),
      ih _ _ _ (fun q hq => hm q (by simp [hq])) (by omega)]
    simp [accMoreE, impMoreI, add_assoc, skelMore, Function.comp_def]

end

theorem impMoreI_eq (env : Env) (sn : String) (cid : Nat) (cmdTok : Tok) (k : Nat)
    (more : List (Tok × List IElem)) :
    impMoreI env sn cid cmdTok k more = impArgsI env sn cid cmdTok (k + 1) (more.map (·.2)) := by
  induction more generalizing k with
  | nil => rfl
  | cons p m ih => simp [impMoreI, impArgsI, ih]

/-- A command argument with inline texts: non-empty, well-formed elements, parentheses balanced. -/
def ArgIOK (env : Env) (a : List IElem) : Prop :=
  a ≠ [] ∧ (∀ e ∈ a, e.OK env) ∧ depthE 0 (a.map IElem.skel) = some 0

/-- `name ( a0 , a1 , … )` -/
def printCmdI (name lp : Tok) (a0 : List IElem) (more : List (Tok × List IElem)) (rp : Tok) : List Tok :=
  name :: lp :: (printArgI a0 ++ (printMoreI more ++ [rp]))

/-- The argument string: inline texts contribute the empty part (patched later with the label). -/
def renderArgI (σ : String → String) (a : List IElem) : String := renderArgE σ (a.map IElem.skel)

def needCmdI (a0 : List IElem) (more : List (Tok × List IElem)) : Nat :=
  a0.length + stepsMoreI more + needArgI a0 + needMoreI more + 1

/-- `C10c.parse_command_imp` extended by inline `format(…)` arguments. -/
theorem parse_command_inline (env : Env) (sn : String) (s : PState) (name lp : Tok) (a0 : List IElem)
    (more : List (Tok × List IElem)) (rp : Tok) (rest : List Tok)
    (hlp : lp.type = .LPAREN) (hrp : rp.type = .RPAREN) (h0 : ArgIOK env a0)
    (hm : ∀ p ∈ more, p.1.type = .COMMA ∧ ArgIOK env p.2) (fuel : Nat)
    (hf : needCmdI a0 more ≤ fuel) :
    (parseCommandStatement env sn fuel).run (st s (printCmdI name lp a0 more rp ++ rest)) =
      .ok (({ id := s.nextCmdId, tok := name, name := name.lit,
              args := (a0 :: more.map (·.2)).map (renderArgI (substC s.constants)) },
            impArgsI env sn s.nextCmdId name 0 (a0 :: more.map (·.2))),
           st (bump s) (rp :: rest)) := by
  obtain ⟨h0n, h0t, h0d⟩ := h0
  have hm' : ∀ p ∈ more, p.1.type = .COMMA ∧ (∀ e ∈ p.2, e.OK env) ∧
      depthE 0 (p.2.map IElem.skel) = some 0 :=
    fun p hp => ⟨(hm p hp).1, (hm p hp).2.2.1, (hm p hp).2.2.2⟩
  have hne : ∀ p ∈ skelMore more, p.2 ≠ [] := by
    intro p hp
    simp only [skelMore, List.mem_map] at hp
    obtain ⟨q, hq, rfl⟩ := hp
    simpa using (hm q hq).2.1
  unfold needCmdI at hf
  obtain ⟨f, rfl, hg⟩ : ∃ f, fuel = a0.length + (stepsMoreI more + (f + 1)) ∧
      needArgI a0 + needMoreI more ≤ f + 1 :=
    ⟨fuel - a0.length - stepsMoreI more - 1, by omega, by omega⟩
  have hp : printCmdI name lp a0 more rp ++ rest =
      name :: lp :: (printArgI a0 ++ (printMoreI more ++ rp :: rest)) := by simp [printCmdI]
  have e0 : ({} : CmdAcc) = ⟨[], [], 0, {}⟩ := rfl
  rw [hp, pcs_paren env sn _ s name lp _ hlp, e0,
    cal_argI env sn s.nextCmdId name (bump s) a0 _ [] [] 0 {} h0t 0 h0d _ (by omega), List.nil_append,
    cal_moreI env sn s.nextCmdId name (bump s) more _ _ _ _ hm' _ (by omega),
    cal_close env sn s.nextCmdId name _ (bump s) _ _ _ rp rest hrp]
  simp only [cmdOf, bump_constants]
  have hne' := accMoreE_parts_ne (substC s.constants) []
    (a0.map (fun e => partE (substC s.constants) e.skel)) (skelMore more) (by simpa using h0n) hne
  have hpos : (accMoreE (substC s.constants) []
      (a0.map (fun e => partE (substC s.constants) e.skel)) (skelMore more)).2.length > 0 :=
    Nat.pos_of_ne_zero (fun h => hne' (List.eq_nil_of_length_eq_zero h))
  simp only [hpos, if_true, accMoreE_args]
  simp [renderArgI, renderArgE, Function.comp_def, impArgsI, impMoreI_eq, nil_add, skelMore]

/-! ### the inline texts of a command, in source order -/

/-- The inline literal an element is: (text token, text before the terminator, string type). -/
def AElem.lit? : AElem → Option (Tok × String × String)
  | .str t => some (t, t.lit, "")
  | .tstr ty t => some (t, t.lit, ty.lit)
  | _ => none

def IElem.lit? (env : Env) : IElem → Option (Tok × String × String)
  | .base e => AElem.lit? e
  | .fmt fm lp sty text P rp => some (text, rawD env (.format fm lp sty text P rp), styLit sty)

/-- The `ImpText` of an inline literal of argument `pos` of command `cid`: the text token with its
literal replaced by the text plus the terminator of its string type. -/
def mkImpText (sn : String) (cid pos : Nat) (x : Tok × String × String) : ImpText :=
  { cmdId := cid, argPos := pos, text := { x.1 with lit := formatTextTerminator x.2.1 x.2.2 },
    stringType := x.2.2, scriptName := sn }

def textsOfArgE (sn : String) (cid pos : Nat) (a : List AElem) : List ImpText :=
  a.filterMap fun e => (AElem.lit? e).map (mkImpText sn cid pos)

def textsOfArgsE (sn : String) (cid : Nat) : Nat → List (List AElem) → List ImpText
  | _, [] => []
  | pos, a :: r => textsOfArgE sn cid pos a ++ textsOfArgsE sn cid (pos + 1) r

def textsOfArgI (env : Env) (sn : String) (cid pos : Nat) (a : List IElem) : List ImpText :=
  a.filterMap fun e => (e.lit? env).map (mkImpText sn cid pos)

def textsOfArgsI (env : Env) (sn : String) (cid : Nat) : Nat → List (List IElem) → List ImpText
  | _, [] => []
  | pos, a :: r => textsOfArgI env sn cid pos a ++ textsOfArgsI env sn cid (pos + 1) r

theorem impOf_texts (sn : String) (cid : Nat) (ct : Tok) (pos : Nat) (e : AElem) :
    (impOf sn cid ct pos e).texts = ((AElem.lit? e).map (mkImpText sn cid pos)).toList := by
  cases e <;> rfl

theorem impArg_texts (sn : String) (cid : Nat) (ct : Tok) (pos : Nat) (a : List AElem) :
    (impArg sn cid ct pos a).texts = textsOfArgE sn cid pos a := by
  induction a with
  | nil => rfl
  | cons e r ih =>
    simp only [impArg, ImpData.add, ih, impOf_texts, textsOfArgE, List.filterMap_cons]
    cases (AElem.lit? e) <;> rfl

theorem impArgs_texts (sn : String) (cid : Nat) (ct : Tok) (pos : Nat) (args : List (List AElem)) :
    (impArgs sn cid ct pos args).texts = textsOfArgsE sn cid pos args := by
  induction args generalizing pos with
  | nil => rfl
  | cons a r ih => simp [impArgs, ImpData.add, ih, impArg_texts, textsOfArgsE]

theorem impOfI_texts (env : Env) (sn : String) (cid : Nat) (ct : Tok) (pos : Nat) (e : IElem) :
    (impOfI env sn cid ct pos e).texts = ((e.lit? env).map (mkImpText sn cid pos)).toList := by
  cases e with
  | base e => exact impOf_texts sn cid ct pos e
  | fmt fm lp sty text P rp => rfl

theorem impArgI_texts (env : Env) (sn : String) (cid : Nat) (ct : Tok) (pos : Nat) (a : List IElem) :
    (impArgI env sn cid ct pos a).texts = textsOfArgI env sn cid pos a := by
  induction a with
  | nil => rfl
  | cons e r ih =>
    simp only [impArgI, ImpData.add, ih, impOfI_texts, textsOfArgI, List.filterMap_cons]
    cases (e.lit? env) <;> rfl

theorem impArgsI_texts (env : Env) (sn : String) (cid : Nat) (ct : Tok) (pos : Nat)
    (args : List (List IElem)) :
    (impArgsI env sn cid ct pos args).texts = textsOfArgsI env sn cid pos args := by
  induction args generalizing pos with
  | nil => rfl
  | cons a r ih => simp [impArgsI, ImpData.add, ih, impArgI_texts, textsOfArgsI]

/-- Every inline text carries its literal with the terminator of ITS string type. -/
theorem textsOfArgsI_mem (env : Env) (sn : String) (cid : Nat) (pos : Nat) (args : List (List IElem))
    (it : ImpText) (h : it ∈ textsOfArgsI env sn cid pos args) :
    ∃ k a e x, args[k]? = some a ∧ e ∈ a ∧ e.lit? env = some x ∧ it = mkImpText sn cid (pos + k) x := by
  induction args generalizing pos with
  | nil => simp [textsOfArgsI] at h
  | cons a r ih =>
    simp only [textsOfArgsI, List.mem_append] at h
    rcases h with h | h
    · simp only [textsOfArgI, List.mem_filterMap, Option.map_eq_some_iff] at h
      obtain ⟨e, he, x, hx, rfl⟩ := h
      exact ⟨0, a, e, x, rfl, he, hx, rfl⟩
    · obtain ⟨k, a', e, x, hk, he, hx, rfl⟩ := ih _ h
      exact ⟨k + 1, a', e, x, by simpa using hk, he, hx, by rw [Nat.add_assoc, Nat.add_comm 1 k]⟩

end Pory.TextValueParse
