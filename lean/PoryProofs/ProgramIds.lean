import PoryProofs.ProgramShift
/-
P2 helpers: the ids handed out by the reference elaboration of a script body lie between the counters.

`Rid lo hi` is the identity correspondence on command ids in `[lo, hi)` (and on all scope ids);
`elabL_ids`: a body elaborated from command-id counter `cid` to `c1` is related to itself under
`Rid cid c1` — every command id (of command statements, of the commands of auto-var conditions, of the
implicit texts / movements) lies in `[cid, c1)` — and `cid ≤ c1`.
`RelL.shift`: then the body shifted by `(dc, ds)` is related to it under `Rb dc ds cid c1`.
-/
namespace Pory.P2
open Pory Pory.Parser Pory.C02P Pory.C10b Pory.SwitchParse Pory.StmtG
open Pory.C14b (swVal)
open Pory.C10c
open Pory.C11b (operandName badPosMsg Form printAuto autoLeafT leftSideMsg)
open Pory.C12c

/-- The identity on command ids in `[lo, hi)` and on scope ids. -/
def Rid (lo hi : Nat) : Ren := { c := fun n o => n = o ∧ lo ≤ o ∧ o < hi, s := fun n o => n = o }

/-- The shift by `dc` of command ids in `[lo, hi)`, by `ds` of scope ids (`new = old + d`). -/
def Rb (dc ds lo hi : Nat) : Ren :=
  { c := fun n o => n = o + dc ∧ lo ≤ o ∧ o < hi, s := fun n o => n = o + ds }

theorem Rb_mono_c (dc ds lo hi : Nat) : Mono (Rb dc ds lo hi).c := by
  intro n o n2 o2 h1 h2
  obtain ⟨rfl, _⟩ := h1
  obtain ⟨rfl, _⟩ := h2
  omega

theorem Rb_mono_s (dc ds lo hi : Nat) : Mono (Rb dc ds lo hi).s := by
  intro n o n2 o2 h1 h2
  cases h1; cases h2
  show o + ds < o2 + ds ↔ o < o2
  omega

theorem Rid_sub {lo hi lo' hi' : Nat} (h1 : lo' ≤ lo) (h2 : hi ≤ hi') : (Rid lo hi).Sub (Rid lo' hi') :=
  ⟨fun n o h => ⟨h.1, by have := h.2.1; omega, by have := h.2.2; omega⟩, fun _ _ h => h⟩

theorem Rb_sub {dc ds lo hi lo' hi' : Nat} (h1 : lo' ≤ lo) (h2 : hi ≤ hi') :
    (Rb dc ds lo hi).Sub (Rb dc ds lo' hi') :=
  ⟨fun n o h => ⟨h.1, by have := h.2.1; omega, by have := h.2.2; omega⟩, fun _ _ h => h⟩

/-! ### from the bounded identity to the bounded shift -/

section
variable (dc ds lo hi : Nat)

theorem relCmd_shift {c' c : Cmd} (h : relCmd (Rid lo hi) c' c) :
    relCmd (Rb dc ds lo hi) (mapCmd (· + dc) c') c := by
  obtain ⟨⟨h1, h2, h3⟩, h4, h5, h6⟩ := h
  exact ⟨⟨by simp [mapCmd, h1], h2, h3⟩, h4, h5, h6⟩

theorem relB_shift : ∀ {t' t : BoolExpr}, relB (Rid lo hi) t' t → relB (Rb dc ds lo hi) (mapB (· + dc) t') t
  | .leaf e', .leaf e, h => by
    simp only [relB, relOp] at h
    obtain ⟨h1, h2, h3, h4, h5, h6⟩ := h
    simp only [mapB, relB, relOp, mapOp]
    refine ⟨h1, h2, h3, h4, h5, ?_⟩
    revert h6
    cases e'.preamble <;> cases e.preamble <;> intro h6
    · trivial
    · exact h6.elim
    · exact h6.elim
    · exact relCmd_shift dc ds lo hi h6
  | .bin l' op' r', .bin l op r, h => by
    simp only [relB] at h
    simp only [mapB, relB]
    exact ⟨relB_shift h.1, h.2.1, relB_shift h.2.2⟩
  | .leaf _, .bin .., h => by simp [relB] at h
  | .bin .., .leaf _, h => by simp [relB] at h

theorem relOptB_shift : ∀ {t' t : Option BoolExpr}, relOptB (Rid lo hi) t' t →
    relOptB (Rb dc ds lo hi) (t'.map (mapB (· + dc))) t
  | none, none, _ => trivial
  | some _, some _, h => relB_shift dc ds lo hi h
  | none, some _, h => h.elim
  | some _, none, h => h.elim

mutual
theorem RelS.shift : ∀ {a' a : Stmt}, RelS (Rid lo hi) a' a → RelS (Rb dc ds lo hi) (mapS (· + dc) (· + ds) a') a
  | _, _, .cmd hc => by rw [mapS_cmd]; exact .cmd (relCmd_shift dc ds lo hi hc)
  | _, _, .label t n g => by rw [mapS_label]; exact .label t n g
  | _, _, .ite t hc hb hes hel => by
    rw [mapS_ite]
    exact .ite t (relB_shift dc ds lo hi hc) (RelL.shift hb) (RelElifs.shift hes) (RelOptL.shift hel)
  | _, _, .while_ t hs hc hb => by
    rw [mapS_while]
    exact .while_ t (by cases hs; rfl) (relOptB_shift dc ds lo hi hc) (RelL.shift hb)
  | _, _, .doWhile t hs hc hb => by
    rw [mapS_doWhile]
    exact .doWhile t (by cases hs; rfl) (relB_shift dc ds lo hi hc) (RelL.shift hb)
  | _, _, .brk t hs => by rw [mapS_brk]; exact .brk t (by cases hs; rfl)
  | _, _, .cont t hs => by rw [mapS_cont]; exact .cont t (by cases hs; rfl)
  | _, _, .switch_ t o hs hcs => by
    rw [mapS_switch]; exact .switch_ t o (by cases hs; rfl) (RelCases.shift hcs)
theorem RelL.shift : ∀ {a' a : List Stmt}, RelL (Rid lo hi) a' a →
    RelL (Rb dc ds lo hi) (mapL (· + dc) (· + ds) a') a
  | _, _, .nil => by rw [mapL_nil]; exact .nil
  | _, _, .cons hx hr => by rw [mapL_cons]; exact .cons (RelS.shift hx) (RelL.shift hr)
theorem RelElifs.shift : ∀ {a' a : List (BoolExpr × List Stmt)}, RelElifs (Rid lo hi) a' a →
    RelElifs (Rb dc ds lo hi) (mapElifs (· + dc) (· + ds) a') a
  | _, _, .nil => by rw [mapElifs_nil]; exact .nil
  | _, _, .cons hc hb hr => by
    rw [mapElifs_cons]; exact .cons (relB_shift dc ds lo hi hc) (RelL.shift hb) (RelElifs.shift hr)
theorem RelOptL.shift : ∀ {a' a : Option (List Stmt)}, RelOptL (Rid lo hi) a' a →
    RelOptL (Rb dc ds lo hi) (a'.map (mapL (· + dc) (· + ds))) a
  | _, _, .none => .none
  | _, _, .some hb => .some (RelL.shift hb)
theorem RelCases.shift : ∀ {a' a : List SwitchCase}, RelCases (Rid lo hi) a' a →
    RelCases (Rb dc ds lo hi) (mapCases (· + dc) (· + ds) a') a
  | _, _, .nil => by rw [mapCases_nil]; exact .nil
  | _, _, .cons t d hb hr => by rw [mapCases_cons]; exact .cons t d (RelL.shift hb) (RelCases.shift hr)
end

theorem relImp_shift {m' m : ImpData} (h : relImp (Rid lo hi) m' m) :
    relImp (Rb dc ds lo hi) (mapImp (· + dc) m') m := by
  obtain ⟨h1, h2⟩ := h
  constructor
  · simp only [mapImp]
    generalize m'.texts = l' at h1
    generalize m.texts = l at h1
    induction l' generalizing l with
    | nil =>
      cases l with
      | nil => trivial
      | cons _ _ => exact h1.elim
    | cons x r ih =>
      cases l with
      | nil => exact h1.elim
      | cons y q =>
        obtain ⟨⟨⟨e1, e2, e3⟩, e4⟩, hr⟩ := h1
        exact ⟨⟨⟨by simp [e1], e2, e3⟩, e4⟩, ih q hr⟩
  · simp only [mapImp]
    generalize m'.movements = l' at h2
    generalize m.movements = l at h2
    induction l' generalizing l with
    | nil =>
      cases l with
      | nil => trivial
      | cons _ _ => exact h2.elim
    | cons x r ih =>
      cases l with
      | nil => exact h2.elim
      | cons y q =>
        obtain ⟨⟨⟨e1, e2, e3⟩, e4⟩, hr⟩ := h2
        exact ⟨⟨⟨by simp [e1], e2, e3⟩, e4⟩, ih q hr⟩
end

/-! ### the ids of an elaborated body lie between the counters -/

theorem relImp_impArgs_id (sn : String) (cid : Nat) (ct : Tok) (l : List (List AElem)) :
    relImp (Rid cid (cid + 1)) (impArgs sn cid ct 0 l) (impArgs sn cid ct 0 l) :=
  relImp_impArgs (Rid cid (cid + 1)) sn cid cid ⟨rfl, Nat.le_refl _, Nat.lt_succ_self _⟩ ct 0 l

theorem rel_cmdNode (cid : Nat) (name : Tok) (args : List String) :
    RelL (Rid cid (cid + 1)) [cmdNode cid name args] [cmdNode cid name args] :=
  .cons (.cmd ⟨⟨rfl, Nat.le_refl _, Nat.lt_succ_self _⟩, rfl, rfl, rfl⟩) .nil

theorem elabCond_ids (env : Env) (σ : String → String) (c : SCond) (cid : Nat) (t : BoolExpr) (c0 : Nat)
    (h : elabCond env σ c cid = .ok (t, c0)) : cid ≤ c0 ∧ relB (Rid cid c0) t t := by
  cases c with
  | plain g =>
    simp only [elabCond, Except.ok.injEq, Prod.mk.injEq] at h
    obtain ⟨rfl, rfl⟩ := h
    exact ⟨Nat.le_refl _, relB_refl _ (noPre_treeOr σ false g)⟩
  | auto fm name lp a0 more rp =>
    simp only [elabCond] at h
    cases hl : env.autoVars.lookup name.lit with
    | none => simp [hl] at h
    | some av =>
      simp only [hl] at h
      cases hp : autoPosBad av (more.length + 1) with
      | some pos => simp [hp] at h
      | none =>
        simp only [hp, Except.ok.injEq, Prod.mk.injEq] at h
        obtain ⟨rfl, rfl⟩ := h
        refine ⟨Nat.le_succ _, ?_⟩
        simp only [relB, relOp, autoLeafT, relOptCmd, relCmd, Rid]
        simp

/-- Every entry of a poryswitch table has its ids in `[lo, hi)`. -/
def TabIds (lo hi : Nat) (tb : List (String × List Stmt × ImpData)) : Prop :=
  ∀ e ∈ tb, RelL (Rid lo hi) e.2.1 e.2.1 ∧ relImp (Rid lo hi) e.2.2 e.2.2

theorem TabIds.mono {lo hi hi' : Nat} {tb : List (String × List Stmt × ImpData)} (h : TabIds lo hi tb)
    (h2 : hi ≤ hi') : TabIds lo hi' tb :=
  fun e he => ⟨RelL.mono (Rid_sub (Nat.le_refl _) h2) (h e he).1, relImp.mono (Rid_sub (Nat.le_refl _) h2) (h e he).2⟩

theorem lookup_mem_str {α : Type} {k : String} {v : α} : ∀ {l : List (String × α)}, l.lookup k = some v → (k, v) ∈ l
  | [], h => by simp at h
  | (k', v') :: r, h => by
    simp only [List.lookup_cons] at h
    cases hk : k == k' with
    | true =>
      rw [hk] at h
      simp only [Option.some.injEq] at h
      have : k = k' := by simpa using hk
      subst this; subst h
      exact List.mem_cons_self ..
    | false =>
      rw [hk] at h
      exact List.mem_cons_of_mem _ (lookup_mem_str h)

theorem selectCase_mem {α : Type} (env : Env) {tb : List (String × α)} {v : String} {r : α}
    (h : selectCase env tb v = some r) : ∃ k, (k, r) ∈ tb := by
  unfold selectCase at h
  cases h1 : tb.lookup v with
  | some x =>
    rw [h1] at h
    simp only [Option.some.injEq] at h
    subst h
    exact ⟨v, lookup_mem_str h1⟩
  | none =>
    rw [h1] at h
    exact ⟨"_", lookup_mem_str h⟩

section
variable (env : Env) (sn : String) (σ : String → String)

mutual
theorem elabS_ids : ∀ (x : SStmt) (B C : List Nat) (nx : Bool) (sid cid : Nat) (a : List Stmt) (m : ImpData)
    (s1 c1 : Nat), elabS env sn σ B C nx x sid cid = .ok (a, m, s1, c1) →
      cid ≤ c1 ∧ RelL (Rid cid c1) a a ∧ relImp (Rid cid c1) m m
  | .cmd .., _, _, _, _, _, _, _, _, _, h => by
    rw [elabS] at h
    simp only [Except.ok.injEq, Prod.mk.injEq] at h
    obtain ⟨rfl, rfl, rfl, rfl⟩ := h
    exact ⟨Nat.le_succ _, rel_cmdNode _ _ _, relImp.nil _⟩
  | .cmdI .., _, _, _, _, _, _, _, _, _, h => by
    rw [elabS] at h
    simp only [Except.ok.injEq, Prod.mk.injEq] at h
    obtain ⟨rfl, rfl, rfl, rfl⟩ := h
    exact ⟨Nat.le_succ _, rel_cmdNode _ _ _, relImp_impArgs_id _ _ _ _⟩
  | .cmdE .., _, _, _, _, _, _, _, _, _, h => by
    rw [elabS] at h
    simp only [Except.ok.injEq, Prod.mk.injEq] at h
    obtain ⟨rfl, rfl, rfl, rfl⟩ := h
    exact ⟨Nat.le_succ _, rel_cmdNode _ _ _, relImp.nil _⟩
  | .cmd0 _, _, _, _, _, _, _, _, _, _, h => by
    rw [elabS] at h
    simp only [Except.ok.injEq, Prod.mk.injEq] at h
    obtain ⟨rfl, rfl, rfl, rfl⟩ := h
    exact ⟨Nat.le_succ _, rel_cmdNode _ _ _, relImp.nil _⟩
  | .label .., _, _, _, _, _, _, _, _, _, h => by
    rw [elabS] at h
    simp only [Except.ok.injEq, Prod.mk.injEq] at h
    obtain ⟨rfl, rfl, rfl, rfl⟩ := h
    exact ⟨Nat.le_refl _, .cons (.label _ _ _) .nil, relImp.nil _⟩
  | .labelS .., _, _, _, _, _, _, _, _, _, h => by
    rw [elabS] at h
    simp only [Except.ok.injEq, Prod.mk.injEq] at h
    obtain ⟨rfl, rfl, rfl, rfl⟩ := h
    exact ⟨Nat.le_refl _, .cons (.label _ _ _) .nil, relImp.nil _⟩
  | .brk t, B, C, nx, sid, cid, a, m, s1, c1, h => by
    cases B with
    | nil => rw [elabS] at h; simp at h
    | cons b Bt =>
      rw [elabS] at h
      simp only [Except.ok.injEq, Prod.mk.injEq] at h
      obtain ⟨rfl, rfl, rfl, rfl⟩ := h
      exact ⟨Nat.le_refl _, .cons (.brk _ rfl) .nil, relImp.nil _⟩
  | .cont t, B, C, nx, sid, cid, a, m, s1, c1, h => by
    cases C with
    | nil => rw [elabS] at h; simp at h
    | cons c Ct =>
      cases nx with
      | false => rw [elabS] at h; simp at h
      | true =>
        rw [elabS] at h
        simp only [if_true, Except.ok.injEq, Prod.mk.injEq] at h
        obtain ⟨rfl, rfl, rfl, rfl⟩ := h
        exact ⟨Nat.le_refl _, .cons (.cont _ rfl) .nil, relImp.nil _⟩
  | .ite i lp c rp lb body rb elifs els, B, C, nx, sid, cid, a, m, s1, c1, h => by
    rw [elabS] at h
    cases hc : elabCond env σ c cid with
    | error e => simp [hc] at h
    | ok q =>
      obtain ⟨t, cid0⟩ := q
      simp only [hc] at h
      cases hb : elabL env sn σ B C true body sid cid0 with
      | error e => simp [hb] at h
      | ok q2 =>
        obtain ⟨b, m1, s1', c1'⟩ := q2
        simp only [hb] at h
        cases hes : elabElifs env sn σ B C elifs s1' c1' with
        | error e => simp [hes] at h
        | ok q3 =>
          obtain ⟨es, m2, s2, c2⟩ := q3
          simp only [hes] at h
          cases hel : elabElse env sn σ B C els s2 c2 with
          | error e => simp [hel] at h
          | ok q4 =>
            obtain ⟨el, m3, s3, c3⟩ := q4
            simp only [hel, Except.ok.injEq, Prod.mk.injEq] at h
            obtain ⟨rfl, rfl, rfl, rfl⟩ := h
            obtain ⟨l0, r0⟩ := elabCond_ids env σ c cid t cid0 hc
            obtain ⟨l1, r1, i1⟩ := elabL_ids body _ _ _ _ _ _ _ _ _ hb
            obtain ⟨l2, r2, i2⟩ := elabElifs_ids elifs _ _ _ _ _ _ _ _ hes
            obtain ⟨l3, r3, i3⟩ := elabElse_ids els _ _ _ _ _ _ _ _ hel
            refine ⟨by omega, .cons (.ite _ ?_ ?_ ?_ ?_) .nil, relImp.add ?_ (relImp.add ?_ ?_)⟩
            · exact relB.mono (Rid_sub (Nat.le_refl _) (by omega)) r0
            · exact RelL.mono (Rid_sub (by omega) (by omega)) r1
            · exact RelElifs.mono (Rid_sub (by omega) (by omega)) r2
            · exact RelOptL.mono (Rid_sub (by omega) (by omega)) r3
            · exact relImp.mono (Rid_sub (by omega) (by omega)) i1
            · exact relImp.mono (Rid_sub (by omega) (by omega)) i2
            · exact relImp.mono (Rid_sub (by omega) (by omega)) i3
  | .while_ w lp c rp lb body rb, B, C, nx, sid, cid, a, m, s1, c1, h => by
    rw [elabS] at h
    cases hc : elabCond env σ c cid with
    | error e => simp [hc] at h
    | ok q =>
      obtain ⟨t, cid0⟩ := q
      simp only [hc] at h
      cases hb : elabL env sn σ (sid :: B) (sid :: C) true body (sid + 1) cid0 with
      | error e => simp [hb] at h
      | ok q2 =>
        obtain ⟨b, m1, s1', c1'⟩ := q2
        simp only [hb, Except.ok.injEq, Prod.mk.injEq] at h
        obtain ⟨rfl, rfl, rfl, rfl⟩ := h
        obtain ⟨l0, r0⟩ := elabCond_ids env σ c cid t cid0 hc
        obtain ⟨l1, r1, i1⟩ := elabL_ids body _ _ _ _ _ _ _ _ _ hb
        refine ⟨by omega, .cons (.while_ _ rfl ?_ ?_) .nil, relImp.mono (Rid_sub (by omega) (by omega)) i1⟩
        · exact relB.mono (Rid_sub (Nat.le_refl _) (by omega)) r0
        · exact RelL.mono (Rid_sub (by omega) (by omega)) r1
  | .whileInf w lb body rb, B, C, nx, sid, cid, a, m, s1, c1, h => by
    rw [elabS] at h
    cases hb : elabL env sn σ (sid :: B) (sid :: C) true body (sid + 1) cid with
    | error e => simp [hb] at h
    | ok q2 =>
      obtain ⟨b, m1, s1', c1'⟩ := q2
      simp only [hb, Except.ok.injEq, Prod.mk.injEq] at h
      obtain ⟨rfl, rfl, rfl, rfl⟩ := h
      obtain ⟨l1, r1, i1⟩ := elabL_ids body _ _ _ _ _ _ _ _ _ hb
      exact ⟨l1, .cons (.while_ _ rfl trivial r1) .nil, i1⟩
  | .doWhile d lb body rb w lp c rp, B, C, nx, sid, cid, a, m, s1, c1, h => by
    rw [elabS] at h
    cases hb : elabL env sn σ (sid :: B) (sid :: C) true body (sid + 1) cid with
    | error e => simp [hb] at h
    | ok q2 =>
      obtain ⟨b, m1, s1', c1'⟩ := q2
      simp only [hb] at h
      cases hc : elabCond env σ c c1' with
      | error e => simp [hc] at h
      | ok q =>
        obtain ⟨t, cid2⟩ := q
        simp only [hc, Except.ok.injEq, Prod.mk.injEq] at h
        obtain ⟨rfl, rfl, rfl, rfl⟩ := h
        obtain ⟨l1, r1, i1⟩ := elabL_ids body _ _ _ _ _ _ _ _ _ hb
        obtain ⟨l0, r0⟩ := elabCond_ids env σ c c1' t _ hc
        refine ⟨by omega, .cons (.doWhile _ rfl ?_ ?_) .nil, relImp.mono (Rid_sub (by omega) (by omega)) i1⟩
        · exact relB.mono (Rid_sub (by omega) (Nat.le_refl _)) r0
        · exact RelL.mono (Rid_sub (by omega) (by omega)) r1
  | .switch_ sw lp v lp2 ops rp2 rp lb cases rb, B, C, nx, sid, cid, a, m, s1, c1, h => by
    rw [elabS] at h
    cases hcs : elabCases env sn σ (sid :: B) C cases [] false (sid + 1) cid with
    | error e => simp [hcs] at h
    | ok q =>
      obtain ⟨cs, m1, s1', c1'⟩ := q
      simp only [hcs] at h
      cases he : cs.isEmpty with
      | true => simp [he] at h
      | false =>
        simp only [he, Bool.false_eq_true, if_false, Except.ok.injEq, Prod.mk.injEq] at h
        obtain ⟨rfl, rfl, rfl, rfl⟩ := h
        obtain ⟨l1, r1, i1⟩ := elabCases_ids cases _ _ _ _ _ _ _ _ _ _ hcs
        exact ⟨l1, .cons (.switch_ _ _ rfl r1) .nil, i1⟩
  | .switchA sw lp name lp2 a0 more rp2 rp lb cases rb, B, C, nx, sid, cid, a, m, s1, c1, h => by
    rw [elabS] at h
    cases hl : env.autoVars.lookup name.lit with
    | none => simp [hl] at h
    | some av =>
      simp only [hl] at h
      cases hp : autoPosBad av (more.length + 1) with
      | some pos => simp [hp] at h
      | none =>
        simp only [hp] at h
        cases hcs : elabCases env sn σ (sid :: B) C cases [] false (sid + 1) (cid + 1) with
        | error e => simp [hcs] at h
        | ok q =>
          obtain ⟨cs, m1, s1', c1'⟩ := q
          simp only [hcs] at h
          cases he : cs.isEmpty with
          | true => simp [he] at h
          | false =>
            simp only [he, Bool.false_eq_true, if_false, Except.ok.injEq, Prod.mk.injEq] at h
            obtain ⟨rfl, rfl, rfl, rfl⟩ := h
            obtain ⟨l1, r1, i1⟩ := elabCases_ids cases _ _ _ _ _ _ _ _ _ _ hcs
            refine ⟨by omega, .cons (.cmd ⟨⟨rfl, Nat.le_refl _, by show cid < _; omega⟩, rfl, rfl, rfl⟩)
              (.cons (.switch_ _ _ rfl (RelCases.mono (Rid_sub (by omega) (Nat.le_refl _)) r1)) .nil),
              relImp.mono (Rid_sub (by omega) (Nat.le_refl _)) i1⟩
  | .pory ps lp x rp lb cases rb, B, C, nx, sid, cid, a, m, s1, c1, h => by
    rw [elabS] at h
    cases h1 : (env.envErrors && env.switches.isEmpty) with
    | true => rw [h1] at h; simp at h
    | false =>
      rw [h1] at h
      cases h2 : (env.envErrors && (env.switches.lookup x.lit).isNone) with
      | true => rw [h2] at h; simp at h
      | false =>
        rw [h2] at h
        simp only [Bool.false_eq_true, if_false] at h
        cases hp : elabPCases env sn σ B C cases [] sid cid with
        | error e => simp [hp] at h
        | ok q =>
          obtain ⟨tb, s1', c1'⟩ := q
          simp only [hp] at h
          obtain ⟨l1, ht⟩ := elabPCases_ids cases _ _ _ _ _ _ _ _ hp cid (Nat.le_refl _)
            (fun e he => absurd he List.not_mem_nil)
          cases hsel : selectCase env tb (swVal env x.lit) with
          | some r =>
            simp only [hsel, Except.ok.injEq, Prod.mk.injEq] at h
            obtain ⟨rfl, rfl, rfl, rfl⟩ := h
            obtain ⟨k, hk⟩ := selectCase_mem env hsel
            exact ⟨l1, (ht _ hk).1, (ht _ hk).2⟩
          | none =>
            simp only [hsel] at h
            cases hee : env.envErrors with
            | true => simp [hee] at h
            | false =>
              simp only [hee, Bool.false_eq_true, if_false, Except.ok.injEq, Prod.mk.injEq] at h
              obtain ⟨rfl, rfl, rfl, rfl⟩ := h
              exact ⟨l1, .nil, relImp.nil _⟩
theorem elabL_ids : ∀ (b : List SStmt) (B C : List Nat) (last : Bool) (sid cid : Nat) (a : List Stmt)
    (m : ImpData) (s1 c1 : Nat), elabL env sn σ B C last b sid cid = .ok (a, m, s1, c1) →
      cid ≤ c1 ∧ RelL (Rid cid c1) a a ∧ relImp (Rid cid c1) m m
  | [], _, _, _, _, _, _, _, _, _, h => by
    rw [elabL_nil] at h
    simp only [Except.ok.injEq, Prod.mk.injEq] at h
    obtain ⟨rfl, rfl, rfl, rfl⟩ := h
    exact ⟨Nat.le_refl _, .nil, relImp.nil _⟩
  | x :: rest, B, C, last, sid, cid, a, m, s1, c1, h => by
    rw [elabL_cons] at h
    cases hx : elabS env sn σ B C (rest.isEmpty && last) x sid cid with
    | error e => simp [hx] at h
    | ok q =>
      obtain ⟨a1, m1, s1', c1'⟩ := q
      simp only [hx] at h
      cases hr : elabL env sn σ B C last rest s1' c1' with
      | error e => simp [hr] at h
      | ok q2 =>
        obtain ⟨a2, m2, s2, c2⟩ := q2
        simp only [hr, Except.ok.injEq, Prod.mk.injEq] at h
        obtain ⟨rfl, rfl, rfl, rfl⟩ := h
        obtain ⟨l1, r1, i1⟩ := elabS_ids x _ _ _ _ _ _ _ _ _ hx
        obtain ⟨l2, r2, i2⟩ := elabL_ids rest _ _ _ _ _ _ _ _ _ hr
        exact ⟨by omega,
          RelL.append (RelL.mono (Rid_sub (Nat.le_refl _) l2) r1) (RelL.mono (Rid_sub l1 (Nat.le_refl _)) r2),
          relImp.add (relImp.mono (Rid_sub (Nat.le_refl _) l2) i1) (relImp.mono (Rid_sub l1 (Nat.le_refl _)) i2)⟩
theorem elabElifs_ids : ∀ (es : List SElif) (B C : List Nat) (sid cid : Nat)
    (a : List (BoolExpr × List Stmt)) (m : ImpData) (s1 c1 : Nat),
    elabElifs env sn σ B C es sid cid = .ok (a, m, s1, c1) →
      cid ≤ c1 ∧ RelElifs (Rid cid c1) a a ∧ relImp (Rid cid c1) m m
  | [], _, _, _, _, _, _, _, _, h => by
    rw [elabElifs] at h
    simp only [Except.ok.injEq, Prod.mk.injEq] at h
    obtain ⟨rfl, rfl, rfl, rfl⟩ := h
    exact ⟨Nat.le_refl _, .nil, relImp.nil _⟩
  | .mk e lp c rp lb body rb :: rest, B, C, sid, cid, a, m, s1, c1, h => by
    rw [elabElifs] at h
    cases hc : elabCond env σ c cid with
    | error e => simp [hc] at h
    | ok q =>
      obtain ⟨t, cid0⟩ := q
      simp only [hc] at h
      cases hb : elabL env sn σ B C true body sid cid0 with
      | error e => simp [hb] at h
      | ok q2 =>
        obtain ⟨b, m1, s1', c1'⟩ := q2
        simp only [hb] at h
        cases hes : elabElifs env sn σ B C rest s1' c1' with
        | error e => simp [hes] at h
        | ok q3 =>
          obtain ⟨es, m2, s2, c2⟩ := q3
          simp only [hes, Except.ok.injEq, Prod.mk.injEq] at h
          obtain ⟨rfl, rfl, rfl, rfl⟩ := h
          obtain ⟨l0, r0⟩ := elabCond_ids env σ c cid t cid0 hc
          obtain ⟨l1, r1, i1⟩ := elabL_ids body _ _ _ _ _ _ _ _ _ hb
          obtain ⟨l2, r2, i2⟩ := elabElifs_ids rest _ _ _ _ _ _ _ _ hes
          refine ⟨by omega, .cons ?_ ?_ ?_, relImp.add ?_ ?_⟩
          · exact relB.mono (Rid_sub (Nat.le_refl _) (by omega)) r0
          · exact RelL.mono (Rid_sub (by omega) (by omega)) r1
          · exact RelElifs.mono (Rid_sub (by omega) (by omega)) r2
          · exact relImp.mono (Rid_sub (by omega) (by omega)) i1
          · exact relImp.mono (Rid_sub (by omega) (by omega)) i2
theorem elabElse_ids : ∀ (el : SElse) (B C : List Nat) (sid cid : Nat) (a : Option (List Stmt)) (m : ImpData)
    (s1 c1 : Nat), elabElse env sn σ B C el sid cid = .ok (a, m, s1, c1) →
      cid ≤ c1 ∧ RelOptL (Rid cid c1) a a ∧ relImp (Rid cid c1) m m
  | .none, _, _, _, _, _, _, _, _, h => by
    rw [elabElse] at h
    simp only [Except.ok.injEq, Prod.mk.injEq] at h
    obtain ⟨rfl, rfl, rfl, rfl⟩ := h
    exact ⟨Nat.le_refl _, .none, relImp.nil _⟩
  | .some e lb body rb, B, C, sid, cid, a, m, s1, c1, h => by
    rw [elabElse] at h
    cases hb : elabL env sn σ B C true body sid cid with
    | error e => simp [hb] at h
    | ok q2 =>
      obtain ⟨b, m1, s1', c1'⟩ := q2
      simp only [hb, Except.ok.injEq, Prod.mk.injEq] at h
      obtain ⟨rfl, rfl, rfl, rfl⟩ := h
      obtain ⟨l1, r1, i1⟩ := elabL_ids body _ _ _ _ _ _ _ _ _ hb
      exact ⟨l1, .some r1, i1⟩
theorem elabCases_ids : ∀ (cases : List SCase) (B C : List Nat) (seen : List String) (hd : Bool)
    (sid cid : Nat) (a : List SwitchCase) (m : ImpData) (s1 c1 : Nat),
    elabCases env sn σ B C cases seen hd sid cid = .ok (a, m, s1, c1) →
      cid ≤ c1 ∧ RelCases (Rid cid c1) a a ∧ relImp (Rid cid c1) m m
  | [], _, _, _, _, _, _, _, _, _, _, h => by
    rw [elabCases] at h
    simp only [Except.ok.injEq, Prod.mk.injEq] at h
    obtain ⟨rfl, rfl, rfl, rfl⟩ := h
    exact ⟨Nat.le_refl _, .nil, relImp.nil _⟩
  | .case ct vs colon body :: rest, B, C, seen, hd, sid, cid, a, m, s1, c1, h => by
    rw [elabCases] at h
    cases hseen : seen.contains (caseValue σ vs) with
    | true => rw [hseen] at h; simp at h
    | false =>
      rw [hseen] at h
      simp only [Bool.false_eq_true, if_false] at h
      cases hb : elabL env sn σ B C rest.isEmpty body sid cid with
      | error e => simp [hb] at h
      | ok q2 =>
        obtain ⟨b, m1, s1', c1'⟩ := q2
        simp only [hb] at h
        cases hr : elabCases env sn σ B C rest (caseValue σ vs :: seen) hd s1' c1' with
        | error e => simp [hr] at h
        | ok q3 =>
          obtain ⟨cs, m2, s2, c2⟩ := q3
          simp only [hr, Except.ok.injEq, Prod.mk.injEq] at h
          obtain ⟨rfl, rfl, rfl, rfl⟩ := h
          obtain ⟨l1, r1, i1⟩ := elabL_ids body _ _ _ _ _ _ _ _ _ hb
          obtain ⟨l2, r2, i2⟩ := elabCases_ids rest _ _ _ _ _ _ _ _ _ _ hr
          exact ⟨by omega,
            .cons _ _ (RelL.mono (Rid_sub (Nat.le_refl _) l2) r1) (RelCases.mono (Rid_sub l1 (Nat.le_refl _)) r2),
            relImp.add (relImp.mono (Rid_sub (Nat.le_refl _) l2) i1) (relImp.mono (Rid_sub l1 (Nat.le_refl _)) i2)⟩
  | .dflt d colon body :: rest, B, C, seen, hd, sid, cid, a, m, s1, c1, h => by
    rw [elabCases] at h
    cases hd with
    | true => simp at h
    | false =>
      simp only [Bool.false_eq_true, if_false] at h
      cases hb : elabL env sn σ B C rest.isEmpty body sid cid with
      | error e => simp [hb] at h
      | ok q2 =>
        obtain ⟨b, m1, s1', c1'⟩ := q2
        simp only [hb] at h
        cases hr : elabCases env sn σ B C rest seen true s1' c1' with
        | error e => simp [hr] at h
        | ok q3 =>
          obtain ⟨cs, m2, s2, c2⟩ := q3
          simp only [hr, Except.ok.injEq, Prod.mk.injEq] at h
          obtain ⟨rfl, rfl, rfl, rfl⟩ := h
          obtain ⟨l1, r1, i1⟩ := elabL_ids body _ _ _ _ _ _ _ _ _ hb
          obtain ⟨l2, r2, i2⟩ := elabCases_ids rest _ _ _ _ _ _ _ _ _ _ hr
          exact ⟨by omega,
            .cons _ _ (RelL.mono (Rid_sub (Nat.le_refl _) l2) r1) (RelCases.mono (Rid_sub l1 (Nat.le_refl _)) r2),
            relImp.add (relImp.mono (Rid_sub (Nat.le_refl _) l2) i1) (relImp.mono (Rid_sub l1 (Nat.le_refl _)) i2)⟩
theorem elabPCases_ids : ∀ (cases : List SPCase) (B C : List Nat) (acc : List (String × List Stmt × ImpData))
    (sid cid : Nat) (tb : List (String × List Stmt × ImpData)) (s1 c1 : Nat),
    elabPCases env sn σ B C cases acc sid cid = .ok (tb, s1, c1) →
      ∀ lo, lo ≤ cid → TabIds lo cid acc → cid ≤ c1 ∧ TabIds lo c1 tb
  | [], _, _, _, _, _, _, _, _, h => by
    rw [elabPCases] at h
    simp only [Except.ok.injEq, Prod.mk.injEq] at h
    obtain ⟨rfl, rfl, rfl⟩ := h
    exact fun lo _ ht => ⟨Nat.le_refl _, ht⟩
  | .colon key ct x :: rest, B, C, acc, sid, cid, tb, s1, c1, h => by
    rw [elabPCases] at h
    cases hx : elabS env sn σ B C rest.isEmpty x sid cid with
    | error e => simp [hx] at h
    | ok q =>
      obtain ⟨a1, m1, s1', c1'⟩ := q
      simp only [hx] at h
      obtain ⟨l1, r1, i1⟩ := elabS_ids x _ _ _ _ _ _ _ _ _ hx
      intro lo hlo ht
      obtain ⟨l2, ht2⟩ := elabPCases_ids rest _ _ _ _ _ _ _ _ h lo (by omega) (by
        intro e he
        rcases List.mem_cons.1 he with rfl | he
        · exact ⟨RelL.mono (Rid_sub hlo (Nat.le_refl _)) r1, relImp.mono (Rid_sub hlo (Nat.le_refl _)) i1⟩
        · exact (ht.mono l1) e he)
      exact ⟨by omega, ht2⟩
  | .brace key lbt body rbt :: rest, B, C, acc, sid, cid, tb, s1, c1, h => by
    rw [elabPCases] at h
    cases hx : elabL env sn σ B C true body sid cid with
    | error e => simp [hx] at h
    | ok q =>
      obtain ⟨a1, m1, s1', c1'⟩ := q
      simp only [hx] at h
      obtain ⟨l1, r1, i1⟩ := elabL_ids body _ _ _ _ _ _ _ _ _ hx
      intro lo hlo ht
      obtain ⟨l2, ht2⟩ := elabPCases_ids rest _ _ _ _ _ _ _ _ h lo (by omega) (by
        intro e he
        rcases List.mem_cons.1 he with rfl | he
        · exact ⟨RelL.mono (Rid_sub hlo (Nat.le_refl _)) r1, relImp.mono (Rid_sub hlo (Nat.le_refl _)) i1⟩
        · exact (ht.mono l1) e he)
      exact ⟨by omega, ht2⟩
end
end

end Pory.P2
