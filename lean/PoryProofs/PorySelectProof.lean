import PoryProofs.PorySelect
/-
C12c helpers, part 2: elaborating the selected block reproduces the original elaboration up to an
order-preserving renumbering of command ids and scope ids (`selL_ok` and its mutual companions).
-/
namespace Pory.C12c
open Pory Pory.Parser Pory.C02P Pory.C10b Pory.SwitchParse Pory.StmtG
open Pory.C14b (swVal)
open Pory.C10c
open Pory.C11b (operandName badPosMsg Form printAuto autoLeafT leftSideMsg)

/-! ### conditions -/

/-- No leaf runs a command. -/
def noPre : BoolExpr → Prop
  | .leaf e => e.preamble = none
  | .bin l _ r => noPre l ∧ noPre r

theorem relB_refl (R : Ren) : ∀ {t : BoolExpr}, noPre t → relB R t t
  | .leaf e, h => by
    simp only [noPre] at h
    simp [relB, relOp, h, relOptCmd]
  | .bin l op r, h => by
    simp only [noPre] at h
    exact ⟨relB_refl R h.1, rfl, relB_refl R h.2⟩

mutual
theorem noPre_treeOr (σ : String → String) : ∀ (neg : Bool) (g : SOr), noPre (treeOr σ neg g)
  | neg, .one a => by rw [treeOr]; exact noPre_treeAnd σ neg a
  | neg, .more a _ r => by rw [treeOr]; exact ⟨noPre_treeAnd σ neg a, noPre_treeOr σ neg r⟩
theorem noPre_treeAnd (σ : String → String) : ∀ (neg : Bool) (g : SAnd), noPre (treeAnd σ neg g)
  | neg, .one u => by rw [treeAnd]; exact noPre_treeUn σ neg u
  | neg, .more u _ r => by rw [treeAnd]; exact noPre_treeAndAcc σ neg _ r (noPre_treeUn σ neg u)
theorem noPre_treeAndAcc (σ : String → String) : ∀ (neg : Bool) (left : BoolExpr) (g : SAnd), noPre left →
    noPre (treeAndAcc σ neg left g)
  | neg, left, .one u, h => by rw [treeAndAcc]; exact ⟨h, noPre_treeUn σ neg u⟩
  | neg, left, .more u _ r, h => by
    rw [treeAndAcc]; exact noPre_treeAndAcc σ neg _ r ⟨h, noPre_treeUn σ neg u⟩
theorem noPre_treeUn (σ : String → String) : ∀ (neg : Bool) (g : SUn), noPre (treeUn σ neg g)
  | neg, .leaf lf => by
    rw [treeUn]
    show (negLeaf neg (leafT σ lf)).preamble = none
    cases neg <;> cases lf <;> rfl
  | neg, .paren n _ _ _ e => by rw [treeUn]; exact noPre_treeOr σ (neg != n) e
end

theorem elabCond_ok (env : Env) (σ : String → String) (c : SCond) (cid : Nat) (t : BoolExpr) (cid0 : Nat)
    (h : elabCond env σ c cid = .ok (t, cid0)) :
    cid ≤ cid0 ∧ ∀ (s' c' s : Nat) (R0 : Ren), R0.Inv ⟨s', c', s, cid⟩ →
      ∃ t' c0' R, elabCond env σ c c' = .ok (t', c0') ∧ R0.Le R ⟨s', c', s, cid⟩ ⟨s', c0', s, cid0⟩ ∧
        R.Inv ⟨s', c0', s, cid0⟩ ∧ relB R t' t := by
  cases c with
  | plain g =>
    simp only [elabCond, Except.ok.injEq, Prod.mk.injEq] at h
    obtain ⟨rfl, rfl⟩ := h
    refine ⟨Nat.le_refl _, fun s' c' s R0 hinv => ⟨_, _, R0, rfl, Ren.Le.refl _ _, hinv, ?_⟩⟩
    exact relB_refl R0 (noPre_treeOr σ false g)
  | auto fm name lp a0 more rp =>
    simp only [elabCond] at h
    cases hl : env.autoVars.lookup name.lit with
    | none => simp [hl] at h
    | some av =>
      simp only [hl] at h
      cases hp : autoPosBad av (more.length + 1) with
      | some pos => simp [hp] at h
      | none =>
        simp only [hp, Except.ok.injEq, Prod.mk.injEq] at h
        obtain ⟨rfl, rfl⟩ := h
        refine ⟨Nat.le_succ _, ?_⟩
        intro s' c' s R0 hinv
        have e : elabCond env σ (.auto fm name lp a0 more rp) c' =
            .ok (.leaf (autoLeafT σ fm (operandName av ((a0 :: more.map (·.2)).map (renderArg σ)))
              { id := c', tok := name, name := name.lit, args := (a0 :: more.map (·.2)).map (renderArg σ) }),
              c' + 1) := by
          simp only [elabCond, hl, hp]
        refine ⟨_, _, R0.addC c' cid, e, Ren.Le.addC R0 _ _ _ _, hinv.addC, ?_⟩
        simp [relB, relOp, autoLeafT, relOptCmd, relCmd, Ren.addC_c]

/-! ### the induction predicate -/

/-- `run` (the new elaboration, from ANY counters / stacks that correspond to the original ones under `R0`)
succeeds and its result is the original result `(a, m, sid1, cid1)` up to an extension `R` of `R0` by pairs of
new ids. -/
def GoodG {α : Type} (rel : Ren → α → α → Prop)
    (run : List Nat → List Nat → Nat → Nat → Except PFail (α × ImpData × Nat × Nat))
    (B C : List Nat) (sid cid : Nat) (a : α) (m : ImpData) (sid1 cid1 : Nat) : Prop :=
  ∀ (B' C' : List Nat) (sid' cid' : Nat) (R0 : Ren),
    R0.Inv ⟨sid', cid', sid, cid⟩ → All2 R0.s B' B → All2 R0.s C' C →
    ∃ a' m' sid1' cid1' R, run B' C' sid' cid' = .ok (a', m', sid1', cid1') ∧
      R0.Le R ⟨sid', cid', sid, cid⟩ ⟨sid1', cid1', sid1, cid1⟩ ∧ R.Inv ⟨sid1', cid1', sid1, cid1⟩ ∧
      rel R a' a ∧ relImp R m' m

theorem GoodG.weaken {α : Type} {rel : Ren → α → α → Prop}
    {run : List Nat → List Nat → Nat → Nat → Except PFail (α × ImpData × Nat × Nat)}
    {B C : List Nat} {s c : Nat} {a : α} {m : ImpData} {s1 c1 : Nat}
    (h : GoodG rel run B C s c a m s1 c1) {sid cid sid1 cid1 : Nat}
    (h1 : sid ≤ s) (h2 : cid ≤ c) (h3 : s1 ≤ sid1) (h4 : c1 ≤ cid1) :
    GoodG rel run B C sid cid a m sid1 cid1 := by
  intro B' C' sid' cid' R0 hinv hB hC
  obtain ⟨a', m', s1', c1', R, e, le, inv, ra, rm⟩ :=
    h B' C' sid' cid' R0 (hinv.mono h1 h2) hB hC
  exact ⟨a', m', s1', c1', R, e, le.weaken h1 h2 h3 h4, inv.mono h3 h4, ra, rm⟩

section
variable (env : Env) (sn : String) (σ : String → String)

/-- The selected statements `bs`, elaborated under any closing flag for which they obey the `continue` rule,
reproduce `(a, m, sid1, cid1)`. -/
def Good (B C : List Nat) (bs : List SStmt) (sid cid : Nat) (a : List Stmt) (m : ImpData)
    (sid1 cid1 : Nat) : Prop :=
  ∀ last' : Bool, clL last' bs = true →
    GoodG RelL (fun B' C' s c => elabL env sn σ B' C' last' bs s c) B C sid cid a m sid1 cid1

def GoodElifs (B C : List Nat) (es' : List SElif) (sid cid : Nat) (es : List (BoolExpr × List Stmt))
    (m : ImpData) (sid1 cid1 : Nat) : Prop :=
  clElifs es' = true →
    GoodG RelElifs (fun B' C' s c => elabElifs env sn σ B' C' es' s c) B C sid cid es m sid1 cid1

def GoodElse (B C : List Nat) (el' : SElse) (sid cid : Nat) (el : Option (List Stmt))
    (m : ImpData) (sid1 cid1 : Nat) : Prop :=
  clElse el' = true →
    GoodG RelOptL (fun B' C' s c => elabElse env sn σ B' C' el' s c) B C sid cid el m sid1 cid1

def GoodCases (B C : List Nat) (cs' : List SCase) (seen : List String) (hd : Bool) (sid cid : Nat)
    (cs : List SwitchCase) (m : ImpData) (sid1 cid1 : Nat) : Prop :=
  clCases cs' = true →
    GoodG RelCases (fun B' C' s c => elabCases env sn σ B' C' cs' seen hd s c) B C sid cid cs m sid1 cid1

/-- One rebuilt statement. -/
def Good1 (B C : List Nat) (x' : SStmt) (sid cid : Nat) (a : List Stmt) (m : ImpData)
    (sid1 cid1 : Nat) : Prop :=
  ∀ nx' : Bool, clS nx' x' = true →
    GoodG RelL (fun B' C' s c => elabS env sn σ B' C' nx' x' s c) B C sid cid a m sid1 cid1

variable {env sn σ}

theorem Good1.toGood {B C : List Nat} {x' : SStmt} {sid cid : Nat} {a : List Stmt} {m : ImpData}
    {sid1 cid1 : Nat} (h : Good1 env sn σ B C x' sid cid a m sid1 cid1) :
    Good env sn σ B C [x'] sid cid a m sid1 cid1 := by
  intro last' hcl
  simp only [clL, List.isEmpty_nil, Bool.true_and, Bool.and_true] at hcl
  have := h last' hcl
  intro B' C' sid' cid' R0 hinv hB hC
  obtain ⟨a', m', s1', c1', R, e, rest⟩ := this B' C' sid' cid' R0 hinv hB hC
  exact ⟨a', m', s1', c1', R, by simp only [elabL_single]; exact e, rest⟩

theorem Good.nil (B C : List Nat) (sid cid : Nat) : Good env sn σ B C [] sid cid [] {} sid cid := by
  intro last' _ B' C' sid' cid' R0 hinv _ _
  exact ⟨[], {}, sid', cid', R0, elabL_nil .., Ren.Le.refl _ _, hinv, .nil, relImp.nil _⟩

theorem Good.weaken {B C : List Nat} {bs : List SStmt} {s c : Nat} {a : List Stmt} {m : ImpData} {s1 c1 : Nat}
    (h : Good env sn σ B C bs s c a m s1 c1) {sid cid sid1 cid1 : Nat}
    (h1 : sid ≤ s) (h2 : cid ≤ c) (h3 : s1 ≤ sid1) (h4 : c1 ≤ cid1) :
    Good env sn σ B C bs sid cid a m sid1 cid1 :=
  fun last' hcl => (h last' hcl).weaken h1 h2 h3 h4

theorem Good.append {B C : List Nat} {xs rs : List SStmt} {sid cid : Nat} {a : List Stmt} {m : ImpData}
    {sid1 cid1 : Nat} {b : List Stmt} {m2 : ImpData} {sid2 cid2 : Nat}
    (h1 : Good env sn σ B C xs sid cid a m sid1 cid1) (h2 : Good env sn σ B C rs sid1 cid1 b m2 sid2 cid2) :
    Good env sn σ B C (xs ++ rs) sid cid (a ++ b) (m.add m2) sid2 cid2 := by
  intro last' hcl B' C' sid' cid' R0 hinv hB hC
  rw [clL_append, Bool.and_eq_true] at hcl
  obtain ⟨a', m', s1', c1', R1, e1, le1, inv1, ra, rm⟩ :=
    h1 (rs.isEmpty && last') hcl.1 B' C' sid' cid' R0 hinv hB hC
  obtain ⟨b', m2', s2', c2', R2, e2, le2, inv2, rb, rm2⟩ :=
    h2 last' hcl.2 B' C' s1' c1' R1 inv1 (All2.imp le1.ssub hB) (All2.imp le1.ssub hC)
  refine ⟨a' ++ b', m'.add m2', s2', c2', R2, ?_, le1.trans le2, inv2, (ra.mono le2.sub).append rb,
    (rm.mono le2.sub).add rm2⟩
  simp only at e1 e2 ⊢
  rw [elabL_append, e1]
  simp only [e2]

/-! ### one step lemma per constructor (the induction hypotheses are premises) -/

theorem good_cmdLeaf {B C : List Nat} {x : SStmt} {name : Tok} {args : List String} {imp : Nat → ImpData}
    (hx : ∀ B C nx sid cid, elabS env sn σ B C nx x sid cid = .ok ([cmdNode cid name args], imp cid, sid, cid + 1))
    (himp : ∀ (R : Ren) (c' c : Nat), R.c c' c → relImp R (imp c') (imp c)) (sid cid : Nat) :
    Good env sn σ B C [x] sid cid [cmdNode cid name args] (imp cid) sid (cid + 1) := by
  refine Good1.toGood ?_
  intro nx' _ B' C' sid' cid' R0 hinv _ _
  refine ⟨_, _, _, _, R0.addC cid' cid, hx B' C' nx' sid' cid', Ren.Le.addC R0 _ _ _ _, hinv.addC, ?_,
    himp _ _ _ (R0.addC_c _ _)⟩
  exact .cons (.cmd ⟨R0.addC_c _ _, rfl, rfl, rfl⟩) .nil

theorem good_sameLeaf {B C : List Nat} {x : SStmt} {a : List Stmt}
    (hx : ∀ B C nx sid cid, elabS env sn σ B C nx x sid cid = .ok (a, {}, sid, cid))
    (ha : ∀ R : Ren, RelL R a a) (sid cid : Nat) :
    Good env sn σ B C [x] sid cid a {} sid cid := by
  refine Good1.toGood ?_
  intro nx' _ B' C' sid' cid' R0 hinv _ _
  exact ⟨_, _, _, _, R0, hx B' C' nx' sid' cid', Ren.Le.refl _ _, hinv, ha R0, relImp.nil _⟩

theorem good_brk {C : List Nat} (t : Tok) (b : Nat) (Bt : List Nat) (sid cid : Nat) :
    Good env sn σ (b :: Bt) C [.brk t] sid cid [.brk t b] {} sid cid := by
  refine Good1.toGood ?_
  intro nx' _ B' C' sid' cid' R0 hinv hB _
  cases B' with
  | nil => exact hB.elim
  | cons b' Bt' =>
    refine ⟨[.brk t b'], {}, sid', cid', R0, ?_, Ren.Le.refl _ _, hinv, .cons (.brk t hB.1) .nil, relImp.nil _⟩
    simp only [elabS]

theorem good_cont {B : List Nat} (t : Tok) (c : Nat) (Ct : List Nat) (sid cid : Nat) :
    Good env sn σ B (c :: Ct) [.cont t] sid cid [.cont t c] {} sid cid := by
  refine Good1.toGood ?_
  intro nx' hcl B' C' sid' cid' R0 hinv _ hC
  simp only [clS] at hcl
  cases C' with
  | nil => exact hC.elim
  | cons c' Ct' =>
    refine ⟨[.cont t c'], {}, sid', cid', R0, ?_, Ren.Le.refl _ _, hinv, .cons (.cont t hC.1) .nil, relImp.nil _⟩
    simp only [elabS, hcl, if_true]

theorem step_while {B C : List Nat} {w lp : Tok} {c : SCond} {rp lb rb : Tok} {bs : List SStmt}
    {sid cid : Nat} {t : BoolExpr} {cid0 : Nat} {b : List Stmt} {m1 : ImpData} {sid1 cid1 : Nat}
    (hc : elabCond env σ c cid = .ok (t, cid0))
    (hb : Good env sn σ (sid :: B) (sid :: C) bs (sid + 1) cid0 b m1 sid1 cid1) :
    Good env sn σ B C [.while_ w lp c rp lb bs rb] sid cid [.while_ w sid (some t) b] m1 sid1 cid1 := by
  refine Good1.toGood ?_
  intro nx' hcl B' C' sid' cid' R0 hinv hB hC
  simp only [clS] at hcl
  obtain ⟨_, hcond⟩ := elabCond_ok env σ c cid t cid0 hc
  obtain ⟨t', c0', R1, e1, le1, inv1, rt⟩ := hcond sid' cid' sid R0 hinv
  obtain ⟨b', m', s1', c1', R2, e2, le2, inv2, rb', rm⟩ :=
    hb true hcl (sid' :: B') (sid' :: C') (sid' + 1) c0' (R1.addS sid' sid) inv1.addS
      ⟨R1.addS_s _ _, All2.imp (fun _ _ h => .inl (le1.ssub _ _ h)) hB⟩
      ⟨R1.addS_s _ _, All2.imp (fun _ _ h => .inl (le1.ssub _ _ h)) hC⟩
  have le := (le1.trans (Ren.Le.addS R1 sid' c0' sid cid0)).trans le2
  refine ⟨[.while_ w sid' (some t') b'], m', s1', c1', R2, ?_, le, inv2,
    .cons (.while_ w (le2.ssub _ _ (R1.addS_s _ _))
      (relB.mono ((Ren.Le.addS R1 sid' c0' sid cid0).sub.trans le2.sub) rt) rb') .nil, rm⟩
  simp only at e2 ⊢
  rw [elabS]
  simp only [e1, e2]

theorem step_whileInf {B C : List Nat} {w lb rb : Tok} {bs : List SStmt}
    {sid cid : Nat} {b : List Stmt} {m1 : ImpData} {sid1 cid1 : Nat}
    (hb : Good env sn σ (sid :: B) (sid :: C) bs (sid + 1) cid b m1 sid1 cid1) :
    Good env sn σ B C [.whileInf w lb bs rb] sid cid [.while_ w sid none b] m1 sid1 cid1 := by
  refine Good1.toGood ?_
  intro nx' hcl B' C' sid' cid' R0 hinv hB hC
  simp only [clS] at hcl
  obtain ⟨b', m', s1', c1', R2, e2, le2, inv2, rb', rm⟩ :=
    hb true hcl (sid' :: B') (sid' :: C') (sid' + 1) cid' (R0.addS sid' sid) hinv.addS
      ⟨R0.addS_s _ _, All2.imp (fun _ _ h => .inl h) hB⟩
      ⟨R0.addS_s _ _, All2.imp (fun _ _ h => .inl h) hC⟩
  have le := (Ren.Le.addS R0 sid' cid' sid cid).trans le2
  refine ⟨[.while_ w sid' none b'], m', s1', c1', R2, ?_, le, inv2,
    .cons (.while_ w (le2.ssub _ _ (R0.addS_s _ _)) trivial rb') .nil, rm⟩
  simp only at e2 ⊢
  rw [elabS]
  simp only [e2]

theorem step_doWhile {B C : List Nat} {d lb rb w lp : Tok} {c : SCond} {rp : Tok} {bs : List SStmt}
    {sid cid : Nat} {t : BoolExpr} {cid2 : Nat} {b : List Stmt} {m1 : ImpData} {sid1 cid1 : Nat}
    (hb : Good env sn σ (sid :: B) (sid :: C) bs (sid + 1) cid b m1 sid1 cid1)
    (hc : elabCond env σ c cid1 = .ok (t, cid2)) :
    Good env sn σ B C [.doWhile d lb bs rb w lp c rp] sid cid [.doWhile d sid t b] m1 sid1 cid2 := by
  refine Good1.toGood ?_
  intro nx' hcl B' C' sid' cid' R0 hinv hB hC
  simp only [clS] at hcl
  obtain ⟨b', m', s1', c1', R1, e1, le1, inv1, rb', rm⟩ :=
    hb true hcl (sid' :: B') (sid' :: C') (sid' + 1) cid' (R0.addS sid' sid) hinv.addS
      ⟨R0.addS_s _ _, All2.imp (fun _ _ h => .inl h) hB⟩
      ⟨R0.addS_s _ _, All2.imp (fun _ _ h => .inl h) hC⟩
  obtain ⟨_, hcond⟩ := elabCond_ok env σ c cid1 t cid2 hc
  obtain ⟨t', c2', R2, e2, le2, inv2, rt⟩ := hcond s1' c1' sid1 R1 inv1
  have le := ((Ren.Le.addS R0 sid' cid' sid cid).trans le1).trans le2
  refine ⟨[.doWhile d sid' t' b'], m', s1', c2', R2, ?_, le, inv2,
    .cons (.doWhile d (le2.ssub _ _ (le1.ssub _ _ (R0.addS_s _ _))) rt (rb'.mono le2.sub)) .nil,
    rm.mono le2.sub⟩
  simp only at e1 ⊢
  rw [elabS]
  simp only [e1, e2]

theorem goodElifs_nil (B C : List Nat) (sid cid : Nat) : GoodElifs env sn σ B C [] sid cid [] {} sid cid := by
  intro _ B' C' sid' cid' R0 hinv _ _
  exact ⟨[], {}, sid', cid', R0, by simp only [elabElifs], Ren.Le.refl _ _, hinv, .nil, relImp.nil _⟩

theorem step_elif {B C : List Nat} {e lp : Tok} {c : SCond} {rp lb rb : Tok} {bs : List SStmt}
    {rs : List SElif} {sid cid : Nat} {t : BoolExpr} {cid0 : Nat} {b : List Stmt} {m1 : ImpData}
    {sid1 cid1 : Nat} {es : List (BoolExpr × List Stmt)} {m2 : ImpData} {sid2 cid2 : Nat}
    (hc : elabCond env σ c cid = .ok (t, cid0))
    (hb : Good env sn σ B C bs sid cid0 b m1 sid1 cid1)
    (hr : GoodElifs env sn σ B C rs sid1 cid1 es m2 sid2 cid2) :
    GoodElifs env sn σ B C (.mk e lp c rp lb bs rb :: rs) sid cid ((t, b) :: es) (m1.add m2) sid2 cid2 := by
  intro hcl B' C' sid' cid' R0 hinv hB hC
  simp only [clElifs, Bool.and_eq_true] at hcl
  obtain ⟨_, hcond⟩ := elabCond_ok env σ c cid t cid0 hc
  obtain ⟨t', c0', R1, e1, le1, inv1, rt⟩ := hcond sid' cid' sid R0 hinv
  obtain ⟨b', m1', s1', c1', R2, e2, le2, inv2, rb', rm1⟩ :=
    hb true hcl.1 B' C' sid' c0' R1 inv1 (All2.imp le1.ssub hB) (All2.imp le1.ssub hC)
  obtain ⟨es', m2', s2', c2', R3, e3, le3, inv3, res, rm2⟩ :=
    hr hcl.2 B' C' s1' c1' R2 inv2 (All2.imp (le1.trans le2).ssub hB) (All2.imp (le1.trans le2).ssub hC)
  refine ⟨(t', b') :: es', m1'.add m2', s2', c2', R3, ?_, (le1.trans le2).trans le3, inv3,
    .cons (relB.mono (le2.sub.trans le3.sub) rt) (rb'.mono le3.sub) res, (rm1.mono le3.sub).add rm2⟩
  simp only at e2 e3 ⊢
  rw [elabElifs]
  simp only [e1, e2, e3]

theorem goodElse_none (B C : List Nat) (sid cid : Nat) :
    GoodElse env sn σ B C .none sid cid none {} sid cid := by
  intro _ B' C' sid' cid' R0 hinv _ _
  exact ⟨none, {}, sid', cid', R0, by simp only [elabElse], Ren.Le.refl _ _, hinv, .none, relImp.nil _⟩

theorem step_else {B C : List Nat} {e lb rb : Tok} {bs : List SStmt} {sid cid : Nat} {b : List Stmt}
    {m1 : ImpData} {sid1 cid1 : Nat} (hb : Good env sn σ B C bs sid cid b m1 sid1 cid1) :
    GoodElse env sn σ B C (.some e lb bs rb) sid cid (some b) m1 sid1 cid1 := by
  intro hcl B' C' sid' cid' R0 hinv hB hC
  simp only [clElse] at hcl
  obtain ⟨b', m1', s1', c1', R1, e1, le1, inv1, rb', rm1⟩ := hb true hcl B' C' sid' cid' R0 hinv hB hC
  refine ⟨some b', m1', s1', c1', R1, ?_, le1, inv1, .some rb', rm1⟩
  simp only at e1 ⊢
  rw [elabElse]
  simp only [e1]

theorem step_ite {B C : List Nat} {i lp : Tok} {c : SCond} {rp lb rb : Tok} {bs : List SStmt}
    {es' : List SElif} {el' : SElse} {sid cid : Nat} {t : BoolExpr} {cid0 : Nat} {b : List Stmt}
    {m1 : ImpData} {sid1 cid1 : Nat} {es : List (BoolExpr × List Stmt)} {m2 : ImpData} {sid2 cid2 : Nat}
    {el : Option (List Stmt)} {m3 : ImpData} {sid3 cid3 : Nat}
    (hc : elabCond env σ c cid = .ok (t, cid0))
    (hb : Good env sn σ B C bs sid cid0 b m1 sid1 cid1)
    (hes : GoodElifs env sn σ B C es' sid1 cid1 es m2 sid2 cid2)
    (hel : GoodElse env sn σ B C el' sid2 cid2 el m3 sid3 cid3) :
    Good env sn σ B C [.ite i lp c rp lb bs rb es' el'] sid cid [.ite i t b es el] (m1.add (m2.add m3))
      sid3 cid3 := by
  refine Good1.toGood ?_
  intro nx' hcl B' C' sid' cid' R0 hinv hB hC
  simp only [clS, Bool.and_eq_true] at hcl
  obtain ⟨⟨hcl1, hcl2⟩, hcl3⟩ := hcl
  obtain ⟨_, hcond⟩ := elabCond_ok env σ c cid t cid0 hc
  obtain ⟨t', c0', R1, e1, le1, inv1, rt⟩ := hcond sid' cid' sid R0 hinv
  obtain ⟨b', m1', s1', c1', R2, e2, le2, inv2, rb', rm1⟩ :=
    hb true hcl1 B' C' sid' c0' R1 inv1 (All2.imp le1.ssub hB) (All2.imp le1.ssub hC)
  have le12 := le1.trans le2
  obtain ⟨es2, m2', s2', c2', R3, e3, le3, inv3, res, rm2⟩ :=
    hes hcl2 B' C' s1' c1' R2 inv2 (All2.imp le12.ssub hB) (All2.imp le12.ssub hC)
  have le13 := le12.trans le3
  obtain ⟨el2, m3', s3', c3', R4, e4, le4, inv4, rel, rm3⟩ :=
    hel hcl3 B' C' s2' c2' R3 inv3 (All2.imp le13.ssub hB) (All2.imp le13.ssub hC)
  refine ⟨[.ite i t' b' es2 el2], m1'.add (m2'.add m3'), s3', c3', R4, ?_, le13.trans le4, inv4,
    .cons (.ite i (relB.mono (le2.sub.trans (le3.sub.trans le4.sub)) rt)
      (rb'.mono (le3.sub.trans le4.sub)) (res.mono le4.sub) rel) .nil,
    (rm1.mono (le3.sub.trans le4.sub)).add ((rm2.mono le4.sub).add rm3)⟩
  simp only at e2 e3 e4 ⊢
  rw [elabS]
  simp only [e1, e2, e3, e4]

theorem goodCases_nil (B C : List Nat) (seen : List String) (hd : Bool) (sid cid : Nat) :
    GoodCases env sn σ B C [] seen hd sid cid [] {} sid cid := by
  intro _ B' C' sid' cid' R0 hinv _ _
  exact ⟨[], {}, sid', cid', R0, by simp only [elabCases], Ren.Le.refl _ _, hinv, .nil, relImp.nil _⟩

theorem step_case {B C : List Nat} {ct : Tok} {vs : List Tok} {colon : Tok} {bs : List SStmt}
    {rs : List SCase} {seen : List String} {hd : Bool} {sid cid : Nat} {b : List Stmt} {m1 : ImpData}
    {sid1 cid1 : Nat} {cs : List SwitchCase} {m2 : ImpData} {sid2 cid2 : Nat}
    (hseen : seen.contains (caseValue σ vs) = false)
    (hb : Good env sn σ B C bs sid cid b m1 sid1 cid1)
    (hr : GoodCases env sn σ B C rs (caseValue σ vs :: seen) hd sid1 cid1 cs m2 sid2 cid2) :
    GoodCases env sn σ B C (.case ct vs colon bs :: rs) seen hd sid cid
      ((caseTok σ vs colon, false, b) :: cs) (m1.add m2) sid2 cid2 := by
  intro hcl B' C' sid' cid' R0 hinv hB hC
  simp only [clCases, Bool.and_eq_true] at hcl
  obtain ⟨b', m1', s1', c1', R1, e1, le1, inv1, rb', rm1⟩ :=
    hb rs.isEmpty hcl.1 B' C' sid' cid' R0 hinv hB hC
  obtain ⟨cs', m2', s2', c2', R2, e2, le2, inv2, rcs, rm2⟩ :=
    hr hcl.2 B' C' s1' c1' R1 inv1 (All2.imp le1.ssub hB) (All2.imp le1.ssub hC)
  refine ⟨(caseTok σ vs colon, false, b') :: cs', m1'.add m2', s2', c2', R2, ?_, le1.trans le2, inv2,
    .cons _ _ (rb'.mono le2.sub) rcs, (rm1.mono le2.sub).add rm2⟩
  simp only at e1 e2 ⊢
  rw [elabCases]
  simp only [hseen, e1, e2, Bool.false_eq_true, if_false]

theorem step_dflt {B C : List Nat} {d colon : Tok} {bs : List SStmt}
    {rs : List SCase} {seen : List String} {sid cid : Nat} {b : List Stmt} {m1 : ImpData}
    {sid1 cid1 : Nat} {cs : List SwitchCase} {m2 : ImpData} {sid2 cid2 : Nat}
    (hb : Good env sn σ B C bs sid cid b m1 sid1 cid1)
    (hr : GoodCases env sn σ B C rs seen true sid1 cid1 cs m2 sid2 cid2) :
    GoodCases env sn σ B C (.dflt d colon bs :: rs) seen false sid cid
      ((({} : Tok), true, b) :: cs) (m1.add m2) sid2 cid2 := by
  intro hcl B' C' sid' cid' R0 hinv hB hC
  simp only [clCases, Bool.and_eq_true] at hcl
  obtain ⟨b', m1', s1', c1', R1, e1, le1, inv1, rb', rm1⟩ :=
    hb rs.isEmpty hcl.1 B' C' sid' cid' R0 hinv hB hC
  obtain ⟨cs', m2', s2', c2', R2, e2, le2, inv2, rcs, rm2⟩ :=
    hr hcl.2 B' C' s1' c1' R1 inv1 (All2.imp le1.ssub hB) (All2.imp le1.ssub hC)
  refine ⟨(({} : Tok), true, b') :: cs', m1'.add m2', s2', c2', R2, ?_, le1.trans le2, inv2,
    .cons _ _ (rb'.mono le2.sub) rcs, (rm1.mono le2.sub).add rm2⟩
  simp only at e1 e2 ⊢
  rw [elabCases]
  simp only [e1, e2, Bool.false_eq_true, if_false]

theorem RelCases.isEmpty_eq {R : Ren} {cs' cs : List SwitchCase} (h : RelCases R cs' cs) :
    cs'.isEmpty = cs.isEmpty := by
  cases h <;> rfl

theorem step_switch {B C : List Nat} {sw lp v lp2 : Tok} {ops : List Tok} {rp2 rp lb rb : Tok}
    {cs' : List SCase} {sid cid : Nat} {cs : List SwitchCase} {m1 : ImpData} {sid1 cid1 : Nat}
    (hcs : GoodCases env sn σ (sid :: B) C cs' [] false (sid + 1) cid cs m1 sid1 cid1)
    (hne : cs.isEmpty = false) :
    Good env sn σ B C [.switch_ sw lp v lp2 ops rp2 rp lb cs' rb] sid cid
      [.switch_ sw sid (operandOf σ ops rp2) cs] m1 sid1 cid1 := by
  refine Good1.toGood ?_
  intro nx' hcl B' C' sid' cid' R0 hinv hB hC
  simp only [clS] at hcl
  obtain ⟨cs2, m', s1', c1', R2, e2, le2, inv2, rcs, rm⟩ :=
    hcs hcl (sid' :: B') C' (sid' + 1) cid' (R0.addS sid' sid) hinv.addS
      ⟨R0.addS_s _ _, All2.imp (fun _ _ h => .inl h) hB⟩ (All2.imp (fun _ _ h => .inl h) hC)
  have le := (Ren.Le.addS R0 sid' cid' sid cid).trans le2
  refine ⟨[.switch_ sw sid' (operandOf σ ops rp2) cs2], m', s1', c1', R2, ?_, le, inv2,
    .cons (.switch_ sw _ (le2.ssub _ _ (R0.addS_s _ _)) rcs) .nil, rm⟩
  simp only at e2 ⊢
  rw [elabS]
  simp only [e2, rcs.isEmpty_eq, hne, Bool.false_eq_true, if_false]

theorem step_switchA {B C : List Nat} {sw lp name lp2 : Tok} {a0 : List Tok} {more : List (Tok × List Tok)}
    {rp2 rp lb rb : Tok} {cs' : List SCase} {sid cid : Nat} {cs : List SwitchCase} {m1 : ImpData}
    {sid1 cid1 : Nat} {av : AutoVar}
    (hl : env.autoVars.lookup name.lit = some av) (hp : autoPosBad av (more.length + 1) = none)
    (hcs : GoodCases env sn σ (sid :: B) C cs' [] false (sid + 1) (cid + 1) cs m1 sid1 cid1)
    (hne : cs.isEmpty = false) :
    Good env sn σ B C [.switchA sw lp name lp2 a0 more rp2 rp lb cs' rb] sid cid
      [cmdNode cid name ((a0 :: more.map (·.2)).map (renderArg σ)),
       .switch_ sw sid { name with type := .IDENT,
                                   lit := operandName av ((a0 :: more.map (·.2)).map (renderArg σ)) } cs]
      m1 sid1 cid1 := by
  refine Good1.toGood ?_
  intro nx' hcl B' C' sid' cid' R0 hinv hB hC
  simp only [clS] at hcl
  obtain ⟨cs2, m', s1', c1', R2, e2, le2, inv2, rcs, rm⟩ :=
    hcs hcl (sid' :: B') C' (sid' + 1) (cid' + 1) ((R0.addS sid' sid).addC cid' cid) hinv.addS.addC
      ⟨R0.addS_s _ _, All2.imp (fun _ _ h => .inl h) hB⟩ (All2.imp (fun _ _ h => .inl h) hC)
  have le := ((Ren.Le.addS R0 sid' cid' sid cid).trans
    (Ren.Le.addC (R0.addS sid' sid) (sid' + 1) cid' (sid + 1) cid)).trans le2
  refine ⟨[cmdNode cid' name ((a0 :: more.map (·.2)).map (renderArg σ)),
      .switch_ sw sid' { name with type := .IDENT,
                                    lit := operandName av ((a0 :: more.map (·.2)).map (renderArg σ)) } cs2],
    m', s1', c1', R2, ?_, le, inv2,
    .cons (.cmd ⟨le2.csub _ _ (Ren.addC_c _ _ _), rfl, rfl, rfl⟩)
      (.cons (.switch_ sw _ (le2.ssub _ _ (R0.addS_s _ _)) rcs) .nil), rm⟩
  simp only at e2 ⊢
  rw [elabS]
  simp only [hl, hp, e2, rcs.isEmpty_eq, hne, Bool.false_eq_true, if_false]

/-! ### the table of a poryswitch -/

variable (env sn σ) in
/-- An entry of the parser's table (key, statements, implicit data) and the entry of the selection table at
the same place: same key, and the selected form of the case reproduces the entry (between the counters of the
poryswitch). -/
def Entry (B C : List Nat) (sid0 cid0 sidF cidF : Nat) (p : String × List Stmt × ImpData)
    (q : String × Option (List SStmt)) : Prop :=
  p.1 = q.1 ∧ ∃ bs, q.2 = some bs ∧ Good env sn σ B C bs sid0 cid0 p.2.1 p.2.2 sidF cidF

theorem lookup_entry {B C : List Nat} {sid0 cid0 sidF cidF : Nat} (k : String) :
    ∀ {t : List (String × List Stmt × ImpData)} {tS : List (String × Option (List SStmt))},
    All2 (Entry env sn σ B C sid0 cid0 sidF cidF) t tS →
    (∀ r, t.lookup k = some r →
      ∃ bs, tS.lookup k = some (some bs) ∧ Good env sn σ B C bs sid0 cid0 r.1 r.2 sidF cidF) ∧
    (t.lookup k = none → tS.lookup k = none)
  | [], [], _ => by simp [List.lookup]
  | p :: t, q :: tS, h => by
    obtain ⟨⟨hk, bs, hq, hg⟩, ht⟩ := h
    obtain ⟨pk, pv⟩ := p
    obtain ⟨qk, qv⟩ := q
    simp only at hk hq hg
    subst hk
    subst hq
    have ih := lookup_entry k ht
    simp only [List.lookup]
    cases hkk : k == pk with
    | true =>
      simp only [Option.some.injEq, reduceCtorEq, false_implies, and_true]
      intro r hr
      subst hr
      exact ⟨bs, rfl, hg⟩
    | false => exact ih
  | [], _ :: _, h => h.elim
  | _ :: _, [], h => h.elim

theorem selectCase_entry {B C : List Nat} {sid0 cid0 sidF cidF : Nat} (v : String)
    {t : List (String × List Stmt × ImpData)} {tS : List (String × Option (List SStmt))}
    (h : All2 (Entry env sn σ B C sid0 cid0 sidF cidF) t tS) :
    (∀ r, selectCase env t v = some r →
      ∃ bs, selectCase env tS v = some (some bs) ∧ Good env sn σ B C bs sid0 cid0 r.1 r.2 sidF cidF) ∧
    (selectCase env t v = none → selectCase env tS v = none) := by
  obtain ⟨hv1, hv2⟩ := lookup_entry v h
  obtain ⟨hu1, hu2⟩ := lookup_entry "_" h
  unfold selectCase
  cases hl : t.lookup v with
  | some r0 =>
    obtain ⟨bs, hbs, hg⟩ := hv1 r0 hl
    simp only [hbs, Option.some.injEq, reduceCtorEq, false_implies, and_true]
    intro r hr
    subst hr
    exact ⟨bs, rfl, hg⟩
  | none =>
    simp only [hv2 hl]
    exact ⟨hu1, hu2⟩

/-! ### the induction -/

variable (env sn σ) in
mutual
theorem selS_ok : ∀ (x : SStmt) (B C : List Nat) (nx : Bool) (sid cid : Nat) (a : List Stmt) (m : ImpData)
    (sid1 cid1 : Nat), elabS env sn σ B C nx x sid cid = .ok (a, m, sid1, cid1) →
    sid ≤ sid1 ∧ cid ≤ cid1 ∧ ∃ xs, selS env x = some xs ∧ Good env sn σ B C xs sid cid a m sid1 cid1
  | .cmd name lp a0 more rp, B, C, nx, sid, cid, a, m, sid1, cid1, h => by
    rw [elabS] at h
    simp only [Except.ok.injEq, Prod.mk.injEq] at h
    obtain ⟨rfl, rfl, rfl, rfl⟩ := h
    exact ⟨Nat.le_refl _, Nat.le_succ _, _, by rw [selS],
      good_cmdLeaf (imp := fun _ => {}) (fun _ _ _ _ _ => by rw [elabS]) (fun R _ _ _ => relImp.nil R) sid cid⟩
  | .cmdI name lp a0 more rp, B, C, nx, sid, cid, a, m, sid1, cid1, h => by
    rw [elabS] at h
    simp only [Except.ok.injEq, Prod.mk.injEq] at h
    obtain ⟨rfl, rfl, rfl, rfl⟩ := h
    exact ⟨Nat.le_refl _, Nat.le_succ _, _, by rw [selS],
      good_cmdLeaf (imp := fun c => impArgs sn c name 0 (a0 :: more.map (·.2)))
        (fun _ _ _ _ _ => by rw [elabS])
        (fun R c' c hc => relImp_impArgs R sn c' c hc name 0 _) sid cid⟩
  | .cmdE name lp rp, B, C, nx, sid, cid, a, m, sid1, cid1, h => by
    rw [elabS] at h
    simp only [Except.ok.injEq, Prod.mk.injEq] at h
    obtain ⟨rfl, rfl, rfl, rfl⟩ := h
    exact ⟨Nat.le_refl _, Nat.le_succ _, _, by rw [selS],
      good_cmdLeaf (imp := fun _ => {}) (fun _ _ _ _ _ => by rw [elabS]) (fun R _ _ _ => relImp.nil R) sid cid⟩
  | .cmd0 name, B, C, nx, sid, cid, a, m, sid1, cid1, h => by
    rw [elabS] at h
    simp only [Except.ok.injEq, Prod.mk.injEq] at h
    obtain ⟨rfl, rfl, rfl, rfl⟩ := h
    exact ⟨Nat.le_refl _, Nat.le_succ _, _, by rw [selS],
      good_cmdLeaf (imp := fun _ => {}) (fun _ _ _ _ _ => by rw [elabS]) (fun R _ _ _ => relImp.nil R) sid cid⟩
  | .label name colon, B, C, nx, sid, cid, a, m, sid1, cid1, h => by
    rw [elabS] at h
    simp only [Except.ok.injEq, Prod.mk.injEq] at h
    obtain ⟨rfl, rfl, rfl, rfl⟩ := h
    exact ⟨Nat.le_refl _, Nat.le_refl _, _, by rw [selS],
      good_sameLeaf (fun _ _ _ _ _ => by rw [elabS]) (fun R => .cons (.label _ _ _) .nil) sid cid⟩
  | .labelS name lp sc rp colon, B, C, nx, sid, cid, a, m, sid1, cid1, h => by
    rw [elabS] at h
    simp only [Except.ok.injEq, Prod.mk.injEq] at h
    obtain ⟨rfl, rfl, rfl, rfl⟩ := h
    exact ⟨Nat.le_refl _, Nat.le_refl _, _, by rw [selS],
      good_sameLeaf (fun _ _ _ _ _ => by rw [elabS]) (fun R => .cons (.label _ _ _) .nil) sid cid⟩
  | .ite i lp c rp lb body rb elifs els, B, C, nx, sid, cid, a, m, sid1, cid1, h => by
    rw [elabS] at h
    cases hc : elabCond env σ c cid with
    | error e => simp [hc] at h
    | ok q =>
      obtain ⟨t, cid0⟩ := q
      simp only [hc] at h
      cases hb : elabL env sn σ B C true body sid cid0 with
      | error e => simp [hb] at h
      | ok q2 =>
        obtain ⟨b, m1, s1, c1⟩ := q2
        simp only [hb] at h
        cases hes : elabElifs env sn σ B C elifs s1 c1 with
        | error e => simp [hes] at h
        | ok q3 =>
          obtain ⟨es, m2, s2, c2⟩ := q3
          simp only [hes] at h
          cases hel : elabElse env sn σ B C els s2 c2 with
          | error e => simp [hel] at h
          | ok q4 =>
            obtain ⟨el, m3, s3, c3⟩ := q4
            simp only [hel, Except.ok.injEq, Prod.mk.injEq] at h
            obtain ⟨rfl, rfl, rfl, rfl⟩ := h
            have ⟨hle, _⟩ := elabCond_ok env σ c cid t cid0 hc
            obtain ⟨l1, l2, bs, hsel, hg⟩ := selL_ok body _ _ _ _ _ _ _ _ _ hb
            obtain ⟨l3, l4, es', hsel2, hg2⟩ := selElifs_ok elifs _ _ _ _ _ _ _ _ hes
            obtain ⟨l5, l6, el', hsel3, hg3⟩ := selElse_ok els _ _ _ _ _ _ _ _ hel
            exact ⟨by omega, by omega, [.ite i lp c rp lb bs rb es' el'], by rw [selS]; simp only [hsel, hsel2, hsel3],
              step_ite hc hg hg2 hg3⟩
  | .while_ w lp c rp lb body rb, B, C, nx, sid, cid, a, m, sid1, cid1, h => by
    rw [elabS] at h
    cases hc : elabCond env σ c cid with
    | error e => simp [hc] at h
    | ok q =>
      obtain ⟨t, cid0⟩ := q
      simp only [hc] at h
      cases hb : elabL env sn σ (sid :: B) (sid :: C) true body (sid + 1) cid0 with
      | error e => simp [hb] at h
      | ok q2 =>
        obtain ⟨b, m1, s1, c1⟩ := q2
        simp only [hb, Except.ok.injEq, Prod.mk.injEq] at h
        obtain ⟨rfl, rfl, rfl, rfl⟩ := h
        have ⟨hle, _⟩ := elabCond_ok env σ c cid t cid0 hc
        obtain ⟨l1, l2, bs, hsel, hg⟩ := selL_ok body _ _ _ _ _ _ _ _ _ hb
        exact ⟨by omega, by omega, [.while_ w lp c rp lb bs rb], by rw [selS]; simp only [hsel], step_while hc hg⟩
  | .whileInf w lb body rb, B, C, nx, sid, cid, a, m, sid1, cid1, h => by
    rw [elabS] at h
    cases hb : elabL env sn σ (sid :: B) (sid :: C) true body (sid + 1) cid with
    | error e => simp [hb] at h
    | ok q2 =>
      obtain ⟨b, m1, s1, c1⟩ := q2
      simp only [hb, Except.ok.injEq, Prod.mk.injEq] at h
      obtain ⟨rfl, rfl, rfl, rfl⟩ := h
      obtain ⟨l1, l2, bs, hsel, hg⟩ := selL_ok body _ _ _ _ _ _ _ _ _ hb
      exact ⟨by omega, by omega, [.whileInf w lb bs rb], by rw [selS]; simp only [hsel], step_whileInf hg⟩
  | .doWhile d lb body rb w lp c rp, B, C, nx, sid, cid, a, m, sid1, cid1, h => by
    rw [elabS] at h
    cases hb : elabL env sn σ (sid :: B) (sid :: C) true body (sid + 1) cid with
    | error e => simp [hb] at h
    | ok q2 =>
      obtain ⟨b, m1, s1, c1⟩ := q2
      simp only [hb] at h
      cases hc : elabCond env σ c c1 with
      | error e => simp [hc] at h
      | ok q =>
        obtain ⟨t, cid2⟩ := q
        simp only [hc, Except.ok.injEq, Prod.mk.injEq] at h
        obtain ⟨rfl, rfl, rfl, rfl⟩ := h
        have ⟨hle, _⟩ := elabCond_ok env σ c c1 t cid2 hc
        obtain ⟨l1, l2, bs, hsel, hg⟩ := selL_ok body _ _ _ _ _ _ _ _ _ hb
        exact ⟨by omega, by omega, [.doWhile d lb bs rb w lp c rp], by rw [selS]; simp only [hsel], step_doWhile hg hc⟩
  | .brk t, B, C, nx, sid, cid, a, m, sid1, cid1, h => by
    cases B with
    | nil => rw [elabS] at h; simp at h
    | cons b Bt =>
      rw [elabS] at h
      simp only [Except.ok.injEq, Prod.mk.injEq] at h
      obtain ⟨rfl, rfl, rfl, rfl⟩ := h
      exact ⟨Nat.le_refl _, Nat.le_refl _, _, by rw [selS], good_brk t b Bt sid cid⟩
  | .cont t, B, C, nx, sid, cid, a, m, sid1, cid1, h => by
    cases C with
    | nil => rw [elabS] at h; simp at h
    | cons c Ct =>
      cases nx with
      | false => rw [elabS] at h; simp at h
      | true =>
        rw [elabS] at h
        simp only [if_true, Except.ok.injEq, Prod.mk.injEq] at h
        obtain ⟨rfl, rfl, rfl, rfl⟩ := h
        exact ⟨Nat.le_refl _, Nat.le_refl _, _, by rw [selS], good_cont t c Ct sid cid⟩
  | .switch_ sw lp v lp2 ops rp2 rp lb cases rb, B, C, nx, sid, cid, a, m, sid1, cid1, h => by
    rw [elabS] at h
    cases hcs : elabCases env sn σ (sid :: B) C cases [] false (sid + 1) cid with
    | error e => simp [hcs] at h
    | ok q =>
      obtain ⟨cs, m1, s1, c1⟩ := q
      simp only [hcs] at h
      cases hne : cs.isEmpty with
      | true => simp [hne] at h
      | false =>
        simp only [hne, Bool.false_eq_true, if_false, Except.ok.injEq, Prod.mk.injEq] at h
        obtain ⟨rfl, rfl, rfl, rfl⟩ := h
        obtain ⟨l1, l2, cs', hsel, hg⟩ := selCases_ok cases _ _ _ _ _ _ _ _ _ _ hcs
        exact ⟨by omega, by omega, [.switch_ sw lp v lp2 ops rp2 rp lb cs' rb], by rw [selS]; simp only [hsel],
          step_switch hg hne⟩
  | .switchA sw lp name lp2 a0 more rp2 rp lb cases rb, B, C, nx, sid, cid, a, m, sid1, cid1, h => by
    rw [elabS] at h
    cases hl : env.autoVars.lookup name.lit with
    | none => simp [hl] at h
    | some av =>
      simp only [hl] at h
      cases hp : autoPosBad av (more.length + 1) with
      | some pos => simp [hp] at h
      | none =>
        simp only [hp] at h
        cases hcs : elabCases env sn σ (sid :: B) C cases [] false (sid + 1) (cid + 1) with
        | error e => simp [hcs] at h
        | ok q =>
          obtain ⟨cs, m1, s1, c1⟩ := q
          simp only [hcs] at h
          cases hne : cs.isEmpty with
          | true => simp [hne] at h
          | false =>
            simp only [hne, Bool.false_eq_true, if_false, Except.ok.injEq, Prod.mk.injEq] at h
            obtain ⟨rfl, rfl, rfl, rfl⟩ := h
            obtain ⟨l1, l2, cs', hsel, hg⟩ := selCases_ok cases _ _ _ _ _ _ _ _ _ _ hcs
            exact ⟨by omega, by omega, [.switchA sw lp name lp2 a0 more rp2 rp lb cs' rb],
              by rw [selS]; simp only [hsel], step_switchA hl hp hg hne⟩
  | .pory ps lp x rp lb cases rb, B, C, nx, sid, cid, a, m, sid1, cid1, h => by
    rw [elabS] at h
    cases h1 : (env.envErrors && env.switches.isEmpty) with
    | true => rw [h1] at h; simp at h
    | false =>
      rw [h1] at h
      cases h2 : (env.envErrors && (env.switches.lookup x.lit).isNone) with
      | true => rw [h2] at h; simp at h
      | false =>
        rw [h2] at h
        simp only [Bool.false_eq_true, if_false] at h
        have hsel0 : selS env (.pory ps lp x rp lb cases rb) =
            match selectCase env (selPCases env cases []) (swVal env x.lit) with
            | some r => r
            | none => if env.envErrors then none else some [] := by
          rw [selS]; simp only [h1, h2, Bool.false_eq_true, if_false]; rfl
        cases hp : elabPCases env sn σ B C cases [] sid cid with
        | error e => simp [hp] at h
        | ok q =>
          obtain ⟨table, s1, c1⟩ := q
          simp only [hp] at h
          obtain ⟨l1, l2, hal⟩ := selPCases_ok cases _ _ _ _ _ _ _ _ hp
          have hal := hal sid cid [] (Nat.le_refl _) (Nat.le_refl _) trivial
          obtain ⟨hs1, hs2⟩ := selectCase_entry (swVal env x.lit) hal
          cases hs : selectCase env table (swVal env x.lit) with
          | some r =>
            simp only [hs, Except.ok.injEq, Prod.mk.injEq] at h
            obtain ⟨rfl, rfl, rfl, rfl⟩ := h
            obtain ⟨bs, hbs, hg⟩ := hs1 r hs
            exact ⟨l1, l2, bs, by rw [hsel0, hbs], hg⟩
          | none =>
            simp only [hs] at h
            cases he : env.envErrors with
            | true => rw [he] at h; simp at h
            | false =>
              rw [he] at h
              simp only [Bool.false_eq_true, if_false, Except.ok.injEq, Prod.mk.injEq] at h
              obtain ⟨rfl, rfl, rfl, rfl⟩ := h
              refine ⟨l1, l2, [], ?_, (Good.nil B C sid cid).weaken (Nat.le_refl _) (Nat.le_refl _) l1 l2⟩
              rw [hsel0, hs2 hs]; simp [he]
theorem selL_ok : ∀ (b : List SStmt) (B C : List Nat) (last : Bool) (sid cid : Nat) (a : List Stmt)
    (m : ImpData) (sid1 cid1 : Nat), elabL env sn σ B C last b sid cid = .ok (a, m, sid1, cid1) →
    sid ≤ sid1 ∧ cid ≤ cid1 ∧ ∃ bs, selL env b = some bs ∧ Good env sn σ B C bs sid cid a m sid1 cid1
  | [], B, C, last, sid, cid, a, m, sid1, cid1, h => by
    rw [elabL] at h
    simp only [Except.ok.injEq, Prod.mk.injEq] at h
    obtain ⟨rfl, rfl, rfl, rfl⟩ := h
    exact ⟨Nat.le_refl _, Nat.le_refl _, [], by rw [selL], Good.nil B C sid cid⟩
  | x :: r, B, C, last, sid, cid, a, m, sid1, cid1, h => by
    rw [elabL_cons] at h
    cases hx : elabS env sn σ B C (r.isEmpty && last) x sid cid with
    | error e => simp [hx] at h
    | ok q =>
      obtain ⟨a1, m1, s1, c1⟩ := q
      simp only [hx] at h
      cases hr : elabL env sn σ B C last r s1 c1 with
      | error e => simp [hr] at h
      | ok q2 =>
        obtain ⟨a2, m2, s2, c2⟩ := q2
        simp only [hr, Except.ok.injEq, Prod.mk.injEq] at h
        obtain ⟨rfl, rfl, rfl, rfl⟩ := h
        obtain ⟨l1, l2, xs, hsel, hg⟩ := selS_ok x _ _ _ _ _ _ _ _ _ hx
        obtain ⟨l3, l4, rs, hsel2, hg2⟩ := selL_ok r _ _ _ _ _ _ _ _ _ hr
        exact ⟨by omega, by omega, xs ++ rs, by rw [selL]; simp only [hsel, hsel2], hg.append hg2⟩
theorem selElifs_ok : ∀ (es : List SElif) (B C : List Nat) (sid cid : Nat) (a : List (BoolExpr × List Stmt))
    (m : ImpData) (sid1 cid1 : Nat), elabElifs env sn σ B C es sid cid = .ok (a, m, sid1, cid1) →
    sid ≤ sid1 ∧ cid ≤ cid1 ∧ ∃ es', selElifs env es = some es' ∧
      GoodElifs env sn σ B C es' sid cid a m sid1 cid1
  | [], B, C, sid, cid, a, m, sid1, cid1, h => by
    rw [elabElifs] at h
    simp only [Except.ok.injEq, Prod.mk.injEq] at h
    obtain ⟨rfl, rfl, rfl, rfl⟩ := h
    exact ⟨Nat.le_refl _, Nat.le_refl _, [], by rw [selElifs], goodElifs_nil B C sid cid⟩
  | .mk e lp c rp lb body rb :: r, B, C, sid, cid, a, m, sid1, cid1, h => by
    rw [elabElifs] at h
    cases hc : elabCond env σ c cid with
    | error e => simp [hc] at h
    | ok q =>
      obtain ⟨t, cid0⟩ := q
      simp only [hc] at h
      cases hb : elabL env sn σ B C true body sid cid0 with
      | error e => simp [hb] at h
      | ok q2 =>
        obtain ⟨b, m1, s1, c1⟩ := q2
        simp only [hb] at h
        cases hes : elabElifs env sn σ B C r s1 c1 with
        | error e => simp [hes] at h
        | ok q3 =>
          obtain ⟨es, m2, s2, c2⟩ := q3
          simp only [hes, Except.ok.injEq, Prod.mk.injEq] at h
          obtain ⟨rfl, rfl, rfl, rfl⟩ := h
          have ⟨hle, _⟩ := elabCond_ok env σ c cid t cid0 hc
          obtain ⟨l1, l2, bs, hsel, hg⟩ := selL_ok body _ _ _ _ _ _ _ _ _ hb
          obtain ⟨l3, l4, es', hsel2, hg2⟩ := selElifs_ok r _ _ _ _ _ _ _ _ hes
          exact ⟨by omega, by omega, .mk e lp c rp lb bs rb :: es', by rw [selElifs]; simp only [hsel, hsel2],
            step_elif hc hg hg2⟩
theorem selElse_ok : ∀ (el : SElse) (B C : List Nat) (sid cid : Nat) (a : Option (List Stmt))
    (m : ImpData) (sid1 cid1 : Nat), elabElse env sn σ B C el sid cid = .ok (a, m, sid1, cid1) →
    sid ≤ sid1 ∧ cid ≤ cid1 ∧ ∃ el', selElse env el = some el' ∧
      GoodElse env sn σ B C el' sid cid a m sid1 cid1
  | .none, B, C, sid, cid, a, m, sid1, cid1, h => by
    rw [elabElse] at h
    simp only [Except.ok.injEq, Prod.mk.injEq] at h
    obtain ⟨rfl, rfl, rfl, rfl⟩ := h
    exact ⟨Nat.le_refl _, Nat.le_refl _, .none, by rw [selElse], goodElse_none B C sid cid⟩
  | .some e lb body rb, B, C, sid, cid, a, m, sid1, cid1, h => by
    rw [elabElse] at h
    cases hb : elabL env sn σ B C true body sid cid with
    | error e => simp [hb] at h
    | ok q2 =>
      obtain ⟨b, m1, s1, c1⟩ := q2
      simp only [hb, Except.ok.injEq, Prod.mk.injEq] at h
      obtain ⟨rfl, rfl, rfl, rfl⟩ := h
      obtain ⟨l1, l2, bs, hsel, hg⟩ := selL_ok body _ _ _ _ _ _ _ _ _ hb
      exact ⟨l1, l2, .some e lb bs rb, by rw [selElse]; simp only [hsel], step_else hg⟩
theorem selCases_ok : ∀ (cases : List SCase) (B C : List Nat) (seen : List String) (hd : Bool) (sid cid : Nat)
    (a : List SwitchCase) (m : ImpData) (sid1 cid1 : Nat),
    elabCases env sn σ B C cases seen hd sid cid = .ok (a, m, sid1, cid1) →
    sid ≤ sid1 ∧ cid ≤ cid1 ∧ ∃ cs', selCases env cases = some cs' ∧
      GoodCases env sn σ B C cs' seen hd sid cid a m sid1 cid1
  | [], B, C, seen, hd, sid, cid, a, m, sid1, cid1, h => by
    rw [elabCases] at h
    simp only [Except.ok.injEq, Prod.mk.injEq] at h
    obtain ⟨rfl, rfl, rfl, rfl⟩ := h
    exact ⟨Nat.le_refl _, Nat.le_refl _, [], by rw [selCases], goodCases_nil B C seen hd sid cid⟩
  | .case ct vs colon body :: r, B, C, seen, hd, sid, cid, a, m, sid1, cid1, h => by
    rw [elabCases] at h
    cases hseen : seen.contains (caseValue σ vs) with
    | true => rw [hseen] at h; simp at h
    | false =>
      rw [hseen] at h
      simp only [Bool.false_eq_true, if_false] at h
      cases hb : elabL env sn σ B C r.isEmpty body sid cid with
      | error e => simp [hb] at h
      | ok q2 =>
        obtain ⟨b, m1, s1, c1⟩ := q2
        simp only [hb] at h
        cases hr : elabCases env sn σ B C r (caseValue σ vs :: seen) hd s1 c1 with
        | error e => simp [hr] at h
        | ok q3 =>
          obtain ⟨cs, m2, s2, c2⟩ := q3
          simp only [hr, Except.ok.injEq, Prod.mk.injEq] at h
          obtain ⟨rfl, rfl, rfl, rfl⟩ := h
          obtain ⟨l1, l2, bs, hsel, hg⟩ := selL_ok body _ _ _ _ _ _ _ _ _ hb
          obtain ⟨l3, l4, cs', hsel2, hg2⟩ := selCases_ok r _ _ _ _ _ _ _ _ _ _ hr
          exact ⟨by omega, by omega, .case ct vs colon bs :: cs', by rw [selCases]; simp only [hsel, hsel2],
            step_case hseen hg hg2⟩
  | .dflt d colon body :: r, B, C, seen, hd, sid, cid, a, m, sid1, cid1, h => by
    rw [elabCases] at h
    cases hd with
    | true => simp at h
    | false =>
      simp only [Bool.false_eq_true, if_false] at h
      cases hb : elabL env sn σ B C r.isEmpty body sid cid with
      | error e => simp [hb] at h
      | ok q2 =>
        obtain ⟨b, m1, s1, c1⟩ := q2
        simp only [hb] at h
        cases hr : elabCases env sn σ B C r seen true s1 c1 with
        | error e => simp [hr] at h
        | ok q3 =>
          obtain ⟨cs, m2, s2, c2⟩ := q3
          simp only [hr, Except.ok.injEq, Prod.mk.injEq] at h
          obtain ⟨rfl, rfl, rfl, rfl⟩ := h
          obtain ⟨l1, l2, bs, hsel, hg⟩ := selL_ok body _ _ _ _ _ _ _ _ _ hb
          obtain ⟨l3, l4, cs', hsel2, hg2⟩ := selCases_ok r _ _ _ _ _ _ _ _ _ _ hr
          exact ⟨by omega, by omega, .dflt d colon bs :: cs', by rw [selCases]; simp only [hsel, hsel2],
            step_dflt hg hg2⟩
theorem selPCases_ok : ∀ (cases : List SPCase) (B C : List Nat) (acc : List (String × List Stmt × ImpData))
    (sid cid : Nat) (table : List (String × List Stmt × ImpData)) (sidF cidF : Nat),
    elabPCases env sn σ B C cases acc sid cid = .ok (table, sidF, cidF) →
    sid ≤ sidF ∧ cid ≤ cidF ∧ ∀ (sid0 cid0 : Nat) (accS : List (String × Option (List SStmt))),
      sid0 ≤ sid → cid0 ≤ cid → All2 (Entry env sn σ B C sid0 cid0 sidF cidF) acc accS →
      All2 (Entry env sn σ B C sid0 cid0 sidF cidF) table (selPCases env cases accS)
  | [], B, C, acc, sid, cid, table, sidF, cidF, h => by
    rw [elabPCases] at h
    simp only [Except.ok.injEq, Prod.mk.injEq] at h
    obtain ⟨rfl, rfl, rfl⟩ := h
    refine ⟨Nat.le_refl _, Nat.le_refl _, fun sid0 cid0 accS _ _ hacc => ?_⟩
    rw [selPCases]; exact hacc
  | .colon key ct x :: r, B, C, acc, sid, cid, table, sidF, cidF, h => by
    rw [elabPCases] at h
    cases hx : elabS env sn σ B C r.isEmpty x sid cid with
    | error e => simp [hx] at h
    | ok q =>
      obtain ⟨a1, m1, s1, c1⟩ := q
      simp only [hx] at h
      obtain ⟨l1, l2, xs, hsel, hg⟩ := selS_ok x _ _ _ _ _ _ _ _ _ hx
      obtain ⟨l3, l4, hal⟩ := selPCases_ok r _ _ _ _ _ _ _ _ h
      refine ⟨by omega, by omega, fun sid0 cid0 accS h0 h0' hacc => ?_⟩
      rw [selPCases]
      exact hal sid0 cid0 _ (by omega) (by omega) ⟨⟨rfl, xs, hsel, hg.weaken h0 h0' l3 l4⟩, hacc⟩
  | .brace key lbt body rbt :: r, B, C, acc, sid, cid, table, sidF, cidF, h => by
    rw [elabPCases] at h
    cases hx : elabL env sn σ B C true body sid cid with
    | error e => simp [hx] at h
    | ok q =>
      obtain ⟨a1, m1, s1, c1⟩ := q
      simp only [hx] at h
      obtain ⟨l1, l2, xs, hsel, hg⟩ := selL_ok body _ _ _ _ _ _ _ _ _ hx
      obtain ⟨l3, l4, hal⟩ := selPCases_ok r _ _ _ _ _ _ _ _ h
      refine ⟨by omega, by omega, fun sid0 cid0 accS h0 h0' hacc => ?_⟩
      rw [selPCases]
      exact hal sid0 cid0 _ (by omega) (by omega) ⟨⟨rfl, xs, hsel, hg.weaken h0 h0' l3 l4⟩, hacc⟩
end

end
end Pory.C12c
