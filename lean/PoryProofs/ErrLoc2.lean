import PoryProofs.ErrLoc
namespace Pory.Parser
open Pory

section
variable (T : List Tok) (E : Tok)

theorem sp_parseScopeModifier (d : TT) (k : Nat) (s : PState) (hi : Inv T E k s) :
    tri (El T E) (parseScopeModifier d) s (Post T E k (fun _ => True)) := by
  unfold parseScopeModifier
  tsimp [hi.toks, hi.eof]
  tgo

theorem sp_parsePoryswitchHeader (env : Env) (k : Nat) (s : PState) (hi : Inv T E k s) :
    tri (El T E) (parsePoryswitchHeader env) s (Post T E k (fun _ => True)) := by
  unfold parsePoryswitchHeader
  tsimp [hi.toks, hi.eof]
  tgo

def FpOk (fp : FmtParams) : Prop := fp.fontIdToken.type ≠ .STRING ∨ Tin T E fp.fontIdToken

theorem fpok_tin {fp : FmtParams} (h : FpOk T E fp) (h2 : ¬ ¬ fp.fontIdToken.type = TT.STRING) :
    Tin T E fp.fontIdToken := by
  rcases h with h | h
  · exact absurd h h2
  · exact h

theorem fpok_mk {fp : FmtParams} (h : fp.fontIdToken.type ≠ TT.STRING ∨ Tin T E fp.fontIdToken) : FpOk T E fp := h

theorem sp_formatNamedParams : ∀ (n : Nat) (fp : FmtParams) (k : Nat) (s : PState), Inv T E k s → FpOk T E fp →
    tri (El T E) (formatNamedParams n fp) s (Post T E k (FpOk T E)) := by
  intro n
  induction n with
  | zero => intro fp k s hi hfp; rw [formatNamedParams]; tsimp
  | succ n ih =>
    intro fp k s hi hfp
    rw [formatNamedParams]
    tsimp [hi.toks, hi.eof]
    tgo [ih, fpok_mk T E]


end
end Pory.Parser
