import PoryProofs.ErrLoc
/-
Located parser errors, part 2: the functions below the statement level that deal with scope modifiers, the
poryswitch header, `format()`, text values, movement / mart lists and command statements.

Every specification has the form
  `Inv T E k s → … → tri (El T E) (f …) s (Post T E k R)`
(from a state whose window is `T.drop k`: a failing run fails with a located error, a successful run ends
with window `T.drop k'`, `k ≤ k'`, and a result satisfying `R`).  Start tokens passed as arguments are
written `T.getD i E`; `i ≤ k` is only required where the token is the start of a range error.
-/
namespace Pory.ErrLoc
open Pory Pory.Parser

section
variable (T : List Tok) (E : Tok)

theorem sp_parseScopeModifier (d : TT) (k : Nat) (s : PState) (hi : Inv T E k s) :
    tri (El T E) (parseScopeModifier d) s (Post T E k (fun _ => True)) := by
  unfold parseScopeModifier
  tstart hi
  tgo

theorem sp_parsePoryswitchHeader (env : Env) (k : Nat) (s : PState) (hi : Inv T E k s) :
    tri (El T E) (parsePoryswitchHeader env) s (Post T E k (fun _ => True)) := by
  unfold parsePoryswitchHeader
  tstart hi
  tgo

/-- The font id token of `format()` parameters is either still the default token (type `ILLEGAL`, never
reported: the error site checks `type != STRING`) or stands at an input position. -/
def FpOk (fp : FmtParams) : Prop := fp.fontIdToken.type ≠ .STRING ∨ Tin T E fp.fontIdToken

theorem fpok_tin {fp : FmtParams} (h : FpOk T E fp) (h2 : ¬ ¬ fp.fontIdToken.type = TT.STRING) :
    Tin T E fp.fontIdToken := by
  rcases h with h | h
  · exact absurd h h2
  · exact h

theorem fpok_mk {fp : FmtParams} (h : fp.fontIdToken.type ≠ TT.STRING ∨ Tin T E fp.fontIdToken) : FpOk T E fp := h

theorem sp_formatNamedParams : ∀ (n : Nat) (fp : FmtParams) (k : Nat) (s : PState), Inv T E k s → FpOk T E fp →
    tri (El T E) (formatNamedParams n fp) s (Post T E k (FpOk T E)) := by
  intro n
  induction n with
  | zero => intro fp k s hi hfp; rw [formatNamedParams]; tsimp
  | succ n ih =>
    intro fp k s hi hfp
    rw [formatNamedParams]
    tstart hi
    tgo [ih, fpok_mk T E]


theorem sp_parseFormatStringOperator (env : Env) (n : Nat) (k : Nat) (s : PState) (hi : Inv T E k s) :
    tri (El T E) (parseFormatStringOperator env n) s (Post T E k (fun r => Tin T E r.1)) := by
  unfold parseFormatStringOperator
  have hs := hi.toks; have he := hi.eof; tsimp [hs, he, tri_exceptMatch]
  tgo [sp_formatNamedParams T E, fpok_tin T E, fpok_mk T E]

theorem sp_parseTextValue (env : Env) (n : Nat) (k : Nat) (s : PState) (hi : Inv T E k s) :
    tri (El T E) (parseTextValue env n) s (Post T E k (fun _ => True)) := by
  unfold parseTextValue
  tstart hi
  tgo [sp_parseFormatStringOperator T E]

theorem sp_poryswitchTextCases (env : Env) (i : Nat) : ∀ (n : Nat) (acc : List (String × String × String))
    (k : Nat) (s : PState), Inv T E k s →
    tri (El T E) (poryswitchTextCases env (T.getD i E) n acc) s (Post T E k (fun _ => True)) := by
  intro n
  induction n with
  | zero => intros; rw [poryswitchTextCases]; tsimp
  | succ n ih =>
    intro acc k s hi
    rw [poryswitchTextCases]
    tstart hi
    tgo [ih, sp_parseTextValue T E]

theorem sp_parsePoryswitchTextStatement (env : Env) (n : Nat) (k : Nat) (s : PState) (hi : Inv T E k s) :
    tri (El T E) (parsePoryswitchTextStatement env n) s (Post T E k (fun _ => True)) := by
  unfold parsePoryswitchTextStatement
  tstart hi
  tgo [sp_parsePoryswitchHeader T E, sp_poryswitchTextCases T E]

theorem sp_listBlock (env : Env) : ∀ n : Nat,
    (∀ kind am acc k s, Inv T E k s →
      tri (El T E) (parseListValue env kind am n acc) s (Post T E k (fun _ => True))) ∧
    (∀ kind k s, Inv T E k s →
      tri (El T E) (parsePoryswitchListStatement env kind n) s (Post T E k (fun _ => True))) ∧
    (∀ kind i acc k s, Inv T E k s →
      tri (El T E) (parsePoryswitchListCases env kind (T.getD i E) n acc) s (Post T E k (fun _ => True))) := by
  intro n
  induction n with
  | zero =>
    refine ⟨?_, ?_, ?_⟩
    · intros; rw [parseListValue]; tsimp
    · intros; rw [parsePoryswitchListStatement]; tsimp
    · intros; rw [parsePoryswitchListCases]; tsimp
  | succ n ih =>
    obtain ⟨ih1, ih2, ih3⟩ := ih
    refine ⟨?_, ?_, ?_⟩
    · intro kind am acc k s hi
      rw [parseListValue]
      cases kind <;> tstart hi <;> tgo [ih1, ih2]
    · intro kind k s hi
      rw [parsePoryswitchListStatement]
      tstart hi
      tgo [ih3, sp_parsePoryswitchHeader T E]
    · intro kind i acc k s hi
      rw [parsePoryswitchListCases]
      tstart hi
      tgo [ih1, ih3]

theorem sp_parseListValue (env : Env) (kind : ListKind) (am : Bool) (n : Nat) (acc : List Tok) (k : Nat)
    (s : PState) (hi : Inv T E k s) :
    tri (El T E) (parseListValue env kind am n acc) s (Post T E k (fun _ => True)) :=
  (sp_listBlock T E env n).1 kind am acc k s hi

theorem sp_parseMovesOperator (env : Env) (n : Nat) (k : Nat) (s : PState) (hi : Inv T E k s) :
    tri (El T E) (parseMovesOperator env n) s (Post T E k (fun _ => True)) := by
  unfold parseMovesOperator
  tstart hi
  tgo [sp_parseListValue T E]

theorem sp_cmdArgsLoop (env : Env) (sn : String) (id : Nat) (i : Nat) : ∀ (n : Nat) (a : CmdAcc)
    (k : Nat) (s : PState), Inv T E k s → ImpOK T E a.imp →
    tri (El T E) (cmdArgsLoop env sn id (T.getD i E) n a) s (Post T E k (fun a => ImpOK T E a.imp)) := by
  intro n
  induction n with
  | zero => intros; rw [cmdArgsLoop]; tsimp
  | succ n ih =>
    intro a k s hi ha
    rw [cmdArgsLoop]
    tstart hi
    tgo [ih, sp_parseFormatStringOperator T E, sp_parseMovesOperator T E]

theorem sp_parseCommandStatement (env : Env) (sn : String) (n : Nat) (k : Nat) (s : PState)
    (hi : Inv T E k s) :
    tri (El T E) (parseCommandStatement env sn n) s (Post T E k (fun r => ImpOK T E r.2)) := by
  unfold parseCommandStatement
  tstart hi
  tgo [sp_cmdArgsLoop T E]

end
end Pory.ErrLoc
