import PoryProofs.SourceCensus
/-
HoistSourceImp (helper module of PoryProofs/Properties/C06d.lean): the IMPLICIT-DATA census.  If the reference
elaboration of a surface body succeeds, the implicit data it returns is, list by list and IN SOURCE ORDER, the
concatenation of the implicit data `CmdM.imp` of the written commands `surfS` / `surfL` / … (C10e) — the same
7-function mutual induction as PoryProofs/SourceCensus.lean, with the invariant `IC` instead of `Corr`.
-/
namespace Pory.C06d
open Pory Pory.Parser Pory.P1c Pory.BoolGen Pory.C10d Pory.CmdGen Pory.LeafGen Pory.C10e
open Pory.C14b (swVal)

/-- the implicit data `m` is the concatenation of the implicit data of the written commands `L` -/
def IC (env : Env) (sn : String) (m : ImpData) (L : List SCmd) : Prop :=
  m.texts = L.flatMap (fun p => (p.1.imp env sn p.2).texts) ∧
  m.movements = L.flatMap (fun p => (p.1.imp env sn p.2).movements)

section
variable {env : Env} {sn : String} {σ : String → String}

theorem IC.nil : IC env sn {} [] := ⟨rfl, rfl⟩

theorem IC.append {a b : ImpData} {A B : List SCmd} (h1 : IC env sn a A) (h2 : IC env sn b B) :
    IC env sn (a.add b) (A ++ B) := by
  refine ⟨?_, ?_⟩
  · show a.texts ++ b.texts = _
    rw [h1.1, h2.1, List.flatMap_append]
  · show a.movements ++ b.movements = _
    rw [h1.2, h2.2, List.flatMap_append]

theorem IC.single {c : CmdM} {cid : Nat} {cmd : Cmd} {m : ImpData}
    (h : c.elabC env sn σ cid = .ok (cmd, m)) : IC env sn m [(c, cid)] := by
  unfold CmdM.elabC at h
  split at h
  · cases h
  · simp only [Except.ok.injEq, Prod.mk.injEq] at h
    obtain ⟨_, hm⟩ := h
    subst hm
    exact ⟨by simp, by simp⟩

theorem IC.cons {c : CmdM} {cid : Nat} {cmd : Cmd} {m : ImpData} {a : ImpData} {A : List SCmd}
    (h : c.elabC env sn σ cid = .ok (cmd, m)) (h2 : IC env sn a A) : IC env sn (m.add a) ((c, cid) :: A) :=
  IC.append (IC.single h) h2

end

theorem leaf_imp {env : Env} {sn : String} {σ : String → String} {id : Nat} {lf : CLeaf} {t : OpExpr}
    {m : ImpData} {j : Nat} (h : CLeaf.res env sn σ id lf = .ok (t, m, j)) :
    IC env sn m (leafI lf id).1 ∧ j = (leafI lf id).2 := by
  cases lf with
  | plain l =>
    simp only [CLeaf.res] at h
    cases h
    refine ⟨?_, rfl⟩
    exact IC.nil
  | kw l =>
    simp only [CLeaf.res] at h
    cases h
    refine ⟨?_, rfl⟩
    exact IC.nil
  | auto fm c =>
    simp only [CLeaf.res] at h
    split at h
    · cases h
    · split at h
      · cases h
      · rename_i cmd imp hc
        split at h
        · cases h
        · cases h
          exact ⟨IC.single hc, rfl⟩
  | autoV c opTok v =>
    simp only [CLeaf.res] at h
    split at h
    · cases h
    · split at h
      · cases h
      · rename_i cmd imp hc
        split at h
        · cases h
        · cases h
          refine ⟨?_, rfl⟩
          exact IC.single hc


section
variable (env : Env) (sn : String) (σ : String → String)

mutual
theorem or_imp : (c : GOr CLeaf) → ∀ (neg : Bool) (id : Nat) (t : BoolExpr) (m : ImpData) (j : Nat),
    elabOr (CLeaf.res env sn) σ neg c id = .ok (t, m, j) →
    IC env sn m (orI c id).1 ∧ j = (orI c id).2
  | .one a, neg, id, t, m, j, h => by
    simp only [elabOr] at h
    simpa only [orI] using and_imp a neg id t m j h
  | .more a _ r, neg, id, t, m, j, h => by
    simp only [elabOr] at h
    split at h
    · cases h
    · rename_i ta ma j1 h1
      split at h
      · cases h
      · rename_i tr mr j2 h2
        simp only [Except.ok.injEq, Prod.mk.injEq] at h
        obtain ⟨_, ht, hj⟩ := h
        subst ht
        obtain ⟨c1, e1⟩ := and_imp a neg id ta ma j1 h1
        subst e1
        obtain ⟨c2, e2⟩ := or_imp r neg _ tr mr j2 h2
        simp only [orI]
        exact ⟨c1.append c2, hj ▸ e2⟩
theorem and_imp : (c : GAnd CLeaf) → ∀ (neg : Bool) (id : Nat) (t : BoolExpr) (m : ImpData) (j : Nat),
    elabAnd (CLeaf.res env sn) σ neg c id = .ok (t, m, j) →
    IC env sn m (andI c id).1 ∧ j = (andI c id).2
  | .one u, neg, id, t, m, j, h => by
    simp only [elabAnd] at h
    simpa only [andI] using un_imp u neg id t m j h
  | .more u _ r, neg, id, t, m, j, h => by
    simp only [elabAnd] at h
    split at h
    · cases h
    · rename_i t1 m1 j1 h1
      split at h
      · cases h
      · rename_i t2 m2 j2 h2
        simp only [Except.ok.injEq, Prod.mk.injEq] at h
        obtain ⟨_, ht, hj⟩ := h
        subst ht
        obtain ⟨c1, e1⟩ := un_imp u neg id t1 m1 j1 h1
        subst e1
        obtain ⟨c2, e2⟩ := acc_imp r neg t1 _ t2 m2 j2 h2
        simp only [andI]
        exact ⟨c1.append c2, hj ▸ e2⟩
theorem acc_imp : (c : GAnd CLeaf) → ∀ (neg : Bool) (left : BoolExpr) (id : Nat) (t : BoolExpr) (m : ImpData)
    (j : Nat), elabAcc (CLeaf.res env sn) σ neg left c id = .ok (t, m, j) →
    IC env sn m (andI c id).1 ∧ j = (andI c id).2
  | .one u, neg, left, id, t, m, j, h => by
    simp only [elabAcc] at h
    split at h
    · cases h
    · rename_i t1 m1 j1 h1
      simp only [Except.ok.injEq, Prod.mk.injEq] at h
      obtain ⟨_, ht, hj⟩ := h
      subst ht
      obtain ⟨c1, e1⟩ := un_imp u neg id t1 m1 j1 h1
      simp only [andI]
      exact ⟨c1, hj ▸ e1⟩
  | .more u _ r, neg, left, id, t, m, j, h => by
    simp only [elabAcc] at h
    split at h
    · cases h
    · rename_i t1 m1 j1 h1
      split at h
      · cases h
      · rename_i t2 m2 j2 h2
        simp only [Except.ok.injEq, Prod.mk.injEq] at h
        obtain ⟨_, ht, hj⟩ := h
        subst ht
        obtain ⟨c1, e1⟩ := un_imp u neg id t1 m1 j1 h1
        subst e1
        obtain ⟨c2, e2⟩ := acc_imp r neg _ _ t2 m2 j2 h2
        simp only [andI]
        exact ⟨c1.append c2, hj ▸ e2⟩
theorem un_imp : (c : GUn CLeaf) → ∀ (neg : Bool) (id : Nat) (t : BoolExpr) (m : ImpData) (j : Nat),
    elabUn (CLeaf.res env sn) σ neg c id = .ok (t, m, j) →
    IC env sn m (unI c id).1 ∧ j = (unI c id).2
  | .leaf lf, neg, id, t, m, j, h => by
    simp only [elabUn] at h
    split at h
    · cases h
    · rename_i t1 m1 j1 h1
      simp only [Except.ok.injEq, Prod.mk.injEq] at h
      obtain ⟨_, ht, hj⟩ := h
      subst ht
      have := leaf_imp h1
      simp only [unI]
      exact ⟨this.1, hj ▸ this.2⟩
  | .paren n _ _ _ e, neg, id, t, m, j, h => by
    simp only [elabUn] at h
    simpa only [unI] using or_imp e (neg != n) id t m j h
end

theorem cond_imp {c : SCond} {cid : Nat} {t : BoolExpr} {m : ImpData} {j : Nat}
    (h : elabCond env sn σ c cid = .ok (t, m, j)) :
    IC env sn m (orI c cid).1 ∧ j = (orI c cid).2 :=
  or_imp env sn σ c false cid t m j h

end

/-! ### poryswitch tables -/

/-- the table of elaborated cases and the table of written cases run in parallel -/
inductive TCorr (env : Env) (sn : String) :
    List (String × List Stmt × ImpData) → List (String × List SCmd) → Prop
  | nil : TCorr env sn [] []
  | cons (k : String) {a : List Stmt} (m : ImpData) {L : List SCmd} {T : List (String × List Stmt × ImpData)}
      {T' : List (String × List SCmd)} (hc : IC env sn m L) (ht : TCorr env sn T T') :
      TCorr env sn ((k, a, m) :: T) ((k, L) :: T')

theorem lookup_ic {env : Env} {sn : String} {T : List (String × List Stmt × ImpData)}
    {T' : List (String × List SCmd)} (h : TCorr env sn T T') (k : String) :
    (T.lookup k = none → T'.lookup k = none) ∧
    (∀ r, T.lookup k = some r → ∃ r', T'.lookup k = some r' ∧ IC env sn r.2 r') := by
  induction h with
  | nil => exact ⟨fun _ => rfl, fun r hr => by cases hr⟩
  | cons k1 m hc _ ih =>
    simp only [List.lookup_cons]
    cases hkk : (k == k1) with
    | true => exact ⟨fun h => (by cases h), fun r hr => (by cases hr; exact ⟨_, rfl, hc⟩)⟩
    | false => exact ih

theorem select_ic {env : Env} {sn : String} {T : List (String × List Stmt × ImpData)}
    {T' : List (String × List SCmd)} (h : TCorr env sn T T') (v : String) :
    (selectCase env T v = none → selectCase env T' v = none) ∧
    (∀ r, selectCase env T v = some r → ∃ r', selectCase env T' v = some r' ∧ IC env sn r.2 r') := by
  unfold selectCase
  have h1 := lookup_ic h v
  have h2 := lookup_ic h "_"
  cases hv : T.lookup v with
  | some x =>
    obtain ⟨r', hr', hc⟩ := h1.2 x hv
    rw [hr']
    exact ⟨fun h => (by cases h), fun r hr => (by cases hr; exact ⟨r', rfl, hc⟩)⟩
  | none =>
    rw [h1.1 hv]
    exact h2

section
variable (env : Env) (sn : String) (σ : String → String)

/-! ### statements -/

mutual
theorem elabS_imp : (x : SStmt) → ∀ (B C : List Nat) (nx : Bool) (sid cid : Nat) (a : List Stmt) (m : ImpData)
    (sid' cid' : Nat), elabS env sn σ B C nx x sid cid = .ok (a, m, sid', cid') →
    IC env sn m (surfS env x cid).1 ∧ cid' = (surfS env x cid).2
  | .cmd c, B, C, nx, sid, cid, a, m, sid', cid', h => by
    simp only [elabS] at h
    split at h
    · cases h
    · rename_i cmd m1 hc
      simp only [Except.ok.injEq, Prod.mk.injEq] at h
      obtain ⟨_, ha, _, hcid⟩ := h
      subst ha
      simp only [surfS]
      refine ⟨?_, hcid.symm⟩
      exact IC.single hc
  | .label name _, B, C, nx, sid, cid, a, m, sid', cid', h => by
    simp only [elabS, Except.ok.injEq, Prod.mk.injEq] at h
    obtain ⟨_, ha, _, hcid⟩ := h
    subst ha
    simp only [surfS]
    refine ⟨?_, hcid.symm⟩
    exact IC.nil
  | .labelS name _ sc _ _, B, C, nx, sid, cid, a, m, sid', cid', h => by
    simp only [elabS, Except.ok.injEq, Prod.mk.injEq] at h
    obtain ⟨_, ha, _, hcid⟩ := h
    subst ha
    simp only [surfS]
    refine ⟨?_, hcid.symm⟩
    exact IC.nil
  | .ite ifTok _ c _ _ body _ elifs els, B, C, nx, sid, cid, a, m, sid', cid', h => by
    simp only [elabS] at h
    split at h
    · cases h
    · rename_i t mc cid0 h0
      split at h
      · cases h
      · rename_i b m1 sid1 cid1 h1
        split at h
        · cases h
        · rename_i es m2 sid2 cid2 h2
          split at h
          · cases h
          · rename_i el m3 sid3 cid3 h3
            simp only [Except.ok.injEq, Prod.mk.injEq] at h
            obtain ⟨_, ha, _, hcid⟩ := h
            subst ha
            obtain ⟨c0, e0⟩ := cond_imp env sn σ h0
            subst e0
            obtain ⟨c1, e1⟩ := elabL_imp body B C true sid _ b m1 sid1 cid1 h1
            subst e1
            obtain ⟨c2, e2⟩ := elabElifs_imp elifs B C sid1 _ es m2 sid2 cid2 h2
            subst e2
            obtain ⟨c3, e3⟩ := elabElse_imp els B C sid2 _ el m3 sid3 cid3 h3
            simp only [surfS]
            refine ⟨?_, hcid ▸ e3⟩
            exact c0.append (c1.append (c2.append c3))
  | .while_ w _ c _ _ body _, B, C, nx, sid, cid, a, m, sid', cid', h => by
    simp only [elabS] at h
    split at h
    · cases h
    · rename_i t mc cid0 h0
      split at h
      · cases h
      · rename_i b m1 sid1 cid1 h1
        simp only [Except.ok.injEq, Prod.mk.injEq] at h
        obtain ⟨_, ha, _, hcid⟩ := h
        subst ha
        obtain ⟨c0, e0⟩ := cond_imp env sn σ h0
        subst e0
        obtain ⟨c1, e1⟩ := elabL_imp body _ _ true _ _ b m1 sid1 cid1 h1
        simp only [surfS]
        refine ⟨?_, hcid ▸ e1⟩
        exact c0.append c1
  | .whileInf w _ body _, B, C, nx, sid, cid, a, m, sid', cid', h => by
    simp only [elabS] at h
    split at h
    · cases h
    · rename_i b m1 sid1 cid1 h1
      simp only [Except.ok.injEq, Prod.mk.injEq] at h
      obtain ⟨_, ha, _, hcid⟩ := h
      subst ha
      obtain ⟨c1, e1⟩ := elabL_imp body _ _ true _ _ b m1 sid1 cid1 h1
      simp only [surfS]
      refine ⟨?_, hcid ▸ e1⟩
      exact IC.nil.append c1
  | .doWhile d _ body _ _ _ c _, B, C, nx, sid, cid, a, m, sid', cid', h => by
    simp only [elabS] at h
    split at h
    · cases h
    · rename_i b m1 sid1 cid1 h1
      split at h
      · cases h
      · rename_i t mc cid2 h0
        simp only [Except.ok.injEq, Prod.mk.injEq] at h
        obtain ⟨_, ha, _, hcid⟩ := h
        subst ha
        obtain ⟨c1, e1⟩ := elabL_imp body _ _ true _ _ b m1 sid1 cid1 h1
        subst e1
        obtain ⟨c0, e0⟩ := cond_imp env sn σ h0
        simp only [surfS]
        refine ⟨?_, hcid ▸ e0⟩
        exact c1.append c0
  | .brk t, B, C, nx, sid, cid, a, m, sid', cid', h => by
    simp only [elabS] at h
    split at h
    · cases h
    · simp only [Except.ok.injEq, Prod.mk.injEq] at h
      obtain ⟨_, ha, _, hcid⟩ := h
      subst ha
      simp only [surfS]
      refine ⟨?_, hcid.symm⟩
      exact IC.nil
  | .cont t, B, C, nx, sid, cid, a, m, sid', cid', h => by
    simp only [elabS] at h
    split at h
    · cases h
    · split at h
      · simp only [Except.ok.injEq, Prod.mk.injEq] at h
        obtain ⟨_, ha, _, hcid⟩ := h
        subst ha
        simp only [surfS]
        refine ⟨?_, hcid.symm⟩
        exact IC.nil
      · cases h
  | .switch_ sw _ _ _ ops rp2 _ _ cases rb, B, C, nx, sid, cid, a, m, sid', cid', h => by
    simp only [elabS] at h
    split at h
    · cases h
    · rename_i cs m1 sid1 cid1 h1
      split at h
      · cases h
      · simp only [Except.ok.injEq, Prod.mk.injEq] at h
        obtain ⟨_, ha, _, hcid⟩ := h
        subst ha
        obtain ⟨c1, e1⟩ := elabCases_imp cases _ _ [] false _ _ cs m1 sid1 cid1 h1
        simp only [surfS]
        refine ⟨?_, hcid ▸ e1⟩
        exact c1
  | .switchA sw _ c _ _ cases rb, B, C, nx, sid, cid, a, m, sid', cid', h => by
    simp only [elabS] at h
    split at h
    · cases h
    · split at h
      · cases h
      · rename_i cmd mc hc
        split at h
        · cases h
        · split at h
          · cases h
          · rename_i cs m1 sid1 cid1 h1
            split at h
            · cases h
            · simp only [Except.ok.injEq, Prod.mk.injEq] at h
              obtain ⟨_, ha, _, hcid⟩ := h
              subst ha
              obtain ⟨c1, e1⟩ := elabCases_imp cases _ _ [] false _ _ cs m1 sid1 cid1 h1
              simp only [surfS]
              refine ⟨?_, hcid ▸ e1⟩
              exact IC.cons hc c1
  | .pory ps _ x _ _ cases _, B, C, nx, sid, cid, a, m, sid', cid', h => by
    simp only [elabS] at h
    split at h
    · cases h
    · split at h
      · cases h
      · split at h
        · cases h
        · rename_i table sid1 cid1 hp
          obtain ⟨ht, e1⟩ := elabPCases_imp cases B C [] [] sid cid table sid1 cid1 TCorr.nil hp
          simp only [surfS]
          split at h
          · rename_i r hsel
            simp only [Except.ok.injEq, Prod.mk.injEq] at h
            obtain ⟨_, ha, _, hcid⟩ := h
            subst ha
            obtain ⟨r', hr', hc⟩ := (select_ic ht _).2 r hsel
            simp only [hr', Option.getD_some]
            exact ⟨hc, hcid ▸ e1⟩
          · rename_i hsel
            split at h
            · cases h
            · simp only [Except.ok.injEq, Prod.mk.injEq] at h
              obtain ⟨_, ha, _, hcid⟩ := h
              subst ha
              simp only [(select_ic ht _).1 hsel, Option.getD_none]
              exact ⟨IC.nil, hcid ▸ e1⟩
theorem elabL_imp : (b : List SStmt) → ∀ (B C : List Nat) (last : Bool) (sid cid : Nat) (a : List Stmt)
    (m : ImpData) (sid' cid' : Nat), elabL env sn σ B C last b sid cid = .ok (a, m, sid', cid') →
    IC env sn m (surfL env b cid).1 ∧ cid' = (surfL env b cid).2
  | [], B, C, last, sid, cid, a, m, sid', cid', h => by
    simp only [elabL, Except.ok.injEq, Prod.mk.injEq] at h
    obtain ⟨_, ha, _, hcid⟩ := h
    subst ha
    simp only [surfL]
    exact ⟨IC.nil, hcid.symm⟩
  | x :: r, B, C, last, sid, cid, a, m, sid', cid', h => by
    simp only [elabL] at h
    split at h
    · cases h
    · rename_i a1 m1 sid1 cid1 h1
      split at h
      · cases h
      · rename_i a2 m2 sid2 cid2 h2
        simp only [Except.ok.injEq, Prod.mk.injEq] at h
        obtain ⟨_, ha, _, hcid⟩ := h
        subst ha
        obtain ⟨c1, e1⟩ := elabS_imp x B C _ sid cid a1 m1 sid1 cid1 h1
        subst e1
        obtain ⟨c2, e2⟩ := elabL_imp r B C last sid1 _ a2 m2 sid2 cid2 h2
        simp only [surfL]
        refine ⟨?_, hcid ▸ e2⟩
        exact c1.append c2
theorem elabElifs_imp : (es : List SElif) → ∀ (B C : List Nat) (sid cid : Nat)
    (a : List (BoolExpr × List Stmt)) (m : ImpData) (sid' cid' : Nat),
    elabElifs env sn σ B C es sid cid = .ok (a, m, sid', cid') →
    IC env sn m (surfElifs env es cid).1 ∧ cid' = (surfElifs env es cid).2
  | [], B, C, sid, cid, a, m, sid', cid', h => by
    simp only [elabElifs, Except.ok.injEq, Prod.mk.injEq] at h
    obtain ⟨_, ha, _, hcid⟩ := h
    subst ha
    simp only [surfElifs]
    exact ⟨IC.nil, hcid.symm⟩
  | .mk _ _ c _ _ body _ :: r, B, C, sid, cid, a, m, sid', cid', h => by
    simp only [elabElifs] at h
    split at h
    · cases h
    · rename_i t mc cid0 h0
      split at h
      · cases h
      · rename_i b m1 sid1 cid1 h1
        split at h
        · cases h
        · rename_i es m2 sid2 cid2 h2
          simp only [Except.ok.injEq, Prod.mk.injEq] at h
          obtain ⟨_, ha, _, hcid⟩ := h
          subst ha
          obtain ⟨c0, e0⟩ := cond_imp env sn σ h0
          subst e0
          obtain ⟨c1, e1⟩ := elabL_imp body B C true sid _ b m1 sid1 cid1 h1
          subst e1
          obtain ⟨c2, e2⟩ := elabElifs_imp r B C sid1 _ es m2 sid2 cid2 h2
          simp only [surfElifs]
          refine ⟨?_, hcid ▸ e2⟩
          exact c0.append (c1.append c2)
theorem elabElse_imp : (e : SElse) → ∀ (B C : List Nat) (sid cid : Nat) (a : Option (List Stmt)) (m : ImpData)
    (sid' cid' : Nat), elabElse env sn σ B C e sid cid = .ok (a, m, sid', cid') →
    IC env sn m (surfElse env e cid).1 ∧
      cid' = (surfElse env e cid).2
  | .none, B, C, sid, cid, a, m, sid', cid', h => by
    simp only [elabElse, Except.ok.injEq, Prod.mk.injEq] at h
    obtain ⟨_, ha, _, hcid⟩ := h
    subst ha
    simp only [surfElse]
    exact ⟨IC.nil, hcid.symm⟩
  | .some _ _ body _, B, C, sid, cid, a, m, sid', cid', h => by
    simp only [elabElse] at h
    split at h
    · cases h
    · rename_i b m1 sid1 cid1 h1
      simp only [Except.ok.injEq, Prod.mk.injEq] at h
      obtain ⟨_, ha, _, hcid⟩ := h
      subst ha
      obtain ⟨c1, e1⟩ := elabL_imp body B C true sid cid b m1 sid1 cid1 h1
      simp only [surfElse]
      exact ⟨c1, hcid ▸ e1⟩
theorem elabCases_imp : (cs : List SCase) → ∀ (B C : List Nat) (seen : List String) (hd : Bool) (sid cid : Nat)
    (a : List SwitchCase) (m : ImpData) (sid' cid' : Nat),
    elabCases env sn σ B C cs seen hd sid cid = .ok (a, m, sid', cid') →
    IC env sn m (surfCases env cs cid).1 ∧ cid' = (surfCases env cs cid).2
  | [], B, C, seen, hd, sid, cid, a, m, sid', cid', h => by
    simp only [elabCases, Except.ok.injEq, Prod.mk.injEq] at h
    obtain ⟨_, ha, _, hcid⟩ := h
    subst ha
    simp only [surfCases]
    exact ⟨IC.nil, hcid.symm⟩
  | .case c vs colon body :: r, B, C, seen, hd, sid, cid, a, m, sid', cid', h => by
    simp only [elabCases] at h
    split at h
    · cases h
    · split at h
      · cases h
      · rename_i b m1 sid1 cid1 h1
        split at h
        · cases h
        · rename_i cs m2 sid2 cid2 h2
          simp only [Except.ok.injEq, Prod.mk.injEq] at h
          obtain ⟨_, ha, _, hcid⟩ := h
          subst ha
          obtain ⟨c1, e1⟩ := elabL_imp body B C _ sid cid b m1 sid1 cid1 h1
          subst e1
          obtain ⟨c2, e2⟩ := elabCases_imp r B C _ _ sid1 _ cs m2 sid2 cid2 h2
          simp only [surfCases]
          refine ⟨?_, hcid ▸ e2⟩
          exact c1.append c2
  | .dflt d _ body :: r, B, C, seen, hd, sid, cid, a, m, sid', cid', h => by
    simp only [elabCases] at h
    split at h
    · cases h
    · split at h
      · cases h
      · rename_i b m1 sid1 cid1 h1
        split at h
        · cases h
        · rename_i cs m2 sid2 cid2 h2
          simp only [Except.ok.injEq, Prod.mk.injEq] at h
          obtain ⟨_, ha, _, hcid⟩ := h
          subst ha
          obtain ⟨c1, e1⟩ := elabL_imp body B C _ sid cid b m1 sid1 cid1 h1
          subst e1
          obtain ⟨c2, e2⟩ := elabCases_imp r B C _ _ sid1 _ cs m2 sid2 cid2 h2
          simp only [surfCases]
          refine ⟨?_, hcid ▸ e2⟩
          exact c1.append c2
theorem elabPCases_imp : (cs : List SPCase) → ∀ (B C : List Nat) (acc : List (String × List Stmt × ImpData))
    (acc' : List (String × List SCmd)) (sid cid : Nat) (T : List (String × List Stmt × ImpData))
    (sid' cid' : Nat), TCorr env sn acc acc' → elabPCases env sn σ B C cs acc sid cid = .ok (T, sid', cid') →
    TCorr env sn T (surfPCases env cs acc' cid).1 ∧ cid' = (surfPCases env cs acc' cid).2
  | [], B, C, acc, acc', sid, cid, T, sid', cid', hacc, h => by
    simp only [elabPCases, Except.ok.injEq, Prod.mk.injEq] at h
    obtain ⟨ha, _, hcid⟩ := h
    subst ha
    simp only [surfPCases]
    exact ⟨hacc, hcid.symm⟩
  | .colon key _ x :: r, B, C, acc, acc', sid, cid, T, sid', cid', hacc, h => by
    simp only [elabPCases] at h
    split at h
    · cases h
    · rename_i a1 m1 sid1 cid1 h1
      obtain ⟨c1, e1⟩ := elabS_imp x B C _ sid cid a1 m1 sid1 cid1 h1
      subst e1
      simp only [surfPCases]
      exact elabPCases_imp r B C _ _ sid1 _ T sid' cid' (TCorr.cons _ _ c1 hacc) h
  | .colon0 key _ :: r, B, C, acc, acc', sid, cid, T, sid', cid', hacc, h => by
    simp only [elabPCases] at h
    simp only [surfPCases]
    exact elabPCases_imp r B C _ _ sid cid T sid' cid'
      (TCorr.cons _ {} (IC.nil) hacc) h
  | .brace key _ body _ :: r, B, C, acc, acc', sid, cid, T, sid', cid', hacc, h => by
    simp only [elabPCases] at h
    split at h
    · cases h
    · rename_i a1 m1 sid1 cid1 h1
      obtain ⟨c1, e1⟩ := elabL_imp body B C true sid cid a1 m1 sid1 cid1 h1
      subst e1
      simp only [surfPCases]
      exact elabPCases_imp r B C _ _ sid1 _ T sid' cid' (TCorr.cons _ _ c1 hacc) h
end

end
end Pory.C06d
